import N0Verif.Proofs.XPathHiddenSet
/-!
  Creation through further hidden-list spellings (fix C03-e):

  * `setItem_hidden_wrap_toks` / `setItem_hidden_wrap_own_step`: `…q…/name/[e]/tail…` with `e` denoting `1` — the index
    written as a step of its own on the single value of `name` — wraps and appends exactly as `name[e]` does;
  * `setItem_hidden_create_middle`: `…q…/name[e]/n/ns…` with `e` denoting `0` / `-1`, `name` holding a dict in which `n`
    is fresh: the hidden index in the middle of the creation path changes nothing;
  * `hidden_place_one_elem`, `setItem_hidden_elem_refuse_toks`, `setItem_hidden_elem_refuse`: an index other than
    `0` / `-1` on a single value that is an element of a list (`…[i][e]…`): `SyntaxError`, the tree unchanged.
-/
namespace N0.XPath
open N0 N0.Py N0.Val

/-! ### (1) `name/[1]`: the index as a step of its own -/

/-- **core**: tokens of the plain path of `name` (a single value in the dict at `q`), then the index token `[e]` with
`e` denoting `1`, then fresh names: wrap and append -/
theorem setItem_hidden_wrap_toks (cls : Cls) (kvs : List (Str × Val)) (q : Pos) (kcls : Cls) (nkvs : List (Str × Val))
    (name : Str) (old : Val) (e : IdxSp) (tail : List Str) (v t' : Val) (xp : Str) (fuel : Nat)
    (hp : PlainPos q) (hget : getAt (.dict cls kvs) q = some (.dict kcls nkvs)) (hn : PlainKey name)
    (hl : lookup name nkvs = some old) (hs : isList old = false) (he : e.val = 1) (ht : ∀ x ∈ tail, PlainKey x)
    (hset : setAt (.dict cls kvs) (q ++ [.key name]) (.list .n0 [old, chain tail v]) = some t')
    (hq : startsWith xp ['?'] = false) (hpc : hasPathChar xp = true)
    (htok : tokenize xp = mergedToks (q ++ [.key name]) ++ bracket e.text :: tail)
    (hf : fuel ≥ 2 * q.length + 3) :
    setItem fuel (.dict cls kvs) xp v = (t', .ok ()) := by
  have hP : getAt (.dict cls kvs) (q ++ [Seg.key name]) = some old := by
    rw [getAt_snoc, hget]; simp [child, hl]
  have hpp : PlainPos (q ++ [Seg.key name]) := hp.append ⟨hn, trivial⟩
  have hlen := mergedToks_length_le (q ++ [Seg.key name])
  simp only [List.length_append, List.length_cons, List.length_nil] at hlen
  obtain ⟨f', en, h1, _, hwalk⟩ := find_walk (.dict cls kvs) true (spellsF_merged _ _ _ hpp hP)
    (bracket e.text :: tail) (by simp) fuel [] slash true rfl (by omega)
  obtain ⟨f, rfl⟩ : ∃ f, f' = f + 1 := ⟨f' - 1, by omega⟩
  rw [List.nil_append, hidden_find_miss f _ en true _ _ _ _ _ old tail hP hs e.idxTok (Or.inl (by omega)), he] at hwalk
  have hhid := hidden_place_one fuel (.dict cls kvs) q kcls nkvs name old (bracket e.text) tail hp hn hget hl (by omega)
  obtain ⟨root1, hs1⟩ := setAt_isSome q (.dict cls kvs) _ (.dict kcls (kvSet name (.list .n0 [old, Val.none]) nkvs)) hget
  have hadd : AddStores (.dict cls kvs) (.at q) Option.none ((name ++ bracket sNew) :: tail) v t' := by
    refine addStores_step (addStep_existing_new _ root1 q kcls nkvs name old hget hn hl hs1) ?_
    have hs1' : setAt (.dict cls kvs) (q ++ [Seg.key name]) (.list .n0 [old, Val.none]) = some root1 := by
      rw [setAt_snoc q _ (.key name) _ _ (.dict kcls (kvSet name (.list .n0 [old, Val.none]) nkvs)) hget (by simp [setChild])]
      exact hs1
    apply cont_placeholder root1 (q ++ [Seg.key name]) .n0 [old] tail v t'
      (getAt_setAt_same _ _ root1 _ hs1' (fun _ _ => trivial)) ht
    rw [setAt_overwrite _ _ root1 _ _ hs1']
    exact hset
  obtain ⟨root', par', ni', ha, hst⟩ := hadd
  unfold setItem
  simp only [hq, Bool.false_and, Bool.false_eq_true, if_false, hpc, if_true, htok, hwalk, hhid, List.isEmpty_cons,
    Bool.not_false, ha, hst]

/-- **`…q…/name/[e]/tail…` with `e` denoting `1`** (the index as a step of its own on the single value of `name`): the
value is wrapped as the first element and exactly one element is appended — what `name[e]` does -/
theorem setItem_hidden_wrap_own_step (cls : Cls) (kvs : List (Str × Val)) (q : Pos) (kcls : Cls) (nkvs : List (Str × Val))
    (name : Str) (old : Val) (e : IdxSp) (tail : List Str) (v t' : Val) (fuel : Nat)
    (hp : PlainPos q) (hget : getAt (.dict cls kvs) q = some (.dict kcls nkvs)) (hn : PlainKey name)
    (hl : lookup name nkvs = some old) (hs : isList old = false) (he : e.val = 1) (ht : ∀ x ∈ tail, PlainKey x)
    (hset : setAt (.dict cls kvs) (q ++ [.key name]) (.list .n0 [old, chain tail v]) = some t')
    (hf : fuel ≥ 2 * q.length + 3) :
    setItem fuel (.dict cls kvs)
      (slash ++ renderPos (q ++ [.key name]) ++ slash ++ bracket e.text ++ renderPos (tail.map Seg.key)) v
      = (t', .ok ()) := by
  have hpp : PlainPos (q ++ [Seg.key name]) := hp.append ⟨hn, trivial⟩
  apply setItem_hidden_wrap_toks cls kvs q kcls nkvs name old e tail v t' _ fuel hp hget hn hl hs he ht hset _ _ _ hf
  · simp [slash, startsWith, List.append_assoc]
  · simp [hasPathChar, slash]
  · rw [tokenize_then_names _ tail ht]
    have : slash ++ renderPos (q ++ [Seg.key name]) ++ slash ++ bracket e.text
        = ('/' :: renderPos (q ++ [Seg.key name])) ++ '/' :: bracket e.text := by
      simp [slash]
    rw [this, tokenize_append_slash, tokenize_render _ hpp, tokenize_bracket _ (hidden_cleanIdx e)]
    simp

/-! ### (2) a hidden index in the middle of a creation path -/

/-- **`…q…/name[e]/n/ns…` with `e` denoting `0` / `-1`, `name` holding a dict in which `n` is fresh**: the nested
dictionaries `{n: {ns…: v}}` are created below `name` — the reference tree of the canonical path `…q…/name/n/ns…` -/
theorem setItem_hidden_create_middle (cls : Cls) (kvs : List (Str × Val)) (q : Pos) (kcls : Cls) (nkvs : List (Str × Val))
    (name : Str) (ocls : Cls) (okvs : List (Str × Val)) (e : IdxSp) (n : Str) (ns : List Str) (v t' : Val) (fuel : Nat)
    (hp : PlainPos q) (hget : getAt (.dict cls kvs) q = some (.dict kcls nkvs)) (hn : PlainKey name)
    (hl : lookup name nkvs = some (.dict ocls okvs)) (he : e.val = 0 ∨ e.val = -1)
    (hfresh : lookup n okvs = Option.none) (hnn : PlainKey n) (hns : ∀ m ∈ ns, PlainKey m)
    (hset : setAt (.dict cls kvs) (q ++ [.key name] ++ [.key n]) (chain ns v) = some t')
    (hf : fuel ≥ 2 * q.length + 4) :
    setItem fuel (.dict cls kvs)
      (slash ++ renderPos q ++ slash ++ (name ++ bracket e.text) ++ renderPos ((n :: ns).map Seg.key)) v
      = (t', .ok ()) := by
  have hP : getAt (.dict cls kvs) (q ++ [Seg.key name]) = some (.dict ocls okvs) := by
    rw [getAt_snoc, hget]; simp [child, hl]
  obtain ⟨f', en, hfl, hwalk⟩ := hidden_walk cls kvs q kcls nkvs name (.dict ocls okvs) e (n :: ns) fuel hp hget hn hl
    (by omega)
  obtain ⟨f, rfl⟩ : ∃ f, f' = f + 1 := ⟨f' - 1, by omega⟩
  rw [hidden_find_step (f + 1) _ en true _ _ _ _ _ (.dict ocls okvs) (n :: ns) (by simp) hP rfl e.idxTok he,
    find_name_miss f _ false true (q ++ [Seg.key name]) _ n n .none ns ocls okvs hP hnn.keyTok.split hnn.ne hnn.notUp
      hnn.keyTok.notStar hfresh] at hwalk
  have htok := tokenize_elem_path q hp hn (hidden_cleanIdx e) (n :: ns)
    (by intro m hm; simp at hm; rcases hm with rfl | hm; exact hnn; exact hns m hm)
  obtain ⟨root', par, ni, hadd, hst⟩ := add_store_chain (.dict cls kvs) (q ++ [Seg.key name]) ocls okvs n ns v t' hP hnn
    hfresh hns hset
  unfold setItem
  simp only [show startsWith (slash ++ renderPos q ++ slash ++ (name ++ bracket e.text) ++ renderPos ((n :: ns).map Seg.key)) ['?']
      = false by simp [slash, startsWith, List.append_assoc],
    Bool.false_and, Bool.false_eq_true, if_false,
    show hasPathChar (slash ++ renderPos q ++ slash ++ (name ++ bracket e.text) ++ renderPos ((n :: ns).map Seg.key)) = true by
      simp [hasPathChar, slash],
    if_true, htok, hwalk, hiddenPlace_mk_at, List.isEmpty_cons, Bool.not_false, hadd, hst]

/-- the canonical path `…q…/name/n/ns…` below the dict held by `name` (`setItem_create_names` at `q ++ [name]`) -/
theorem setItem_create_below (cls : Cls) (kvs : List (Str × Val)) (q : Pos) (kcls : Cls) (nkvs : List (Str × Val))
    (name : Str) (ocls : Cls) (okvs : List (Str × Val)) (n : Str) (ns : List Str) (v t' : Val) (fuel : Nat)
    (hp : PlainPos q) (hget : getAt (.dict cls kvs) q = some (.dict kcls nkvs)) (hn : PlainKey name)
    (hl : lookup name nkvs = some (.dict ocls okvs))
    (hfresh : lookup n okvs = Option.none) (hnn : PlainKey n) (hns : ∀ m ∈ ns, PlainKey m)
    (hset : setAt (.dict cls kvs) (q ++ [.key name] ++ [.key n]) (chain ns v) = some t')
    (hf : fuel ≥ 2 * q.length + 4) :
    setItem fuel (.dict cls kvs) (slash ++ renderPos (q ++ [.key name] ++ (n :: ns).map Seg.key)) v = (t', .ok ()) := by
  have hP : getAt (.dict cls kvs) (q ++ [Seg.key name]) = some (.dict ocls okvs) := by
    rw [getAt_snoc, hget]; simp [child, hl]
  have hpp : PlainPos (q ++ [Seg.key name]) := hp.append ⟨hn, trivial⟩
  have hlen : (q ++ [Seg.key name]).length = q.length + 1 := by simp
  exact setItem_create_names cls kvs (q ++ [Seg.key name]) ocls okvs n ns v t' fuel hpp hP hfresh hnn hns hset
    (by rw [hlen]; omega)

/-- **core of the middle case, any plain `P`**: tokens of `P`, the index token `[e]` (`0` / `-1`) on the dict at `P`, then
fresh names `n :: ns` -/
theorem setItem_hidden_create_middle_toks (cls : Cls) (kvs : List (Str × Val)) (P : Pos) (ocls : Cls)
    (okvs : List (Str × Val)) (e : IdxSp) (n : Str) (ns : List Str) (v t' : Val) (xp : Str) (fuel : Nat)
    (hp : PlainPos P) (hP : getAt (.dict cls kvs) P = some (.dict ocls okvs)) (he : e.val = 0 ∨ e.val = -1)
    (hfresh : lookup n okvs = Option.none) (hnn : PlainKey n) (hns : ∀ m ∈ ns, PlainKey m)
    (hset : setAt (.dict cls kvs) (P ++ [.key n]) (chain ns v) = some t')
    (hq : startsWith xp ['?'] = false) (hpc : hasPathChar xp = true)
    (htok : tokenize xp = mergedToks P ++ bracket e.text :: n :: ns)
    (hf : fuel ≥ 2 * P.length + 2) :
    setItem fuel (.dict cls kvs) xp v = (t', .ok ()) := by
  have hlen := mergedToks_length_le P
  obtain ⟨f', en, h1, _, hwalk⟩ := find_walk (.dict cls kvs) true (spellsF_merged P _ _ hp hP)
    (bracket e.text :: n :: ns) (by simp) fuel [] slash true rfl (by omega)
  obtain ⟨f, rfl⟩ : ∃ f, f' = f + 2 := ⟨f' - 2, by omega⟩
  rw [List.nil_append, hidden_find_step (f + 1) _ en true _ _ _ _ _ (.dict ocls okvs) (n :: ns) (by simp) hP rfl e.idxTok he,
    find_name_miss f _ false true P _ n n .none ns ocls okvs hP hnn.keyTok.split hnn.ne hnn.notUp
      hnn.keyTok.notStar hfresh] at hwalk
  obtain ⟨root', par, ni, hadd, hst⟩ := add_store_chain (.dict cls kvs) P ocls okvs n ns v t' hP hnn hfresh hns hset
  unfold setItem
  simp only [hq, Bool.false_and, Bool.false_eq_true, if_false, hpc, if_true, htok, hwalk, hiddenPlace_mk_at,
    List.isEmpty_cons, Bool.not_false, hadd, hst]

/-- **`…P…/[e]/n/ns…`: the hidden index as a step of its own in the middle of a creation path** -/
theorem setItem_hidden_create_middle_own (cls : Cls) (kvs : List (Str × Val)) (P : Pos) (ocls : Cls)
    (okvs : List (Str × Val)) (e : IdxSp) (n : Str) (ns : List Str) (v t' : Val) (fuel : Nat)
    (hp : PlainPos P) (hP : getAt (.dict cls kvs) P = some (.dict ocls okvs)) (he : e.val = 0 ∨ e.val = -1)
    (hfresh : lookup n okvs = Option.none) (hnn : PlainKey n) (hns : ∀ m ∈ ns, PlainKey m)
    (hset : setAt (.dict cls kvs) (P ++ [.key n]) (chain ns v) = some t')
    (hf : fuel ≥ 2 * P.length + 2) :
    setItem fuel (.dict cls kvs) (slash ++ renderPos P ++ slash ++ bracket e.text ++ renderPos ((n :: ns).map Seg.key)) v
      = (t', .ok ()) := by
  have hall : ∀ m ∈ n :: ns, PlainKey m := by
    intro m hm; simp at hm; rcases hm with rfl | hm; exact hnn; exact hns m hm
  apply setItem_hidden_create_middle_toks cls kvs P ocls okvs e n ns v t' _ fuel hp hP he hfresh hnn hns hset _ _ _ hf
  · simp [slash, startsWith, List.append_assoc]
  · simp [hasPathChar, slash]
  · rw [tokenize_then_names _ (n :: ns) hall]
    have : slash ++ renderPos P ++ slash ++ bracket e.text = ('/' :: renderPos P) ++ '/' :: bracket e.text := by
      simp [slash]
    rw [this, tokenize_append_slash, tokenize_render P hp, tokenize_bracket _ (hidden_cleanIdx e)]
    simp

/-- **`…q0…[i][e]/n/ns…`: a hidden index on a list element (a dict) in the middle of a creation path** -/
theorem setItem_hidden_create_middle_elem (cls : Cls) (kvs : List (Str × Val)) (q0 : Pos) (i : Nat) (ocls : Cls)
    (okvs : List (Str × Val)) (e : IdxSp) (n : Str) (ns : List Str) (v t' : Val) (fuel : Nat)
    (hp : PlainPos (q0 ++ [Seg.idx i])) (hP : getAt (.dict cls kvs) (q0 ++ [Seg.idx i]) = some (.dict ocls okvs))
    (he : e.val = 0 ∨ e.val = -1)
    (hfresh : lookup n okvs = Option.none) (hnn : PlainKey n) (hns : ∀ m ∈ ns, PlainKey m)
    (hset : setAt (.dict cls kvs) (q0 ++ [Seg.idx i] ++ [.key n]) (chain ns v) = some t')
    (hf : fuel ≥ 2 * (q0.length + 1) + 2) :
    setItem fuel (.dict cls kvs)
      (slash ++ renderPos (q0 ++ [Seg.idx i]) ++ bracket e.text ++ renderPos ((n :: ns).map Seg.key)) v = (t', .ok ()) := by
  have hall : ∀ m ∈ n :: ns, PlainKey m := by
    intro m hm; simp at hm; rcases hm with rfl | hm; exact hnn; exact hns m hm
  apply setItem_hidden_create_middle_toks cls kvs (q0 ++ [Seg.idx i]) ocls okvs e n ns v t' _ fuel hp hP he hfresh hnn hns
    hset _ _ _ (by simpa using hf)
  · simp [slash, startsWith]
  · simp [hasPathChar, slash]
  · rw [tokenize_then_names _ (n :: ns) hall, renderPos_snoc_idx, tokenize_append_bracket _ e.text (hidden_cleanIdx e),
      ← renderPos_snoc_idx,
      show slash ++ renderPos (q0 ++ [Seg.idx i]) = '/' :: renderPos (q0 ++ [Seg.idx i]) from rfl,
      tokenize_render _ hp]
    simp

/-! ### (3) the refusal for an element of a list -/

/-- item `[1]` of the hidden list around a single value that is element `i` of a list: the place `_find` reports for
the value is a list, not a key of a dict — `__setitem__` leaves the hidden list (which `_add` then refuses) -/
theorem hidden_place_one_elem (fuel : Nat) (root : Val) (q0 : Pos) (i : Nat) (old : Val) (tok : Str) (rest : List Str)
    (hp : PlainPos (q0 ++ [Seg.idx i])) (hP : getAt root (q0 ++ [Seg.idx i]) = some old)
    (hf : fuel ≥ 2 * (q0.length + 1)) :
    hiddenPlace fuel root ({ parent := .wrap (.at (q0 ++ [Seg.idx i])), nameIdx := some (bracket (intStr 1)), value := Val.none, found := slash ++ renderPos (q0 ++ [Seg.idx i]), notFound := some (tok :: rest) } : Res)
      = .ok ({ parent := .wrap (.at (q0 ++ [Seg.idx i])), nameIdx := some (bracket (intStr 1)), value := Val.none, found := slash ++ renderPos (q0 ++ [Seg.idx i]), notFound := some (tok :: rest) } : Res) := by
  have hs := spells_merged (q0 ++ [Seg.idx i]) root old hp hP
  have hlen := mergedToks_length_le (q0 ++ [Seg.idx i])
  simp only [List.length_append, List.length_cons, List.length_nil] at hlen
  obtain ⟨r1, hr1, hfound⟩ := find_spells root true hs (mergedToks_ne_nil _ (by simp)) fuel [] slash true rfl (by omega)
  have htok : tokenize (slash ++ renderPos (q0 ++ [Seg.idx i])) = mergedToks (q0 ++ [Seg.idx i]) := tokenize_render _ hp
  obtain ⟨_, _, pp, s, pv, ni, hsplit, hpar, hpv, hni, hname⟩ := hfound
  obtain ⟨rfl, hsi⟩ := List.append_inj' hsplit rfl
  have hsi' : s = Seg.idx i := by simpa using hsi.symm
  subst hsi'
  simp only [List.nil_append] at hpar hpv
  rcases hname.inv with ⟨_, _, k, _, hk, _⟩ | ⟨lcls, xs, n, j, rfl, _, _, _⟩
  · cases hk
  · simp only [hiddenPlace, isWrap, hidden_intStr_one, List.isEmpty_cons, Bool.false_or, decide_true, Bool.and_self,
      if_true, htok, hr1, Bool.false_eq_true, if_false, hpar, valOf_at, hpv]

/-- **core**: tokens of the plain path of element `i` of a list (a single value), then the index token `[e]` with `e`
denoting anything but `0` / `-1`, then any tokens: `SyntaxError`, the tree is the tree before the call -/
theorem setItem_hidden_elem_refuse_toks (cls : Cls) (kvs : List (Str × Val)) (q0 : Pos) (i : Nat) (old : Val) (e : IdxSp)
    (tail : List Str) (v : Val) (xp : Str) (fuel : Nat)
    (hp : PlainPos (q0 ++ [Seg.idx i])) (hP : getAt (.dict cls kvs) (q0 ++ [Seg.idx i]) = some old)
    (hs : isList old = false) (he : e.val ≥ 1 ∨ e.val < -1)
    (hq : startsWith xp ['?'] = false) (hpc : hasPathChar xp = true)
    (htok : tokenize xp = mergedToks (q0 ++ [Seg.idx i]) ++ bracket e.text :: tail)
    (hf : fuel ≥ 2 * (q0.length + 1) + 1) :
    setItem fuel (.dict cls kvs) xp v = (.dict cls kvs, .error .SyntaxError) := by
  have hlen := mergedToks_length_le (q0 ++ [Seg.idx i])
  simp only [List.length_append, List.length_cons, List.length_nil] at hlen
  obtain ⟨f', en, h1, _, hwalk⟩ := find_walk (.dict cls kvs) true (spellsF_merged _ _ _ hp hP)
    (bracket e.text :: tail) (by simp) fuel [] slash true rfl (by omega)
  obtain ⟨f, rfl⟩ : ∃ f, f' = f + 1 := ⟨f' - 1, by omega⟩
  rw [List.nil_append, hidden_find_miss f _ en true _ _ _ _ _ old tail hP hs e.idxTok he] at hwalk
  have hhid : hiddenPlace fuel (.dict cls kvs) ({ parent := .wrap (.at (q0 ++ [Seg.idx i])), nameIdx := some (bracket (intStr e.val)), value := Val.none, found := slash ++ renderPos (q0 ++ [Seg.idx i]), notFound := some (bracket e.text :: tail) } : Res)
      = .ok ({ parent := .wrap (.at (q0 ++ [Seg.idx i])), nameIdx := some (bracket (intStr e.val)), value := Val.none, found := slash ++ renderPos (q0 ++ [Seg.idx i]), notFound := some (bracket e.text :: tail) } : Res) := by
    by_cases h1 : e.val = 1
    · rw [h1]; exact hidden_place_one_elem fuel _ q0 i old _ tail hp hP (by omega)
    · exact hidden_place_other fuel _ _ e.val Val.none _ _ tail h1
  have hadd : add (.dict cls kvs) (.wrap (.at (q0 ++ [Seg.idx i]))) (some (bracket (intStr e.val))) (bracket e.text :: tail)
      = (.dict cls kvs, .error .SyntaxError) := by
    rcases hidden_addStep_refused (.dict cls kvs) (.at (q0 ++ [Seg.idx i])) e.val e with h | h
    · simp [add, h]
    · simp [valOf, hP] at h
  unfold setItem
  simp only [hq, Bool.false_and, Bool.false_eq_true, if_false, hpc, if_true, htok, hwalk, hhid, List.isEmpty_cons,
    Bool.not_false, hadd]

/-- **`…q0…[i][e]/tail…` on a single value that is element `i` of a list, `e` denoting anything but `0` / `-1`** (also
`1`: no key could hold the new list): `SyntaxError`, the tree is the tree before the call -/
theorem setItem_hidden_elem_refuse (cls : Cls) (kvs : List (Str × Val)) (q0 : Pos) (i : Nat) (old : Val) (e : IdxSp)
    (tail : List Str) (v : Val) (fuel : Nat)
    (hp : PlainPos (q0 ++ [Seg.idx i])) (hP : getAt (.dict cls kvs) (q0 ++ [Seg.idx i]) = some old)
    (hs : isList old = false) (he : e.val ≥ 1 ∨ e.val < -1) (ht : ∀ x ∈ tail, PlainKey x)
    (hf : fuel ≥ 2 * (q0.length + 1) + 1) :
    setItem fuel (.dict cls kvs)
      (slash ++ renderPos (q0 ++ [Seg.idx i]) ++ bracket e.text ++ renderPos (tail.map Seg.key)) v
      = (.dict cls kvs, .error .SyntaxError) := by
  apply setItem_hidden_elem_refuse_toks cls kvs q0 i old e tail v _ fuel hp hP hs he _ _ _ hf
  · simp [slash, startsWith]
  · simp [hasPathChar, slash]
  · rw [tokenize_then_names _ tail ht, renderPos_snoc_idx, tokenize_append_bracket _ e.text (hidden_cleanIdx e),
      ← renderPos_snoc_idx,
      show slash ++ renderPos (q0 ++ [Seg.idx i]) = '/' :: renderPos (q0 ++ [Seg.idx i]) from rfl,
      tokenize_render _ hp]
    simp

/-- the same with the index as a step of its own: `…q0…[i]/[e]/tail…` -/
theorem setItem_hidden_elem_refuse_own (cls : Cls) (kvs : List (Str × Val)) (q0 : Pos) (i : Nat) (old : Val) (e : IdxSp)
    (tail : List Str) (v : Val) (fuel : Nat)
    (hp : PlainPos (q0 ++ [Seg.idx i])) (hP : getAt (.dict cls kvs) (q0 ++ [Seg.idx i]) = some old)
    (hs : isList old = false) (he : e.val ≥ 1 ∨ e.val < -1) (ht : ∀ x ∈ tail, PlainKey x)
    (hf : fuel ≥ 2 * (q0.length + 1) + 1) :
    setItem fuel (.dict cls kvs)
      (slash ++ renderPos (q0 ++ [Seg.idx i]) ++ slash ++ bracket e.text ++ renderPos (tail.map Seg.key)) v
      = (.dict cls kvs, .error .SyntaxError) := by
  apply setItem_hidden_elem_refuse_toks cls kvs q0 i old e tail v _ fuel hp hP hs he _ _ _ hf
  · simp [slash, startsWith, List.append_assoc]
  · simp [hasPathChar, slash]
  · rw [tokenize_then_names _ tail ht]
    have : slash ++ renderPos (q0 ++ [Seg.idx i]) ++ slash ++ bracket e.text
        = ('/' :: renderPos (q0 ++ [Seg.idx i])) ++ '/' :: bracket e.text := by
      simp [slash]
    rw [this, tokenize_append_slash, tokenize_render _ hp, tokenize_bracket _ (hidden_cleanIdx e)]
    simp

/-! ### (4) the refusal on the root -/

theorem tokenize_slash_nil : tokenize slash = [] := by decide

/-- item `[1]` of the hidden list around the root: there is no key that holds the root — `__setitem__` leaves the hidden
list (which `_add` then refuses) -/
theorem hidden_place_one_root (fuel : Nat) (cls : Cls) (kvs : List (Str × Val)) (tok : Str) (rest : List Str) :
    hiddenPlace (fuel + 1) (.dict cls kvs) ({ parent := .wrap (.at []), nameIdx := some (bracket (intStr 1)), value := Val.none, found := slash, notFound := some (tok :: rest) } : Res)
      = .ok ({ parent := .wrap (.at []), nameIdx := some (bracket (intStr 1)), value := Val.none, found := slash, notFound := some (tok :: rest) } : Res) := by
  have hfind : findD (fuel + 1) (.dict cls kvs) [] false true [] (.at []) true slash
      = .ok (.dict cls kvs, { parent := .at [], nameIdx := Option.none, value := .dict cls kvs, found := slash,
                              notFound := Option.none }) := by
    rw [findD]; simp [valOf_at, getAt]
  simp only [hiddenPlace, isWrap, hidden_intStr_one, List.isEmpty_cons, Bool.false_or, decide_true, Bool.and_self,
    if_true, tokenize_slash_nil, hfind, Bool.false_eq_true, if_false]
  split
  · rename_i h1 h2; cases h2
  · rfl

/-- **core**: a text whose tokens are the index token `[e]` (`e` denoting anything but `0` / `-1`) followed by any
tokens, on a dict root: `SyntaxError`, the tree is the tree before the call -/
theorem setItem_hidden_root_refuse_toks (cls : Cls) (kvs : List (Str × Val)) (e : IdxSp) (tail : List Str) (v : Val)
    (xp : Str) (fuel : Nat) (he : e.val ≥ 1 ∨ e.val < -1)
    (hq : startsWith xp ['?'] = false) (hpc : hasPathChar xp = true)
    (htok : tokenize xp = bracket e.text :: tail) (hf : fuel ≥ 1) :
    setItem fuel (.dict cls kvs) xp v = (.dict cls kvs, .error .SyntaxError) := by
  obtain ⟨f, rfl⟩ : ∃ f, fuel = f + 1 := ⟨fuel - 1, by omega⟩
  have hP : getAt (.dict cls kvs) [] = some (.dict cls kvs) := by simp [getAt]
  have hwalk := hidden_find_miss f (.dict cls kvs) true true [] slash _ _ _ (.dict cls kvs) tail hP rfl e.idxTok he
  have hhid : hiddenPlace (f + 1) (.dict cls kvs) ({ parent := .wrap (.at []), nameIdx := some (bracket (intStr e.val)), value := Val.none, found := slash, notFound := some (bracket e.text :: tail) } : Res)
      = .ok ({ parent := .wrap (.at []), nameIdx := some (bracket (intStr e.val)), value := Val.none, found := slash, notFound := some (bracket e.text :: tail) } : Res) := by
    by_cases h1 : e.val = 1
    · rw [h1]; exact hidden_place_one_root f cls kvs _ tail
    · exact hidden_place_other (f + 1) _ _ e.val Val.none _ _ tail h1
  have hadd : add (.dict cls kvs) (.wrap (.at [])) (some (bracket (intStr e.val))) (bracket e.text :: tail)
      = (.dict cls kvs, .error .SyntaxError) := by
    rcases hidden_addStep_refused (.dict cls kvs) (.at []) e.val e with h | h
    · simp [add, h]
    · simp [valOf, hP] at h
  unfold setItem
  simp only [hq, Bool.false_and, Bool.false_eq_true, if_false, hpc, if_true, htok, hwalk, hhid, List.isEmpty_cons,
    Bool.not_false, hadd]

/-- **`[e]/tail…` and `//[e]/tail…` on a dict root, `e` denoting anything but `0` / `-1`** -/
theorem setItem_hidden_root_refuse (cls : Cls) (kvs : List (Str × Val)) (e : IdxSp) (tail : List Str) (v : Val)
    (fuel : Nat) (he : e.val ≥ 1 ∨ e.val < -1) (ht : ∀ x ∈ tail, PlainKey x) (hf : fuel ≥ 1) :
    setItem fuel (.dict cls kvs) (bracket e.text ++ renderPos (tail.map Seg.key)) v
      = (.dict cls kvs, .error .SyntaxError) ∧
    setItem fuel (.dict cls kvs) (slash ++ slash ++ bracket e.text ++ renderPos (tail.map Seg.key)) v
      = (.dict cls kvs, .error .SyntaxError) := by
  constructor
  · apply setItem_hidden_root_refuse_toks cls kvs e tail v _ fuel he _ _ _ hf
    · simp [bracket, startsWith]
    · simp [hasPathChar, bracket]
    · rw [tokenize_then_names _ tail ht, tokenize_bracket _ (hidden_cleanIdx e)]; rfl
  · apply setItem_hidden_root_refuse_toks cls kvs e tail v _ fuel he _ _ _ hf
    · simp [slash, startsWith]
    · simp [hasPathChar, slash]
    · rw [tokenize_then_names _ tail ht]
      have : slash ++ slash ++ bracket e.text = ([] : Str) ++ '/' :: (([] : Str) ++ '/' :: bracket e.text) := by
        simp [slash]
      rw [this, tokenize_append_slash, tokenize_append_slash, tokenize_bracket _ (hidden_cleanIdx e)]
      have : tokenize [] = [] := by decide
      rw [this]; simp

/-! ### (5) `P/[e]` with `e` denoting neither `0`, `-1` nor `1`: refused at any plain position -/

/-- **`…P…/[e]/tail…` on the single value at ANY plain position `P`, `e` denoting `≥ 2` or `< -1`**: `SyntaxError`, the
tree is the tree before the call -/
theorem setItem_hidden_own_step_refuse (cls : Cls) (kvs : List (Str × Val)) (P : Pos) (old : Val) (e : IdxSp)
    (tail : List Str) (v : Val) (fuel : Nat)
    (hp : PlainPos P) (hP : getAt (.dict cls kvs) P = some old) (hs : isList old = false)
    (he : e.val ≥ 2 ∨ e.val < -1) (ht : ∀ x ∈ tail, PlainKey x) (hf : fuel ≥ 2 * P.length + 1) :
    setItem fuel (.dict cls kvs) (slash ++ renderPos P ++ slash ++ bracket e.text ++ renderPos (tail.map Seg.key)) v
      = (.dict cls kvs, .error .SyntaxError) := by
  have hlen := mergedToks_length_le P
  obtain ⟨f', en, h1, _, hwalk⟩ := find_walk (.dict cls kvs) true (spellsF_merged P _ _ hp hP)
    (bracket e.text :: tail) (by simp) fuel [] slash true rfl (by omega)
  obtain ⟨f, rfl⟩ : ∃ f, f' = f + 1 := ⟨f' - 1, by omega⟩
  rw [List.nil_append, hidden_find_miss f _ en true _ _ _ _ _ old tail hP hs e.idxTok (by omega)] at hwalk
  have hhid := hidden_place_other fuel (.dict cls kvs) (.wrap (.at P)) e.val Val.none
    (slash ++ renderPos P) (bracket e.text) tail (by omega)
  have hadd : add (.dict cls kvs) (.wrap (.at P)) (some (bracket (intStr e.val))) (bracket e.text :: tail)
      = (.dict cls kvs, .error .SyntaxError) := by
    rcases hidden_addStep_refused (.dict cls kvs) (.at P) e.val e with h | h
    · simp [add, h]
    · simp [valOf, hP] at h
  have htok : tokenize (slash ++ renderPos P ++ slash ++ bracket e.text ++ renderPos (tail.map Seg.key))
      = mergedToks P ++ bracket e.text :: tail := by
    rw [tokenize_then_names _ tail ht]
    have : slash ++ renderPos P ++ slash ++ bracket e.text = ('/' :: renderPos P) ++ '/' :: bracket e.text := by
      simp [slash]
    rw [this, tokenize_append_slash, tokenize_render P hp, tokenize_bracket _ (hidden_cleanIdx e)]
    simp
  unfold setItem
  simp only [show startsWith (slash ++ renderPos P ++ slash ++ bracket e.text ++ renderPos (tail.map Seg.key)) ['?']
      = false by simp [slash, startsWith, List.append_assoc],
    Bool.false_and, Bool.false_eq_true, if_false,
    show hasPathChar (slash ++ renderPos P ++ slash ++ bracket e.text ++ renderPos (tail.map Seg.key)) = true by
      simp [hasPathChar, slash],
    if_true, htok, hwalk, hhid, List.isEmpty_cons, Bool.not_false, hadd]

end N0.XPath
