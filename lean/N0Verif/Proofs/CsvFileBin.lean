import N0Verif.Proofs.CsvReader
import N0Verif.Proofs.CsvEnc
/-!
  Helper lemmas for the strip options in **binary read mode** (finding C14-g): there the cells are
  `bytes`, so `strip_field` / `strip_line` call `bytes.strip()`, which removes ASCII blanks only
  (`isAsciiWsByte`), while text mode removes every `str.isspace()` character (`isPySpace`).

  * `csvb_loadCsv_bin_gen`: the result on a saved file read in binary mode, for any reading of its
    lines (binary analogue of `csvr_loadCsv_text_gen`);
  * `csvb_loadCsv_strip_field`: closed form of `strip_field=True` in binary mode (`asciiStrip`);
  * `csvb_stripWith_encS`: stripping ASCII blanks commutes with every ASCII-transparent encoder;
  * `csvb_strip_line_clean`: `strip_line=True` in binary mode on lines without outer ASCII blanks.
-/
set_option linter.unusedSimpArgs false
namespace N0.CsvReader
open N0 N0.Py N0.Csv N0.CsvFile N0.C13

/-- `bytes.strip()` -/
def asciiStrip (s : Str) : Str := stripWith isAsciiWsByte s

theorem csvb_wsFor_true : wsFor true = isAsciiWsByte := by
  funext c; simp [wsFor]

/-- every blank of `bytes.strip()` is a blank of `str.strip()` -/
theorem csvb_ascii_ws_is_space (c : Char) (h : isAsciiWsByte c = true) : isPySpace c = true := by
  unfold isAsciiWsByte at h
  unfold isPySpace
  simp only [Bool.or_eq_true, Bool.and_eq_true, decide_eq_true_eq] at h ⊢
  omega

theorem csvb_ascii_ws_asciiPred : AsciiPred isAsciiWsByte := by
  intro c hc
  unfold isAsciiWsByte
  simp only [Bool.or_eq_false_iff, Bool.and_eq_false_iff, decide_eq_false_iff_not]
  omega

theorem csvb_outerClean_mono (p q : Char → Bool) (h : ∀ c, q c = true → p c = true) (s : Str)
    (hc : OuterClean p s) : OuterClean q s := by
  constructor
  · intro x hx
    cases hq : q x with
    | false => rfl
    | true => have := hc.1 x hx; rw [h x hq] at this; exact absurd this (by simp)
  · intro x hx
    cases hq : q x with
    | false => rfl
    | true => have := hc.2 x hx; rw [h x hq] at this; exact absurd this (by simp)

/-! ### binary mode: the result on a saved file, for any reading of its lines -/

theorem csvb_loadCsv_bin_gen (o : Opts) (hb : o.binary = true) (hse : o.skipEmpty = true)
    (d : Char) (hd : GoodDelim d) (eol : Str) (he : Eol eol)
    (all : List (List Str)) (hc : NoBreakRows all)
    (g : List Str → List Str)
    (hproc : ∀ r ∈ all, procLine o (bodyOf d LF r ++ eol) = bodyOf d LF r)
    (hparse : ∀ r ∈ all, r ≠ [] → parseLine o (bodyOf d LF r) = .ok (g r))
    (n : Norm) (hn : normalise o = .ok n) (h : List Str) (rows : List (List Str))
    (hall : dataRows all = h :: rows) :
    records (loadCsv o (written d eol all)) = outcome o n (g h) (rows.map g) := by
  unfold loadCsv
  rw [hb, physLines_bin d hd eol he all hc]
  apply loadLines_outcome o hse n hn
  have := csvr_lines_written_gen o d eol he.ne_nil g all hproc hparse
  rw [hall] at this
  exact this

theorem csvb_loadCsv_bin_gen_empty (o : Opts) (hb : o.binary = true)
    (d : Char) (hd : GoodDelim d) (eol : Str) (he : Eol eol)
    (all : List (List Str)) (hc : NoBreakRows all)
    (g : List Str → List Str)
    (hproc : ∀ r ∈ all, procLine o (bodyOf d LF r ++ eol) = bodyOf d LF r)
    (hparse : ∀ r ∈ all, r ≠ [] → parseLine o (bodyOf d LF r) = .ok (g r))
    (n : Norm) (hn : normalise o = .ok n) (hall : dataRows all = []) :
    loadCsv o (written d eol all) = .error .EOFError := by
  unfold loadCsv
  rw [hb, physLines_bin d hd eol he all hc]
  apply loadLines_empty o n hn
  have := csvr_lines_written_gen o d eol he.ne_nil g all hproc hparse
  rw [hall] at this
  exact this

/-! ### strip_field in binary mode -/

/-- `strip_field=True`, `read_mode='b'`, everything else at its default -/
structure StripFieldBin (o : Opts) (d : Char) : Prop where
  delim : o.delim = d
  skip : o.skipEmpty = true
  sl : o.stripLine = false
  sf : o.stripField = true
  bin : o.binary = true

theorem csvb_parseLine_strip (o : Opts) (d : Char) (hd : GoodDelim d) (hp : StripFieldBin o d)
    (t : Str) (f : Str) (fs : List Str) (hf : ∀ g ∈ f :: fs, NoBreak g) :
    parseLine o (bodyOf d t (f :: fs)) = .ok ((f :: fs).map asciiStrip) := by
  unfold parseLine
  rw [hp.delim, bodyOf_cons]
  have := parse_rowStr d hd _ (writer_adequate d t ((f :: fs).length == 1)) f fs hf []
    (by intro c hc; simp at hc)
  rw [List.append_nil] at this
  rw [this]
  simp only [hp.sf, hp.bin, csvb_wsFor_true, bind, Except.bind, pure, Except.pure, if_true]
  rfl

theorem csvb_loadCsv_strip_field (o : Opts) (d : Char) (hd : GoodDelim d)
    (hp : StripFieldBin o d) (eol : Str) (he : Eol eol)
    (all : List (List Str)) (hc : NoBreakRows all)
    (n : Norm) (hn : normalise o = .ok n) (h : List Str) (rows : List (List Str))
    (hall : dataRows all = h :: rows) :
    records (loadCsv o (written d eol all))
      = outcome o n (h.map asciiStrip) (rows.map (List.map asciiStrip)) := by
  apply csvb_loadCsv_bin_gen o hp.bin hp.skip d hd eol he all hc (List.map asciiStrip)
    _ _ n hn h rows hall
  · intro r hr
    exact csvr_procLine_nostrip o hp.sl _ _ (bodyOf_noBreak d hd LF r (hc r hr)) he.isEol
  · intro r hr hne
    cases r with
    | nil => exact absurd rfl hne
    | cons f fs => exact csvb_parseLine_strip o d hd hp LF f fs (hc _ hr)

/-! ### stripping ASCII blanks commutes with an ASCII-transparent encoder -/

theorem csvb_dropWhile_encS (e : Char → Str) (he : AsciiTransparent e) (p : Char → Bool)
    (hp : AsciiPred p) (s : Str) : (encS e s).dropWhile p = encS e (s.dropWhile p) := by
  induction s with
  | nil => rfl
  | cons c s ih =>
    by_cases hc : c.toNat < 128
    · rw [encS_ascii e he c hc]
      cases hpc : p c with
      | true => simp only [List.dropWhile_cons, hpc, if_true]; exact ih
      | false =>
        simp only [List.dropWhile_cons, hpc, Bool.false_eq_true, if_false]
        rw [encS_ascii e he c hc]
    · have hc' : 128 ≤ c.toNat := by omega
      have hpc : p c = false := hp c hc'
      rw [encS_cons]
      simp only [List.dropWhile_cons, hpc, Bool.false_eq_true, if_false]
      rw [encS_cons]
      cases hx : e c with
      | nil => exact absurd hx (he.nonempty c)
      | cons b bs =>
        have hb : p b = false := hp b (he.high c hc' b (by rw [hx]; simp))
        simp [List.dropWhile_cons, hb]

/-- the encoder that writes the bytes of every character backwards -/
def revEnc (e : Char → Str) (c : Char) : Str := (e c).reverse

theorem csvb_revEnc_transparent (e : Char → Str) (he : AsciiTransparent e) :
    AsciiTransparent (revEnc e) := by
  refine ⟨?_, ?_, ?_, ?_⟩
  · intro c hc; simp [revEnc, he.ascii c hc]
  · intro c hc b hb; exact he.high c hc b (by simpa [revEnc] using hb)
  · intro c; simp [revEnc, he.nonempty c]
  · intro c b hb; exact he.byte c b (by simpa [revEnc] using hb)

theorem csvb_encS_reverse (e : Char → Str) (s : Str) :
    (encS e s).reverse = encS (revEnc e) s.reverse := by
  induction s with
  | nil => rfl
  | cons c s ih =>
    rw [encS_cons, List.reverse_append, ih, List.reverse_cons, encS_append]
    simp [encS, revEnc]

theorem csvb_revEnc_revEnc (e : Char → Str) : revEnc (revEnc e) = e := by
  funext c; simp [revEnc]

theorem csvb_stripWith_encS (e : Char → Str) (he : AsciiTransparent e) (p : Char → Bool)
    (hp : AsciiPred p) (s : Str) : stripWith p (encS e s) = encS e (stripWith p s) := by
  unfold stripWith
  rw [csvb_dropWhile_encS e he p hp, csvb_encS_reverse,
    csvb_dropWhile_encS (revEnc e) (csvb_revEnc_transparent e he) p hp, csvb_encS_reverse,
    csvb_revEnc_revEnc]

theorem csvb_asciiStrip_encS (e : Char → Str) (he : AsciiTransparent e) (s : Str) :
    asciiStrip (encS e s) = encS e (asciiStrip s) :=
  csvb_stripWith_encS e he isAsciiWsByte csvb_ascii_ws_asciiPred s

theorem csvb_dataRows_encRows (e : Char → Str) (rows : List (List Str)) :
    dataRows (encRows e rows) = encRows e (dataRows rows) := by
  unfold dataRows encRows
  induction rows with
  | nil => rfl
  | cons r rows ih =>
    cases r with
    | nil => simpa using ih
    | cons f fs => simp [List.filter_cons] at ih ⊢; exact ih

/-! ### strip_line in binary mode on lines without outer (ASCII) blanks -/

theorem csvb_strip_line_clean (o : Opts) (hb : o.binary = true) (d : Char) (hd : GoodDelim d)
    (hp : Plain o d) (eol : Str) (he : Eol eol)
    (all : List (List Str)) (hc : NoBreakRows all)
    (hcl : ∀ r ∈ all, OuterClean isAsciiWsByte (bodyOf d LF r)) :
    records (loadCsv { o with stripLine := true } (written d eol all))
      = records (loadCsv o (written d eol all)) := by
  obtain ⟨o', ho'⟩ : ∃ o', o' = ({ o with stripLine := true } : Opts) := ⟨_, rfl⟩
  have hb' : o'.binary = true := by rw [ho']; exact hb
  have hnorm : normalise o' = normalise o := by rw [ho']; rfl
  have hpar : ∀ l, parseLine o' l = parseLine o l := by intro l; rw [ho']; rfl
  have hout : ∀ n h rows, outcome o' n h rows = outcome o n h rows := by
    intro n h rows; rw [ho']; rfl
  have hskip : o'.skipEmpty = true := by rw [ho']; exact hp.skip
  rw [← ho']
  clear ho'
  have hproc : ∀ r ∈ all, procLine o' (bodyOf d LF r ++ eol) = bodyOf d LF r := by
    intro r hr
    apply csvr_procLine_clean _ _ _ (bodyOf_noBreak d hd LF r (hc r hr)) he.isEol
    rw [hb', csvb_wsFor_true]
    exact hcl r hr
  have hparse : ∀ r ∈ all, r ≠ [] → parseLine o' (bodyOf d LF r) = .ok (id r) := by
    intro r hr hne
    cases r with
    | nil => exact absurd rfl hne
    | cons f fs =>
      rw [hpar]
      exact parseLine_body o d hd hp LF f fs (hc _ hr)
  cases hn : normalise o with
  | error e =>
    have hn' : normalise o' = .error e := by rw [hnorm]; exact hn
    unfold loadCsv
    rw [loadLines_norm_error o e hn, loadLines_norm_error _ e hn']
  | ok n =>
    have hn' : normalise o' = .ok n := by rw [hnorm]; exact hn
    cases hall : dataRows all with
    | nil =>
      rw [csvb_loadCsv_bin_gen_empty o' hb' d hd eol he all hc id hproc hparse n hn' hall]
      have : loadCsv o (written d eol all) = .error .EOFError := by
        unfold loadCsv
        rw [hb, physLines_bin d hd eol he all hc]
        apply loadLines_empty o n hn
        rw [← hall]
        exact lines_written o d hd hp eol he.isEol he.ne_nil all hc
      rw [this]
    | cons h rows =>
      rw [loadCsv_bin_written o hb d hd hp eol he all hc n hn h rows hall,
        csvb_loadCsv_bin_gen o' hb' hskip d hd eol he all hc id hproc hparse n hn' h rows hall]
      simp only [List.map_id, id]
      exact hout n h rows

end N0.CsvReader
