import N0Verif.Proofs.XPathStore
/-! `delete` / `pop` on an existing node. -/
namespace N0.XPath
open N0 N0.Py N0.Val

/-! ### `delAt` as a `setAt` at the parent -/

theorem delAt_snoc : ∀ (q : Pos) (t : Val) (s : Seg) (pv pv' : Val), getAt t q = some pv →
    delChild pv s = some pv' → delAt t (q ++ [s]) = setAt t q pv'
  | [], t, s, pv, pv', hg, hd => by
      simp [getAt] at hg; subst hg
      simp [delAt, setAt, hd]
  | s0 :: q, t, s, pv, pv', hg, hd => by
      simp only [getAt] at hg
      cases hc : child t s0 with
      | none => simp [hc] at hg
      | some c =>
        simp only [hc, Option.bind] at hg
        have ih := delAt_snoc q c s pv pv' hg hd
        rw [List.cons_append, setAt_cons t s0 q pv' c hc (Or.inr trivial)]
        cases hq : q ++ [s] with
        | nil => simp at hq
        | cons s1 r =>
          rw [delAt]
          · simp only [hc, bind, Option.bind]
            rw [← hq, ih]
          · intro h; cases h

/-! ### tokens that spell a prefix keep spelling it after a write below -/

theorem spells_setAt_below {toks : List Str} {t : Val} {q : Pos} {c : Val} (h : Spells toks t q c) :
    ∀ (r : Pos) (x t2 : Val), setAt t (q ++ r) x = some t2 →
      ∃ c2, setAt c r x = some c2 ∧ Spells toks t2 q c2 := by
  induction h with
  | nil v => intro r x t2 hs; exact ⟨t2, by simpa using hs, .nil t2⟩
  | @key tok rest cls kvs c p d hk hl _ ih =>
    intro r x t2 hs
    have hc : child (.dict cls kvs) (.key tok) = some c := by simp [child, hl]
    rw [List.cons_append, setAt_cons _ _ _ _ c hc (Or.inr trivial)] at hs
    cases hs1 : setAt c (p ++ r) x with
    | none => simp [hs1] at hs
    | some c' =>
      simp only [hs1, Option.bind, setChild] at hs
      obtain ⟨c2, hc2, hsp⟩ := ih r x c' hs1
      cases hs
      exact ⟨c2, hc2, .key hk (lookup_kvSet_same _ _ _) hsp⟩
  | @idx tok e i rest cls xs n c p d hk hn hx _ ih =>
    intro r x t2 hs
    have hc : child (.list cls xs) (.idx n) = some c := by simp [child, hx]
    rw [List.cons_append, setAt_cons _ _ _ _ c hc (Or.inr trivial)] at hs
    cases hs1 : setAt c (p ++ r) x with
    | none => simp [hs1] at hs
    | some c' =>
      have hlt := normIdx_lt hn
      simp only [hs1, Option.bind, setChild, hlt, if_true] at hs
      obtain ⟨c2, hc2, hsp⟩ := ih r x c' hs1
      cases hs
      exact ⟨c2, hc2, .idx hk (by simpa using hn) (by simp [hlt]) hsp⟩
  | @keyIdx tok k e i rest cls kvs cls' xs n c p d hk hl hn hx _ ih =>
    intro r x t2 hs
    have hc : child (.dict cls kvs) (.key k) = some (.list cls' xs) := by simp [child, hl]
    have hc2 : child (.list cls' xs) (.idx n) = some c := by simp [child, hx]
    have hlt := normIdx_lt hn
    rw [List.cons_append, List.cons_append, setAt_cons _ _ _ _ _ hc (Or.inr trivial),
      setAt_cons _ _ _ _ _ hc2 (Or.inr trivial)] at hs
    cases hs1 : setAt c (p ++ r) x with
    | none => simp [hs1] at hs
    | some c' =>
      simp only [hs1, Option.bind, setChild, hlt, if_true] at hs
      obtain ⟨c2, hcc2, hsp⟩ := ih r x c' hs1
      cases hs
      exact ⟨c2, hcc2, .keyIdx hk (lookup_kvSet_same _ _ _) (by simpa using hn) (by simp [hlt]) hsp⟩

/-- every non-empty prefix of a spelling token list spells a prefix of the position -/
theorem spells_take {toks : List Str} {t : Val} {p : Pos} {c : Val} (h : Spells toks t p c) :
    ∀ k, ∃ q r c', p = q ++ r ∧ Spells (toks.take k) t q c' ∧ (k < toks.length → r ≠ []) := by
  induction h with
  | nil v => intro k; exact ⟨[], [], v, rfl, by simpa using Spells.nil v, by simp⟩
  | @key tok rest cls kvs c p d hk hl hs ih =>
    intro k
    cases k with
    | zero => exact ⟨[], _, _, rfl, .nil _, by simp⟩
    | succ k =>
      obtain ⟨q, r, c', hp, hsp, hr⟩ := ih k
      exact ⟨.key tok :: q, r, c', by simp [hp], by simpa using Spells.key hk hl hsp, by simpa using hr⟩
  | @idx tok e i rest cls xs n c p d hk hn hx hs ih =>
    intro k
    cases k with
    | zero => exact ⟨[], _, _, rfl, .nil _, by simp⟩
    | succ k =>
      obtain ⟨q, r, c', hp, hsp, hr⟩ := ih k
      exact ⟨.idx n :: q, r, c', by simp [hp], by simpa using Spells.idx hk hn hx hsp, by simpa using hr⟩
  | @keyIdx tok k' e i rest cls kvs cls' xs n c p d hk hl hn hx hs ih =>
    intro k
    cases k with
    | zero => exact ⟨[], _, _, rfl, .nil _, by simp⟩
    | succ k =>
      obtain ⟨q, r, c', hp, hsp, hr⟩ := ih k
      exact ⟨.key k' :: .idx n :: q, r, c', by simp [hp], by simpa using Spells.keyIdx hk hl hn hx hsp, by simpa using hr⟩

/-! ### the deletion through the parent reference -/

/-- a path that does not start with '?' is taken as it is by `delete` / `pop` (fix C05-c) -/
theorem stripQ_noQ (xp : Str) (h : startsWith xp ['?'] = false) : stripQ xp = xp := by
  simp [stripQ, h]

/-- … and a leading '?' is dropped -/
theorem stripQ_q (xp : Str) : stripQ ('?' :: xp) = xp := by
  simp [stripQ, startsWith]

theorem stripQ_slash (s : Str) : stripQ (slash ++ s) = slash ++ s :=
  stripQ_noQ _ (by simp [slash, startsWith])

theorem startsWith_bracket (s : Str) : startsWith (bracket s) ['['] = true := by
  simp [bracket, startsWith, startsWith_nil]

theorem endsWith_bracket (s : Str) : endsWith (bracket s) [']'] = true := by
  have : bracket s = ('[' :: s) ++ [']'] := by simp [bracket]
  rw [this]; exact endsWith_snoc _ _

theorem bracket_inner (s : Str) : ((bracket s).drop 1).dropLast = s := by
  simp [bracket]

theorem delAt_key_missing : ∀ (root : Val) (pp : Pos) (k : Str) (cls : Cls) (kvs : List (Str × Val)),
    getAt root pp = some (.dict cls kvs) → kvHas k kvs = false → delAt root (pp ++ [.key k]) = Option.none
  | root, [], k, cls, kvs, hpv, hh => by
      simp [getAt] at hpv; subst hpv
      simp [delAt, delChild, hh]
  | root, s0 :: pp, k, cls, kvs, hpv, hh => by
      simp only [getAt] at hpv
      cases hc : child root s0 with
      | none => simp [hc] at hpv
      | some x =>
        simp only [hc, Option.bind] at hpv
        have ih := delAt_key_missing x pp k cls kvs hpv hh
        cases hq : pp ++ [Seg.key k] with
        | nil => simp at hq
        | cons s1 r =>
          rw [List.cons_append, hq, delAt]
          · simp only [hc, bind, Option.bind]
            rw [← hq, ih]
          · intro h; cases h

theorem delThrough_found (root : Val) (p : Pos) (c : Val) (r : Res) (t' : Val)
    (hf : FoundAt root [] p c r) (hdel : delAt root p = some t') :
    delThrough root r.parent r.nameIdx = .ok t' := by
  obtain ⟨hv, hnf, pp, s, pv, ni, rfl, hpar, hpv, hni, hname⟩ := hf
  simp only [List.nil_append] at hpar hpv
  rw [hpar, hni]
  rcases hname.inv with ⟨cls, kvs, k, rfl, rfl, hnik⟩ | ⟨cls, xs, n, i, rfl, rfl, hnii, hn⟩
  · rw [hnik]
    unfold delThrough
    simp only [isWrap_at, Bool.false_eq_true, if_false, valOf_at, hpv]
    by_cases hh : kvHas k kvs = true
    · have hsn := delAt_snoc pp root (.key k) (.dict cls kvs) (.dict cls (kvDel k kvs)) hpv (by simp [delChild, hh])
      rw [hsn] at hdel
      simp only [hh, if_true]
      rw [modRef_at root pp _ _ hpv]
      simp [hdel]
    · exfalso
      rw [delAt_key_missing root pp k cls kvs hpv (by simpa using hh)] at hdel
      cases hdel
  · rw [hnii]
    have hlt := normIdx_lt hn
    have hsn := delAt_snoc pp root (.idx n) (.list cls xs) (.list cls (xs.eraseIdx n)) hpv (by simp [delChild, hlt])
    rw [hsn] at hdel
    unfold delThrough
    simp only [isWrap_at, Bool.false_eq_true, if_false, valOf_at, hpv, startsWith_bracket, endsWith_bracket, Bool.and_self, Bool.not_true,
      Bool.false_eq_true, if_false, bracket_inner, n0eval_intStr, hn]
    rw [modRef_at root pp _ _ hpv]
    simp [hdel]

/-- after the first deletion the remaining (shorter) prefixes are only looked up -/
theorem deleteLoop_rest (fuel : Nat) (toks : List Str) (t : Val) (p : Pos) (c : Val)
    (hs : Spells toks t p c) (q : Pos) (sg : Seg) (hp : p = q ++ [sg]) (x t' : Val)
    (hset : setAt t q x = some t') (hf : fuel ≥ 2 * toks.length) :
    ∀ k, k < toks.length → deleteLoop fuel toks false t' k false = (t', .ok ()) := by
  intro k
  induction k with
  | zero => intro _; rfl
  | succ k ih =>
    intro hk
    obtain ⟨q', r, c', hpp, hsp, hr⟩ := spells_take hs (k + 1)
    have hrne : r ≠ [] := hr hk
    -- q' is a prefix of the parent position q
    have hq : ∃ r', q = q' ++ r' := by
      rw [hp] at hpp
      refine ⟨r.dropLast, ?_⟩
      have hr2 : r = r.dropLast ++ [r.getLast hrne] := (List.dropLast_concat_getLast hrne).symm
      rw [hr2, ← List.append_assoc] at hpp
      exact (List.append_inj' hpp rfl).1
    obtain ⟨r', hq'⟩ := hq
    rw [hq'] at hset
    obtain ⟨c2, _, hsp2⟩ := spells_setAt_below hsp r' x t' hset
    have hne : toks.take (k + 1) ≠ [] := by
      intro h
      have h0 : (toks.take (k + 1)).length = 0 := by rw [h]; rfl
      rw [List.length_take] at h0
      omega
    have hlen : (toks.take (k + 1)).length ≤ toks.length := by
      rw [List.length_take]; exact Nat.min_le_right _ _
    obtain ⟨res, hres, hfres⟩ := find_spells t' true hsp2 hne fuel [] slash true rfl
      (Nat.le_trans (Nat.mul_le_mul_left 2 hlen) hf)
    have hdp : delPlace fuel t' (toks.getD k []) res = .ok (some res) := by
      obtain ⟨_, _, pp, _, _, _, _, hpar, _⟩ := hfres
      exact delPlace_at _ _ _ _ _ hpar
    rw [deleteLoop, hres]
    simp only [hdp, Bool.false_or, Bool.false_and, Bool.false_eq_true, if_false]
    exact ih (by omega)

/-- **delete, not recursive**: the addressed node is removed and nothing else happens -/
theorem deleteLoop_spelled (fuel : Nat) (toks : List Str) (t : Val) (p : Pos) (c t' : Val)
    (hs : Spells toks t p c) (hne : toks ≠ []) (hdel : delAt t p = some t')
    (hf : fuel ≥ 2 * toks.length) :
    deleteLoop fuel toks false t toks.length true = (t', .ok ()) := by
  obtain ⟨n, hn⟩ : ∃ n, toks.length = n + 1 := ⟨toks.length - 1, by
    have : toks.length ≠ 0 := by intro h; exact hne (List.length_eq_zero_iff.mp h)
    omega⟩
  obtain ⟨r, hr, hfound⟩ := find_spells t true hs hne fuel [] slash true rfl hf
  have hdt := delThrough_found t p c r t' hfound hdel
  have hdp : ∀ tok, delPlace fuel t tok r = .ok (some r) := by
    obtain ⟨_, _, pp, _, _, _, _, hpar, _⟩ := hfound
    exact fun tok => delPlace_at _ _ tok _ _ hpar
  rw [hn, deleteLoop]
  have htake : toks.take (n + 1) = toks := by rw [← hn]; exact List.take_length
  rw [htake, hr]
  simp only [Bool.true_or, if_true, hdp, hdt]
  -- the parent position and the value written there
  obtain ⟨_, _, pp, sg, pv, ni, hp, _, hpv, _, hname⟩ := hfound
  simp only [List.nil_append] at hpv
  have hx : ∃ x, delChild pv sg = some x := by
    rcases hname.inv with ⟨cls, kvs, k, rfl, rfl, _⟩ | ⟨cls, xs, m, i, rfl, rfl, _, hm⟩
    · by_cases hh : kvHas k kvs = true
      · exact ⟨.dict cls (kvDel k kvs), by simp [delChild, hh]⟩
      · exfalso
        have hg := hs.getAt
        rw [hp, getAt_snoc, hpv] at hg
        simp [child] at hg
        simp [kvHas, hg] at hh
    · exact ⟨.list cls (xs.eraseIdx m), by simp [delChild, normIdx_lt hm]⟩
  obtain ⟨x, hx⟩ := hx
  have hsn := delAt_snoc pp t sg pv x hpv hx
  rw [← hp, hdel] at hsn
  exact deleteLoop_rest fuel toks t p c hs pp sg hp x t' hsn.symm hf n (by omega)

end N0.XPath
