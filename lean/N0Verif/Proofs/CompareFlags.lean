import N0Verif.Proofs.Compare
/-!
The global compare flags only add detail: under two flag records the two runs fail alike or
both succeed with the same number of lines and the same *core* entries.
-/
namespace N0.Compare
open N0

/-- pairs of equal type that differ (the numeric delta is dropped) -/
def Res.same (r : Res) : List (Path × Val × Val) :=
  (r.notEqual.filter (fun e => e.kind = .lst)).map (fun e => (e.path, e.l, e.r))

/-- pairs of different type, wherever the types flag sends them -/
def Res.clash (types : Bool) (r : Res) : List (Path × Val × Val) :=
  if types then r.diffTypes.map (fun e => (e.path, e.l, e.r))
  else (r.notEqual.filter (fun e => e.kind = .tup)).map (fun e => (e.path, e.l, e.r))

/-- same verdict, same core: number of lines, differing pairs, type clashes, unique items (with their
places; the place flag only decides whether the place is shown) -/
structure CoreEq (t t' : Bool) (r r' : Res) : Prop where
  diffs : r.diffs = r'.diffs
  same : r.same = r'.same
  clash : r.clash t = r'.clash t'
  su : r.selfUnique = r'.selfUnique
  ou : r.otherUnique = r'.otherUnique

theorem same_append (a b : Res) : (a ++ b).same = a.same ++ b.same := by
  simp [Res.same]

theorem clash_append (t : Bool) (a b : Res) : (a ++ b).clash t = a.clash t ++ b.clash t := by
  cases t <;> simp [Res.clash]

theorem coreEq_append {t t' : Bool} {a a' b b' : Res} (h1 : CoreEq t t' a a') (h2 : CoreEq t t' b b') :
    CoreEq t t' (a ++ b) (a' ++ b') :=
  ⟨by simp [h1.diffs, h2.diffs], by simp [same_append, h1.same, h2.same],
   by simp [clash_append, h1.clash, h2.clash], by simp [h1.su, h2.su], by simp [h1.ou, h2.ou]⟩

/-- two runs fail alike or agree on the core -/
def RelE (t t' : Bool) : Except PyErr Res → Except PyErr Res → Prop
  | .ok r, .ok r' => CoreEq t t' r r'
  | .error e, .error e' => e = e'
  | _, _ => False

def FlagActRel (t t' : Bool) : Act → Act → Prop
  | .emit r s, .emit r' s' => CoreEq t t' r r' ∧ s = s'
  | .descend, .descend => True
  | _, _ => False

/-- the same options under another flag record -/
def Cfg.withFlags (cfg : Cfg) (fl : Flags) : Cfg := { cfg with fl := fl }

theorem coreEq_of_lists {t t' : Bool} {r r' : Res} (h1 : r.diffs = r'.diffs) (h2 : r.same = r'.same)
    (h3 : r.clash t = r'.clash t') (h4 : r.selfUnique = r'.selfUnique) (h5 : r.otherUnique = r'.otherUnique) :
    CoreEq t t' r r' := ⟨h1, h2, h3, h4, h5⟩

/-- `classifyItem` with the transformed values made explicit -/
def itemCore (fl : Flags) (sv ov : Val) (pne pdt : Path) (sa oa x y : Val) : Act :=
  if tyOf sv = tyOf ov then
    if isPyScalar sv then
      if sv ≠ ov then .emit { diffs := 1, notEqual := [⟨pne, x, y, .lst, fl.delta⟩] } false
      else if fl.equal then .emit { selfEqual := [sa], otherEqual := [oa] } true
      else .emit Res.empty true
    else .descend
  else if fl.types then .emit { diffs := 1, diffTypes := [⟨pdt, x, y⟩] } false
  else .emit { diffs := 1, notEqual := [⟨pne, x, y, .tup, false⟩] } false

theorem classifyItem_core (cfg : Cfg) (p pne pdt : Path) (sa oa x y : Val) :
    classifyItem cfg p pne pdt sa oa x y =
      itemCore cfg.fl (transformAt cfg p x) (transformAt cfg p y) pne pdt sa oa x y := rfl

theorem itemCore_flags (fl fl' : Flags) (sv ov : Val) (p0 : Path) (seg : PSeg) (sa oa x y : Val) :
    FlagActRel fl.types fl'.types
      (itemCore fl sv ov (p0 ++ [seg]) (p0 ++ [seg]) sa oa x y)
      (itemCore fl' sv ov (p0 ++ [seg]) (p0 ++ [seg]) sa oa x y) := by
  unfold itemCore
  by_cases h1 : tyOf sv = tyOf ov
  · by_cases h2 : isPyScalar sv = true
    · by_cases h3 : sv = ov
      · simp only [if_pos h1, if_pos h2, if_neg (not_not_intro h3)]
        cases fl.equal <;> cases fl'.equal <;> cases fl.types <;> cases fl'.types <;>
          exact ⟨coreEq_of_lists rfl rfl rfl rfl rfl, rfl⟩
      · simp only [if_pos h1, if_pos h2, if_pos h3]
        refine ⟨coreEq_of_lists rfl ?_ ?_ rfl rfl, rfl⟩
        · simp [Res.same]
        · cases fl.types <;> cases fl'.types <;> simp [Res.clash]
    · simp only [if_pos h1, if_neg h2]
      trivial
  · simp only [if_neg h1]
    cases fl.types <;> cases fl'.types <;>
      exact ⟨coreEq_of_lists rfl (by simp [Res.same]) (by simp [Res.clash]) rfl rfl, rfl⟩

theorem classifyItem_flags (cfg : Cfg) (fl' : Flags) (p p0 : Path) (seg : PSeg) (sa oa x y : Val) :
    FlagActRel cfg.fl.types fl'.types
      (classifyItem cfg p (p0 ++ [seg]) (p0 ++ [seg]) sa oa x y)
      (classifyItem (cfg.withFlags fl') p (p0 ++ [seg]) (p0 ++ [seg]) sa oa x y) := by
  rw [classifyItem_core, classifyItem_core]
  exact itemCore_flags cfg.fl fl' _ _ p0 seg sa oa x y

/-- `classifyEntry` with the option tests and the transformed values made explicit -/
def entryCore (fl : Flags) (ex on : Bool) (sv ov : Val) (full : Path) (x y : Val) : Act :=
  if ex then .emit Res.empty true
  else
    if tyOf sv = tyOf ov then
      if isPyScalar sv then
        if sv ≠ ov ∧ on then .emit { diffs := 1, notEqual := [⟨full, x, y, .lst, fl.delta⟩] } false
        else .emit Res.empty true
      else .descend
    else if on then
      if fl.types then .emit { diffs := 1, diffTypes := [⟨full, x, y⟩] } false
      else .emit { diffs := 1, notEqual := [⟨full, x, y, .tup, false⟩] } false
    else .emit Res.empty true

theorem classifyEntry_core (cfg : Cfg) (full : Path) (x y : Val) :
    classifyEntry cfg full x y =
      entryCore cfg.fl (excluded cfg full) (onlyOk cfg full) (transformAt cfg full x) (transformAt cfg full y) full x y := rfl

theorem entryCore_flags (fl fl' : Flags) (ex on : Bool) (sv ov : Val) (p0 : Path) (k : Str) (x y : Val) :
    FlagActRel fl.types fl'.types
      (entryCore fl ex on sv ov (p0 ++ [.key k]) x y) (entryCore fl' ex on sv ov (p0 ++ [.key k]) x y) := by
  unfold entryCore
  cases ex
  · by_cases h1 : tyOf sv = tyOf ov
    · by_cases h2 : isPyScalar sv = true
      · by_cases h3 : sv ≠ ov ∧ on = true
        · simp only [Bool.false_eq_true, if_false, if_pos h1, if_pos h2, if_pos h3]
          refine ⟨coreEq_of_lists rfl ?_ ?_ rfl rfl, rfl⟩
          · simp [Res.same]
          · cases fl.types <;> cases fl'.types <;> simp [Res.clash]
        · simp only [Bool.false_eq_true, if_false, if_pos h1, if_pos h2, if_neg h3]
          cases fl.types <;> cases fl'.types <;> exact ⟨coreEq_of_lists rfl rfl rfl rfl rfl, rfl⟩
      · simp only [Bool.false_eq_true, if_false, if_pos h1, if_neg h2]
        trivial
    · cases on
      · simp only [Bool.false_eq_true, if_false, if_neg h1]
        cases fl.types <;> cases fl'.types <;> exact ⟨coreEq_of_lists rfl rfl rfl rfl rfl, rfl⟩
      · simp only [Bool.false_eq_true, if_false, if_neg h1, if_true]
        cases fl.types <;> cases fl'.types <;>
          exact ⟨coreEq_of_lists rfl (by simp [Res.same]) (by simp [Res.clash]) rfl rfl, rfl⟩
  · simp only [if_true]
    cases fl.types <;> cases fl'.types <;> exact ⟨coreEq_of_lists rfl rfl rfl rfl rfl, rfl⟩

theorem classifyEntry_flags (cfg : Cfg) (fl' : Flags) (p0 : Path) (k : Str) (x y : Val) :
    FlagActRel cfg.fl.types fl'.types
      (classifyEntry cfg (p0 ++ [.key k]) x y) (classifyEntry (cfg.withFlags fl') (p0 ++ [.key k]) x y) := by
  rw [classifyEntry_core, classifyEntry_core]
  exact entryCore_flags cfg.fl fl' _ _ _ _ p0 k x y

theorem coreEq_lists_only {t t' : Bool} {r r' : Res} (h0 : r.diffs = r'.diffs)
    (h1 : r.notEqual = []) (h1' : r'.notEqual = []) (h2 : r.diffTypes = []) (h2' : r'.diffTypes = [])
    (h4 : r.selfUnique = r'.selfUnique) (h5 : r.otherUnique = r'.otherUnique) : CoreEq t t' r r' := by
  refine ⟨h0, ?_, ?_, h4, h5⟩
  · simp [Res.same, h1, h1']
  · cases t <;> cases t' <;> simp [Res.clash, h1, h1', h2, h2']

theorem dictTail_flags (cfg : Cfg) (fl' : Flags) (p : Path) (sa oa : Val) (skvs okvs : List (Str × Val)) (still : Bool) :
    CoreEq cfg.fl.types fl'.types (dictTail cfg p sa oa skvs okvs still)
      (dictTail (cfg.withFlags fl') p sa oa skvs okvs still) :=
  coreEq_lists_only rfl rfl rfl rfl rfl rfl rfl

theorem recordFields_flags (cfg : Cfg) (fl' : Flags) (q : Path) (kvs : List (Str × Val)) :
    ∀ (ks : List Str) (acc : List (Str × Val)),
      recordFields (cfg.withFlags fl') q kvs ks acc = recordFields cfg q kvs ks acc
  | [], acc => rfl
  | key :: rest, acc => by
    simp only [recordFields]
    cases Val.lookup key kvs with
    | none => exact recordFields_flags cfg fl' q kvs rest acc
    | some v => exact recordFields_flags cfg fl' q kvs rest _

theorem keyOf_flags (cfg : Cfg) (fl' : Flags) (p : Path) (i : Nat) (v : Val) :
    keyOf (cfg.withFlags fl') p i v = keyOf cfg p i v := by
  cases v <;> simp only [keyOf] <;> try rfl
  rename_i c kvs
  simp only [recordFields_flags]
  rfl

theorem keysOf_flags (cfg : Cfg) (fl' : Flags) (p : Path) :
    ∀ (i : Nat) (xs : List Val), keysOf (cfg.withFlags fl') p i xs = keysOf cfg p i xs
  | _, [] => rfl
  | i, x :: xs => by simp only [keysOf, keyOf_flags, keysOf_flags cfg fl' p (i + 1) xs]

/-! two-sided sequencing -/

/-- `r0 ++ …` after a non-failing step -/
def emitE (r0 : Res) (B : Except PyErr Res) : Except PyErr Res :=
  match B with | .error e => .error e | .ok r' => .ok (r0 ++ r')

/-- the nested call, then the rest of the loop -/
def seqE (A B : Except PyErr Res) : Except PyErr Res :=
  match A with
  | .error e => .error e
  | .ok r => match B with | .error e => .error e | .ok r' => .ok (r ++ r')

theorem relE_emit {t t' : Bool} {r0 r0' : Res} {B B' : Except PyErr Res}
    (h0 : CoreEq t t' r0 r0') (h : RelE t t' B B') : RelE t t' (emitE r0 B) (emitE r0' B') := by
  cases B with
  | error e => cases B' with
    | error e' => exact h
    | ok r' => exact h.elim
  | ok r => cases B' with
    | error e' => exact h.elim
    | ok r' => exact coreEq_append h0 h

theorem relE_seq {t t' : Bool} {A A' B B' : Except PyErr Res}
    (h1 : RelE t t' A A') (h2 : RelE t t' B B') : RelE t t' (seqE A B) (seqE A' B') := by
  cases A with
  | error e => cases A' with
    | error e' => exact h1
    | ok r' => exact h1.elim
  | ok r => cases A' with
    | error e' => exact h1.elim
    | ok r' => exact relE_emit h1 h2

theorem relE_ok {t t' : Bool} {r r' : Res} (h : CoreEq t t' r r') : RelE t t' (.ok r) (.ok r') := h

theorem coreEq_refl_empty (t t' : Bool) : CoreEq t t' Res.empty Res.empty :=
  coreEq_lists_only rfl rfl rfl rfl rfl rfl rfl


theorem excluded_flags (cfg : Cfg) (fl' : Flags) (p : Path) : excluded (cfg.withFlags fl') p = excluded cfg p := rfl

theorem keyedTail_coreEq (t t' : Bool) (p : Path) (sr orr : List KE) :
    CoreEq t t' (keyedTail p sr orr) (keyedTail p sr orr) :=
  coreEq_lists_only rfl rfl rfl rfl rfl rfl rfl

mutual
theorem sub_flags (cfg : Cfg) (fl' : Flags) (site : Site) (p : Path) (v w : Val) :
    RelE cfg.fl.types fl'.types (sub cfg site p v w) (sub (cfg.withFlags fl') site p v w) :=
  match v, w with
  | .list c xs, w => by
    cases w with
    | list c' ys =>
      simp only [sub, excluded_flags, keysOf_flags]
      have hd : (cfg.withFlags fl').direct = cfg.direct := rfl
      rw [hd]
      split
      · exact rfl
      · split
        · exact rfl
        · split
          · exact coreEq_refl_empty _ _
          · split
            · exact directWalk_flags cfg fl' p _ _ 0 xs ys
            · cases keysOf cfg p 0 xs with
              | error e => exact rfl
              | ok ks =>
                cases keysOf cfg p 0 ys with
                | error e => exact rfl
                | ok ko => exact keyedWalk_flags cfg fl' p _ _ 0 xs ks _ _
    | _ => simp [sub, RelE]
  | .dict c kvs, w => by
    cases w with
    | dict c' kvs' =>
      simp only [sub]
      have hd : (cfg.withFlags fl').direct = cfg.direct := rfl
      rw [hd]
      split
      · exact rfl
      · exact dictWalk_flags cfg fl' p _ _ kvs kvs' true kvs
    | _ => simp [sub, RelE]
  | .none, _ => by simp only [sub]; exact coreEq_refl_empty _ _
  | .bool _, _ => by simp [sub, RelE]
  | .int _, _ => by simp [sub, RelE]
  | .flt _, _ => by simp [sub, RelE]
  | .str _, _ => by simp [sub, RelE]
termination_by structural v

theorem dictWalk_flags (cfg : Cfg) (fl' : Flags) (p : Path) (sa oa : Val) (skvs okvs : List (Str × Val))
    (still : Bool) (kvs : List (Str × Val)) :
    RelE cfg.fl.types fl'.types (dictWalk cfg p sa oa skvs okvs still kvs)
      (dictWalk (cfg.withFlags fl') p sa oa skvs okvs still kvs) :=
  match kvs, still with
  | [], still => by
    simp only [dictWalk]
    exact dictTail_flags cfg fl' p sa oa skvs okvs still
  | (k, v) :: rest, still => by
    simp only [dictWalk]
    cases hl : Val.lookup k okvs with
    | none => exact dictWalk_flags cfg fl' p sa oa skvs okvs still rest
    | some w =>
      simp only
      have hrel := classifyEntry_flags cfg fl' p k v w
      cases hcl : classifyEntry cfg (p ++ [.key k]) v w with
      | emit r0 s =>
        cases hcl' : classifyEntry (cfg.withFlags fl') (p ++ [.key k]) v w with
        | emit r0' s' =>
          rw [hcl, hcl'] at hrel
          obtain ⟨hcore, hs⟩ := hrel
          subst hs
          exact relE_emit hcore (dictWalk_flags cfg fl' p sa oa skvs okvs (still && s) rest)
        | descend => rw [hcl, hcl'] at hrel; exact hrel.elim
      | descend =>
        cases hcl' : classifyEntry (cfg.withFlags fl') (p ++ [.key k]) v w with
        | emit r0' s' => rw [hcl, hcl'] at hrel; exact hrel.elim
        | descend =>
          exact relE_seq (sub_flags cfg fl' .entry (p ++ [.key k]) v w)
            (dictWalk_flags cfg fl' p sa oa skvs okvs still rest)
termination_by structural kvs

theorem directWalk_flags (cfg : Cfg) (fl' : Flags) (p : Path) (sa oa : Val) (i : Nat) (xs ys : List Val) :
    RelE cfg.fl.types fl'.types (directWalk cfg p sa oa i xs ys)
      (directWalk (cfg.withFlags fl') p sa oa i xs ys) :=
  match xs, ys, i with
  | [], ys, i => by
    simp only [directWalk]
    exact coreEq_lists_only rfl rfl rfl rfl rfl rfl rfl
  | x :: xs, [], i => by
    simp only [directWalk]
    exact relE_emit (coreEq_lists_only rfl rfl rfl rfl rfl rfl rfl) (directWalk_flags cfg fl' p sa oa (i + 1) xs [])
  | x :: xs, y :: ys, i => by
    simp only [directWalk]
    have hrel := classifyItem_flags cfg fl' p p (.idx i) sa oa x y
    cases hcl : classifyItem cfg p (p ++ [.idx i]) (p ++ [.idx i]) sa oa x y with
    | emit r0 s =>
      cases hcl' : classifyItem (cfg.withFlags fl') p (p ++ [.idx i]) (p ++ [.idx i]) sa oa x y with
      | emit r0' s' =>
        rw [hcl, hcl'] at hrel
        exact relE_emit hrel.1 (directWalk_flags cfg fl' p sa oa (i + 1) xs ys)
      | descend => rw [hcl, hcl'] at hrel; exact hrel.elim
    | descend =>
      cases hcl' : classifyItem (cfg.withFlags fl') p (p ++ [.idx i]) (p ++ [.idx i]) sa oa x y with
      | emit r0' s' => rw [hcl, hcl'] at hrel; exact hrel.elim
      | descend =>
        exact relE_seq (sub_flags cfg fl' .item (p ++ [.idx i]) x y)
          (directWalk_flags cfg fl' p sa oa (i + 1) xs ys)
termination_by structural xs

theorem keyedWalk_flags (cfg : Cfg) (fl' : Flags) (p : Path) (sa oa : Val) (i : Nat) (xs : List Val)
    (ks : List Str) (sr orr : List KE) :
    RelE cfg.fl.types fl'.types (keyedWalk cfg p sa oa i xs ks sr orr)
      (keyedWalk (cfg.withFlags fl') p sa oa i xs ks sr orr) :=
  match xs, ks, sr, orr, i with
  | [], _, sr, orr, i => by
    simp only [keyedWalk]
    exact keyedTail_coreEq _ _ p sr orr
  | _ :: _, [], _, _, i => by simp only [keyedWalk]; exact rfl
  | x :: xs, k :: ks, sr, orr, i => by
    simp only [keyedWalk]
    cases hf : findKey k orr with
    | none => exact keyedWalk_flags cfg fl' p sa oa (i + 1) xs ks sr orr
    | some jy =>
      obtain ⟨j, y⟩ := jy
      simp only
      have hrel := classifyItem_flags cfg fl' p p (if i = j then PSeg.idx i else PSeg.idx2 i j) sa oa x y
      cases hcl : classifyItem cfg p (p ++ [if i = j then PSeg.idx i else PSeg.idx2 i j]) (p ++ [if i = j then PSeg.idx i else PSeg.idx2 i j]) sa oa x y with
      | emit r0 s =>
        cases hcl' : classifyItem (cfg.withFlags fl') p (p ++ [if i = j then PSeg.idx i else PSeg.idx2 i j]) (p ++ [if i = j then PSeg.idx i else PSeg.idx2 i j]) sa oa x y with
        | emit r0' s' =>
          rw [hcl, hcl'] at hrel
          exact relE_emit hrel.1 (keyedWalk_flags cfg fl' p sa oa (i + 1) xs ks _ _)
        | descend => rw [hcl, hcl'] at hrel; exact hrel.elim
      | descend =>
        cases hcl' : classifyItem (cfg.withFlags fl') p (p ++ [if i = j then PSeg.idx i else PSeg.idx2 i j]) (p ++ [if i = j then PSeg.idx i else PSeg.idx2 i j]) sa oa x y with
        | emit r0' s' => rw [hcl, hcl'] at hrel; exact hrel.elim
        | descend =>
          exact relE_seq (sub_flags cfg fl' .item _ x y)
            (keyedWalk_flags cfg fl' p sa oa (i + 1) xs ks _ _)
termination_by structural xs
end

theorem compareTop_flags (cfg : Cfg) (fl' : Flags) (a b : Val) :
    RelE cfg.fl.types fl'.types (compareTop cfg a b) (compareTop (cfg.withFlags fl') a b) := by
  unfold compareTop
  split
  · split
    · exact dictWalk_flags cfg fl' [] _ _ _ _ true _
    · exact rfl
  · split
    · exact sub_flags cfg fl' .entry [] _ _
    · exact rfl
  · exact rfl

end N0.Compare
