import N0Verif.Proofs.XPathDelete
/-!
  `delete(xpath, recursively=True)`: after the addressed node is removed, every ancestor that
  became an empty dictionary is removed as well, deepest first.  Also the frame lemmas of `delAt`.
-/
namespace N0.XPath
open N0 N0.Py N0.Val

/-! ### the reference: pruning over *positions* -/

/-- remove the node at `q` when it is an empty dictionary -/
def pruneStep (t : Val) (q : Pos) : Val :=
  match getAt t q with
  | some v => if isEmptyDict v then (delAt t q).getD t else t
  | Option.none => t

/-- `pruneUp t q k`: visit the prefixes of `q` of length `k, k-1, …, 1` (deepest first) and remove
each one that is an empty dictionary at the moment it is visited -/
def pruneUp : Val → Pos → Nat → Val
  | t, _, 0 => t
  | t, q, k + 1 => pruneUp (pruneStep t (q.take (k + 1))) q k

theorem pruneStep_hit {t t' v : Val} {q : Pos} (hg : getAt t q = some v) (he : isEmptyDict v = true)
    (hd : delAt t q = some t') : pruneStep t q = t' := by
  simp [pruneStep, hg, he, hd]

theorem pruneStep_skip {t v : Val} {q : Pos} (hg : getAt t q = some v) (he : isEmptyDict v = false) :
    pruneStep t q = t := by
  simp [pruneStep, hg, he]

/-- only the first `j` segments of the position matter -/
theorem pruneUp_append (q r : Pos) : ∀ (j : Nat) (t : Val), j ≤ q.length → pruneUp t (q ++ r) j = pruneUp t q j
  | 0, _, _ => rfl
  | j + 1, t, h => by
      rw [pruneUp, pruneUp, List.take_append_of_le_length h]
      exact pruneUp_append q r j _ (by omega)

theorem pruneUp_snoc1 (t : Val) (q0 : Pos) (s : Seg) :
    pruneUp t (q0 ++ [s]) (q0.length + 1) = pruneUp (pruneStep t (q0 ++ [s])) q0 q0.length := by
  rw [pruneUp]
  have : (q0 ++ [s]).take (q0.length + 1) = q0 ++ [s] := by
    rw [List.take_of_length_le (by simp)]
  rw [this, pruneUp_append q0 [s] q0.length _ (Nat.le_refl _)]

theorem pruneUp_snoc2 (t : Val) (q0 : Pos) (s1 s2 : Seg) :
    pruneUp t (q0 ++ [s1, s2]) (q0.length + 2)
      = pruneUp (pruneStep (pruneStep t (q0 ++ [s1, s2])) (q0 ++ [s1])) q0 q0.length := by
  rw [pruneUp, pruneUp]
  have h1 : (q0 ++ [s1, s2]).take (q0.length + 1 + 1) = q0 ++ [s1, s2] := by
    rw [List.take_of_length_le (by simp)]
  have h2 : (q0 ++ [s1, s2]).take (q0.length + 1) = q0 ++ [s1] := by
    simp [List.take_append, List.take_of_length_le]
  rw [h1, h2, pruneUp_append q0 [s1, s2] q0.length _ (Nat.le_refl _)]

/-- deleting an existing node (not the root) always succeeds -/
theorem delAt_isSome' : ∀ (p : Pos) (t c : Val), p ≠ [] → getAt t p = some c → ∃ t', delAt t p = some t'
  | [], _, _, h, _ => absurd rfl h
  | [s], t, c, _, hg => by
      obtain ⟨x, hc, _⟩ := getAt_cons_some hg
      cases s with
      | key k =>
        obtain ⟨cls, kvs, rfl, hl⟩ := child_key_some hc
        exact ⟨.dict cls (kvDel k kvs), by simp [delAt, delChild, kvHas, hl]⟩
      | idx n =>
        obtain ⟨cls, xs, rfl, _, hlt⟩ := child_idx_some hc
        exact ⟨.list cls (xs.eraseIdx n), by simp [delAt, delChild, hlt]⟩
  | s :: s2 :: rest, t, c, _, hg => by
      obtain ⟨x, hc, hr⟩ := getAt_cons_some hg
      obtain ⟨x', hx'⟩ := delAt_isSome' (s2 :: rest) x c (by simp) hr
      obtain ⟨t', ht'⟩ := setChild_isSome_of_child hc x'
      refine ⟨t', ?_⟩
      rw [delAt]
      · simp [hc, hx', ht', bind, Option.bind]
      · intro h; cases h

/-! ### decomposing a spelling -/

theorem spells_append_inv : ∀ (a : List Str) {b : List Str} {v : Val} {q : Pos} {c : Val},
    Spells (a ++ b) v q c → ∃ q0 r c0, q = q0 ++ r ∧ Spells a v q0 c0 ∧ Spells b c0 r c
  | [], _, v, q, _, h => ⟨[], q, v, rfl, .nil v, h⟩
  | tok :: a, b, v, q, c, h => by
      cases h with
      | key hk hl hs =>
        obtain ⟨q0, r, c0, rfl, h1, h2⟩ := spells_append_inv a hs
        exact ⟨_ :: q0, r, c0, rfl, .key hk hl h1, h2⟩
      | idx hk hn hx hs =>
        obtain ⟨q0, r, c0, rfl, h1, h2⟩ := spells_append_inv a hs
        exact ⟨_ :: q0, r, c0, rfl, .idx hk hn hx h1, h2⟩
      | keyIdx hk hl hn hx hs =>
        obtain ⟨q0, r, c0, rfl, h1, h2⟩ := spells_append_inv a hs
        exact ⟨_ :: _ :: q0, r, c0, rfl, .keyIdx hk hl hn hx h1, h2⟩

/-- what one token can spell: a key, an index, or `key[index]` (two segments, the skipped node
is a list) -/
theorem spells_single_inv {tok : Str} {v : Val} {r : Pos} {c : Val} (h : Spells [tok] v r c) :
    (∃ cls kvs, v = .dict cls kvs ∧ r = [.key tok] ∧ lookup tok kvs = some c) ∨
    (∃ cls xs n, v = .list cls xs ∧ r = [.idx n] ∧ xs[n]? = some c ∧ n < xs.length) ∨
    (∃ cls kvs k cls' xs n, v = .dict cls kvs ∧ r = [.key k, .idx n] ∧
        lookup k kvs = some (.list cls' xs) ∧ xs[n]? = some c ∧ n < xs.length) := by
  cases h with
  | key hk hl hs =>
    obtain ⟨rfl, rfl⟩ := hs.nil_inv
    exact Or.inl ⟨_, _, rfl, rfl, hl⟩
  | idx hk hn hx hs =>
    obtain ⟨rfl, rfl⟩ := hs.nil_inv
    exact Or.inr (Or.inl ⟨_, _, _, rfl, rfl, hx, normIdx_lt hn⟩)
  | keyIdx hk hl hn hx hs =>
    obtain ⟨rfl, rfl⟩ := hs.nil_inv
    exact Or.inr (Or.inr ⟨_, _, _, _, _, _, rfl, rfl, hl, hx, normIdx_lt hn⟩)

theorem spells_pos_ne_nil {toks : List Str} {v : Val} {p : Pos} {c : Val} (h : Spells toks v p c)
    (hne : toks ≠ []) : p ≠ [] := by
  cases h with
  | nil => exact absurd rfl hne
  | key => simp
  | idx => simp
  | keyIdx => simp

/-! ### the loop only looks at the first `k` tokens -/

theorem deleteLoop_congr (fuel : Nat) (r : Bool) : ∀ (k : Nat) (toks toks2 : List Str) (cur : Val) (f : Bool),
    toks.take k = toks2.take k → deleteLoop fuel toks r cur k f = deleteLoop fuel toks2 r cur k f
  | 0, _, _, _, _, _ => rfl
  | k + 1, toks, toks2, cur, f, h => by
      have hk : toks.take k = toks2.take k := by
        have := congrArg (List.take k) h
        simpa [List.take_take, Nat.min_eq_left (Nat.le_succ k)] using this
      rw [deleteLoop, deleteLoop, h]
      cases findD fuel cur [] false true (toks2.take (k + 1)) (.at []) true slash with
      | error e => rfl
      | ok x =>
        obtain ⟨root, res⟩ := x
        simp only
        have hgk : toks.getD k [] = toks2.getD k [] := by
          have h1 : (toks.take (k + 1)).getD k [] = toks.getD k [] := by
            simp [List.getD_eq_getElem?_getD, List.getElem?_take]
          have h2 : (toks2.take (k + 1)).getD k [] = toks2.getD k [] := by
            simp [List.getD_eq_getElem?_getD, List.getElem?_take]
          rw [← h1, ← h2, h]
        rw [hgk]
        cases delPlace fuel root (toks2.getD k []) res with
        | error e => rfl
        | ok ores =>
          cases ores with
          | none => exact deleteLoop_congr fuel r k toks toks2 root f hk
          | some res' =>
            simp only
            split
            · cases delThrough root res'.parent res'.nameIdx with
              | error e => rfl
              | ok root' => exact deleteLoop_congr fuel r k toks toks2 root' false hk
            · exact deleteLoop_congr fuel r k toks toks2 root false hk

theorem deleteLoop_init (fuel : Nat) (r : Bool) (init : List Str) (last : Str) (cur : Val) (f : Bool) :
    deleteLoop fuel (init ++ [last]) r cur init.length f = deleteLoop fuel init r cur init.length f :=
  deleteLoop_congr fuel r init.length _ _ cur f (by simp)

/-! ### the state after deleting the node a token list spells -/

/-- deleting the node spelled by `init ++ [last]` is a write at or below the node spelled by
`init`; `init` keeps spelling the same position and the skipped list node (merged token) stays a
list -/
theorem spells_after_delete {init : List Str} {last : Str} {cur : Val} {q0 r : Pos} {c0 c cur' : Val}
    (h1 : Spells init cur q0 c0) (h2 : Spells [last] c0 r c) (hdel : delAt cur (q0 ++ r) = some cur') :
    (∃ c0', Spells init cur' q0 c0') ∧
    (∀ s1 s2, r = [s1, s2] → ∃ cls xs, getAt cur' (q0 ++ [s1]) = some (.list cls xs)) := by
  have hg0 := h1.getAt
  rcases spells_single_inv h2 with ⟨cls, kvs, rfl, rfl, hl⟩ | ⟨cls, xs, n, rfl, rfl, hx, hlt⟩ |
    ⟨cls, kvs, k, cls', xs, n, rfl, rfl, hl, hx, hlt⟩
  · have hh : kvHas last kvs = true := by simp [kvHas, hl]
    have hsn := delAt_snoc q0 cur (.key last) _ (.dict cls (kvDel last kvs)) hg0 (by simp [delChild, hh])
    rw [hdel] at hsn
    obtain ⟨c2, _, hsp⟩ := spells_setAt_below h1 [] _ cur' (by simpa using hsn.symm)
    exact ⟨⟨c2, hsp⟩, by intro s1 s2 h; simp at h⟩
  · have hsn := delAt_snoc q0 cur (.idx n) _ (.list cls (xs.eraseIdx n)) hg0 (by simp [delChild, hlt])
    rw [hdel] at hsn
    obtain ⟨c2, _, hsp⟩ := spells_setAt_below h1 [] _ cur' (by simpa using hsn.symm)
    exact ⟨⟨c2, hsp⟩, by intro s1 s2 h; simp at h⟩
  · have hg1 : getAt cur (q0 ++ [.key k]) = some (.list cls' xs) := by
      rw [getAt_snoc, hg0]; simp [child, hl]
    have hsn := delAt_snoc (q0 ++ [.key k]) cur (.idx n) _ (.list cls' (xs.eraseIdx n)) hg1
      (by simp [delChild, hlt])
    rw [show q0 ++ [Seg.key k] ++ [Seg.idx n] = q0 ++ [Seg.key k, Seg.idx n] by simp, hdel] at hsn
    obtain ⟨c2, _, hsp⟩ := spells_setAt_below h1 [.key k] _ cur' hsn.symm
    refine ⟨⟨c2, hsp⟩, ?_⟩
    intro s1 s2 h
    simp only [List.cons.injEq, and_true] at h
    obtain ⟨rfl, rfl⟩ := h
    exact ⟨cls', xs.eraseIdx n, getAt_setAt_same _ _ _ _ hsn.symm (fun _ _ => trivial)⟩

/-- the node skipped by a merged token is a list, never an empty dictionary -/
theorem spells_single_mid {last : Str} {c0 c : Val} {r : Pos} (h2 : Spells [last] c0 r c) :
    r.length = 1 ∨ ∃ s1 s2 cls xs, r = [s1, s2] ∧ child c0 s1 = some (.list cls xs) := by
  rcases spells_single_inv h2 with ⟨cls, kvs, rfl, rfl, hl⟩ | ⟨cls, xs, n, rfl, rfl, hx, hlt⟩ |
    ⟨cls, kvs, k, cls', xs, n, rfl, rfl, hl, hx, hlt⟩
  · exact Or.inl rfl
  · exact Or.inl rfl
  · exact Or.inr ⟨_, _, cls', xs, rfl, by simp [child, hl]⟩

theorem isEmptyDict_list (cls : Cls) (xs : List Val) : isEmptyDict (.list cls xs) = false := rfl

/-! ### the loop after the first deletion is the pruning function -/

theorem deleteLoop_prune (fuel : Nat) : ∀ (n : Nat) (toks : List Str) (cur : Val) (q : Pos) (c : Val),
    toks.length = n → Spells toks cur q c → fuel ≥ 2 * toks.length →
    deleteLoop fuel toks true cur toks.length false = (pruneUp cur q q.length, .ok ())
  | 0, toks, cur, q, c, hn, hs, _ => by
      have : toks = [] := List.length_eq_zero_iff.mp hn
      subst this
      obtain ⟨rfl, _⟩ := hs.nil_inv
      rfl
  | n + 1, toks, cur, q, c, hn, hs, hf => by
      have hne : toks ≠ [] := by intro h; rw [h] at hn; cases hn
      obtain ⟨init, last, rfl⟩ : ∃ init last, toks = init ++ [last] :=
        ⟨toks.dropLast, toks.getLast hne, (List.dropLast_concat_getLast hne).symm⟩
      have hil : init.length = n := by simpa using hn
      obtain ⟨q0, r, c0, rfl, h1, h2⟩ := spells_append_inv init hs
      have hfi : fuel ≥ 2 * init.length := by simp at hf; omega
      obtain ⟨res, hres, hfound⟩ := find_spells cur true hs hne fuel [] slash true rfl hf
      have hqne : q0 ++ r ≠ [] := spells_pos_ne_nil hs hne
      have hlen : (init ++ [last]).length = init.length + 1 := by simp
      have hval : res.value = c := hfound.1
      rw [hlen, deleteLoop]
      have htake : (init ++ [last]).take (init.length + 1) = init ++ [last] := by
        rw [List.take_of_length_le (by simp)]
      rw [htake, hres]
      have hdp : ∀ tok, delPlace fuel cur tok res = .ok (some res) := by
        obtain ⟨_, _, pp, _, _, _, _, hpar, _⟩ := hfound
        exact fun tok => delPlace_at _ _ tok _ _ hpar
      simp only [hdp, Bool.false_or, Bool.true_and, hval]
      by_cases he : isEmptyDict c = true
      · obtain ⟨cur', hdel⟩ := delAt_isSome' (q0 ++ r) cur c hqne hs.getAt
        have hdt := delThrough_found cur (q0 ++ r) c res cur' hfound hdel
        obtain ⟨⟨c0', hsp'⟩, hmid⟩ := spells_after_delete h1 h2 hdel
        simp only [he, if_true, hdt]
        rw [deleteLoop_init, deleteLoop_prune fuel n init cur' q0 c0' hil hsp' hfi]
        have hstep : pruneStep cur (q0 ++ r) = cur' := pruneStep_hit hs.getAt he hdel
        rcases spells_single_mid h2 with hr1 | ⟨s1, s2, cls, xs, rfl, _⟩
        · obtain ⟨s, rfl⟩ : ∃ s, r = [s] := by
            match r, hr1 with
            | [s], _ => exact ⟨s, rfl⟩
          rw [show (q0 ++ [s]).length = q0.length + 1 by simp, pruneUp_snoc1, hstep]
        · obtain ⟨cls2, xs2, hg2⟩ := hmid s1 s2 rfl
          rw [show (q0 ++ [s1, s2]).length = q0.length + 2 by simp, pruneUp_snoc2, hstep,
            pruneStep_skip hg2 (isEmptyDict_list _ _)]
      · have he' : isEmptyDict c = false := by simpa using he
        simp only [he', Bool.false_eq_true, if_false]
        rw [deleteLoop_init, deleteLoop_prune fuel n init cur q0 c0 hil h1 hfi]
        have hstep : pruneStep cur (q0 ++ r) = cur := pruneStep_skip hs.getAt he'
        rcases spells_single_mid h2 with hr1 | ⟨s1, s2, cls, xs, rfl, hch⟩
        · obtain ⟨s, rfl⟩ : ∃ s, r = [s] := by
            match r, hr1 with
            | [s], _ => exact ⟨s, rfl⟩
          rw [show (q0 ++ [s]).length = q0.length + 1 by simp, pruneUp_snoc1, hstep]
        · have hg2 : getAt cur (q0 ++ [s1]) = some (.list cls xs) := by
            rw [getAt_snoc, h1.getAt]; exact hch
          rw [show (q0 ++ [s1, s2]).length = q0.length + 2 by simp, pruneUp_snoc2, hstep,
            pruneStep_skip hg2 (isEmptyDict_list _ _)]

/-- **delete, recursively** (token level, any spelling): the addressed node is removed, then the
ancestors that became empty dictionaries, deepest first -/
theorem deleteLoop_rec_spelled (fuel : Nat) (toks : List Str) (t : Val) (p : Pos) (c t' : Val)
    (hs : Spells toks t p c) (hne : toks ≠ []) (hdel : delAt t p = some t')
    (hf : fuel ≥ 2 * toks.length) :
    deleteLoop fuel toks true t toks.length true = (pruneUp t' p.dropLast (p.length - 1), .ok ()) := by
  obtain ⟨init, last, rfl⟩ : ∃ init last, toks = init ++ [last] :=
    ⟨toks.dropLast, toks.getLast hne, (List.dropLast_concat_getLast hne).symm⟩
  obtain ⟨q0, r, c0, rfl, h1, h2⟩ := spells_append_inv init hs
  have hfi : fuel ≥ 2 * init.length := by simp at hf; omega
  obtain ⟨res, hres, hfound⟩ := find_spells t true hs hne fuel [] slash true rfl hf
  have hdt := delThrough_found t (q0 ++ r) c res t' hfound hdel
  have hdp : ∀ tok, delPlace fuel t tok res = .ok (some res) := by
    obtain ⟨_, _, pp, _, _, _, _, hpar, _⟩ := hfound
    exact fun tok => delPlace_at _ _ tok _ _ hpar
  obtain ⟨⟨c0', hsp'⟩, hmid⟩ := spells_after_delete h1 h2 hdel
  have hlen : (init ++ [last]).length = init.length + 1 := by simp
  have htake : (init ++ [last]).take (init.length + 1) = init ++ [last] := by
    rw [List.take_of_length_le (by simp)]
  rw [hlen, deleteLoop, htake, hres]
  simp only [Bool.true_or, if_true, hdp, hdt]
  rw [deleteLoop_init, deleteLoop_prune fuel init.length init t' q0 c0' rfl hsp' hfi]
  rcases spells_single_mid h2 with hr1 | ⟨s1, s2, cls, xs, rfl, _⟩
  · obtain ⟨s, rfl⟩ : ∃ s, r = [s] := by
      match r, hr1 with
      | [s], _ => exact ⟨s, rfl⟩
    simp
  · obtain ⟨cls2, xs2, hg2⟩ := hmid s1 s2 rfl
    have h3 : (q0 ++ [s1, s2]).dropLast = q0 ++ [s1] := by
      rw [show q0 ++ [s1, s2] = (q0 ++ [s1]) ++ [s2] by simp, List.dropLast_concat]
    rw [h3, show (q0 ++ [s1, s2]).length - 1 = q0.length + 1 by simp, pruneUp_snoc1,
      pruneStep_skip hg2 (isEmptyDict_list _ _)]

/-- when the parent of the deleted node did not become an empty dictionary nothing else is removed -/
theorem pruneUp_stop : ∀ (k : Nat) (t : Val) (q : Pos) (v : Val), k ≤ q.length →
    getAt t (q.take k) = some v → (k ≠ 0 → isEmptyDict v = false) → pruneUp t q k = t
  | 0, _, _, _, _, _, _ => rfl
  | k + 1, t, q, v, hk, hg, he => by
      rw [pruneUp, pruneStep_skip hg (he (by simp))]
      -- the node one level up has a child, so it is not an empty dictionary
      have hq : q.take (k + 1) = q.take k ++ [q[k]'(by omega)] := by
        rw [List.take_succ_eq_append_getElem]
      rw [hq, getAt_snoc] at hg
      cases hu : getAt t (q.take k) with
      | none => simp [hu] at hg
      | some u =>
        refine pruneUp_stop k t q u (by omega) hu (fun _ => ?_)
        simp only [hu, Option.bind] at hg
        cases u with
        | dict cls kvs =>
          cases kvs with
          | nil => cases hs : q[k]'(by omega) <;> simp [hs, child, lookup] at hg
          | cons kv kvs => rfl
        | _ => rfl

/-! ### frame lemmas for `delAt` -/

/-- a successful `delAt` is `delChild` at the parent -/
theorem delAt_snoc_inv : ∀ (q : Pos) (t t' : Val) (s : Seg), delAt t (q ++ [s]) = some t' →
    ∃ pv pv', getAt t q = some pv ∧ delChild pv s = some pv' ∧ setAt t q pv' = some t'
  | [], t, t', s, h => ⟨t, t', rfl, by simpa [delAt] using h, rfl⟩
  | s0 :: q, t, t', s, h => by
      cases hq : q ++ [s] with
      | nil => simp at hq
      | cons s1 r =>
        rw [List.cons_append, hq, delAt] at h
        · cases hc : child t s0 with
          | none => simp [hc, bind, Option.bind] at h
          | some x =>
            cases hd : delAt x (s1 :: r) with
            | none => simp [hc, hd, bind, Option.bind] at h
            | some x' =>
              simp only [hc, hd, bind, Option.bind] at h
              rw [← hq] at hd
              obtain ⟨pv, pv', hg, hdc, hset⟩ := delAt_snoc_inv q x x' s hd
              refine ⟨pv, pv', by simp [getAt, hc, hg], hdc, ?_⟩
              rw [setAt_cons t s0 q pv' x hc (Or.inr trivial), hset]
              exact h
        · intro h'; cases h'

theorem diverge_cons_ne {s s' : Seg} (p q : Pos) (h : s ≠ s') : Diverge (s :: p) (s' :: q) := by
  simp [Diverge, h]

/-- a position diverging from `q ++ [s]` diverges from `q` already or is below another child of
the node at `q` -/
theorem diverge_snoc : ∀ (q : Pos) (s : Seg) (r : Pos), Diverge (q ++ [s]) r →
    Diverge q r ∨ ∃ s' r', r = q ++ s' :: r' ∧ s' ≠ s
  | [], s, [], h => by simp [Diverge] at h
  | [], s, s' :: r', h => by
      simp only [List.nil_append, Diverge] at h
      rcases h with h | ⟨_, h⟩
      · exact Or.inr ⟨s', r', rfl, Ne.symm h⟩
      · cases r' <;> exact False.elim h
  | s0 :: q, s, [], h => by simp [Diverge] at h
  | s0 :: q, s, s' :: r', h => by
      simp only [List.cons_append, Diverge] at h
      rcases h with h | ⟨rfl, h⟩
      · exact Or.inl (diverge_cons_ne _ _ h)
      · rcases diverge_snoc q s r' h with h | ⟨s'', r'', rfl, hne⟩
        · left; simp only [Diverge]; exact Or.inr ⟨trivial, h⟩
        · exact Or.inr ⟨s'', r'', rfl, hne⟩

theorem lookup_kvDel_other (k k2 : Str) (h : k2 ≠ k) : ∀ kvs : List (Str × Val),
    lookup k2 (kvDel k kvs) = lookup k2 kvs
  | [] => rfl
  | (k', x) :: kvs => by
      by_cases hk : k = k'
      · subst hk; simp [kvDel, lookup, h]
      · by_cases hk2 : k2 = k'
        · subst hk2; simp [kvDel, lookup, hk]
        · simp [kvDel, lookup, hk, hk2, lookup_kvDel_other k k2 h kvs]

/-- **frame, dict entry removed**: every position that diverges from the deleted one keeps its value -/
theorem getAt_delAt_key_frame (t t' : Val) (q : Pos) (k : Str) (r : Pos)
    (hdel : delAt t (q ++ [.key k]) = some t') (hd : Diverge (q ++ [.key k]) r) :
    getAt t' r = getAt t r := by
  obtain ⟨pv, pv', hg, hdc, hset⟩ := delAt_snoc_inv q t t' _ hdel
  rcases diverge_snoc q _ r hd with h | ⟨s', r', rfl, hne⟩
  · exact getAt_setAt_diverge q r t t' pv' hset h
  · rw [getAt_append, getAt_append, getAt_setAt_same q t t' pv' hset (fun _ _ => trivial), hg]
    cases pv with
    | dict cls kvs =>
      simp only [delChild] at hdc
      split at hdc
      · cases hdc
        cases s' with
        | key k2 =>
          have : k2 ≠ k := fun h => hne (by rw [h])
          simp [getAt, child, lookup_kvDel_other k k2 this]
        | idx n => simp [getAt, child]
      · cases hdc
    | _ => simp [delChild] at hdc

/-- **frame, list element removed**: positions diverging from the list keep their value, elements
before the removed one keep their index, later ones shift down by one -/
theorem getAt_delAt_idx_frame (t t' : Val) (q : Pos) (n : Nat)
    (hdel : delAt t (q ++ [.idx n]) = some t') :
    (∀ r, Diverge q r → getAt t' r = getAt t r) ∧
    (∀ m r', m < n → getAt t' (q ++ .idx m :: r') = getAt t (q ++ .idx m :: r')) ∧
    (∀ m r', n ≤ m → getAt t' (q ++ .idx m :: r') = getAt t (q ++ .idx (m + 1) :: r')) ∧
    (∃ cls xs, getAt t q = some (.list cls xs) ∧ n < xs.length ∧
      getAt t' q = some (.list cls (xs.eraseIdx n))) := by
  obtain ⟨pv, pv', hg, hdc, hset⟩ := delAt_snoc_inv q t t' _ hdel
  have hg' := getAt_setAt_same q t t' pv' hset (fun _ _ => trivial)
  cases pv with
  | list cls xs =>
    simp only [delChild] at hdc
    split at hdc
    · rename_i hlt
      cases hdc
      refine ⟨fun r h => getAt_setAt_diverge q r t t' _ hset h, ?_, ?_, ⟨cls, xs, hg, hlt, hg'⟩⟩
      · intro m r' hm
        rw [getAt_append, getAt_append, hg', hg]
        simp [getAt, child, List.getElem?_eraseIdx, hm]
      · intro m r' hm
        rw [getAt_append, getAt_append, hg', hg]
        have : ¬ m < n := by omega
        simp [getAt, child, List.getElem?_eraseIdx, this]
    · cases hdc
  | _ => simp [delChild] at hdc

end N0.XPath
