import N0Verif.Proofs.Compare
import N0Verif.Proofs.CompareCount
/-!
The options of the compare engine: `xpath_match` (specification), `compare_only` and `exclude_xpaths`
(filter equations on the difference lists).
-/
namespace N0.Compare
open N0

/-! ### PART 1: `xpath_match` -/

def partMatch (p x : Str) : Bool := p == ['*'] || Py.lower p == Py.lower x

/-- tail-anchored reading: only the pattern parts after its last empty part count; they must equal
(case-insensitively, `*` = any one part) the last parts of the path -/
def specMatch (xpath pat : Str) : Bool :=
  let pp := Py.splitChar '/' pat
  let xp := Py.splitChar '/' xpath
  let tail := (pp.reverse.takeWhile (fun s => !s.isEmpty)).reverse
  decide (tail.length ≤ xp.length) && (List.zipWith partMatch tail (xp.drop (xp.length - tail.length))).all id

theorem matchParts_eq : ∀ (ps xs : List Str), matchParts ps xs =
    (decide ((ps.takeWhile (fun s => !s.isEmpty)).length ≤ xs.length) &&
      (List.zipWith partMatch (ps.takeWhile (fun s => !s.isEmpty)) xs).all id)
  | [], xs => by simp [matchParts]
  | p :: ps, xs => by
    by_cases hp : p.isEmpty = true
    · simp [matchParts, hp]
    · cases xs with
      | nil => simp [matchParts, hp]
      | cons x xs' =>
        simp only [matchParts, hp, List.takeWhile_cons, matchParts_eq ps xs']
        by_cases h1 : p = ['*'] <;> by_cases h2 : Py.lower p = Py.lower x <;> simp [h1, h2, partMatch]

theorem zipWith_take_left {α β γ} (f : α → β → γ) : ∀ (t : List α) (xs : List β),
    List.zipWith f t xs = List.zipWith f t (xs.take t.length)
  | [], _ => by simp
  | _ :: t, [] => by simp
  | a :: t, x :: xs => by simp [zipWith_take_left f t xs]

theorem zipWith_tail_rev (f : Str → Str → Bool) (t xs : List Str) (h : t.length ≤ xs.length) :
    (List.zipWith f t.reverse (xs.drop (xs.length - t.length))).all id = (List.zipWith f t xs.reverse).all id := by
  rw [zipWith_take_left f t xs.reverse, List.take_reverse]
  have hl : t.length = (xs.drop (xs.length - t.length)).length := by simp; omega
  rw [← List.all_reverse (l := List.zipWith f t.reverse _), List.reverse_zipWith (by simpa using hl)]
  simp

theorem matchOne_spec (xpath pat : Str) : matchOne xpath pat = specMatch xpath pat := by
  simp only [matchOne, specMatch, matchParts_eq, List.length_reverse]
  by_cases h : ((Py.splitChar '/' pat).reverse.takeWhile (fun s => !s.isEmpty)).length ≤ (Py.splitChar '/' xpath).length
  · simp only [h, decide_true, Bool.true_and]
    have := zipWith_tail_rev partMatch _ _ h
    simpa using this.symm
  · simp [h]

theorem xpathMatchFrom_zero (x : Str) : ∀ (ps : List Str) (n : Nat),
    xpathMatchFrom x n ps = 0 ↔ ∀ p ∈ ps, matchOne x p = false
  | [], n => by simp [xpathMatchFrom]
  | p :: ps, n => by
    by_cases h : matchOne x p = true
    · simp [xpathMatchFrom, h]
    · simp [xpathMatchFrom, h, xpathMatchFrom_zero x ps (n + 1)]

theorem xpathMatchFrom_range (x : Str) : ∀ (ps : List Str) (n : Nat),
    xpathMatchFrom x n ps = 0 ∨ n < xpathMatchFrom x n ps
  | [], n => by simp [xpathMatchFrom]
  | p :: ps, n => by
    by_cases h : matchOne x p = true
    · simp [xpathMatchFrom, h]
    · simp only [xpathMatchFrom, h]
      rcases xpathMatchFrom_range x ps (n + 1) with h' | h'
      · simp [h']
      · right; simp at h' ⊢; omega

theorem xpathMatchFrom_pos (x : Str) : ∀ (ps : List Str) (n i : Nat),
    xpathMatchFrom x n ps = n + i + 1 ↔
      (∃ p, ps[i]? = some p ∧ matchOne x p = true) ∧ ∀ j < i, ∀ q, ps[j]? = some q → matchOne x q = false
  | [], n, i => by simp [xpathMatchFrom]
  | p :: ps, n, i => by
    by_cases h : matchOne x p = true
    · cases i with
      | zero => simp [xpathMatchFrom, h]
      | succ i' =>
        simp only [xpathMatchFrom, h, if_true]
        constructor
        · intro h'; omega
        · rintro ⟨_, h2⟩
          have := h2 0 (by omega) p (by simp)
          simp [h] at this
    · cases i with
      | zero =>
        simp only [xpathMatchFrom, h]
        constructor
        · intro h'
          rcases xpathMatchFrom_range x ps (n + 1) with h'' | h'' <;> simp at h' <;> omega
        · rintro ⟨⟨q, hq, hm⟩, _⟩
          simp at hq; subst hq; exact absurd hm h
      | succ i' =>
        simp only [xpathMatchFrom, h]
        have ih := xpathMatchFrom_pos x ps (n + 1) i'
        have e : n + (i' + 1) + 1 = n + 1 + i' + 1 := by omega
        rw [e]
        simp only [Bool.false_eq_true, if_false]
        rw [ih]
        constructor
        · rintro ⟨⟨q, hq, hm⟩, h2⟩
          refine ⟨⟨q, by simpa using hq, hm⟩, ?_⟩
          intro j hj q' hq'
          cases j with
          | zero => simp at hq'; subst hq'; simpa using h
          | succ j' => exact h2 j' (by omega) q' (by simpa using hq')
        · rintro ⟨⟨q, hq, hm⟩, h2⟩
          refine ⟨⟨q, by simpa using hq, hm⟩, ?_⟩
          intro j hj q' hq'
          exact h2 (j + 1) (by omega) q' (by simpa using hq')

/-- the result is `0` iff no pattern matches -/
theorem xpathMatch_zero (xpath : Str) (a : PatArg) :
    xpathMatch xpath a = 0 ↔ ∀ p ∈ a.pats, specMatch xpath p = false := by
  simp only [xpathMatch, xpathMatchFrom_zero, matchOne_spec]

/-- the result is the 1-based index of the first matching pattern -/
theorem xpathMatch_pos (xpath : Str) (a : PatArg) (i : Nat) :
    xpathMatch xpath a = i + 1 ↔
      (∃ p, a.pats[i]? = some p ∧ specMatch xpath p = true) ∧
        ∀ j < i, ∀ q, a.pats[j]? = some q → specMatch xpath q = false := by
  have := xpathMatchFrom_pos xpath a.pats 0 i
  simpa only [xpathMatch, matchOne_spec, Nat.zero_add] using this

theorem xpathMatch_str_eq_tuple (xpath s : Str) : xpathMatch xpath (.one s) = xpathMatch xpath (.many [s]) := rfl

/-! ### shared vocabulary for the two filter equations -/

def lastIsKey (q : Path) : Bool := match q.getLast? with | some (.key _) => true | _ => false

/-- diff-part of a result: the number of lines and the four difference lists -/
def Res.diffPart (r : Res) := (r.diffs, r.notEqual, r.selfUnique, r.otherUnique, r.diffTypes)

def Res.filterPaths (keep : Path → Bool) (r : Res) : Res :=
  let ne := r.notEqual.filter (fun e => keep e.path); let su := r.selfUnique.filter (fun e => keep e.path)
  let ou := r.otherUnique.filter (fun e => keep e.path); let dt := r.diffTypes.filter (fun e => keep e.path)
  { diffs := ne.length + su.length + ou.length + dt.length, notEqual := ne, selfUnique := su, otherUnique := ou, diffTypes := dt,
    selfEqual := r.selfEqual, otherEqual := r.otherEqual }

@[simp] theorem lastIsKey_nil : lastIsKey [] = false := rfl
@[simp] theorem lastIsKey_key (p : Path) (k : Str) : lastIsKey (p ++ [.key k]) = true := by simp [lastIsKey]
@[simp] theorem lastIsKey_idx (p : Path) (i : Nat) : lastIsKey (p ++ [.idx i]) = false := by simp [lastIsKey]
@[simp] theorem lastIsKey_idx2 (p : Path) (i j : Nat) : lastIsKey (p ++ [.idx2 i j]) = false := by simp [lastIsKey]

/-- the paths of all difference entries of a result -/
def Res.paths (r : Res) : List Path :=
  r.notEqual.map (·.path) ++ r.selfUnique.map (·.path) ++ r.otherUnique.map (·.path) ++ r.diffTypes.map (·.path)

theorem mem_paths_append {a b : Res} {q : Path} : q ∈ (a ++ b).paths ↔ q ∈ a.paths ∨ q ∈ b.paths := by
  simp only [Res.paths, append_notEqual, append_selfUnique, append_otherUnique, append_diffTypes,
    List.map_append, List.mem_append]
  grind

@[simp] theorem paths_empty : Res.empty.paths = [] := rfl

/-- the four difference lists of `r'` are those of `r` filtered by a predicate on the path -/
structure FiltOf (keep : Path → Bool) (r r' : Res) : Prop where
  ne : r'.notEqual = r.notEqual.filter (fun e => keep e.path)
  su : r'.selfUnique = r.selfUnique.filter (fun e => keep e.path)
  ou : r'.otherUnique = r.otherUnique.filter (fun e => keep e.path)
  dt : r'.diffTypes = r.diffTypes.filter (fun e => keep e.path)

theorem filtOf_iff {k : Path → Bool} {r r' : Res} : FiltOf k r r' ↔
    (r'.notEqual = r.notEqual.filter (fun e => k e.path) ∧ r'.selfUnique = r.selfUnique.filter (fun e => k e.path) ∧
      r'.otherUnique = r.otherUnique.filter (fun e => k e.path) ∧ r'.diffTypes = r.diffTypes.filter (fun e => k e.path)) :=
  ⟨fun h => ⟨h.ne, h.su, h.ou, h.dt⟩, fun h => ⟨h.1, h.2.1, h.2.2.1, h.2.2.2⟩⟩

theorem FiltOf.append {k : Path → Bool} {a a' b b' : Res} (ha : FiltOf k a a') (hb : FiltOf k b b') :
    FiltOf k (a ++ b) (a' ++ b') := by
  constructor <;> simp [ha.ne, ha.su, ha.ou, ha.dt, hb.ne, hb.su, hb.ou, hb.dt]

theorem FiltOf.empty (k : Path → Bool) : FiltOf k Res.empty Res.empty := by
  constructor <;> rfl

/-- all entries are kept -/
theorem FiltOf.all {k : Path → Bool} {r : Res} (h : ∀ q ∈ r.paths, k q = true) : FiltOf k r r := by
  simp only [Res.paths, List.mem_append, List.mem_map] at h
  constructor <;> (symm; rw [List.filter_eq_self]; intro e he; apply h)
  · exact .inl (.inl (.inl ⟨e, he, rfl⟩))
  · exact .inl (.inl (.inr ⟨e, he, rfl⟩))
  · exact .inl (.inr ⟨e, he, rfl⟩)
  · exact .inr ⟨e, he, rfl⟩

/-- no entry is kept -/
theorem FiltOf.none {k : Path → Bool} {r : Res} (h : ∀ q ∈ r.paths, k q = false) : FiltOf k r Res.empty := by
  simp only [Res.paths, List.mem_append, List.mem_map] at h
  constructor <;> (symm; show List.filter _ _ = []; rw [List.filter_eq_nil_iff]; intro e he; simp only [Bool.not_eq_true]; apply h)
  · exact .inl (.inl (.inl ⟨e, he, rfl⟩))
  · exact .inl (.inl (.inr ⟨e, he, rfl⟩))
  · exact .inl (.inr ⟨e, he, rfl⟩)
  · exact .inr ⟨e, he, rfl⟩

/-- the predicate may be replaced by one that agrees on the paths present -/
theorem FiltOf.congr {k k' : Path → Bool} {r r' : Res} (h : ∀ q ∈ r.paths, k q = k' q) (hf : FiltOf k r r') :
    FiltOf k' r r' := by
  simp only [Res.paths, List.mem_append, List.mem_map] at h
  constructor
  · rw [hf.ne]; apply List.filter_congr; intro e he; exact h _ (.inl (.inl (.inl ⟨e, he, rfl⟩)))
  · rw [hf.su]; apply List.filter_congr; intro e he; exact h _ (.inl (.inl (.inr ⟨e, he, rfl⟩)))
  · rw [hf.ou]; apply List.filter_congr; intro e he; exact h _ (.inl (.inr ⟨e, he, rfl⟩))
  · rw [hf.dt]; apply List.filter_congr; intro e he; exact h _ (.inr ⟨e, he, rfl⟩)

theorem FiltOf.diffPart {k : Path → Bool} {r r' : Res} (hf : FiltOf k r r') (hb : r'.diffs = r'.count) :
    r'.diffPart = (r.filterPaths k).diffPart := by
  simp only [Res.diffPart, Res.filterPaths, hb, Res.count, hf.ne, hf.su, hf.ou, hf.dt]

/-- which paths a list-item decision can report -/
theorem classifyItem_paths {cfg : Cfg} {p pne pdt : Path} {sa oa x y : Val} {r : Res} {s : Bool}
    (h : classifyItem cfg p pne pdt sa oa x y = .emit r s) : ∀ q ∈ r.paths, q = pne ∨ q = pdt := by
  unfold classifyItem at h
  simp only at h
  split at h
  · split at h
    · split at h
      · cases h; simp [Res.paths]
      · split at h <;> cases h <;> simp [Res.paths, Res.empty]
    · cases h
  · split at h <;> cases h <;> simp [Res.paths]

/-- which paths a dictionary-entry decision can report -/
theorem classifyEntry_paths {cfg : Cfg} {full : Path} {x y : Val} {r : Res} {s : Bool}
    (h : classifyEntry cfg full x y = .emit r s) : ∀ q ∈ r.paths, q = full := by
  unfold classifyEntry at h
  split at h
  · cases h; simp
  · simp only at h
    split at h
    · split at h
      · split at h <;> cases h <;> simp [Res.paths, Res.empty]
      · cases h
    · split at h
      · split at h <;> cases h <;> simp [Res.paths]
      · cases h; simp

theorem otherTail_paths (p : Path) : ∀ (ys : List Val) (i : Nat), ∀ e ∈ otherTail p i ys, ∃ j, e.path = p ++ [.idx j]
  | [], _, e, h => by simp [otherTail] at h
  | y :: ys, i, e, h => by
    simp only [otherTail, List.mem_cons] at h
    rcases h with h | h
    · exact ⟨i, by rw [h]⟩
    · exact otherTail_paths p ys (i + 1) e h

theorem keyedTail_paths (p : Path) (sr orr : List KE) : ∀ q ∈ (keyedTail p sr orr).paths, ∃ j, q = p ++ [.idx j] := by
  intro q hq
  simp only [Res.paths, keyedTail, List.map_map, List.map_nil, List.append_nil, List.mem_append, List.mem_map,
    Function.comp] at hq
  rcases hq with (h | ⟨e, _, rfl⟩) | ⟨e, _, rfl⟩
  · cases h
  · exact ⟨_, rfl⟩
  · exact ⟨_, rfl⟩

/-! ### the options that the key generation reads -/

theorem recordFields_congr (c c' : Cfg) (htr : c.tr = c'.tr) (q : Path) (kvs : List (Str × Val)) :
    ∀ (ks : List Str) (acc : List (Str × Val)), recordFields c q kvs ks acc = recordFields c' q kvs ks acc
  | [], acc => by simp [recordFields]
  | key :: rest, acc => by
    simp only [recordFields, transformAt, transformAtStr, htr]
    cases Val.lookup key kvs with
    | none => exact recordFields_congr c c' htr q kvs rest acc
    | some v => exact recordFields_congr c c' htr q kvs rest _

theorem keysOf_congr (c c' : Cfg) (htr : c.tr = c'.tr) (hck : c.ck = c'.ck) (p : Path) :
    ∀ (i : Nat) (xs : List Val), keysOf c p i xs = keysOf c' p i xs
  | _, [] => rfl
  | i, x :: xs => by
    have hk : keyOf c p i x = keyOf c' p i x := by
      cases x <;> simp [keyOf, hck, recordFields_congr c c' htr, transformAt, transformAtStr, htr]
    simp only [keysOf, hk, keysOf_congr c c' htr hck p (i + 1) xs]

/-! ### PART 2: `compare_only` -/

/-- entries located at dictionary entries are kept iff their path matches; list items are untouched -/
def onlyKeep (cfg : Cfg) (p : Path) : Bool := !cfg.only.truthy || !lastIsKey p || xpathMatch (render p) cfg.only != 0

/-- the same options without `compare_only` -/
def noOnly (cfg : Cfg) : Cfg := { cfg with only := .many [] }

@[simp] theorem noOnly_direct (cfg : Cfg) : (noOnly cfg).direct = cfg.direct := rfl
@[simp] theorem noOnly_fl (cfg : Cfg) : (noOnly cfg).fl = cfg.fl := rfl
@[simp] theorem excluded_noOnly (cfg : Cfg) (p : Path) : excluded (noOnly cfg) p = excluded cfg p := rfl
@[simp] theorem transformAt_noOnly (cfg : Cfg) (p : Path) : transformAt (noOnly cfg) p = transformAt cfg p := rfl
@[simp] theorem onlyOk_noOnly (cfg : Cfg) (p : Path) : onlyOk (noOnly cfg) p = true := rfl
@[simp] theorem classifyItem_noOnly (cfg : Cfg) (p pne pdt : Path) (sa oa x y : Val) :
    classifyItem (noOnly cfg) p pne pdt sa oa x y = classifyItem cfg p pne pdt sa oa x y := rfl
@[simp] theorem keysOf_noOnly (cfg : Cfg) (p : Path) (i : Nat) (xs : List Val) : keysOf (noOnly cfg) p i xs = keysOf cfg p i xs :=
  keysOf_congr (noOnly cfg) cfg rfl rfl p i xs

@[simp] theorem onlyKeep_key (cfg : Cfg) (p : Path) (k : Str) : onlyKeep cfg (p ++ [.key k]) = onlyOk cfg (p ++ [.key k]) := by
  simp [onlyKeep, onlyOk]
@[simp] theorem onlyKeep_idx (cfg : Cfg) (p : Path) (i : Nat) : onlyKeep cfg (p ++ [.idx i]) = true := by
  simp [onlyKeep]
@[simp] theorem onlyKeep_idx2 (cfg : Cfg) (p : Path) (i j : Nat) : onlyKeep cfg (p ++ [.idx2 i j]) = true := by
  simp [onlyKeep]

/-- relation between the decisions of the unrestricted and the restricted run -/
def ActRel (k : Path → Bool) : Act → Act → Prop
  | .emit r _, .emit r' _ => FiltOf k r r'
  | .descend, .descend => True
  | _, _ => False

theorem classifyEntry_only (cfg : Cfg) (p : Path) (k : Str) (x y : Val) :
    ActRel (onlyKeep cfg) (classifyEntry (noOnly cfg) (p ++ [.key k]) x y) (classifyEntry cfg (p ++ [.key k]) x y) := by
  unfold classifyEntry
  simp only [excluded_noOnly, transformAt_noOnly, onlyOk_noOnly, noOnly_fl, and_true]
  generalize transformAt cfg (p ++ [.key k]) x = sv
  generalize transformAt cfg (p ++ [.key k]) y = ov
  by_cases hne : sv = ov
  · subst hne
    cases he : excluded cfg (p ++ [.key k]) <;> cases ho : onlyOk cfg (p ++ [.key k]) <;>
    by_cases hs : isPyScalar sv = true <;>
      simp [ActRel, filtOf_iff, Res.empty, hs]
  · cases he : excluded cfg (p ++ [.key k]) <;> cases ho : onlyOk cfg (p ++ [.key k]) <;>
    by_cases ht : tyOf sv = tyOf ov <;>
    by_cases hs : isPyScalar sv = true <;>
    by_cases hty : cfg.fl.types = true <;>
      simp [ActRel, filtOf_iff, Res.empty, ht, hs, hne, hty, ho]

theorem leftover_only (cfg : Cfg) (p : Path) (kv : Str × Val) :
    leftover cfg p kv = (leftover (noOnly cfg) p kv).filter (fun e => onlyKeep cfg e.path) := by
  simp only [leftover, excluded_noOnly, onlyOk_noOnly, Bool.and_true]
  by_cases he : excluded cfg (p ++ [.key kv.1]) = true
  · simp [he]
  · by_cases ho : onlyOk cfg (p ++ [.key kv.1]) = true <;> simp [he, ho, Option.filter]

theorem dictTail_only (cfg : Cfg) (p : Path) (sa oa : Val) (skvs okvs : List (Str × Val)) (s s' : Bool) :
    FiltOf (onlyKeep cfg) (dictTail (noOnly cfg) p sa oa skvs okvs s) (dictTail cfg p sa oa skvs okvs s') := by
  have hf : ∀ l : List (Str × Val), l.filterMap (leftover cfg p) =
      (l.filterMap (leftover (noOnly cfg) p)).filter (fun e => onlyKeep cfg e.path) := by
    intro l
    rw [List.filter_filterMap]
    congr 1
    funext kv
    exact leftover_only cfg p kv
  constructor <;> simp [dictTail, hf]

theorem otherTail_filt (k : Path → Bool) (p : Path) (hk : ∀ j, k (p ++ [.idx j]) = true) (i : Nat) (ys : List Val) :
    (otherTail p i ys).filter (fun e => k e.path) = otherTail p i ys := by
  rw [List.filter_eq_self]
  intro e he
  obtain ⟨j, hj⟩ := otherTail_paths p ys i e he
  rw [hj]; exact hk j

theorem classifyItem_filt {k : Path → Bool} {cfg : Cfg} {p pne pdt : Path} {sa oa x y : Val} {r : Res} {s : Bool}
    (h : classifyItem cfg p pne pdt sa oa x y = .emit r s) (h1 : k pne = true) (h2 : k pdt = true) : FiltOf k r r := by
  apply FiltOf.all
  intro q hq
  rcases classifyItem_paths h q hq with rfl | rfl <;> assumption

theorem keyedTail_filt (k : Path → Bool) (p : Path) (hk : ∀ j, k (p ++ [.idx j]) = true) (sr orr : List KE) :
    FiltOf k (keyedTail p sr orr) (keyedTail p sr orr) := by
  apply FiltOf.all
  intro q hq
  obtain ⟨j, rfl⟩ := keyedTail_paths p sr orr q hq
  exact hk j

mutual
theorem sub_only (cfg : Cfg) (site : Site) (p : Path) (v w : Val) (r : Res)
    (h : sub (noOnly cfg) site p v w = .ok r) :
    ∃ r', sub cfg site p v w = .ok r' ∧ FiltOf (onlyKeep cfg) r r' :=
  match v, w, h with
  | .list c xs, w, h => by
    cases w with
    | list c' ys =>
      simp only [sub, noOnly_direct, excluded_noOnly, keysOf_noOnly] at h ⊢
      by_cases h1 : site = .item ∧ cfg.direct = true ∧ c = .plain
      · rw [if_pos h1] at h; cases h
      · rw [if_neg h1] at h ⊢
        by_cases h2 : site = .item ∧ cfg.direct = true ∧ c' = .plain
        · rw [if_pos h2] at h; cases h
        · rw [if_neg h2] at h ⊢
          by_cases h3 : excluded cfg p = true
          · rw [if_pos h3] at h ⊢; cases h; exact ⟨_, rfl, FiltOf.empty _⟩
          · rw [if_neg h3] at h ⊢
            by_cases h4 : cfg.direct = true
            · rw [if_pos h4] at h ⊢
              exact directWalk_only cfg p _ _ 0 xs ys r h
            · rw [if_neg h4] at h ⊢
              cases hk : keysOf cfg p 0 xs with
              | error e => rw [hk] at h; cases h
              | ok ks =>
                rw [hk] at h
                simp only at h ⊢
                cases hk' : keysOf cfg p 0 ys with
                | error e => rw [hk'] at h; cases h
                | ok ko =>
                  rw [hk'] at h
                  simp only at h ⊢
                  exact keyedWalk_only cfg p _ _ 0 xs ks _ _ r h
    | _ => simp [sub] at h
  | .dict c kvs, w, h => by
    cases w with
    | dict c' kvs' =>
      simp only [sub] at h ⊢
      split at h
      · cases h
      · rename_i h1
        rw [if_neg (show ¬(site = .item ∧ cfg.direct = false ∧ c' = .plain) from h1)]
        exact dictWalk_only cfg p _ _ kvs kvs' true true kvs r h
    | _ => simp [sub] at h
  | .none, _, h => by
    simp [sub] at h; subst h
    exact ⟨Res.empty, by simp [sub], FiltOf.empty _⟩
  | .bool _, _, h => by simp [sub] at h
  | .int _, _, h => by simp [sub] at h
  | .flt _, _, h => by simp [sub] at h
  | .str _, _, h => by simp [sub] at h
termination_by structural v

theorem dictWalk_only (cfg : Cfg) (p : Path) (sa oa : Val) (skvs okvs : List (Str × Val))
    (still still' : Bool) (kvs : List (Str × Val)) (r : Res)
    (h : dictWalk (noOnly cfg) p sa oa skvs okvs still kvs = .ok r) :
    ∃ r', dictWalk cfg p sa oa skvs okvs still' kvs = .ok r' ∧ FiltOf (onlyKeep cfg) r r' :=
  match kvs, still, still', h with
  | [], still, still', h => by
    simp only [dictWalk] at h ⊢
    cases h
    exact ⟨_, rfl, dictTail_only ..⟩
  | (k, v) :: rest, still, still', h => by
    simp only [dictWalk] at h ⊢
    cases hl : Val.lookup k okvs with
    | none =>
      rw [hl] at h
      exact dictWalk_only cfg p sa oa skvs okvs still still' rest r h
    | some w =>
      rw [hl] at h
      simp only at h ⊢
      have hrel := classifyEntry_only cfg p k v w
      cases hcl0 : classifyEntry (noOnly cfg) (p ++ [.key k]) v w with
      | emit r0 s0 =>
        cases hcl : classifyEntry cfg (p ++ [.key k]) v w with
        | emit r0' s0' =>
          rw [hcl0, hcl] at hrel
          rw [hcl0] at h
          simp only at h ⊢
          cases hr : dictWalk (noOnly cfg) p sa oa skvs okvs (still && s0) rest with
          | error e => rw [hr] at h; cases h
          | ok r1 =>
            rw [hr] at h; cases h
            obtain ⟨r1', hr1', hf⟩ := dictWalk_only cfg p sa oa skvs okvs (still && s0) (still' && s0') rest r1 hr
            exact ⟨r0' ++ r1', by rw [hr1'], FiltOf.append hrel hf⟩
        | descend => rw [hcl0, hcl] at hrel; exact hrel.elim
      | descend =>
        cases hcl : classifyEntry cfg (p ++ [.key k]) v w with
        | emit r0' s0' => rw [hcl0, hcl] at hrel; exact hrel.elim
        | descend =>
          rw [hcl0] at h
          simp only at h ⊢
          cases hs : sub (noOnly cfg) .entry (p ++ [.key k]) v w with
          | error e => rw [hs] at h; cases h
          | ok r0 =>
            rw [hs] at h
            simp only at h
            cases hr : dictWalk (noOnly cfg) p sa oa skvs okvs still rest with
            | error e => rw [hr] at h; cases h
            | ok r1 =>
              rw [hr] at h; cases h
              obtain ⟨r0', hr0', hf0⟩ := sub_only cfg .entry (p ++ [.key k]) v w r0 hs
              obtain ⟨r1', hr1', hf⟩ := dictWalk_only cfg p sa oa skvs okvs still still' rest r1 hr
              exact ⟨r0' ++ r1', by rw [hr0']; simp only; rw [hr1'], FiltOf.append hf0 hf⟩
termination_by structural kvs

theorem directWalk_only (cfg : Cfg) (p : Path) (sa oa : Val) (i : Nat) (xs ys : List Val) (r : Res)
    (h : directWalk (noOnly cfg) p sa oa i xs ys = .ok r) :
    ∃ r', directWalk cfg p sa oa i xs ys = .ok r' ∧ FiltOf (onlyKeep cfg) r r' :=
  match xs, ys, i, h with
  | [], ys, i, h => by
    simp only [directWalk] at h ⊢
    cases h
    refine ⟨_, rfl, ?_⟩
    constructor <;> simp [otherTail_filt (onlyKeep cfg) p (onlyKeep_idx cfg p)]
  | x :: xs, [], i, h => by
    simp only [directWalk] at h ⊢
    cases hr : directWalk (noOnly cfg) p sa oa (i + 1) xs [] with
    | error e => rw [hr] at h; cases h
    | ok r1 =>
      rw [hr] at h; cases h
      obtain ⟨r1', hr1', hf⟩ := directWalk_only cfg p sa oa (i + 1) xs [] r1 hr
      refine ⟨_, by rw [hr1'], FiltOf.append (FiltOf.all ?_) hf⟩
      simp [Res.paths]
  | x :: xs, y :: ys, i, h => by
    simp only [directWalk, classifyItem_noOnly] at h ⊢
    cases hcl : classifyItem cfg p (p ++ [.idx i]) (p ++ [.idx i]) sa oa x y with
    | emit r0 s =>
      rw [hcl] at h
      simp only at h ⊢
      cases hr : directWalk (noOnly cfg) p sa oa (i + 1) xs ys with
      | error e => rw [hr] at h; cases h
      | ok r1 =>
        rw [hr] at h; cases h
        obtain ⟨r1', hr1', hf⟩ := directWalk_only cfg p sa oa (i + 1) xs ys r1 hr
        exact ⟨r0 ++ r1', by rw [hr1'], FiltOf.append (classifyItem_filt hcl (by simp) (by simp)) hf⟩
    | descend =>
      rw [hcl] at h
      simp only at h ⊢
      cases hs : sub (noOnly cfg) .item (p ++ [.idx i]) x y with
      | error e => rw [hs] at h; cases h
      | ok r0 =>
        rw [hs] at h
        simp only at h
        cases hr : directWalk (noOnly cfg) p sa oa (i + 1) xs ys with
        | error e => rw [hr] at h; cases h
        | ok r1 =>
          rw [hr] at h; cases h
          obtain ⟨r0', hr0', hf0⟩ := sub_only cfg .item (p ++ [.idx i]) x y r0 hs
          obtain ⟨r1', hr1', hf⟩ := directWalk_only cfg p sa oa (i + 1) xs ys r1 hr
          exact ⟨r0' ++ r1', by rw [hr0']; simp only; rw [hr1'], FiltOf.append hf0 hf⟩
termination_by structural xs

theorem keyedWalk_only (cfg : Cfg) (p : Path) (sa oa : Val) (i : Nat) (xs : List Val) (ks : List Str)
    (sr orr : List KE) (r : Res)
    (h : keyedWalk (noOnly cfg) p sa oa i xs ks sr orr = .ok r) :
    ∃ r', keyedWalk cfg p sa oa i xs ks sr orr = .ok r' ∧ FiltOf (onlyKeep cfg) r r' :=
  match xs, ks, sr, orr, i, h with
  | [], _, sr, orr, i, h => by
    simp only [keyedWalk] at h ⊢
    cases h
    exact ⟨_, rfl, keyedTail_filt _ p (onlyKeep_idx cfg p) sr orr⟩
  | _ :: _, [], _, _, i, h => by simp [keyedWalk] at h
  | x :: xs, k :: ks, sr, orr, i, h => by
    simp only [keyedWalk, classifyItem_noOnly] at h ⊢
    cases hf : findKey k orr with
    | none =>
      rw [hf] at h
      exact keyedWalk_only cfg p sa oa (i + 1) xs ks sr orr r h
    | some jy =>
      obtain ⟨j, y⟩ := jy
      rw [hf] at h
      simp only at h ⊢
      have hseg : onlyKeep cfg (p ++ [if i = j then PSeg.idx i else PSeg.idx2 i j]) = true := by
        split <;> simp
      cases hcl : classifyItem cfg p (p ++ [if i = j then PSeg.idx i else PSeg.idx2 i j]) (p ++ [if i = j then PSeg.idx i else PSeg.idx2 i j]) sa oa x y with
      | emit r0 s =>
        rw [hcl] at h
        simp only at h ⊢
        cases hr : keyedWalk (noOnly cfg) p sa oa (i + 1) xs ks (eraseKey k sr) (eraseKey k orr) with
        | error e => rw [hr] at h; cases h
        | ok r1 =>
          rw [hr] at h; cases h
          obtain ⟨r1', hr1', hf⟩ := keyedWalk_only cfg p sa oa (i + 1) xs ks _ _ r1 hr
          exact ⟨r0 ++ r1', by rw [hr1'], FiltOf.append (classifyItem_filt hcl hseg hseg) hf⟩
      | descend =>
        rw [hcl] at h
        simp only at h ⊢
        cases hs : sub (noOnly cfg) .item (p ++ [if i = j then PSeg.idx i else PSeg.idx2 i j]) x y with
        | error e => rw [hs] at h; cases h
        | ok r0 =>
          rw [hs] at h
          simp only at h
          cases hr : keyedWalk (noOnly cfg) p sa oa (i + 1) xs ks (eraseKey k sr) (eraseKey k orr) with
          | error e => rw [hr] at h; cases h
          | ok r1 =>
            rw [hr] at h; cases h
            obtain ⟨r0', hr0', hf0⟩ := sub_only cfg .item _ x y r0 hs
            obtain ⟨r1', hr1', hf⟩ := keyedWalk_only cfg p sa oa (i + 1) xs ks _ _ r1 hr
            exact ⟨r0' ++ r1', by rw [hr0']; simp only; rw [hr1'], FiltOf.append hf0 hf⟩
termination_by structural xs
end

/-- `compare_only` is a filter on the difference lists: entries located at dictionary entries are kept iff
their path matches one of the patterns; entries located at list items are never filtered -/
theorem only_filter (cfg : Cfg) (a b : Val) (r : Res)
    (h : compareTop { cfg with only := .many [] } a b = .ok r) :
    ∃ r', compareTop cfg a b = .ok r' ∧ r'.diffPart = (r.filterPaths (onlyKeep cfg)).diffPart := by
  change compareTop (noOnly cfg) a b = .ok r at h
  have key : ∃ r', compareTop cfg a b = .ok r' ∧ FiltOf (onlyKeep cfg) r r' := by
    unfold compareTop at h ⊢
    split at h
    · split at h
      · exact dictWalk_only cfg [] _ _ _ _ true true _ r h
      · cases h
    · split at h
      · exact sub_only cfg .entry [] _ _ r h
      · cases h
    · cases h
  obtain ⟨r', hr', hf⟩ := key
  exact ⟨r', hr', hf.diffPart (compareTop_balanced cfg a b r' hr')⟩

/-! ### PART 3: `exclude_xpaths` -/

def isIdx : PSeg → Bool | .key _ => false | _ => true

/-- some prefix `q` of the entry's path that the code tests against `exclude_xpaths` matches: the prefix ends at a
dictionary key, or it is the path of a list (the next segment is an index) -/
def exclHit (ex : PatArg) : Path → Path → Bool
  | q, [] => lastIsKey q && xpathMatch (render q) ex != 0
  | q, s :: r => ((lastIsKey q || isIdx s) && xpathMatch (render q) ex != 0) || exclHit ex (q ++ [s]) r

/-- the same options without `exclude_xpaths` -/
def noExcl (cfg : Cfg) : Cfg := { cfg with excl := .many [] }

@[simp] theorem noExcl_direct (cfg : Cfg) : (noExcl cfg).direct = cfg.direct := rfl
@[simp] theorem noExcl_fl (cfg : Cfg) : (noExcl cfg).fl = cfg.fl := rfl
@[simp] theorem excluded_noExcl (cfg : Cfg) (p : Path) : excluded (noExcl cfg) p = false := rfl
@[simp] theorem transformAt_noExcl (cfg : Cfg) (p : Path) : transformAt (noExcl cfg) p = transformAt cfg p := rfl
@[simp] theorem onlyOk_noExcl (cfg : Cfg) (p : Path) : onlyOk (noExcl cfg) p = onlyOk cfg p := rfl
@[simp] theorem classifyItem_noExcl (cfg : Cfg) (p pne pdt : Path) (sa oa x y : Val) :
    classifyItem (noExcl cfg) p pne pdt sa oa x y = classifyItem cfg p pne pdt sa oa x y := rfl
@[simp] theorem keysOf_noExcl (cfg : Cfg) (p : Path) (i : Nat) (xs : List Val) : keysOf (noExcl cfg) p i xs = keysOf cfg p i xs :=
  keysOf_congr (noExcl cfg) cfg rfl rfl p i xs

/-- the filter below prefix `p`: only the part of the path after `p` is walked -/
def exKeep (ex : PatArg) (p q : Path) : Bool := !exclHit ex p (q.drop p.length)

theorem exKeep_append (ex : PatArg) (p rest : Path) : exKeep ex p (p ++ rest) = !exclHit ex p rest := by
  simp [exKeep]

theorem exclHit_of_key (ex : PatArg) (q : Path) (hk : lastIsKey q = true) (hm : (xpathMatch (render q) ex != 0) = true) :
    ∀ rest, exclHit ex q rest = true
  | [] => by simp [exclHit, hk, hm]
  | _ :: _ => by simp [exclHit, hk, hm]

@[simp] theorem lastIsKey_idxSeg (p : Path) (s : PSeg) (hs : isIdx s = true) : lastIsKey (p ++ [s]) = false := by
  cases s <;> simp_all [isIdx]

/-- an entry at key `k` under `p` survives iff `p/k` is not excluded -/
theorem exKeep_key (cfg : Cfg) (p : Path) (k : Str) (hp : (lastIsKey p && excluded cfg p) = false) :
    exKeep cfg.excl p (p ++ [.key k]) = !excluded cfg (p ++ [.key k]) := by
  simp only [excluded] at hp
  simp [exKeep_append, exclHit, isIdx, hp, excluded]

/-- an entry at an item of a list that is not excluded survives -/
theorem exKeep_idxSeg (cfg : Cfg) (p : Path) (s : PSeg) (hp : excluded cfg p = false) (hs : isIdx s = true) :
    exKeep cfg.excl p (p ++ [s]) = true := by
  simp only [excluded] at hp
  simp [exKeep_append, exclHit, hs, hp]

/-- everything at or below an excluded dictionary entry is dropped -/
theorem exKeep_under_key (cfg : Cfg) (p : Path) (k : Str) (more : Path) (he : excluded cfg (p ++ [.key k]) = true) :
    exKeep cfg.excl p ((p ++ [.key k]) ++ more) = false := by
  have e : (p ++ [PSeg.key k]) ++ more = p ++ PSeg.key k :: more := by simp
  rw [e, exKeep_append]
  simp only [excluded] at he
  simp [exclHit, exclHit_of_key cfg.excl (p ++ [.key k]) (by simp) he more]

/-- everything below an excluded list is dropped -/
theorem exKeep_under_list (cfg : Cfg) (p : Path) (s : PSeg) (more : Path) (he : excluded cfg p = true)
    (hs : isIdx s = true) : exKeep cfg.excl p (p ++ s :: more) = false := by
  simp only [excluded] at he
  simp [exKeep_append, exclHit, hs, he]

/-! #### where the entries of a run are located -/

/-- every entry is located strictly below `p`, and the first segment after `p` satisfies `ok` -/
def Below (ok : PSeg → Bool) (p : Path) (r : Res) : Prop :=
  ∀ q ∈ r.paths, ∃ s more, q = p ++ s :: more ∧ ok s = true

theorem Below.append {ok : PSeg → Bool} {p : Path} {a b : Res} (ha : Below ok p a) (hb : Below ok p b) :
    Below ok p (a ++ b) := by
  intro q hq
  rcases mem_paths_append.1 hq with h | h
  · exact ha q h
  · exact hb q h

theorem Below.empty (ok : PSeg → Bool) (p : Path) : Below ok p Res.empty := by
  intro q hq; simp at hq

theorem Below.mono {ok : PSeg → Bool} {p : Path} {r : Res} (h : Below ok p r) : Below (fun _ => true) p r := by
  intro q hq
  obtain ⟨s, more, e, _⟩ := h q hq
  exact ⟨s, more, e, rfl⟩

theorem Below.nest {ok ok' : PSeg → Bool} {p : Path} {s : PSeg} {r : Res} (h : Below ok' (p ++ [s]) r)
    (hs : ok s = true) : Below ok p r := by
  intro q hq
  obtain ⟨s', more, e, _⟩ := h q hq
  exact ⟨s, s' :: more, by rw [e]; simp, hs⟩

theorem Below.single {ok : PSeg → Bool} {p : Path} {r : Res}
    (h : ∀ q ∈ r.paths, ∃ s, q = p ++ [s] ∧ ok s = true) : Below ok p r := by
  intro q hq
  obtain ⟨s, e, hs⟩ := h q hq
  exact ⟨s, [], e, hs⟩

theorem classifyItem_below {cfg : Cfg} {p : Path} {seg : PSeg} {sa oa x y : Val} {r : Res} {s : Bool}
    (hseg : isIdx seg = true)
    (h : classifyItem cfg p (p ++ [seg]) (p ++ [seg]) sa oa x y = .emit r s) : Below isIdx p r := by
  apply Below.single
  intro q hq
  rcases classifyItem_paths h q hq with rfl | rfl
  · exact ⟨seg, rfl, hseg⟩
  · exact ⟨seg, rfl, hseg⟩

theorem classifyEntry_below {cfg : Cfg} {p : Path} {k : Str} {x y : Val} {r : Res} {s : Bool}
    (h : classifyEntry cfg (p ++ [.key k]) x y = .emit r s) : Below (fun _ => true) p r := by
  apply Below.single
  intro q hq
  exact ⟨.key k, classifyEntry_paths h q hq, rfl⟩

theorem leftover_path {cfg : Cfg} {p : Path} {kv : Str × Val} {e : UE} (h : leftover cfg p kv = some e) :
    e.path = p ++ [.key kv.1] := by
  simp only [leftover] at h
  split at h
  · cases h; rfl
  · cases h

theorem dictTail_paths (cfg : Cfg) (p : Path) (sa oa : Val) (skvs okvs : List (Str × Val)) (st : Bool) :
    ∀ q ∈ (dictTail cfg p sa oa skvs okvs st).paths, ∃ k, q = p ++ [.key k] := by
  intro q hq
  simp only [Res.paths, dictTail, List.map_nil, List.append_nil, List.nil_append, List.mem_append, List.mem_map,
    List.mem_filterMap] at hq
  rcases hq with ⟨e, ⟨kv, _, hl⟩, rfl⟩ | ⟨e, ⟨kv, _, hl⟩, rfl⟩
  · exact ⟨_, leftover_path hl⟩
  · exact ⟨_, leftover_path hl⟩

theorem dictTail_below (cfg : Cfg) (p : Path) (sa oa : Val) (skvs okvs : List (Str × Val)) (st : Bool) :
    Below (fun _ => true) p (dictTail cfg p sa oa skvs okvs st) := by
  apply Below.single
  intro q hq
  obtain ⟨k, e⟩ := dictTail_paths cfg p sa oa skvs okvs st q hq
  exact ⟨_, e, rfl⟩

theorem keyedTail_below (p : Path) (sr orr : List KE) : Below isIdx p (keyedTail p sr orr) := by
  apply Below.single
  intro q hq
  obtain ⟨j, e⟩ := keyedTail_paths p sr orr q hq
  exact ⟨_, e, rfl⟩

theorem otherTail_below (p : Path) (i : Nat) (ys : List Val) :
    Below isIdx p { diffs := (otherTail p i ys).length, otherUnique := otherTail p i ys } := by
  apply Below.single
  intro q hq
  simp only [Res.paths, List.map_nil, List.append_nil, List.nil_append, List.mem_map] at hq
  obtain ⟨e, he, rfl⟩ := hq
  obtain ⟨j, hj⟩ := otherTail_paths p ys i e he
  exact ⟨_, hj, rfl⟩

theorem selfItem_below (p : Path) (i : Nat) (x : Val) :
    Below isIdx p { diffs := 1, selfUnique := [⟨p ++ [.idx i], x⟩] } := by
  apply Below.single
  intro q hq
  simp only [Res.paths, List.map_nil, List.append_nil, List.nil_append, List.map_cons, List.mem_singleton] at hq
  exact ⟨_, hq, rfl⟩

theorem isIdx_seg (i j : Nat) : isIdx (if i = j then PSeg.idx i else PSeg.idx2 i j) = true := by
  split <;> rfl

mutual
theorem sub_below (cfg : Cfg) (site : Site) (p : Path) (v w : Val) (r : Res)
    (h : sub cfg site p v w = .ok r) : Below (fun _ => true) p r :=
  match v, w, h with
  | .list c xs, w, h => by
    cases w with
    | list c' ys =>
      simp only [sub] at h
      split at h
      · cases h
      · split at h
        · cases h
        · split at h
          · cases h; exact Below.empty _ _
          · split at h
            · exact (directWalk_below cfg p _ _ 0 xs ys r h).mono
            · split at h
              · cases h
              · split at h
                · cases h
                · exact (keyedWalk_below cfg p _ _ 0 xs _ _ _ r h).mono
    | _ => simp [sub] at h
  | .dict c kvs, w, h => by
    cases w with
    | dict c' kvs' =>
      simp only [sub] at h
      split at h
      · cases h
      · exact dictWalk_below cfg p _ _ kvs kvs' true kvs r h
    | _ => simp [sub] at h
  | .none, _, h => by simp [sub] at h; subst h; exact Below.empty _ _
  | .bool _, _, h => by simp [sub] at h
  | .int _, _, h => by simp [sub] at h
  | .flt _, _, h => by simp [sub] at h
  | .str _, _, h => by simp [sub] at h
termination_by structural v

theorem dictWalk_below (cfg : Cfg) (p : Path) (sa oa : Val) (skvs okvs : List (Str × Val))
    (still : Bool) (kvs : List (Str × Val)) (r : Res)
    (h : dictWalk cfg p sa oa skvs okvs still kvs = .ok r) : Below (fun _ => true) p r :=
  match kvs, still, h with
  | [], still, h => by
    simp only [dictWalk] at h
    cases h; exact dictTail_below cfg p sa oa skvs okvs still
  | (k, v) :: rest, still, h => by
    simp only [dictWalk] at h
    cases hl : Val.lookup k okvs with
    | none =>
      rw [hl] at h
      exact dictWalk_below cfg p sa oa skvs okvs still rest r h
    | some w =>
      rw [hl] at h
      simp only at h
      cases hcl : classifyEntry cfg (p ++ [.key k]) v w with
      | emit r0 s =>
        rw [hcl] at h
        simp only at h
        cases hr : dictWalk cfg p sa oa skvs okvs (still && s) rest with
        | error e => rw [hr] at h; cases h
        | ok r' =>
          rw [hr] at h; cases h
          exact Below.append (classifyEntry_below hcl) (dictWalk_below cfg p sa oa skvs okvs (still && s) rest r' hr)
      | descend =>
        rw [hcl] at h
        simp only at h
        cases hs : sub cfg .entry (p ++ [.key k]) v w with
        | error e => rw [hs] at h; cases h
        | ok r1 =>
          rw [hs] at h
          simp only at h
          cases hr : dictWalk cfg p sa oa skvs okvs still rest with
          | error e => rw [hr] at h; cases h
          | ok r' =>
            rw [hr] at h; cases h
            exact Below.append (Below.nest (sub_below cfg .entry _ v w r1 hs) rfl)
              (dictWalk_below cfg p sa oa skvs okvs still rest r' hr)
termination_by structural kvs

theorem directWalk_below (cfg : Cfg) (p : Path) (sa oa : Val) (i : Nat) (xs ys : List Val) (r : Res)
    (h : directWalk cfg p sa oa i xs ys = .ok r) : Below isIdx p r :=
  match xs, ys, i, h with
  | [], ys, i, h => by
    simp only [directWalk] at h
    cases h
    exact otherTail_below p i ys
  | x :: xs, [], i, h => by
    simp only [directWalk] at h
    cases hr : directWalk cfg p sa oa (i + 1) xs [] with
    | error e => rw [hr] at h; cases h
    | ok r' =>
      rw [hr] at h; cases h
      exact Below.append (selfItem_below p i x) (directWalk_below cfg p sa oa (i + 1) xs [] r' hr)
  | x :: xs, y :: ys, i, h => by
    simp only [directWalk] at h
    cases hcl : classifyItem cfg p (p ++ [.idx i]) (p ++ [.idx i]) sa oa x y with
    | emit r0 s =>
      rw [hcl] at h
      simp only at h
      cases hr : directWalk cfg p sa oa (i + 1) xs ys with
      | error e => rw [hr] at h; cases h
      | ok r' =>
        rw [hr] at h; cases h
        exact Below.append (classifyItem_below rfl hcl) (directWalk_below cfg p sa oa (i + 1) xs ys r' hr)
    | descend =>
      rw [hcl] at h
      simp only at h
      cases hs : sub cfg .item (p ++ [.idx i]) x y with
      | error e => rw [hs] at h; cases h
      | ok r1 =>
        rw [hs] at h
        simp only at h
        cases hr : directWalk cfg p sa oa (i + 1) xs ys with
        | error e => rw [hr] at h; cases h
        | ok r' =>
          rw [hr] at h; cases h
          exact Below.append (Below.nest (sub_below cfg .item _ x y r1 hs) rfl)
            (directWalk_below cfg p sa oa (i + 1) xs ys r' hr)
termination_by structural xs

theorem keyedWalk_below (cfg : Cfg) (p : Path) (sa oa : Val) (i : Nat) (xs : List Val) (ks : List Str)
    (sr orr : List KE) (r : Res)
    (h : keyedWalk cfg p sa oa i xs ks sr orr = .ok r) : Below isIdx p r :=
  match xs, ks, sr, orr, i, h with
  | [], _, sr, orr, i, h => by
    simp only [keyedWalk] at h
    cases h; exact keyedTail_below p sr orr
  | _ :: _, [], _, _, i, h => by simp [keyedWalk] at h
  | x :: xs, k :: ks, sr, orr, i, h => by
    simp only [keyedWalk] at h
    cases hf : findKey k orr with
    | none =>
      rw [hf] at h
      exact keyedWalk_below cfg p sa oa (i + 1) xs ks sr orr r h
    | some jy =>
      obtain ⟨j, y⟩ := jy
      rw [hf] at h
      simp only at h
      cases hcl : classifyItem cfg p (p ++ [if i = j then PSeg.idx i else PSeg.idx2 i j]) (p ++ [if i = j then PSeg.idx i else PSeg.idx2 i j]) sa oa x y with
      | emit r0 s =>
        rw [hcl] at h
        simp only at h
        cases hr : keyedWalk cfg p sa oa (i + 1) xs ks (eraseKey k sr) (eraseKey k orr) with
        | error e => rw [hr] at h; cases h
        | ok r' =>
          rw [hr] at h; cases h
          exact Below.append (classifyItem_below (isIdx_seg i j) hcl) (keyedWalk_below cfg p sa oa (i + 1) xs ks _ _ r' hr)
      | descend =>
        rw [hcl] at h
        simp only at h
        cases hs : sub cfg .item (p ++ [if i = j then PSeg.idx i else PSeg.idx2 i j]) x y with
        | error e => rw [hs] at h; cases h
        | ok r1 =>
          rw [hs] at h
          simp only at h
          cases hr : keyedWalk cfg p sa oa (i + 1) xs ks (eraseKey k sr) (eraseKey k orr) with
          | error e => rw [hr] at h; cases h
          | ok r' =>
            rw [hr] at h; cases h
            exact Below.append (Below.nest (sub_below cfg .item _ x y r1 hs) (isIdx_seg i j))
              (keyedWalk_below cfg p sa oa (i + 1) xs ks _ _ r' hr)
termination_by structural xs
end

/-! #### the filter equation -/

/-- a filter equation below `p ++ [s]` is one below `p` when the prefix `p` itself is not hit -/
theorem FiltOf.lift {ex : PatArg} {p : Path} {s : PSeg} {r r' : Res}
    (ht : ((lastIsKey p || isIdx s) && xpathMatch (render p) ex != 0) = false)
    (hb : Below (fun _ => true) (p ++ [s]) r) (h : FiltOf (exKeep ex (p ++ [s])) r r') :
    FiltOf (exKeep ex p) r r' := by
  refine h.congr ?_
  intro q hq
  obtain ⟨s', more, rfl, _⟩ := hb q hq
  rw [exKeep_append]
  have e : (p ++ [s]) ++ s' :: more = p ++ s :: s' :: more := by simp
  rw [e, exKeep_append]
  simp only [exclHit, ht, Bool.false_or]

theorem classifyEntry_excl_false {cfg : Cfg} {full : Path} (x y : Val) (he : excluded cfg full = false) :
    classifyEntry (noExcl cfg) full x y = classifyEntry cfg full x y := by
  unfold classifyEntry
  rw [he]
  rfl

theorem classifyEntry_excl_true {cfg : Cfg} {full : Path} (x y : Val) (he : excluded cfg full = true) :
    classifyEntry cfg full x y = .emit Res.empty true := by
  simp [classifyEntry, he]

theorem leftover_excl (cfg : Cfg) (p : Path) (hp : (lastIsKey p && excluded cfg p) = false) (kv : Str × Val) :
    leftover cfg p kv = (leftover (noExcl cfg) p kv).filter (fun e => exKeep cfg.excl p e.path) := by
  simp only [leftover, excluded_noExcl, onlyOk_noExcl, Bool.not_false, Bool.true_and]
  cases he : excluded cfg (p ++ [.key kv.1]) <;> cases ho : onlyOk cfg (p ++ [.key kv.1]) <;>
    simp [Option.filter, exKeep_key cfg p kv.1 hp, he]

theorem dictTail_excl (cfg : Cfg) (p : Path) (hp : (lastIsKey p && excluded cfg p) = false) (sa oa : Val)
    (skvs okvs : List (Str × Val)) (s s' : Bool) :
    FiltOf (exKeep cfg.excl p) (dictTail (noExcl cfg) p sa oa skvs okvs s) (dictTail cfg p sa oa skvs okvs s') := by
  have hf : ∀ l : List (Str × Val), l.filterMap (leftover cfg p) =
      (l.filterMap (leftover (noExcl cfg) p)).filter (fun e => exKeep cfg.excl p e.path) := by
    intro l
    rw [List.filter_filterMap]
    congr 1
    funext kv
    exact leftover_excl cfg p hp kv
  constructor <;> simp [dictTail, hf]

theorem hp_key (cfg : Cfg) (p : Path) (k : Str) (he : excluded cfg (p ++ [.key k]) = false) :
    (lastIsKey (p ++ [.key k]) && excluded cfg (p ++ [.key k])) = false := by simp [he]

theorem hp_idxSeg (cfg : Cfg) (p : Path) (s : PSeg) (hs : isIdx s = true) :
    (lastIsKey (p ++ [s]) && excluded cfg (p ++ [s])) = false := by simp [hs]

theorem ht_key (cfg : Cfg) (p : Path) (k : Str) (hp : (lastIsKey p && excluded cfg p) = false) :
    ((lastIsKey p || isIdx (.key k)) && xpathMatch (render p) cfg.excl != 0) = false := by
  simpa [isIdx, excluded] using hp

theorem ht_idxSeg (cfg : Cfg) (p : Path) (s : PSeg) (hp : excluded cfg p = false) :
    ((lastIsKey p || isIdx s) && xpathMatch (render p) cfg.excl != 0) = false := by
  simp only [excluded] at hp
  simp [hp]

mutual
theorem sub_excl (cfg : Cfg) (site : Site) (p : Path) (v w : Val) (r : Res)
    (hp : (lastIsKey p && excluded cfg p) = false)
    (h : sub (noExcl cfg) site p v w = .ok r) :
    ∃ r', sub cfg site p v w = .ok r' ∧ FiltOf (exKeep cfg.excl p) r r' :=
  match v, w, h with
  | .list c xs, w, h => by
    cases w with
    | list c' ys =>
      simp only [sub, noExcl_direct, excluded_noExcl, keysOf_noExcl] at h ⊢
      by_cases h1 : site = .item ∧ cfg.direct = true ∧ c = .plain
      · rw [if_pos h1] at h; cases h
      · rw [if_neg h1] at h ⊢
        by_cases h2 : site = .item ∧ cfg.direct = true ∧ c' = .plain
        · rw [if_pos h2] at h; cases h
        · rw [if_neg h2] at h ⊢
          simp only [Bool.false_eq_true, if_false] at h
          cases h3 : excluded cfg p with
          | true =>
            simp only [if_true]
            refine ⟨_, rfl, FiltOf.none ?_⟩
            have hb : Below isIdx p r := by
              by_cases h4 : cfg.direct = true
              · rw [if_pos h4] at h
                exact directWalk_below (noExcl cfg) p _ _ 0 xs ys r h
              · rw [if_neg h4] at h
                cases hk : keysOf cfg p 0 xs with
                | error e => rw [hk] at h; cases h
                | ok ks =>
                  rw [hk] at h
                  simp only at h
                  cases hk' : keysOf cfg p 0 ys with
                  | error e => rw [hk'] at h; cases h
                  | ok ko =>
                    rw [hk'] at h
                    simp only at h
                    exact keyedWalk_below (noExcl cfg) p _ _ 0 xs ks _ _ r h
            intro q hq
            obtain ⟨s, more, rfl, hs⟩ := hb q hq
            exact exKeep_under_list cfg p s more h3 hs
          | false =>
            simp only [Bool.false_eq_true, if_false]
            by_cases h4 : cfg.direct = true
            · rw [if_pos h4] at h ⊢
              exact directWalk_excl cfg p _ _ 0 xs ys r h3 h
            · rw [if_neg h4] at h ⊢
              cases hk : keysOf cfg p 0 xs with
              | error e => rw [hk] at h; cases h
              | ok ks =>
                rw [hk] at h
                simp only at h ⊢
                cases hk' : keysOf cfg p 0 ys with
                | error e => rw [hk'] at h; cases h
                | ok ko =>
                  rw [hk'] at h
                  simp only at h ⊢
                  exact keyedWalk_excl cfg p _ _ 0 xs ks _ _ r h3 h
    | _ => simp [sub] at h
  | .dict c kvs, w, h => by
    cases w with
    | dict c' kvs' =>
      simp only [sub] at h ⊢
      split at h
      · cases h
      · rename_i h1
        rw [if_neg (show ¬(site = .item ∧ cfg.direct = false ∧ c' = .plain) from h1)]
        exact dictWalk_excl cfg p _ _ kvs kvs' true true kvs r hp h
    | _ => simp [sub] at h
  | .none, _, h => by
    simp [sub] at h; subst h
    exact ⟨Res.empty, by simp [sub], FiltOf.empty _⟩
  | .bool _, _, h => by simp [sub] at h
  | .int _, _, h => by simp [sub] at h
  | .flt _, _, h => by simp [sub] at h
  | .str _, _, h => by simp [sub] at h
termination_by structural v

theorem dictWalk_excl (cfg : Cfg) (p : Path) (sa oa : Val) (skvs okvs : List (Str × Val))
    (still still' : Bool) (kvs : List (Str × Val)) (r : Res)
    (hp : (lastIsKey p && excluded cfg p) = false)
    (h : dictWalk (noExcl cfg) p sa oa skvs okvs still kvs = .ok r) :
    ∃ r', dictWalk cfg p sa oa skvs okvs still' kvs = .ok r' ∧ FiltOf (exKeep cfg.excl p) r r' :=
  match kvs, still, still', h with
  | [], still, still', h => by
    simp only [dictWalk] at h ⊢
    cases h
    exact ⟨_, rfl, dictTail_excl cfg p hp sa oa skvs okvs still still'⟩
  | (k, v) :: rest, still, still', h => by
    simp only [dictWalk] at h ⊢
    cases hl : Val.lookup k okvs with
    | none =>
      rw [hl] at h
      exact dictWalk_excl cfg p sa oa skvs okvs still still' rest r hp h
    | some w =>
      rw [hl] at h
      simp only at h ⊢
      cases he : excluded cfg (p ++ [.key k]) with
      | true =>
        rw [classifyEntry_excl_true v w he]
        simp only
        cases hcl0 : classifyEntry (noExcl cfg) (p ++ [.key k]) v w with
        | emit r0 s0 =>
          rw [hcl0] at h
          simp only at h
          cases hr : dictWalk (noExcl cfg) p sa oa skvs okvs (still && s0) rest with
          | error e => rw [hr] at h; cases h
          | ok r1 =>
            rw [hr] at h; cases h
            obtain ⟨r1', hr1', hf⟩ := dictWalk_excl cfg p sa oa skvs okvs (still && s0) (still' && true) rest r1 hp hr
            refine ⟨Res.empty ++ r1', by rw [hr1'], FiltOf.append (FiltOf.none ?_) hf⟩
            intro q hq
            rw [classifyEntry_paths hcl0 q hq]
            simpa using exKeep_under_key cfg p k [] he
        | descend =>
          rw [hcl0] at h
          simp only at h
          cases hs : sub (noExcl cfg) .entry (p ++ [.key k]) v w with
          | error e => rw [hs] at h; cases h
          | ok r0 =>
            rw [hs] at h
            simp only at h
            cases hr : dictWalk (noExcl cfg) p sa oa skvs okvs still rest with
            | error e => rw [hr] at h; cases h
            | ok r1 =>
              rw [hr] at h; cases h
              obtain ⟨r1', hr1', hf⟩ := dictWalk_excl cfg p sa oa skvs okvs still (still' && true) rest r1 hp hr
              refine ⟨Res.empty ++ r1', by rw [hr1'], FiltOf.append (FiltOf.none ?_) hf⟩
              intro q hq
              obtain ⟨s, more, rfl, _⟩ := sub_below (noExcl cfg) .entry _ v w r0 hs q hq
              exact exKeep_under_key cfg p k (s :: more) he
      | false =>
        rw [classifyEntry_excl_false v w he] at h
        cases hcl : classifyEntry cfg (p ++ [.key k]) v w with
        | emit r0 s0 =>
          rw [hcl] at h
          simp only at h ⊢
          cases hr : dictWalk (noExcl cfg) p sa oa skvs okvs (still && s0) rest with
          | error e => rw [hr] at h; cases h
          | ok r1 =>
            rw [hr] at h; cases h
            obtain ⟨r1', hr1', hf⟩ := dictWalk_excl cfg p sa oa skvs okvs (still && s0) (still' && s0) rest r1 hp hr
            refine ⟨r0 ++ r1', by rw [hr1'], FiltOf.append (FiltOf.all ?_) hf⟩
            intro q hq
            rw [classifyEntry_paths hcl q hq, exKeep_key cfg p k hp, he]; rfl
        | descend =>
          rw [hcl] at h
          simp only at h ⊢
          cases hs : sub (noExcl cfg) .entry (p ++ [.key k]) v w with
          | error e => rw [hs] at h; cases h
          | ok r0 =>
            rw [hs] at h
            simp only at h
            cases hr : dictWalk (noExcl cfg) p sa oa skvs okvs still rest with
            | error e => rw [hr] at h; cases h
            | ok r1 =>
              rw [hr] at h; cases h
              obtain ⟨r0', hr0', hf0⟩ := sub_excl cfg .entry (p ++ [.key k]) v w r0 (hp_key cfg p k he) hs
              obtain ⟨r1', hr1', hf⟩ := dictWalk_excl cfg p sa oa skvs okvs still still' rest r1 hp hr
              exact ⟨r0' ++ r1', by rw [hr0']; simp only; rw [hr1'],
                FiltOf.append (FiltOf.lift (ht_key cfg p k hp) (sub_below _ _ _ _ _ _ hs) hf0) hf⟩
termination_by structural kvs

theorem directWalk_excl (cfg : Cfg) (p : Path) (sa oa : Val) (i : Nat) (xs ys : List Val) (r : Res)
    (hp : excluded cfg p = false)
    (h : directWalk (noExcl cfg) p sa oa i xs ys = .ok r) :
    ∃ r', directWalk cfg p sa oa i xs ys = .ok r' ∧ FiltOf (exKeep cfg.excl p) r r' :=
  match xs, ys, i, h with
  | [], ys, i, h => by
    simp only [directWalk] at h ⊢
    cases h
    refine ⟨_, rfl, FiltOf.all ?_⟩
    intro q hq
    simp only [Res.paths, List.map_nil, List.append_nil, List.nil_append, List.mem_map] at hq
    obtain ⟨e, he, rfl⟩ := hq
    obtain ⟨j, hj⟩ := otherTail_paths p ys i e he
    rw [hj]; exact exKeep_idxSeg cfg p _ hp rfl
  | x :: xs, [], i, h => by
    simp only [directWalk] at h ⊢
    cases hr : directWalk (noExcl cfg) p sa oa (i + 1) xs [] with
    | error e => rw [hr] at h; cases h
    | ok r1 =>
      rw [hr] at h; cases h
      obtain ⟨r1', hr1', hf⟩ := directWalk_excl cfg p sa oa (i + 1) xs [] r1 hp hr
      refine ⟨_, by rw [hr1'], FiltOf.append (FiltOf.all ?_) hf⟩
      intro q hq
      simp only [Res.paths, List.map_nil, List.append_nil, List.nil_append, List.map_cons, List.mem_singleton] at hq
      rw [hq]; exact exKeep_idxSeg cfg p _ hp rfl
  | x :: xs, y :: ys, i, h => by
    simp only [directWalk, classifyItem_noExcl] at h ⊢
    cases hcl : classifyItem cfg p (p ++ [.idx i]) (p ++ [.idx i]) sa oa x y with
    | emit r0 s =>
      rw [hcl] at h
      simp only at h ⊢
      cases hr : directWalk (noExcl cfg) p sa oa (i + 1) xs ys with
      | error e => rw [hr] at h; cases h
      | ok r1 =>
        rw [hr] at h; cases h
        obtain ⟨r1', hr1', hf⟩ := directWalk_excl cfg p sa oa (i + 1) xs ys r1 hp hr
        exact ⟨r0 ++ r1', by rw [hr1'], FiltOf.append
          (classifyItem_filt hcl (exKeep_idxSeg cfg p _ hp rfl) (exKeep_idxSeg cfg p _ hp rfl)) hf⟩
    | descend =>
      rw [hcl] at h
      simp only at h ⊢
      cases hs : sub (noExcl cfg) .item (p ++ [.idx i]) x y with
      | error e => rw [hs] at h; cases h
      | ok r0 =>
        rw [hs] at h
        simp only at h
        cases hr : directWalk (noExcl cfg) p sa oa (i + 1) xs ys with
        | error e => rw [hr] at h; cases h
        | ok r1 =>
          rw [hr] at h; cases h
          obtain ⟨r0', hr0', hf0⟩ := sub_excl cfg .item (p ++ [.idx i]) x y r0 (hp_idxSeg cfg p _ rfl) hs
          obtain ⟨r1', hr1', hf⟩ := directWalk_excl cfg p sa oa (i + 1) xs ys r1 hp hr
          exact ⟨r0' ++ r1', by rw [hr0']; simp only; rw [hr1'],
            FiltOf.append (FiltOf.lift (ht_idxSeg cfg p _ hp) (sub_below _ _ _ _ _ _ hs) hf0) hf⟩
termination_by structural xs

theorem keyedWalk_excl (cfg : Cfg) (p : Path) (sa oa : Val) (i : Nat) (xs : List Val) (ks : List Str)
    (sr orr : List KE) (r : Res)
    (hp : excluded cfg p = false)
    (h : keyedWalk (noExcl cfg) p sa oa i xs ks sr orr = .ok r) :
    ∃ r', keyedWalk cfg p sa oa i xs ks sr orr = .ok r' ∧ FiltOf (exKeep cfg.excl p) r r' :=
  match xs, ks, sr, orr, i, h with
  | [], _, sr, orr, i, h => by
    simp only [keyedWalk] at h ⊢
    cases h
    exact ⟨_, rfl, keyedTail_filt _ p (fun j => exKeep_idxSeg cfg p _ hp rfl) sr orr⟩
  | _ :: _, [], _, _, i, h => by simp [keyedWalk] at h
  | x :: xs, k :: ks, sr, orr, i, h => by
    simp only [keyedWalk, classifyItem_noExcl] at h ⊢
    cases hf : findKey k orr with
    | none =>
      rw [hf] at h
      exact keyedWalk_excl cfg p sa oa (i + 1) xs ks sr orr r hp h
    | some jy =>
      obtain ⟨j, y⟩ := jy
      rw [hf] at h
      simp only at h ⊢
      cases hcl : classifyItem cfg p (p ++ [if i = j then PSeg.idx i else PSeg.idx2 i j]) (p ++ [if i = j then PSeg.idx i else PSeg.idx2 i j]) sa oa x y with
      | emit r0 s =>
        rw [hcl] at h
        simp only at h ⊢
        cases hr : keyedWalk (noExcl cfg) p sa oa (i + 1) xs ks (eraseKey k sr) (eraseKey k orr) with
        | error e => rw [hr] at h; cases h
        | ok r1 =>
          rw [hr] at h; cases h
          obtain ⟨r1', hr1', hf⟩ := keyedWalk_excl cfg p sa oa (i + 1) xs ks _ _ r1 hp hr
          exact ⟨r0 ++ r1', by rw [hr1'], FiltOf.append
            (classifyItem_filt hcl (exKeep_idxSeg cfg p _ hp (isIdx_seg i j)) (exKeep_idxSeg cfg p _ hp (isIdx_seg i j))) hf⟩
      | descend =>
        rw [hcl] at h
        simp only at h ⊢
        cases hs : sub (noExcl cfg) .item (p ++ [if i = j then PSeg.idx i else PSeg.idx2 i j]) x y with
        | error e => rw [hs] at h; cases h
        | ok r0 =>
          rw [hs] at h
          simp only at h
          cases hr : keyedWalk (noExcl cfg) p sa oa (i + 1) xs ks (eraseKey k sr) (eraseKey k orr) with
          | error e => rw [hr] at h; cases h
          | ok r1 =>
            rw [hr] at h; cases h
            obtain ⟨r0', hr0', hf0⟩ := sub_excl cfg .item _ x y r0 (hp_idxSeg cfg p _ (isIdx_seg i j)) hs
            obtain ⟨r1', hr1', hf⟩ := keyedWalk_excl cfg p sa oa (i + 1) xs ks _ _ r1 hp hr
            exact ⟨r0' ++ r1', by rw [hr0']; simp only; rw [hr1'],
              FiltOf.append (FiltOf.lift (ht_idxSeg cfg p _ hp) (sub_below _ _ _ _ _ _ hs) hf0) hf⟩
termination_by structural xs
end

/-- `exclude_xpaths` is a filter on the difference lists: an entry is dropped iff one of the prefixes of its
path that end at a dictionary key or name a list matches one of the patterns -/
theorem exclude_filter (cfg : Cfg) (a b : Val) (r : Res)
    (h : compareTop { cfg with excl := .many [] } a b = .ok r) :
    ∃ r', compareTop cfg a b = .ok r' ∧
      r'.diffPart = (r.filterPaths (fun p => !exclHit cfg.excl [] p)).diffPart := by
  change compareTop (noExcl cfg) a b = .ok r at h
  have hk : exKeep cfg.excl [] = (fun p => !exclHit cfg.excl [] p) := by
    funext q; simp [exKeep]
  have key : ∃ r', compareTop cfg a b = .ok r' ∧ FiltOf (exKeep cfg.excl []) r r' := by
    unfold compareTop at h ⊢
    split at h
    · split at h
      · exact dictWalk_excl cfg [] _ _ _ _ true true _ r (by simp) h
      · cases h
    · split at h
      · exact sub_excl cfg .entry [] _ _ r (by simp) h
      · cases h
    · cases h
  obtain ⟨r', hr', hf⟩ := key
  rw [hk] at hf
  exact ⟨r', hr', hf.diffPart (compareTop_balanced cfg a b r' hr')⟩

end N0.Compare
