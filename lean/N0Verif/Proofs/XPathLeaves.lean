import N0Verif.Proofs.XPathResolve
/-! Document-order leaves of a tree, and the `xpath()` enumeration. -/
namespace N0.XPath
open N0 N0.Py N0.Val

mutual
/-- scalar leaves with their positions, in document order (depth-first, left to right) -/
def leaves : Val → List (Pos × Val)
  | .list _ xs => leavesList 0 xs
  | .dict _ kvs => leavesKvs kvs
  | .none => [([], .none)]
  | .bool b => [([], .bool b)]
  | .int i => [([], .int i)]
  | .flt r => [([], .flt r)]
  | .str s => [([], .str s)]
def leavesList (i : Nat) : List Val → List (Pos × Val)
  | [] => []
  | x :: xs => (leaves x).map (fun pv => (Seg.idx i :: pv.1, pv.2)) ++ leavesList (i + 1) xs
def leavesKvs : List (Str × Val) → List (Pos × Val)
  | [] => []
  | (k, x) :: kvs => (leaves x).map (fun pv => (Seg.key k :: pv.1, pv.2)) ++ leavesKvs kvs
end

mutual
/-- every key in the tree is a plain name and keys are unique within each dict -/
def PlainTree : Val → Prop
  | .list _ xs => PlainList xs
  | .dict _ kvs => PlainKvs kvs
  | _ => True
def PlainList : List Val → Prop
  | [] => True
  | x :: xs => PlainTree x ∧ PlainList xs
def PlainKvs : List (Str × Val) → Prop
  | [] => True
  | (k, x) :: kvs => PlainKey k ∧ lookup k kvs = Option.none ∧ PlainTree x ∧ PlainKvs kvs
end

theorem renderPos_cons (s : Seg) (p : Pos) : renderPos (s :: p) = renderSeg s ++ renderPos p := by
  simp [renderPos]

mutual
/-- `xpath()` lists exactly the leaves, each with its canonical path, in document order -/
theorem enumVal_eq (path : Str) : ∀ v : Val,
    enumVal path v = (leaves v).map (fun pv => (path ++ renderPos pv.1, pv.2))
  | .list _ xs => by simp only [enumVal, leaves]; exact enumList_eq path 0 xs
  | .dict _ kvs => by simp only [enumVal, leaves]; exact enumKvs_eq path kvs
  | .none => by simp [enumVal, leaves, renderPos]
  | .bool _ => by simp [enumVal, leaves, renderPos]
  | .int _ => by simp [enumVal, leaves, renderPos]
  | .flt _ => by simp [enumVal, leaves, renderPos]
  | .str _ => by simp [enumVal, leaves, renderPos]
theorem enumList_eq (path : Str) (i : Nat) : ∀ xs : List Val,
    enumList path i xs = (leavesList i xs).map (fun pv => (path ++ renderPos pv.1, pv.2))
  | [] => by simp [enumList, leavesList]
  | x :: xs => by
    simp only [enumList, leavesList, List.map_append, List.map_map]
    rw [enumVal_eq (path ++ bracket (natStr i)) x, enumList_eq path (i + 1) xs]
    congr 1
    apply List.map_congr_left
    intro pv _
    simp [renderPos_cons, renderSeg]
theorem enumKvs_eq (path : Str) : ∀ kvs : List (Str × Val),
    enumKvs path kvs = (leavesKvs kvs).map (fun pv => (path ++ renderPos pv.1, pv.2))
  | [] => by simp [enumKvs, leavesKvs]
  | (k, x) :: kvs => by
    simp only [enumKvs, leavesKvs, List.map_append, List.map_map]
    rw [enumVal_eq (path ++ slash ++ k) x, enumKvs_eq path kvs]
    congr 1
    apply List.map_congr_left
    intro pv _
    simp [renderPos_cons, renderSeg, slash]
end

mutual
/-- every listed leaf sits at its position, the position uses plain keys only, the value is scalar -/
theorem leaves_sound : ∀ (v : Val), PlainTree v → ∀ p c, (p, c) ∈ leaves v →
    getAt v p = some c ∧ PlainPos p ∧ c.isScalar = true
  | .list _ xs, h, p, c, hm => by
      simp only [leaves] at hm
      obtain ⟨n, q, rfl, hlt, hq⟩ := leavesList_sound xs h 0 p c hm
      refine ⟨?_, hq.2.1, hq.2.2⟩
      obtain ⟨y, hy, hg⟩ := hq.1
      simp only [Nat.sub_zero] at hy
      simp [getAt, child, hy, hg]
  | .dict _ kvs, h, p, c, hm => by
      simp only [leaves] at hm
      obtain ⟨k, q, rfl, hk, y, hy, hg, hpp, hs⟩ := leavesKvs_sound kvs h p c hm
      refine ⟨?_, ⟨hk, hpp⟩, hs⟩
      simp [getAt, child, hy, hg]
  | .none, _, p, c, hm => by simp [leaves] at hm; obtain ⟨rfl, rfl⟩ := hm; simp [getAt, PlainPos, isScalar]
  | .bool _, _, p, c, hm => by simp [leaves] at hm; obtain ⟨rfl, rfl⟩ := hm; simp [getAt, PlainPos, isScalar]
  | .int _, _, p, c, hm => by simp [leaves] at hm; obtain ⟨rfl, rfl⟩ := hm; simp [getAt, PlainPos, isScalar]
  | .flt _, _, p, c, hm => by simp [leaves] at hm; obtain ⟨rfl, rfl⟩ := hm; simp [getAt, PlainPos, isScalar]
  | .str _, _, p, c, hm => by simp [leaves] at hm; obtain ⟨rfl, rfl⟩ := hm; simp [getAt, PlainPos, isScalar]
theorem leavesList_sound : ∀ (xs : List Val), PlainList xs → ∀ (i : Nat) p c, (p, c) ∈ leavesList i xs →
    ∃ n q, p = Seg.idx n :: q ∧ i ≤ n ∧ ((∃ y, xs[n - i]? = some y ∧ getAt y q = some c) ∧ PlainPos q ∧ c.isScalar = true)
  | [], _, i, p, c, hm => by simp [leavesList] at hm
  | x :: xs, h, i, p, c, hm => by
      simp only [leavesList, List.mem_append, List.mem_map] at hm
      rcases hm with ⟨⟨q, c'⟩, hq, heq⟩ | hm
      · simp only [Prod.mk.injEq] at heq
        obtain ⟨rfl, rfl⟩ := heq
        have := leaves_sound x h.1 q c' hq
        exact ⟨i, q, rfl, Nat.le_refl _, ⟨x, by simp, this.1⟩, this.2.1, this.2.2⟩
      · obtain ⟨n, q, rfl, hle, ⟨y, hy, hg⟩, hpp, hs⟩ := leavesList_sound xs h.2 (i + 1) p c hm
        refine ⟨n, q, rfl, by omega, ⟨y, ?_, hg⟩, hpp, hs⟩
        have : n - i = (n - (i + 1)) + 1 := by omega
        rw [this]; simpa using hy
theorem leavesKvs_sound : ∀ (kvs : List (Str × Val)), PlainKvs kvs → ∀ p c, (p, c) ∈ leavesKvs kvs →
    ∃ k q, p = Seg.key k :: q ∧ PlainKey k ∧ ∃ y, lookup k kvs = some y ∧ getAt y q = some c ∧ PlainPos q ∧ c.isScalar = true
  | [], _, p, c, hm => by simp [leavesKvs] at hm
  | (k, x) :: kvs, h, p, c, hm => by
      simp only [leavesKvs, List.mem_append, List.mem_map] at hm
      rcases hm with ⟨⟨q, c'⟩, hq, heq⟩ | hm
      · simp only [Prod.mk.injEq] at heq
        obtain ⟨rfl, rfl⟩ := heq
        have := leaves_sound x h.2.2.1 q c' hq
        exact ⟨k, q, rfl, h.1, x, by simp [lookup], this.1, this.2.1, this.2.2⟩
      · obtain ⟨k', q, rfl, hk', y, hy, hg, hpp, hs⟩ := leavesKvs_sound kvs h.2.2.2 p c hm
        refine ⟨k', q, rfl, hk', y, ?_, hg, hpp, hs⟩
        have hne : k' ≠ k := by
          intro heq; subst heq
          rw [h.2.1] at hy; cases hy
        simp [lookup, hne, hy]
end

end N0.XPath
