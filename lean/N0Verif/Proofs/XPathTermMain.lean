import N0Verif.Proofs.XPathTermPot
/-!
  C04, termination of the resolver — part 4: **the dict-side search ends** (`term_main`).

  For every token list, on a tree whose keys are plain names,
  `findD` run with fuel `≥ termPot H W toks (height of the current node) (pieces of found)` does not
  answer `OutOfFuel` and returns the root unchanged.  Strong induction on the fuel; the `[*]`, `*` and
  implicit fan-out loops are the macro steps of part 1, the re-resolutions of `found` (empty token
  list, `..`) are stage 1 (part 2).
-/
namespace N0.XPath
open N0 N0.Py N0.Val

/-- what is assumed about the tree: bounds `H`, `W` and plain keys -/
structure TermCtx (H W : Nat) (root : Val) : Prop where
  hW : 1 ≤ W
  hgt : termHgt root ≤ H
  wd : termWd root ≤ W
  plain : SafeKeys PlainKey root

def TermS2 (H W : Nat) (root : Val) (sp : Pos) (rl : Bool) (fuel : Nat) : Prop :=
  ∀ (entry : Bool) (toks : List Str) (par : PRef) (found : Str) (g : Nat),
    SafeRef PlainKey root par → TermRef H W root par → TermFound found g →
    termPot H W toks (termHgtRef root par) g ≤ fuel →
    TermOut (fun _ => True) root (findD fuel root sp false entry toks par rl found)

theorem termFstClosed_true : TermFstClosed (fun _ => True) := fun _ _ _ => trivial

theorem termTokPot_pos (H W : Nat) (tok : Str) {C : TermPotF} (hC : TermMono C) (h g : Nat) : 1 ≤ termTokPot H W tok C h g := by
  cases hs : splitNameIndex tok with
  | error e => simp [termTokPot, hs]
  | ok p =>
    obtain ⟨name, idx⟩ := p
    simp only [termTokPot, hs]
    split
    · exact Nat.le_trans (Nat.le_add_left 1 _) (termZ_ge H W h hC g)
    · split
      · split
        · simp only [termU]; omega
        · simp only [termU0]; omega
      · exact termN_pos H W h C g

theorem termPot_pos (H W : Nat) (toks : List Str) (h g : Nat) : 1 ≤ termPot H W toks h g := by
  cases toks with
  | nil => simp only [termPot, termNil]; omega
  | cons t ts => exact termTokPot_pos H W t (termPot_mono H W ts) h g

theorem termHgtRef_le {H W : Nat} {root : Val} {r : PRef} (h : TermRef H W root r) : termHgtRef root r ≤ H + 1 := by
  unfold termHgtRef
  split
  · rename_i v hv; exact (h v hv).hgt
  · omega

theorem termHgtRef_at_le {H : Nat} {root : Val} (h : termHgt root ≤ H) (p : Pos) : termHgtRef root (.at p) ≤ H := by
  unfold termHgtRef
  split
  · rename_i v hv
    have := term_getAt (show getAt root p = some v from hv)
    omega
  · omega

/-- the fuel of stage 1 suffices for any plain token list of at most `g` tokens resolved from `self` -/
theorem term_R_enough {H W : Nat} {root : Val} (hh : termHgt root ≤ H) (sp : Pos) {n g f : Nat} (hn : n ≤ g)
    (hf : termR H W g ≤ f) : (W + 4) * termHgtRef root (.at sp) + 2 * n + 1 ≤ f := by
  have h1 : (W + 4) * termHgtRef root (.at sp) ≤ (W + 4) * H := Nat.mul_le_mul_left _ (termHgtRef_at_le hh sp)
  unfold termR at hf
  omega

section
variable {H W : Nat} {root : Val}

/-- the `[*]` loop over a list-valued reference whose elements have height `≤ hc` -/
theorem term_star_loop (sp : Pos) (rl : Bool) (f : Nat)
    (ih : ∀ m, m < f → TermS2 H W root sp rl m)
    (par' : PRef) (c : Cls) (xs : List Val) (hpv' : valOf root par' = some (.list c xs))
    (hK : SafeRef PlainKey root par') (hB : TermRef H W root par')
    (rest : List Str) (found : Str) (g : Nat) (hfd : TermFound found g)
    (all : List Str) (hc : Nat) (hhc : termHgt (.list c xs) - 1 ≤ hc)
    (hf : termPot H W rest hc (g + 1) + xs.length + 2 ≤ f) :
    TermOut (fun _ => True) root (starIdx f root sp false xs.length 0 rest par' rl found [] Option.none all) := by
  refine term_starIdx termFstClosed_true root sp rl xs.length rest par' found all (termPot H W rest hc (g + 1) + 1) f ?_ trivial
    xs.length 0 [] Option.none f (by omega) (by omega) (Nat.le_refl _) (fun _ h => by cases h)
  intro j hj f' hf' hf'F
  obtain ⟨f'', rfl⟩ : ∃ f'', f' = f'' + 1 := ⟨f' - 1, by omega⟩
  have hk := natStr_idxTok j
  obtain ⟨par'', hp, hcases⟩ := term_pure_idx f'' root sp false rl par' found (bracket (natStr j)) (natStr j) j rest _ hpv'
    hk.split hk.ne hk.notNew hk.notStar hk.eval
  have hpar'' : par'' = par' := by
    rcases hp with ⟨_, h⟩ | ⟨h, _⟩
    · exact h
    · simp [isList] at h
  subst hpar''
  rcases hcases with ⟨e, he, hne'⟩ | ⟨v, nf, he⟩ | ⟨n, hrne, he⟩
  · rw [he]; exact TermOut_err hne'
  · rw [he]; exact ⟨rfl, trivial⟩
  · rw [he]
    have hch := termHgtRef_child (root := root) (r := par'') (.idx n) (hB _ hpv') hpv'
    refine ih f'' (by omega) false rest _ _ (g + 1)
      (SafeRef_child hK _) (TermRef_child hB _) (hfd.idx _) ?_
    have := termPot_mono H W rest _ hc (g + 1) (g + 1) (show termHgtRef root (childRef root par'' (.idx n)) ≤ hc by omega)
      (Nat.le_refl _)
    omega

theorem term_main_step (ctx : TermCtx H W root) (sp : Pos) (rl : Bool) (fuel : Nat)
    (ih : ∀ m, m < fuel → TermS2 H W root sp rl m) : TermS2 H W root sp rl fuel := by
  intro entry toks par found g hparK hparB hfd hfuel
  have hW := ctx.hW
  obtain ⟨f, rfl⟩ : ∃ f, fuel = f + 1 := ⟨fuel - 1, by have := termPot_pos H W toks (termHgtRef root par) g; omega⟩
  cases toks with
  | nil =>
    rw [findD]
    simp only [Bool.false_and, Bool.false_eq_true, if_false]
    split
    · split
      · exact ⟨rfl, trivial⟩
      · exact TermOut_err (by decide)
    · obtain ⟨ht, _, hl⟩ := hfd.tokens
      simp only [termPot, termNil] at hfuel
      have := term_plain H W hW root sp rl f false (tokenize found) (.at sp) slash 0 ht (fun _ => rfl)
        (TermRef_at ctx.hgt ctx.wd sp) (SafeRef_at ctx.plain sp) (TermFound_slash 0)
        (term_R_enough ctx.hgt sp hl (by omega))
      exact this.mono (fun _ _ => trivial)
  | cons tok rest =>
    have hC := termPot_mono H W rest
    cases hpv : valOf root par with
    | none =>
      rw [findD]
      simp only [Bool.false_and, Bool.false_eq_true, if_false, hpv]
      exact TermOut_err (by decide)
    | some pv =>
      have hb : TermBnd H W pv := hparB pv hpv
      have hpvK : SafeKeys PlainKey pv := hparK pv hpv
      rw [termHgtRef_some hpv] at hfuel
      -- children of the current node
      have hchild : ∀ s, SafeRef PlainKey root (childRef root par s) ∧
          TermRef H W root (childRef root par s) ∧ termHgtRef root (childRef root par s) ≤ termHgt pv - 1 :=
        fun s => ⟨SafeRef_child hparK s, TermRef_child hparB s, termHgtRef_child s hb hpv⟩
      cases hsplit : splitNameIndex tok with
      | error e =>
        rw [findD]
        simp only [Bool.false_and, Bool.false_eq_true, if_false, hpv, hsplit]
        exact TermOut_err (term_okErr_split hsplit)
      | ok p =>
        obtain ⟨name, idx⟩ := p
        simp only [termPot, termTokPot, hsplit] at hfuel
        -- implicit fan-out over a list: the same token list one level lower
        have hfan : ∀ (cls : Cls) (xs : List Val), pv = .list cls xs → ∀ (M : Nat),
            (∀ hc, hc ≤ termHgt pv - 1 → termPot H W (tok :: rest) hc (g + 1) ≤ M) → M + W + 3 ≤ f →
            TermOut (fun _ => True) root (findD f root sp false false (bracket ['*'] :: tok :: rest) par rl found) := by
          intro cls xs hpvl M hM hMf
          subst hpvl
          have hlen : xs.length ≤ W := by have := hb.wd; simp only [termWd] at this; omega
          refine term_fanout termFstClosed_true root sp false rl (tok :: rest) (by simp) par found cls xs hpv M f ?_ trivial f
            (by omega) (Nat.le_refl _)
          intro j hj f' hf' hf'F
          obtain ⟨h2, h3, h4⟩ := hchild (.idx j)
          exact ih f' (by omega) false (tok :: rest) _ _ (g + 1) h2 h3
            (hfd.idx (j : Int)) (by have := hM _ h4; omega)
        by_cases hne : name = []
        · -- ####### a token without a name #######
          subst hne
          simp only [List.isEmpty_nil, if_true] at hfuel
          cases idx with
          | none =>
            rw [findD]
            simp only [Bool.false_and, Bool.false_eq_true, if_false, hpv, hsplit, List.isEmpty_nil, Idx.truthy, Bool.not_false,
              Bool.and_self, if_true]
            exact TermOut_err (by decide)
          | str s =>
            by_cases hs0 : s = []
            · subst hs0
              rw [findD]
              simp only [Bool.false_and, Bool.false_eq_true, if_false, hpv, hsplit, List.isEmpty_nil, Idx.truthy, Bool.not_true,
                Bool.not_false, Bool.and_self, if_true]
              exact TermOut_err (by decide)
            · have hs0' : s.isEmpty = false := isEmpty_false_of_ne hs0
              have hb1 := termZ_b1 H W (termHgt pv) (termPot H W rest) g
              by_cases hnew : s = sNew
              · -- `[new()]`: `found` is resolved again, then the search ends (fix C04-a: nothing is written)
                subst hnew
                have hZR := termZ_R H W (termHgt pv) (termPot H W rest) g
                obtain ⟨ht, _, hl⟩ := hfd.tokens
                have hS1 := term_plain H W hW root sp rl f false (tokenize found) (.at sp) slash 0 ht (fun _ => rfl)
                  (TermRef_at ctx.hgt ctx.wd sp) (SafeRef_at ctx.plain sp) (TermFound_slash 0)
                  (term_R_enough ctx.hgt sp hl (by omega))
                rw [findD]
                simp only [Bool.false_and, Bool.false_eq_true, if_false, hpv, hsplit, List.isEmpty_nil, Idx.truthy, hs0',
                  Bool.not_false, Bool.and_false, Bool.not_true, if_true]
                cases hR : findD f root sp false false (tokenize found) (.at sp) rl slash with
                | error e => rw [hR] at hS1; exact hS1
                | ok pr =>
                  obtain ⟨root', cur⟩ := pr
                  rw [hR] at hS1
                  obtain ⟨hroot', _⟩ := hS1
                  subst hroot'
                  simp only
                  repeat' split
                  all_goals first
                    | exact ⟨rfl, trivial⟩
                    | exact TermOut_err (by decide)
              by_cases hstar : s = ['*']
              · -- `[*]`
                subst hstar
                rw [findD]
                simp only [Bool.false_and, Bool.false_eq_true, if_false, hpv, hsplit, List.isEmpty_nil, Idx.truthy, hs0',
                  Bool.not_false, Bool.and_false, Bool.not_true, hnew, if_true]
                by_cases hl : isList pv = true
                · cases pv <;> simp only [isList, Bool.false_eq_true] at hl
                  rename_i cls xs
                  have hlen : xs.length ≤ W := by have := hb.wd; simp only [termWd] at this; omega
                  exact term_star_loop sp rl f (fun m hm => ih m (by omega)) par cls xs hpv hparK hparB rest found g hfd
                    _ (termHgt (Val.list cls xs)) (by omega) (by omega)
                · have hl' : isList pv = false := by simpa using hl
                  have hw : valOf root (.wrap par) = some (Val.list .plain [pv]) := by simp [valOf, hpv]
                  have hgoal : TermOut (fun _ => True) root
                      (starIdx f root sp false 1 0 rest (.wrap par) rl found [] Option.none (tok :: rest)) :=
                    term_star_loop sp rl f (fun m hm => ih m (by omega)) (.wrap par) .plain [pv] hw
                      (SafeRef_wrap hparK) (TermRef_wrap hW hparB hpv hl') rest found g hfd _ (termHgt pv)
                      (by simp [termHgt, termHgtL]) (by simp only [List.length_singleton]; omega)
                  cases pv <;> first | (simp [isList] at hl'; done) | exact hgoal
              · -- pure index
                cases hev : n0eval s with
                | error e =>
                  rw [findD]
                  simp only [Bool.false_and, Bool.false_eq_true, if_false, hpv, hsplit, List.isEmpty_nil, Idx.truthy, hs0',
                    Bool.not_false, Bool.and_false, Bool.not_true, hnew, hstar, hev]
                  rw [n0eval_err hev]; exact TermOut_err (by decide)
                | ok ev =>
                  cases ev with
                  | str t =>
                    rw [findD]
                    simp only [Bool.false_and, Bool.false_eq_true, if_false, hpv, hsplit, List.isEmpty_nil, Idx.truthy, hs0',
                      Bool.not_false, Bool.and_false, Bool.not_true, hnew, hstar, hev]
                    cases pv <;> exact TermOut_err (by decide)
                  | int i =>
                    obtain ⟨par', hp, hcases⟩ := term_pure_idx f root sp entry rl par found tok s i rest pv hpv hsplit hs0 hnew hstar hev
                    obtain ⟨hpar', hchild'⟩ := term_idx_parent hW hpv hparB hp
                    have hK' : SafeRef PlainKey root par' := by
                      rcases hp with ⟨_, rfl⟩ | ⟨_, rfl⟩
                      · exact hparK
                      · exact SafeRef_wrap hparK
                    rcases hcases with ⟨e, he, hne'⟩ | ⟨v, nf, he⟩ | ⟨n, hrne, he⟩
                    · rw [he]; exact TermOut_err hne'
                    · rw [he]; exact ⟨rfl, trivial⟩
                    · rw [he]
                      have hch : termHgtRef root (childRef root par' (.idx n)) ≤ termHgt pv := by
                        unfold termHgtRef
                        split
                        · rename_i c hc; exact (hchild' n c hc).1
                        · omega
                      refine ih f (by omega) false rest _ _ (g + 1)
                        (SafeRef_child hK' _) (TermRef_child hpar' _) (hfd.idx i) ?_
                      have := hC _ _ (g + 1) (g + 1) hch (Nat.le_refl _)
                      omega
          | cond k op v =>
            by_cases htext : k = sTextFn
            · -- `text()` condition on the node itself
              subst htext
              rw [findD]
              simp only [Bool.false_and, Bool.false_eq_true, if_false, hpv, hsplit, List.isEmpty_nil, Idx.truthy, Bool.not_true,
                Bool.and_false, if_true]
              split
              · exact TermOut_err (by decide)
              · split
                · rename_i e heq
                  split at heq
                  · cases heq
                  · split at heq
                    · cases heq
                    · cases heq; exact TermOut_err (by decide)
                · split
                  · rename_i e heq
                    split at heq
                    · cases heq
                    · split at heq
                      · cases heq; exact TermOut_err (by decide)
                      · cases heq
                  · refine ih f (by omega) false rest par found g hparK hparB hfd ?_
                    rw [termHgtRef_some hpv]
                    have := termZ_ge H W (termHgt pv) hC g
                    omega
                  · exact ⟨rfl, trivial⟩
            · -- a condition on a child
              cases pv with
              | list cls xs =>
                have hpos : 1 ≤ termHgt (Val.list cls xs) := term_hgt_container_pos (Or.inl rfl)
                have hb2 := termZ_b2 H W hpos (termPot H W rest) g
                rw [findD]
                simp only [Bool.false_and, Bool.false_eq_true, if_false, hpv, hsplit, List.isEmpty_nil, Idx.truthy, Bool.not_true,
                  Bool.and_false, if_true, htext]
                refine hfan cls xs rfl (termZ H W (termHgt (Val.list cls xs) - 1) (termPot H W rest) (g + 1)) ?_ (by omega)
                intro hc hhc
                simp only [termPot, termTokPot, hsplit, List.isEmpty_nil, if_true]
                exact termZ_mono_h H W _ hC _ hhc
              | dict c kvs =>
                have hpos : 1 ≤ termHgt (Val.dict c kvs) := term_hgt_container_pos (Or.inr rfl)
                have hb3 := termZ_b3 H W hpos (termPot H W rest) g
                rw [findD]
                simp only [Bool.false_and, Bool.false_eq_true, if_false, hpv, hsplit, List.isEmpty_nil, Idx.truthy, Bool.not_true,
                  Bool.and_false, if_true, htext]
                cases hl : lookup k kvs with
                | none => exact ⟨rfl, trivial⟩
                | some cv =>
                  simp only
                  have hkP : PlainKey k := term_lookup_key (by simpa [SafeKeys] using hpvK) hl
                  obtain ⟨h2, h3, h4⟩ := hchild (.key k)
                  refine ih f (by omega) false _ _ _ (g + 1) h2 h3 (hfd.key hkP) ?_
                  · simp only [termPot]
                    rw [termTokPot_up]
                    have hU := termU0_mono H W hC
                    have e1 := termTokPot_bracket H W (sTextFn ++ op ++ condValStr v) hU
                      (termHgtRef root (childRef root par (.key k))) (g + 1)
                    have e2 := termZ_mono_h H W _ hU (g + 1) h4
                    omega
              | _ =>
                rw [findD]
                simp only [Bool.false_and, Bool.false_eq_true, if_false, hpv, hsplit, List.isEmpty_nil, Idx.truthy, Bool.not_true,
                  Bool.and_false, if_true, htext]
                exact ⟨rfl, trivial⟩
        · -- ####### a name token #######
          have hne0 : name.isEmpty = false := isEmpty_false_of_ne hne
          simp only [hne0, Bool.false_eq_true, if_false] at hfuel
          by_cases hup : name = ['.', '.']
          · -- `..`
            subst hup
            simp only [if_true] at hfuel
            rw [term_up_step f root sp entry rl par found tok idx rest pv hpv hsplit]
            obtain ⟨hupT, hupW, hupL⟩ := hfd.upTokens
            have hRf : termR H W g ≤ f := by
              split at hfuel
              · simp only [termU] at hfuel; omega
              · simp only [termU0] at hfuel; omega
            have hS1 := term_plain H W hW root sp rl f false _ (.at sp) slash 0 hupT (fun _ => rfl)
              (TermRef_at ctx.hgt ctx.wd sp) (SafeRef_at ctx.plain sp) (TermFound_slash 0)
              (term_R_enough ctx.hgt sp hupL hRf)
            cases hR : findD f root sp false false
                (((splitChar '/' (fixBr found)).filter (fun t => !t.isEmpty)).dropLast) (.at sp) rl slash with
            | error e => rw [hR] at hS1; exact hS1
            | ok pr =>
              obtain ⟨root', cur⟩ := pr
              rw [hR] at hS1
              obtain ⟨hroot', hgr⟩ := hS1
              subst hroot'
              simp only
              cases hcp : valOf root' cur.parent with
              | none => exact TermOut_err (by decide)
              | some cpv =>
                simp only
                cases hn : termNxt root' cur cpv with
                | error e => exact TermOut_err (termNxt_err hn)
                | ok nxt =>
                  simp only
                  have hnxt : SafeRef PlainKey root' nxt ∧ TermRef H W root' nxt := by
                    rcases termNxt_ref hn with rfl | ⟨s, rfl⟩
                    · exact ⟨hgr.keys, hgr.par⟩
                    · exact ⟨SafeRef_child hgr.keys _, TermRef_child hgr.par _⟩
                  obtain ⟨hnK, hnB⟩ := hnxt
                  have hhn := termHgtRef_le hnB
                  have hfd' : TermFound (upFound cur) (g + 2 * H) := by
                    refine hgr.upFound.mono ?_
                    have := termHgtRef_at_le ctx.hgt sp (root := root')
                    omega
                  unfold termUpCont
                  split
                  · split
                    · rename_i htr
                      simp only [htr, if_true, termU] at hfuel
                      split
                      · rename_i s _
                        refine ih f (by omega) false _ _ _ (g + 2 * H) hnK hnB hfd' ?_
                        · simp only [termPot]
                          have e1 := termTokPot_bracket H W s hC (termHgtRef root' nxt) (g + 2 * H)
                          have e2 := termZ_mono_h H W _ hC (g + 2 * H) hhn
                          omega
                      · exact TermOut_err (by decide)
                    · rename_i htr
                      simp only [htr, Bool.false_eq_true, if_false, termU0] at hfuel
                      refine ih f (by omega) false _ _ _ (g + 2 * H) hnK hnB hfd' ?_
                      have := hC _ _ (g + 2 * H) (g + 2 * H) hhn (Nat.le_refl _)
                      omega
                  · split
                    · split
                      · exact TermOut_err (by decide)
                      · exact ⟨rfl, trivial⟩
                    · split     -- `'..'` surfaced to the root (fix C04-g)
                      · exact ⟨rfl, trivial⟩
                      · exact TermOut_err (by decide)
                    · exact TermOut_err (by decide)
                    · exact TermOut_err (by decide)
          · simp only [hup, if_false] at hfuel
            cases pv with
            | list cls xs =>
              have hpos : 1 ≤ termHgt (Val.list cls xs) := term_hgt_container_pos (Or.inl rfl)
              have hn1 := termN_b1 H W hpos (termPot H W rest) g
              rw [term_key_list_step f root sp entry rl par found tok name idx rest cls xs hpv hsplit hne hup]
              refine hfan cls xs rfl (termN H W (termHgt (Val.list cls xs) - 1) (termPot H W rest) (g + 1)) ?_ (by omega)
              intro hc hhc
              simp only [termPot, termTokPot, hsplit, hne0, Bool.false_eq_true, if_false, hup]
              exact termN_mono_h H W _ hC _ hhc
            | dict c kvs =>
              have hpos : 1 ≤ termHgt (Val.dict c kvs) := term_hgt_container_pos (Or.inr rfl)
              have hn1 := termN_b1 H W hpos (termPot H W rest) g
              have hn2 := termN_b2 H W hpos (termPot H W rest) g
              have hKK : SafeKeysK PlainKey kvs := by simpa [SafeKeys] using hpvK
              by_cases hstar : name = ['*']
              · -- `*`: every key, then the same tokens one level lower
                rw [findD]
                simp only [Bool.false_and, Bool.false_eq_true, if_false, hpv, hsplit, if_true, isList,
                  isDict, Bool.not_true, hstar, dictKeys]
                have hlen : (kvs.map Prod.fst).length ≤ W := by
                  have := hb.wd; simp only [termWd] at this; simp only [List.length_map]; omega
                refine term_starKeys termFstClosed_true root sp rl (tok :: rest) par found
                  (termN H W (termHgt (Val.dict c kvs) - 1) (termPot H W rest) (g + 1) + 1) f trivial
                  (kvs.map Prod.fst) [] Option.none f (by omega) (Nat.le_refl _) ?_ (fun _ h => by cases h)
                intro k hk f' hf' hf'F
                obtain ⟨f'', rfl⟩ : ∃ f'', f' = f'' + 1 := ⟨f' - 1, by omega⟩
                have hkP : PlainKey k := SafeKeysK_keys hKK k hk
                have hkt := hkP.keyTok
                rw [term_key_dict_step f'' root sp false rl par found k k .none (tok :: rest) c kvs hpv hkt.split hkt.ne hkt.notUp
                  hkt.notStar]
                cases hl : lookup k kvs with
                | none => exact ⟨rfl, trivial⟩
                | some cv =>
                  simp only [List.isEmpty_cons, Bool.false_and, Bool.false_eq_true, if_false, termKeyCont]
                  obtain ⟨h2, h3, h4⟩ := hchild (.key k)
                  refine ih f'' (by omega) false (tok :: rest) _ _ (g + 1) h2 h3 (hfd.key hkP) ?_
                  simp only [termPot, termTokPot, hsplit, hne0, Bool.false_eq_true, if_false, hup]
                  have := termN_mono_h H W _ hC (g + 1) h4
                  omega
              · rw [term_key_dict_step f root sp entry rl par found tok name idx rest c kvs hpv hsplit hne hup hstar]
                cases hl : lookup name kvs with
                | none => exact ⟨rfl, trivial⟩
                | some cv =>
                  simp only
                  have hkP : PlainKey name := term_lookup_key hKK hl
                  obtain ⟨h2, h3, h4⟩ := hchild (.key name)
                  have hZ := termZ_mono_h H W _ hC (g + 1) h4
                  split
                  · exact ⟨rfl, trivial⟩
                  · cases idx with
                    | none =>
                      simp only [termKeyCont]
                      refine ih f (by omega) false rest _ _ (g + 1) h2 h3 (hfd.key hkP) ?_
                      have := termZ_ge H W (termHgtRef root (childRef root par (.key name))) hC (g + 1)
                      omega
                    | str s =>
                      simp only [termKeyCont]
                      refine ih f (by omega) false _ _ _ (g + 1) h2 h3 (hfd.key hkP) ?_
                      · simp only [termPot]
                        have := termTokPot_bracket H W s hC (termHgtRef root (childRef root par (.key name))) (g + 1)
                        omega
                    | cond k op v =>
                      simp only [termKeyCont]
                      refine ih f (by omega) false _ _ _ (g + 1) h2 h3 (hfd.key hkP) ?_
                      · simp only [termPot]
                        have := termTokPot_bracket H W (k ++ op ++ ['\''] ++ condValStr v ++ ['\'']) hC
                          (termHgtRef root (childRef root par (.key name))) (g + 1)
                        omega
            | _ =>
              rw [findD]
              simp only [Bool.false_and, Bool.false_eq_true, if_false, hpv, hsplit, hne0, Bool.not_false, hup, if_true, isList,
                isDict]
              exact TermOut_err (by decide)

/-- **The dict-side search ends**: with fuel at least `termPot`, never `OutOfFuel`, root unchanged. -/
theorem term_main (ctx : TermCtx H W root) (sp : Pos) (rl : Bool) : ∀ fuel, TermS2 H W root sp rl fuel := by
  intro fuel
  induction fuel using Nat.strongRecOn with
  | ind fuel ih => exact term_main_step ctx sp rl fuel ih

end
end N0.XPath
