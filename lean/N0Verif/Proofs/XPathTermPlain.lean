import N0Verif.Proofs.XPathTerm
/-!
  C04, termination of the resolver — part 2: the text `_find` keeps in `xpath_found_str` and its
  re-resolution.

  * `TermFound found g`: the `found` text is `/` followed by at most `g` pieces `/key` (a plain
    dict key) or `[i]` (a decimal integer) — never `..`, `*`, a condition or `text()`.
  * `TermPTok`: the three shapes of a token of such a text (`key`, `key[i]`, `[i]`).
  * `term_plain` (**stage 1**): resolving plain tokens ends within
    `(W + 4) · height + 2 · #tokens + 1` steps of fuel (the `(W + 4) · height` part pays for the
    implicit fan-out over lists), returns the root unchanged, and reports a `found` text that is
    again plain and at most `2 · height` pieces longer than the tokens resolved.
-/
namespace N0.XPath
open N0 N0.Py N0.Val

/-! ### plain path texts -/

def TermPlainSeg : GSeg → Prop
  | .key k => PlainKey k
  | .br e => ∃ i : Int, e = intStr i

def TermPlainG (gs : List GSeg) : Prop := ∀ s ∈ gs, TermPlainSeg s

/-- `found` is `/` followed by at most `g` plain pieces -/
def TermFound (found : Str) (g : Nat) : Prop :=
  ∃ gs, TermPlainG gs ∧ found = '/' :: sel2Render gs ∧ gs.length ≤ g

theorem term_gBr_int (i : Int) : GBr (intStr i) := by
  rcases intStr_cases i with ⟨n, _, h⟩ | ⟨n, _, h⟩
  · rw [h]; exact sel2_gBr_nat n
  · rw [h]
    have := sel2_gBr_nat (n + 1)
    constructor
    · intro c hc
      simp only [List.mem_cons] at hc
      rcases hc with rfl | hc
      · decide
      · exact this.noRB c hc
    · intro c hc
      simp only [List.mem_cons] at hc
      rcases hc with rfl | hc
      · decide
      · exact this.noSlash c hc

theorem TermPlainG.good : ∀ {gs : List GSeg}, TermPlainG gs → GoodG gs
  | [], _ => trivial
  | .key k :: r, h => ⟨(h (.key k) (by simp)).gKey, TermPlainG.good (fun s hs => h s (by simp [hs]))⟩
  | .br e :: r, h => by
    obtain ⟨i, rfl⟩ := h (.br e) (by simp)
    exact ⟨term_gBr_int i, TermPlainG.good (fun s hs => h s (by simp [hs]))⟩

theorem TermFound_slash (g : Nat) : TermFound slash g :=
  ⟨[], (fun _ h => absurd h List.not_mem_nil), rfl, Nat.zero_le _⟩

theorem TermFound.mono {found : Str} {g g' : Nat} (h : TermFound found g) (hg : g ≤ g') : TermFound found g' := by
  obtain ⟨gs, h1, h2, h3⟩ := h
  exact ⟨gs, h1, h2, by omega⟩

theorem TermPlainG.snoc {gs : List GSeg} {s : GSeg} (h : TermPlainG gs) (hs : TermPlainSeg s) : TermPlainG (gs ++ [s]) := by
  intro x hx
  simp only [List.mem_append, List.mem_singleton] at hx
  rcases hx with hx | rfl
  · exact h x hx
  · exact hs

theorem TermFound.key {found k : Str} {g : Nat} (h : TermFound found g) (hk : PlainKey k) :
    TermFound (found ++ slash ++ k) (g + 1) := by
  obtain ⟨gs, h1, h2, h3⟩ := h
  refine ⟨gs ++ [.key k], h1.snoc (s := .key k) hk, ?_, by simp; omega⟩
  subst h2
  simp [sel2Render, sel2RenderSeg, slash]

theorem TermFound.idx {found : Str} {g : Nat} (h : TermFound found g) (i : Int) :
    TermFound (found ++ bracket (intStr i)) (g + 1) := by
  obtain ⟨gs, h1, h2, h3⟩ := h
  refine ⟨gs ++ [.br (intStr i)], h1.snoc (s := .br (intStr i)) ⟨i, rfl⟩, ?_, by simp; omega⟩
  subst h2
  simp [sel2Render, sel2RenderSeg]

/-! ### the tokens of a plain text -/

inductive TermPTok : Str → Prop
  | key {k : Str} : PlainKey k → TermPTok k
  | keyIdx {k : Str} (i : Int) : PlainKey k → TermPTok (k ++ bracket (intStr i))
  | idx (i : Int) : TermPTok (bracket (intStr i))

/-- pieces in a token: `key[i]` has two -/
def termPw (t : Str) : Nat := if t.contains '[' && !(startsWith t ['[']) then 2 else 1

def termPws (ts : List Str) : Nat := (ts.map termPw).sum

theorem termPw_pos (t : Str) : 1 ≤ termPw t := by unfold termPw; split <;> omega

theorem termPw_key {k : Str} (h : PlainKey k) : termPw k = 1 := by
  unfold termPw; rw [h.noBracket]; rfl

theorem termPw_br (e : Str) : termPw (bracket e) = 1 := by
  simp [termPw, bracket, startsWith]

theorem termPws_cons (t : Str) (ts : List Str) : termPws (t :: ts) = termPw t + termPws ts := by
  simp [termPws]

theorem termPws_dropLast : ∀ (ts : List Str), ts ≠ [] → termPws ts.dropLast + 1 ≤ termPws ts
  | [], h => absurd rfl h
  | [t], _ => by simp [termPws]; exact termPw_pos t
  | t :: t2 :: ts, _ => by
    have := termPws_dropLast (t2 :: ts) (by simp)
    simp only [List.dropLast_cons_cons, termPws_cons] at this ⊢
    omega

theorem termPws_dropLast_le (ts : List Str) : termPws ts.dropLast ≤ termPws ts := by
  cases ts with
  | nil => simp
  | cons t r => have := termPws_dropLast (t :: r) (by simp); omega

theorem term_toks_plain : ∀ (gs : List GSeg), TermPlainG gs →
    (∀ t ∈ sel2Toks gs, TermPTok t) ∧ termPws (sel2Toks gs) ≤ gs.length ∧ (sel2Toks gs).length ≤ gs.length
  | [], _ => ⟨fun _ h => by simp [sel2Toks] at h, by simp [sel2Toks, termPws], by simp [sel2Toks]⟩
  | [.key k], h => by
    have hk : PlainKey k := h (.key k) (by simp)
    refine ⟨?_, ?_, ?_⟩
    · intro t ht; simp [sel2Toks] at ht; subst ht; exact .key hk
    · simp [sel2Toks, termPws, termPw_key hk]
    · simp [sel2Toks]
  | .key k :: .key k2 :: rest, h => by
    have hk : PlainKey k := h (.key k) (by simp)
    obtain ⟨i1, i2, i3⟩ := term_toks_plain (.key k2 :: rest) (fun s hs => h s (by simp [hs]))
    rw [sel2_toks_key_key]
    refine ⟨?_, ?_, ?_⟩
    · intro t ht
      simp only [List.mem_cons] at ht
      rcases ht with rfl | ht
      · exact .key hk
      · exact i1 t (by simpa using ht)
    · rw [termPws_cons, termPw_key hk]; simp only [List.length_cons] at i2 ⊢; omega
    · simp only [List.length_cons] at i3 ⊢; omega
  | .key k :: .br e :: rest, h => by
    have hk : PlainKey k := h (.key k) (by simp)
    obtain ⟨i, rfl⟩ := h (.br e) (by simp)
    obtain ⟨i1, i2, i3⟩ := term_toks_plain rest (fun s hs => h s (by simp [hs]))
    simp only [sel2Toks]
    refine ⟨?_, ?_, ?_⟩
    · intro t ht
      simp only [List.mem_cons] at ht
      rcases ht with rfl | ht
      · exact .keyIdx i hk
      · exact i1 t ht
    · rw [termPws_cons]
      have : termPw (k ++ bracket (intStr i)) ≤ 2 := by unfold termPw; split <;> omega
      simp only [List.length_cons]; omega
    · simp only [List.length_cons]; omega
  | .br e :: rest, h => by
    obtain ⟨i, rfl⟩ := h (.br e) (by simp)
    obtain ⟨i1, i2, i3⟩ := term_toks_plain rest (fun s hs => h s (by simp [hs]))
    simp only [sel2Toks]
    refine ⟨?_, ?_, ?_⟩
    · intro t ht
      simp only [List.mem_cons] at ht
      rcases ht with rfl | ht
      · exact .idx i
      · exact i1 t ht
    · rw [termPws_cons, termPw_br]; simp only [List.length_cons]; omega
    · simp only [List.length_cons]; omega

/-- the tokens `_find` re-resolves when the token list is exhausted -/
theorem TermFound.tokens {found : Str} {g : Nat} (h : TermFound found g) :
    (∀ t ∈ tokenize found, TermPTok t) ∧ termPws (tokenize found) ≤ g ∧ (tokenize found).length ≤ g := by
  obtain ⟨gs, h1, rfl, h3⟩ := h
  rw [sel2_tokenize gs h1.good]
  obtain ⟨a, b, c⟩ := term_toks_plain gs h1
  exact ⟨a, by omega, by omega⟩

/-- the tokens the `..` step resolves: one piece less -/
theorem TermFound.upTokens {found : Str} {g : Nat} (h : TermFound found g) :
    let up := ((splitChar '/' (fixBr found)).filter (fun t => !t.isEmpty)).dropLast
    (∀ t ∈ up, TermPTok t) ∧ termPws up ≤ g ∧ up.length ≤ g := by
  obtain ⟨gs, h1, rfl, h3⟩ := h
  simp only
  rw [sel2_upToks gs h1.good]
  obtain ⟨a, b, c⟩ := term_toks_plain gs h1
  refine ⟨fun t ht => a t ((List.dropLast_sublist _).subset ht), ?_, ?_⟩
  · have := termPws_dropLast_le (sel2Toks gs); omega
  · simp only [List.length_dropLast]; omega

/-! ### what resolving plain tokens returns -/

/-- result of resolving plain tokens: parent bounded and with plain keys; `found` plain; the name
or index reported is a plain key or `[i]`; `b` bounds the pieces of the text `..` continues with -/
structure TermGoodR (H W : Nat) (root : Val) (b : Nat) (r : Res) : Prop where
  par : TermRef H W root r.parent
  keys : SafeRef PlainKey root r.parent
  shape : ∃ gs, TermPlainG gs ∧ r.found = '/' :: sel2Render gs ∧
    ((r.nameIdx = Option.none ∧ gs.length ≤ b) ∨ (∃ k, r.nameIdx = some k ∧ PlainKey k ∧ gs.length ≤ b) ∨
      (∃ i : Int, r.nameIdx = some (bracket (intStr i)) ∧ gs.length + 1 ≤ b))

theorem TermGoodR.mono {H W : Nat} {root : Val} {b b' : Nat} {r : Res} (h : TermGoodR H W root b r) (hb : b ≤ b') :
    TermGoodR H W root b' r := by
  obtain ⟨gs, h1, h2, h3⟩ := h.shape
  refine ⟨h.par, h.keys, gs, h1, h2, ?_⟩
  rcases h3 with ⟨a, c⟩ | ⟨k, a, c, d⟩ | ⟨i, a, c⟩
  · exact Or.inl ⟨a, by omega⟩
  · exact Or.inr (Or.inl ⟨k, a, c, by omega⟩)
  · exact Or.inr (Or.inr ⟨i, a, by omega⟩)

theorem TermGoodR.fstClosed (H W : Nat) (root : Val) (b : Nat) : TermFstClosed (TermGoodR H W root b) :=
  fun _ _ h => ⟨h.par, h.keys, h.shape⟩

theorem TermGoodR.mk_none {H W : Nat} {root : Val} {b g : Nat} {par : PRef} {found : Str} {v : Val} {nf : Option (List Str)}
    (hpar : TermRef H W root par) (hkeys : SafeRef PlainKey root par) (hf : TermFound found g) (hg : g ≤ b) :
    TermGoodR H W root b { parent := par, nameIdx := Option.none, value := v, found := found, notFound := nf } := by
  obtain ⟨gs, h1, h2, h3⟩ := hf
  exact ⟨hpar, hkeys, gs, h1, h2, Or.inl ⟨rfl, by omega⟩⟩

theorem TermGoodR.mk_idx {H W : Nat} {root : Val} {b g : Nat} {par : PRef} {found : Str} {v : Val} {nf : Option (List Str)} (i : Int)
    (hpar : TermRef H W root par) (hkeys : SafeRef PlainKey root par) (hf : TermFound found g) (hg : g + 1 ≤ b) :
    TermGoodR H W root b { parent := par, nameIdx := some (bracket (intStr i)), value := v, found := found, notFound := nf } := by
  obtain ⟨gs, h1, h2, h3⟩ := hf
  exact ⟨hpar, hkeys, gs, h1, h2, Or.inr (Or.inr ⟨i, rfl, by omega⟩)⟩

/-- the text `..` continues with after a plain resolution is plain, at most `b` pieces -/
theorem TermGoodR.upFound {H W : Nat} {root : Val} {b : Nat} {r : Res} (h : TermGoodR H W root b r) :
    TermFound (XPath.upFound r) b := by
  obtain ⟨gs, h1, h2, h3⟩ := h.shape
  rcases h3 with ⟨a, c⟩ | ⟨k, a, hk, d⟩ | ⟨i, a, c⟩
  · exact ⟨gs, h1, by simp [XPath.upFound, a, h2], c⟩
  · refine ⟨gs, h1, ?_, d⟩
    simp only [XPath.upFound, a, isEmpty_false_of_ne hk.ne, Bool.false_eq_true, if_false, hk.keyTok.split, h2]
  · have hbne : (bracket (intStr i)).isEmpty = false := by simp [bracket]
    have : XPath.upFound r = r.found ++ bracket (intStr i) := by
      simp only [XPath.upFound, a, hbne, Bool.false_eq_true, if_false, split_bracket_intStr, List.isEmpty_nil, if_true]
    rw [this]
    exact (TermFound.idx ⟨gs, h1, h2, Nat.le_refl _⟩ i).mono c

/-- height of the value behind a reference (0 when it has none) -/
def termHgtRef (root : Val) (r : PRef) : Nat :=
  match valOf root r with
  | some v => termHgt v
  | Option.none => 0

theorem termHgtRef_some {root : Val} {r : PRef} {v : Val} (h : valOf root r = some v) : termHgtRef root r = termHgt v := by
  simp [termHgtRef, h]

theorem termHgtRef_child {H W : Nat} {root : Val} {r : PRef} {pv : Val} (s : Seg) (hb : TermBnd H W pv) (hpv : valOf root r = some pv) :
    termHgtRef root (childRef root r s) ≤ termHgt pv - 1 := by
  unfold termHgtRef
  split
  · rename_i c hc; exact (term_childRef_hgt hb hpv hc).1
  · omega

theorem term_intStr_ne (i : Int) : intStr i ≠ [] ∧ intStr i ≠ sNew ∧ intStr i ≠ ['*'] := by
  refine ⟨(intStr_idxExpr i).ne, ?_, ?_⟩
  · intro h
    rcases intStr_cases i with ⟨n, _, hn⟩ | ⟨n, _, hn⟩
    · rw [hn] at h; exact (natStr_ne_special n).1 h
    · rw [hn, sNew_eq] at h; cases h
  · intro h
    rcases intStr_cases i with ⟨n, _, hn⟩ | ⟨n, _, hn⟩
    · rw [hn] at h; exact (natStr_ne_special n).2 h
    · rw [hn] at h; cases h

/-! ### stage 1 -/

/-- the statement proved by induction on the fuel -/
def TermS1 (H W : Nat) (root : Val) (sp : Pos) (rl : Bool) (fuel : Nat) : Prop :=
  ∀ (entry : Bool) (toks : List Str) (par : PRef) (found : Str) (g : Nat),
    (∀ t ∈ toks, TermPTok t) → (toks = [] → found = slash) →
    TermRef H W root par → SafeRef PlainKey root par → TermFound found g →
    (W + 4) * termHgtRef root par + 2 * toks.length + 1 ≤ fuel →
    TermOut (TermGoodR H W root (g + 2 * termHgtRef root par + termPws toks)) root
      (findD fuel root sp false entry toks par rl found)

theorem term_mul_pred (K h : Nat) (hh : 1 ≤ h) : K * (h - 1) + K = K * h := by
  obtain ⟨h', rfl⟩ : ∃ h', h = h' + 1 := ⟨h - 1, by omega⟩
  simp [Nat.mul_succ]

theorem term_plain_step (H W : Nat) (hW : 1 ≤ W) (root : Val) (sp : Pos) (rl : Bool) (fuel : Nat)
    (ih : ∀ m, m < fuel → TermS1 H W root sp rl m) : TermS1 H W root sp rl fuel := by
  intro entry toks par found g htoks hnil hpar hkeys hfound hfuel
  obtain ⟨f, rfl⟩ : ∃ f, fuel = f + 1 := ⟨fuel - 1, by omega⟩
  cases toks with
  | nil =>
    rw [findD]
    simp only [Bool.false_and, Bool.false_eq_true, if_false, hnil rfl, if_true]
    split
    · exact ⟨rfl, TermGoodR.mk_none hpar hkeys (hnil rfl ▸ hfound) (by omega)⟩
    · exact TermOut_err (by decide)
  | cons tok rest =>
    have htok : TermPTok tok := htoks tok (by simp)
    have hrest : ∀ t ∈ rest, TermPTok t := fun t ht => htoks t (by simp [ht])
    cases hpv : valOf root par with
    | none =>
      rw [findD]
      simp only [Bool.false_and, Bool.false_eq_true, if_false, hpv]
      exact TermOut_err (by decide)
    | some pv =>
      have hb : TermBnd H W pv := hpar pv hpv
      have hh : termHgtRef root par = termHgt pv := termHgtRef_some hpv
      rw [hh] at hfuel ⊢
      simp only [List.length_cons] at hfuel
      -- the not-found record at this level
      have hNF : ∀ (nf : Option (List Str)) (b : Nat), g ≤ b →
          TermGoodR H W root b { parent := par, nameIdx := Option.none, value := Val.none, found := found, notFound := nf } :=
        fun nf b hb' => TermGoodR.mk_none hpar hkeys hfound hb'
      -- a name token (`k` or `k[i]`): fan-out on a list, lookup on a dict
      have hname : ∀ (k : Str) (idx : Idx), PlainKey k → splitNameIndex tok = .ok (k, idx) → 1 ≤ termPw tok →
          (∀ cv c kvs, pv = .dict c kvs → lookup k kvs = some cv → ¬ (rest.isEmpty && idx = .none) = true →
            TermOut (TermGoodR H W root (g + 2 * termHgt pv + termPws (tok :: rest))) root
              (termKeyCont f root sp rl par found k rest idx)) →
          TermOut (TermGoodR H W root (g + 2 * termHgt pv + termPws (tok :: rest))) root
            (findD (f + 1) root sp false entry (tok :: rest) par rl found) := by
        intro k idx hk hsplit hpw hdict
        have hkt := hk.keyTok
        cases pv with
        | list cls xs =>
          rw [term_key_list_step f root sp entry rl par found tok k idx rest cls xs hpv hsplit hkt.ne hkt.notUp]
          have hpos : 1 ≤ termHgt (Val.list cls xs) := term_hgt_container_pos (Or.inl rfl)
          have hlen : xs.length ≤ W := by have := hb.wd; simp only [termWd] at this; omega
          refine term_fanout (TermGoodR.fstClosed _ _ _ _) root sp false rl (tok :: rest) (by simp) par found cls xs hpv
            ((W + 4) * (termHgt (Val.list cls xs) - 1) + 2 * (rest.length + 1) + 1) f ?_ (hNF _ _ (by omega)) f ?_ (Nat.le_refl _)
          · intro j hj f' hf' hf'F
            have hch := termHgtRef_child (root := root) (r := par) (.idx j) hb hpv
            have hmul : (W + 4) * termHgtRef root (childRef root par (.idx j)) ≤ (W + 4) * (termHgt (Val.list cls xs) - 1) :=
              Nat.mul_le_mul_left _ hch
            have := ih f' (by omega) false (tok :: rest) (childRef root par (.idx j)) (found ++ bracket (natStr j)) (g + 1)
              htoks (by simp) (TermRef_child hpar _) (SafeRef_child hkeys _) (hfound.idx (j : Int))
              (by simp only [List.length_cons]; omega)
            exact this.mono (fun r hr => hr.mono (by omega))
          · have := term_mul_pred (W + 4) _ hpos
            omega
        | dict c kvs =>
          rw [term_key_dict_step f root sp entry rl par found tok k idx rest c kvs hpv hsplit hkt.ne hkt.notUp hkt.notStar]
          cases hl : lookup k kvs with
          | none => exact ⟨rfl, hNF _ _ (by omega)⟩
          | some cv =>
            simp only
            split
            · refine ⟨rfl, hpar, hkeys, ?_⟩
              obtain ⟨gs, h1, h2, h3⟩ := hfound.key hk
              exact ⟨gs, h1, h2, Or.inr (Or.inl ⟨k, rfl, hk, by rw [termPws_cons]; omega⟩)⟩
            · rename_i hnl
              exact hdict cv c kvs rfl hl hnl
        | _ =>
          rw [findD]
          simp only [Bool.false_and, Bool.false_eq_true, if_false, hpv, hsplit, isEmpty_false_of_ne hkt.ne, Bool.not_false,
            hkt.notUp, if_true, isList, isDict]
          exact TermOut_err (by decide)
      cases htok with
      | key hk =>
        refine hname tok .none hk hk.keyTok.split (termPw_pos _) ?_
        intro cv c kvs hpvd hl hnl
        subst hpvd
        simp only [termKeyCont]
        have hrne : rest ≠ [] := by intro h; subst h; simp at hnl
        have hpos : 1 ≤ termHgt (Val.dict c kvs) := term_hgt_container_pos (Or.inr rfl)
        have hch := termHgtRef_child (root := root) (r := par) (.key tok) hb hpv
        have hmul : (W + 4) * termHgtRef root (childRef root par (.key tok)) ≤ (W + 4) * (termHgt (Val.dict c kvs) - 1) :=
          Nat.mul_le_mul_left _ hch
        have hmp := term_mul_pred (W + 4) _ hpos
        have := ih f (by omega) false rest (childRef root par (.key tok)) (found ++ slash ++ tok) (g + 1)
          hrest (fun h => absurd h hrne) (TermRef_child hpar _) (SafeRef_child hkeys _) (hfound.key hk) (by omega)
        refine this.mono (fun r hr => hr.mono ?_)
        rw [termPws_cons]
        have := termPw_pos tok
        omega
      | @keyIdx k i hk =>
        have hsplit : splitNameIndex (k ++ bracket (intStr i)) = .ok (k, .str (intStr i)) :=
          split_bracket k (intStr i) (Or.inr hk) (intStr_idxExpr i)
        have hpw : termPw (k ++ bracket (intStr i)) = 2 := by
          have h1 : (k ++ bracket (intStr i)).contains '[' = true := by simp [bracket]
          have h2 : startsWith (k ++ bracket (intStr i)) ['['] = false := by
            cases k with
            | nil => exact absurd rfl hk.ne
            | cons x k' =>
              have : x ≠ '[' := (plainChar_ne (hk.chars x (by simp))).2.1
              simp [startsWith, this]
          unfold termPw; rw [h1, h2]; rfl
        refine hname k _ hk hsplit (by omega) ?_
        intro cv c kvs hpvd hl hnl
        subst hpvd
        simp only [termKeyCont]
        have hpos : 1 ≤ termHgt (Val.dict c kvs) := term_hgt_container_pos (Or.inr rfl)
        have hch := termHgtRef_child (root := root) (r := par) (.key k) hb hpv
        have hmul : (W + 4) * termHgtRef root (childRef root par (.key k)) ≤ (W + 4) * (termHgt (Val.dict c kvs) - 1) :=
          Nat.mul_le_mul_left _ hch
        have hmp := term_mul_pred (W + 4) _ hpos
        have := ih f (by omega) false (bracket (intStr i) :: rest) (childRef root par (.key k)) (found ++ slash ++ k) (g + 1)
          (by intro t ht; simp only [List.mem_cons] at ht; rcases ht with rfl | ht; exact .idx i; exact hrest t ht)
          (by simp) (TermRef_child hpar _) (SafeRef_child hkeys _) (hfound.key hk)
          (by simp only [List.length_cons]; omega)
        refine this.mono (fun r hr => hr.mono ?_)
        rw [termPws_cons, termPws_cons, hpw, termPw_br]
        omega
      | idx i =>
        obtain ⟨hne, hnew, hstar⟩ := term_intStr_ne i
        obtain ⟨par', hp, hcases⟩ := term_pure_idx f root sp entry rl par found (bracket (intStr i)) (intStr i) i rest pv hpv
          (split_bracket_intStr i) hne hnew hstar (n0eval_intStr i)
        obtain ⟨hpar', hchild⟩ := term_idx_parent hW hpv hpar hp
        have hkeys' : SafeRef PlainKey root par' := by
          rcases hp with ⟨_, rfl⟩ | ⟨_, rfl⟩
          · exact hkeys
          · exact SafeRef_wrap hkeys
        rw [termPws_cons, termPw_br]
        rcases hcases with ⟨e, he, hne'⟩ | ⟨v, nf, he⟩ | ⟨n, hrne, he⟩
        · rw [he]; exact TermOut_err hne'
        · rw [he]; exact ⟨rfl, TermGoodR.mk_idx i hpar' hkeys' hfound (by omega)⟩
        · rw [he]
          have hch : termHgtRef root (childRef root par' (.idx n)) ≤ termHgt pv := by
            unfold termHgtRef
            split
            · rename_i c hc; exact (hchild n c hc).1
            · omega
          have hmul : (W + 4) * termHgtRef root (childRef root par' (.idx n)) ≤ (W + 4) * termHgt pv :=
            Nat.mul_le_mul_left _ hch
          have := ih f (by omega) false rest (childRef root par' (.idx n)) (found ++ bracket (intStr i)) (g + 1)
            hrest (fun h => absurd h hrne) (TermRef_child hpar' _) (SafeRef_child hkeys' _) (hfound.idx i) (by omega)
          exact this.mono (fun r hr => hr.mono (by omega))

/-- **Stage 1: resolving plain tokens ends**, for every fuel above the bound -/
theorem term_plain (H W : Nat) (hW : 1 ≤ W) (root : Val) (sp : Pos) (rl : Bool) : ∀ fuel, TermS1 H W root sp rl fuel := by
  intro fuel
  induction fuel using Nat.strongRecOn with
  | ind fuel ih => exact term_plain_step H W hW root sp rl fuel ih

end N0.XPath
