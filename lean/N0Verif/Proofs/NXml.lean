import N0Verif.Model.NXml
/-!
  Specification-side definitions (what ElementTree's tree says) and helper lemmas for C18.
-/
namespace N0.NXml
open N0 N0.Py

/-! ### decidable equality of stored values (for `decide` in examples and counter-examples) -/

mutual
def XVal.beq : XVal → XVal → Bool
  | .text a, .text b => a == b
  | .nodes xs, .nodes ys => beqItems xs ys
  | _, _ => false
def beqItems : List Item → List Item → Bool
  | [], [] => true
  | (t, a, x) :: xs, (t', a', y) :: ys => t == t' && a == a' && XVal.beq x y && beqItems xs ys
  | _, _ => false
end

mutual
theorem XVal.beq_eq : ∀ (a b : XVal), XVal.beq a b = true ↔ a = b
  | .text a, b => by cases b <;> simp [XVal.beq]
  | .nodes xs, b => by
      cases b <;> simp [XVal.beq]
      rename_i ys
      exact beqItems_eq xs ys
theorem beqItems_eq : ∀ (a b : List Item), beqItems a b = true ↔ a = b
  | [], b => by cases b <;> simp [beqItems]
  | (t, a, x) :: xs, b => by
      cases b with
      | nil => simp [beqItems]
      | cons y ys =>
        obtain ⟨t', a', y⟩ := y
        simp [beqItems, XVal.beq_eq x y, beqItems_eq xs ys, and_assoc]
end

instance : DecidableEq XVal := fun a b =>
  if h : XVal.beq a b = true then isTrue ((XVal.beq_eq a b).1 h)
  else isFalse (fun h' => h ((XVal.beq_eq a b).2 h'))

/-! ### document-order flattening -/

/-- one element as seen in document order: depth, tag, attributes, and its text when it has no children -/
structure Ev where
  depth : Nat
  tag : Str
  attrib : Attr
  leafText : Option (Option Str)
  deriving DecidableEq, Repr

mutual
def flatElem (d : Nat) : Elem → List Ev
  | .mk tag text attrib kids =>
    ⟨d, tag, attrib, match kids with | [] => some text | _ :: _ => none⟩ :: flatKids (d + 1) kids
def flatKids (d : Nat) : List Elem → List Ev
  | [] => []
  | e :: rest => flatElem d e ++ flatKids d rest
end

mutual
def flatVal (d : Nat) : XVal → List Ev
  | .text _ => []
  | .nodes items => flatItems d items
def flatItems (d : Nat) : List Item → List Ev
  | [] => []
  | (tag, attrib, v) :: rest =>
    ⟨d, tag, attrib, match v with | .text t => some t | .nodes _ => none⟩
      :: (flatVal (d + 1) v ++ flatItems d rest)
end

mutual
theorem flat_parseElem : ∀ (d : Nat) (e : Elem) (rest : List Item),
    flatItems d (parseElem e :: rest) = flatElem d e ++ flatItems d rest
  | d, .mk tag text attrib [], rest => by
      simp [parseElem, flatItems, flatElem, flatVal, flatKids]
  | d, .mk tag text attrib (k :: ks), rest => by
      have := flat_parseKids (d + 1) (k :: ks)
      simp only [parseElem, flatItems, flatElem, flatVal, this, List.cons_append]
theorem flat_parseKids : ∀ (d : Nat) (kids : List Elem),
    flatItems d (parseKids kids) = flatKids d kids
  | _, [] => by simp [parseKids, flatItems, flatKids]
  | d, e :: rest => by
      rw [parseKids, flat_parseElem d e, flat_parseKids d rest, flatKids]
end

/-! ### positions in the element tree -/

def Elem.tag : Elem → Str
  | .mk t _ _ _ => t
def Elem.kids : Elem → List Elem
  | .mk _ _ _ k => k

/-- the `k`-th child carrying tag `t` -/
def kthTag (t : Str) : Nat → List Elem → Option Elem
  | _, [] => none
  | k, e :: rest =>
    if e.tag = t then (match k with | 0 => some e | k' + 1 => kthTag t k' rest)
    else kthTag t k rest

/-- the element at a position given by (tag, per-tag index) pairs -/
def elemAt : Elem → List (Str × Nat) → Option Elem
  | e, [] => some e
  | e, (t, k) :: rest =>
    match kthTag t k e.kids with
    | none => none
    | some c => elemAt c rest

/-- what n0xml stores as the value of an element -/
def valueOf (e : Elem) : XVal := (parseElem e).2.2

/-- a tag `_get` can address: no `/` and no `[` (XML names never contain them; namespaced
`{uri}tag` names do and are outside this property) -/
def goodTag (t : Str) : Bool := !t.contains '/' && !t.contains '['

def renderStep (s : Str × Nat) : Str := s.1 ++ ('[' :: (dec s.2 ++ [']']))

/-! ### `dec` and `pyInt` -/

theorem digitChar_spec (n : Nat) : isAsciiDigit (digitChar n) = true ∧ digitVal (digitChar n) = n % 10 := by
  have h : ∀ m : Fin 10, isAsciiDigit (Char.ofNat (48 + m.val)) = true ∧
      digitVal (Char.ofNat (48 + m.val)) = m.val := by decide
  have := h ⟨n % 10, Nat.mod_lt _ (by decide)⟩
  simpa [digitChar] using this

theorem digitChar_props (n : Nat) :
    (digitChar n).toNat < 128 ∧ isPySpace (digitChar n) = false ∧ digitChar n ≠ '-' ∧
    digitChar n ≠ '+' ∧ digitChar n ≠ ']' := by
  have h : ∀ m : Fin 10, (Char.ofNat (48 + m.val)).toNat < 128 ∧
      isPySpace (Char.ofNat (48 + m.val)) = false ∧ Char.ofNat (48 + m.val) ≠ '-' ∧
      Char.ofNat (48 + m.val) ≠ '+' ∧ Char.ofNat (48 + m.val) ≠ ']' := by decide
  have := h ⟨n % 10, Nat.mod_lt _ (by decide)⟩
  simpa [digitChar] using this

/-- a string of the shape `dec` produces: non-empty, decimal digits only -/
def IsDigits (s : Str) : Prop := s ≠ [] ∧ ∀ c ∈ s, ∃ n, c = digitChar n

theorem decAux_succ (f n : Nat) (acc : Str) : decAux (f + 1) n acc =
    if n / 10 = 0 then digitChar (n % 10) :: acc
    else decAux f (n / 10) (digitChar (n % 10) :: acc) := rfl

theorem decAux_shape (f n : Nat) (acc : Str) (hacc : ∀ c ∈ acc, ∃ m, c = digitChar m) :
    ∀ c ∈ decAux f n acc, ∃ m, c = digitChar m := by
  induction f generalizing n acc with
  | zero => exact hacc
  | succ f ih =>
    have hacc' : ∀ c ∈ digitChar (n % 10) :: acc, ∃ m, c = digitChar m := by
      intro c hc
      rcases List.mem_cons.1 hc with h | h
      · exact ⟨n % 10, h⟩
      · exact hacc c h
    rw [decAux_succ]
    split
    · exact hacc'
    · exact ih _ _ hacc'

theorem decAux_ne_nil' (f n : Nat) (acc : Str) (h : acc ≠ []) : decAux f n acc ≠ [] := by
  induction f generalizing n acc with
  | zero => exact h
  | succ f ih =>
    rw [decAux_succ]
    split
    · simp
    · exact ih _ _ (by simp)

theorem decAux_ne_nil (f n : Nat) (acc : Str) : decAux (f + 1) n acc ≠ [] := by
  rw [decAux_succ]
  split
  · simp
  · exact decAux_ne_nil' _ _ _ (by simp)

theorem dec_isDigits (n : Nat) : IsDigits (dec n) :=
  ⟨decAux_ne_nil _ _ _, decAux_shape _ _ _ (by simp)⟩

def dval (a : Nat) (c : Char) : Nat := a * 10 + digitVal c

theorem decAux_value (f n : Nat) (acc : Str) (h : n ≤ f) :
    (decAux (f + 1) n acc).foldl dval 0 = acc.foldl dval n := by
  induction f generalizing n acc with
  | zero =>
    have : n = 0 := by omega
    subst this
    simp [decAux_succ, dval, (digitChar_spec 0).2]
  | succ f ih =>
    rw [decAux_succ]
    split
    · rename_i h0
      have : n < 10 := by
        rcases Nat.lt_or_ge n 10 with h | h
        · exact h
        · have := Nat.div_pos h (by decide : 0 < 10); omega
      have hm : n % 10 = n := Nat.mod_eq_of_lt this
      have e := (digitChar_spec n).2
      rw [hm] at e ⊢
      simp [dval, e]
    · rename_i h0
      have hn : n / 10 ≤ f := by omega
      rw [ih (n / 10) _ hn]
      simp only [List.foldl_cons, dval, (digitChar_spec (n % 10)).2]
      congr 1
      omega

theorem dec_value (n : Nat) : (dec n).foldl dval 0 = n := by
  unfold dec
  rw [decAux_value n n [] (Nat.le_refl _)]
  rfl

theorem digitsUS_digits (s : Str) (hs : ∀ c ∈ s, ∃ n, c = digitChar n) (prev : Bool) (acc : Nat)
    (hne : s ≠ [] ∨ prev = true) : digitsUS prev acc s = some (s.foldl dval acc) := by
  induction s generalizing prev acc with
  | nil =>
    rcases hne with h | h
    · exact absurd rfl h
    · subst h; rfl
  | cons c s ih =>
    obtain ⟨n, hn⟩ := hs c (by simp)
    have hd : isAsciiDigit c = true := hn ▸ (digitChar_spec n).1
    rw [digitsUS]
    · simp only [hd, if_true]
      rw [ih (fun c hc => hs c (by simp [hc])) true _ (Or.inr rfl)]
      rfl

theorem dropWhile_none {α} (p : α → Bool) (s : List α) (h : ∀ c ∈ s, p c = false) :
    s.dropWhile p = s := by
  cases s with
  | nil => rfl
  | cons c s => simp [List.dropWhile, h c (by simp)]

theorem pyInt_digits (s : Str) (hs : IsDigits s) : pyInt s = .ok (s.foldl dval 0 : Nat) := by
  obtain ⟨hne, hd⟩ := hs
  have hascii : s.any (fun c => c.toNat ≥ 128) = false := by
    rw [List.any_eq_false]
    intro c hc
    obtain ⟨n, hn⟩ := hd c hc
    have := (digitChar_props n).1
    simp [hn]; omega
  have hsp : ∀ c ∈ s, isPySpace c = false := by
    intro c hc
    obtain ⟨n, hn⟩ := hd c hc
    exact hn ▸ (digitChar_props n).2.1
  have hstrip : stripWs s = s := by
    unfold stripWs
    rw [dropWhile_none _ _ hsp, dropWhile_none _ _ (by intro c hc; exact hsp c (by simpa using hc))]
    simp
  unfold pyInt
  rw [hascii, hstrip]
  simp only [Bool.false_eq_true, if_false]
  cases s with
  | nil => exact absurd rfl hne
  | cons c r =>
    obtain ⟨n, hn⟩ := hd c (by simp)
    have h1 : c ≠ '-' := hn ▸ (digitChar_props n).2.2.1
    have h2 : c ≠ '+' := hn ▸ (digitChar_props n).2.2.2.1
    have hds := digitsUS_digits (c :: r) hd false 0 (Or.inl (by simp))
    split
    · rename_i heq; cases heq; exact absurd rfl h1
    · rename_i heq; cases heq; exact absurd rfl h2
    · rw [hds]

theorem pyInt_dec (n : Nat) : pyInt (dec n) = .ok (n : Int) := by
  rw [pyInt_digits _ (dec_isDigits n), dec_value]

/-! ### steps of `_get` -/

theorem takeWhile_append_stop {α} (p : α → Bool) (a : List α) (x : α) (b : List α)
    (ha : ∀ c ∈ a, p c = true) (hx : p x = false) :
    (a ++ x :: b).takeWhile p = a ∧ (a ++ x :: b).dropWhile p = x :: b := by
  induction a with
  | nil => simp [hx]
  | cons c a ih =>
    have hc := ha c (by simp)
    have := ih (fun y hy => ha y (by simp [hy]))
    simp [hc, this.1, this.2]

theorem rstrip_keep (chars s : Str) (h : ∀ c, s.getLast? = some c → chars.contains c = false) :
    rstrip chars s = s := by
  unfold rstrip
  cases hrev : s.reverse with
  | nil => simp at hrev; simp [hrev]
  | cons c r =>
    have hl : s.getLast? = some c := by
      rw [List.getLast?_eq_head?_reverse, hrev]; rfl
    have := h c hl
    rw [List.dropWhile_cons_of_neg (by rw [this]; simp)]
    rw [← hrev]; simp

theorem goodTag_noBr (t : Str) (h : goodTag t = true) : ∀ c ∈ t, (c ≠ '[') := by
  intro c hc heq
  subst heq
  simp [goodTag] at h
  exact h.2 hc

theorem getStep_plain (t : Str) (h : goodTag t = true) : getStep t = .ok (t, 0) := by
  simp [goodTag] at h
  simp [getStep, h.2]

theorem getStep_indexed (t : Str) (h : goodTag t = true) (k : Nat) :
    getStep (t ++ ('[' :: (dec k ++ [']']))) = .ok (t, (k : Int)) := by
  obtain ⟨hne, hd⟩ := dec_isDigits k
  have hcont : (t ++ ('[' :: (dec k ++ [']']))).contains '[' = true := by simp
  have hstrip : rstrip [']'] (t ++ ('[' :: (dec k ++ [']']))) = t ++ ('[' :: dec k) := by
    have e : t ++ ('[' :: (dec k ++ [']'])) = (t ++ ('[' :: dec k)) ++ [']'] := by simp
    rw [e]
    unfold rstrip
    rw [List.reverse_append]
    simp only [List.reverse_cons, List.reverse_nil, List.nil_append, List.singleton_append]
    rw [List.dropWhile_cons_of_pos (by simp)]
    have := rstrip_keep [']'] (t ++ ('[' :: dec k)) (by
      intro c hc
      have hlast : (t ++ ('[' :: dec k)).getLast? = (dec k).getLast?.or (some '[') := by
        rw [List.getLast?_append, List.getLast?_cons]
        cases (dec k).getLast? <;> simp
      rw [hlast] at hc
      cases hl : (dec k).getLast? with
      | none => rw [hl] at hc; simp at hc; subst hc; decide
      | some d =>
        rw [hl] at hc; simp at hc; rw [← hc]
        obtain ⟨n, hn⟩ := hd d (List.mem_of_getLast? hl)
        have := (digitChar_props n).2.2.2.2
        rw [hn]
        simp [this])
    unfold rstrip at this
    exact this
  have hsplit := takeWhile_append_stop (fun c => decide (c ≠ '[')) t '[' (dec k)
    (by intro c hc; simpa using goodTag_noBr t h c hc) (by simp)
  unfold getStep
  rw [hcont]
  simp only [if_true]
  rw [hstrip, hsplit.1, hsplit.2]
  simp only [List.drop_succ_cons, List.drop_zero]
  rw [pyInt_dec]

/-! ### `_get` follows positions -/

theorem parseKids_cons (e : Elem) (rest : List Elem) :
    parseKids (e :: rest) = (e.tag, (parseElem e).2.1, valueOf e) :: parseKids rest := by
  cases e with
  | mk tag text attrib kids => cases kids <;> simp [parseKids, parseElem, valueOf, Elem.tag]

theorem scanItems_parseKids (t : Str) (kids : List Elem) (k : Nat) :
    scanItems (parseKids kids) t (k : Int) = (kthTag t k kids).map valueOf := by
  induction kids generalizing k with
  | nil => simp [parseKids, scanItems, kthTag]
  | cons e rest ih =>
    rw [parseKids_cons]
    simp only [scanItems, kthTag]
    by_cases ht : e.tag = t
    · simp only [ht, if_true]
      cases k with
      | zero => simp
      | succ k' =>
        have : ((k' + 1 : Nat) : Int) ≠ 0 := by omega
        simp only [this, if_false]
        have e2 : ((k' + 1 : Nat) : Int) - 1 = (k' : Int) := by omega
        rw [e2, ih]
    · simp only [ht, if_false]
      exact ih k

theorem valueOf_kids (e : Elem) : valueOf e = (match e.kids with
    | [] => XVal.text (match e with | .mk _ text _ _ => text)
    | k :: ks => XVal.nodes (parseKids (k :: ks))) := by
  cases e with
  | mk tag text attrib kids => cases kids <;> simp [valueOf, parseElem, Elem.kids]

/-- below the element `e` (whose stored value is `valueOf e`), `_get` with explicit indexes
walks exactly the positions of the element tree -/
theorem getL_valueOf (e : Elem) (s : Str × Nat) (p : List (Str × Nat))
    (hp : ∀ q ∈ s :: p, goodTag q.1 = true) :
    getL (valueOf e) ((s :: p).map renderStep) = .ok ((elemAt e (s :: p)).map valueOf) := by
  induction p generalizing e s with
  | nil =>
    obtain ⟨t, k⟩ := s
    have hg := hp (t, k) (by simp)
    simp only [List.map_cons, List.map_nil, getL, renderStep, getStep_indexed t hg k, elemAt]
    rw [valueOf_kids]
    cases hk : e.kids with
    | nil => simp [kthTag]
    | cons c cs =>
      simp only [scanItems_parseKids]
      cases kthTag t k (c :: cs) <;> simp
  | cons s2 p ih =>
    obtain ⟨t, k⟩ := s
    have hg := hp (t, k) (by simp)
    rw [List.map_cons, getL]
    simp only [renderStep, getStep_indexed t hg k]
    rw [elemAt, valueOf_kids]
    cases hk : e.kids with
    | nil => simp [kthTag]
    | cons c cs =>
      simp only [scanItems_parseKids]
      cases hkt : kthTag t k (c :: cs) with
      | none => simp
      | some w =>
        simp only [Option.map_some]
        have := ih w s2 (fun q hq => hp q (by simp [hq]))
        simpa [renderStep] using this

/-! ### `findall`: every reported pair resolves through `_get` -/

mutual
/-- every tag below is addressable by `_get` -/
def goodV : XVal → Bool
  | .text _ => true
  | .nodes items => goodItems items
def goodItems : List Item → Bool
  | [] => true
  | (t, _, v) :: rest => goodTag t && goodV v && goodItems rest
end

def countTag (t : Str) : List Item → Nat
  | [] => 0
  | (t', _, _) :: rest => (if t' = t then 1 else 0) + countTag t rest

def HitOK (root : XVal) (h : Hit) : Prop := getL root h.1 = .ok (some h.2)
def AllOK (root : XVal) (hs : List Hit) : Prop := ∀ h ∈ hs, HitOK root h
def ResOK (root : XVal) (o : Out) : Prop := ∀ hs, o.res = some hs → AllOK root hs
def LoopOK (root : XVal) : LoopOut → Prop
  | .retNone _ => True
  | .ret f _ => AllOK root f
  | .brk f _ _ => AllOK root f
def SumOK (root : XVal) : LoopOut ⊕ (List Hit × Bool) → Prop
  | .inl out => LoopOK root out
  | .inr p => AllOK root p.1

/-- the specification of one closure "recurse into the value `v`" -/
def FnOK (root : XVal) (v : XVal) (fn : Fn) : Prop :=
  ∀ sought passed any ff o, getL root passed = .ok (some v) →
    fn sought passed any ff = .ok o → ResOK root o

theorem getL_append (root : XVal) (p q : List Str) (v : XVal)
    (h : getL root p = .ok (some v)) : getL root (p ++ q) = getL v q := by
  induction p generalizing root with
  | nil => simp [getL] at h; subst h; rfl
  | cons s p ih =>
    rw [List.cons_append]
    rw [getL] at h
    rw [getL]
    cases hs : getStep s with
    | error e => rw [hs] at h; simp at h
    | ok ni =>
      obtain ⟨name, idx⟩ := ni
      rw [hs] at h
      simp only at h ⊢
      cases root with
      | text t => simp at h
      | nodes items =>
        simp only at h ⊢
        cases hsc : scanItems items name idx with
        | none => rw [hsc] at h; simp at h
        | some w =>
          rw [hsc] at h
          simp only at h ⊢
          exact ih w h

theorem scan_pre (t : Str) (a : Attr) (v : XVal) (post pre : List Item) :
    scanItems (pre ++ (t, a, v) :: post) t (countTag t pre : Int) = some v := by
  induction pre with
  | nil => simp [scanItems, countTag]
  | cons it pre ih =>
    obtain ⟨t', a', v'⟩ := it
    simp only [List.cons_append, scanItems, countTag]
    by_cases h : t' = t
    · simp only [h, if_true]
      have : ((1 + countTag t pre : Nat) : Int) ≠ 0 := by omega
      simp only [this, if_false]
      have e : ((1 + countTag t pre : Nat) : Int) - 1 = (countTag t pre : Int) := by omega
      rw [e]; exact ih
    · simp only [h, if_false, Nat.zero_add]
      exact ih

theorem name_resolves (st : Step) (t : Str) (a : Attr) (v : XVal) (pre post : List Item)
    (hg : goodTag t = true) :
    getL (.nodes (pre ++ (t, a, v) :: post)) [stepName st t (countTag t pre)] = .ok (some v) := by
  unfold stepName
  by_cases hc : (idxTruthy st.idx || countTag t pre != 0) = true
  · simp only [hc, if_true]
    rw [getL, getStep_indexed t hg]
    simp only [scan_pre, getL]
  · simp only [hc]
    have h0 : countTag t pre = 0 := by
      simp at hc; exact hc.2
    simp only [Bool.false_eq_true, if_false, List.append_nil]
    rw [getL, getStep_plain t hg]
    have := scan_pre t a v post pre
    rw [h0] at this
    simp only [Int.natCast_zero] at this
    simp only [this, getL]

theorem cnt_incr (m : List (Str × Nat)) (k k' : Str) :
    cnt (incr m k) k' = if k' = k then cnt m k + 1 else cnt m k' := by
  induction m with
  | nil =>
    by_cases h : k' = k <;> simp [incr, cnt, h]
  | cons e m ih =>
    obtain ⟨k0, n⟩ := e
    simp only [incr]
    by_cases h0 : k = k0
    · subst h0
      by_cases h : k' = k <;> simp [cnt, h]
    · simp only [h0, if_false, cnt]
      by_cases h : k' = k
      · subst h; simp [h0, ih]
      · have h0' : ¬ k0 = k := fun e => h0 e.symm
        by_cases h1 : k' = k0 <;> simp [h, h1, ih, h0']

theorem countTag_append (t : Str) (pre : List Item) (it : Item) :
    countTag t (pre ++ [it]) = countTag t pre + (if it.1 = t then 1 else 0) := by
  induction pre with
  | nil => obtain ⟨t', a, v⟩ := it; simp [countTag]
  | cons x pre ih =>
    obtain ⟨t', a, v⟩ := x
    simp only [List.cons_append, countTag, ih]; omega

theorem goodItems_mid (pre post : List Item) (t : Str) (a : Attr) (v : XVal)
    (h : goodItems (pre ++ (t, a, v) :: post) = true) : goodTag t = true ∧ goodV v = true := by
  induction pre with
  | nil => simp [goodItems] at h; exact ⟨h.1.1, h.1.2⟩
  | cons x pre ih =>
    obtain ⟨t', a', v'⟩ := x
    simp [goodItems] at h
    exact ih h.2

theorem afterCall_ok (root : XVal) (r : Res) (found : List Hit) (any : Nat)
    (hr : ∀ o, r = .ok o → ResOK root o) (hf : AllOK root found)
    (x : LoopOut ⊕ (List Hit × Bool)) (h : afterCall r found any = .ok x) : SumOK root x := by
  unfold afterCall at h
  split at h
  · simp at h
  · simp at h; subst h; exact hf
  · rename_i hs ff
    have hhs : AllOK root hs := hr _ rfl hs rfl
    have happ : AllOK root (found ++ hs) := by
      intro h hh
      rcases List.mem_append.1 hh with h1 | h1
      · exact hf h h1
      · exact hhs h h1
    split at h <;> (simp at h; subst h; exact happ)

theorem guarded_ok (root : XVal) (c : Bool) (r : Unit → Res) (found : List Hit) (ff : Bool) (any : Nat)
    (hr : ∀ o, r () = .ok o → ResOK root o) (hf : AllOK root found)
    (x : LoopOut ⊕ (List Hit × Bool)) (h : guarded c r found ff any = .ok x) : SumOK root x := by
  unfold guarded at h
  split at h
  · exact afterCall_ok root _ found any hr hf x h
  · simp at h; subst h; exact hf

theorem forLoop_ok (F : Bool) (root : XVal) (st : Step) (sought passed : List Str) (any : Nat)
    (post : List Item) :
    ∀ (pre : List Item) (found : List Hit) (idxs : List (Str × Nat)) (ff : Bool) (out : LoopOut),
    getL root passed = .ok (some (.nodes (pre ++ post))) →
    goodItems (pre ++ post) = true →
    (∀ t, tagTest st t any = true → cnt idxs t = countTag t pre) →
    AllOK root found →
    (∀ it ∈ post, FnOK root it.2.2 (recurse F it.2.2)) →
    forLoop st sought passed any (kidFns F post) found idxs ff = .ok out → LoopOK root out := by
  induction post with
  | nil =>
    intro pre found idxs ff out _ _ _ hf _ h
    simp [kidFns, forLoop] at h
    subst h; exact hf
  | cons it post ih =>
    obtain ⟨t, a, v⟩ := it
    intro pre found idxs ff out hroot hgood hcnt hf hP h
    simp only [kidFns, forLoop] at h
    have hPv : FnOK root v (recurse F v) := hP (t, a, v) (by simp)
    have hP' : ∀ it ∈ post, FnOK root it.2.2 (recurse F it.2.2) := fun it hit => hP it (by simp [hit])
    have hsplit : pre ++ (t, a, v) :: post = (pre ++ [(t, a, v)]) ++ post := by simp
    by_cases htt : tagTest st t any = true
    · simp only [htt, if_true] at h
      have hgt := goodItems_mid pre post t a v hgood
      have hname : getL root (passed ++ [stepName st t (cnt idxs t)]) = .ok (some v) := by
        rw [getL_append _ _ _ _ hroot, hcnt t htt]
        exact name_resolves st t a v pre post hgt.1
      have hcnt' : ∀ t', tagTest st t' any = true → cnt (incr idxs t) t' = countTag t' (pre ++ [(t, a, v)]) := by
        intro t' ht'
        rw [cnt_incr, countTag_append]
        by_cases e : t' = t
        · subst e; simp [hcnt t' ht']
        · have e' : ¬ (t = t') := fun h => e h.symm
          simp [e, e', hcnt t' ht']
      cases hg1 : guarded (idxOk st.idx (cnt idxs t) && condHolds st.cond v)
          (fun _ => recurse F v (sought.drop 1) (passed ++ [stepName st t (cnt idxs t)]) any ff) found ff any with
      | error e => rw [hg1] at h; simp at h
      | ok x1 =>
        have hx1 := guarded_ok root _ _ found ff any (fun o ho => hPv _ _ _ _ o hname ho) hf x1 hg1
        rw [hg1] at h
        cases x1 with
        | inl o1 => simp at h; subst h; exact hx1
        | inr p1 =>
          obtain ⟨found1, ff1⟩ := p1
          simp only at h
          cases hg2 : guarded (any == 1)
              (fun _ => recurse F v sought (passed ++ [stepName st t (cnt idxs t)]) any ff1) found1 ff1 any with
          | error e => rw [hg2] at h; simp at h
          | ok x2 =>
            have hx2 := guarded_ok root _ _ found1 ff1 any (fun o ho => hPv _ _ _ _ o hname ho) hx1 x2 hg2
            rw [hg2] at h
            cases x2 with
            | inl o2 => simp at h; subst h; exact hx2
            | inr p2 =>
              obtain ⟨found2, ff2⟩ := p2
              simp only at h
              exact ih (pre ++ [(t, a, v)]) found2 (incr idxs t) ff2 out (hsplit ▸ hroot) (hsplit ▸ hgood)
                hcnt' hx2 hP' h
    · simp only [htt] at h
      have hcnt' : ∀ t', tagTest st t' any = true → cnt idxs t' = countTag t' (pre ++ [(t, a, v)]) := by
        intro t' ht'
        rw [countTag_append, hcnt t' ht']
        have : ¬ (t = t') := by intro e; subst e; exact htt ht'
        simp [this]
      exact ih (pre ++ [(t, a, v)]) found idxs ff out (hsplit ▸ hroot) (hsplit ▸ hgood) hcnt' hf hP' h

/-- what is known about the closures of the children of `v` -/
def KidsOK (F : Bool) (root v : XVal) (kids : List Kid) : Prop :=
  ∀ items, v = .nodes items → kids = kidFns F items ∧ goodItems items = true ∧
    ∀ it ∈ items, FnOK root it.2.2 (recurse F it.2.2)

theorem iter_ok (F : Bool) (root v : XVal) (kids : List Kid) (sought passed : List Str) (any : Nat)
    (found : List Hit) (ff : Bool) (out : LoopOut)
    (hroot : getL root passed = .ok (some v)) (hk : KidsOK F root v kids) (hf : AllOK root found)
    (h : iter v kids sought passed any found ff = .ok out) : LoopOK root out := by
  unfold iter at h
  simp only at h
  generalize (if any = 2 then star2 else sought.headD []) = cur at h
  split at h
  · simp at h; subst h; trivial
  · split at h
    · simp at h
    · rename_i st _
      split at h
      · rename_i hne
        cases v with
        | text t => simp [isNonEmptyNodes] at hne
        | nodes items =>
          obtain ⟨hkids, hgood, hP⟩ := hk items rfl
          rw [hkids] at h
          exact forLoop_ok F root st sought passed _ items [] found [] ff out (by simpa using hroot)
            (by simpa using hgood) (by intro t _; simp [cnt, countTag]) hf hP h
      · simp at h; subst h
        show AllOK root _
        split
        · intro x hx
          rcases List.mem_append.1 hx with h1 | h1
          · exact hf x h1
          · simp at h1; subst h1; exact hroot
        · exact hf

theorem finish_ok (F : Bool) (root v : XVal) (passed : List Str) (found : List Hit) (ff : Bool) (o : Out)
    (hroot : getL root passed = .ok (some v)) (hf : AllOK root found)
    (h : finish F v passed found ff = .ok o) : ResOK root o := by
  unfold finish at h
  simp at h; subst h
  intro hs hhs
  simp at hhs; subst hhs
  intro x hx
  rcases List.mem_append.1 hx with h1 | h1
  · exact hf x h1
  · simp at h1; subst h1; exact hroot

theorem loopEmpty_ok (F : Bool) (root v : XVal) (kids : List Kid) (passed : List Str) (any : Nat)
    (found : List Hit) (ff : Bool) (o : Out)
    (hroot : getL root passed = .ok (some v)) (hk : KidsOK F root v kids) (hf : AllOK root found)
    (h : loopEmpty F v kids passed any found ff = .ok o) : ResOK root o := by
  unfold loopEmpty at h
  split at h
  · cases hi : iter v kids [] passed any found ff with
    | error e => rw [hi] at h; simp at h
    | ok lo =>
      have hlo := iter_ok F root v kids [] passed any found ff lo hroot hk hf hi
      rw [hi] at h
      cases lo with
      | retNone ff' => simp at h; subst h; intro hs hhs; simp at hhs
      | ret f ff' => simp at h; subst h; intro hs hhs; simp at hhs; subst hhs; exact hlo
      | brk f ff' any' =>
        simp only at h
        split at h
        · simp at h
        · exact finish_ok F root v passed f ff' o hroot hlo h
  · exact finish_ok F root v passed found ff o hroot hf h

theorem whileLoop_ok (F : Bool) (root v : XVal) (kids : List Kid) (passed : List Str)
    (hroot : getL root passed = .ok (some v)) (hk : KidsOK F root v kids) (n : Nat) :
    ∀ (sought : List Str) (any : Nat) (found : List Hit) (ff : Bool) (o : Out),
    sought.length ≤ n → AllOK root found →
    whileLoop F v kids passed sought any found ff = .ok o → ResOK root o := by
  induction n with
  | zero =>
    intro sought any found ff o hlen hf h
    have : sought = [] := List.eq_nil_of_length_eq_zero (by omega)
    subst this
    rw [whileLoop] at h
    exact loopEmpty_ok F root v kids passed any found ff o hroot hk hf h
  | succ n ih =>
    intro sought any found ff o hlen hf h
    cases sought with
    | nil =>
      rw [whileLoop] at h
      exact loopEmpty_ok F root v kids passed any found ff o hroot hk hf h
    | cons a rest =>
      rw [whileLoop] at h
      cases hi : iter v kids (a :: rest) passed any found ff with
      | error e => rw [hi] at h; simp at h
      | ok lo =>
        have hlo := iter_ok F root v kids (a :: rest) passed any found ff lo hroot hk hf hi
        rw [hi] at h
        cases lo with
        | retNone ff' => simp at h; subst h; intro hs hhs; simp at hhs
        | ret f ff' => simp at h; subst h; intro hs hhs; simp at hhs; subst hhs; exact hlo
        | brk f ff' any' =>
          simp only at h
          cases rest with
          | nil => exact loopEmpty_ok F root v kids passed any' f ff' o hroot hk hlo h
          | cons b rest' =>
            simp only at h
            exact ih rest' any' f ff' o (by simp at hlen; omega) hlo h

mutual
theorem recurse_ok (F : Bool) (root : XVal) : ∀ (v : XVal), goodV v = true → FnOK root v (recurse F v)
  | .text t, _ => by
    intro sought passed any ff o hroot h
    rw [recurse] at h
    exact whileLoop_ok F root (.text t) [] passed hroot (by intro items hi; cases hi) _ sought any [] ff o
      (Nat.le_refl _) (by intro x hx; cases hx) h
  | .nodes items, hg => by
    intro sought passed any ff o hroot h
    rw [recurse] at h
    have hgi : goodItems items = true := by simpa [goodV] using hg
    have hk : KidsOK F root (.nodes items) (kidFns F items) := by
      intro items' hi
      cases hi
      exact ⟨rfl, hgi, items_ok F root items hgi⟩
    exact whileLoop_ok F root (.nodes items) _ passed hroot hk _ sought any [] ff o
      (Nat.le_refl _) (by intro x hx; cases hx) h
theorem items_ok (F : Bool) (root : XVal) : ∀ (items : List Item), goodItems items = true →
    ∀ it ∈ items, FnOK root it.2.2 (recurse F it.2.2)
  | [], _ => by intro it hit; cases hit
  | (t, a, v) :: rest, hg => by
    intro it hit
    simp [goodItems] at hg
    rcases List.mem_cons.1 hit with h | h
    · subst h; exact recurse_ok F root v hg.1.2
    · exact items_ok F root rest hg.2 it h
end

theorem findallL_resolves (F : Bool) (root : XVal) (hg : goodV root = true) (sought : List Str)
    (hs : List Hit) (h : findallL F root sought = .ok (some hs)) :
    ∀ p ∈ hs, getL root p.1 = .ok (some p.2) := by
  unfold findallL at h
  cases hr : recurse F root sought [] 0 false with
  | error e => rw [hr] at h; simp at h
  | ok o =>
    rw [hr] at h
    simp at h
    exact recurse_ok F root root hg sought [] 0 false o rfl hr hs h

/-! ### exact results of `findall` (find_first = False) when no `'..'` and no dive is involved -/

/-- the siblings one pass of the `for` loop keeps, with what the continuation `k` reports below
each of them; `seen` are the siblings already passed (the per-tag index of a sibling is the number
of earlier siblings with its tag) -/
def selG (st : Step) (any : Nat) (k : List Str → XVal → List Hit) (passed : List Str) :
    List Item → List Item → List Hit
  | _, [] => []
  | seen, (t, a, v) :: rest =>
    (if tagTest st t any && idxOk st.idx (countTag t seen) && condHolds st.cond v
      then k (passed ++ [stepName st t (countTag t seen)]) v else [])
    ++ selG st any k passed (seen ++ [(t, a, v)]) rest

theorem forLoop_sel (st : Step) (sought passed : List Str) (any : Nat) (hany : any ≠ 1)
    (k : List Str → XVal → List Hit) (post : List Item) :
    ∀ (pre : List Item) (found : List Hit) (idxs : List (Str × Nat)),
    (∀ t, tagTest st t any = true → cnt idxs t = countTag t pre) →
    (∀ it ∈ post, ∀ passed', recurse false it.2.2 (sought.drop 1) passed' any false
        = .ok ⟨some (k passed' it.2.2), false⟩) →
    forLoop st sought passed any (kidFns false post) found idxs false
      = .ok (.ret (found ++ selG st any k passed pre post) false) := by
  induction post with
  | nil => intro pre found idxs _ _; simp [kidFns, forLoop, selG]
  | cons it post ih =>
    obtain ⟨t, a, v⟩ := it
    intro pre found idxs hcnt hk
    have hkv := hk (t, a, v) (by simp)
    have hk' : ∀ it ∈ post, ∀ passed', recurse false it.2.2 (sought.drop 1) passed' any false
        = .ok ⟨some (k passed' it.2.2), false⟩ := fun it hit => hk it (by simp [hit])
    have hany' : (any == 1) = false := by simp [hany]
    simp only [kidFns, forLoop, selG]
    by_cases htt : tagTest st t any = true
    · have hcnt' : ∀ t', tagTest st t' any = true → cnt (incr idxs t) t' = countTag t' (pre ++ [(t, a, v)]) := by
        intro t' ht'
        rw [cnt_incr, countTag_append]
        by_cases e : t' = t
        · subst e; simp [hcnt t' ht']
        · have e' : ¬ (t = t') := fun h => e h.symm
          simp [e, e', hcnt t' ht']
      simp only [htt, if_true, Bool.true_and, hcnt t htt]
      by_cases hc : (idxOk st.idx (countTag t pre) && condHolds st.cond v) = true
      · simp only [hc, guarded, if_true, hkv, afterCall, hany', Bool.false_eq_true, if_false]
        rw [ih (pre ++ [(t, a, v)]) _ (incr idxs t) hcnt' hk']
        simp
      · simp only [hc, guarded, if_false, hany', Bool.false_eq_true]
        rw [ih (pre ++ [(t, a, v)]) _ (incr idxs t) hcnt' hk']
        simp
    · have hcnt' : ∀ t', tagTest st t' any = true → cnt idxs t' = countTag t' (pre ++ [(t, a, v)]) := by
        intro t' ht'
        rw [countTag_append, hcnt t' ht']
        have : ¬ (t = t') := by intro e; subst e; exact htt ht'
        simp [this]
      simp only [htt, Bool.false_and, Bool.false_eq_true, if_false, List.nil_append]
      exact ih (pre ++ [(t, a, v)]) found idxs hcnt' hk'

/-! #### `**`: every leaf, once, in document order -/

/-- the step appended for the `k`-th sibling with tag `t` when no index was requested -/
def nameOf (t : Str) (k : Nat) : Str := t ++ (if k != 0 then '[' :: (dec k ++ [']']) else [])

mutual
/-- the leaves (values that are not node lists) below a value, in document order, each with the
path `tag`/`tag[k]` … from `passed` down to it -/
def leavesV (passed : List Str) : XVal → List Hit
  | .text t => [(passed, .text t)]
  | .nodes items => leavesI passed [] items
def leavesI (passed : List Str) : List Item → List Item → List Hit
  | _, [] => []
  | seen, (t, a, v) :: rest =>
    leavesV (passed ++ [nameOf t (countTag t seen)]) v ++ leavesI passed (seen ++ [(t, a, v)]) rest
end

def stDeep : Step := { tag := star2, idx := none, cond := none }

theorem parseStep_star2 : parseStep star2 = some stDeep := by decide

theorem selG_deep (passed : List Str) (post : List Item) : ∀ (seen : List Item),
    selG stDeep 2 leavesV passed seen post = leavesI passed seen post := by
  induction post with
  | nil => intro seen; simp [selG, leavesI]
  | cons it post ih =>
    obtain ⟨t, a, v⟩ := it
    intro seen
    have : stepName stDeep t (countTag t seen) = nameOf t (countTag t seen) := by
      simp [stepName, nameOf, stDeep, idxTruthy]
    simp only [selG, leavesI, ih, this]
    simp [tagTest, stDeep, idxOk, condHolds]

theorem iter_deep_leaf (t : Option Str) (kids : List Kid) (passed : List Str) :
    iter (.text t) kids [] passed 2 [] false = .ok (.ret [(passed, .text t)] false) := by
  have hne : star2 ≠ dotdot := by decide
  simp [iter, parseStep_star2, hne, isNonEmptyNodes, isTextV, anyAfter, stDeep]

theorem recurse_text (F : Bool) (t : Option Str) (sought passed : List Str) (any : Nat) (ff : Bool) :
    recurse F (.text t) sought passed any ff = whileLoop F (.text t) [] passed sought any [] ff := by
  rw [recurse]

theorem recurse_nodes (F : Bool) (items : List Item) (sought passed : List Str) (any : Nat) (ff : Bool) :
    recurse F (.nodes items) sought passed any ff
      = whileLoop F (.nodes items) (kidFns F items) passed sought any [] ff := by
  rw [recurse]

theorem whileLoop_nil (F : Bool) (v : XVal) (kids : List Kid) (passed : List Str) (any : Nat)
    (found : List Hit) (ff : Bool) :
    whileLoop F v kids passed [] any found ff = loopEmpty F v kids passed any found ff := by
  rw [whileLoop]

mutual
theorem deep_value : ∀ (v : XVal) (passed : List Str),
    recurse false v [] passed 2 false = .ok ⟨some (leavesV passed v), false⟩
  | .text t, passed => by
    rw [recurse_text, whileLoop_nil, loopEmpty]
    simp [iter_deep_leaf, leavesV]
  | .nodes [], passed => by
    rw [recurse_nodes, whileLoop_nil, loopEmpty]
    have hne : star2 ≠ dotdot := by decide
    simp [iter, parseStep_star2, hne, isNonEmptyNodes, isTextV, anyAfter, stDeep, leavesV, leavesI]
  | .nodes (x :: xs), passed => by
    rw [recurse_nodes, whileLoop_nil, loopEmpty]
    have hne : star2 ≠ dotdot := by decide
    have hfl := forLoop_sel stDeep [] passed 2 (by decide) leavesV (x :: xs) [] [] []
      (by intro t _; simp [cnt, countTag]) (deep_items (x :: xs))
    have hany : anyAfter stDeep [] = 2 := by simp [anyAfter, stDeep]
    simp only [iter, parseStep_star2, isNonEmptyNodes, if_true, hne, if_false, hany]
    rw [hfl, selG_deep]
    simp [leavesV]
theorem deep_items : ∀ (items : List Item), ∀ it ∈ items, ∀ passed',
    recurse false it.2.2 ([] : List Str) passed' 2 false = .ok ⟨some (leavesV passed' it.2.2), false⟩
  | [], _, hit, _ => by cases hit
  | (t, a, v) :: rest, it, hit, passed' => by
    rcases List.mem_cons.1 hit with h | h
    · subst h; exact deep_value v passed'
    · exact deep_items rest it h passed'
end

theorem whileLoop_ret (F : Bool) (v : XVal) (kids : List Kid) (passed : List Str) (a : Str)
    (rest : List Str) (any : Nat) (found : List Hit) (ff : Bool) (f : List Hit) (ff' : Bool)
    (h : iter v kids (a :: rest) passed any found ff = .ok (.ret f ff')) :
    whileLoop F v kids passed (a :: rest) any found ff = .ok ⟨some f, ff'⟩ := by
  rw [whileLoop, h]

/-- `findall('**')` (list form `['**']`) -/
theorem findallL_deep (root : XVal) : findallL false root [star2] = .ok (some (leavesV [] root)) := by
  have hne : star2 ≠ dotdot := by decide
  have hany : anyAfter stDeep [star2] = 2 := by simp [anyAfter, stDeep]
  have hr : recurse false root [star2] [] 0 false = .ok ⟨some (leavesV [] root), false⟩ := by
    cases root with
    | text t =>
      rw [recurse_text]
      apply whileLoop_ret
      simp [iter, parseStep_star2, hne, isNonEmptyNodes, isTextV, hany, leavesV]
    | nodes items =>
      rw [recurse_nodes]
      apply whileLoop_ret
      cases items with
      | nil => simp [iter, parseStep_star2, hne, isNonEmptyNodes, isTextV, hany, leavesV, leavesI]
      | cons x xs =>
        have hfl := forLoop_sel stDeep [star2] [] 2 (by decide) leavesV (x :: xs) [] [] []
          (by intro t _; simp [cnt, countTag]) (deep_items (x :: xs))
        have e0 : ¬ ((0 : Nat) = 2) := by decide
        simp only [iter, e0, if_false, List.headD_cons, parseStep_star2, isNonEmptyNodes, if_true, hne, hany]
        rw [hfl, selG_deep]
        simp [leavesV]
  simp [findallL, hr]

/-! #### expressions of plain steps: names or `*`, optional index, optional `text()` condition -/

/-- `s` is a step the regex reads as `st`, it is not `**…` and not `..` -/
def Simple (s : Str) (st : Step) : Prop := parseStep s = some st ∧ st.tag ≠ star2 ∧ s ≠ dotdot

inductive AllSimple : List Str → List Step → Prop
  | nil : AllSimple [] []
  | cons {s st ss sts} : Simple s st → AllSimple ss sts → AllSimple (s :: ss) (st :: sts)

/-- sibling-filter semantics of an expression of plain steps -/
def selP : List Step → List Str → XVal → List Hit
  | [], passed, v => [(passed, v)]
  | st :: rest, passed, .nodes items => selG st 0 (selP rest) passed [] items
  | _ :: _, _, .text _ => []

theorem simple_path (ss : List Str) (sts : List Step) (h : AllSimple ss sts) :
    ∀ (v : XVal) (passed : List Str),
    recurse false v ss passed 0 false = .ok ⟨some (selP sts passed v), false⟩ := by
  induction h with
  | nil =>
    intro v passed
    cases v <;> simp [recurse_text, recurse_nodes, whileLoop_nil, loopEmpty, finish, selP]
  | @cons s st ss sts hs _ ih =>
    obtain ⟨hp, htag, hdd⟩ := hs
    have hany : anyAfter st (s :: ss) = 0 := by simp [anyAfter, htag]
    intro v passed
    cases v with
    | text t =>
      rw [recurse_text]
      apply whileLoop_ret
      simp [iter, hp, hdd, isNonEmptyNodes, hany, selP]
    | nodes items =>
      rw [recurse_nodes]
      apply whileLoop_ret
      cases items with
      | nil => simp [iter, hp, hdd, isNonEmptyNodes, hany, selP, selG]
      | cons x xs =>
        have hfl := forLoop_sel st (s :: ss) passed 0 (by decide) (selP sts) (x :: xs) [] [] []
          (by intro t _; simp [cnt, countTag]) (by intro it _ passed'; exact ih it.2.2 passed')
        have e0 : ¬ ((0 : Nat) = 2) := by decide
        simp only [iter, e0, if_false, List.headD_cons, hp, isNonEmptyNodes, if_true, hdd, hany]
        rw [hfl]
        simp [selP]

theorem findallL_simple (root : XVal) (ss : List Str) (sts : List Step)
    (h : AllSimple ss sts) : findallL false root ss = .ok (some (selP sts [] root)) := by
  simp [findallL, simple_path ss sts h root []]

theorem tagTest_simple (st : Step) (h : st.tag ≠ star2) (t : Str) :
    tagTest st t 0 = (t == st.tag || st.tag == star) := by
  simp [tagTest, h]

/-! ### the shape of expressions on which `findfirst` can differ from `findall` (finding C18-d) -/

/-- a `**` step that carries an index or a `text()` condition -/
def isFilteredDeep (a : Str) : Bool :=
  match parseStep a with
  | some st => st.tag == star2 && (st.idx.isSome || st.cond.isSome)
  | none => false

/-- some `**[filter]` step is directly followed by `..` -/
def filteredDeepUp : List Str → Bool
  | a :: b :: rest => (isFilteredDeep a && b == dotdot) || filteredDeepUp (b :: rest)
  | _ => false

/-! ### `find_first=True` against `find_first=False` for expressions without `'..'` -/

def NoUp (sought : List Str) : Prop := ∀ s ∈ sought, s ≠ dotdot

theorem NoUp_drop (sought : List Str) (h : NoUp sought) (n : Nat) : NoUp (sought.drop n) :=
  fun s hs => h s (List.mem_of_mem_drop hs)

/-- the `find_first=False` run returns a list and leaves `first_found` unset; the `True` run
returns a prefix of it — all of it unless `first_found` got set, and then a non-empty one -/
def Sync (rF rT : Res) : Prop :=
  ∀ o, rF = .ok o → ∃ hs, o = ⟨some hs, false⟩ ∧ ∃ hs' ff', rT = .ok ⟨some hs', ff'⟩ ∧
    hs' <+: hs ∧ (ff' = false → hs' = hs) ∧ (ff' = true → hs' ≠ [])

def FnSync (v : XVal) : Prop :=
  ∀ sought passed any, NoUp sought →
    Sync (recurse false v sought passed any false) (recurse true v sought passed any false)

theorem guarded_sync (c : Bool) (rF rT : Res) (found : List Hit) (any : Nat) (h : Sync rF rT)
    (xF : LoopOut ⊕ (List Hit × Bool))
    (hF : guarded c (fun _ => rF) found false any = .ok xF) :
    ∃ f1, xF = .inr (f1, false) ∧ found <+: f1 ∧
      (guarded c (fun _ => rT) found false any = .ok (.inr (f1, false)) ∨
       ∃ f1', guarded c (fun _ => rT) found false any = .ok (.inl (.ret f1' true)) ∧
          f1' <+: f1 ∧ f1' ≠ []) := by
  unfold guarded at hF ⊢
  cases c with
  | false =>
    simp at hF; subst hF
    exact ⟨found, rfl, List.prefix_refl _, Or.inl (by simp)⟩
  | true =>
    simp only [if_true] at hF ⊢
    cases hr : rF with
    | error e => rw [hr] at hF; simp [afterCall] at hF
    | ok o =>
      obtain ⟨hs, ho, hs', ff', hT, hpre, heq, hne⟩ := h o hr
      subst ho
      rw [hr] at hF
      simp [afterCall] at hF
      subst hF
      refine ⟨found ++ hs, rfl, List.prefix_append _ _, ?_⟩
      rw [hT]
      cases ff' with
      | false =>
        left
        have := heq rfl
        subst this
        simp [afterCall]
      | true =>
        right
        refine ⟨found ++ hs', by simp [afterCall], ?_, ?_⟩
        · exact (List.prefix_append_right_inj found).2 hpre
        · have := hne rfl
          simp [this]

theorem forLoop_mono (st : Step) (sought passed : List Str) (any : Nat) (kids : List Kid) :
    ∀ (found : List Hit) (idxs : List (Str × Nat)) (ff : Bool) (f : List Hit) (ff' : Bool),
    forLoop st sought passed any kids found idxs ff = .ok (.ret f ff') → found <+: f := by
  induction kids with
  | nil => intro found idxs ff f ff' h; simp [forLoop] at h; rw [h.1]; exact List.prefix_refl _
  | cons k kids ih =>
    obtain ⟨t, v, fn⟩ := k
    intro found idxs ff f ff' h
    simp only [forLoop] at h
    have hg : ∀ (c : Bool) (r : Unit → Res) (fd : List Hit) (b : Bool) (x : LoopOut ⊕ (List Hit × Bool)),
        guarded c r fd b any = .ok x →
        (∀ f2 b2, x = .inr (f2, b2) → fd <+: f2) ∧ (∀ f2 b2, x = .inl (.ret f2 b2) → fd <+: f2) := by
      intro c r fd b x hx
      unfold guarded at hx
      split at hx
      · unfold afterCall at hx
        split at hx
        · simp at hx
        · simp at hx; subst hx; simp
        · split at hx <;> (simp at hx; subst hx; simp)
      · simp at hx; subst hx; simp
    split at h
    · cases hg1 : guarded (idxOk st.idx (cnt idxs t) && condHolds st.cond v)
          (fun _ => fn (sought.drop 1) (passed ++ [stepName st t (cnt idxs t)]) any ff) found ff any with
      | error e => rw [hg1] at h; simp at h
      | ok x1 =>
        have h1 := hg _ _ _ _ _ hg1
        rw [hg1] at h
        cases x1 with
        | inl o1 => simp at h; subst h; exact h1.2 _ _ rfl
        | inr p1 =>
          obtain ⟨found1, ff1⟩ := p1
          simp only at h
          have hp1 := h1.1 _ _ rfl
          cases hg2 : guarded (any == 1)
              (fun _ => fn sought (passed ++ [stepName st t (cnt idxs t)]) any ff1) found1 ff1 any with
          | error e => rw [hg2] at h; simp at h
          | ok x2 =>
            have h2 := hg _ _ _ _ _ hg2
            rw [hg2] at h
            cases x2 with
            | inl o2 => simp at h; subst h; exact List.IsPrefix.trans hp1 (h2.2 _ _ rfl)
            | inr p2 =>
              obtain ⟨found2, ff2⟩ := p2
              simp only at h
              exact List.IsPrefix.trans hp1 (List.IsPrefix.trans (h2.1 _ _ rfl) (ih _ _ _ _ _ h))
    · exact ih _ _ _ _ _ h

theorem forLoop_sync (st : Step) (sought passed : List Str) (any : Nat) (hs : NoUp sought)
    (post : List Item) :
    ∀ (found : List Hit) (idxs : List (Str × Nat)) (out : LoopOut),
    (∀ it ∈ post, FnSync it.2.2) →
    forLoop st sought passed any (kidFns false post) found idxs false = .ok out →
    ∃ f, out = .ret f false ∧ ∃ f' ff',
      forLoop st sought passed any (kidFns true post) found idxs false = .ok (.ret f' ff') ∧
      f' <+: f ∧ (ff' = false → f' = f) ∧ (ff' = true → f' ≠ []) := by
  induction post with
  | nil =>
    intro found idxs out _ h
    simp [kidFns, forLoop] at h
    subst h
    exact ⟨found, rfl, found, false, by simp [kidFns, forLoop], List.prefix_refl _, fun _ => rfl, by simp⟩
  | cons it post ih =>
    obtain ⟨t, a, v⟩ := it
    intro found idxs out hK h
    have hKv : FnSync v := hK (t, a, v) (by simp)
    have hK' : ∀ it ∈ post, FnSync it.2.2 := fun it hit => hK it (by simp [hit])
    simp only [kidFns, forLoop] at h ⊢
    by_cases htt : tagTest st t any = true
    · simp only [htt, if_true] at h ⊢
      cases hg1 : guarded (idxOk st.idx (cnt idxs t) && condHolds st.cond v)
          (fun _ => recurse false v (sought.drop 1) (passed ++ [stepName st t (cnt idxs t)]) any false)
          found false any with
      | error e => rw [hg1] at h; simp at h
      | ok x1 =>
        obtain ⟨f1, hx1, hp1, hT1⟩ := guarded_sync _ _ _ found any
          (hKv (sought.drop 1) (passed ++ [stepName st t (cnt idxs t)]) any (NoUp_drop _ hs 1)) x1 hg1
        subst hx1
        rw [hg1] at h
        simp only at h
        cases hg2 : guarded (any == 1)
            (fun _ => recurse false v sought (passed ++ [stepName st t (cnt idxs t)]) any false)
            f1 false any with
        | error e => rw [hg2] at h; simp at h
        | ok x2 =>
          obtain ⟨f2, hx2, hp2, hT2⟩ := guarded_sync _ _ _ f1 any
            (hKv sought (passed ++ [stepName st t (cnt idxs t)]) any hs) x2 hg2
          subst hx2
          rw [hg2] at h
          simp only at h
          obtain ⟨f, hout, f', ff', hTrest, hpre, heq, hne⟩ := ih f2 (incr idxs t) out hK' h
          have hmono : f2 <+: f := by
            subst hout
            exact forLoop_mono _ _ _ _ _ _ _ _ _ _ h
          refine ⟨f, hout, ?_⟩
          rcases hT1 with hT1 | ⟨f1', hT1, hp1', hne1⟩
          · rw [hT1]
            simp only
            rcases hT2 with hT2 | ⟨f2', hT2, hp2', hne2⟩
            · rw [hT2]
              simp only
              exact ⟨f', ff', hTrest, hpre, heq, hne⟩
            · rw [hT2]
              exact ⟨f2', true, rfl, List.IsPrefix.trans hp2' hmono, by simp, fun _ => hne2⟩
          · rw [hT1]
            exact ⟨f1', true, rfl, List.IsPrefix.trans hp1' (List.IsPrefix.trans hp2 hmono), by simp,
              fun _ => hne1⟩
    · simp only [htt] at h ⊢
      exact ih found idxs out hK' h

def RetSync (outF : LoopOut) (rT : PyM LoopOut) : Prop :=
  ∃ f, outF = .ret f false ∧ ∃ f' ff', rT = .ok (.ret f' ff') ∧
    f' <+: f ∧ (ff' = false → f' = f) ∧ (ff' = true → f' ≠ [])

theorem iter_sync (v : XVal) (kidsF kidsT : List Kid) (sought passed : List Str) (any : Nat)
    (found : List Hit) (hs : NoUp sought)
    (hk : ∀ items, v = .nodes items →
      kidsF = kidFns false items ∧ kidsT = kidFns true items ∧ ∀ it ∈ items, FnSync it.2.2)
    (out : LoopOut) (h : iter v kidsF sought passed any found false = .ok out) :
    RetSync out (iter v kidsT sought passed any found false) := by
  have hcur : (if any = 2 then star2 else sought.headD []) ≠ dotdot := by
    split
    · decide
    · cases sought with
      | nil => simp [dotdot]
      | cons a rest => simpa using hs a (by simp)
  unfold iter at h ⊢
  simp only [hcur, if_false] at h ⊢
  cases hp : parseStep (if any = 2 then star2 else sought.headD []) with
  | none => rw [hp] at h; simp at h
  | some st =>
    rw [hp] at h
    simp only at h ⊢
    by_cases hne : isNonEmptyNodes v = true
    · simp only [hne, if_true] at h ⊢
      cases v with
      | text t => simp [isNonEmptyNodes] at hne
      | nodes items =>
        obtain ⟨hF, hT, hK⟩ := hk items rfl
        rw [hF] at h
        rw [hT]
        exact forLoop_sync st sought passed _ hs items found [] out hK h
    · simp only [hne] at h ⊢
      simp at h
      subst h
      exact ⟨_, rfl, _, false, rfl, List.prefix_refl _, fun _ => rfl, by simp⟩

theorem finish_sync (v : XVal) (passed : List Str) (found : List Hit) :
    Sync (finish false v passed found false) (finish true v passed found false) := by
  intro o ho
  simp [finish] at ho
  subst ho
  refine ⟨found ++ [(passed, v)], rfl, found ++ [(passed, v)], !passed.isEmpty, by simp [finish],
    List.prefix_refl _, fun _ => rfl, by simp⟩

theorem loopEmpty_sync (v : XVal) (kidsF kidsT : List Kid) (passed : List Str) (any : Nat)
    (found : List Hit)
    (hk : ∀ items, v = .nodes items →
      kidsF = kidFns false items ∧ kidsT = kidFns true items ∧ ∀ it ∈ items, FnSync it.2.2) :
    Sync (loopEmpty false v kidsF passed any found false) (loopEmpty true v kidsT passed any found false) := by
  unfold loopEmpty
  split
  · intro o ho
    cases hi : iter v kidsF [] passed any found false with
    | error e => rw [hi] at ho; simp at ho
    | ok out =>
      obtain ⟨f, hout, f', ff', hT, hpre, heq, hne⟩ :=
        iter_sync v kidsF kidsT [] passed any found (by intro s hs; cases hs) hk out hi
      subst hout
      rw [hi] at ho
      simp at ho
      subst ho
      exact ⟨f, rfl, f', ff', by rw [hT], hpre, heq, hne⟩
  · exact finish_sync v passed found

theorem whileLoop_sync (v : XVal) (kidsF kidsT : List Kid) (passed sought : List Str) (any : Nat)
    (found : List Hit) (hs : NoUp sought)
    (hk : ∀ items, v = .nodes items →
      kidsF = kidFns false items ∧ kidsT = kidFns true items ∧ ∀ it ∈ items, FnSync it.2.2) :
    Sync (whileLoop false v kidsF passed sought any found false)
      (whileLoop true v kidsT passed sought any found false) := by
  cases sought with
  | nil =>
    rw [whileLoop_nil, whileLoop_nil]
    exact loopEmpty_sync v kidsF kidsT passed any found hk
  | cons a rest =>
    intro o ho
    rw [whileLoop] at ho
    cases hi : iter v kidsF (a :: rest) passed any found false with
    | error e => rw [hi] at ho; simp at ho
    | ok out =>
      obtain ⟨f, hout, f', ff', hT, hpre, heq, hne⟩ :=
        iter_sync v kidsF kidsT (a :: rest) passed any found hs hk out hi
      subst hout
      rw [hi] at ho
      simp at ho
      subst ho
      refine ⟨f, rfl, f', ff', ?_, hpre, heq, hne⟩
      rw [whileLoop, hT]

mutual
theorem recurse_sync : ∀ (v : XVal), FnSync v
  | .text t => by
    intro sought passed any hs
    rw [recurse_text, recurse_text]
    exact whileLoop_sync (.text t) [] [] passed sought any [] hs (by intro items hi; cases hi)
  | .nodes items => by
    intro sought passed any hs
    rw [recurse_nodes, recurse_nodes]
    exact whileLoop_sync (.nodes items) _ _ passed sought any [] hs
      (by intro items' hi; cases hi; exact ⟨rfl, rfl, items_sync items⟩)
theorem items_sync : ∀ (items : List Item), ∀ it ∈ items, FnSync it.2.2
  | [], _, hit => by cases hit
  | (t, a, v) :: rest, it, hit => by
    rcases List.mem_cons.1 hit with h | h
    · subst h; exact recurse_sync v
    · exact items_sync rest it h
end

/-- without `'..'`: the `find_first=True` run returns a prefix of the `False` run's list, with
the same first element, and `findall` (`False`) never returns `None` -/
theorem findfirst_noUp (root : XVal) (sought : List Str) (hs : NoUp sought)
    (r : Option (List Hit)) (h : findallL false root sought = .ok r) :
    findfirstL root sought = .ok (firstOf r) ∧
    containsL root sought = .ok (firstOf r).isSome ∧
    ∃ l l', r = some l ∧ findallL true root sought = .ok (some l') ∧ l' <+: l := by
  unfold findallL at h
  cases hr : recurse false root sought [] 0 false with
  | error e => rw [hr] at h; simp at h
  | ok o =>
    rw [hr] at h
    simp at h
    obtain ⟨hs0, ho, hs', ff', hT, hpre, heq, hne⟩ := recurse_sync root sought [] 0 hs o hr
    subst ho
    simp at h
    subst h
    have hfa : findallL true root sought = .ok (some hs') := by simp [findallL, hT]
    have hfirst : firstOf (some hs') = firstOf (some hs0) := by
      cases ff' with
      | false => rw [heq rfl]
      | true =>
        have hn := hne rfl
        obtain ⟨tl, htl⟩ := hpre
        cases hs' with
        | nil => exact absurd rfl hn
        | cons x xs => subst htl; simp [firstOf]
    refine ⟨?_, ?_, hs0, hs', rfl, hfa, hpre⟩
    · simp [findfirstL, hfa, hfirst]
    · simp [containsL, hfa, hfirst]

end N0.NXml
