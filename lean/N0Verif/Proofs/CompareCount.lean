import N0Verif.Proofs.Compare
/-!
One prose line per structured entry (`differences` has exactly as many lines as there are
not-equal, unique and type-clash entries) — for every option record and both entry points.
-/
namespace N0.Compare
open N0

/-- a result whose line count equals its entry count -/
def Res.Balanced (r : Res) : Prop := r.diffs = r.count

theorem balanced_append {a b : Res} (ha : a.Balanced) (hb : b.Balanced) : (a ++ b).Balanced := by
  simp only [Res.Balanced, append_diffs, append_count] at *
  omega

theorem balanced_empty : Res.empty.Balanced := rfl

def ActBalanced : Act → Prop
  | .emit r _ => r.Balanced
  | .descend => True

theorem classifyItem_balanced (cfg : Cfg) (p pne pdt : Path) (sa oa x y : Val) :
    ActBalanced (classifyItem cfg p pne pdt sa oa x y) := by
  unfold classifyItem
  simp only
  split
  · split
    · split
      · simp [ActBalanced, Res.Balanced, Res.count]
      · split <;> simp [ActBalanced, Res.Balanced, Res.count, Res.empty]
    · trivial
  · split <;> simp [ActBalanced, Res.Balanced, Res.count]

theorem classifyEntry_balanced (cfg : Cfg) (full : Path) (x y : Val) :
    ActBalanced (classifyEntry cfg full x y) := by
  unfold classifyEntry
  split
  · simp [ActBalanced, Res.Balanced, Res.count, Res.empty]
  · simp only
    split
    · split
      · split <;> simp [ActBalanced, Res.Balanced, Res.count, Res.empty]
      · trivial
    · split
      · split <;> simp [ActBalanced, Res.Balanced, Res.count]
      · simp [ActBalanced, Res.Balanced, Res.count, Res.empty]

theorem dictTail_balanced (cfg : Cfg) (p : Path) (sa oa : Val) (skvs okvs : List (Str × Val)) (still : Bool) :
    (dictTail cfg p sa oa skvs okvs still).Balanced := by
  simp [dictTail, Res.Balanced, Res.count]

theorem keyedTail_balanced (p : Path) (sr orr : List KE) : (keyedTail p sr orr).Balanced := by
  simp [keyedTail, Res.Balanced, Res.count]

mutual
theorem sub_balanced (cfg : Cfg) (site : Site) (p : Path) (v w : Val) (r : Res)
    (h : sub cfg site p v w = .ok r) : r.Balanced :=
  match v, w, h with
  | .list c xs, w, h => by
    cases w with
    | list c' ys =>
      simp only [sub] at h
      split at h
      · cases h
      · split at h
        · cases h
        · split at h
          · cases h; exact balanced_empty
          · split at h
            · exact directWalk_balanced cfg p _ _ 0 xs ys r h
            · split at h
              · cases h
              · split at h
                · cases h
                · exact keyedWalk_balanced cfg p _ _ 0 xs _ _ _ r h
    | _ => simp [sub] at h
  | .dict c kvs, w, h => by
    cases w with
    | dict c' kvs' =>
      simp only [sub] at h
      split at h
      · cases h
      · exact dictWalk_balanced cfg p _ _ kvs kvs' true kvs r h
    | _ => simp [sub] at h
  | .none, _, h => by simp [sub] at h; subst h; exact balanced_empty
  | .bool _, _, h => by simp [sub] at h
  | .int _, _, h => by simp [sub] at h
  | .flt _, _, h => by simp [sub] at h
  | .str _, _, h => by simp [sub] at h
termination_by structural v

theorem dictWalk_balanced (cfg : Cfg) (p : Path) (sa oa : Val) (skvs okvs : List (Str × Val))
    (still : Bool) (kvs : List (Str × Val)) (r : Res)
    (h : dictWalk cfg p sa oa skvs okvs still kvs = .ok r) : r.Balanced :=
  match kvs, still, h with
  | [], still, h => by
    simp only [dictWalk] at h
    cases h; exact dictTail_balanced ..
  | (k, v) :: rest, still, h => by
    simp only [dictWalk] at h
    cases hl : Val.lookup k okvs with
    | none =>
      rw [hl] at h
      exact dictWalk_balanced cfg p sa oa skvs okvs still rest r h
    | some w =>
      rw [hl] at h
      simp only at h
      have hcb := classifyEntry_balanced cfg (p ++ [.key k]) v w
      cases hcl : classifyEntry cfg (p ++ [.key k]) v w with
      | emit r0 s =>
        rw [hcl] at h hcb
        simp only at h
        cases hr : dictWalk cfg p sa oa skvs okvs (still && s) rest with
        | error e => rw [hr] at h; cases h
        | ok r' =>
          rw [hr] at h; cases h
          exact balanced_append hcb (dictWalk_balanced cfg p sa oa skvs okvs (still && s) rest r' hr)
      | descend =>
        rw [hcl] at h
        simp only at h
        cases hs : sub cfg .entry (p ++ [.key k]) v w with
        | error e => rw [hs] at h; cases h
        | ok r1 =>
          rw [hs] at h
          simp only at h
          cases hr : dictWalk cfg p sa oa skvs okvs still rest with
          | error e => rw [hr] at h; cases h
          | ok r' =>
            rw [hr] at h; cases h
            exact balanced_append (sub_balanced cfg .entry _ v w r1 hs)
              (dictWalk_balanced cfg p sa oa skvs okvs still rest r' hr)
termination_by structural kvs

theorem directWalk_balanced (cfg : Cfg) (p : Path) (sa oa : Val) (i : Nat) (xs ys : List Val) (r : Res)
    (h : directWalk cfg p sa oa i xs ys = .ok r) : r.Balanced :=
  match xs, ys, i, h with
  | [], ys, i, h => by
    simp only [directWalk] at h
    cases h
    simp [Res.Balanced, Res.count]
  | x :: xs, [], i, h => by
    simp only [directWalk] at h
    cases hr : directWalk cfg p sa oa (i + 1) xs [] with
    | error e => rw [hr] at h; cases h
    | ok r' =>
      rw [hr] at h; cases h
      exact balanced_append (by simp [Res.Balanced, Res.count]) (directWalk_balanced cfg p sa oa (i + 1) xs [] r' hr)
  | x :: xs, y :: ys, i, h => by
    simp only [directWalk] at h
    have hcb := classifyItem_balanced cfg p (p ++ [.idx i]) (p ++ [.idx i]) sa oa x y
    cases hcl : classifyItem cfg p (p ++ [.idx i]) (p ++ [.idx i]) sa oa x y with
    | emit r0 s =>
      rw [hcl] at h hcb
      simp only at h
      cases hr : directWalk cfg p sa oa (i + 1) xs ys with
      | error e => rw [hr] at h; cases h
      | ok r' =>
        rw [hr] at h; cases h
        exact balanced_append hcb (directWalk_balanced cfg p sa oa (i + 1) xs ys r' hr)
    | descend =>
      rw [hcl] at h
      simp only at h
      cases hs : sub cfg .item (p ++ [.idx i]) x y with
      | error e => rw [hs] at h; cases h
      | ok r1 =>
        rw [hs] at h
        simp only at h
        cases hr : directWalk cfg p sa oa (i + 1) xs ys with
        | error e => rw [hr] at h; cases h
        | ok r' =>
          rw [hr] at h; cases h
          exact balanced_append (sub_balanced cfg .item _ x y r1 hs)
            (directWalk_balanced cfg p sa oa (i + 1) xs ys r' hr)
termination_by structural xs

theorem keyedWalk_balanced (cfg : Cfg) (p : Path) (sa oa : Val) (i : Nat) (xs : List Val) (ks : List Str)
    (sr orr : List KE) (r : Res)
    (h : keyedWalk cfg p sa oa i xs ks sr orr = .ok r) : r.Balanced :=
  match xs, ks, sr, orr, i, h with
  | [], _, sr, orr, i, h => by
    simp only [keyedWalk] at h
    cases h; exact keyedTail_balanced ..
  | _ :: _, [], _, _, i, h => by simp [keyedWalk] at h
  | x :: xs, k :: ks, sr, orr, i, h => by
    simp only [keyedWalk] at h
    cases hf : findKey k orr with
    | none =>
      rw [hf] at h
      exact keyedWalk_balanced cfg p sa oa (i + 1) xs ks sr orr r h
    | some jy =>
      obtain ⟨j, y⟩ := jy
      rw [hf] at h
      simp only at h
      have hcb := classifyItem_balanced cfg p (p ++ [if i = j then PSeg.idx i else PSeg.idx2 i j]) (p ++ [if i = j then PSeg.idx i else PSeg.idx2 i j]) sa oa x y
      cases hcl : classifyItem cfg p (p ++ [if i = j then PSeg.idx i else PSeg.idx2 i j]) (p ++ [if i = j then PSeg.idx i else PSeg.idx2 i j]) sa oa x y with
      | emit r0 s =>
        rw [hcl] at h hcb
        simp only at h
        cases hr : keyedWalk cfg p sa oa (i + 1) xs ks (eraseKey k sr) (eraseKey k orr) with
        | error e => rw [hr] at h; cases h
        | ok r' =>
          rw [hr] at h; cases h
          exact balanced_append hcb (keyedWalk_balanced cfg p sa oa (i + 1) xs ks _ _ r' hr)
      | descend =>
        rw [hcl] at h
        simp only at h
        cases hs : sub cfg .item (p ++ [if i = j then PSeg.idx i else PSeg.idx2 i j]) x y with
        | error e => rw [hs] at h; cases h
        | ok r1 =>
          rw [hs] at h
          simp only at h
          cases hr : keyedWalk cfg p sa oa (i + 1) xs ks (eraseKey k sr) (eraseKey k orr) with
          | error e => rw [hr] at h; cases h
          | ok r' =>
            rw [hr] at h; cases h
            exact balanced_append (sub_balanced cfg .item _ x y r1 hs)
              (keyedWalk_balanced cfg p sa oa (i + 1) xs ks _ _ r' hr)
termination_by structural xs
end

theorem compareTop_balanced (cfg : Cfg) (a b : Val) (r : Res) (h : compareTop cfg a b = .ok r) :
    r.diffs = r.count := by
  unfold compareTop at h
  split at h
  · split at h
    · exact dictWalk_balanced cfg [] _ _ _ _ true _ r h
    · cases h
  · split at h
    · exact sub_balanced cfg .entry [] _ _ r h
    · cases h
  · cases h

end N0.Compare
