import N0Verif.Model.Compare
import N0Verif.Gen.XPathMatch
/-!
  The definitions that `harness/translate_py_cmp.py` regenerates from the Python source of `xpath_match`
  (`Gen/XPathMatch.lean`) are equal to the hand-written model (`Compare.xpathMatch`, `Compare.xpathMatchFrom`,
  `Compare.matchOne` of `Model/Compare.lean`) for every path text and every `PatArg`.

  The proofs are written against *characterisations* of the generated pieces — what one iteration of the inner loop
  returns (`innerView`), what one iteration of the outer loop returns (`outerView`) — that are established by
  unfolding and case analysis, not by following the syntactic shape of the generated text; the two folds are lifted
  from these characterisations for ANY step function that satisfies them.  What the proofs depend on: the order of
  the parameters of the generated steps (captured names first, in the order `xpath_parts`, `i`), and that the
  inner loop is `<Fn>.step`, the outer one `<Fn>.step2`.
-/
set_option linter.unusedSimpArgs false
set_option linter.unusedVariables false
namespace N0.XPathMatchGenEq
open N0 N0.Py N0.Compare N0.Gen.XPathMatch

/-! ### `s.split("/")` is the model's `splitChar '/'` -/

theorem xmgen_startsWith_nil (s : Str) : startsWith s [] = true := by cases s <;> rfl

theorem xmgen_startsWith_single (f : Str) (q : Char) : startsWith f [q] = (f.head? == some q) := by
  cases f with
  | nil => rfl
  | cons c f => simp [startsWith, xmgen_startsWith_nil]

theorem xmgen_splitChar_ne_nil (d : Char) (s : Str) : splitChar d s ≠ [] := by
  induction s with
  | nil => simp [splitChar]
  | cons c s ih =>
    simp only [splitChar]
    split
    · simp
    · split <;> simp

/-- the first piece of a split continues the text collected so far -/
def consHead (p : Str) : List Str → List Str
  | [] => [p]
  | h :: t => (p ++ h) :: t

theorem xmgen_consHead_nil (l : List Str) (h : l ≠ []) : consHead [] l = l := by
  cases l with
  | nil => exact absurd rfl h
  | cons a t => rfl

theorem xmgen_splitAux_single (d : Char) (s : Str) :
    ∀ (fuel : Nat) (cur : Str), s.length < fuel →
      splitAux [d] 1 fuel cur s = consHead cur.reverse (splitChar d s) := by
  induction s with
  | nil =>
    intro fuel cur h
    cases fuel with
    | zero => simp at h
    | succ k => simp [splitAux, splitChar, consHead]
  | cons c s ih =>
    intro fuel cur h
    cases fuel with
    | zero => simp at h
    | succ k =>
      have hk : s.length < k := by simpa using h
      simp only [splitAux, xmgen_startsWith_single, List.head?_cons, splitChar]
      by_cases hc : c = d
      · subst hc
        simp only [beq_self_eq_true, if_true, List.drop_succ_cons, List.drop_zero]
        rw [ih k [] hk, List.reverse_nil, xmgen_consHead_nil _ (xmgen_splitChar_ne_nil c s)]
        simp [consHead]
      · have : (some c == some d) = false := by simp [hc]
        simp only [this, if_neg hc]
        rw [if_neg (by simp), ih k (c :: cur) hk]
        cases splitChar d s with
        | nil => simp [consHead]
        | cons a t => simp [consHead]

/-- `s.split(d)` for a one-character `d` is the model's `splitChar` -/
theorem xmgen_split_single (d : Char) (s : Str) : Py.split [d] s = splitChar d s := by
  unfold Py.split
  rw [show ([d] : Str).length = 1 from rfl, xmgen_splitAux_single d s _ [] (Nat.lt_succ_self _)]
  exact xmgen_consHead_nil _ (xmgen_splitChar_ne_nil d s)

/-! ### `xs[-1 - k]` is the `k`-th item of the reversed list -/

theorem xmgen_idxE_rev {α : Type} (xs : List α) (k : Nat) :
    idxE xs (-(1 : Int) - (k : Int)) =
      (match xs.reverse[k]? with | some v => .ok v | none => .error .IndexError) := by
  unfold idxE
  simp only [Int.ofNat_eq_natCast]
  have hneg : (-(1 : Int) - (k : Int)) < 0 := by omega
  simp only [hneg, if_true]
  by_cases hk : k < xs.length
  · have h1 : ¬ (-(1 : Int) - (k : Int) + (xs.length : Int) < 0) := by omega
    have h2 : (-(1 : Int) - (k : Int) + (xs.length : Int)).toNat = xs.length - 1 - k := by omega
    simp only [h1, if_false, h2, List.getElem?_reverse hk]
    cases xs[xs.length - 1 - k]? <;> rfl
  · have h1 : (-(1 : Int) - (k : Int) + (xs.length : Int) < 0) := by omega
    have h3 : xs.reverse[k]? = none := by simp; omega
    simp only [h1, if_true, h3]

/-- inside the range, every spelling of "the `k`-th item from the end" (`xs[-1 - k]`, `xs[-(k + 1)]`,
`xs[len(xs) - 1 - k]`, …) reads the `k`-th item of the reversed list -/
theorem xmgen_idxE_rev_in {α : Type} (xs : List α) (k : Nat) (hk : k < xs.reverse.length) (i : Int)
    (hi : i = -(1 : Int) - (k : Int) ∨ i = (xs.length : Int) - 1 - (k : Int)) :
    idxE xs i = .ok xs.reverse[k] := by
  have hk' : k < xs.length := by simpa using hk
  have e : idxE xs i = idxE xs (-(1 : Int) - (k : Int)) := by
    rcases hi with hi | hi
    · rw [hi]
    · subst hi
      unfold idxE
      simp only [Int.ofNat_eq_natCast]
      have a1 : ¬ ((xs.length : Int) - 1 - (k : Int) < 0) := by omega
      have a2 : (-(1 : Int) - (k : Int)) < 0 := by omega
      have a3 : ¬ (-(1 : Int) - (k : Int) + (xs.length : Int) < 0) := by omega
      have a4 : ((xs.length : Int) - 1 - (k : Int)).toNat = (-(1 : Int) - (k : Int) + (xs.length : Int)).toNat := by omega
      simp only [a1, a2, a3, if_false, if_true, a4]
  rw [e, xmgen_idxE_rev, List.getElem?_eq_getElem hk]

/-! ### the inner loop (`for j, part in enumerate(reversed(xpath_itm_parts))`) -/

/-- how one iteration of the inner loop ends: `p` = pattern part, `k` = its position from the end, `xs` = parts of the
path, `i` = position of the pattern.  `.exit (.inl n)` = `return n`, `.exit (.inr ())` = `break`, `.next ()` = go on -/
def innerView (xs : List Str) (i : Int) (p : Str) (k : Nat) : Ctl (Int ⊕ Unit) Unit :=
  if p.isEmpty then .exit (.inl (i + 1))
  else match xs.reverse[k]? with
    | none => .exit (.inr ())
    | some x => if p ≠ ['*'] ∧ Py.lower p ≠ Py.lower x then .exit (.inr ()) else .next ()

/-- the whole inner loop over the reversed pattern parts `ps` against the remaining reversed path parts `ys` -/
def innerRes (i : Int) : List Str → List Str → Ctl (Int ⊕ Unit) Unit
  | [], _ => .next ()
  | p :: ps, ys =>
    if p.isEmpty then .exit (.inl (i + 1))
    else match ys with
      | [] => .exit (.inr ())
      | y :: ys' => if p ≠ ['*'] ∧ Py.lower p ≠ Py.lower y then .exit (.inr ()) else innerRes i ps ys'

/-- a loop whose iterations end as `innerView` says ends as `innerRes` says (any step function) -/
theorem xmgen_inner_fold (xs : List Str) (i : Int)
    (f : Unit → Str × Nat → Except PyErr (Ctl (Int ⊕ Unit) Unit))
    (hf : ∀ p k, f () (p, k) = .ok (innerView xs i p k)) :
    ∀ (ps : List Str) (k : Nat), foldC f () (List.zipIdx ps k) = .ok (innerRes i ps (xs.reverse.drop k)) := by
  intro ps
  induction ps with
  | nil => intro k; simp [foldC, innerRes]
  | cons p ps ih =>
    intro k
    simp only [List.zipIdx_cons, foldC, hf, innerView, innerRes]
    by_cases hp : p.isEmpty = true
    · simp [hp]
    · simp only [hp, if_false, Bool.false_eq_true]
      by_cases hk : k < xs.reverse.length
      · rw [List.getElem?_eq_getElem hk, List.drop_eq_getElem_cons hk]
        simp only
        by_cases hc : p ≠ ['*'] ∧ Py.lower p ≠ Py.lower xs.reverse[k]
        · rw [if_pos hc, if_pos hc]
        · rw [if_neg hc, if_neg hc]
          exact ih (k + 1)
      · have h1 : xs.reverse[k]? = none := List.getElem?_eq_none (by omega)
        have h2 : xs.reverse.drop k = [] := List.drop_eq_nil_of_le (by omega)
        simp [h1, h2]

/-- the inner loop ends with `break` exactly when the model's `matchParts` says "no match"; otherwise it ends with
`return i + 1` (an empty part) or runs to its `else:` -/
theorem xmgen_innerRes_match (i : Int) : ∀ (ps ys : List Str),
    (matchParts ps ys = true → innerRes i ps ys = .next () ∨ innerRes i ps ys = .exit (.inl (i + 1))) ∧
      (matchParts ps ys = false → innerRes i ps ys = .exit (.inr ()))
  | [], ys => by simp [matchParts, innerRes]
  | p :: ps, ys => by
    by_cases hp : p.isEmpty = true
    · simp [matchParts, innerRes, hp]
    · cases ys with
      | nil => simp [matchParts, innerRes, hp]
      | cons y ys' =>
        have ih := xmgen_innerRes_match i ps ys'
        simp only [matchParts, innerRes, hp, if_false, Bool.false_eq_true]
        split
        · simp
        · exact ih

/-! ### the outer loop (`for i, xpath_itm in enumerate(xpath_list)`) -/

/-- how one iteration of the outer loop ends: `return i + 1` when the pattern matches, next pattern otherwise -/
def outerView (xs : List Str) (pat : Str) (i : Nat) : Ctl Int Unit :=
  if matchParts (splitChar '/' pat).reverse xs.reverse then .exit (Int.ofNat i + 1) else .next ()

/-- what the outer step does with the result of the inner loop, for ANY inner result (the three arms) -/
theorem xmgen_outer_of_inner (xs : List Str) (pat : Str) (i : Nat) (r : Ctl (Int ⊕ Unit) Unit)
    (hr : r = innerRes (Int.ofNat i) (splitChar '/' pat).reverse xs.reverse) :
    (match (.ok r : Except PyErr (Ctl (Int ⊕ Unit) Unit)) with
      | .error e => (.error e : Except PyErr (Ctl Int Unit))
      | .ok (.exit (.inl v)) => .ok (.exit v)
      | .ok (.exit (.inr _)) => .ok (.next ())
      | .ok (.next _) => .ok (.exit (Int.ofNat i + 1))) = .ok (outerView xs pat i) := by
  have h := xmgen_innerRes_match (Int.ofNat i) (splitChar '/' pat).reverse xs.reverse
  unfold outerView
  cases hm : matchParts (splitChar '/' pat).reverse xs.reverse with
  | true =>
    rcases h.1 hm with h1 | h1 <;> (rw [hr, h1]; simp)
  | false =>
    rw [hr, h.2 hm]; simp

/-- a loop whose iterations end as `outerView` says returns what the model's `xpathMatchFrom` returns -/
theorem xmgen_outer_fold (x : Str)
    (f : Unit → Str × Nat → Except PyErr (Ctl Int Unit))
    (hf : ∀ pat i, f () (pat, i) = .ok (outerView (splitChar '/' x) pat i)) :
    ∀ (pats : List Str) (i : Nat), foldC f () (List.zipIdx pats i) =
      .ok (match xpathMatchFrom x i pats with | 0 => .next () | n + 1 => .exit (Int.ofNat (n + 1))) := by
  intro pats
  induction pats with
  | nil => intro i; simp [foldC, xpathMatchFrom]
  | cons p ps ih =>
    intro i
    have hv : ∀ i, outerView (splitChar '/' x) p i =
        if matchOne x p = true then .exit (Int.ofNat i + 1) else .next () := fun _ => rfl
    simp only [List.zipIdx_cons, foldC, hf, hv, xpathMatchFrom]
    by_cases hm : matchOne x p = true
    · rw [if_pos hm, if_pos hm]
      simp only [Int.ofNat_eq_natCast]
      congr 2
    · rw [if_neg hm, if_neg hm]
      exact ih (i + 1)

/-! ### the generated steps satisfy the characterisations -/

/-- unfold a generated inner step and decide its tests (`j >= len(xs)` in any of its four spellings, emptiness in
any spelling, `"*"`, the two `lower()`s, the index expression in any of the spellings of `xmgen_idxE_rev_in`) -/
macro "xmgen_inner_step_tac" stepName:ident xs:ident : tactic =>
  `(tactic| (
    intro p k
    unfold $stepName innerView
    simp only [Int.ofNat_eq_natCast]
    by_cases hp : p.isEmpty = true
    · have hp' : p = [] := List.isEmpty_iff.mp hp
      subst hp'
      simp
    · have hp1 : p ≠ [] := fun h => hp (List.isEmpty_iff.mpr h)
      have hp2 : ¬ ((p.length : Int) = 0) := by
        have : p.length ≠ 0 := fun h => hp1 (List.eq_nil_of_length_eq_zero h)
        omega
      have hp3 : (p == []) = false := by cases p with | nil => exact absurd rfl hp1 | cons _ _ => rfl
      by_cases hk : k < ($xs).length
      · have hk' : k < ($xs).reverse.length := by simpa using hk
        have hge : ¬ ((k : Int) ≥ ($xs).length) := by omega
        have hle : ¬ ((($xs).length : Int) ≤ k) := by omega
        have hgt : ((($xs).length : Int) > k) := by omega
        have hlt : ((k : Int) < ($xs).length) := by omega
        have hidx := xmgen_idxE_rev_in $xs k hk'
        rw [List.getElem?_eq_getElem hk']
        by_cases hs : p = ['*'] <;> by_cases hl : Py.lower p = Py.lower ($xs).reverse[k] <;>
          simp (disch := omega) only [hp, hp1, hp2, hp3, hge, hle, hgt, hlt, hs, hl, hidx, Bool.not_not, Bool.false_eq_true, if_false,
            if_true, decide_false, decide_true, bne_self_eq_false, ne_eq, not_true_eq_false, not_false_eq_true, and_self,
            and_false, false_and, and_true, true_and, bne_iff_ne, Bool.not_true, Bool.not_false,
            Bool.and_true, Bool.true_and, Bool.and_false, Bool.false_and, Bool.or_true, Bool.true_or,
            Bool.or_false, Bool.false_or, Bool.and_eq_true, Bool.or_eq_true, beq_iff_eq, decide_eq_true_eq,
            decide_not, bne_eq_false_iff_eq, beq_eq_false_iff_ne, reduceCtorEq, List.cons_ne_nil] <;> rfl
      · have h1 : ($xs).reverse[k]? = none := List.getElem?_eq_none (by simpa using Nat.le_of_not_lt hk)
        have hge : ((k : Int) ≥ ($xs).length) := by omega
        have hle : ((($xs).length : Int) ≤ k) := by omega
        have hgt : ¬ ((($xs).length : Int) > k) := by omega
        have hlt : ¬ ((k : Int) < ($xs).length) := by omega
        simp only [hp, hp1, hp2, hp3, h1, hge, hle, hgt, hlt, Bool.not_not, Bool.false_eq_true, if_false, if_true,
          decide_false, decide_true, Bool.not_true, Bool.not_false, ne_eq, not_false_eq_true, not_true_eq_false,
          decide_not, beq_iff_eq]))

theorem xmgen_stepSeq (xs : List Str) (i : Int) :
    ∀ p k, XpathMatchSeq.step xs i () (p, k) = .ok (innerView xs i p k) := by
  xmgen_inner_step_tac XpathMatchSeq.step xs

theorem xmgen_stepStr (xs : List Str) (i : Int) :
    ∀ p k, XpathMatchStr.step xs i () (p, k) = .ok (innerView xs i p k) := by
  xmgen_inner_step_tac XpathMatchStr.step xs

theorem xmgen_step2Seq (xs : List Str) (pat : Str) (i : Nat) :
    XpathMatchSeq.step2 xs () (pat, i) = .ok (outerView xs pat i) := by
  unfold XpathMatchSeq.step2
  simp only [xmgen_split_single]
  have h := xmgen_inner_fold xs (Int.ofNat i) _ (xmgen_stepSeq xs (Int.ofNat i)) (splitChar '/' pat).reverse 0
  rw [List.drop_zero] at h
  rw [h]
  exact xmgen_outer_of_inner xs pat i _ rfl

theorem xmgen_step2Str (xs : List Str) (pat : Str) (i : Nat) :
    XpathMatchStr.step2 xs () (pat, i) = .ok (outerView xs pat i) := by
  unfold XpathMatchStr.step2
  simp only [xmgen_split_single]
  have h := xmgen_inner_fold xs (Int.ofNat i) _ (xmgen_stepStr xs (Int.ofNat i)) (splitChar '/' pat).reverse 0
  rw [List.drop_zero] at h
  rw [h]
  exact xmgen_outer_of_inner xs pat i _ rfl

/-! ### the functions -/

theorem xmgen_fromRes (n : Nat) :
    (match (.ok (match n with | 0 => Ctl.next () | m + 1 => Ctl.exit (Int.ofNat (m + 1))) : Except PyErr (Ctl Int Unit)) with
      | .error e => (.error e : Except PyErr Int)
      | .ok (.exit r) => .ok r
      | .ok (.next _) => .ok (0 : Int)) = .ok (Int.ofNat n) := by
  cases n <;> rfl

/-- the list / tuple form: the translated function returns what `xpathMatchFrom … 0` returns -/
theorem xmgen_seq_eq (x : Str) (l : List Str) :
    xpathMatchSeq x l = .ok (Int.ofNat (xpathMatchFrom x 0 l)) := by
  unfold xpathMatchSeq
  simp only [xmgen_split_single]
  rw [xmgen_outer_fold x _ (fun pat i => xmgen_step2Seq (splitChar '/' x) pat i) l 0]
  exact xmgen_fromRes _

/-- the `str` form: the one-element list -/
theorem xmgen_str_eq (x s : Str) :
    xpathMatchStr x s = .ok (Int.ofNat (xpathMatchFrom x 0 [s])) := by
  unfold xpathMatchStr
  simp only [xmgen_split_single]
  rw [xmgen_outer_fold x _ (fun pat i => xmgen_step2Str (splitChar '/' x) pat i) [s] 0]
  exact xmgen_fromRes _

/-- **the translated `xpath_match` is the model's `xpathMatch`**, for every path text and every argument -/
theorem xmgen_xpathMatch_eq (x : Str) (a : PatArg) :
    Gen.XPathMatch.xpathMatch x a = .ok (Int.ofNat (Compare.xpathMatch x a)) := by
  cases a with
  | one s => exact xmgen_str_eq x s
  | many l => exact xmgen_seq_eq x l

end N0.XPathMatchGenEq
