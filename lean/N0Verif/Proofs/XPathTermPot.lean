import N0Verif.Proofs.XPathTermPlain
/-!
  C04, termination of the resolver — part 3: the **fuel bound** `termPot`.

  `termPot H W toks h g` bounds the recursion depth of `n0dict._find` on the token list `toks`, standing
  on a value of height `h`, with a `found` text of `g` pieces, in a tree of height `≤ H` whose
  containers have `≤ W` children.  It is computed from the tokens alone (their parse by
  `split_name_index`), by recursion on the token list:

  * `termNil`: no token left — one re-resolution of `found` (`termR`);
  * `termZ` (a token without a name: `[*]`, `[i]`, `[cond]`, `[text()…]`): the `[*]` loop, or a pure
    index step, or a condition — which on a list fans out one level lower (recursion on the
    height) and on a dict continues one level lower with `[text()…]`, `..` in front;
  * `termN` (a name token, `*` included): on a list the implicit fan-out, on a dict the `*` loop —
    both one level lower with the same token — or the step into the key;
  * `termU0`/`termU` (`..` without/with an index): the re-resolution of the shortened `found`
    text, then the rest from a node of any height, with `found` grown by at most `2·H` pieces.
-/
namespace N0.XPath
open N0 N0.Py N0.Val

def TermMono (C : TermPotF) : Prop := ∀ h h' g g', h ≤ h' → g ≤ g' → C h g ≤ C h' g'

/-! ### monotonicity -/

theorem termR_mono (H W : Nat) {g g' : Nat} (h : g ≤ g') : termR H W g ≤ termR H W g' := by
  unfold termR; omega

theorem termNil_mono (H W : Nat) : TermMono (termNil H W) := by
  intro h h' g g' _ hg
  have := termR_mono H W hg
  simp only [termNil]; omega

theorem termU0_mono (H W : Nat) {C : TermPotF} (hC : TermMono C) : TermMono (termU0 H W C) := by
  intro h h' g g' _ hg
  have h1 := termR_mono H W hg
  have h2 := hC (H + 1) (H + 1) (g + 2 * H) (g' + 2 * H) (Nat.le_refl _) (by omega)
  simp only [termU0]; omega

theorem termZ_mono_g (H W : Nat) : ∀ (h : Nat) (C : TermPotF), TermMono C → ∀ g g', g ≤ g' → termZ H W h C g ≤ termZ H W h C g'
  | 0, C, hC, g, g', hg => by
    have := hC 0 0 (g + 1) (g' + 1) (Nat.le_refl _) (by omega)
    have hR := termR_mono H W hg
    simp only [termZ]; omega
  | h + 1, C, hC, g, g', hg => by
    have hR := termR_mono H W hg
    have h1 := hC (h + 1) (h + 1) (g + 1) (g' + 1) (Nat.le_refl _) (by omega)
    have h2 := termZ_mono_g H W h C hC (g + 1) (g' + 1) (by omega)
    have h3 := termZ_mono_g H W h (termU0 H W C) (termU0_mono H W hC) (g + 1) (g' + 1) (by omega)
    simp only [termZ]; omega

theorem termZ_succ (H W : Nat) (h : Nat) (C : TermPotF) (hC : TermMono C) (g : Nat) : termZ H W h C g ≤ termZ H W (h + 1) C g := by
  have := termZ_mono_g H W h C hC g (g + 1) (by omega)
  simp only [termZ]; omega

theorem termZ_mono_h (H W : Nat) (C : TermPotF) (hC : TermMono C) (g : Nat) : ∀ {h h' : Nat}, h ≤ h' → termZ H W h C g ≤ termZ H W h' C g := by
  intro h h' hh
  induction hh with
  | refl => exact Nat.le_refl _
  | step _ ih => exact Nat.le_trans ih (termZ_succ H W _ C hC g)

theorem termZ_mono (H W : Nat) {C : TermPotF} (hC : TermMono C) : TermMono (fun h g => termZ H W h C g) := by
  intro h h' g g' hh hg
  exact Nat.le_trans (termZ_mono_g H W h C hC g g' hg) (termZ_mono_h H W C hC g' hh)

/-- the three ways a nameless token proceeds -/
theorem termZ_b1 (H W : Nat) (h : Nat) (C : TermPotF) (g : Nat) : (W + 4) + C h (g + 1) ≤ termZ H W h C g := by
  cases h <;> simp only [termZ] <;> omega

/-- a `[new()]` step: one re-resolution of `found` -/
theorem termZ_R (H W : Nat) (h : Nat) (C : TermPotF) (g : Nat) : termR H W g + 1 ≤ termZ H W h C g := by
  cases h <;> simp only [termZ] <;> omega

theorem termZ_b2 (H W : Nat) {h : Nat} (hh : 1 ≤ h) (C : TermPotF) (g : Nat) :
    (W + 4) + termZ H W (h - 1) C (g + 1) ≤ termZ H W h C g := by
  obtain ⟨h', rfl⟩ : ∃ h', h = h' + 1 := ⟨h - 1, by omega⟩
  simp only [termZ, Nat.add_sub_cancel]; omega

theorem termZ_b3 (H W : Nat) {h : Nat} (hh : 1 ≤ h) (C : TermPotF) (g : Nat) :
    1 + termZ H W (h - 1) (termU0 H W C) (g + 1) ≤ termZ H W h C g := by
  obtain ⟨h', rfl⟩ : ∃ h', h = h' + 1 := ⟨h - 1, by omega⟩
  simp only [termZ, Nat.add_sub_cancel]; omega

theorem termZ_ge (H W : Nat) (h : Nat) {C : TermPotF} (hC : TermMono C) (g : Nat) : C h g + 1 ≤ termZ H W h C g := by
  have h1 := termZ_b1 H W h C g
  have h2 := hC h h g (g + 1) (Nat.le_refl _) (by omega)
  omega

theorem termN_mono_g (H W : Nat) : ∀ (h : Nat) (C : TermPotF), TermMono C → ∀ g g', g ≤ g' → termN H W h C g ≤ termN H W h C g'
  | 0, C, hC, g, g', hg => by simp [termN]
  | h + 1, C, hC, g, g', hg => by
    have h2 := termN_mono_g H W h C hC (g + 1) (g' + 1) (by omega)
    have h3 := termZ_mono_g H W h C hC (g + 1) (g' + 1) (by omega)
    simp only [termN]; omega

theorem termN_pos (H W : Nat) (h : Nat) (C : TermPotF) (g : Nat) : 1 ≤ termN H W h C g := by
  cases h <;> simp only [termN] <;> omega

theorem termN_succ (H W : Nat) (h : Nat) (C : TermPotF) (hC : TermMono C) (g : Nat) : termN H W h C g ≤ termN H W (h + 1) C g := by
  have := termN_mono_g H W h C hC g (g + 1) (by omega)
  simp only [termN]; omega

theorem termN_mono_h (H W : Nat) (C : TermPotF) (hC : TermMono C) (g : Nat) : ∀ {h h' : Nat}, h ≤ h' → termN H W h C g ≤ termN H W h' C g := by
  intro h h' hh
  induction hh with
  | refl => exact Nat.le_refl _
  | step _ ih => exact Nat.le_trans ih (termN_succ H W _ C hC g)

theorem termN_mono (H W : Nat) {C : TermPotF} (hC : TermMono C) : TermMono (fun h g => termN H W h C g) := by
  intro h h' g g' hh hg
  exact Nat.le_trans (termN_mono_g H W h C hC g g' hg) (termN_mono_h H W C hC g' hh)

theorem termN_b1 (H W : Nat) {h : Nat} (hh : 1 ≤ h) (C : TermPotF) (g : Nat) :
    (W + 4) + termN H W (h - 1) C (g + 1) ≤ termN H W h C g := by
  obtain ⟨h', rfl⟩ : ∃ h', h = h' + 1 := ⟨h - 1, by omega⟩
  simp only [termN, Nat.add_sub_cancel]; omega

theorem termN_b2 (H W : Nat) {h : Nat} (hh : 1 ≤ h) (C : TermPotF) (g : Nat) :
    1 + termZ H W (h - 1) C (g + 1) ≤ termN H W h C g := by
  obtain ⟨h', rfl⟩ : ∃ h', h = h' + 1 := ⟨h - 1, by omega⟩
  simp only [termN, Nat.add_sub_cancel]; omega

theorem termU_mono (H W : Nat) {C : TermPotF} (hC : TermMono C) : TermMono (termU H W C) := by
  intro h h' g g' _ hg
  have h1 := termR_mono H W hg
  have h2 := termZ_mono_g H W (H + 1) C hC (g + 2 * H) (g' + 2 * H) (by omega)
  simp only [termU]; omega

theorem termTokPot_mono (H W : Nat) (tok : Str) {C : TermPotF} (hC : TermMono C) : TermMono (termTokPot H W tok C) := by
  unfold termTokPot
  split
  · intro _ _ _ _ _ _; exact Nat.le_refl _
  · split
    · exact termZ_mono H W hC
    · split
      · split
        · exact termU_mono H W hC
        · exact termU0_mono H W hC
      · exact termN_mono H W hC

theorem termPot_mono (H W : Nat) : ∀ toks, TermMono (termPot H W toks)
  | [] => termNil_mono H W
  | t :: ts => termTokPot_mono H W t (termPot_mono H W ts)

/-! ### synthesised tokens -/

/-- a bracket token has no name -/
theorem term_split_bracket_name {s name : Str} {idx : Idx} (h : splitNameIndex (bracket s) = .ok (name, idx)) : name = [] := by
  have hc : (bracket s).contains '[' = true := by simp [bracket]
  have hform : bracket s = ('[' :: s) ++ [']'] := by simp [bracket]
  have he : endsWith (bracket s) [']'] = true := by rw [hform]; exact endsWith_snoc _ _
  have hd : (bracket s).dropLast = [] ++ '[' :: s := by rw [hform, List.dropLast_concat]; rfl
  unfold splitNameIndex at h
  simp only [hc, he, Bool.and_self, if_true, hd, splitOnce_bracket [] s (by simp), stripWs_nil] at h
  split at h
  · cases h; rfl
  · split at h
    · cases h
    · rename_i idx' _
      cases hp : parseCond idx' with
      | error e => simp [hp, Except.map] at h
      | ok i => simp only [hp, Except.map, Except.ok.injEq, Prod.mk.injEq] at h; exact h.1.symm

/-- any synthesised bracket token is covered by `termZ` -/
theorem termTokPot_bracket (H W : Nat) (s : Str) {C : TermPotF} (hC : TermMono C) (h g : Nat) :
    termTokPot H W (bracket s) C h g ≤ termZ H W h C g := by
  cases hs : splitNameIndex (bracket s) with
  | error e =>
    simp only [termTokPot, hs]
    have := termZ_ge H W h hC g; omega
  | ok p =>
    obtain ⟨name, idx⟩ := p
    have := term_split_bracket_name hs
    subst this
    simp [termTokPot, hs]

theorem term_split_up : splitNameIndex ['.', '.'] = .ok (['.', '.'], .none) := by decide

theorem termTokPot_up (H W : Nat) (C : TermPotF) : termTokPot H W ['.', '.'] C = termU0 H W C := by
  unfold termTokPot
  rw [term_split_up]
  simp [Idx.truthy]

/-- a key of the tree satisfies the key predicate -/
theorem term_lookup_key {P : Str → Prop} {k : Str} {v : Val} : ∀ {kvs : List (Str × Val)},
    SafeKeysK P kvs → lookup k kvs = some v → P k
  | [], _, h => by simp [lookup] at h
  | (k', x) :: kvs, hs, h => by
    simp only [SafeKeysK] at hs
    simp only [lookup] at h
    split at h
    · rename_i heq; subst heq; exact hs.1
    · exact term_lookup_key hs.2.2 h

/-! ### the `..` step -/

/-- the node `..` goes up from (`nxt_parent_node`) -/
def termNxt (root : Val) (cur : Res) (cpv : Val) : PyM PRef :=
  match cur.nameIdx with
  | some ni =>
    if ni.isEmpty then .ok cur.parent else
    match splitNameIndex ni with
    | .error e => .error e
    | .ok (cn, ci) =>
      if !cn.isEmpty then
        match pyGetKey cpv cn with
        | .ok _ => .ok (childRef root cur.parent (.key cn))
        | .error e => .error e
      else match ci with
        | .str s =>
          match n0eval s with
          | .error e => .error e
          | .ok ev =>
            match pyGetIdx cpv ev with
            | .error e => .error e
            | .ok (_, some n) => .ok (childRef root cur.parent (.idx n))
            | .ok (_, Option.none) => match ev with
              | .str k => .ok (childRef root cur.parent (.key k))
              | _ => .error .Unsupported
        | _ => .error .TypeError
  | Option.none => .ok cur.parent

/-- what follows once the node to go up from is known -/
def termUpCont (f : Nat) (root : Val) (sp : Pos) (rl : Bool) (found : Str) (idx : Idx) (rest : List Str) (cur : Res) (nxt : PRef) :
    PyM (Val × Res) :=
  if idx.truthy || rest.length ≥ 1 then
    if idx.truthy then
      match idx with
      | .str s => findD f root sp false false (bracket s :: rest) nxt rl (upFound cur)
      | _ => .error .Unsupported
    else findD f root sp false false rest nxt rl (upFound cur)
  else
    match cur.nameIdx, valOf root nxt with
    | some ni, some nv =>
      if ni.isEmpty then .error .Unsupported else
      .ok (root, { parent := cur.parent, nameIdx := some ni, value := nv, found := found ++ slash ++ ni, notFound := Option.none })
    | Option.none, some nv =>
      if cur.isFound then
        .ok (root, { parent := cur.parent, nameIdx := Option.none, value := nv, found := cur.found, notFound := Option.none })
      else .error .TypeError
    | Option.none, Option.none => .error .TypeError
    | _, Option.none => .error .Unsupported

theorem term_up_step (f : Nat) (root : Val) (sp : Pos) (entry rl : Bool) (par : PRef) (found tok : Str) (idx : Idx)
    (rest : List Str) (pv : Val) (hpv : valOf root par = some pv) (hsplit : splitNameIndex tok = .ok (['.', '.'], idx)) :
    findD (f + 1) root sp false entry (tok :: rest) par rl found =
      match findD f root sp false false (((splitChar '/' (fixBr found)).filter (fun t => !t.isEmpty)).dropLast) (.at sp) rl slash with
      | .error e => .error e
      | .ok (root', cur) =>
        match valOf root' cur.parent with
        | Option.none => .error .Unsupported
        | some cpv =>
          match termNxt root' cur cpv with
          | .error e => .error e
          | .ok nxt => termUpCont f root' sp rl found idx rest cur nxt := by
  rw [findD]
  simp only [Bool.false_and, Bool.false_eq_true, if_false, hpv, hsplit, List.isEmpty_cons, Bool.not_false, if_true,
    Bool.false_and]
  rfl

theorem term_pyGetKey_err {v : Val} {k : Str} {e : PyErr} (h : pyGetKey v k = .error e) : e ≠ .OutOfFuel := by
  unfold pyGetKey at h
  repeat' split at h
  all_goals first | (cases h; done) | (cases h; decide)

theorem term_pyGetIdx_err {v : Val} {ev : EvalRes} {e : PyErr} (h : pyGetIdx v ev = .error e) : e ≠ .OutOfFuel := by
  unfold pyGetIdx at h
  repeat' split at h
  all_goals first | (cases h; done) | (cases h; decide)

theorem term_parseCond_err {s : Str} {e : PyErr} (h : parseCond s = .error e) : e ≠ .OutOfFuel := by
  unfold parseCond at h
  split at h
  · split at h
    · cases h; decide
    · split at h
      · cases h; decide
      · rename_i d _ _ _ _ _
        simp only at h
        generalize (if d = ['='] then ['=', '='] else if d = ['~'] then ['~', '~'] else d) = op at h
        repeat' split at h
        all_goals cases h <;> decide
  · cases h

theorem term_okErr_split {tok : Str} {e : PyErr} (h : splitNameIndex tok = .error e) : e ≠ .OutOfFuel := by
  unfold splitNameIndex at h
  split at h
  · split at h
    · cases h; decide
    · simp only at h
      split at h
      · cases h
      · split at h
        · rename_i e' he'
          cases h
          repeat' split at he'
          all_goals cases he' <;> decide
        · rename_i idx' _
          cases hpc : parseCond idx' with
          | error e' => rw [hpc] at h; cases h; exact term_parseCond_err hpc
          | ok i => rw [hpc] at h; cases h
  · cases h

theorem termNxt_err {root : Val} {cur : Res} {cpv : Val} {e : PyErr} (h : termNxt root cur cpv = .error e) : e ≠ .OutOfFuel := by
  unfold termNxt at h
  split at h
  · split at h
    · cases h
    · split at h
      · rename_i e' hs; cases h; exact term_okErr_split hs
      · split at h
        · split at h
          · cases h
          · rename_i e' hk; cases h; exact term_pyGetKey_err hk
        · split at h
          · split at h
            · rename_i e' hev; cases h; rw [n0eval_err hev]; decide
            · split at h
              · rename_i e' hgi; cases h; exact term_pyGetIdx_err hgi
              · cases h
              · split at h
                · cases h
                · cases h; decide
          · cases h; decide
  · cases h

theorem termNxt_ref {root : Val} {cur : Res} {cpv : Val} {nxt : PRef} (h : termNxt root cur cpv = .ok nxt) :
    nxt = cur.parent ∨ ∃ s, nxt = childRef root cur.parent s := by
  unfold termNxt at h
  repeat' split at h
  all_goals first
    | (cases h; done)
    | (cases h; exact Or.inl rfl)
    | (cases h; exact Or.inr ⟨_, rfl⟩)

end N0.XPath
