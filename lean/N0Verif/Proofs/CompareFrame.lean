import N0Verif.Proofs.Compare
import N0Verif.Proofs.CompareFaithful
import N0Verif.Proofs.ComparePerm
import N0Verif.Proofs.CompareTransform
/-!
A FRAME statement for the compare engine: what do the class tags (`n0dict`/`n0list` against plain `dict`/`list`)
of the nodes BELOW the roots contribute to the result?

The code wraps sub-nodes with `n0list(...)`/`n0dict(...)` before it recurses, so one might expect the tags not to
matter.  They do, in exactly three places (the counter-examples at the end):
* `type(self_value) == type(other_value)`: an `n0dict` against a plain `dict` under the same key is a type clash;
* `direct_compare` calls `self[i].direct_compare(...)` on a list nested in a list (`AttributeError` for a plain
  list) and insists on an `n0list` partner (`TypeError`);
* `n0list.compare` hands a record of the other list to `n0dict.compare`, which insists on an `n0dict` (`TypeError`).

Positive statement (`frame_compareTop`; `transform` functions that do not look at containers: `LeafTransform`,
in particular no `transform`): if below the roots all dictionaries carry one tag `cd`
and all lists one tag `cl` (what the loaders produce: `n0dict(json_text)` gives `cd = n0`, `cl = plain`;
`convert_recursively` gives `n0`/`n0`), then the run on `(a, b)` and the run on the recursively converted trees
`(toN0 a, toN0 b)` return the same result up to the conversion of the values shown — unless the first run stops
with one of the two `isinstance` exceptions above, which can happen only when the walked mode meets a plain
container of the kind it checks (`TagErr`).  In particular (`frame_exact`) for `compare()` on trees with `n0dict`s
and plain lists, and for `direct_compare` on trees with `n0list`s and plain dicts, the run IS the run on the
converted trees: the theorems stated for `isN0` trees (C07) apply to them.
-/
namespace N0.Compare
open N0

set_option linter.unusedSimpArgs false
set_option linter.unusedVariables false

/-! ### recursive conversion and uniform tags -/

mutual
/-- `n0dict.convert_recursively`: every container becomes an `n0dict`/`n0list` -/
def toN0 : Val → Val
  | .list _ xs => .list .n0 (toN0L xs)
  | .dict _ kvs => .dict .n0 (toN0K kvs)
  | v => v
def toN0L : List Val → List Val
  | [] => []
  | x :: xs => toN0 x :: toN0L xs
def toN0K : List (Str × Val) → List (Str × Val)
  | [] => []
  | (k, v) :: rest => (k, toN0 v) :: toN0K rest
end

mutual
/-- every dictionary of the tree carries the tag `cd`, every list the tag `cl` (the node itself included) -/
def tagsBy (cd cl : Cls) : Val → Bool
  | .list c xs => c == cl && tagsByL cd cl xs
  | .dict c kvs => c == cd && tagsByK cd cl kvs
  | _ => true
def tagsByL (cd cl : Cls) : List Val → Bool
  | [] => true
  | x :: xs => tagsBy cd cl x && tagsByL cd cl xs
def tagsByK (cd cl : Cls) : List (Str × Val) → Bool
  | [] => true
  | (_, v) :: rest => tagsBy cd cl v && tagsByK cd cl rest
end

/-- the same below the node (the tag of the node itself is free: the roots are always `n0`) -/
def tagsKids (cd cl : Cls) : Val → Bool
  | .list _ xs => tagsByL cd cl xs
  | .dict _ kvs => tagsByK cd cl kvs
  | _ => true

theorem tagsKids_of_tagsBy {cd cl : Cls} {v : Val} (h : tagsBy cd cl v = true) : tagsKids cd cl v = true := by
  cases v <;> simp_all [tagsBy, tagsKids]

/-- a result with `g` applied to every value shown -/
def Res.mapV (g : Val → Val) (r : Res) : Res :=
  { diffs := r.diffs
    notEqual := r.notEqual.map (fun e => ⟨e.path, g e.l, g e.r, e.kind, e.delta⟩)
    selfUnique := r.selfUnique.map (fun e => ⟨e.path, g e.v⟩)
    otherUnique := r.otherUnique.map (fun e => ⟨e.path, g e.v⟩)
    diffTypes := r.diffTypes.map (fun e => ⟨e.path, g e.l, g e.r⟩)
    selfEqual := r.selfEqual.map g
    otherEqual := r.otherEqual.map g }

theorem mapV_append (g : Val → Val) (a b : Res) : (a ++ b).mapV g = a.mapV g ++ b.mapV g := by
  show Res.mapV g (Res.append a b) = Res.append (Res.mapV g a) (Res.mapV g b)
  simp [Res.mapV, Res.append]

theorem mapV_empty (g : Val → Val) : Res.empty.mapV g = Res.empty := rfl

def Act.mapV (g : Val → Val) : Act → Act
  | .emit r s => .emit (r.mapV g) s
  | .descend => .descend

/-- a mode meets a plain container of the kind it checks with `isinstance` -/
def TagErr (cfg : Cfg) (cd cl : Cls) : Prop :=
  (cfg.direct = true ∧ cl = .plain) ∨ (cfg.direct = false ∧ cd = .plain)

/-- the run on the tagged trees against the run on the converted trees -/
def FrameRel (T : Prop) (x y : Except PyErr Res) : Prop :=
  match x with
  | .ok r => y = .ok (r.mapV toN0)
  | .error e => y = .error e ∨ (T ∧ (e = .AttributeError ∨ e = .TypeError))

theorem frame_ok (T : Prop) (r : Res) : FrameRel T (.ok r) (.ok (r.mapV toN0)) := rfl
theorem frame_err (T : Prop) (e : PyErr) : FrameRel T (.error e) (.error e) := Or.inl rfl

theorem frame_seqR {T : Prop} {A A' B B' : Except PyErr Res} (hA : FrameRel T A A') (hB : FrameRel T B B') :
    FrameRel T (seqR A B) (seqR A' B') := by
  cases A with
  | error e =>
    simp only [FrameRel] at hA
    rcases hA with hA | hA
    · subst hA; exact Or.inl rfl
    · exact Or.inr hA
  | ok a =>
    simp only [FrameRel] at hA
    subst hA
    cases B with
    | error e =>
      simp only [FrameRel] at hB
      rcases hB with hB | hB
      · subst hB; exact Or.inl rfl
      · exact Or.inr hB
    | ok b =>
      simp only [FrameRel] at hB
      subst hB
      simp only [seqR, FrameRel, mapV_append]

/-! ### conversions commute with everything the walks look at -/

theorem frame_toN0_scalar {x : Val} (h : isPyScalar x = true) : toN0 x = x := by
  cases x <;> simp_all [isPyScalar, toN0]

theorem frame_isPyScalar (x : Val) : isPyScalar (toN0 x) = isPyScalar x := by
  cases x <;> simp [isPyScalar, toN0]

theorem frame_tyOf_iff {cd cl : Cls} {x y : Val} (hx : tagsBy cd cl x = true) (hy : tagsBy cd cl y = true) :
    tyOf (toN0 x) = tyOf (toN0 y) ↔ tyOf x = tyOf y := by
  cases x <;> cases y <;> simp_all [tyOf, toN0, tagsBy]

mutual
theorem frame_reprVal : ∀ v : Val, reprVal (toN0 v) = reprVal v
  | .list c xs => by simp only [toN0, reprVal, frame_reprList xs]
  | .dict c kvs => by simp only [toN0, reprVal, frame_reprKvs kvs]
  | .none => rfl
  | .bool _ => rfl
  | .int _ => rfl
  | .flt _ => rfl
  | .str _ => rfl
theorem frame_reprList : ∀ xs : List Val, reprList (toN0L xs) = reprList xs
  | [] => rfl
  | [x] => by simp only [toN0L, reprList, frame_reprVal x]
  | x :: y :: xs => by
    have ih := frame_reprList (y :: xs)
    simp only [toN0L] at ih ⊢
    simp only [reprList, frame_reprVal x, ih]
theorem frame_reprKvs : ∀ kvs : List (Str × Val), reprKvs (toN0K kvs) = reprKvs kvs
  | [] => rfl
  | [(k, x)] => by simp only [toN0K, reprKvs, frame_reprVal x]
  | (k, x) :: y :: xs => by
    have ih := frame_reprKvs (y :: xs)
    obtain ⟨k', y⟩ := y
    simp only [toN0K] at ih ⊢
    simp only [reprKvs, frame_reprVal x, ih]
end

mutual
/-- the JSON text (the key of a non-record item) does not show the class tags -/
theorem frame_jsonVal : ∀ v : Val, jsonVal (toN0 v) = jsonVal v
  | .list c xs => by simp only [toN0, jsonVal, frame_jsonList xs]
  | .dict c kvs => by simp only [toN0, jsonVal, frame_jsonKvs kvs]
  | .none => rfl
  | .bool _ => rfl
  | .int _ => rfl
  | .flt _ => rfl
  | .str _ => rfl
theorem frame_jsonList : ∀ xs : List Val, jsonList (toN0L xs) = jsonList xs
  | [] => rfl
  | x :: xs => by simp only [toN0L, jsonList, frame_jsonVal x, frame_jsonList xs]
theorem frame_jsonKvs : ∀ kvs : List (Str × Val), jsonKvs (toN0K kvs) = jsonKvs kvs
  | [] => rfl
  | (k, x) :: rest => by simp only [toN0K, jsonKvs, frame_jsonVal x, frame_jsonKvs rest]
end

theorem frame_pyStr (v : Val) : pyStr (toN0 v) = pyStr v := by
  cases v with
  | str s => rfl
  | list c xs => simp only [pyStr]; exact frame_reprVal _
  | dict c kvs => simp only [pyStr]; exact frame_reprVal _
  | none => rfl
  | bool b => rfl
  | int i => rfl
  | flt f => rfl

theorem frame_lookup (k : Str) : ∀ kvs : List (Str × Val),
    Val.lookup k (toN0K kvs) = (Val.lookup k kvs).map toN0
  | [] => by simp [toN0K, Val.lookup]
  | (k', v) :: rest => by
    simp only [toN0K, Val.lookup]
    by_cases hk : k = k'
    · simp [hk]
    · simp [hk, frame_lookup k rest]

theorem frame_hasKey (k : Str) (kvs : List (Str × Val)) : hasKey k (toN0K kvs) = hasKey k kvs := by
  simp [hasKey, frame_lookup]

/-- a leaf function (identity on containers, scalars to scalars, `None` to a scalar or `None`) commutes with the
conversion -/
theorem frame_commute {f : Val → Val} (hf : TrLeafFn f) (x : Val) : f (toN0 x) = toN0 (f x) := by
  cases x with
  | list c xs => simp only [toN0, hf.list]
  | dict c kvs => simp only [toN0, hf.dict]
  | none =>
    simp only [toN0]
    rcases hf.none with h | h
    · exact (frame_toN0_scalar h).symm
    · rw [h]; rfl
  | bool b => simp only [toN0]; exact (frame_toN0_scalar (hf.scalar _ rfl)).symm
  | int i => simp only [toN0]; exact (frame_toN0_scalar (hf.scalar _ rfl)).symm
  | flt r => simp only [toN0]; exact (frame_toN0_scalar (hf.scalar _ rfl)).symm
  | str s => simp only [toN0]; exact (frame_toN0_scalar (hf.scalar _ rfl)).symm

theorem frame_tags_leafFn {f : Val → Val} (hf : TrLeafFn f) {cd cl : Cls} {x : Val} (hx : tagsBy cd cl x = true) :
    tagsBy cd cl (f x) = true := by
  have hsc : ∀ z : Val, isPyScalar z = true → tagsBy cd cl z = true := by
    intro z hz; cases z <;> simp_all [isPyScalar, tagsBy]
  cases x with
  | list c xs => rw [hf.list]; exact hx
  | dict c kvs => rw [hf.dict]; exact hx
  | none =>
    rcases hf.none with h | h
    · exact hsc _ h
    · rw [h]; rfl
  | bool b => exact hsc _ (hf.scalar _ rfl)
  | int i => exact hsc _ (hf.scalar _ rfl)
  | flt r => exact hsc _ (hf.scalar _ rfl)
  | str s => exact hsc _ (hf.scalar _ rfl)

theorem frame_leafFn_of_mem {cfg : Cfg} (hl : LeafTransform cfg) {t : Tr} (ht : t ∈ cfg.tr) : TrLeafFn t.f :=
  ⟨(hl t ht).1, (hl t ht).2.1, (hl t ht).2.2.1, (hl t ht).2.2.2⟩

theorem frame_setField (k : Str) (v : Val) : ∀ acc : List (Str × Val),
    setField k (toN0 v) (toN0K acc) = toN0K (setField k v acc)
  | [] => rfl
  | (k', v') :: rest => by
    simp only [toN0K, setField]
    by_cases hk : k = k'
    · simp only [hk, ↓reduceIte, toN0K]
    · simp only [hk, ↓reduceIte, toN0K, frame_setField k v rest]

theorem frame_recordFields {cfg : Cfg} (hl : LeafTransform cfg) (q : Path) (kvs : List (Str × Val)) :
    ∀ (fs : List Str) (acc : List (Str × Val)),
      recordFields cfg q (toN0K kvs) fs (toN0K acc) = toN0K (recordFields cfg q kvs fs acc)
  | [], acc => by simp [recordFields]
  | f :: fs, acc => by
    simp only [recordFields, frame_lookup]
    cases Val.lookup f kvs with
    | none =>
      simp only [Option.map_none]
      exact frame_recordFields hl q kvs fs acc
    | some v =>
      simp only [Option.map_some]
      rw [frame_commute (tr_leafFn_transformAt hl (q ++ [PSeg.key f])) v, frame_setField]
      exact frame_recordFields hl q kvs fs _

theorem frame_fieldsKey : ∀ fs : List (Str × Val), fieldsKey (toN0K fs) = fieldsKey fs
  | [] => rfl
  | (k, v) :: rest => by
    have h := frame_jsonVal (.dict .plain ((k, v) :: rest))
    simp only [toN0, toN0K, jsonVal] at h
    simp only [toN0K, fieldsKey, jsonVal]
    exact h

theorem frame_keyOf {cfg : Cfg} (hl : LeafTransform cfg) (p : Path) (i : Nat) (x : Val) :
    keyOf cfg p i (toN0 x) = keyOf cfg p i x := by
  have hk : ∀ v : Val, jsonVal (transformAt cfg p (toN0 v)) = jsonVal (transformAt cfg p v) := fun v => by
    rw [frame_commute (tr_leafFn_transformAt hl p) v, frame_jsonVal]
  cases x with
  | dict c kvs =>
    have := frame_recordFields hl (p ++ [PSeg.idx i]) kvs cfg.ck.pats []
    simp only [toN0K] at this
    simp only [toN0, keyOf, this, frame_fieldsKey]
  | list c xs =>
    have := hk (.list c xs)
    simp only [toN0] at this ⊢
    simp only [keyOf, this]
  | none => rfl
  | bool b => rfl
  | int i => rfl
  | flt f => rfl
  | str s => rfl

theorem frame_keysOf {cfg : Cfg} (hl : LeafTransform cfg) (p : Path) : ∀ (i : Nat) (xs : List Val),
    keysOf cfg p i (toN0L xs) = keysOf cfg p i xs
  | _, [] => rfl
  | i, x :: xs => by simp only [toN0L, keysOf, frame_keyOf hl p i x, frame_keysOf hl p (i + 1) xs]

/-- the remaining-lists with converted values -/
def keMap (l : List KE) : List KE := l.map (fun e => (e.1, e.2.1, toN0 e.2.2))

theorem frame_mkEntries : ∀ (ks : List Str) (xs : List Val) (i : Nat),
    mkEntries i ks (toN0L xs) = keMap (mkEntries i ks xs)
  | [], xs, _ => by cases xs <;> simp [mkEntries, keMap, toN0L]
  | _ :: _, [], _ => by simp [mkEntries, keMap, toN0L]
  | k :: ks, x :: xs, i => by
    simp only [toN0L, mkEntries, keMap, List.map_cons]
    rw [frame_mkEntries ks xs (i + 1)]
    rfl

theorem frame_findKey (k : Str) : ∀ l : List KE,
    findKey k (keMap l) = (findKey k l).map (fun jy => (jy.1, toN0 jy.2))
  | [] => rfl
  | (k', i, v) :: rest => by
    simp only [keMap, List.map_cons, findKey]
    by_cases hk : k = k'
    · simp [hk]
    · simp only [hk, if_false]
      exact frame_findKey k rest

theorem frame_eraseKey (k : Str) : ∀ l : List KE, eraseKey k (keMap l) = keMap (eraseKey k l)
  | [] => rfl
  | (k', i, v) :: rest => by
    simp only [keMap, List.map_cons, eraseKey]
    by_cases hk : k = k'
    · simp [hk]
    · simp only [hk, if_false, List.map_cons]
      have := frame_eraseKey k rest
      simp only [keMap] at this
      rw [this]

theorem frame_keyedTail (p : Path) (sr orr : List KE) :
    keyedTail p (keMap sr) (keMap orr) = (keyedTail p sr orr).mapV toN0 := by
  simp [keyedTail, keMap, Res.mapV, List.map_map, Function.comp_def]

theorem frame_otherTail (p : Path) : ∀ (ys : List Val) (i : Nat),
    otherTail p i (toN0L ys) = (otherTail p i ys).map (fun e => (⟨e.path, toN0 e.v⟩ : UE))
  | [], _ => rfl
  | y :: ys, i => by simp only [toN0L, otherTail, List.map_cons, frame_otherTail p ys (i + 1)]

theorem frame_leftovers (cfg : Cfg) (p : Path) (g : Str → Bool) : ∀ l : List (Str × Val),
    ((toN0K l).filter (fun kv => g kv.1)).filterMap (leftover cfg p) =
      ((l.filter (fun kv => g kv.1)).filterMap (leftover cfg p)).map (fun e => (⟨e.path, toN0 e.v⟩ : UE))
  | [] => rfl
  | (k, v) :: rest => by
    have ih := frame_leftovers cfg p g rest
    simp only [toN0K, List.filter_cons]
    cases hg : g k
    · simpa using ih
    · by_cases hc : (!excluded cfg (p ++ [.key k]) && onlyOk cfg (p ++ [.key k])) = true
      · have e1 : leftover cfg p (k, toN0 v) = some ⟨p ++ [.key k], toN0 v⟩ := by
          unfold leftover; exact if_pos hc
        have e2 : leftover cfg p (k, v) = some ⟨p ++ [.key k], v⟩ := by
          unfold leftover; exact if_pos hc
        simp only [if_true, List.filterMap_cons, e1, e2, List.map_cons, ih]
      · have e1 : leftover cfg p (k, toN0 v) = none := by
          unfold leftover; exact if_neg hc
        have e2 : leftover cfg p (k, v) = none := by
          unfold leftover; exact if_neg hc
        simp only [if_true, List.filterMap_cons, e1, e2, ih]

theorem frame_dictTail (cfg : Cfg) (p : Path) (sa oa : Val) (skvs okvs : List (Str × Val)) (still : Bool) :
    dictTail cfg p (toN0 sa) (toN0 oa) (toN0K skvs) (toN0K okvs) still =
      (dictTail cfg p sa oa skvs okvs still).mapV toN0 := by
  have e1 := frame_leftovers cfg p (fun k => !hasKey k okvs) skvs
  have e2 := frame_leftovers cfg p (fun k => !hasKey k skvs) okvs
  simp only [dictTail, frame_hasKey, e1, e2, Res.mapV, List.length_map, List.isEmpty_map, List.map_nil]
  congr 1
  · split <;> simp
  · split <;> simp

theorem frame_classifyItem {cfg : Cfg} (hl : LeafTransform cfg) {cd cl : Cls} (p pne pdt : Path) (sa oa : Val)
    {x y : Val} (hx : tagsBy cd cl x = true) (hy : tagsBy cd cl y = true) :
    classifyItem cfg p pne pdt (toN0 sa) (toN0 oa) (toN0 x) (toN0 y) =
      (classifyItem cfg p pne pdt sa oa x y).mapV toN0 := by
  have hf := tr_leafFn_transformAt hl p
  have hsv := frame_tags_leafFn hf hx
  have hov := frame_tags_leafFn hf hy
  unfold classifyItem
  simp only [frame_commute hf x, frame_commute hf y]
  generalize transformAt cfg p x = sv at hsv
  generalize transformAt cfg p y = ov at hov
  have hty := frame_tyOf_iff hsv hov
  by_cases ht : tyOf sv = tyOf ov
  · have ht' : tyOf (toN0 sv) = tyOf (toN0 ov) := hty.2 ht
    by_cases hs : isPyScalar sv = true
    · have hx0 := frame_toN0_scalar hs
      have hs' : isPyScalar ov = true := by rw [← tyOf_scalar_eq ht]; exact hs
      have hy0 := frame_toN0_scalar hs'
      rw [hx0, hy0]
      by_cases hxy : sv = ov
      · subst hxy
        by_cases he : cfg.fl.equal = true <;> simp [hs, he, Act.mapV, Res.mapV, Res.empty]
      · simp [ht, hs, hxy, Act.mapV, Res.mapV]
    · have hs2 : isPyScalar (toN0 sv) = false := by rw [frame_isPyScalar]; simpa using hs
      simp [ht, ht', hs, hs2, Act.mapV]
  · have ht' : ¬ tyOf (toN0 sv) = tyOf (toN0 ov) := fun h => ht (hty.1 h)
    by_cases hf' : cfg.fl.types = true <;> simp [ht, ht', hf', Act.mapV, Res.mapV]

theorem frame_classifyEntry {cfg : Cfg} (hl : LeafTransform cfg) {cd cl : Cls} (full : Path)
    {x y : Val} (hx : tagsBy cd cl x = true) (hy : tagsBy cd cl y = true) :
    classifyEntry cfg full (toN0 x) (toN0 y) = (classifyEntry cfg full x y).mapV toN0 := by
  have hf := tr_leafFn_transformAt hl full
  have hsv := frame_tags_leafFn hf hx
  have hov := frame_tags_leafFn hf hy
  unfold classifyEntry
  by_cases hex : excluded cfg full = true
  · simp [hex, Act.mapV, Res.mapV, Res.empty]
  simp only [hex, if_false, frame_commute hf x, frame_commute hf y]
  generalize transformAt cfg full x = sv at hsv
  generalize transformAt cfg full y = ov at hov
  have hty := frame_tyOf_iff hsv hov
  by_cases ht : tyOf sv = tyOf ov
  · have ht' : tyOf (toN0 sv) = tyOf (toN0 ov) := hty.2 ht
    by_cases hs : isPyScalar sv = true
    · have hx0 := frame_toN0_scalar hs
      have hs' : isPyScalar ov = true := by rw [← tyOf_scalar_eq ht]; exact hs
      have hy0 := frame_toN0_scalar hs'
      rw [hx0, hy0]
      by_cases hxy : sv = ov
      · subst hxy
        simp [hs, Act.mapV, Res.mapV, Res.empty]
      · by_cases ho : onlyOk cfg full = true <;> simp [ht, hs, hxy, ho, Act.mapV, Res.mapV, Res.empty]
    · have hs2 : isPyScalar (toN0 sv) = false := by rw [frame_isPyScalar]; simpa using hs
      simp [ht, ht', hs, hs2, Act.mapV]
  · have ht' : ¬ tyOf (toN0 sv) = tyOf (toN0 ov) := fun h => ht (hty.1 h)
    by_cases hf' : cfg.fl.types = true <;> by_cases ho : onlyOk cfg full = true <;>
      simp [ht, ht', hf', ho, Act.mapV, Res.mapV, Res.empty]

theorem frame_itemRes {cfg : Cfg} (hl : LeafTransform cfg) {cd cl : Cls} {T : Prop} (p pne pdt : Path) (sa oa : Val)
    {x y : Val} (hx : tagsBy cd cl x = true) (hy : tagsBy cd cl y = true)
    (hsub : FrameRel T (sub cfg .item pne x y) (sub cfg .item pne (toN0 x) (toN0 y))) :
    FrameRel T (itemRes cfg p pne pdt sa oa x y) (itemRes cfg p pne pdt (toN0 sa) (toN0 oa) (toN0 x) (toN0 y)) := by
  simp only [itemRes, frame_classifyItem hl p pne pdt sa oa hx hy]
  cases classifyItem cfg p pne pdt sa oa x y with
  | emit r s => exact frame_ok T r
  | descend => exact hsub

theorem tagsByL_mem {cd cl : Cls} : ∀ (xs : List Val) (x : Val), tagsByL cd cl xs = true → x ∈ xs → tagsBy cd cl x = true
  | [], _, _, h => by cases h
  | y :: ys, x, ht, h => by
    simp only [tagsByL, Bool.and_eq_true] at ht
    rcases List.mem_cons.1 h with rfl | h'
    · exact ht.1
    · exact tagsByL_mem ys x ht.2 h'

theorem tagsByK_lookup {cd cl : Cls} : ∀ (kvs : List (Str × Val)) (k : Str) (w : Val), tagsByK cd cl kvs = true →
    Val.lookup k kvs = some w → tagsBy cd cl w = true
  | [], _, _, _, h => by simp [Val.lookup] at h
  | (k', v) :: rest, k, w, ht, h => by
    simp only [tagsByK, Bool.and_eq_true] at ht
    simp only [Val.lookup] at h
    split at h
    · cases h; exact ht.1
    · exact tagsByK_lookup rest k w ht.2 h

theorem mkEntries_mem_val : ∀ (ks : List Str) (xs : List Val) (i : Nat), ∀ e ∈ mkEntries i ks xs, e.2.2 ∈ xs
  | [], _, _, e, he => by simp [mkEntries] at he
  | _ :: _, [], _, e, he => by simp [mkEntries] at he
  | k :: ks, x :: xs, i, e, he => by
    simp only [mkEntries, List.mem_cons] at he
    rcases he with rfl | he
    · simp
    · exact List.mem_cons_of_mem _ (mkEntries_mem_val ks xs (i + 1) e he)

/-! ### the four walks -/

mutual
theorem frame_sub (cfg : Cfg) (hl : LeafTransform cfg) (cd cl : Cls) (site : Site) (p : Path) (v w : Val)
    (hv : tagsKids cd cl v = true) (hw : tagsKids cd cl w = true)
    (hs : site = .item → tagsBy cd cl v = true ∧ tagsBy cd cl w = true) :
    FrameRel (TagErr cfg cd cl) (sub cfg site p v w) (sub cfg site p (toN0 v) (toN0 w)) :=
  match v, w, hv, hw, hs with
  | .list c xs, w, hv, hw, hs => by
    cases w with
    | list c' ys =>
      simp only [tagsKids] at hv hw
      simp only [toN0]
      by_cases h1 : site = .item ∧ cfg.direct = true
      · -- the two `isinstance` checks of `direct_compare`
        obtain ⟨hc, hc'⟩ := hs h1.1
        simp only [tagsBy, Bool.and_eq_true, beq_iff_eq] at hc hc'
        have e1 : c = cl := hc.1
        have e2 : c' = cl := hc'.1
        rw [e1, e2]
        by_cases hcl : cl = .plain
        · have : sub cfg site p (.list cl xs) (.list cl ys) = .error .AttributeError := by
            simp [sub, h1.1, h1.2, hcl]
          rw [this]
          exact Or.inr ⟨Or.inl ⟨h1.2, hcl⟩, Or.inl rfl⟩
        · have ih := frame_directWalk cfg hl cd cl p (.list .n0 xs) (.list .n0 ys) 0 xs ys hv hw
          simp only [toN0] at ih
          by_cases hex : excluded cfg p = true
          · simp [sub, h1.1, h1.2, hex, hcl, FrameRel, mapV_empty]
          · simp only [sub, h1.1, h1.2, hex, hcl, if_false, if_true, and_true, true_and, reduceCtorEq, and_false]
            exact ih
      · have hA : ¬ (site = .item ∧ cfg.direct = true ∧ c = .plain) := fun h => h1 ⟨h.1, h.2.1⟩
        have hB : ¬ (site = .item ∧ cfg.direct = true ∧ c' = .plain) := fun h => h1 ⟨h.1, h.2.1⟩
        have hC : ¬ (site = .item ∧ cfg.direct = true ∧ Cls.n0 = .plain) := fun h => h1 ⟨h.1, h.2.1⟩
        simp only [sub, hA, hB, hC, if_false]
        by_cases hex : excluded cfg p = true
        · simp [hex, FrameRel, mapV_empty]
        simp only [hex, if_false]
        by_cases hd : cfg.direct = true
        · have ih := frame_directWalk cfg hl cd cl p (.list .n0 xs) (.list .n0 ys) 0 xs ys hv hw
          simp only [toN0] at ih
          simp only [hd, if_true]
          exact ih
        · simp only [hd, if_false, frame_keysOf hl]
          cases hks : keysOf cfg p 0 xs with
          | error e => exact frame_err _ e
          | ok ks =>
            cases hko : keysOf cfg p 0 ys with
            | error e => exact frame_err _ e
            | ok ko =>
              have ih := frame_keyedWalk cfg hl cd cl p (.list .n0 xs) (.list .n0 ys) 0 xs ks (mkEntries 0 ks xs)
                (mkEntries 0 ko ys) hv (fun e he => tagsByL_mem ys _ hw (mkEntries_mem_val ko ys 0 e he))
              simp only [toN0] at ih
              simp only [frame_mkEntries]
              exact ih
    | _ => simp [sub, toN0, FrameRel]
  | .dict c kvs, w, hv, hw, hs => by
    cases w with
    | dict c' kvs' =>
      simp only [tagsKids] at hv hw
      simp only [toN0]
      have ih := frame_dictWalk cfg hl cd cl p (.dict .n0 kvs) (.dict .n0 kvs') kvs kvs' true kvs hv hw
      simp only [toN0] at ih
      by_cases h1 : site = .item ∧ cfg.direct = false
      · obtain ⟨_, hc'⟩ := hs h1.1
        simp only [tagsBy, Bool.and_eq_true, beq_iff_eq] at hc'
        have e2 : c' = cd := hc'.1
        rw [e2]
        by_cases hcd : cd = .plain
        · have : sub cfg site p (.dict c kvs) (.dict cd kvs') = .error .TypeError := by
            simp [sub, h1.1, h1.2, hcd]
          rw [this]
          exact Or.inr ⟨Or.inr ⟨h1.2, hcd⟩, Or.inr rfl⟩
        · simp only [sub, hcd, reduceCtorEq, and_false, if_false]
          exact ih
      · have hA : ¬ (site = .item ∧ cfg.direct = false ∧ c' = .plain) := fun h => h1 ⟨h.1, h.2.1⟩
        have hC : ¬ (site = .item ∧ cfg.direct = false ∧ Cls.n0 = .plain) := fun h => h1 ⟨h.1, h.2.1⟩
        simp only [sub, hA, hC, if_false]
        exact ih
    | _ => simp [sub, toN0, FrameRel]
  | .none, w, _, _, _ => by simp [sub, toN0, FrameRel, mapV_empty]
  | .bool _, w, _, _, _ => by simp [sub, toN0, FrameRel]
  | .int _, w, _, _, _ => by simp [sub, toN0, FrameRel]
  | .flt _, w, _, _, _ => by simp [sub, toN0, FrameRel]
  | .str _, w, _, _, _ => by simp [sub, toN0, FrameRel]
termination_by structural v

theorem frame_dictWalk (cfg : Cfg) (hl : LeafTransform cfg) (cd cl : Cls) (p : Path) (sa oa : Val)
    (skvs okvs : List (Str × Val)) (still : Bool) (kvs : List (Str × Val))
    (hk : tagsByK cd cl kvs = true) (ho : tagsByK cd cl okvs = true) :
    FrameRel (TagErr cfg cd cl) (dictWalk cfg p sa oa skvs okvs still kvs)
      (dictWalk cfg p (toN0 sa) (toN0 oa) (toN0K skvs) (toN0K okvs) still (toN0K kvs)) :=
  match kvs, still, hk with
  | [], still, _ => by
    simp only [toN0K, dictWalk, frame_dictTail]
    exact frame_ok _ _
  | (k, v) :: rest, still, hk => by
    simp only [tagsByK, Bool.and_eq_true] at hk
    simp only [toN0K]
    rw [dictWalk_cons, dictWalk_cons, frame_lookup]
    cases hlk : Val.lookup k okvs with
    | none =>
      simp only [Option.map_none]
      exact frame_dictWalk cfg hl cd cl p sa oa skvs okvs still rest hk.2 ho
    | some w =>
      have hw := tagsByK_lookup okvs k w ho hlk
      simp only [Option.map_some, frame_classifyEntry hl (p ++ [.key k]) hk.1 hw]
      cases classifyEntry cfg (p ++ [.key k]) v w with
      | emit r s =>
        simp only [Act.mapV]
        exact frame_seqR (frame_ok _ r) (frame_dictWalk cfg hl cd cl p sa oa skvs okvs (still && s) rest hk.2 ho)
      | descend =>
        simp only [Act.mapV]
        exact frame_seqR
          (frame_sub cfg hl cd cl .entry (p ++ [.key k]) v w (tagsKids_of_tagsBy hk.1) (tagsKids_of_tagsBy hw)
            (fun h => by cases h))
          (frame_dictWalk cfg hl cd cl p sa oa skvs okvs still rest hk.2 ho)
termination_by structural kvs

theorem frame_directWalk (cfg : Cfg) (hl : LeafTransform cfg) (cd cl : Cls) (p : Path) (sa oa : Val) (i : Nat)
    (xs ys : List Val) (hx : tagsByL cd cl xs = true) (hy : tagsByL cd cl ys = true) :
    FrameRel (TagErr cfg cd cl) (directWalk cfg p sa oa i xs ys)
      (directWalk cfg p (toN0 sa) (toN0 oa) i (toN0L xs) (toN0L ys)) :=
  match xs, ys, i, hx, hy with
  | [], ys, i, _, _ => by
    simp only [toN0L, directWalk, frame_otherTail, FrameRel, Res.mapV, List.length_map, List.map_nil]
  | x :: xs, [], i, hx, _ => by
    simp only [tagsByL, Bool.and_eq_true] at hx
    simp only [toN0L]
    rw [directWalk_cons_nil, directWalk_cons_nil]
    exact frame_seqR (frame_ok _ _) (frame_directWalk cfg hl cd cl p sa oa (i + 1) xs [] hx.2 rfl)
  | x :: xs, y :: ys, i, hx, hy => by
    simp only [tagsByL, Bool.and_eq_true] at hx hy
    simp only [toN0L]
    rw [directWalk_cons, directWalk_cons]
    exact frame_seqR
      (frame_itemRes hl p _ _ sa oa hx.1 hy.1
        (frame_sub cfg hl cd cl .item (p ++ [.idx i]) x y (tagsKids_of_tagsBy hx.1) (tagsKids_of_tagsBy hy.1)
          (fun _ => ⟨hx.1, hy.1⟩)))
      (frame_directWalk cfg hl cd cl p sa oa (i + 1) xs ys hx.2 hy.2)
termination_by structural xs

theorem frame_keyedWalk (cfg : Cfg) (hl : LeafTransform cfg) (cd cl : Cls) (p : Path) (sa oa : Val) (i : Nat)
    (xs : List Val) (ks : List Str) (sr orr : List KE)
    (hx : tagsByL cd cl xs = true) (ho : ∀ e ∈ orr, tagsBy cd cl e.2.2 = true) :
    FrameRel (TagErr cfg cd cl) (keyedWalk cfg p sa oa i xs ks sr orr)
      (keyedWalk cfg p (toN0 sa) (toN0 oa) i (toN0L xs) ks (keMap sr) (keMap orr)) :=
  match xs, ks, sr, orr, i, hx, ho with
  | [], _, sr, orr, i, _, _ => by
    simp only [toN0L, keyedWalk, frame_keyedTail]
    exact frame_ok _ _
  | _ :: _, [], _, _, i, _, _ => by
    simp only [toN0L, keyedWalk]
    exact frame_err _ _
  | x :: xs, k :: ks, sr, orr, i, hx, ho => by
    simp only [tagsByL, Bool.and_eq_true] at hx
    simp only [toN0L]
    rw [keyedWalk_cons, keyedWalk_cons, frame_findKey]
    cases hf : findKey k orr with
    | none =>
      simp only [Option.map_none]
      exact frame_keyedWalk cfg hl cd cl p sa oa (i + 1) xs ks sr orr hx.2 ho
    | some jy =>
      obtain ⟨j, y⟩ := jy
      obtain ⟨k', hmem⟩ := findKey_mem orr k j y hf
      have hy := ho _ hmem
      simp only [Option.map_some, frame_eraseKey]
      exact frame_seqR
        (frame_itemRes hl p _ _ sa oa hx.1 hy
          (frame_sub cfg hl cd cl .item _ x y (tagsKids_of_tagsBy hx.1) (tagsKids_of_tagsBy hy)
            (fun _ => ⟨hx.1, hy⟩)))
        (frame_keyedWalk cfg hl cd cl p sa oa (i + 1) xs ks (eraseKey k sr) (eraseKey k orr) hx.2
          (fun e he => ho e (eraseKey_sub orr k e he)))
termination_by structural xs
end

/-! ### the entry point -/

theorem leafTransform_nil {cfg : Cfg} (h : cfg.tr = []) : LeafTransform cfg := by
  intro t ht; rw [h] at ht; cases ht

theorem frame_rootPair_toN0 {a b : Val} (h : RootPair a b) : RootPair (toN0 a) (toN0 b) := by
  cases a with
  | dict c kvs =>
    cases c <;> cases b <;> try (simp [RootPair] at h)
    rename_i c' kvs'
    cases c' <;> simp [RootPair] at h
    simp [RootPair, toN0]
  | list c xs =>
    cases c <;> cases b <;> try (simp [RootPair] at h)
    rename_i c' ys
    cases c' <;> simp [RootPair] at h
    simp [RootPair, toN0]
  | _ => simp [RootPair] at h

/-- **Frame.**  `LeafTransform cfg` (in particular no transform: `leafTransform_nil`); roots `n0dict`/`n0dict` or `n0list`/`n0list`; below the roots every dictionary carries
the tag `cd` and every list the tag `cl`.  Then the run on `(a, b)` and the run on the recursively converted trees
agree (same exception, or the same result with the shown values converted), unless the run on `(a, b)` stops with
`AttributeError`/`TypeError` — possible only if `TagErr cfg cd cl`. -/
theorem frame_compareTop (cfg : Cfg) (hl : LeafTransform cfg) (cd cl : Cls) (a b : Val) (hr : RootPair a b)
    (ha : tagsKids cd cl a = true) (hb : tagsKids cd cl b = true) :
    FrameRel (TagErr cfg cd cl) (compareTop cfg a b) (compareTop cfg (toN0 a) (toN0 b)) := by
  rw [compareTop_eq_sub cfg a b hr, compareTop_eq_sub cfg _ _ (frame_rootPair_toN0 hr)]
  exact frame_sub cfg hl cd cl .entry [] a b ha hb (fun h => by cases h)

/-- when the walked mode never meets a plain container of the kind it checks, the run IS the run on the converted
trees -/
theorem frame_exact (cfg : Cfg) (hl : LeafTransform cfg) (cd cl : Cls) (hT : ¬ TagErr cfg cd cl) (a b : Val)
    (hr : RootPair a b) (ha : tagsKids cd cl a = true) (hb : tagsKids cd cl b = true) :
    compareTop cfg (toN0 a) (toN0 b) = (compareTop cfg a b).map (Res.mapV toN0) := by
  have h := frame_compareTop cfg hl cd cl a b hr ha hb
  cases hc : compareTop cfg a b with
  | ok r =>
    rw [hc] at h
    simp only [FrameRel] at h
    rw [h]; rfl
  | error e =>
    rw [hc] at h
    simp only [FrameRel] at h
    rcases h with h | h
    · rw [h]; rfl
    · exact absurd h.1 hT

/-- `compare()` on trees loaded by `n0dict(json_text)`: `n0dict`s everywhere, plain lists -/
theorem frame_keyed_loaded (cfg : Cfg) (hl : LeafTransform cfg) (hd : cfg.direct = false) (a b : Val)
    (hr : RootPair a b) (ha : tagsKids .n0 .plain a = true) (hb : tagsKids .n0 .plain b = true) :
    compareTop cfg (toN0 a) (toN0 b) = (compareTop cfg a b).map (Res.mapV toN0) :=
  frame_exact cfg hl .n0 .plain (by simp [TagErr, hd]) a b hr ha hb

/-- `direct_compare` on trees with `n0list`s and plain dictionaries -/
theorem frame_direct_plainDicts (cfg : Cfg) (hl : LeafTransform cfg) (hd : cfg.direct = true) (a b : Val)
    (hr : RootPair a b) (ha : tagsKids .plain .n0 a = true) (hb : tagsKids .plain .n0 b = true) :
    compareTop cfg (toN0 a) (toN0 b) = (compareTop cfg a b).map (Res.mapV toN0) :=
  frame_exact cfg hl .plain .n0 (by simp [TagErr, hd]) a b hr ha hb

/-- the verdict is the verdict on the converted trees -/
theorem frame_verdict (cfg : Cfg) (hl : LeafTransform cfg) (cd cl : Cls) (hT : ¬ TagErr cfg cd cl) (a b : Val)
    (hr : RootPair a b) (ha : tagsKids cd cl a = true) (hb : tagsKids cd cl b = true) :
    verdict (compareTop cfg (toN0 a) (toN0 b)) = verdict (compareTop cfg a b) := by
  rw [frame_exact cfg hl cd cl hT a b hr ha hb]
  cases compareTop cfg a b <;> rfl

/-! ### the tags DO matter: counter-examples to the unrestricted statement -/

/-- the result does not depend on the class tags below the roots — FALSE -/
def frame_stmt : Prop :=
  ∀ (cfg : Cfg) (a b : Val), cfg.tr = [] → RootPair a b →
    compareTop cfg (toN0 a) (toN0 b) = (compareTop cfg a b).map (Res.mapV toN0)

/-- mixed tags: `{'a': n0dict()}` against `{'a': {}}` (a plain `dict`) is a type clash, one line; converted: nothing -/
theorem frame_clash_cex :
    (compareTop (Cfg.default Flags.init false) (.dict .n0 [(['a'], .dict .n0 [])]) (.dict .n0 [(['a'], .dict .plain [])])).map
        (·.diffs) = .ok 1 ∧
    (compareTop (Cfg.default Flags.init false) (toN0 (.dict .n0 [(['a'], .dict .n0 [])]))
        (toN0 (.dict .n0 [(['a'], .dict .plain [])]))).map (·.diffs) = .ok 0 := by
  decide

/-- `direct_compare`, a plain list nested in a list: `AttributeError`; converted: nothing to report -/
theorem frame_attr_cex :
    compareTop (Cfg.default Flags.init true) (.list .n0 [.list .plain [.int 1]]) (.list .n0 [.list .plain [.int 1]])
      = .error .AttributeError ∧
    (compareTop (Cfg.default Flags.init true) (toN0 (.list .n0 [.list .plain [.int 1]]))
        (toN0 (.list .n0 [.list .plain [.int 1]]))).map (·.diffs) = .ok 0 := by
  decide

/-- `compare`, a plain `dict` as a list item: `TypeError` (other must be `n0dict`); converted: nothing to report -/
theorem frame_type_cex :
    compareTop (Cfg.default Flags.init false) (.list .n0 [.dict .plain [(['k'], .int 1)]])
        (.list .n0 [.dict .plain [(['k'], .int 1)]]) = .error .TypeError ∧
    (compareTop (Cfg.default Flags.init false) (toN0 (.list .n0 [.dict .plain [(['k'], .int 1)]]))
        (toN0 (.list .n0 [.dict .plain [(['k'], .int 1)]]))).map (·.diffs) = .ok 0 := by
  decide

theorem frame_stmt_false : ¬ frame_stmt := by
  intro h
  have h1 := h (Cfg.default Flags.init true) (.list .n0 [.list .plain [.int 1]]) (.list .n0 [.list .plain [.int 1]]) rfl
    (by simp [RootPair])
  rw [frame_attr_cex.1] at h1
  have h2 := frame_attr_cex.2
  rw [h1] at h2
  cases h2

/-- non-vacuity of `frame_keyed_loaded`: `{'r': [1, {'k': [2]}]}` against `{'r': [{'k': [3]}, 1]}` with plain lists -/
def frLoadedA : Val := .dict .n0 [(['r'], .list .plain [.int 1, .dict .n0 [(['k'], .list .plain [.int 2])]])]
def frLoadedB : Val := .dict .n0 [(['r'], .list .plain [.dict .n0 [(['k'], .list .plain [.int 3])], .int 1])]

theorem frLoaded_example :
    tagsKids .n0 .plain frLoadedA = true ∧ tagsKids .n0 .plain frLoadedB = true ∧
    (compareTop (Cfg.default Flags.init false) frLoadedA frLoadedB).map (fun r => (r.diffs, r.selfUnique.map (·.path)))
      = .ok (2, [[.key ['r'], .idx2 1 0, .key ['k'], .idx 0]]) ∧
    (compareTop (Cfg.default Flags.init false) (toN0 frLoadedA) (toN0 frLoadedB)).map
        (fun r => (r.diffs, r.selfUnique.map (·.path)))
      = .ok (2, [[.key ['r'], .idx2 1 0, .key ['k'], .idx 0]]) := by
  decide

end N0.Compare
