import N0Verif.Model.CsvReader
import N0Verif.Proofs.CsvFile
/-!
  Helper lemmas for the second half of C14 ("… and all agree with the standard csv reader"):

  * the state machine of `csv.reader` simulates the one of `parse_complex_csv_line` character by
    character on a physical line (`csvr_feed_sim`), which gives the exact domain on which the two
    agree (`csvr_reader_line`);
  * `csv.reader` over a saved file returns the table (`csvr_readerAux_written`);
  * `load_simple_csv` = `load_csv` on every file without a quote character;
  * `load_native_csv` on saved files;
  * written lines under `strip_field`, `strip_line`, `skip_empty_lines=False`.
-/
set_option linter.unusedSimpArgs false
namespace N0.CsvReader
open N0 N0.Py N0.Csv N0.CsvFile N0.C13

/-! ### the reader simulates the library parser inside a physical line -/

/-- the reader state that corresponds to a parser state (after at least one character, or at
the start of a field) -/
def toR (st : St) : RSt :=
  { state := if st.qb then (if st.ex then .quoteInQuoted else .inQuoted)
             else (if st.field.isEmpty then .startField else .inField),
    field := st.field, fields := st.out }

/-- reachable parser states: the "expect delimiter or quote" flag is only set inside quotes -/
def Inv (st : St) : Prop := st.qb = false → st.ex = false

theorem isNL_false {c : Char} (h1 : c ≠ '\r') (h2 : c ≠ '\n') : isNL c = false := by
  simp [isNL, h1, h2]

theorem csvr_sim_step (d : Char) (hd : d ≠ '"') (st : St) (hinv : Inv st) (c : Char)
    (hc : isNL c = false) :
    (∀ st', step d st c = .ok st' → rstep d (toR st) (some c) = .ok (toR st') ∧ Inv st')
    ∧ (∀ e, step d st c = .error e → rstep d (toR st) (some c) = .error .csv) := by
  obtain ⟨field, out, qb, ex⟩ := st
  have hd' : ¬ ('"' = d) := fun h => hd h.symm
  cases qb <;> cases ex
  · -- unquoted
    by_cases hcd : c = d
    · subst hcd
      cases field <;>
        simp [step, rstep, toR, stepStartField, RSt.save, RSt.add, RSt.goto, hc, hd, Inv]
    · by_cases hq : c = '"'
      · subst hq
        cases field <;>
          simp [step, rstep, toR, stepStartField, RSt.save, RSt.add, RSt.goto, hc, hd', hcd, Inv]
      · cases field <;>
          simp [step, rstep, toR, stepStartField, RSt.save, RSt.add, RSt.goto, hc, hcd, hq, Inv]
  · exact absurd (hinv rfl) (by simp)
  · -- inside quotes
    by_cases hcd : c = d
    · subst hcd
      simp [step, rstep, toR, RSt.save, RSt.add, RSt.goto, hd, Inv]
    · by_cases hq : c = '"'
      · subst hq
        simp [step, rstep, toR, RSt.save, RSt.add, RSt.goto, hd', Inv]
      · simp [step, rstep, toR, RSt.save, RSt.add, RSt.goto, hcd, hq, Inv]
  · -- after a quote inside quotes
    by_cases hcd : c = d
    · subst hcd
      simp [step, rstep, toR, RSt.save, RSt.add, RSt.goto, hd, Inv]
    · by_cases hq : c = '"'
      · subst hq
        simp [step, rstep, toR, RSt.save, RSt.add, RSt.goto, hd', Inv]
      · simp [step, rstep, toR, RSt.save, RSt.add, RSt.goto, hcd, hq, hc, Inv]

/-- what the reader does on the characters of a line body, in terms of the parser's run -/
def simOf (x : PyM St) : Except RErr RSt :=
  match x with
  | .ok st => .ok (toR st)
  | .error _ => .error .csv

theorem csvr_feed_sim (d : Char) (hd : d ≠ '"') (body : Str) (hb : NoBreak body) (st : St)
    (hinv : Inv st) :
    feed d (toR st) body = simOf (run d st body)
      ∧ ∀ st', run d st body = .ok st' → Inv st' := by
  induction body generalizing st with
  | nil => simp [feed, run, simOf, hinv]
  | cons c body ih =>
    have h1 : c ≠ '\r' := fun h => hb.1 (by simp [h])
    have h2 : c ≠ '\n' := fun h => hb.2 (by simp [h])
    have hb' : NoBreak body := ⟨fun h => hb.1 (by simp [h]), fun h => hb.2 (by simp [h])⟩
    obtain ⟨hok, herr⟩ := csvr_sim_step d hd st hinv c (isNL_false h1 h2)
    simp only [feed, run]
    cases hs : step d st c with
    | error e =>
      rw [herr e hs]
      simp [bind, Except.bind, simOf]
    | ok st' =>
      obtain ⟨hr, hi'⟩ := hok st' hs
      rw [hr]
      simp only [bind, Except.bind]
      exact ih hb' st' hi'

theorem csvr_feed_append (d : Char) (r : RSt) (a b : Str) :
    feed d r (a ++ b) = (feed d r a) >>= (fun r' => feed d r' b) := by
  induction a generalizing r with
  | nil => simp [feed, bind, Except.bind]
  | cons c a ih =>
    simp only [List.cons_append, feed]
    cases h : rstep d r (some c) with
    | error e => rfl
    | ok r' => simp [ih, bind, Except.bind]

/-- in `EAT_CRNL` further CR/LF characters are swallowed -/
theorem csvr_feed_eat (d : Char) (r : RSt) (hs : r.state = .eatCRNL) (e : Str) (he : IsEol e) :
    feed d r e = .ok r := by
  induction e with
  | nil => rfl
  | cons c e ih =>
    have hc : isNL c = true := by
      rcases he c (by simp) with h | h <;> simp [isNL, h]
    simp only [feed, rstep, hs, hc, if_true, bind, Except.bind]
    exact ih (fun x hx => he x (by simp [hx]))

/-- the end of a line after a complete field: the field is saved and the record ends -/
theorem csvr_line_end (d : Char) (hdn : isNL d = false) (r : RSt)
    (hs : r.state = .startField ∨ r.state = .inField ∨ r.state = .quoteInQuoted)
    (e : Str) (he : IsEol e) :
    ∃ r1, feed d r e = .ok r1
      ∧ rstep d r1 none = .ok { state := .startRecord, field := [], fields := r.fields ++ [r.field] } := by
  cases e with
  | nil =>
    refine ⟨r, rfl, ?_⟩
    rcases hs with h | h | h <;> simp [rstep, h, stepStartField, RSt.save]
  | cons c e =>
    have hc : isNL c = true := by
      rcases he c (by simp) with h | h <;> simp [isNL, h]
    have hne : c ≠ '"' := by
      intro h; subst h; simp [isNL] at hc
    have hrest : IsEol e := fun x hx => he x (by simp [hx])
    have key : rstep d r (some c) = .ok (r.save .eatCRNL) := by
      rcases hs with h | h | h
      · simp [rstep, h, stepStartField, hc]
      · simp [rstep, h, hc]
      · simp only [rstep, h, hne, if_false]
        have hcd : c ≠ d := by
          intro h; subst h; rw [hc] at hdn; cases hdn
        simp [hcd, hc]
    refine ⟨r.save .eatCRNL, ?_, ?_⟩
    · simp only [feed, key, bind, Except.bind]
      exact csvr_feed_eat d _ rfl e hrest
    · simp [rstep, RSt.save, RSt.goto]

/-- inside an open quoted field the line ending is data and the record continues -/
theorem csvr_feed_open (d : Char) (r : RSt) (hs : r.state = .inQuoted) (e : Str) (he : IsEol e) :
    feed d r e = .ok { state := .inQuoted, field := r.field ++ e, fields := r.fields } := by
  induction e generalizing r with
  | nil =>
    obtain ⟨s, f, fs⟩ := r
    simp only at hs
    subst hs
    simp [feed]
  | cons c e ih =>
    have hc : isNL c = true := by
      rcases he c (by simp) with h | h <;> simp [isNL, h]
    have hne : c ≠ '"' := by
      intro h; subst h; simp [isNL] at hc
    simp only [feed, rstep, hs, hne, if_false, bind, Except.bind]
    rw [ih (r.add c .inQuoted) rfl (fun x hx => he x (by simp [hx]))]
    simp [RSt.add]

/-- the first character of a record is handled as the first character of a field -/
theorem csvr_first_char (d : Char) (c : Char) (hc : isNL c = false) :
    rstep d RSt.init (some c) = rstep d (toR St.init) (some c) := by
  simp [rstep, RSt.init, toR, St.init, hc, stepStartField, RSt.save, RSt.add, RSt.goto]

/-- **one physical line**: what `csv.reader` makes of `body ++ eol` (no line break inside `body`,
`body` not empty), in terms of the library parser's run over `body` -/
theorem csvr_reader_line (d : Char) (hd : GoodDelim d) (body : Str) (hb : NoBreak body)
    (hne : body ≠ []) (eol : Str) (he : IsEol eol) :
    readerAux d RSt.init [body ++ eol] =
      match run d St.init body with
      | .error _ => ([], some .csv)
      | .ok st => if st.qb && !st.ex then ([], some .csv) else ([st.out ++ [st.field]], none) := by
  have hdn : isNL d = false := isNL_false hd.2.1 hd.2.2
  have hinit : Inv St.init := fun _ => rfl
  obtain ⟨hsim, hinv⟩ := csvr_feed_sim d hd.1 body hb St.init hinit
  have hfeed : feed d RSt.init (body ++ eol) = feed d (toR St.init) (body ++ eol) := by
    cases body with
    | nil => exact absurd rfl hne
    | cons c rest =>
      have h1 : c ≠ '\r' := fun h => hb.1 (by simp [h])
      have h2 : c ≠ '\n' := fun h => hb.2 (by simp [h])
      simp only [List.cons_append, feed, csvr_first_char d c (isNL_false h1 h2)]
  simp only [readerAux, feedLine, hfeed, csvr_feed_append, hsim]
  cases hr : run d St.init body with
  | error e => simp [simOf, bind, Except.bind]
  | ok st =>
    have hi := hinv st hr
    obtain ⟨field, out, qb, ex⟩ := st
    simp only [simOf, bind, Except.bind]
    cases qb <;> cases ex
    · -- unquoted field (or empty field after a delimiter)
      have hs : (toR ⟨field, out, false, false⟩).state = .startField
          ∨ (toR ⟨field, out, false, false⟩).state = .inField
          ∨ (toR ⟨field, out, false, false⟩).state = .quoteInQuoted := by
        cases field <;> simp [toR]
      obtain ⟨r1, hf1, hs1⟩ := csvr_line_end d hdn _ hs eol he
      simp only [hf1, hs1]
      simp [toR, readerAux, RSt.init]
    · exact absurd (hi rfl) (by simp)
    · -- the quoted field is still open at the end of the line
      rw [csvr_feed_open d (toR ⟨field, out, true, false⟩) (by simp [toR]) eol he]
      simp [rstep, readerAux]
    · have hs : (toR ⟨field, out, true, true⟩).state = .startField
          ∨ (toR ⟨field, out, true, true⟩).state = .inField
          ∨ (toR ⟨field, out, true, true⟩).state = .quoteInQuoted := by
        simp [toR]
      obtain ⟨r1, hf1, hs1⟩ := csvr_line_end d hdn _ hs eol he
      simp only [hf1, hs1]
      simp [toR, readerAux, RSt.init]

/-- a blank line is the empty record -/
theorem csvr_reader_blank (d : Char) (eol : Str) (he : IsEol eol) :
    feedLine d RSt.init eol = .ok RSt.init := by
  cases eol with
  | nil => simp [feedLine, feed, bind, Except.bind, rstep, RSt.init]
  | cons c e =>
    have hc : isNL c = true := by
      rcases he c (by simp) with h | h <;> simp [isNL, h]
    simp only [feedLine, feed, rstep, RSt.init, hc, if_true, bind, Except.bind]
    rw [csvr_feed_eat d _ rfl e (fun x hx => he x (by simp [hx]))]
    simp [rstep, RSt.goto]

/-! ### written lines end with every quote closed -/

theorem csvr_run_field_end (d : Char) (hd : d ≠ '"') (q : Str → Bool) (hq : Adequate d q)
    (o : List Str) (f : Str) :
    ∃ b, run d { field := [], out := o, qb := false, ex := false } (encWith q f)
      = .ok { field := f, out := o, qb := b, ex := b } := by
  unfold encWith
  by_cases h : q f = true
  · refine ⟨true, ?_⟩
    simp only [h, if_true]
    have := run_quoted d hd o f []
    simpa [run] using this
  · have h1 : d ∉ f := fun hm => h (hq f (Or.inl hm))
    have h2 : f.head? ≠ some '"' := fun hm => h (hq f (Or.inr hm))
    refine ⟨false, ?_⟩
    simp only [h]
    simp only [Bool.false_eq_true, if_false]
    have := run_plain d o f [] h1 h2
    simpa [run] using this

theorem csvr_run_row (d : Char) (hd : d ≠ '"') (q : Str → Bool) (hq : Adequate d q)
    (o : List Str) (f : Str) (fs : List Str) :
    ∃ st, run d { field := [], out := o, qb := false, ex := false } (rowStr d q f fs) = .ok st
      ∧ st.out ++ [st.field] = o ++ f :: fs ∧ st.qb = st.ex := by
  induction fs generalizing o f with
  | nil =>
    obtain ⟨b, h⟩ := csvr_run_field_end d hd q hq o f
    exact ⟨_, h, rfl, rfl⟩
  | cons g gs ih =>
    simp only [rowStr]
    rw [run_field_delim d hd q hq]
    obtain ⟨st, h1, h2, h3⟩ := ih (o ++ [f]) g
    exact ⟨st, h1, by simp [h2], h3⟩

theorem csvr_rowStr_ne_nil (d : Char) (q : Str → Bool) (f : Str) (fs : List Str)
    (h : fs = [] → f = [] → q [] = true) : rowStr d q f fs ≠ [] := by
  cases fs with
  | nil =>
    simp only [rowStr]
    apply encWith_ne_nil_of
    intro hf
    subst hf
    exact h rfl rfl
  | cons g gs =>
    simp only [rowStr]
    intro hc
    have : d ∈ (encWith q f ++ d :: rowStr d q g gs) := by simp
    rw [hc] at this
    simp at this

theorem csvr_rowStr_noBreak (d : Char) (hd : GoodDelim d) (q : Str → Bool) (f : Str) (fs : List Str)
    (hf : ∀ g ∈ f :: fs, NoBreak g) : NoBreak (rowStr d q f fs) := by
  constructor
  · intro h
    rcases rowStr_mem d q f fs _ h with h | h | ⟨g, hg, hc⟩
    · exact hd.2.1 h.symm
    · exact absurd h (by decide)
    · exact (hf g hg).1 hc
  · intro h
    rcases rowStr_mem d q f fs _ h with h | h | ⟨g, hg, hc⟩
    · exact hd.2.2 h.symm
    · exact absurd h (by decide)
    · exact (hf g hg).2 hc

/-- **reader-side round trip**: every adequate quoting decision (that also quotes a lone empty
field) is read back by `csv.reader` -/
theorem csvr_reader_rowStr (d : Char) (hd : GoodDelim d) (q : Str → Bool) (hq : Adequate d q)
    (f : Str) (fs : List Str) (hf : ∀ g ∈ f :: fs, NoBreak g)
    (hlone : fs = [] → f = [] → q [] = true) (eol : Str) (he : IsEol eol) :
    readerAux d RSt.init [rowStr d q f fs ++ eol] = ([f :: fs], none) := by
  rw [csvr_reader_line d hd _ (csvr_rowStr_noBreak d hd q f fs hf)
    (csvr_rowStr_ne_nil d q f fs hlone) eol he]
  obtain ⟨st, h1, h2, h3⟩ := csvr_run_row d hd.1 q hq [] f fs
  have h1' : run d St.init (rowStr d q f fs) = .ok st := h1
  rw [h1']
  simp only
  have : (st.qb && !st.ex) = false := by rw [h3]; cases st.ex <;> rfl
  rw [this]
  simp at h2
  simp [h2]


/-! ### `csv.reader` over a saved file -/

theorem csvr_feedLine_of_single (d : Char) (l : Str) (rec : List Str)
    (h : readerAux d RSt.init [l] = ([rec], none)) :
    ∃ r', feedLine d RSt.init l = .ok r' ∧ r'.state = .startRecord ∧ r'.fields = rec := by
  simp only [readerAux] at h
  cases hf : feedLine d RSt.init l with
  | error e => rw [hf] at h; simp at h
  | ok r' =>
    rw [hf] at h
    simp only at h
    by_cases hs : r'.state = .startRecord
    · simp [hs] at h
      exact ⟨r', rfl, hs, h.1.1⟩
    · have : (r'.state == RState.startRecord) = false := by simpa using hs
      rw [this] at h
      simp only [Bool.false_eq_true, if_false] at h
      split at h <;> simp at h

theorem csvr_readerAux_cons (d : Char) (l : Str) (ls : List Str) (r' : RSt)
    (hf : feedLine d RSt.init l = .ok r') (hs : r'.state = .startRecord) :
    readerAux d RSt.init (l :: ls)
      = (r'.fields :: (readerAux d RSt.init ls).1, (readerAux d RSt.init ls).2) := by
  simp [readerAux, hf, hs]

/-- `csv.reader` reads the lines `csv.writer` wrote back as the rows (an empty row, written as
a blank line, comes back as the empty record) -/
theorem csvr_readerAux_written (d : Char) (hd : GoodDelim d) (eol : Str) (he : IsEol eol)
    (rows : List (List Str)) (hc : NoBreakRows rows) :
    readerAux d RSt.init (rows.map (fun r => bodyOf d LF r ++ eol)) = (rows, none) := by
  induction rows with
  | nil => simp [readerAux, RSt.init]
  | cons r rows ih =>
    have hr := hc.head
    simp only [List.map_cons]
    cases r with
    | nil =>
      rw [bodyOf_nil, List.nil_append,
        csvr_readerAux_cons d eol _ RSt.init (csvr_reader_blank d eol he) rfl, ih hc.tail]
      rfl
    | cons f fs =>
      rw [bodyOf_cons]
      have hsingle := csvr_reader_rowStr d hd _ (writer_adequate d LF ((f :: fs).length == 1)) f fs hr
        (by
          intro h1 h2
          subst h1; subst h2
          simp [writerNeedsQuote]) eol he
      obtain ⟨r', hf, hs, hfl⟩ := csvr_feedLine_of_single d _ _ hsingle
      rw [csvr_readerAux_cons d _ _ r' hf hs, ih hc.tail, hfl]

theorem nlLines_body_lf (body rest : Str) (hb : NoBreak body) :
    nlLines (body ++ '\n' :: rest) = (body ++ ['\n']) :: nlLines rest := by
  induction body with
  | nil => simp [nlLines]
  | cons c body ih =>
    have h1 : c ≠ '\r' := fun h => hb.1 (by simp [h])
    have h2 : c ≠ '\n' := fun h => hb.2 (by simp [h])
    have hb' : NoBreak body := ⟨fun h => hb.1 (by simp [h]), fun h => hb.2 (by simp [h])⟩
    simp only [List.cons_append, nlLines, h1, h2, if_false]
    rw [ih hb']

theorem nlLines_body_crlf (body rest : Str) (hb : NoBreak body) :
    nlLines (body ++ '\r' :: '\n' :: rest) = (body ++ ['\r', '\n']) :: nlLines rest := by
  induction body with
  | nil => simp [nlLines]
  | cons c body ih =>
    have h1 : c ≠ '\r' := fun h => hb.1 (by simp [h])
    have h2 : c ≠ '\n' := fun h => hb.2 (by simp [h])
    have hb' : NoBreak body := ⟨fun h => hb.1 (by simp [h]), fun h => hb.2 (by simp [h])⟩
    simp only [List.cons_append, nlLines, h1, h2, if_false]
    rw [ih hb']

theorem nlLines_body_eol (body rest e : Str) (he : Eol e) (hb : NoBreak body) :
    nlLines (body ++ e ++ rest) = (body ++ e) :: nlLines rest := by
  rcases he with h | h <;> subst h
  · simpa [LF] using nlLines_body_lf body rest hb
  · simpa [CRLF] using nlLines_body_crlf body rest hb

theorem nlLines_written (d : Char) (hd : GoodDelim d) (eol : Str) (he : Eol eol)
    (rows : List (List Str)) (hc : NoBreakRows rows) :
    nlLines (written d eol rows) = rows.map (fun r => bodyOf d LF r ++ eol) := by
  induction rows with
  | nil => rfl
  | cons r rows ih =>
    have hr := hc.head
    simp only [written, List.flatMap_cons, List.map_cons, writerLine_eq]
    rw [nlLines_body_eol _ _ _ he (bodyOf_noBreak d hd eol r hr)]
    rw [bodyOf_term d eol LF he.isEol (Eol.isEol (Or.inl rfl)) r hr]
    congr 1
    exact ih hc.tail

/-- the lines `load_native_csv` / `csv.reader` see of a saved file (text mode, `newline=''`,
`utf-8-sig`) -/
theorem csvr_nlLines_file (d : Char) (hd : GoodDelim d) (hdb : d ≠ bomChar) (eol : Str) (he : Eol eol)
    (bom : Bool) (rows : List (List Str)) (hc : NoBreakRows rows) (hb : NoBomRows rows) :
    nlLines (decodeSig (withBom bom (written d eol rows)))
      = rows.map (fun r => bodyOf d LF r ++ eol) := by
  unfold withBom
  cases bom with
  | true =>
    simp only [if_true, decodeSig_bom]
    exact nlLines_written d hd eol he rows hc
  | false =>
    simp only [Bool.false_eq_true, if_false]
    rw [decodeSig_of_not_mem _ (bom_not_mem_written d hdb eol he rows hb)]
    exact nlLines_written d hd eol he rows hc


/-! ### load_simple_csv: `load_csv` with another line parser -/

theorem readRowsWith_parseLine (o : Opts) (names cn : List Key) (ls : List Str) :
    readRowsWith parseLine o names cn ls = readRows o names cn ls := by
  induction ls with
  | nil => rfl
  | cons l ls ih => simp only [readRowsWith, readRows, ih]

/-- the parametrised loop is `load_csv`'s own loop when the parser is `parse_complex_csv_line` -/
theorem loadLinesWith_parseLine (o : Opts) (ls : List Str) :
    loadLinesWith parseLine o ls = loadLines o ls := by
  unfold loadLinesWith loadLines
  simp only [readRowsWith_parseLine]
  rfl

theorem readRowsWith_congr (P Q : Opts → Str → PyM (List Str)) (o : Opts) (names cn : List Key)
    (ls : List Str) (h : ∀ l ∈ ls, P o (procLine o l) = Q o (procLine o l)) :
    readRowsWith P o names cn ls = readRowsWith Q o names cn ls := by
  induction ls with
  | nil => rfl
  | cons l ls ih =>
    have h1 := h l (by simp)
    have h2 := ih (fun x hx => h x (by simp [hx]))
    simp only [readRowsWith, h1, h2]

theorem skipBlank_spec (o : Opts) (ls : List Str) (f hl : Str) (rest : List Str)
    (h : skipBlank o ls = some (f, hl, rest)) :
    f ∈ ls ∧ hl = procLine o f ∧ ∀ l ∈ rest, l ∈ ls := by
  induction ls with
  | nil => simp [skipBlank] at h
  | cons l ls ih =>
    simp only [skipBlank] at h
    split at h
    · cases h
    · split at h
      · obtain ⟨h1, h2, h3⟩ := ih h
        exact ⟨by simp [h1], h2, fun x hx => by simp [h3 x hx]⟩
      · simp only [Option.some.injEq, Prod.mk.injEq] at h
        obtain ⟨h1, h2, h3⟩ := h
        subst h1; subst h2; subst h3
        exact ⟨by simp, rfl, fun x hx => by simp [hx]⟩

/-- two line parsers that agree on the (processed) lines of the file give the same result -/
theorem loadLinesWith_congr (P Q : Opts → Str → PyM (List Str)) (o : Opts) (ls : List Str)
    (h : ∀ l ∈ ls, P o (procLine o l) = Q o (procLine o l)) :
    loadLinesWith P o ls = loadLinesWith Q o ls := by
  unfold loadLinesWith
  cases hn : normalise o with
  | error e => rfl
  | ok n =>
    simp only [bind, Except.bind]
    cases hs : skipBlank o ls with
    | none => rfl
    | some t =>
      obtain ⟨f, hl, rest⟩ := t
      obtain ⟨h1, h2, h3⟩ := skipBlank_spec o ls f hl rest hs
      subst h2
      have e0 := h f h1
      have e1 : ∀ names cn, readRowsWith P o names cn (f :: rest) = readRowsWith Q o names cn (f :: rest) :=
        fun names cn => readRowsWith_congr P Q o names cn _ (by
          intro l hl
          rcases List.mem_cons.1 hl with hl | hl
          · subst hl; exact e0
          · exact h l (h3 l hl))
      have e2 : ∀ names cn, readRowsWith P o names cn rest = readRowsWith Q o names cn rest :=
        fun names cn => readRowsWith_congr P Q o names cn _ (fun l hl => h l (h3 l hl))
      simp only [e0, e1, e2]

def prependHead (pre : Str) : List Str → List Str
  | [] => [pre]
  | h :: t => (pre ++ h) :: t

theorem splitChar_ne_nil (d : Char) (s : Str) : splitChar d s ≠ [] := by
  induction s with
  | nil => simp [splitChar]
  | cons c s ih =>
    simp only [splitChar]
    split
    · simp
    · split <;> simp

theorem prependHead_nil (l : List Str) (h : l ≠ []) : prependHead [] l = l := by
  cases l with
  | nil => exact absurd rfl h
  | cons x xs => simp [prependHead]

/-- without a quote character the library parser is a plain split at the delimiter -/
theorem csvr_run_no_quote (d : Char) (s : Str) (hq : '"' ∉ s) (pre : Str) (o : List Str) :
    ∃ st, run d { field := pre, out := o, qb := false, ex := false } s = .ok st
      ∧ st.out ++ [st.field] = o ++ prependHead pre (splitChar d s) := by
  induction s generalizing pre o with
  | nil => exact ⟨_, rfl, by simp [splitChar, prependHead]⟩
  | cons c s ih =>
    have hc : c ≠ '"' := fun h => hq (by simp [h])
    have hq' : '"' ∉ s := fun h => hq (by simp [h])
    by_cases hcd : c = d
    · subst hcd
      obtain ⟨st, h1, h2⟩ := ih hq' [] (o ++ [pre])
      refine ⟨st, ?_, ?_⟩
      · simp only [run, step, true_and, if_true, bind, Except.bind]
        simpa using h1
      · rw [h2, prependHead_nil _ (splitChar_ne_nil c s)]
        simp [splitChar, prependHead]
    · obtain ⟨st, h1, h2⟩ := ih hq' (pre ++ [c]) o
      refine ⟨st, ?_, ?_⟩
      · simp only [run, step, hcd, false_and, if_false, hc, bind, Except.bind]
        simpa using h1
      · rw [h2]
        simp only [splitChar, hcd, if_false]
        cases hsp : splitChar d s with
        | nil => exact absurd hsp (splitChar_ne_nil d s)
        | cons x xs => simp [prependHead]

theorem mem_of_mem_rstrip (chars s : Str) (c : Char) (h : c ∈ rstrip chars s) : c ∈ s := by
  unfold rstrip at h
  rw [List.mem_reverse] at h
  have := (List.dropWhile_sublist (fun c => chars.contains c) (l := s.reverse)).subset h
  simpa using this

theorem mem_of_mem_stripWith (p : Char → Bool) (s : Str) (c : Char) (h : c ∈ stripWith p s) :
    c ∈ s := by
  unfold stripWith at h
  rw [List.mem_reverse] at h
  have h1 := (List.dropWhile_sublist p (l := (s.dropWhile p).reverse)).subset h
  rw [List.mem_reverse] at h1
  exact (List.dropWhile_sublist p (l := s)).subset h1

theorem mem_of_mem_procLine (o : Opts) (l : Str) (c : Char) (h : c ∈ procLine o l) : c ∈ l := by
  unfold procLine at h
  simp only at h
  split at h
  · exact mem_of_mem_rstrip _ _ _ (mem_of_mem_stripWith _ _ _ h)
  · exact mem_of_mem_rstrip _ _ _ h

theorem csvr_parse_no_quote (d : Char) (line : Str) (hq : '"' ∉ line) :
    parse d line = .ok (splitChar d (rstrip crlf line)) := by
  unfold parse
  have hq' : '"' ∉ rstrip crlf line := fun h => hq (mem_of_mem_rstrip _ _ _ h)
  obtain ⟨st, h1, h2⟩ := csvr_run_no_quote d _ hq' [] []
  have h1' : run d St.init (rstrip crlf line) = .ok st := h1
  rw [h1']
  rw [prependHead_nil _ (splitChar_ne_nil _ _)] at h2
  simp only [bind, Except.bind, pure, Except.pure]
  simpa using h2

/-- `load_simple_csv`'s parser equals `load_csv`'s on a line without a quote (text mode) -/
theorem csvr_simpleParse_eq (o : Opts) (hb : o.binary = false) (l : Str) (hq : '"' ∉ l) :
    simpleParse o l = parseLine o l := by
  unfold simpleParse parseLine
  rw [csvr_parse_no_quote o.delim l hq]
  simp [hb, bind, Except.bind, pure, Except.pure]

theorem textLinesAux_mem (b : Bool) (s : Str) :
    ∀ l ∈ textLinesAux b s, ∀ c ∈ l, c ∈ s ∨ c = '\n' := by
  induction s generalizing b with
  | nil => simp [textLinesAux]
  | cons x s ih =>
    intro l hl c hc
    simp only [textLinesAux] at hl
    split at hl
    · split at hl
      · rcases ih false l hl c hc with h | h
        · exact Or.inl (by simp [h])
        · exact Or.inr h
      · rcases List.mem_cons.1 hl with h | h
        · subst h; simp at hc; exact Or.inr hc
        · rcases ih false l h c hc with h | h
          · exact Or.inl (by simp [h])
          · exact Or.inr h
    · split at hl
      · rcases List.mem_cons.1 hl with h | h
        · subst h; simp at hc; exact Or.inr hc
        · rcases ih true l h c hc with h | h
          · exact Or.inl (by simp [h])
          · exact Or.inr h
      · split at hl
        · simp at hl; subst hl; simp at hc; exact Or.inl (by simp [hc])
        · rename_i l0 ls0 heq
          rcases List.mem_cons.1 hl with h | h
          · subst h
            rcases List.mem_cons.1 hc with h | h
            · exact Or.inl (by simp [h])
            · rcases ih false l0 (by rw [heq]; simp) c h with h | h
              · exact Or.inl (by simp [h])
              · exact Or.inr h
          · rcases ih false l (by rw [heq]; simp [h]) c hc with h | h
            · exact Or.inl (by simp [h])
            · exact Or.inr h

theorem mem_of_mem_decodeSig (s : Str) (c : Char) (h : c ∈ decodeSig s) : c ∈ s := by
  cases s with
  | nil => simp [decodeSig] at h
  | cons x s =>
    simp only [decodeSig] at h
    split at h
    · simp [h]
    · exact h

theorem csvr_physLines_no_quote (file : Str) (hq : '"' ∉ file) :
    ∀ l ∈ physLines false file, '"' ∉ l := by
  intro l hl hc
  simp only [physLines, Bool.false_eq_true, if_false, textLines] at hl
  rcases textLinesAux_mem false _ l hl _ hc with h | h
  · exact hq (mem_of_mem_decodeSig _ _ h)
  · exact absurd h (by decide)

/-- **load_simple_csv = load_csv on every file without a quote character** (text mode, every
option record, also invalid ones) -/
theorem csvr_loadSimple_no_quote (o : Opts) (hb : o.binary = false) (hru : o.returnUnknown = false)
    (file : Str) (hq : '"' ∉ file) : loadSimple o file = loadCsv o file := by
  have ho : { o with returnUnknown := false } = o := by
    cases o; simp only at hru; subst hru; rfl
  unfold loadSimple loadCsv
  rw [ho, ← loadLinesWith_parseLine, hb]
  apply loadLinesWith_congr
  intro l hl
  apply csvr_simpleParse_eq o hb
  intro hc
  exact csvr_physLines_no_quote file hq l hl (mem_of_mem_procLine o l _ hc)

/-! a saved table whose cells need no quoting contains no quote character -/

theorem join_mem (sep : Str) (l : List Str) (c : Char) (h : c ∈ join sep l) :
    c ∈ sep ∨ ∃ g ∈ l, c ∈ g := by
  induction l with
  | nil => simp [join] at h
  | cons x xs ih =>
    cases xs with
    | nil => simp only [join] at h; exact Or.inr ⟨x, by simp, h⟩
    | cons y ys =>
      simp only [join, List.mem_append] at h
      rcases h with (h | h) | h
      · exact Or.inr ⟨x, by simp, h⟩
      · exact Or.inl h
      · rcases ih h with h | ⟨g, hg, hcg⟩
        · exact Or.inl h
        · exact Or.inr ⟨g, by simp at hg ⊢; right; exact hg, hcg⟩

/-- cells that `csv.writer` leaves unquoted: no delimiter, no quote, no line break -/
def PlainCell (d : Char) (f : Str) : Prop := d ∉ f ∧ '"' ∉ f ∧ NoBreak f

theorem writerNeedsQuote_plain (d : Char) (term : Str) (ht : IsEol term) (single : Bool) (f : Str)
    (hf : PlainCell d f) (hs : single = true → f ≠ []) :
    writerNeedsQuote d term single f = false := by
  unfold writerNeedsQuote
  have h1 : f.any (fun c => c = d || c = '"' || term.contains c) = false := by
    rw [List.any_eq_false]
    intro c hc
    have hcd : c ≠ d := fun h => hf.1 (h ▸ hc)
    have hcq : c ≠ '"' := fun h => hf.2.1 (h ▸ hc)
    have hcr : c ≠ '\r' := fun h => hf.2.2.1 (h ▸ hc)
    have hcn : c ≠ '\n' := fun h => hf.2.2.2 (h ▸ hc)
    have hct : c ∉ term := by
      have := eol_contains_false term ht c hcr hcn
      simpa using this
    simp [hcd, hcq, hct]
  rw [h1]
  cases single with
  | false => rfl
  | true =>
    have := hs rfl
    cases f with
    | nil => exact absurd rfl this
    | cons _ _ => rfl

theorem bodyOf_plain (d : Char) (term : Str) (ht : IsEol term) (r : List Str)
    (hr : ∀ f ∈ r, PlainCell d f) (hlone : r ≠ [[]]) : bodyOf d term r = join [d] r := by
  unfold bodyOf
  congr 1
  have : ∀ f ∈ r, encWith (writerNeedsQuote d term (r.length == 1)) f = f := by
    intro f hf
    unfold encWith
    rw [writerNeedsQuote_plain d term ht _ f (hr f hf) (by
      intro hl hfe
      subst hfe
      cases r with
      | nil => simp at hf
      | cons x xs =>
        cases xs with
        | nil => simp at hf; subst hf; exact hlone rfl
        | cons _ _ => simp at hl)]
    simp
  calc r.map (encWith (writerNeedsQuote d term (r.length == 1)))
      = r.map id := List.map_congr_left this
    _ = r := List.map_id r

theorem csvr_written_no_quote (d : Char) (hd : d ≠ '"') (eol : Str) (he : Eol eol)
    (rows : List (List Str)) (hr : ∀ r ∈ rows, (∀ f ∈ r, PlainCell d f) ∧ r ≠ [[]]) (bom : Bool) :
    '"' ∉ withBom bom (written d eol rows) := by
  have hw : '"' ∉ written d eol rows := by
    intro h
    unfold written at h
    rw [List.mem_flatMap] at h
    obtain ⟨r, hrm, hc⟩ := h
    rw [writerLine_eq, List.mem_append] at hc
    rcases hc with hc | hc
    · rw [bodyOf_plain d eol he.isEol r (hr r hrm).1 (hr r hrm).2] at hc
      rcases join_mem _ _ _ hc with h | ⟨g, hg, hcg⟩
      · simp at h; exact hd h.symm
      · exact ((hr r hrm).1 g hg).2.1 hcg
    · rcases he.isEol _ hc with h | h <;> exact absurd h (by decide)
  unfold withBom
  split
  · intro h
    rcases List.mem_cons.1 h with h | h
    · exact absurd h (by decide)
    · exact hw h
  · exact hw


/-! ### load_native_csv on saved files -/

theorem nativeRec_nodup (names : List Str) (hn : names.Nodup) (row : List Str) :
    nativeRec names row
      = { row := zipPad (names.map Key.name) row,
          rest := if names.length < row.length then some (row.drop names.length) else none } := by
  unfold nativeRec
  rw [dictOf_zipPad _ _ (nodup_map_name names hn)]

/-- the `key != value` test over the pairs of a row -/
def pairMismatch (kv : Key × Option Str) : Bool :=
  match kv with
  | (.name k, some v) => k != v
  | _ => true

theorem headerMismatch_eq (r : NRec) :
    headerMismatch r = (r.rest.isSome || r.row.any pairMismatch) := rfl

theorem zipPad_self_any (names : List Str) :
    (zipPad (names.map Key.name) names).any pairMismatch = false := by
  induction names with
  | nil => rfl
  | cons k ks ih => simp [zipPad, pairMismatch, ih]

theorem zipPad_any_false (names row : List Str) (hl : row.length ≤ names.length)
    (h : (zipPad (names.map Key.name) row).any pairMismatch = false) : row = names := by
  induction names generalizing row with
  | nil => cases row with
    | nil => rfl
    | cons _ _ => simp at hl
  | cons k ks ih =>
    cases row with
    | nil => simp [zipPad, pairMismatch] at h
    | cons v vs =>
      simp only [List.map_cons, zipPad, List.any_cons, Bool.or_eq_false_iff] at h
      have hkv : k = v := by
        have := h.1
        simpa [pairMismatch] using this
      rw [hkv, ih vs (by simpa using hl) h.2]

/-- the header row is accepted exactly when it equals the given names -/
theorem headerMismatch_iff (names : List Str) (hn : names.Nodup) (row : List Str) :
    headerMismatch (nativeRec names row) = false ↔ row = names := by
  rw [nativeRec_nodup names hn, headerMismatch_eq]
  constructor
  · intro h
    simp only [Bool.or_eq_false_iff] at h
    obtain ⟨h1, h2⟩ := h
    have hl : row.length ≤ names.length := by
      by_cases hlt : names.length < row.length
      · simp [hlt] at h1
      · omega
    exact zipPad_any_false names row hl h2
  · intro h
    subst h
    simp [zipPad_self_any]

theorem dataRows_eq_filter (rows : List (List Str)) :
    rows.filter (fun r => !r.isEmpty) = dataRows rows := rfl

/-- `column_names = hdr`, `contains_header` true, the file starts with the header `hdr` -/
theorem csvr_native_given_header (o : NOpts) (hdr : List Str) (hne : hdr ≠ []) (hn : hdr.Nodup)
    (hcn : o.columnNames = .list hdr) (hch : o.containsHeader = true)
    (lines : List Str) (rows : List (List Str))
    (h : readerAux o.delim RSt.init lines = (hdr :: rows, none)) :
    nativeLines o lines = .ok ((dataRows rows).map (nativeRec hdr)) := by
  have hd : hasDup hdr = false := (hasDup_eq_false hdr).2 hn
  have hne' : hdr.isEmpty = false := by cases hdr <;> simp_all
  have hm : headerMismatch (nativeRec hdr hdr) = false := (headerMismatch_iff hdr hn hdr).2 rfl
  simp [nativeLines, hcn, hd, h, hch, List.filter_cons, hne', hm, finish, dataRows_eq_filter]

/-- `column_names = names`, `contains_header` true, but the first non-blank row is not the header -/
theorem csvr_native_refused (o : NOpts) (names : List Str) (hn : names.Nodup)
    (hcn : o.columnNames = .list names) (hch : o.containsHeader = true)
    (lines : List Str) (rows : List (List Str)) (first : List Str) (rest : List (List Str))
    (hrows : dataRows rows = first :: rest) (hdiff : first ≠ names)
    (h : readerAux o.delim RSt.init lines = (rows, none)) :
    nativeLines o lines = if o.raiseExc then .error (.py .ReferenceError) else .ok [] := by
  have hd : hasDup names = false := (hasDup_eq_false names).2 hn
  have hm : headerMismatch (nativeRec names first) = true := by
    cases hx : headerMismatch (nativeRec names first) with
    | true => rfl
    | false => exact absurd ((headerMismatch_iff names hn first).1 hx) hdiff
  simp [nativeLines, hcn, hd, h, hch, dataRows_eq_filter, hrows, hm]

/-- `column_names = names`, `contains_header` false: every non-blank row is a record -/
theorem csvr_native_names_only (o : NOpts) (names : List Str) (hn : names.Nodup)
    (hcn : o.columnNames = .list names) (hch : o.containsHeader = false)
    (lines : List Str) (rows : List (List Str))
    (h : readerAux o.delim RSt.init lines = (rows, none)) :
    nativeLines o lines = .ok ((dataRows rows).map (nativeRec names)) := by
  have hd : hasDup names = false := (hasDup_eq_false names).2 hn
  simp only [nativeLines, hcn, hd, h, hch, dataRows_eq_filter, Bool.false_eq_true, if_false,
    Bool.false_and]
  cases dataRows rows <;> simp [finish]

/-- `column_names` absent: the first row of the file gives the names (fix C14-f: whatever
`contains_header`) -/
theorem csvr_native_from_file (o : NOpts) (hdr : List Str)
    (hcn : o.columnNames = .none) (lines : List Str) (rows : List (List Str))
    (h : readerAux o.delim RSt.init lines = (hdr :: rows, none)) :
    nativeLines o lines = .ok ((dataRows rows).map (nativeRec hdr)) := by
  simp only [nativeLines, hcn, h, dataRows_eq_filter, Option.isSome_none, Bool.and_false,
    Bool.false_eq_true, if_false]
  cases dataRows rows <;> simp [finish]

/-- the lines of a saved file, read by `csv.reader` -/
theorem csvr_native_file (o : NOpts) (d : Char) (hd : GoodDelim d) (hdb : d ≠ bomChar)
    (hod : o.delim = d) (eol : Str) (he : Eol eol) (bom : Bool) (all : List (List Str))
    (hc : NoBreakRows all) (hb : NoBomRows all) :
    nativeCsv o (withBom bom (written d eol all))
      = nativeLines o (all.map (fun r => bodyOf d LF r ++ eol))
    ∧ readerAux o.delim RSt.init (all.map (fun r => bodyOf d LF r ++ eol)) = (all, none) := by
  constructor
  · unfold nativeCsv
    rw [csvr_nlLines_file d hd hdb eol he bom all hc hb]
  · rw [hod]
    exact csvr_readerAux_written d hd eol he.isEol all hc


/-! ### written lines under `strip_field`, `strip_line`, `skip_empty_lines=False` -/

/-- `lines_written` for any reading of a line: `hproc` says what `process_line` leaves of a
written line, `hparse` what the parser (with `process_field`) makes of it -/
theorem csvr_lines_written_gen (o : Opts) (d : Char) (t : Str) (htn : t ≠ [])
    (g : List Str → List Str) (rows : List (List Str))
    (hproc : ∀ r ∈ rows, procLine o (bodyOf d LF r ++ t) = bodyOf d LF r)
    (hparse : ∀ r ∈ rows, r ≠ [] → parseLine o (bodyOf d LF r) = .ok (g r)) :
    Lines o (rows.map (fun r => bodyOf d LF r ++ t)) ((dataRows rows).map g) := by
  induction rows with
  | nil => exact Lines.nil
  | cons r rows ih =>
    have ih' := ih (fun x hx => hproc x (by simp [hx])) (fun x hx => hparse x (by simp [hx]))
    have hne : bodyOf d LF r ++ t ≠ [] := by simp [htn]
    have hpl := hproc r (by simp)
    cases r with
    | nil =>
      simp only [List.map_cons, dataRows, List.filter_cons, List.isEmpty_nil, Bool.not_true,
        Bool.false_eq_true, if_false]
      refine Lines.blank _ _ _ hne ?_ ih'
      rw [hpl]; rfl
    | cons f fs =>
      simp only [List.map_cons, dataRows, List.filter_cons, List.isEmpty_cons, Bool.not_false,
        if_true]
      refine Lines.row _ _ _ _ hne ?_ ?_ ih'
      · rw [hpl]; exact bodyOf_ne_nil d LF _ (by simp)
      · rw [hpl]; exact hparse _ (by simp) (by simp)

/-- text mode: the result on a saved file, for any reading of its lines -/
theorem csvr_loadCsv_text_gen (o : Opts) (hb : o.binary = false) (hse : o.skipEmpty = true)
    (d : Char) (hd : GoodDelim d) (hdb : d ≠ bomChar) (eol : Str) (he : Eol eol) (bom : Bool)
    (all : List (List Str)) (hc : NoBreakRows all) (hbm : NoBomRows all)
    (g : List Str → List Str)
    (hproc : ∀ r ∈ all, procLine o (bodyOf d LF r ++ ['\n']) = bodyOf d LF r)
    (hparse : ∀ r ∈ all, r ≠ [] → parseLine o (bodyOf d LF r) = .ok (g r))
    (n : Norm) (hn : normalise o = .ok n) (h : List Str) (rows : List (List Str))
    (hall : dataRows all = h :: rows) :
    records (loadCsv o (withBom bom (written d eol all))) = outcome o n (g h) (rows.map g) := by
  unfold loadCsv
  rw [hb, physLines_text d hd hdb eol he bom all hc hbm]
  apply loadLines_outcome o hse n hn
  have := csvr_lines_written_gen o d ['\n'] (by simp) g all hproc hparse
  rw [hall] at this
  exact this

/-- the cell-wise `str.strip()` of text mode -/
def pyStrip (s : Str) : Str := stripWith isPySpace s

theorem wsFor_false : wsFor false = isPySpace := by
  funext c; simp [wsFor]

/-- options of `C14_strip_field`: the table's delimiter, blank lines skipped, `strip_field=True` -/
structure StripField (o : Opts) (d : Char) : Prop where
  delim : o.delim = d
  skip : o.skipEmpty = true
  sl : o.stripLine = false
  sf : o.stripField = true
  text : o.binary = false

theorem csvr_procLine_nostrip (o : Opts) (hsl : o.stripLine = false) (body t : Str)
    (hb : NoBreak body) (ht : IsEol t) : procLine o (body ++ t) = body := by
  unfold procLine
  simp only [hsl, Bool.false_eq_true, if_false]
  exact rstrip_crlf_append body t hb ht

theorem csvr_parseLine_strip (o : Opts) (d : Char) (hd : GoodDelim d) (hp : StripField o d)
    (t : Str) (f : Str) (fs : List Str) (hf : ∀ g ∈ f :: fs, NoBreak g) :
    parseLine o (bodyOf d t (f :: fs)) = .ok ((f :: fs).map pyStrip) := by
  unfold parseLine
  rw [hp.delim, bodyOf_cons]
  have := parse_rowStr d hd _ (writer_adequate d t ((f :: fs).length == 1)) f fs hf []
    (by intro c hc; simp at hc)
  rw [List.append_nil] at this
  rw [this]
  simp only [hp.sf, hp.text, wsFor_false, bind, Except.bind, pure, Except.pure, if_true]
  rfl

theorem csvr_loadCsv_strip_field (o : Opts) (d : Char) (hd : GoodDelim d) (hdb : d ≠ bomChar)
    (hp : StripField o d) (eol : Str) (he : Eol eol) (bom : Bool)
    (all : List (List Str)) (hc : NoBreakRows all) (hbm : NoBomRows all)
    (n : Norm) (hn : normalise o = .ok n) (h : List Str) (rows : List (List Str))
    (hall : dataRows all = h :: rows) :
    records (loadCsv o (withBom bom (written d eol all)))
      = outcome o n (h.map pyStrip) (rows.map (List.map pyStrip)) := by
  apply csvr_loadCsv_text_gen o hp.text hp.skip d hd hdb eol he bom all hc hbm (List.map pyStrip)
    _ _ n hn h rows hall
  · intro r hr
    exact csvr_procLine_nostrip o hp.sl _ _ (bodyOf_noBreak d hd LF r (hc r hr))
      (Eol.isEol (Or.inl rfl))
  · intro r hr hne
    cases r with
    | nil => exact absurd rfl hne
    | cons f fs => exact csvr_parseLine_strip o d hd hp LF f fs (hc _ hr)

theorem dropWhile_all {α} (p : α → Bool) (l : List α) (h : ∀ x ∈ l, p x = true) :
    l.dropWhile p = [] := by
  have := dropWhile_append_of_all p l [] h
  simpa using this

theorem dropWhile_head_false {α} (p : α → Bool) (l : List α)
    (h : ∀ x, l.head? = some x → p x = false) : l.dropWhile p = l := by
  cases l with
  | nil => rfl
  | cons x xs => simp [List.dropWhile, h x rfl]

/-- the text has no blank at either end -/
def OuterClean (p : Char → Bool) (s : Str) : Prop :=
  (∀ x, s.head? = some x → p x = false) ∧ (∀ x, s.getLast? = some x → p x = false)

/-- stripping removes exactly the blanks put around a core that has none at its ends -/
theorem stripWith_padded (p : Char → Bool) (l c r : Str) (hl : ∀ x ∈ l, p x = true)
    (hr : ∀ x ∈ r, p x = true) (hc : OuterClean p c) : stripWith p (l ++ c ++ r) = c := by
  unfold stripWith
  rw [List.append_assoc, dropWhile_append_of_all p l _ hl]
  cases c with
  | nil =>
    simp only [List.nil_append]
    rw [dropWhile_all p r hr]
    rfl
  | cons x xs =>
    have hx : p x = false := hc.1 x rfl
    have e1 : (x :: xs ++ r).dropWhile p = x :: xs ++ r :=
      dropWhile_head_false p _ (by intro y hy; simp at hy; subst hy; exact hx)
    have e2 : (x :: xs).reverse.dropWhile p = (x :: xs).reverse :=
      dropWhile_head_false p _ (by
        intro y hy
        apply hc.2 y
        rw [List.getLast?_eq_head?_reverse]; exact hy)
    rw [e1, List.reverse_append, dropWhile_append_of_all p r.reverse _ (by
      intro y hy; exact hr y (by simpa using hy)), e2]
    simp

theorem stripWith_clean (p : Char → Bool) (s : Str) (hc : OuterClean p s) : stripWith p s = s := by
  have := stripWith_padded p [] s [] (by simp) (by simp) hc
  simpa using this

/-- `strip_line=True` leaves a written line alone when it has no blank at either end -/
theorem csvr_procLine_clean (o : Opts) (body t : Str) (hb : NoBreak body) (ht : IsEol t)
    (hcl : OuterClean (wsFor o.binary) body) : procLine o (body ++ t) = body := by
  unfold procLine
  simp only [rstrip_crlf_append body t hb ht]
  split
  · exact stripWith_clean _ _ hcl
  · rfl

/-! `skip_empty_lines=False` -/

/-- every physical line carries a row (a blank line the row `['']`) -/
inductive LinesK (o : Opts) : List Str → List (List Str) → Prop
  | nil : LinesK o [] []
  | row (l : Str) (ls : List Str) (r : List Str) (rows : List (List Str)) :
      l ≠ [] → parseLine o (procLine o l) = .ok r → LinesK o ls rows → LinesK o (l :: ls) (r :: rows)

theorem readRows_linesK (o : Opts) (hse : o.skipEmpty = false) (names cn : List Key)
    (ls : List Str) (rows : List (List Str)) (h : LinesK o ls rows) :
    records (readRows o names cn ls) = .ok (rows.map (recOf o names cn)) := by
  induction h with
  | nil => rfl
  | row l ls r rows hl hp _ ih =>
    have hl' : l.isEmpty = false := by cases l <;> simp_all
    simp only [readRows, hl', hse, hp, Bool.false_eq_true, if_false, Bool.false_and]
    cases hrr : readRows o names cn ls with
    | error e => rw [hrr] at ih; simp [records] at ih
    | ok tl =>
      rw [hrr] at ih
      simp only [records, Except.ok.injEq] at ih
      simp [records, bind, Except.bind, pure, Except.pure, recOf, ih]

/-- the decision table when the first line is not blank and `skip_empty_lines=False` -/
theorem csvr_loadLines_keep (o : Opts) (hse : o.skipEmpty = false) (n : Norm)
    (hn : normalise o = .ok n) (l0 : Str) (ls : List Str) (h : List Str) (rows : List (List Str))
    (hl0 : l0 ≠ []) (hb0 : procLine o l0 ≠ []) (hp0 : parseLine o (procLine o l0) = .ok h)
    (hl : LinesK o ls rows) :
    records (loadLines o (l0 :: ls)) = outcome o n h rows := by
  have hl0' : l0.isEmpty = false := by cases l0 <;> simp_all
  have hb0' : (procLine o l0).isEmpty = false := by
    cases hx : procLine o l0 with
    | nil => exact absurd hx hb0
    | cons _ _ => rfl
  have hsk : skipBlank o (l0 :: ls) = some (l0, procLine o l0, ls) := by
    simp [skipBlank, hl0', hb0']
  unfold loadLines outcome
  simp only [hn, bind, Except.bind, hsk, hp0]
  cases hd : headerDecision n o h with
  | error e => simp [records]
  | ok dec =>
    cases dec with
    | none => simp [records, pure, Except.pure]
    | some b =>
      cases b with
      | false =>
        simp only []
        exact readRows_linesK o hse _ _ _ _ (LinesK.row l0 ls h rows hl0 hp0 hl)
      | true =>
        simp only []
        by_cases hk : (n.mand && hasDup h) = true
        · simp [hk, records, throw, throwThe, MonadExceptOf.throw]
        · simp only [hk, Bool.false_eq_true, if_false]
          exact readRows_linesK o hse _ _ _ _ hl

/-- the cells `load_csv` reads from the line of a row: a blank line gives one empty cell -/
def cellsOfRow (r : List Str) : List Str := if r.isEmpty then [[]] else r

/-- options of `C14_keep_empty_lines` -/
structure KeepEmpty (o : Opts) (d : Char) : Prop where
  delim : o.delim = d
  skip : o.skipEmpty = false
  sl : o.stripLine = false
  sf : o.stripField = false

theorem csvr_parseLine_keep (o : Opts) (d : Char) (hd : GoodDelim d) (hp : KeepEmpty o d) (t : Str)
    (r : List Str) (hf : ∀ g ∈ r, NoBreak g) :
    parseLine o (bodyOf d t r) = .ok (cellsOfRow r) := by
  cases r with
  | nil => simp [parseLine, bodyOf_nil, parse, rstrip, run, St.init, hp.sf, bind, Except.bind,
      pure, Except.pure, cellsOfRow]
  | cons f fs =>
    unfold parseLine
    rw [hp.delim, bodyOf_cons]
    have := parse_rowStr d hd _ (writer_adequate d t ((f :: fs).length == 1)) f fs hf []
      (by intro c hc; simp at hc)
    rw [List.append_nil] at this
    rw [this]
    simp [hp.sf, bind, Except.bind, pure, Except.pure, cellsOfRow]

theorem csvr_linesK_written (o : Opts) (d : Char) (hd : GoodDelim d) (hp : KeepEmpty o d)
    (t : Str) (ht : IsEol t) (htn : t ≠ []) (rows : List (List Str)) (hc : NoBreakRows rows) :
    LinesK o (rows.map (fun r => bodyOf d LF r ++ t)) (rows.map cellsOfRow) := by
  induction rows with
  | nil => exact LinesK.nil
  | cons r rows ih =>
    simp only [List.map_cons]
    refine LinesK.row _ _ _ _ (by simp [htn]) ?_ (ih hc.tail)
    rw [csvr_procLine_nostrip o hp.sl _ _ (bodyOf_noBreak d hd LF r hc.head) ht]
    exact csvr_parseLine_keep o d hd hp LF r hc.head

/-- text mode, `skip_empty_lines=False`, first row of the file not empty -/
theorem csvr_loadCsv_keep (o : Opts) (hb : o.binary = false) (d : Char) (hd : GoodDelim d)
    (hdb : d ≠ bomChar) (hp : KeepEmpty o d) (eol : Str) (he : Eol eol) (bom : Bool)
    (first : List Str) (hne : first ≠ []) (rows : List (List Str))
    (hc : NoBreakRows (first :: rows)) (hbm : NoBomRows (first :: rows))
    (n : Norm) (hn : normalise o = .ok n) :
    records (loadCsv o (withBom bom (written d eol (first :: rows))))
      = outcome o n first (rows.map cellsOfRow) := by
  unfold loadCsv
  rw [hb, physLines_text d hd hdb eol he bom _ hc hbm]
  simp only [List.map_cons]
  have hnl : IsEol ['\n'] := Eol.isEol (Or.inl rfl)
  have hproc := csvr_procLine_nostrip o hp.sl _ ['\n'] (bodyOf_noBreak d hd LF first hc.head) hnl
  apply csvr_loadLines_keep o hp.skip n hn
  · simp
  · rw [hproc]; exact bodyOf_ne_nil d LF first hne
  · rw [hproc, csvr_parseLine_keep o d hd hp LF first hc.head]
    cases first with
    | nil => exact absurd rfl hne
    | cons _ _ => rfl
  · exact csvr_linesK_written o d hd hp ['\n'] hnl (by simp) rows hc.tail


/-- `strip_line=True` changes nothing on a saved file none of whose lines has an outer blank -/
theorem csvr_strip_line_clean (o : Opts) (hb : o.binary = false) (d : Char) (hd : GoodDelim d)
    (hdb : d ≠ bomChar) (hp : Plain o d) (eol : Str) (he : Eol eol) (bom : Bool)
    (all : List (List Str)) (hc : NoBreakRows all) (hbm : NoBomRows all)
    (hcl : ∀ r ∈ all, OuterClean isPySpace (bodyOf d LF r)) :
    records (loadCsv { o with stripLine := true } (withBom bom (written d eol all)))
      = records (loadCsv o (withBom bom (written d eol all))) := by
  obtain ⟨o', ho'⟩ : ∃ o', o' = ({ o with stripLine := true } : Opts) := ⟨_, rfl⟩
  have hb' : o'.binary = false := by rw [ho']; exact hb
  have hnorm : normalise o' = normalise o := by rw [ho']; rfl
  have hpar : ∀ l, parseLine o' l = parseLine o l := by intro l; rw [ho']; rfl
  have hout : ∀ n h rows, outcome o' n h rows = outcome o n h rows := by
    intro n h rows; rw [ho']; rfl
  have hskip : o'.skipEmpty = true := by rw [ho']; exact hp.skip
  rw [← ho']
  clear ho'
  have hnl : IsEol ['\n'] := Eol.isEol (Or.inl rfl)
  have hproc : ∀ r ∈ all, procLine o' (bodyOf d LF r ++ ['\n']) = bodyOf d LF r := by
    intro r hr
    apply csvr_procLine_clean _ _ _ (bodyOf_noBreak d hd LF r (hc r hr)) hnl
    rw [hb', wsFor_false]
    exact hcl r hr
  have hparse : ∀ r ∈ all, r ≠ [] → parseLine o' (bodyOf d LF r) = .ok (id r) := by
    intro r hr hne
    cases r with
    | nil => exact absurd rfl hne
    | cons f fs =>
      rw [hpar]
      exact parseLine_body o d hd hp LF f fs (hc _ hr)
  cases hn : normalise o with
  | error e =>
    have hn' : normalise o' = .error e := by rw [hnorm]; exact hn
    unfold loadCsv
    rw [loadLines_norm_error o e hn, loadLines_norm_error _ e hn']
  | ok n =>
    have hn' : normalise o' = .ok n := by rw [hnorm]; exact hn
    cases hall : dataRows all with
    | nil =>
      rw [loadCsv_text_empty o hb d hd hdb hp eol he bom all hc hbm n hn hall]
      have hl := csvr_lines_written_gen o' d ['\n'] (by simp) id all hproc hparse
      rw [hall] at hl
      unfold loadCsv
      rw [hb', physLines_text d hd hdb eol he bom all hc hbm, loadLines_empty _ n hn' _ hl]
    | cons h rows =>
      rw [loadCsv_text_written o hb d hd hdb hp eol he bom all hc hbm n hn h rows hall,
        csvr_loadCsv_text_gen o' hb' hskip d hd hdb eol he bom all hc hbm
          id hproc hparse n hn' h rows hall]
      simp only [List.map_id, id]
      exact hout n h rows


/-! cell-level sufficient condition for lines without outer blanks -/

theorem encWith_head (q : Str → Bool) (f : Str) (x : Char) (h : (encWith q f).head? = some x) :
    x = '"' ∨ f.head? = some x := by
  unfold encWith at h
  split at h
  · left; simp [quoted] at h; exact h.symm
  · right; exact h

theorem encWith_last (q : Str → Bool) (f : Str) (x : Char) (h : (encWith q f).getLast? = some x) :
    x = '"' ∨ f.getLast? = some x := by
  unfold encWith at h
  split at h
  · left; rw [getLast_quoted] at h; simp at h; exact h.symm
  · right; exact h

theorem rowStr_head (d : Char) (q : Str → Bool) (f : Str) (fs : List Str) (x : Char)
    (h : (rowStr d q f fs).head? = some x) : x = '"' ∨ x = d ∨ f.head? = some x := by
  cases fs with
  | nil =>
    rcases encWith_head q f x h with h | h
    · exact Or.inl h
    · exact Or.inr (Or.inr h)
  | cons g gs =>
    simp only [rowStr] at h
    cases he : encWith q f with
    | nil => rw [he] at h; simp at h; exact Or.inr (Or.inl h.symm)
    | cons y ys =>
      rw [he] at h
      simp at h
      subst h
      rcases encWith_head q f y (by rw [he]; rfl) with h | h
      · exact Or.inl h
      · exact Or.inr (Or.inr h)

theorem rowStr_last (d : Char) (q : Str → Bool) (f : Str) (fs : List Str) (x : Char)
    (h : (rowStr d q f fs).getLast? = some x) :
    x = '"' ∨ x = d ∨ ∃ g ∈ f :: fs, g.getLast? = some x := by
  induction fs generalizing f with
  | nil =>
    rcases encWith_last q f x h with h | h
    · exact Or.inl h
    · exact Or.inr (Or.inr ⟨f, by simp, h⟩)
  | cons g gs ih =>
    simp only [rowStr] at h
    rw [List.getLast?_append] at h
    cases hr : rowStr d q g gs with
    | nil => rw [hr] at h; simp at h; exact Or.inr (Or.inl h.symm)
    | cons y ys =>
      have : (d :: rowStr d q g gs).getLast? = (rowStr d q g gs).getLast? := by
        rw [hr]; simp [List.getLast?_cons_cons]
      rw [this] at h
      have hsome : ∃ z, (rowStr d q g gs).getLast? = some z := by
        rw [hr]; exact ⟨_, List.getLast?_eq_some_getLast (l := y :: ys) (by simp)⟩
      obtain ⟨z, hz⟩ := hsome
      rw [hz] at h
      simp at h
      subst h
      rcases ih g hz with h | h | ⟨k, hk, hx⟩
      · exact Or.inl h
      · exact Or.inr (Or.inl h)
      · exact Or.inr (Or.inr ⟨k, by simp at hk ⊢; right; exact hk, hx⟩)

/-- cell-level sufficient condition for `C14_strip_line_clean`: the delimiter is not a blank and
no cell begins or ends with one -/
theorem bodyOf_outerClean (p : Char → Bool) (d : Char) (t : Str) (hpd : p d = false)
    (hpq : p '"' = false) (r : List Str) (hr : ∀ f ∈ r, OuterClean p f) :
    OuterClean p (bodyOf d t r) := by
  cases r with
  | nil => constructor <;> intro x hx <;> simp [bodyOf_nil] at hx
  | cons f fs =>
    rw [bodyOf_cons]
    constructor
    · intro x hx
      rcases rowStr_head d _ f fs x hx with h | h | h
      · rw [h]; exact hpq
      · rw [h]; exact hpd
      · exact (hr f (by simp)).1 x h
    · intro x hx
      rcases rowStr_last d _ f fs x hx with h | h | ⟨g, hg, h⟩
      · rw [h]; exact hpq
      · rw [h]; exact hpd
      · exact (hr g hg).2 x h

end N0.CsvReader
