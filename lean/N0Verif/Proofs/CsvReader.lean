import N0Verif.Model.CsvReader
import N0Verif.Proofs.CsvFile
/-!
  Helper lemmas for the second half of C14 ("… and all agree with the standard csv reader"):

  * the state machine of `csv.reader` simulates the one of `parse_complex_csv_line` character by
    character on a physical line (`csvr_feed_sim`), which gives the exact domain on which the two
    agree (`csvr_reader_line`);
  * `csv.reader` over a saved file returns the table (`csvr_readerAux_written`);
  * `load_simple_csv` = `load_csv` on every file without a quote character;
  * `load_native_csv` on saved files;
  * written lines under `strip_field`, `strip_line`, `skip_empty_lines=False`.
-/
set_option linter.unusedSimpArgs false
namespace N0.CsvReader
open N0 N0.Py N0.Csv N0.CsvFile N0.C13

/-! ### the reader simulates the library parser inside a physical line -/

/-- the reader state that corresponds to a parser state (after at least one character, or at
the start of a field) -/
def toR (st : St) : RSt :=
  { state := if st.qb then (if st.ex then .quoteInQuoted else .inQuoted)
             else (if st.field.isEmpty then .startField else .inField),
    field := st.field, fields := st.out }

/-- reachable parser states: the "expect delimiter or quote" flag is only set inside quotes -/
def Inv (st : St) : Prop := st.qb = false → st.ex = false

theorem isNL_false {c : Char} (h1 : c ≠ '\r') (h2 : c ≠ '\n') : isNL c = false := by
  simp [isNL, h1, h2]

theorem csvr_sim_step (d : Char) (hd : d ≠ '"') (st : St) (hinv : Inv st) (c : Char)
    (hc : isNL c = false) :
    (∀ st', step d st c = .ok st' → rstep d (toR st) (some c) = .ok (toR st') ∧ Inv st')
    ∧ (∀ e, step d st c = .error e → rstep d (toR st) (some c) = .error .csv) := by
  obtain ⟨field, out, qb, ex⟩ := st
  have hd' : ¬ ('"' = d) := fun h => hd h.symm
  cases qb <;> cases ex
  · -- unquoted
    by_cases hcd : c = d
    · subst hcd
      cases field <;>
        simp [step, rstep, toR, stepStartField, RSt.save, RSt.add, RSt.goto, hc, hd, Inv]
    · by_cases hq : c = '"'
      · subst hq
        cases field <;>
          simp [step, rstep, toR, stepStartField, RSt.save, RSt.add, RSt.goto, hc, hd', hcd, Inv]
      · cases field <;>
          simp [step, rstep, toR, stepStartField, RSt.save, RSt.add, RSt.goto, hc, hcd, hq, Inv]
  · exact absurd (hinv rfl) (by simp)
  · -- inside quotes
    by_cases hcd : c = d
    · subst hcd
      simp [step, rstep, toR, RSt.save, RSt.add, RSt.goto, hd, Inv]
    · by_cases hq : c = '"'
      · subst hq
        simp [step, rstep, toR, RSt.save, RSt.add, RSt.goto, hd', Inv]
      · simp [step, rstep, toR, RSt.save, RSt.add, RSt.goto, hcd, hq, Inv]
  · -- after a quote inside quotes
    by_cases hcd : c = d
    · subst hcd
      simp [step, rstep, toR, RSt.save, RSt.add, RSt.goto, hd, Inv]
    · by_cases hq : c = '"'
      · subst hq
        simp [step, rstep, toR, RSt.save, RSt.add, RSt.goto, hd', Inv]
      · simp [step, rstep, toR, RSt.save, RSt.add, RSt.goto, hcd, hq, hc, Inv]

/-- what the reader does on the characters of a line body, in terms of the parser's run -/
def simOf (x : PyM St) : Except RErr RSt :=
  match x with
  | .ok st => .ok (toR st)
  | .error _ => .error .csv

theorem csvr_feed_sim (d : Char) (hd : d ≠ '"') (body : Str) (hb : NoBreak body) (st : St)
    (hinv : Inv st) :
    feed d (toR st) body = simOf (run d st body)
      ∧ ∀ st', run d st body = .ok st' → Inv st' := by
  induction body generalizing st with
  | nil => simp [feed, run, simOf, hinv]
  | cons c body ih =>
    have h1 : c ≠ '\r' := fun h => hb.1 (by simp [h])
    have h2 : c ≠ '\n' := fun h => hb.2 (by simp [h])
    have hb' : NoBreak body := ⟨fun h => hb.1 (by simp [h]), fun h => hb.2 (by simp [h])⟩
    obtain ⟨hok, herr⟩ := csvr_sim_step d hd st hinv c (isNL_false h1 h2)
    simp only [feed, run]
    cases hs : step d st c with
    | error e =>
      rw [herr e hs]
      simp [bind, Except.bind, simOf]
    | ok st' =>
      obtain ⟨hr, hi'⟩ := hok st' hs
      rw [hr]
      simp only [bind, Except.bind]
      exact ih hb' st' hi'

theorem csvr_feed_append (d : Char) (r : RSt) (a b : Str) :
    feed d r (a ++ b) = (feed d r a) >>= (fun r' => feed d r' b) := by
  induction a generalizing r with
  | nil => simp [feed, bind, Except.bind]
  | cons c a ih =>
    simp only [List.cons_append, feed]
    cases h : rstep d r (some c) with
    | error e => rfl
    | ok r' => simp [ih, bind, Except.bind]

/-- in `EAT_CRNL` further CR/LF characters are swallowed -/
theorem csvr_feed_eat (d : Char) (r : RSt) (hs : r.state = .eatCRNL) (e : Str) (he : IsEol e) :
    feed d r e = .ok r := by
  induction e with
  | nil => rfl
  | cons c e ih =>
    have hc : isNL c = true := by
      rcases he c (by simp) with h | h <;> simp [isNL, h]
    simp only [feed, rstep, hs, hc, if_true, bind, Except.bind]
    exact ih (fun x hx => he x (by simp [hx]))

/-- the end of a line after a complete field: the field is saved and the record ends -/
theorem csvr_line_end (d : Char) (hdn : isNL d = false) (r : RSt)
    (hs : r.state = .startField ∨ r.state = .inField ∨ r.state = .quoteInQuoted)
    (e : Str) (he : IsEol e) :
    ∃ r1, feed d r e = .ok r1
      ∧ rstep d r1 none = .ok { state := .startRecord, field := [], fields := r.fields ++ [r.field] } := by
  cases e with
  | nil =>
    refine ⟨r, rfl, ?_⟩
    rcases hs with h | h | h <;> simp [rstep, h, stepStartField, RSt.save]
  | cons c e =>
    have hc : isNL c = true := by
      rcases he c (by simp) with h | h <;> simp [isNL, h]
    have hne : c ≠ '"' := by
      intro h; subst h; simp [isNL] at hc
    have hrest : IsEol e := fun x hx => he x (by simp [hx])
    have key : rstep d r (some c) = .ok (r.save .eatCRNL) := by
      rcases hs with h | h | h
      · simp [rstep, h, stepStartField, hc]
      · simp [rstep, h, hc]
      · simp only [rstep, h, hne, if_false]
        have hcd : c ≠ d := by
          intro h; subst h; rw [hc] at hdn; cases hdn
        simp [hcd, hc]
    refine ⟨r.save .eatCRNL, ?_, ?_⟩
    · simp only [feed, key, bind, Except.bind]
      exact csvr_feed_eat d _ rfl e hrest
    · simp [rstep, RSt.save, RSt.goto]

/-- inside an open quoted field the line ending is data and the record continues -/
theorem csvr_feed_open (d : Char) (r : RSt) (hs : r.state = .inQuoted) (e : Str) (he : IsEol e) :
    feed d r e = .ok { state := .inQuoted, field := r.field ++ e, fields := r.fields } := by
  induction e generalizing r with
  | nil =>
    obtain ⟨s, f, fs⟩ := r
    simp only at hs
    subst hs
    simp [feed]
  | cons c e ih =>
    have hc : isNL c = true := by
      rcases he c (by simp) with h | h <;> simp [isNL, h]
    have hne : c ≠ '"' := by
      intro h; subst h; simp [isNL] at hc
    simp only [feed, rstep, hs, hne, if_false, bind, Except.bind]
    rw [ih (r.add c .inQuoted) rfl (fun x hx => he x (by simp [hx]))]
    simp [RSt.add]

/-- the first character of a record is handled as the first character of a field -/
theorem csvr_first_char (d : Char) (c : Char) (hc : isNL c = false) :
    rstep d RSt.init (some c) = rstep d (toR St.init) (some c) := by
  simp [rstep, RSt.init, toR, St.init, hc, stepStartField, RSt.save, RSt.add, RSt.goto]

/-- **one physical line**: what `csv.reader` makes of `body ++ eol` (no line break inside `body`,
`body` not empty), in terms of the library parser's run over `body` -/
theorem csvr_reader_line (d : Char) (hd : GoodDelim d) (body : Str) (hb : NoBreak body)
    (hne : body ≠ []) (eol : Str) (he : IsEol eol) :
    readerAux d RSt.init [body ++ eol] =
      match run d St.init body with
      | .error _ => ([], some .csv)
      | .ok st => if st.qb && !st.ex then ([], some .csv) else ([st.out ++ [st.field]], none) := by
  have hdn : isNL d = false := isNL_false hd.2.1 hd.2.2
  have hinit : Inv St.init := fun _ => rfl
  obtain ⟨hsim, hinv⟩ := csvr_feed_sim d hd.1 body hb St.init hinit
  have hfeed : feed d RSt.init (body ++ eol) = feed d (toR St.init) (body ++ eol) := by
    cases body with
    | nil => exact absurd rfl hne
    | cons c rest =>
      have h1 : c ≠ '\r' := fun h => hb.1 (by simp [h])
      have h2 : c ≠ '\n' := fun h => hb.2 (by simp [h])
      simp only [List.cons_append, feed, csvr_first_char d c (isNL_false h1 h2)]
  simp only [readerAux, feedLine, hfeed, csvr_feed_append, hsim]
  cases hr : run d St.init body with
  | error e => simp [simOf, bind, Except.bind]
  | ok st =>
    have hi := hinv st hr
    obtain ⟨field, out, qb, ex⟩ := st
    simp only [simOf, bind, Except.bind]
    cases qb <;> cases ex
    · -- unquoted field (or empty field after a delimiter)
      have hs : (toR ⟨field, out, false, false⟩).state = .startField
          ∨ (toR ⟨field, out, false, false⟩).state = .inField
          ∨ (toR ⟨field, out, false, false⟩).state = .quoteInQuoted := by
        cases field <;> simp [toR]
      obtain ⟨r1, hf1, hs1⟩ := csvr_line_end d hdn _ hs eol he
      simp only [hf1, hs1]
      simp [toR, readerAux, RSt.init]
    · exact absurd (hi rfl) (by simp)
    · -- the quoted field is still open at the end of the line
      rw [csvr_feed_open d (toR ⟨field, out, true, false⟩) (by simp [toR]) eol he]
      simp [rstep, readerAux]
    · have hs : (toR ⟨field, out, true, true⟩).state = .startField
          ∨ (toR ⟨field, out, true, true⟩).state = .inField
          ∨ (toR ⟨field, out, true, true⟩).state = .quoteInQuoted := by
        simp [toR]
      obtain ⟨r1, hf1, hs1⟩ := csvr_line_end d hdn _ hs eol he
      simp only [hf1, hs1]
      simp [toR, readerAux, RSt.init]

/-- a blank line is the empty record -/
theorem csvr_reader_blank (d : Char) (eol : Str) (he : IsEol eol) :
    feedLine d RSt.init eol = .ok RSt.init := by
  cases eol with
  | nil => simp [feedLine, feed, bind, Except.bind, rstep, RSt.init]
  | cons c e =>
    have hc : isNL c = true := by
      rcases he c (by simp) with h | h <;> simp [isNL, h]
    simp only [feedLine, feed, rstep, RSt.init, hc, if_true, bind, Except.bind]
    rw [csvr_feed_eat d _ rfl e (fun x hx => he x (by simp [hx]))]
    simp [rstep, RSt.goto]

/-! ### written lines end with every quote closed -/

theorem csvr_run_field_end (d : Char) (hd : d ≠ '"') (q : Str → Bool) (hq : Adequate d q)
    (o : List Str) (f : Str) :
    ∃ b, run d { field := [], out := o, qb := false, ex := false } (encWith q f)
      = .ok { field := f, out := o, qb := b, ex := b } := by
  unfold encWith
  by_cases h : q f = true
  · refine ⟨true, ?_⟩
    simp only [h, if_true]
    have := run_quoted d hd o f []
    simpa [run] using this
  · have h1 : d ∉ f := fun hm => h (hq f (Or.inl hm))
    have h2 : f.head? ≠ some '"' := fun hm => h (hq f (Or.inr hm))
    refine ⟨false, ?_⟩
    simp only [h]
    simp only [Bool.false_eq_true, if_false]
    have := run_plain d o f [] h1 h2
    simpa [run] using this

theorem csvr_run_row (d : Char) (hd : d ≠ '"') (q : Str → Bool) (hq : Adequate d q)
    (o : List Str) (f : Str) (fs : List Str) :
    ∃ st, run d { field := [], out := o, qb := false, ex := false } (rowStr d q f fs) = .ok st
      ∧ st.out ++ [st.field] = o ++ f :: fs ∧ st.qb = st.ex := by
  induction fs generalizing o f with
  | nil =>
    obtain ⟨b, h⟩ := csvr_run_field_end d hd q hq o f
    exact ⟨_, h, rfl, rfl⟩
  | cons g gs ih =>
    simp only [rowStr]
    rw [run_field_delim d hd q hq]
    obtain ⟨st, h1, h2, h3⟩ := ih (o ++ [f]) g
    exact ⟨st, h1, by simp [h2], h3⟩

theorem csvr_rowStr_ne_nil (d : Char) (q : Str → Bool) (f : Str) (fs : List Str)
    (h : fs = [] → f = [] → q [] = true) : rowStr d q f fs ≠ [] := by
  cases fs with
  | nil =>
    simp only [rowStr]
    apply encWith_ne_nil_of
    intro hf
    subst hf
    exact h rfl rfl
  | cons g gs =>
    simp only [rowStr]
    intro hc
    have : d ∈ (encWith q f ++ d :: rowStr d q g gs) := by simp
    rw [hc] at this
    simp at this

theorem csvr_rowStr_noBreak (d : Char) (hd : GoodDelim d) (q : Str → Bool) (f : Str) (fs : List Str)
    (hf : ∀ g ∈ f :: fs, NoBreak g) : NoBreak (rowStr d q f fs) := by
  constructor
  · intro h
    rcases rowStr_mem d q f fs _ h with h | h | ⟨g, hg, hc⟩
    · exact hd.2.1 h.symm
    · exact absurd h (by decide)
    · exact (hf g hg).1 hc
  · intro h
    rcases rowStr_mem d q f fs _ h with h | h | ⟨g, hg, hc⟩
    · exact hd.2.2 h.symm
    · exact absurd h (by decide)
    · exact (hf g hg).2 hc

/-- **reader-side round trip**: every adequate quoting decision (that also quotes a lone empty
field) is read back by `csv.reader` -/
theorem csvr_reader_rowStr (d : Char) (hd : GoodDelim d) (q : Str → Bool) (hq : Adequate d q)
    (f : Str) (fs : List Str) (hf : ∀ g ∈ f :: fs, NoBreak g)
    (hlone : fs = [] → f = [] → q [] = true) (eol : Str) (he : IsEol eol) :
    readerAux d RSt.init [rowStr d q f fs ++ eol] = ([f :: fs], none) := by
  rw [csvr_reader_line d hd _ (csvr_rowStr_noBreak d hd q f fs hf)
    (csvr_rowStr_ne_nil d q f fs hlone) eol he]
  obtain ⟨st, h1, h2, h3⟩ := csvr_run_row d hd.1 q hq [] f fs
  have h1' : run d St.init (rowStr d q f fs) = .ok st := h1
  rw [h1']
  simp only
  have : (st.qb && !st.ex) = false := by rw [h3]; cases st.ex <;> rfl
  rw [this]
  simp at h2
  simp [h2]


/-! ### `csv.reader` over a saved file -/

theorem csvr_feedLine_of_single (d : Char) (l : Str) (rec : List Str)
    (h : readerAux d RSt.init [l] = ([rec], none)) :
    ∃ r', feedLine d RSt.init l = .ok r' ∧ r'.state = .startRecord ∧ r'.fields = rec := by
  simp only [readerAux] at h
  cases hf : feedLine d RSt.init l with
  | error e => rw [hf] at h; simp at h
  | ok r' =>
    rw [hf] at h
    simp only at h
    by_cases hs : r'.state = .startRecord
    · simp [hs] at h
      exact ⟨r', rfl, hs, h.1.1⟩
    · have : (r'.state == RState.startRecord) = false := by simpa using hs
      rw [this] at h
      simp only [Bool.false_eq_true, if_false] at h
      split at h <;> simp at h

theorem csvr_readerAux_cons (d : Char) (l : Str) (ls : List Str) (r' : RSt)
    (hf : feedLine d RSt.init l = .ok r') (hs : r'.state = .startRecord) :
    readerAux d RSt.init (l :: ls)
      = (r'.fields :: (readerAux d RSt.init ls).1, (readerAux d RSt.init ls).2) := by
  simp [readerAux, hf, hs]

/-- `csv.reader` reads the lines `csv.writer` wrote back as the rows (an empty row, written as
a blank line, comes back as the empty record) -/
theorem csvr_readerAux_written (d : Char) (hd : GoodDelim d) (eol : Str) (he : IsEol eol)
    (rows : List (List Str)) (hc : NoBreakRows rows) :
    readerAux d RSt.init (rows.map (fun r => bodyOf d LF r ++ eol)) = (rows, none) := by
  induction rows with
  | nil => simp [readerAux, RSt.init]
  | cons r rows ih =>
    have hr := hc.head
    simp only [List.map_cons]
    cases r with
    | nil =>
      rw [bodyOf_nil, List.nil_append,
        csvr_readerAux_cons d eol _ RSt.init (csvr_reader_blank d eol he) rfl, ih hc.tail]
      rfl
    | cons f fs =>
      rw [bodyOf_cons]
      have hsingle := csvr_reader_rowStr d hd _ (writer_adequate d LF ((f :: fs).length == 1)) f fs hr
        (by
          intro h1 h2
          subst h1; subst h2
          simp [writerNeedsQuote]) eol he
      obtain ⟨r', hf, hs, hfl⟩ := csvr_feedLine_of_single d _ _ hsingle
      rw [csvr_readerAux_cons d _ _ r' hf hs, ih hc.tail, hfl]

theorem nlLines_body_lf (body rest : Str) (hb : NoBreak body) :
    nlLines (body ++ '\n' :: rest) = (body ++ ['\n']) :: nlLines rest := by
  induction body with
  | nil => simp [nlLines]
  | cons c body ih =>
    have h1 : c ≠ '\r' := fun h => hb.1 (by simp [h])
    have h2 : c ≠ '\n' := fun h => hb.2 (by simp [h])
    have hb' : NoBreak body := ⟨fun h => hb.1 (by simp [h]), fun h => hb.2 (by simp [h])⟩
    simp only [List.cons_append, nlLines, h1, h2, if_false]
    rw [ih hb']

theorem nlLines_body_crlf (body rest : Str) (hb : NoBreak body) :
    nlLines (body ++ '\r' :: '\n' :: rest) = (body ++ ['\r', '\n']) :: nlLines rest := by
  induction body with
  | nil => simp [nlLines]
  | cons c body ih =>
    have h1 : c ≠ '\r' := fun h => hb.1 (by simp [h])
    have h2 : c ≠ '\n' := fun h => hb.2 (by simp [h])
    have hb' : NoBreak body := ⟨fun h => hb.1 (by simp [h]), fun h => hb.2 (by simp [h])⟩
    simp only [List.cons_append, nlLines, h1, h2, if_false]
    rw [ih hb']

theorem nlLines_body_eol (body rest e : Str) (he : Eol e) (hb : NoBreak body) :
    nlLines (body ++ e ++ rest) = (body ++ e) :: nlLines rest := by
  rcases he with h | h <;> subst h
  · simpa [LF] using nlLines_body_lf body rest hb
  · simpa [CRLF] using nlLines_body_crlf body rest hb

theorem nlLines_written (d : Char) (hd : GoodDelim d) (eol : Str) (he : Eol eol)
    (rows : List (List Str)) (hc : NoBreakRows rows) :
    nlLines (written d eol rows) = rows.map (fun r => bodyOf d LF r ++ eol) := by
  induction rows with
  | nil => rfl
  | cons r rows ih =>
    have hr := hc.head
    simp only [written, List.flatMap_cons, List.map_cons, writerLine_eq]
    rw [nlLines_body_eol _ _ _ he (bodyOf_noBreak d hd eol r hr)]
    rw [bodyOf_term d eol LF he.isEol (Eol.isEol (Or.inl rfl)) r hr]
    congr 1
    exact ih hc.tail

/-- the lines `load_native_csv` / `csv.reader` see of a saved file (text mode, `newline=''`,
`utf-8-sig`) -/
theorem csvr_nlLines_file (d : Char) (hd : GoodDelim d) (hdb : d ≠ bomChar) (eol : Str) (he : Eol eol)
    (bom : Bool) (rows : List (List Str)) (hc : NoBreakRows rows) (hb : NoBomRows rows) :
    nlLines (decodeSig (withBom bom (written d eol rows)))
      = rows.map (fun r => bodyOf d LF r ++ eol) := by
  unfold withBom
  cases bom with
  | true =>
    simp only [if_true, decodeSig_bom]
    exact nlLines_written d hd eol he rows hc
  | false =>
    simp only [Bool.false_eq_true, if_false]
    rw [decodeSig_of_not_mem _ (bom_not_mem_written d hdb eol he rows hb)]
    exact nlLines_written d hd eol he rows hc

end N0.CsvReader
