import N0Verif.Proofs.XPathStore
import N0Verif.Proofs.XPathFirst
/-!
  Selecting steps of the xpath engine: the `[*]` fan-out (explicit and implicit) and the
  predicate steps `[k=v]`, `[k!=v]`, `[k~v]`, `k[text()=v]/..` over a list of dict records.

  Layers:
  * `starIdx_loop`    — the `for i, cur_node in enumerate(parent_node)` loop, for any per-element outcome;
  * `star_elem`, `cond_elem`, `text_elem` — what one element contributes;
  * token facts for the selecting steps (`split_cond`, tokenisation of the selecting paths and of the
    `found` string the `'..'` step re-resolves);
  * the `get`/`first` wrappers.
-/
namespace N0.XPath
open N0 N0.Py N0.Val

/-! ### the fan-out loop -/

/-- the value a fan-out returns for the list of found values (`return_lists` = `rl`) -/
def collect (rl : Bool) (vals : List Val) : Val :=
  if !rl && vals.length = 1 then vals.headD Val.none else .list .n0 vals

/-- the `some`s of a list of outcomes, in order -/
def somes : List (Option Val) → List Val
  | [] => []
  | some v :: os => v :: somes os
  | Option.none :: os => somes os

/-- **The `[*]` loop.**  If the lookup of element `i + j` (any fuel ≥ `F0`) leaves the tree unchanged and
is found exactly when `todo[j]` is `some v`, then with value `v`, the loop collects the `some`s in order. -/
theorem starIdx_loop (root : Val) (sp : Pos) (ps : Bool) (rest : List Str) (par : PRef) (rl : Bool) (found : Str)
    (all : List Str) (hall : all ≠ []) (F0 : Nat) :
    ∀ (todo : List (Option Val)) (i n : Nat) (acc : List Val) (fst : Option Res) (fuel : Nat),
      n = i + todo.length →
      (∀ j (hj : j < todo.length), ∀ fu ≥ F0, ∃ r,
          findD fu root sp ps false (bracket (natStr (i + j)) :: rest) par rl found = .ok (root, r)
          ∧ r.isFound = (todo[j]).isSome ∧ ∀ v, todo[j] = some v → r.value = v) →
      fuel ≥ F0 + todo.length + 1 →
      fst.isSome = !acc.isEmpty →
      ∃ r, starIdx fuel root sp ps n i rest par rl found acc fst all = .ok (root, r) ∧
        r.isFound = !(acc ++ somes todo).isEmpty ∧
        (r.isFound = true → r.value = collect rl (acc ++ somes todo)) := by
  intro todo
  induction todo with
  | nil =>
    intro i n acc fst fuel hn _ hf hfst
    obtain ⟨f, rfl⟩ : ∃ f, fuel = f + 1 := ⟨fuel - 1, by omega⟩
    have hge : i ≥ n := by simp at hn; omega
    rw [starIdx]
    simp only [hge, if_true, somes, List.append_nil]
    cases fst with
    | none =>
      have hacc : acc = [] := by simpa using hfst
      subst hacc
      refine ⟨_, rfl, ?_, ?_⟩
      · simp [Res.isFound, isEmpty_false_of_ne hall]
      · simp [Res.isFound, isEmpty_false_of_ne hall]
    | some f0 =>
      have hacc : acc.isEmpty = false := by simpa using hfst
      refine ⟨_, rfl, ?_, ?_⟩
      · simp [Res.isFound, hacc]
      · intro _; simp [collect]
  | cons o todo ih =>
    intro i n acc fst fuel hn hel hf hfst
    obtain ⟨f, rfl⟩ : ∃ f, fuel = f + 1 := ⟨fuel - 1, by omega⟩
    have hlt : ¬ i ≥ n := by simp at hn; omega
    obtain ⟨r0, hr0, hfound0, hval0⟩ := hel 0 (by simp) f (by simp at hf; omega)
    rw [starIdx]
    simp only [hlt, if_false]
    simp only [Nat.add_zero] at hr0
    rw [hr0]
    simp only [List.getElem_cons_zero] at hfound0 hval0
    have hel' : ∀ j (hj : j < todo.length), ∀ fu ≥ F0, ∃ r,
        findD fu root sp ps false (bracket (natStr (i + 1 + j)) :: rest) par rl found = .ok (root, r)
        ∧ r.isFound = (todo[j]).isSome ∧ ∀ v, todo[j] = some v → r.value = v := by
      intro j hj fu hfu
      have := hel (j + 1) (by simp; omega) fu hfu
      have hidx : i + (j + 1) = i + 1 + j := by omega
      simpa [hidx] using this
    cases o with
    | none =>
      have hnf : r0.isFound = false := by simpa using hfound0
      simp only [hnf, Bool.false_eq_true, if_false]
      obtain ⟨r, hr, h1, h2⟩ := ih (i + 1) n acc fst f (by simp at hn; omega) hel' (by simp at hf; omega) hfst
      exact ⟨r, hr, by simpa [somes] using h1, by simpa [somes] using h2⟩
    | some v =>
      have hnf : r0.isFound = true := by simpa using hfound0
      have hv : r0.value = v := hval0 v rfl
      simp only [hnf, if_true, hv]
      have hfst' : (match fst with | some f => some f | Option.none => some r0).isSome = !(acc ++ [v]).isEmpty := by
        cases fst <;> simp
      obtain ⟨r, hr, h1, h2⟩ := ih (i + 1) n (acc ++ [v]) _ f
        (by simp at hn; omega) hel' (by simp at hf; omega) hfst'
      exact ⟨r, hr, by simpa [somes] using h1, by simpa [somes] using h2⟩

/-! ### single steps of `findD` used by the selecting paths -/

theorem find_key_missing (fuel : Nat) (root : Val) (entry rl : Bool) (q : Pos) (found tok : Str) (rest : List Str)
    (cls : Cls) (kvs : List (Str × Val))
    (hq : getAt root q = some (.dict cls kvs)) (hk : KeyTok tok) (hl : lookup tok kvs = Option.none) :
    findD (fuel + 1) root [] false entry (tok :: rest) (.at q) rl found
      = .ok (root, { parent := .at q, nameIdx := Option.none, value := Val.none, found := found, notFound := some (tok :: rest) }) := by
  have hne : tok.isEmpty = false := isEmpty_false_of_ne hk.ne
  rw [findD]
  simp only [Bool.false_and, Bool.false_eq_true, if_false, valOf_at, hq, hk.split, hne, Bool.not_false,
    Idx.truthy, hk.notUp, hk.notStar, isList, isDict, Bool.not_true, hl, if_true]

/-- `name[e]` on a dict: descend to `name` and re-emit `[e]` (any bracket text that is not a condition) -/
theorem find_keybr_step (fuel : Nat) (root : Val) (entry rl : Bool) (q : Pos) (found tok k e : Str)
    (rest : List Str) (cls : Cls) (kvs : List (Str × Val)) (c : Val)
    (hq : getAt root q = some (.dict cls kvs)) (hs : splitNameIndex tok = .ok (k, .str e))
    (hkne : k ≠ []) (hup : k ≠ ['.', '.']) (hst : k ≠ ['*']) (hl : lookup k kvs = some c) :
    findD (fuel + 1) root [] false entry (tok :: rest) (.at q) rl found
      = findD fuel root [] false false (bracket e :: rest) (.at (q ++ [Seg.key k])) rl (found ++ slash ++ k) := by
  have hne : k.isEmpty = false := isEmpty_false_of_ne hkne
  rw [findD]
  simp only [Bool.false_and, Bool.false_eq_true, if_false, valOf_at, hq, hs, hne, Bool.not_false,
    Idx.truthy, hup, hst, isList, isDict, Bool.not_true, hl, childRef]
  simp

/-- `name[k op v]` on a dict: descend to `name` and re-emit the condition with a quoted value -/
theorem find_keycond_step (fuel : Nat) (root : Val) (entry rl : Bool) (q : Pos) (found tok nm k op : Str) (v : CondVal)
    (rest : List Str) (cls : Cls) (kvs : List (Str × Val)) (c : Val)
    (hq : getAt root q = some (.dict cls kvs)) (hs : splitNameIndex tok = .ok (nm, .cond k op v))
    (hkne : nm ≠ []) (hup : nm ≠ ['.', '.']) (hst : nm ≠ ['*']) (hl : lookup nm kvs = some c) :
    findD (fuel + 1) root [] false entry (tok :: rest) (.at q) rl found
      = findD fuel root [] false false (bracket (k ++ op ++ ['\''] ++ condValStr v ++ ['\'']) :: rest)
          (.at (q ++ [Seg.key nm])) rl (found ++ slash ++ nm) := by
  have hne : nm.isEmpty = false := isEmpty_false_of_ne hkne
  rw [findD]
  simp only [Bool.false_and, Bool.false_eq_true, if_false, valOf_at, hq, hs, hne, Bool.not_false,
    Idx.truthy, hup, hst, isList, isDict, Bool.not_true, hl, childRef]
  simp

theorem split_star : splitNameIndex (bracket ['*']) = .ok ([], .str ['*']) := by decide

/-- the `[*]` step on a list starts the loop -/
theorem find_star_step (fuel : Nat) (root : Val) (entry rl : Bool) (q : Pos) (found tok : Str) (rest : List Str)
    (lc : Cls) (xs : List Val) (hq : getAt root q = some (.list lc xs))
    (ht : splitNameIndex tok = .ok ([], .str ['*'])) :
    findD (fuel + 1) root [] false entry (tok :: rest) (.at q) rl found
      = starIdx fuel root [] false xs.length 0 rest (.at q) rl found [] Option.none (tok :: rest) := by
  have h1 : (['*'] : Str) ≠ sNew := by decide
  rw [findD]
  simp only [Bool.false_and, Bool.false_eq_true, if_false, valOf_at, hq, ht, List.isEmpty_nil,
    Idx.truthy, List.isEmpty_cons, Bool.not_false, Bool.and_false, Bool.not_true, h1, if_true]

/-- a name step applied to a list: `[*]` is supplied -/
theorem find_name_on_list (fuel : Nat) (root : Val) (entry rl : Bool) (q : Pos) (found tok nm : Str) (idx : Idx)
    (rest : List Str) (lc : Cls) (xs : List Val) (hq : getAt root q = some (.list lc xs))
    (ht : splitNameIndex tok = .ok (nm, idx)) (hne : nm ≠ []) (hup : nm ≠ ['.', '.']) :
    findD (fuel + 1) root [] false entry (tok :: rest) (.at q) rl found
      = findD fuel root [] false false (bracket ['*'] :: tok :: rest) (.at q) rl found := by
  have hne' : nm.isEmpty = false := isEmpty_false_of_ne hne
  rw [findD]
  simp only [Bool.false_and, Bool.false_eq_true, if_false, valOf_at, hq, ht, hne', Bool.not_false,
    hup, isList, if_true]

/-! ### what one record contributes to `[*]/f` -/

/-- the field `f` of a record (a non-dict has none) -/
def fieldOf (f : Str) : Val → Option Val
  | .dict _ kvs => lookup f kvs
  | _ => Option.none

theorem star_elem (root : Val) (rl : Bool) (q : Pos) (found f : Str) (lc : Cls) (rs : List Val) (j : Nat)
    (c : Cls) (kvs' : List (Str × Val))
    (hq : getAt root q = some (.list lc rs)) (hj : rs[j]? = some (.dict c kvs')) (hf : KeyTok f)
    (fu : Nat) (hfu : fu ≥ 2) :
    ∃ r, findD fu root [] false false [bracket (natStr j), f] (.at q) rl found = .ok (root, r)
      ∧ r.isFound = (lookup f kvs').isSome ∧ ∀ v, lookup f kvs' = some v → r.value = v := by
  obtain ⟨g, rfl⟩ : ∃ g, fu = g + 2 := ⟨fu - 2, by omega⟩
  have hlt : j < rs.length := by
    rcases Nat.lt_or_ge j rs.length with h | h
    · exact h
    · rw [List.getElem?_eq_none h] at hj; cases hj
  rw [find_idx_step (g + 1) root false rl q found _ (natStr j) (j : Int) [f] (by simp) lc rs j hq (natStr_idxTok j)
    (normIdx_nat hlt)]
  have hq' : getAt root (q ++ [.idx j]) = some (.dict c kvs') := by
    rw [getAt_snoc, hq]; simp [child, hj]
  cases hl : lookup f kvs' with
  | none =>
    rw [find_key_missing g root false rl _ _ f [] c kvs' hq' hf hl]
    exact ⟨_, rfl, by simp [Res.isFound], by intro v hv; cases hv⟩
  | some v =>
    rw [find_key_last g root false rl _ _ f c kvs' v hq' hf hl]
    exact ⟨_, rfl, by simp [Res.isFound], by intro v' hv'; cases hv'; rfl⟩

/-- **Fan-out over a list of dict records, tree level.**  From the list at `q`, the steps `[*]`, `f`
return the values of `f` of the records that have `f`, in order. -/
theorem star_records (root : Val) (rl : Bool) (q : Pos) (found tok f : Str) (lc : Cls) (rs : List Val)
    (hq : getAt root q = some (.list lc rs)) (hrs : ∀ r ∈ rs, isDict r = true) (hf : KeyTok f)
    (ht : splitNameIndex tok = .ok ([], .str ['*']))
    (fuel : Nat) (entry : Bool) (hfuel : fuel ≥ rs.length + 4) :
    ∃ r, findD fuel root [] false entry [tok, f] (.at q) rl found = .ok (root, r) ∧
      r.isFound = !(somes (rs.map (fieldOf f))).isEmpty ∧
      (r.isFound = true → r.value = collect rl (somes (rs.map (fieldOf f)))) := by
  obtain ⟨g, rfl⟩ : ∃ g, fuel = g + 1 := ⟨fuel - 1, by omega⟩
  rw [find_star_step g root entry rl q found tok [f] lc rs hq ht]
  have := starIdx_loop root [] false [f] (.at q) rl found [tok, f] (by simp) 2 (rs.map (fieldOf f)) 0 rs.length [] Option.none g
    (by simp) ?_ (by simp; omega) (by simp)
  · simpa using this
  · intro j hj fu hfu
    have hj' : j < rs.length := by simpa using hj
    have hmem : rs[j] ∈ rs := List.getElem_mem hj'
    have hd := hrs _ hmem
    cases hrj : rs[j] with
    | dict c kvs' =>
      have hget : rs[j]? = some (.dict c kvs') := by rw [List.getElem?_eq_getElem hj', hrj]
      obtain ⟨r, hr, h1, h2⟩ := star_elem root rl q found f lc rs j c kvs' hq hget hf fu hfu
      refine ⟨r, by simpa using hr, ?_, ?_⟩
      · simp [hrj, fieldOf, h1]
      · intro v hv; apply h2; simpa [hrj, fieldOf] using hv
    | _ => rw [hrj] at hd; simp [isDict] at hd

/-! ### tokenisation of the selecting paths -/

theorem fixBr_noRB (t : Str) (h : ∀ c ∈ t, c ≠ ']') : fixBr t = t := by
  have := fixBr_append_noRB t [] h
  simpa [fixBr] using this

/-- a text with a single `]` that is not followed by `[` is not changed by `replace("][","]/[")` -/
theorem fixBr_one_rb (s t : Str) (hs : ∀ c ∈ s, c ≠ ']') (ht : ∀ c ∈ t, c ≠ ']') (hh : t.head? ≠ some '[') :
    fixBr (s ++ ']' :: t) = s ++ ']' :: t := by
  rw [fixBr_append_noRB s _ hs]
  cases t with
  | nil => rw [fixBr_rb_nil]
  | cons c t' =>
    have hc : c ≠ '[' := by intro h; apply hh; simp [h]
    rw [fixBr_rb_other c t' hc, fixBr_noRB _ ht]

/-- `'/'.join(ps)` -/
def joinSlash : List Str → Str
  | [] => []
  | [a] => a
  | a :: b :: rest => a ++ '/' :: joinSlash (b :: rest)

theorem splitChar_joinSlash : ∀ (ps : List Str), ps ≠ [] → (∀ p ∈ ps, ∀ c ∈ p, c ≠ '/') →
    splitChar '/' (joinSlash ps) = ps
  | [], h, _ => absurd rfl h
  | [a], _, h => by simpa [joinSlash] using splitChar_no_delim '/' a (h a (by simp))
  | a :: b :: rest, _, h => by
    rw [joinSlash, splitChar_append '/' a _ (h a (by simp)),
      splitChar_joinSlash (b :: rest) (by simp) (fun p hp => h p (by simp [hp]))]

theorem clean_id : ∀ (ps : List Str), (∀ p ∈ ps, p ≠ [] ∧ stripWs p = p) → clean ps = ps
  | [], _ => rfl
  | a :: rest, h => by
    rw [clean_cons, clean_id rest (fun p hp => h p (by simp [hp]))]
    simp [isEmpty_false_of_ne (h a (by simp)).1, (h a (by simp)).2]

/-- a path made of well-formed pieces tokenises into its pieces -/
theorem tokenize_joinSlash (ps : List Str) (hne : ps ≠ []) (hfix : fixBr (joinSlash ps) = joinSlash ps)
    (hsl : ∀ p ∈ ps, ∀ c ∈ p, c ≠ '/') (hp : ∀ p ∈ ps, p ≠ [] ∧ stripWs p = p) :
    tokenize (joinSlash ps) = ps := by
  unfold tokenize
  rw [hfix, splitChar_joinSlash ps hne hsl]
  exact clean_id ps hp

/-- the pieces the `'..'` step resolves: `found` = `"//" ++ '/'.join(ps)`, last piece dropped, no strip -/
theorem up_joinSlash (ps : List Str) (hne : ps ≠ []) (hfix : fixBr (joinSlash ps) = joinSlash ps)
    (hsl : ∀ p ∈ ps, ∀ c ∈ p, c ≠ '/') (hp : ∀ p ∈ ps, p ≠ []) :
    ((splitChar '/' (fixBr (slash ++ slash ++ joinSlash ps))).filter (fun t => !t.isEmpty)).dropLast = ps.dropLast := by
  have h1 : fixBr (slash ++ slash ++ joinSlash ps) = '/' :: '/' :: joinSlash ps := by
    simp only [slash, List.cons_append, List.nil_append]
    rw [fixBr_cons_ne '/' _ (by decide), fixBr_cons_ne '/' _ (by decide), hfix]
  rw [h1]
  have h2 : splitChar '/' ('/' :: '/' :: joinSlash ps) = [] :: [] :: ps := by
    simp [splitChar, splitChar_joinSlash ps hne hsl]
  rw [h2]
  have h3 : ps.filter (fun t => !t.isEmpty) = ps := by
    apply List.filter_eq_self.mpr
    intro p hp'; simp [isEmpty_false_of_ne (hp p hp')]
  simp [List.filter, h3]

theorem stripWs_key_bracket {k : Str} (hk : PlainKey k) (e : Str) :
    stripWs (k ++ bracket e) = k ++ bracket e := by
  apply stripWs_eq_self
  · intro c hc
    cases k with
    | nil => exact absurd rfl hk.ne
    | cons x k =>
      simp at hc; subst hc
      exact (plainChar_ne (hk.chars _ (by simp))).2.2.2.2
  · intro c hc
    have : k ++ bracket e = (k ++ '[' :: e) ++ [']'] := by simp [bracket]
    rw [this, List.getLast?_append] at hc
    simp at hc; subst hc; decide

theorem PlainKey.head_ne_q {k : Str} (hk : PlainKey k) (s : Str) : startsWith (k ++ s) ['?'] = false := by
  cases k with
  | nil => exact absurd rfl hk.ne
  | cons x k =>
    have hx := hk.chars x (by simp)
    have : x ≠ '?' := by
      simp only [plainChar, Bool.not_eq_true', Bool.or_eq_false_iff, decide_eq_false_iff_not] at hx
      exact hx.1.1.1.1.1.2
    simp [startsWith, this, startsWith_nil]

/-! ### `get` / `first` on top of `_find` -/

theorem getCore_of_find (cls : Cls) (kvs : List (Str × Val)) (xp : Str) (toks : List Str) (d : Val) (raise rl : Bool)
    (fuel : Nat) (r : Res)
    (hq : startsWith xp ['?'] = false) (hpc : hasPathChar xp = true) (htok : tokenize xp = toks)
    (hr : findD fuel (.dict cls kvs) [] false true toks (.at []) rl slash = .ok (.dict cls kvs, r)) :
    getCore fuel (.dict cls kvs) xp d raise rl
      = (.dict cls kvs, if r.isFound then .ok r.value else if raise then .error .IndexError else .ok d) := by
  simp only [getCore, hq, Bool.false_eq_true, if_false, hpc, if_true, htok, hr]
  cases r.isFound <;> cases raise <;> simp

/-! ### fan-out over the records stored under a key of the root -/

theorem star_idxExpr : IdxExpr ['*'] where
  ne := by simp
  head := by intro c hc; simp at hc; subst hc; decide
  last := by intro c hc; simp at hc; subst hc; decide
  notContains := by decide
  noEq := by intro c hc; simp at hc; subst hc; exact ⟨by decide, by decide⟩

theorem getAt_root_key (cls : Cls) (kvs : List (Str × Val)) (name : Str) (c : Val) (hl : lookup name kvs = some c) :
    getAt (.dict cls kvs) ([] ++ [Seg.key name]) = some c := by
  simp [getAt, child, hl]

/-- `name[*]/f` from the root -/
theorem star_find_explicit (cls : Cls) (kvs : List (Str × Val)) (name f : Str) (lc : Cls) (rs : List Val) (rl : Bool)
    (hname : PlainKey name) (hf : PlainKey f) (hl : lookup name kvs = some (.list lc rs))
    (hrs : ∀ r ∈ rs, isDict r = true) (fuel : Nat) (hfuel : fuel ≥ rs.length + 5) :
    ∃ r, findD fuel (.dict cls kvs) [] false true [name ++ bracket ['*'], f] (.at []) rl slash = .ok (.dict cls kvs, r) ∧
      r.isFound = !(somes (rs.map (fieldOf f))).isEmpty ∧
      (r.isFound = true → r.value = collect rl (somes (rs.map (fieldOf f)))) := by
  obtain ⟨g, rfl⟩ : ∃ g, fuel = g + 1 := ⟨fuel - 1, by omega⟩
  rw [find_keybr_step g _ true rl [] slash _ name ['*'] [f] cls kvs _ rfl
    (split_bracket name ['*'] (Or.inr hname) star_idxExpr) hname.ne hname.notUp hname.keyTok.notStar hl]
  exact star_records _ rl _ _ _ f lc rs (getAt_root_key cls kvs name _ hl) hrs hf.keyTok split_star g false (by omega)

/-- `name/f` from the root (the `[*]` is supplied by the engine) -/
theorem star_find_implicit (cls : Cls) (kvs : List (Str × Val)) (name f : Str) (lc : Cls) (rs : List Val) (rl : Bool)
    (hname : PlainKey name) (hf : PlainKey f) (hl : lookup name kvs = some (.list lc rs))
    (hrs : ∀ r ∈ rs, isDict r = true) (fuel : Nat) (hfuel : fuel ≥ rs.length + 6) :
    ∃ r, findD fuel (.dict cls kvs) [] false true [name, f] (.at []) rl slash = .ok (.dict cls kvs, r) ∧
      r.isFound = !(somes (rs.map (fieldOf f))).isEmpty ∧
      (r.isFound = true → r.value = collect rl (somes (rs.map (fieldOf f)))) := by
  obtain ⟨g, rfl⟩ : ∃ g, fuel = g + 2 := ⟨fuel - 2, by omega⟩
  rw [find_key_step (g + 1) _ true rl [] slash name [f] cls kvs _ (by simp) rfl hname.keyTok hl]
  have hq := getAt_root_key cls kvs name _ hl
  rw [find_name_on_list g _ false rl _ _ f f .none [] lc rs hq hf.keyTok.split hf.ne hf.notUp]
  exact star_records _ rl _ _ _ f lc rs hq hrs hf.keyTok split_star g false (by omega)

theorem PlainKey.noSlash' {k : Str} (h : PlainKey k) : ∀ c ∈ k, c ≠ '/' := h.noSlash

theorem bracket_mem_noSlash (e : Str) (he : ∀ c ∈ e, c ≠ '/') : ∀ c ∈ bracket e, c ≠ '/' := by
  intro c hc
  simp only [bracket, List.mem_cons, List.mem_append, List.not_mem_nil, or_false] at hc
  rcases hc with (hc | hc) | hc
  · subst hc; decide
  · exact he c hc
  · subst hc; decide

/-- tokenisation of `name[e]/f` -/
theorem tokenize_keybr_field (name e f : Str) (hname : PlainKey name) (hf : PlainKey f)
    (he1 : ∀ c ∈ e, c ≠ ']') (he2 : ∀ c ∈ e, c ≠ '/') :
    tokenize (name ++ bracket e ++ slash ++ f) = [name ++ bracket e, f] := by
  have hform : name ++ bracket e ++ slash ++ f = joinSlash [name ++ bracket e, f] := by simp [joinSlash, slash]
  rw [hform]
  apply tokenize_joinSlash
  · simp
  · have h2 : joinSlash [name ++ bracket e, f] = (name ++ '[' :: e) ++ ']' :: ('/' :: f) := by simp [joinSlash, bracket]
    rw [h2]
    apply fixBr_one_rb
    · intro c hc
      simp only [List.mem_append, List.mem_cons] at hc
      rcases hc with hc | hc | hc
      · exact hname.noRB c hc
      · subst hc; decide
      · exact he1 c hc
    · intro c hc
      simp only [List.mem_cons] at hc
      rcases hc with hc | hc
      · subst hc; decide
      · exact hf.noRB c hc
    · simp
  · intro p hp c hc
    simp only [List.mem_cons, List.not_mem_nil, or_false] at hp
    rcases hp with rfl | rfl
    · simp only [List.mem_append] at hc
      rcases hc with hc | hc
      · exact hname.noSlash c hc
      · exact bracket_mem_noSlash e he2 c hc
    · exact hf.noSlash c hc
  · intro p hp
    simp only [List.mem_cons, List.not_mem_nil, or_false] at hp
    rcases hp with rfl | rfl
    · exact ⟨by simp [bracket], stripWs_key_bracket hname e⟩
    · exact ⟨hf.ne, hf.stripWs⟩

theorem tokenize_key_field (name f : Str) (hname : PlainKey name) (hf : PlainKey f) :
    tokenize (name ++ slash ++ f) = [name, f] := by
  have hform : name ++ slash ++ f = joinSlash [name, f] := by simp [joinSlash, slash]
  rw [hform]
  apply tokenize_joinSlash
  · simp
  · apply fixBr_noRB
    intro c hc
    simp only [joinSlash, List.mem_append, List.mem_cons] at hc
    rcases hc with hc | hc | hc
    · exact hname.noRB c hc
    · subst hc; decide
    · exact hf.noRB c hc
  · intro p hp c hc
    simp only [List.mem_cons, List.not_mem_nil, or_false] at hp
    rcases hp with rfl | rfl
    · exact hname.noSlash c hc
    · exact hf.noSlash c hc
  · intro p hp
    simp only [List.mem_cons, List.not_mem_nil, or_false] at hp
    rcases hp with rfl | rfl
    · exact ⟨hname.ne, hname.stripWs⟩
    · exact ⟨hf.ne, hf.stripWs⟩

/-- what `get` / item access return for a selecting lookup whose `_find` result is `r` -/
def selResult (vals : List Val) (dflt : PyM Val) : PyM Val := if vals.isEmpty then dflt else .ok (.list .n0 vals)

theorem hasPathChar_slash (a b : Str) : hasPathChar (a ++ slash ++ b) = true := by
  simp [hasPathChar, slash]

/-- what `first` returns for the selected values `vals` (default `d`): the caller's default **as it is** when nothing
is selected (fix C04-f), a single match unwrapped once more by `first`'s final step (`unwrap1`, `Model/XPathApi.lean`:
a one-element list is replaced by its element), the list of the matches when there are several -/
def firstOf (vals : List Val) (d : Val) : Val :=
  match vals with
  | [] => d
  | [v] => unwrap1 v
  | vs => .list .n0 vs

/-- `first` from what the `return_lists=False` lookup gives for every default (`b`: something was selected) -/
theorem first_of_collect {fuel : Nat} {root t' : Val} {xp : Str} {b : Bool} {val : Val} (vals : List Val)
    (h : ∀ d, getCore fuel root xp d false false = (t', if b then .ok val else .ok d))
    (hb : b = !vals.isEmpty) (hv : b = true → val = collect false vals) (d : Val) :
    first fuel root xp d = (t', .ok (firstOf vals d)) := by
  rw [first_of_ite h d]
  cases vals with
  | nil =>
    have : b = false := by simp [hb]
    simp [this, firstOf]
  | cons v vs =>
    have hbt : b = true := by simp [hb]
    have hv' := hv hbt
    subst hbt
    simp only [if_true, hv']
    cases vs with
    | nil => simp [collect, firstOf]
    | cons v2 vs => simp [collect, firstOf, unwrap1]

/-- **API layer.**  If `_find` on the tokens of `xp` selects `vals` (for either value of `return_lists`),
then `get` returns the list (the default when empty), item access the list (IndexError when empty), `first`
unwraps a single match; the tree is unchanged. -/
theorem select_api (cls : Cls) (kvs : List (Str × Val)) (xp : Str) (toks : List Str) (vals : List Val) (d : Val)
    (fuel : Nat) (hq : startsWith xp ['?'] = false) (hpc : hasPathChar xp = true) (htok : tokenize xp = toks)
    (hfind : ∀ rl, ∃ r, findD fuel (.dict cls kvs) [] false true toks (.at []) rl slash = .ok (.dict cls kvs, r) ∧
      r.isFound = !vals.isEmpty ∧ (r.isFound = true → r.value = collect rl vals)) :
    get fuel (.dict cls kvs) xp d = (.dict cls kvs, .ok (if vals.isEmpty then d else .list .n0 vals)) ∧
    getItem fuel (.dict cls kvs) xp = (.dict cls kvs, if vals.isEmpty then .error .IndexError else .ok (.list .n0 vals)) ∧
    first fuel (.dict cls kvs) xp d = (.dict cls kvs, .ok (firstOf vals d)) := by
  obtain ⟨r1, hr1, hf1, hv1⟩ := hfind true
  obtain ⟨r0, hr0, hf0, hv0⟩ := hfind false
  refine ⟨?_, ?_, ?_⟩
  · rw [get, getCore_of_find cls kvs xp toks d false true fuel r1 hq hpc htok hr1]
    cases he : vals.isEmpty with
    | true => simp [hf1, he]
    | false =>
      have : r1.isFound = true := by simp [hf1, he]
      simp [this, hv1 this, collect]
  · rw [getItem, getCore_of_find cls kvs xp toks Val.none true true fuel r1 hq hpc htok hr1]
    cases he : vals.isEmpty with
    | true => simp [hf1, he]
    | false =>
      have : r1.isFound = true := by simp [hf1, he]
      simp [this, hv1 this, collect]
  · exact first_of_collect vals
      (fun d' => getCore_of_find cls kvs xp toks d' false false fuel r0 hq hpc htok hr0) hf0 hv0 d

/-- **`name[*]/f` and `name/f`** for the records `rs` stored under the key `name` of the root. -/
theorem star_api (cls : Cls) (kvs : List (Str × Val)) (name f : Str) (lc : Cls) (rs : List Val) (d : Val)
    (hname : PlainKey name) (hf : PlainKey f) (hl : lookup name kvs = some (.list lc rs))
    (hrs : ∀ r ∈ rs, isDict r = true) (fuel : Nat) (hfuel : fuel ≥ rs.length + 6) (xp : Str)
    (hxp : xp = name ++ bracket ['*'] ++ slash ++ f ∨ xp = name ++ slash ++ f) :
    let vals := somes (rs.map (fieldOf f))
    get fuel (.dict cls kvs) xp d = (.dict cls kvs, .ok (if vals.isEmpty then d else .list .n0 vals)) ∧
    getItem fuel (.dict cls kvs) xp = (.dict cls kvs, if vals.isEmpty then .error .IndexError else .ok (.list .n0 vals)) ∧
    first fuel (.dict cls kvs) xp d = (.dict cls kvs, .ok (firstOf vals d)) := by
  intro vals
  rcases hxp with rfl | rfl
  · apply select_api cls kvs _ [name ++ bracket ['*'], f] vals d fuel
    · simpa [List.append_assoc] using hname.head_ne_q (bracket ['*'] ++ slash ++ f)
    · exact hasPathChar_slash _ _
    · exact tokenize_keybr_field name ['*'] f hname hf (by decide) (by decide)
    · intro rl
      exact star_find_explicit cls kvs name f lc rs rl hname hf hl hrs fuel (by omega)
  · apply select_api cls kvs _ [name, f] vals d fuel
    · simpa [List.append_assoc] using hname.head_ne_q (slash ++ f)
    · exact hasPathChar_slash _ _
    · exact tokenize_key_field name f hname hf
    · intro rl
      exact star_find_implicit cls kvs name f lc rs rl hname hf hl hrs fuel hfuel

/-! ### string facts for the condition tokenizer -/

theorem startsWith_mem : ∀ (s p : Str), startsWith s p = true → ∀ x ∈ p, x ∈ s
  | _, [], _, x, hx => by cases hx
  | [], _ :: _, h, _, _ => by simp [startsWith] at h
  | c :: s, q :: ps, h, x, hx => by
    simp only [startsWith, Bool.and_eq_true, beq_iff_eq] at h
    simp only [List.mem_cons] at hx ⊢
    rcases hx with rfl | hx
    · left; exact h.1.symm
    · right; exact startsWith_mem s ps h.2 x hx

theorem isInfix_mem : ∀ (p s : Str), p ≠ [] → isInfix p s = true → ∀ x ∈ p, x ∈ s
  | p, [], hp, h, _, _ => by simp [isInfix, isEmpty_false_of_ne hp] at h
  | p, c :: s, hp, h, x, hx => by
    simp only [isInfix, Bool.or_eq_true] at h
    rcases h with h | h
    · exact startsWith_mem _ _ h x hx
    · exact List.mem_cons_of_mem _ (isInfix_mem p s hp h x hx)

/-- a pattern containing a character that does not occur in `s` is not a substring of `s` -/
theorem isInfix_false_of_not_mem (p s : Str) (x : Char) (hx : x ∈ p) (hs : x ∉ s) : isInfix p s = false := by
  cases h : isInfix p s with
  | false => rfl
  | true => exact absurd (isInfix_mem p s (by intro hp; subst hp; cases hx) h x hx) hs

theorem isInfix_skip (d0 : Char) (d' k t : Str) (h : ∀ c ∈ k, c ≠ d0) :
    isInfix (d0 :: d') (k ++ t) = isInfix (d0 :: d') t := by
  induction k with
  | nil => rfl
  | cons c k ih =>
    have hc : c ≠ d0 := h c (by simp)
    rw [List.cons_append, isInfix, ih (fun x hx => h x (by simp [hx]))]
    simp [startsWith, hc]

theorem isInfix_append_self (p k t : Str) (hp : p ≠ []) : isInfix p (k ++ p ++ t) = true := by
  induction k with
  | nil =>
    cases p with
    | nil => exact absurd rfl hp
    | cons c p' =>
      have := startsWith_self_append (c :: p') t
      simp only [List.nil_append, List.cons_append, isInfix, Bool.or_eq_true]
      left; simpa using this
  | cons c k ih =>
    simp only [List.cons_append, isInfix, Bool.or_eq_true]
    right; simpa using ih

theorem startsWith_single_false (s : Str) (c : Char) (h : c ∉ s) : startsWith s [c] = false := by
  cases hs : startsWith s [c] with
  | false => rfl
  | true => exact absurd (startsWith_mem s [c] hs c (by simp)) h

theorem contains_true_of_mem (s : Str) (c : Char) (h : c ∈ s) : s.contains c = true := by
  simp [h]

/-- `"contains"` cannot start in `k` followed by an operator character unless `k` itself starts with it -/
theorem startsWith_lower_append (k rest p : Str) (o : Char) (hp : ∀ c ∈ p, c ≠ toLowerAscii o) :
    startsWith (lower (k ++ o :: rest)) p = true → startsWith (lower k) p = true := by
  induction k generalizing p with
  | nil =>
    cases p with
    | nil => intro _; rfl
    | cons c p' =>
      have hc := hp c (by simp)
      simp [Py.lower, startsWith, Ne.symm hc]
  | cons x k ih =>
    cases p with
    | nil => intro _; simp [Py.lower, startsWith]
    | cons c p' =>
      simp only [Py.lower, List.cons_append, List.map_cons, startsWith, Bool.and_eq_true, beq_iff_eq]
      intro ⟨h1, h2⟩
      exact ⟨h1, ih p' (fun y hy => hp y (by simp [hy])) h2⟩

/-! ### `split_name_index` on the predicate steps -/

/-- the comparison operators of the property: as written (`=`, `==`, `!=`, `~`, `~~`) and as the
tokenizer normalises them -/
inductive OpSpell : Str → Str → Prop
  | eq1 : OpSpell ['='] ['=', '=']
  | eq2 : OpSpell ['=', '='] ['=', '=']
  | ne : OpSpell ['!', '='] ['!', '=']
  | in1 : OpSpell ['~'] ['~', '~']
  | in2 : OpSpell ['~', '~'] ['~', '~']

/-- a field name that can stand on the left of a condition: plain characters, no `!`, not starting
with `contains` (any letter case) -/
structure CondKey (k : Str) : Prop where
  ne : k ≠ []
  chars : ∀ c ∈ k, plainChar c = true ∧ c ≠ '!'
  notContains : startsWith (lower k) sContains = false

/-- a literal value: plain characters (no blanks, quotes, brackets, `/`, `=`, `~`, `*`, `?`), no `%`
(url-unquoting), not the bool spellings `true()` / `false()`; it may be empty -/
structure PlainLit (v : Str) : Prop where
  chars : ∀ c ∈ v, plainChar c = true ∧ c ≠ '%'
  notTrue : lower v ≠ sTrue
  notFalse : lower v ≠ sFalse

/-- the literal as written in the step: bare, or in single or double quotes -/
inductive LitSpell : Str → Str → Prop
  | bare (v : Str) : LitSpell v v
  | sq (v : Str) : LitSpell ('\'' :: v ++ ['\'']) v
  | dq (v : Str) : LitSpell ('"' :: v ++ ['"']) v

theorem plainChar_ne2 {c : Char} (h : plainChar c = true) : c ≠ '=' ∧ c ≠ '~' ∧ c ≠ '"' ∧ c ≠ '\'' := by
  simp only [plainChar, Bool.not_eq_true', Bool.or_eq_false_iff, decide_eq_false_iff_not] at h
  obtain ⟨⟨⟨⟨⟨⟨⟨⟨⟨_, _⟩, _⟩, _⟩, _⟩, h6⟩, h7⟩, h8⟩, h9⟩, _⟩ := h
  exact ⟨h6, h7, h8, h9⟩

theorem CondKey.no (k : Str) (h : CondKey k) : ∀ c ∈ k, c ≠ '=' ∧ c ≠ '~' ∧ c ≠ '!' ∧ c ≠ '[' ∧ isPySpace c = false :=
  fun c hc => ⟨(plainChar_ne2 (h.chars c hc).1).1, (plainChar_ne2 (h.chars c hc).1).2.1, (h.chars c hc).2,
    (plainChar_ne (h.chars c hc).1).2.1, (plainChar_ne (h.chars c hc).1).2.2.2.2⟩

theorem LitSpell.no {vq v : Str} (h : LitSpell vq v) (hv : PlainLit v) :
    ∀ c ∈ vq, c ≠ '=' ∧ c ≠ '~' ∧ c ≠ '[' ∧ c ≠ ']' ∧ c ≠ '/' ∧ isPySpace c = false := by
  have hp : ∀ c ∈ v, c ≠ '=' ∧ c ≠ '~' ∧ c ≠ '[' ∧ c ≠ ']' ∧ c ≠ '/' ∧ isPySpace c = false := fun c hc =>
    ⟨(plainChar_ne2 (hv.chars c hc).1).1, (plainChar_ne2 (hv.chars c hc).1).2.1, (plainChar_ne (hv.chars c hc).1).2.1,
      (plainChar_ne (hv.chars c hc).1).2.2.1, (plainChar_ne (hv.chars c hc).1).1, (plainChar_ne (hv.chars c hc).1).2.2.2.2⟩
  cases h with
  | bare => exact hp
  | sq =>
    intro c hc
    simp only [List.mem_cons, List.mem_append, List.not_mem_nil, or_false] at hc
    rcases hc with (rfl | hc) | rfl
    · decide
    · exact hp c hc
    · decide
  | dq =>
    intro c hc
    simp only [List.mem_cons, List.mem_append, List.not_mem_nil, or_false] at hc
    rcases hc with (rfl | hc) | rfl
    · decide
    · exact hp c hc
    · decide

theorem OpSpell.cases' {opx op : Str} (h : OpSpell opx op) :
    opx ≠ [] ∧ (∀ c ∈ opx, c = '=' ∨ c = '!' ∨ c = '~') ∧
    (if opx = ['='] then ['=', '='] else if opx = ['~'] then ['~', '~'] else opx) = op := by
  cases h <;> simp

/-- which delimiter the tokenizer picks: the operator as written -/
theorem firstDelim_spell (k opx op vq : Str) (hk : ∀ c ∈ k, c ≠ '=' ∧ c ≠ '~' ∧ c ≠ '!')
    (hv : ∀ c ∈ vq, c ≠ '=' ∧ c ≠ '~') (h : OpSpell opx op) :
    firstDelim (k ++ opx ++ vq) condDelims = some opx := by
  have hkeq : ∀ c ∈ k, c ≠ '=' := fun c hc => (hk c hc).1
  have hktl : ∀ c ∈ k, c ≠ '~' := fun c hc => (hk c hc).2.1
  have hkbg : ∀ c ∈ k, c ≠ '!' := fun c hc => (hk c hc).2.2
  have hveq : '=' ∉ vq := fun hc => (hv _ hc).1 rfl
  have hvtl : '~' ∉ vq := fun hc => (hv _ hc).2 rfl
  have nEqEq : isInfix ['=', '='] vq = false := isInfix_false_of_not_mem _ _ '=' (by simp) hveq
  have nNeq : isInfix ['!', '='] vq = false := isInfix_false_of_not_mem _ _ '=' (by simp) hveq
  have nTT : isInfix ['~', '~'] vq = false := isInfix_false_of_not_mem _ _ '~' (by simp) hvtl
  have nBT : isInfix ['!', '~'] vq = false := isInfix_false_of_not_mem _ _ '~' (by simp) hvtl
  have sEq : startsWith vq ['='] = false := startsWith_single_false vq '=' hveq
  have sTl : startsWith vq ['~'] = false := startsWith_single_false vq '~' hvtl
  cases h with
  | eq1 =>
    have h1 : isInfix ['=', '='] (k ++ ['='] ++ vq) = false := by
      rw [List.append_assoc, isInfix_skip '=' ['='] k _ hkeq]
      simp [isInfix, startsWith, sEq, nEqEq]
    have h2 : isInfix ['!', '='] (k ++ ['='] ++ vq) = false := by
      rw [List.append_assoc, isInfix_skip '!' ['='] k _ hkbg]
      simp [isInfix, startsWith, nNeq]
    have hnt : '~' ∉ k ++ ['='] ++ vq := by
      simp only [List.mem_append, List.mem_singleton, not_or]
      exact ⟨⟨fun hc => hktl _ hc rfl, by decide⟩, hvtl⟩
    have h3 : isInfix ['~', '~'] (k ++ ['='] ++ vq) = false := isInfix_false_of_not_mem _ _ '~' (by simp) hnt
    have h4 : isInfix ['!', '~'] (k ++ ['='] ++ vq) = false := isInfix_false_of_not_mem _ _ '~' (by simp) hnt
    have h5 : isInfix ['~'] (k ++ ['='] ++ vq) = false := isInfix_false_of_not_mem _ _ '~' (by simp) hnt
    have h6 : isInfix ['='] (k ++ ['='] ++ vq) = true := isInfix_append_self ['='] k vq (by simp)
    simp only [firstDelim, condDelims, h1, h2, h3, h4, h5, h6, Bool.false_eq_true, if_false, if_true]
  | eq2 =>
    have h1 : isInfix ['=', '='] (k ++ ['=', '='] ++ vq) = true := isInfix_append_self _ k vq (by simp)
    simp only [firstDelim, condDelims, h1, if_true]
  | ne =>
    have h1 : isInfix ['=', '='] (k ++ ['!', '='] ++ vq) = false := by
      rw [List.append_assoc, isInfix_skip '=' ['='] k _ hkeq]
      simp [isInfix, startsWith, sEq, nEqEq]
    have h2 : isInfix ['!', '='] (k ++ ['!', '='] ++ vq) = true := isInfix_append_self _ k vq (by simp)
    simp only [firstDelim, condDelims, h1, h2, Bool.false_eq_true, if_false, if_true]
  | in1 =>
    have hne : '=' ∉ k ++ ['~'] ++ vq := by
      simp only [List.mem_append, List.mem_singleton, not_or]
      exact ⟨⟨fun hc => hkeq _ hc rfl, by decide⟩, hveq⟩
    have h1 : isInfix ['=', '='] (k ++ ['~'] ++ vq) = false := isInfix_false_of_not_mem _ _ '=' (by simp) hne
    have h2 : isInfix ['!', '='] (k ++ ['~'] ++ vq) = false := isInfix_false_of_not_mem _ _ '=' (by simp) hne
    have h3 : isInfix ['~', '~'] (k ++ ['~'] ++ vq) = false := by
      rw [List.append_assoc, isInfix_skip '~' ['~'] k _ hktl]
      simp [isInfix, startsWith, sTl, nTT]
    have h4 : isInfix ['!', '~'] (k ++ ['~'] ++ vq) = false := by
      rw [List.append_assoc, isInfix_skip '!' ['~'] k _ hkbg]
      simp [isInfix, startsWith, nBT]
    have h5 : isInfix ['~'] (k ++ ['~'] ++ vq) = true := isInfix_append_self _ k vq (by simp)
    simp only [firstDelim, condDelims, h1, h2, h3, h4, h5, Bool.false_eq_true, if_false, if_true]
  | in2 =>
    have hne : '=' ∉ k ++ ['~', '~'] ++ vq := by
      simp only [List.mem_append, List.mem_cons, List.not_mem_nil, or_false, not_or]
      exact ⟨⟨fun hc => hkeq _ hc rfl, by decide, by decide⟩, hveq⟩
    have h1 : isInfix ['=', '='] (k ++ ['~', '~'] ++ vq) = false := isInfix_false_of_not_mem _ _ '=' (by simp) hne
    have h2 : isInfix ['!', '='] (k ++ ['~', '~'] ++ vq) = false := isInfix_false_of_not_mem _ _ '=' (by simp) hne
    have h3 : isInfix ['~', '~'] (k ++ ['~', '~'] ++ vq) = true := isInfix_append_self _ k vq (by simp)
    simp only [firstDelim, condDelims, h1, h2, h3, Bool.false_eq_true, if_false, if_true]

/-- the split at the operator gives the field name and the written literal -/
theorem splitOnce_spell (k opx op vq : Str) (hk : ∀ c ∈ k, c ≠ '=' ∧ c ≠ '~' ∧ c ≠ '!') (h : OpSpell opx op) :
    splitOnce opx (k ++ opx ++ vq) = some (k, vq) := by
  obtain ⟨hne, hch, _⟩ := h.cases'
  unfold splitOnce
  have := split1_found opx k vq [] ((k ++ opx ++ vq).length + 1) hne
    (by
      intro pre suf hps hsne
      cases suf with
      | nil => exact absurd rfl hsne
      | cons c suf =>
        have hc : c ∈ k := by rw [hps]; simp
        have hck := hk c hc
        cases opx with
        | nil => exact absurd rfl hne
        | cons o opx' =>
          have ho := hch o (by simp)
          have : c ≠ o := by
            rcases ho with rfl | rfl | rfl
            · exact hck.1
            · exact hck.2.2
            · exact hck.2.1
          simp [startsWith, this])
    (by simp)
  simpa using this

theorem stripWs_of_all (s : Str) (h : ∀ c ∈ s, isPySpace c = false) : stripWs s = s :=
  stripWs_eq_self s (fun c hc => h c (List.mem_of_mem_head? hc)) (fun c hc => h c (List.mem_of_getLast? hc))

theorem lower_cons (c : Char) (s : Str) : lower (c :: s) = toLowerAscii c :: lower s := rfl

/-- the value part of a condition: bare or quoted literal → the text `v` -/
theorem parseCond_spell (k opx op vq v : Str) (hk : CondKey k) (hop : OpSpell opx op) (hl : LitSpell vq v)
    (hv : PlainLit v) : parseCond (k ++ opx ++ vq) = .ok (.cond k op (.str v)) := by
  have hkn := CondKey.no k hk
  have hvn := hl.no hv
  have hk3 : ∀ c ∈ k, c ≠ '=' ∧ c ≠ '~' ∧ c ≠ '!' := fun c hc => ⟨(hkn c hc).1, (hkn c hc).2.1, (hkn c hc).2.2.1⟩
  have hv2 : ∀ c ∈ vq, c ≠ '=' ∧ c ≠ '~' := fun c hc => ⟨(hvn c hc).1, (hvn c hc).2.1⟩
  have hcont : ((k ++ opx ++ vq).contains '=' || (k ++ opx ++ vq).contains '~') = true := by
    cases hop <;> simp
  have hks : stripWs k = k := stripWs_of_all k (fun c hc => (hkn c hc).2.2.2.2)
  have hvs : stripWs vq = vq := stripWs_of_all vq (fun c hc => (hvn c hc).2.2.2.2.2)
  obtain ⟨_, _, hcanon⟩ := hop.cases'
  unfold parseCond
  simp only [hcont, if_true, firstDelim_spell k opx op vq hk3 hv2 hop, splitOnce_spell k opx op vq hk3 hop, hks, hvs,
    hcanon]
  cases hl with
  | bare =>
    have hq1 : startsWith vq ['"'] = false := by
      cases vq with
      | nil => rfl
      | cons c v' =>
        have := (plainChar_ne2 (hv.chars c (by simp)).1).2.2.1
        simp [startsWith, this]
    have hq2 : startsWith vq ['\''] = false := by
      cases vq with
      | nil => rfl
      | cons c v' =>
        have := (plainChar_ne2 (hv.chars c (by simp)).1).2.2.2
        simp [startsWith, this]
    simp only [hv.notTrue, hv.notFalse, if_false, hq1, hq2, Bool.false_and, Bool.or_self, Bool.false_eq_true]
  | sq =>
    have h1 : lower ('\'' :: v ++ ['\'']) ≠ sTrue := by
      rw [List.cons_append, lower_cons]; intro h; injection h with h _; revert h; decide
    have h2 : lower ('\'' :: v ++ ['\'']) ≠ sFalse := by
      rw [List.cons_append, lower_cons]; intro h; injection h with h _; revert h; decide
    have h3 : startsWith ('\'' :: v ++ ['\'']) ['\''] = true := by simp [startsWith, startsWith_nil]
    have h4 : endsWith ('\'' :: v ++ ['\'']) ['\''] = true := by
      rw [show '\'' :: v ++ ['\''] = ('\'' :: v) ++ ['\''] from rfl]; exact endsWith_snoc _ _
    have h5 : (('\'' :: v ++ ['\'']).drop 1).dropLast = v := by simp
    have h6 : hasPercent v = false := contains_false_of_forall v '%' (fun c hc => (hv.chars c hc).2)
    simp only [h1, h2, if_false, h3, h4, Bool.and_self, Bool.or_true, if_true, h5, h6, Bool.false_eq_true]
  | dq =>
    have h1 : lower ('"' :: v ++ ['"']) ≠ sTrue := by
      rw [List.cons_append, lower_cons]; intro h; injection h with h _; revert h; decide
    have h2 : lower ('"' :: v ++ ['"']) ≠ sFalse := by
      rw [List.cons_append, lower_cons]; intro h; injection h with h _; revert h; decide
    have h3 : startsWith ('"' :: v ++ ['"']) ['"'] = true := by simp [startsWith, startsWith_nil]
    have h4 : endsWith ('"' :: v ++ ['"']) ['"'] = true := by
      rw [show '"' :: v ++ ['"'] = ('"' :: v) ++ ['"'] from rfl]; exact endsWith_snoc _ _
    have h5 : (('"' :: v ++ ['"']).drop 1).dropLast = v := by simp
    have h6 : hasPercent v = false := contains_false_of_forall v '%' (fun c hc => (hv.chars c hc).2)
    simp only [h1, h2, if_false, h3, h4, Bool.and_self, Bool.true_or, if_true, h5, h6, Bool.false_eq_true]

theorem cond_notContains (k opx op vq : Str) (hk : CondKey k) (hop : OpSpell opx op) :
    startsWith (lower (k ++ opx ++ vq)) sContains = false := by
  cases h : startsWith (lower (k ++ opx ++ vq)) sContains with
  | false => rfl
  | true =>
    exfalso
    have hnc := hk.notContains
    obtain ⟨o, opx', rfl⟩ : ∃ o opx', opx = o :: opx' := by cases hop <;> exact ⟨_, _, rfl⟩
    have ho : ∀ c ∈ sContains, c ≠ toLowerAscii o := by
      cases hop <;> decide
    have := startsWith_lower_append k (opx' ++ vq) sContains o ho (by simpa [List.append_assoc] using h)
    rw [this] at hnc; cases hnc

/-- **`split_name_index` on a predicate step** `nm[k op v]` (`nm` empty or a plain name; the operator as
written or normalised; the literal bare or quoted) -/
theorem split_cond (nm k opx op vq v : Str) (hnm : nm = [] ∨ PlainKey nm) (hk : CondKey k) (hop : OpSpell opx op)
    (hl : LitSpell vq v) (hv : PlainLit v) :
    splitNameIndex (nm ++ bracket (k ++ opx ++ vq)) = .ok (nm, .cond k op (.str v)) := by
  have hkn := CondKey.no k hk
  have hvn := hl.no hv
  obtain ⟨hopne, hopch, _⟩ := hop.cases'
  have hnmb : ∀ c ∈ nm, c ≠ '[' := by
    rcases hnm with h | h
    · subst h; simp
    · exact fun c hc => (plainChar_ne (h.chars c hc)).2.1
  have hnms : stripWs nm = nm := by
    rcases hnm with h | h
    · subst h; rfl
    · exact h.stripWs
  have hesp : ∀ c ∈ k ++ opx ++ vq, isPySpace c = false := by
    intro c hc
    simp only [List.mem_append] at hc
    rcases hc with (hc | hc) | hc
    · exact (hkn c hc).2.2.2.2
    · rcases hopch c hc with rfl | rfl | rfl <;> decide
    · exact (hvn c hc).2.2.2.2.2
  have hes : stripWs (k ++ opx ++ vq) = k ++ opx ++ vq := stripWs_of_all _ hesp
  have hene : (k ++ opx ++ vq).isEmpty = false := by
    apply isEmpty_false_of_ne; intro h; simp at h; exact hk.ne h.1
  have hform : nm ++ bracket (k ++ opx ++ vq) = (nm ++ '[' :: (k ++ opx ++ vq)) ++ [']'] := by simp [bracket]
  have hcont : (nm ++ bracket (k ++ opx ++ vq)).contains '[' = true := by simp [bracket]
  have hends : endsWith (nm ++ bracket (k ++ opx ++ vq)) [']'] = true := by rw [hform]; exact endsWith_snoc _ _
  have hdrop : (nm ++ bracket (k ++ opx ++ vq)).dropLast = nm ++ '[' :: (k ++ opx ++ vq) := by
    rw [hform, List.dropLast_concat]
  unfold splitNameIndex
  simp only [hcont, hends, Bool.and_self, if_true, hdrop, splitOnce_bracket nm _ hnmb, hnms, hes, hene,
    Bool.false_eq_true, if_false, cond_notContains k opx op vq hk hop, Bool.false_and,
    parseCond_spell k opx op vq v hk hop hl hv]
  rfl

theorem condKey_text : CondKey sTextFn where
  ne := by decide
  chars := by decide
  notContains := by decide

theorem opSpell_canon {opx op : Str} (h : OpSpell opx op) : OpSpell op op := by
  cases h
  · exact .eq2
  · exact .eq2
  · exact .ne
  · exact .in2
  · exact .in2

/-! ### the predicate steps, tree level -/

/-- `[k op v]` on a dict that has `k`: descend to `parent[k]`, test its text, come back with `'..'` -/
theorem find_cond_step (fuel : Nat) (root : Val) (entry rl : Bool) (q : Pos) (found tok k op : Str) (v : CondVal)
    (rest : List Str) (cls : Cls) (kvs : List (Str × Val)) (kv : Val)
    (hq : getAt root q = some (.dict cls kvs)) (hs : splitNameIndex tok = .ok ([], .cond k op v))
    (hk : k ≠ sTextFn) (hl : lookup k kvs = some kv) :
    findD (fuel + 1) root [] false entry (tok :: rest) (.at q) rl found
      = findD fuel root [] false false (bracket (sTextFn ++ op ++ condValStr v) :: ['.', '.'] :: rest)
          (.at (q ++ [Seg.key k])) rl (found ++ slash ++ k) := by
  rw [findD]
  simp only [Bool.false_and, Bool.false_eq_true, if_false, valOf_at, hq, hs, List.isEmpty_nil,
    Idx.truthy, Bool.not_true, Bool.and_false, hk, hl, childRef]

theorem find_cond_missing (fuel : Nat) (root : Val) (entry rl : Bool) (q : Pos) (found tok k op : Str) (v : CondVal)
    (rest : List Str) (cls : Cls) (kvs : List (Str × Val))
    (hq : getAt root q = some (.dict cls kvs)) (hs : splitNameIndex tok = .ok ([], .cond k op v))
    (hk : k ≠ sTextFn) (hl : lookup k kvs = Option.none) :
    findD (fuel + 1) root [] false entry (tok :: rest) (.at q) rl found
      = .ok (root, { parent := .at q, nameIdx := Option.none, value := Val.none, found := found, notFound := some (tok :: rest) }) := by
  rw [findD]
  simp only [Bool.false_and, Bool.false_eq_true, if_false, valOf_at, hq, hs, List.isEmpty_nil,
    Idx.truthy, Bool.not_true, Bool.and_false, hk, hl]

/-- `k[cond]` on a dict without `k` -/
theorem find_keycond_missing (fuel : Nat) (root : Val) (entry rl : Bool) (q : Pos) (found tok nm : Str) (idx : Idx)
    (rest : List Str) (cls : Cls) (kvs : List (Str × Val))
    (hq : getAt root q = some (.dict cls kvs)) (hs : splitNameIndex tok = .ok (nm, idx))
    (hne : nm ≠ []) (hup : nm ≠ ['.', '.']) (hst : nm ≠ ['*']) (hl : lookup nm kvs = Option.none) :
    findD (fuel + 1) root [] false entry (tok :: rest) (.at q) rl found
      = .ok (root, { parent := .at q, nameIdx := Option.none, value := Val.none, found := found, notFound := some (tok :: rest) }) := by
  have hne' : nm.isEmpty = false := isEmpty_false_of_ne hne
  rw [findD]
  simp only [Bool.false_and, Bool.false_eq_true, if_false, valOf_at, hq, hs, hne', Bool.not_false,
    hup, hst, isList, isDict, Bool.not_true, hl, if_true]

theorem split_up : splitNameIndex ['.', '.'] = .ok (['.', '.'], .none) := by decide

theorem intStr_nat (j : Nat) : intStr (j : Int) = natStr j := rfl

/-- the `'..'` step: the `found` text, minus its last piece, is resolved from the root to the element
`qq[j]`; the walk continues there, with the index put back on the found text (fix C06-b) -/
theorem find_up_step (fuel : Nat) (root : Val) (entry rl : Bool) (p : Pos) (pv : Val) (found : Str) (rest up : List Str)
    (qq : Pos) (lc : Cls) (rs : List Val) (j : Nat) (rec : Val) (fnd' : Str)
    (hpar : getAt root p = some pv)
    (hup : ((splitChar '/' (fixBr found)).filter (fun t => !t.isEmpty)).dropLast = up)
    (hinner : findD fuel root [] false false up (.at []) rl slash
      = .ok (root, { parent := .at qq, nameIdx := some (bracket (intStr (j : Int))), value := rec, found := fnd', notFound := Option.none }))
    (hqq : getAt root qq = some (.list lc rs)) (hj : j < rs.length) (hrest : rest ≠ []) :
    findD (fuel + 1) root [] false entry (['.', '.'] :: rest) (.at p) rl found
      = findD fuel root [] false false rest (.at (qq ++ [Seg.idx j])) rl (fnd' ++ bracket (intStr (j : Int))) := by
  have hr : rest.length ≥ 1 := by cases rest with | nil => exact absurd rfl hrest | cons _ _ => simp
  have hbne : (bracket (intStr (j : Int))).isEmpty = false := by simp [bracket]
  rw [findD]
  simp only [Bool.false_and, Bool.false_eq_true, if_false, valOf_at, hpar, split_up, List.isEmpty_cons,
    Bool.not_false, Idx.truthy, if_true, hup, hinner, hqq, hbne, split_bracket_intStr, List.isEmpty_nil,
    Bool.not_true, n0eval_intStr, pyGetIdx, normIdx_nat hj, childRef, hr, Bool.or_true, decide_true, upFound]

/-- the comparison made by the `text()` branch for the normalised operator `op` -/
def condTest (op : Str) (v : CondVal) (kv : Val) : Bool :=
  let b := if op.drop 1 = ['='] then textEqCond kv v else pyInCond v kv
  if op.take 1 = ['!'] then !b else b

theorem opSpell_self_cases {op : Str} (h : OpSpell op op) : op = ['=', '='] ∨ op = ['!', '='] ∨ op = ['~', '~'] := by
  generalize ho : op = op' at h
  cases h <;> simp_all

/-- the `[text() op v]` step on the node at `p` -/
theorem find_text_step (fuel : Nat) (root : Val) (entry rl : Bool) (p : Pos) (kv : Val) (found tok op : Str) (v : CondVal)
    (rest : List Str) (hp : getAt root p = some kv)
    (hs : splitNameIndex tok = .ok ([], .cond sTextFn op v)) (hop : OpSpell op op) (hg : textGuard kv v = false) :
    findD (fuel + 1) root [] false entry (tok :: rest) (.at p) rl found
      = if condTest op v kv then findD fuel root [] false false rest (.at p) rl found
        else .ok (root, { parent := .at p, nameIdx := Option.none, value := Val.none, found := found, notFound := some (tok :: rest) }) := by
  rw [findD]
  simp only [Bool.false_and, Bool.false_eq_true, if_false, valOf_at, hp, hs, List.isEmpty_nil,
    Idx.truthy, Bool.not_true, Bool.and_false, if_true, hg]
  rcases opSpell_self_cases hop with rfl | rfl | rfl
  · cases hc : textEqCond kv v <;> simp [condTest, hc]
  · cases hc : textEqCond kv v <;> simp [condTest, hc]
  · cases hc : pyInCond v kv <;> simp [condTest, hc]

/-! ### one record of a predicate selection (records under a key of the root) -/

theorem fixBr_keybr_key (name e k : Str) (hname : PlainKey name) (he : ∀ c ∈ e, c ≠ ']') (hk : PlainKey k) :
    fixBr (joinSlash [name ++ bracket e, k]) = joinSlash [name ++ bracket e, k] := by
  have h2 : joinSlash [name ++ bracket e, k] = (name ++ '[' :: e) ++ ']' :: ('/' :: k) := by simp [joinSlash, bracket]
  rw [h2]
  apply fixBr_one_rb
  · intro c hc
    simp only [List.mem_append, List.mem_cons] at hc
    rcases hc with hc | hc | hc
    · exact hname.noRB c hc
    · subst hc; decide
    · exact he c hc
  · intro c hc
    simp only [List.mem_cons] at hc
    rcases hc with hc | hc
    · subst hc; decide
    · exact hk.noRB c hc
  · simp

/-- **`'..'` then `f`.**  After the test on `name[j]/k`, the step `'..'` re-resolves `//name[j]` from the
root and `f` is looked up in that record. -/
theorem up_tail (cls : Cls) (kvs : List (Str × Val)) (name k f : Str) (lc : Cls) (rs : List Val) (j : Nat) (rl : Bool)
    (c : Cls) (kvs' : List (Str × Val)) (p : Pos) (pv : Val)
    (hname : PlainKey name) (hk : PlainKey k) (hf : KeyTok f)
    (hl : lookup name kvs = some (.list lc rs)) (hj : rs[j]? = some (.dict c kvs'))
    (hp : getAt (.dict cls kvs) p = some pv) (fuel : Nat) (hfuel : fuel ≥ 3) :
    ∃ r, findD fuel (.dict cls kvs) [] false false [['.', '.'], f] (.at p) rl
          (slash ++ slash ++ name ++ bracket (intStr (j : Int)) ++ slash ++ k) = .ok (.dict cls kvs, r)
      ∧ r.isFound = (lookup f kvs').isSome ∧ ∀ x, lookup f kvs' = some x → r.value = x := by
  obtain ⟨g, rfl⟩ : ∃ g, fuel = g + 3 := ⟨fuel - 3, by omega⟩
  have hlt : j < rs.length := by
    rcases Nat.lt_or_ge j rs.length with h | h
    · exact h
    · rw [List.getElem?_eq_none h] at hj; cases hj
  have hqq : getAt (.dict cls kvs) ([] ++ [Seg.key name]) = some (.list lc rs) := getAt_root_key cls kvs name _ hl
  -- the pieces of `found`
  have hfound : slash ++ slash ++ name ++ bracket (intStr (j : Int)) ++ slash ++ k
      = slash ++ slash ++ joinSlash [name ++ bracket (natStr j), k] := by
    simp [joinSlash, slash, intStr_nat]
  have hup : ((splitChar '/' (fixBr (slash ++ slash ++ name ++ bracket (intStr (j : Int)) ++ slash ++ k))).filter
      (fun t => !t.isEmpty)).dropLast = [name ++ bracket (natStr j)] := by
    rw [hfound, up_joinSlash _ (by simp) (fixBr_keybr_key name (natStr j) k hname (natStr_noRB j) hk)]
    · simp
    · intro q hq c hc
      simp only [List.mem_cons, List.not_mem_nil, or_false] at hq
      rcases hq with rfl | rfl
      · simp only [List.mem_append] at hc
        rcases hc with hc | hc
        · exact hname.noSlash c hc
        · exact bracket_noSlash j c hc
      · exact hk.noSlash c hc
    · intro q hq
      simp only [List.mem_cons, List.not_mem_nil, or_false] at hq
      rcases hq with rfl | rfl
      · simp [bracket]
      · exact hk.ne
  -- the inner resolution of `name[j]` from the root
  have hkit := keyIdxTok_of hname (natStr_idxExpr j) (natStr_ne_special j).1 (natStr_ne_special j).2 (n0eval_nat j)
  have hinner : findD (g + 2) (.dict cls kvs) [] false false [name ++ bracket (natStr j)] (.at []) rl slash
      = .ok (.dict cls kvs, { parent := .at ([] ++ [Seg.key name]), nameIdx := some (bracket (intStr (j : Int))), value := Val.dict c kvs', found := slash ++ slash ++ name, notFound := Option.none }) := by
    rw [find_keyidx_step (g + 1) _ false rl [] slash _ name (natStr j) (j : Int) [] cls kvs _ rfl hkit hl]
    rw [find_idx_last g _ false rl _ _ (bracket (natStr j)) (natStr j) (j : Int) lc rs j _ hqq hkit.inner
      (normIdx_nat hlt) hj]
  rw [find_up_step (g + 2) _ false rl p pv _ [f] _ ([] ++ [Seg.key name]) lc rs j _ _ hp hup hinner hqq hlt (by simp)]
  have hq' : getAt (.dict cls kvs) ([] ++ [Seg.key name] ++ [Seg.idx j]) = some (.dict c kvs') := by
    rw [getAt_snoc, hqq]; simp [child, hj]
  cases hlf : lookup f kvs' with
  | none =>
    rw [find_key_missing (g + 1) _ false rl _ _ f [] c kvs' hq' hf hlf]
    exact ⟨_, rfl, by simp [Res.isFound], by intro x hx; cases hx⟩
  | some x =>
    rw [find_key_last (g + 1) _ false rl _ _ f c kvs' x hq' hf hlf]
    exact ⟨_, rfl, by simp [Res.isFound], by intro x' hx'; cases hx'; rfl⟩

/-- what a record contributes to a predicate selection -/
def condOutcome (k f op : Str) (v : CondVal) : Val → Option Val
  | .dict _ kvs' =>
    match lookup k kvs' with
    | Option.none => Option.none
    | some kv => if condTest op v kv then lookup f kvs' else Option.none
  | _ => Option.none

/-- **`[text() op v]`, `'..'`, `f`** on the value of `k` of record `j` -/
theorem text_tail (cls : Cls) (kvs : List (Str × Val)) (name k f op tok : Str) (v : CondVal) (lc : Cls) (rs : List Val)
    (j : Nat) (rl : Bool) (c : Cls) (kvs' : List (Str × Val)) (kv : Val)
    (hname : PlainKey name) (hk : PlainKey k) (hf : KeyTok f)
    (hl : lookup name kvs = some (.list lc rs)) (hj : rs[j]? = some (.dict c kvs')) (hlk : lookup k kvs' = some kv)
    (hs : splitNameIndex tok = .ok ([], .cond sTextFn op v)) (hop : OpSpell op op) (hg : textGuard kv v = false)
    (fuel : Nat) (hfuel : fuel ≥ 4) :
    ∃ r, findD fuel (.dict cls kvs) [] false false [tok, ['.', '.'], f] (.at ([] ++ [Seg.key name] ++ [Seg.idx j] ++ [Seg.key k])) rl
          (slash ++ slash ++ name ++ bracket (intStr (j : Int)) ++ slash ++ k) = .ok (.dict cls kvs, r)
      ∧ r.isFound = (condOutcome k f op v (.dict c kvs')).isSome ∧ ∀ x, condOutcome k f op v (.dict c kvs') = some x → r.value = x := by
  obtain ⟨g, rfl⟩ : ∃ g, fuel = g + 1 := ⟨fuel - 1, by omega⟩
  have hqq : getAt (.dict cls kvs) ([] ++ [Seg.key name]) = some (.list lc rs) := getAt_root_key cls kvs name _ hl
  have hq' : getAt (.dict cls kvs) ([] ++ [Seg.key name] ++ [Seg.idx j]) = some (.dict c kvs') := by
    rw [getAt_snoc, hqq]; simp [child, hj]
  have hp : getAt (.dict cls kvs) ([] ++ [Seg.key name] ++ [Seg.idx j] ++ [Seg.key k]) = some kv := by
    rw [getAt_snoc, hq']; simp [child, hlk]
  rw [find_text_step g _ false rl _ kv _ tok op v _ hp hs hop hg]
  cases hc : condTest op v kv with
  | false =>
    simp only [Bool.false_eq_true, if_false]
    exact ⟨_, rfl, by simp [Res.isFound, condOutcome, hlk, hc], by intro x hx; simp [condOutcome, hlk, hc] at hx⟩
  | true =>
    simp only [if_true]
    obtain ⟨r, hr, h1, h2⟩ := up_tail cls kvs name k f lc rs j rl c kvs' _ kv hname hk hf hl hj hp g (by omega)
    exact ⟨r, hr, by simpa [condOutcome, hlk, hc] using h1, by intro x hx; apply h2; simpa [condOutcome, hlk, hc] using hx⟩

/-- record `j` of `name[k op v]/f` (inside the loop: `[j]`, `[k op 'v']`, `f`) -/
theorem cond_elem (cls : Cls) (kvs : List (Str × Val)) (name k f op t1 t2 : Str) (v : CondVal) (lc : Cls) (rs : List Val)
    (j : Nat) (rl : Bool) (c : Cls) (kvs' : List (Str × Val))
    (hname : PlainKey name) (hk : PlainKey k) (hkt : k ≠ sTextFn) (hf : KeyTok f)
    (hl : lookup name kvs = some (.list lc rs)) (hj : rs[j]? = some (.dict c kvs'))
    (hs1 : splitNameIndex t1 = .ok ([], .cond k op v))
    (ht2 : t2 = bracket (sTextFn ++ op ++ condValStr v))
    (hs2 : splitNameIndex t2 = .ok ([], .cond sTextFn op v)) (hop : OpSpell op op)
    (hg : ∀ kv, lookup k kvs' = some kv → textGuard kv v = false)
    (fuel : Nat) (hfuel : fuel ≥ 6) :
    ∃ r, findD fuel (.dict cls kvs) [] false false [bracket (natStr j), t1, f] (.at ([] ++ [Seg.key name])) rl
          (slash ++ slash ++ name) = .ok (.dict cls kvs, r)
      ∧ r.isFound = (condOutcome k f op v (.dict c kvs')).isSome ∧ ∀ x, condOutcome k f op v (.dict c kvs') = some x → r.value = x := by
  obtain ⟨g, rfl⟩ : ∃ g, fuel = g + 2 := ⟨fuel - 2, by omega⟩
  have hlt : j < rs.length := by
    rcases Nat.lt_or_ge j rs.length with h | h
    · exact h
    · rw [List.getElem?_eq_none h] at hj; cases hj
  have hqq : getAt (.dict cls kvs) ([] ++ [Seg.key name]) = some (.list lc rs) := getAt_root_key cls kvs name _ hl
  have hq' : getAt (.dict cls kvs) ([] ++ [Seg.key name] ++ [Seg.idx j]) = some (.dict c kvs') := by
    rw [getAt_snoc, hqq]; simp [child, hj]
  rw [find_idx_step (g + 1) _ false rl _ _ _ (natStr j) (j : Int) [t1, f] (by simp) lc rs j hqq (natStr_idxTok j)
    (normIdx_nat hlt)]
  cases hlk : lookup k kvs' with
  | none =>
    rw [find_cond_missing g _ false rl _ _ t1 k op v [f] c kvs' hq' hs1 hkt hlk]
    exact ⟨_, rfl, by simp [Res.isFound, condOutcome, hlk], by intro x hx; simp [condOutcome, hlk] at hx⟩
  | some kv =>
    rw [find_cond_step g _ false rl _ _ t1 k op v [f] c kvs' kv hq' hs1 hkt hlk, ← ht2]
    exact text_tail cls kvs name k f op t2 v lc rs j rl c kvs' kv hname hk hf hl hj hlk hs2 hop (hg kv hlk) g (by omega)

/-- record `j` of `name/k[text() op v]/../f` (inside the loop: `[j]`, `k[text() op v]`, `'..'`, `f`) -/
theorem textform_elem (cls : Cls) (kvs : List (Str × Val)) (name k f op t1 t2 : Str) (v : CondVal) (lc : Cls) (rs : List Val)
    (j : Nat) (rl : Bool) (c : Cls) (kvs' : List (Str × Val))
    (hname : PlainKey name) (hk : PlainKey k) (hf : KeyTok f)
    (hl : lookup name kvs = some (.list lc rs)) (hj : rs[j]? = some (.dict c kvs'))
    (hs1 : splitNameIndex t1 = .ok (k, .cond sTextFn op v))
    (ht2 : t2 = bracket (sTextFn ++ op ++ ['\''] ++ condValStr v ++ ['\'']))
    (hs2 : splitNameIndex t2 = .ok ([], .cond sTextFn op v)) (hop : OpSpell op op)
    (hg : ∀ kv, lookup k kvs' = some kv → textGuard kv v = false)
    (fuel : Nat) (hfuel : fuel ≥ 6) :
    ∃ r, findD fuel (.dict cls kvs) [] false false [bracket (natStr j), t1, ['.', '.'], f] (.at ([] ++ [Seg.key name])) rl
          (slash ++ slash ++ name) = .ok (.dict cls kvs, r)
      ∧ r.isFound = (condOutcome k f op v (.dict c kvs')).isSome ∧ ∀ x, condOutcome k f op v (.dict c kvs') = some x → r.value = x := by
  obtain ⟨g, rfl⟩ : ∃ g, fuel = g + 2 := ⟨fuel - 2, by omega⟩
  have hlt : j < rs.length := by
    rcases Nat.lt_or_ge j rs.length with h | h
    · exact h
    · rw [List.getElem?_eq_none h] at hj; cases hj
  have hqq : getAt (.dict cls kvs) ([] ++ [Seg.key name]) = some (.list lc rs) := getAt_root_key cls kvs name _ hl
  have hq' : getAt (.dict cls kvs) ([] ++ [Seg.key name] ++ [Seg.idx j]) = some (.dict c kvs') := by
    rw [getAt_snoc, hqq]; simp [child, hj]
  rw [find_idx_step (g + 1) _ false rl _ _ _ (natStr j) (j : Int) [t1, ['.', '.'], f] (by simp) lc rs j hqq (natStr_idxTok j)
    (normIdx_nat hlt)]
  cases hlk : lookup k kvs' with
  | none =>
    rw [find_keycond_missing g _ false rl _ _ t1 k _ [['.', '.'], f] c kvs' hq' hs1 hk.ne hk.notUp hk.keyTok.notStar hlk]
    exact ⟨_, rfl, by simp [Res.isFound, condOutcome, hlk], by intro x hx; simp [condOutcome, hlk] at hx⟩
  | some kv =>
    rw [find_keycond_step g _ false rl _ _ t1 k sTextFn op v [['.', '.'], f] c kvs' kv hq' hs1 hk.ne hk.notUp
      hk.keyTok.notStar hlk, ← ht2]
    exact text_tail cls kvs name k f op t2 v lc rs j rl c kvs' kv hname hk hf hl hj hlk hs2 hop (hg kv hlk) g (by omega)

/-- the loop over the records for either form (`rest` = the steps applied to each record) -/
theorem cond_loop (cls : Cls) (kvs : List (Str × Val)) (name k f op : Str) (v : CondVal) (rs : List Val)
    (rl : Bool) (rest all : List Str) (hall : all ≠ []) (hrs : ∀ r ∈ rs, isDict r = true)
    (helem : ∀ (j : Nat) (c : Cls) (kvs' : List (Str × Val)), rs[j]? = some (.dict c kvs') → ∀ fu ≥ 6,
      ∃ r, findD fu (.dict cls kvs) [] false false (bracket (natStr j) :: rest) (.at ([] ++ [Seg.key name])) rl
            (slash ++ slash ++ name) = .ok (.dict cls kvs, r)
        ∧ r.isFound = (condOutcome k f op v (.dict c kvs')).isSome ∧ ∀ x, condOutcome k f op v (.dict c kvs') = some x → r.value = x)
    (fuel : Nat) (hfuel : fuel ≥ rs.length + 7) :
    ∃ r, starIdx fuel (.dict cls kvs) [] false rs.length 0 rest (.at ([] ++ [Seg.key name])) rl (slash ++ slash ++ name) []
          Option.none all = .ok (.dict cls kvs, r) ∧
      r.isFound = !(somes (rs.map (condOutcome k f op v))).isEmpty ∧
      (r.isFound = true → r.value = collect rl (somes (rs.map (condOutcome k f op v)))) := by
  have := starIdx_loop (.dict cls kvs) [] false rest (.at ([] ++ [Seg.key name])) rl (slash ++ slash ++ name) all hall 6
    (rs.map (condOutcome k f op v)) 0 rs.length [] Option.none fuel (by simp) ?_ (by simp; omega) (by simp)
  · simpa using this
  · intro j hj fu hfu
    have hj' : j < rs.length := by simpa using hj
    have hd := hrs _ (List.getElem_mem hj')
    cases hrj : rs[j] with
    | dict c kvs' =>
      have hget : rs[j]? = some (.dict c kvs') := by rw [List.getElem?_eq_getElem hj', hrj]
      obtain ⟨r, hr, h1, h2⟩ := helem j c kvs' hget fu hfu
      refine ⟨r, by simpa using hr, ?_, ?_⟩
      · simp [hrj, h1]
      · intro x hx; apply h2; simpa [hrj] using hx
    | _ => rw [hrj] at hd; simp [isDict] at hd

/-- a condition step applied to a list (an empty one too — fix C06-e): `[*]` is supplied -/
theorem find_cond_on_list (fuel : Nat) (root : Val) (entry rl : Bool) (q : Pos) (found tok k op : Str) (v : CondVal)
    (rest : List Str) (lc : Cls) (xs : List Val) (hq : getAt root q = some (.list lc xs))
    (hs : splitNameIndex tok = .ok ([], .cond k op v)) (hk : k ≠ sTextFn) :
    findD (fuel + 1) root [] false entry (tok :: rest) (.at q) rl found
      = findD fuel root [] false false (bracket ['*'] :: tok :: rest) (.at q) rl found := by
  rw [findD]
  simp only [Bool.false_and, Bool.false_eq_true, if_false, valOf_at, hq, hs, List.isEmpty_nil,
    Idx.truthy, Bool.not_true, Bool.and_false, hk]

/-- a field name usable in the predicate forms -/
structure FieldKey (k : Str) : Prop where
  plain : PlainKey k
  cond : CondKey k
  notText : k ≠ sTextFn

/-- `name[k op v]/f` from the root -/
theorem cond_find (cls : Cls) (kvs : List (Str × Val)) (name k f opx op vq v : Str) (lc : Cls) (rs : List Val) (rl : Bool)
    (hname : PlainKey name) (hk : FieldKey k) (hf : PlainKey f) (hop : OpSpell opx op) (hlit : LitSpell vq v)
    (hv : PlainLit v) (hl : lookup name kvs = some (.list lc rs)) (hrs : ∀ r ∈ rs, isDict r = true)
    (hg : ∀ c kvs' kv, Val.dict c kvs' ∈ rs → lookup k kvs' = some kv → textGuard kv (.str v) = false)
    (fuel : Nat) (hfuel : fuel ≥ rs.length + 10) :
    ∃ r, findD fuel (.dict cls kvs) [] false true [name ++ bracket (k ++ opx ++ vq), f] (.at []) rl slash
          = .ok (.dict cls kvs, r) ∧
      r.isFound = !(somes (rs.map (condOutcome k f op (.str v)))).isEmpty ∧
      (r.isFound = true → r.value = collect rl (somes (rs.map (condOutcome k f op (.str v))))) := by
  obtain ⟨g, rfl⟩ : ∃ g, fuel = g + 3 := ⟨fuel - 3, by omega⟩
  have hopc := opSpell_canon hop
  have hs0 := split_cond name k opx op vq v (Or.inr hname) hk.cond hop hlit hv
  have hs1 : splitNameIndex (bracket (k ++ op ++ ['\''] ++ condValStr (.str v) ++ ['\''])) = .ok ([], .cond k op (.str v)) := by
    have := split_cond [] k op op _ v (Or.inl rfl) hk.cond hopc (.sq v) hv
    simpa [condValStr, List.append_assoc] using this
  have hs2 : splitNameIndex (bracket (sTextFn ++ op ++ condValStr (.str v))) = .ok ([], .cond sTextFn op (.str v)) := by
    have := split_cond [] sTextFn op op _ v (Or.inl rfl) condKey_text hopc (.bare v) hv
    simpa [condValStr, List.append_assoc] using this
  have hqq : getAt (.dict cls kvs) ([] ++ [Seg.key name]) = some (.list lc rs) := getAt_root_key cls kvs name _ hl
  rw [find_keycond_step (g + 2) _ true rl [] slash _ name k op (.str v) [f] cls kvs _ rfl hs0 hname.ne hname.notUp
    hname.keyTok.notStar hl]
  rw [find_cond_on_list (g + 1) _ false rl _ _ _ k op (.str v) [f] lc rs hqq hs1 hk.notText]
  rw [find_star_step g _ false rl _ _ _ _ lc rs hqq split_star]
  apply cond_loop cls kvs name k f op (.str v) rs rl _ _ (by simp) hrs _ g (by omega)
  intro j c kvs' hj fu hfu
  exact cond_elem cls kvs name k f op _ _ (.str v) lc rs j rl c kvs' hname hk.plain hk.notText hf.keyTok hl hj hs1 rfl hs2
    hopc (fun kv hkv => hg c kvs' kv (List.mem_of_getElem? hj) hkv) fu hfu

/-- `name/k[text() op v]/../f` from the root -/
theorem textform_find (cls : Cls) (kvs : List (Str × Val)) (name k f opx op vq v : Str) (lc : Cls) (rs : List Val) (rl : Bool)
    (hname : PlainKey name) (hk : FieldKey k) (hf : PlainKey f) (hop : OpSpell opx op) (hlit : LitSpell vq v)
    (hv : PlainLit v) (hl : lookup name kvs = some (.list lc rs)) (hrs : ∀ r ∈ rs, isDict r = true)
    (hg : ∀ c kvs' kv, Val.dict c kvs' ∈ rs → lookup k kvs' = some kv → textGuard kv (.str v) = false)
    (fuel : Nat) (hfuel : fuel ≥ rs.length + 10) :
    ∃ r, findD fuel (.dict cls kvs) [] false true [name, k ++ bracket (sTextFn ++ opx ++ vq), ['.', '.'], f] (.at []) rl slash
          = .ok (.dict cls kvs, r) ∧
      r.isFound = !(somes (rs.map (condOutcome k f op (.str v)))).isEmpty ∧
      (r.isFound = true → r.value = collect rl (somes (rs.map (condOutcome k f op (.str v))))) := by
  obtain ⟨g, rfl⟩ : ∃ g, fuel = g + 3 := ⟨fuel - 3, by omega⟩
  have hopc := opSpell_canon hop
  have hs1 := split_cond k sTextFn opx op vq v (Or.inr hk.plain) condKey_text hop hlit hv
  have hs2 : splitNameIndex (bracket (sTextFn ++ op ++ ['\''] ++ condValStr (.str v) ++ ['\''])) = .ok ([], .cond sTextFn op (.str v)) := by
    have := split_cond [] sTextFn op op _ v (Or.inl rfl) condKey_text hopc (.sq v) hv
    simpa [condValStr, List.append_assoc] using this
  have hqq : getAt (.dict cls kvs) ([] ++ [Seg.key name]) = some (.list lc rs) := getAt_root_key cls kvs name _ hl
  rw [find_key_step (g + 2) _ true rl [] slash name _ cls kvs _ (by simp) rfl hname.keyTok hl]
  rw [find_name_on_list (g + 1) _ false rl _ _ _ k _ _ lc rs hqq hs1 hk.plain.ne hk.plain.notUp]
  rw [find_star_step g _ false rl _ _ _ _ lc rs hqq split_star]
  apply cond_loop cls kvs name k f op (.str v) rs rl _ _ (by simp) hrs _ g (by omega)
  intro j c kvs' hj fu hfu
  exact textform_elem cls kvs name k f op _ _ (.str v) lc rs j rl c kvs' hname hk.plain hf.keyTok hl hj hs1 rfl hs2
    hopc (fun kv hkv => hg c kvs' kv (List.mem_of_getElem? hj) hkv) fu hfu

/-! ### the predicate forms through `get` / item access / `first` -/

theorem getCore_of_find_err (cls : Cls) (kvs : List (Str × Val)) (xp : Str) (toks : List Str) (d : Val) (raise rl : Bool)
    (fuel : Nat) (hq : startsWith xp ['?'] = false) (hpc : hasPathChar xp = true) (htok : tokenize xp = toks)
    (hr : findD fuel (.dict cls kvs) [] false true toks (.at []) rl slash = .error .IndexError) :
    getCore fuel (.dict cls kvs) xp d raise rl
      = (.dict cls kvs, if raise then .error .IndexError else .ok d) := by
  simp only [getCore, hq, Bool.false_eq_true, if_false, hpc, if_true, htok, hr, caught]
  cases raise <;> simp

/-- API layer when `_find` raises `IndexError`: the same observable result as a miss -/
theorem select_api_err (cls : Cls) (kvs : List (Str × Val)) (xp : Str) (toks : List Str) (d : Val)
    (fuel : Nat) (hq : startsWith xp ['?'] = false) (hpc : hasPathChar xp = true) (htok : tokenize xp = toks)
    (hfind : ∀ rl, findD fuel (.dict cls kvs) [] false true toks (.at []) rl slash = .error .IndexError) :
    get fuel (.dict cls kvs) xp d = (.dict cls kvs, .ok d) ∧
    getItem fuel (.dict cls kvs) xp = (.dict cls kvs, .error .IndexError) ∧
    first fuel (.dict cls kvs) xp d = (.dict cls kvs, .ok (firstOf [] d)) := by
  refine ⟨?_, ?_, ?_⟩
  · rw [get, getCore_of_find_err cls kvs xp toks d false true fuel hq hpc htok (hfind true)]; rfl
  · rw [getItem, getCore_of_find_err cls kvs xp toks Val.none true true fuel hq hpc htok (hfind true)]; rfl
  · exact first_of_miss
      (fun d' => by rw [getCore_of_find_err cls kvs xp toks d' false false fuel hq hpc htok (hfind false)]; rfl) d

theorem cond_text_chars (k opx op vq v : Str) (hk : CondKey k) (hop : OpSpell opx op) (hlit : LitSpell vq v) (hv : PlainLit v) :
    ∀ c ∈ k ++ opx ++ vq, c ≠ ']' ∧ c ≠ '/' := by
  obtain ⟨_, hopch, _⟩ := hop.cases'
  have hvn := hlit.no hv
  intro c hc
  simp only [List.mem_append] at hc
  rcases hc with (hc | hc) | hc
  · have := plainChar_ne (hk.chars c hc).1
    exact ⟨this.2.2.1, this.1⟩
  · rcases hopch c hc with rfl | rfl | rfl <;> exact ⟨by decide, by decide⟩
  · exact ⟨(hvn c hc).2.2.2.1, (hvn c hc).2.2.2.2.1⟩

/-- **`name[k op v]/f`** for the records `rs` stored under the key `name` of the root: the values of `f` of
exactly the records whose `k` passes the comparison, in list order. -/
theorem cond_api (cls : Cls) (kvs : List (Str × Val)) (name k f opx op vq v : Str) (lc : Cls) (rs : List Val) (d : Val)
    (hname : PlainKey name) (hk : FieldKey k) (hf : PlainKey f) (hop : OpSpell opx op) (hlit : LitSpell vq v)
    (hv : PlainLit v) (hl : lookup name kvs = some (.list lc rs)) (hrs : ∀ r ∈ rs, isDict r = true)
    (hg : ∀ c kvs' kv, Val.dict c kvs' ∈ rs → lookup k kvs' = some kv → textGuard kv (.str v) = false)
    (fuel : Nat) (hfuel : fuel ≥ rs.length + 10) :
    let xp := name ++ bracket (k ++ opx ++ vq) ++ slash ++ f
    let vals := somes (rs.map (condOutcome k f op (.str v)))
    get fuel (.dict cls kvs) xp d = (.dict cls kvs, .ok (if vals.isEmpty then d else .list .n0 vals)) ∧
    getItem fuel (.dict cls kvs) xp = (.dict cls kvs, if vals.isEmpty then .error .IndexError else .ok (.list .n0 vals)) ∧
    first fuel (.dict cls kvs) xp d = (.dict cls kvs, .ok (firstOf vals d)) := by
  intro xp vals
  have hch := cond_text_chars k opx op vq v hk.cond hop hlit hv
  have hq : startsWith xp ['?'] = false := by
    simpa [xp, List.append_assoc] using hname.head_ne_q (bracket (k ++ opx ++ vq) ++ slash ++ f)
  have hpc : hasPathChar xp = true := hasPathChar_slash _ _
  have htok : tokenize xp = [name ++ bracket (k ++ opx ++ vq), f] :=
    tokenize_keybr_field name _ f hname hf (fun c hc => (hch c hc).1) (fun c hc => (hch c hc).2)
  exact select_api cls kvs xp _ vals d fuel hq hpc htok
    (fun rl => cond_find cls kvs name k f opx op vq v lc rs rl hname hk hf hop hlit hv hl hrs hg fuel hfuel)

theorem tokenize_textform (name k e f : Str) (hname : PlainKey name) (hk : PlainKey k) (hf : PlainKey f)
    (he : ∀ c ∈ e, c ≠ ']' ∧ c ≠ '/') :
    tokenize (name ++ slash ++ k ++ bracket e ++ slash ++ ['.', '.'] ++ slash ++ f)
      = [name, k ++ bracket e, ['.', '.'], f] := by
  have hform : name ++ slash ++ k ++ bracket e ++ slash ++ ['.', '.'] ++ slash ++ f
      = joinSlash [name, k ++ bracket e, ['.', '.'], f] := by simp [joinSlash, slash]
  rw [hform]
  apply tokenize_joinSlash
  · simp
  · have h2 : joinSlash [name, k ++ bracket e, ['.', '.'], f]
        = (name ++ '/' :: k ++ '[' :: e) ++ ']' :: ('/' :: '.' :: '.' :: '/' :: f) := by simp [joinSlash, bracket]
    rw [h2]
    apply fixBr_one_rb
    · intro c hc
      simp only [List.mem_append, List.mem_cons] at hc
      rcases hc with (hc | hc | hc) | hc | hc
      · exact hname.noRB c hc
      · subst hc; decide
      · exact hk.noRB c hc
      · subst hc; decide
      · exact (he c hc).1
    · intro c hc
      simp only [List.mem_cons] at hc
      rcases hc with hc | hc | hc | hc | hc
      · subst hc; decide
      · subst hc; decide
      · subst hc; decide
      · subst hc; decide
      · exact hf.noRB c hc
    · simp
  · intro p hp c hc
    simp only [List.mem_cons, List.not_mem_nil, or_false] at hp
    rcases hp with rfl | rfl | rfl | rfl
    · exact hname.noSlash c hc
    · simp only [List.mem_append] at hc
      rcases hc with hc | hc
      · exact hk.noSlash c hc
      · exact bracket_mem_noSlash e (fun c hc => (he c hc).2) c hc
    · simp only [List.mem_cons, List.not_mem_nil, or_false] at hc
      rcases hc with rfl | rfl <;> decide
    · exact hf.noSlash c hc
  · intro p hp
    simp only [List.mem_cons, List.not_mem_nil, or_false] at hp
    rcases hp with rfl | rfl | rfl | rfl
    · exact ⟨hname.ne, hname.stripWs⟩
    · exact ⟨by simp [bracket], stripWs_key_bracket hk e⟩
    · exact ⟨by simp, by decide⟩
    · exact ⟨hf.ne, hf.stripWs⟩

/-- **`name/k[text() op v]/../f`**: the same selection as `name[k op v]/f`. -/
theorem textform_api (cls : Cls) (kvs : List (Str × Val)) (name k f opx op vq v : Str) (lc : Cls) (rs : List Val) (d : Val)
    (hname : PlainKey name) (hk : FieldKey k) (hf : PlainKey f) (hop : OpSpell opx op) (hlit : LitSpell vq v)
    (hv : PlainLit v) (hl : lookup name kvs = some (.list lc rs)) (hrs : ∀ r ∈ rs, isDict r = true)
    (hg : ∀ c kvs' kv, Val.dict c kvs' ∈ rs → lookup k kvs' = some kv → textGuard kv (.str v) = false)
    (fuel : Nat) (hfuel : fuel ≥ rs.length + 10) :
    let xp := name ++ slash ++ k ++ bracket (sTextFn ++ opx ++ vq) ++ slash ++ ['.', '.'] ++ slash ++ f
    let vals := somes (rs.map (condOutcome k f op (.str v)))
    get fuel (.dict cls kvs) xp d = (.dict cls kvs, .ok (if vals.isEmpty then d else .list .n0 vals)) ∧
    getItem fuel (.dict cls kvs) xp = (.dict cls kvs, if vals.isEmpty then .error .IndexError else .ok (.list .n0 vals)) ∧
    first fuel (.dict cls kvs) xp d = (.dict cls kvs, .ok (firstOf vals d)) := by
  intro xp vals
  have hch := cond_text_chars sTextFn opx op vq v condKey_text hop hlit hv
  have hq : startsWith xp ['?'] = false := by
    simpa [xp, List.append_assoc] using
      hname.head_ne_q (slash ++ k ++ bracket (sTextFn ++ opx ++ vq) ++ slash ++ ['.', '.'] ++ slash ++ f)
  have hpc : hasPathChar xp = true := hasPathChar_slash _ _
  have htok : tokenize xp = [name, k ++ bracket (sTextFn ++ opx ++ vq), ['.', '.'], f] :=
    tokenize_textform name k _ f hname hk.plain hf hch
  exact select_api cls kvs xp _ vals d fuel hq hpc htok
    (fun rl => textform_find cls kvs name k f opx op vq v lc rs rl hname hk hf hop hlit hv hl hrs hg fuel hfuel)

/-! ### fan-out below any spelled prefix (token level) -/

/-- walking a prefix that spells position `p`: the remaining steps are applied at `q ++ p` -/
theorem find_spells_prefix (root : Val) (rl : Bool) {toks : List Str} {v : Val} {p : Pos} {c : Val}
    (h : Spells toks v p c) : toks ≠ [] → ∀ (rest : List Str), rest ≠ [] → ∀ (q : Pos) (found : Str) (entry : Bool),
      getAt root q = some v →
      ∃ n found', n ≤ 2 * toks.length ∧ getAt root (q ++ p) = some c ∧ ∀ fuel,
        findD (fuel + n) root [] false entry (toks ++ rest) (.at q) rl found
          = findD fuel root [] false false rest (.at (q ++ p)) rl found' := by
  induction h with
  | nil v => intro h; exact absurd rfl h
  | @key tok rest' cls kvs c p d hk hl hs ih =>
    intro _ rest hrest q found entry hq
    have hq' : getAt root (q ++ [.key tok]) = some c := by
      rw [getAt_snoc, hq]; simp [child, hl]
    by_cases hr : rest' = []
    · subst hr
      obtain ⟨rfl, rfl⟩ := hs.nil_inv
      refine ⟨1, found ++ slash ++ tok, by simp, by simpa using hq', fun fuel => ?_⟩
      simpa using find_key_step fuel root entry rl q found tok rest cls kvs _ hrest hq hk hl
    · obtain ⟨n, found', hn, hg, hfd⟩ := ih hr rest hrest (q ++ [.key tok]) (found ++ slash ++ tok) false hq'
      refine ⟨n + 1, found', by simp at hn ⊢; omega, by simpa using hg, fun fuel => ?_⟩
      have := find_key_step (fuel + n) root entry rl q found tok (rest' ++ rest) cls kvs _ (by simp [hr]) hq hk hl
      rw [show fuel + (n + 1) = fuel + n + 1 from rfl, List.cons_append, this, hfd fuel]
      simp
  | @idx tok e i rest' cls xs n0 c p d hk hn hx hs ih =>
    intro _ rest hrest q found entry hq
    have hq' : getAt root (q ++ [.idx n0]) = some c := by
      rw [getAt_snoc, hq]; simp [child, hx]
    by_cases hr : rest' = []
    · subst hr
      obtain ⟨rfl, rfl⟩ := hs.nil_inv
      refine ⟨1, found ++ bracket (intStr i), by simp, by simpa using hq', fun fuel => ?_⟩
      simpa using find_idx_step fuel root entry rl q found tok e i rest hrest cls xs n0 hq hk hn
    · obtain ⟨n, found', hn', hg, hfd⟩ := ih hr rest hrest (q ++ [.idx n0]) (found ++ bracket (intStr i)) false hq'
      refine ⟨n + 1, found', by simp at hn' ⊢; omega, by simpa using hg, fun fuel => ?_⟩
      have := find_idx_step (fuel + n) root entry rl q found tok e i (rest' ++ rest) (by simp [hr]) cls xs n0 hq hk hn
      rw [show fuel + (n + 1) = fuel + n + 1 from rfl, List.cons_append, this, hfd fuel]
      simp
  | @keyIdx tok k e i rest' cls kvs cls' xs n0 c p d hk hl hn hx hs ih =>
    intro _ rest hrest q found entry hq
    have hq1 : getAt root (q ++ [Seg.key k]) = some (.list cls' xs) := by
      rw [getAt_snoc, hq]; simp [child, hl]
    have hq' : getAt root (q ++ [Seg.key k] ++ [Seg.idx n0]) = some c := by
      rw [getAt_snoc, hq1]; simp [child, hx]
    by_cases hr : rest' = []
    · subst hr
      obtain ⟨rfl, rfl⟩ := hs.nil_inv
      refine ⟨2, found ++ slash ++ k ++ bracket (intStr i), by simp, by simpa using hq', fun fuel => ?_⟩
      rw [show fuel + 2 = fuel + 1 + 1 from rfl, List.cons_append, List.nil_append,
        find_keyidx_step (fuel + 1) root entry rl q found tok k e i rest cls kvs _ hq hk hl,
        find_idx_step fuel root false rl (q ++ [Seg.key k]) _ (bracket e) e i rest hrest cls' xs n0 hq1 hk.inner hn]
      simp
    · obtain ⟨n, found', hn', hg, hfd⟩ := ih hr rest hrest (q ++ [Seg.key k] ++ [Seg.idx n0])
        (found ++ slash ++ k ++ bracket (intStr i)) false hq'
      refine ⟨n + 2, found', by simp at hn' ⊢; omega, by simpa using hg, fun fuel => ?_⟩
      rw [show fuel + (n + 2) = fuel + n + 1 + 1 from rfl, List.cons_append,
        find_keyidx_step (fuel + n + 1) root entry rl q found tok k e i (rest' ++ rest) cls kvs _ hq hk hl,
        find_idx_step (fuel + n) root false rl (q ++ [Seg.key k]) _ (bracket e) e i (rest' ++ rest) (by simp [hr]) cls' xs n0 hq1
          hk.inner hn, hfd fuel]
      simp

/-- **Fan-out below any spelled path.**  If the tokens `toksP` spell the position of a list of dict
records, then `toksP ++ ["[*]", f]` and `toksP ++ [f]` select `f` of the records that have it. -/
theorem star_spelled (t : Val) (rl : Bool) {toksP : List Str} {p : Pos} {lc : Cls} {rs : List Val} (f : Str)
    (hs : Spells toksP t p (.list lc rs)) (hne : toksP ≠ []) (hrs : ∀ r ∈ rs, isDict r = true) (hf : PlainKey f)
    (fuel : Nat) (hfuel : fuel ≥ 2 * toksP.length + rs.length + 5) (tail : List Str)
    (htail : tail = [bracket ['*'], f] ∨ tail = [f]) :
    ∃ r, findD fuel t [] false true (toksP ++ tail) (.at []) rl slash = .ok (t, r) ∧
      r.isFound = !(somes (rs.map (fieldOf f))).isEmpty ∧
      (r.isFound = true → r.value = collect rl (somes (rs.map (fieldOf f)))) := by
  obtain ⟨n, found', hn, hg, hfd⟩ := find_spells_prefix t rl hs hne tail (by rcases htail with rfl | rfl <;> simp) [] slash true rfl
  obtain ⟨g, rfl⟩ : ∃ g, fuel = g + n := ⟨fuel - n, by omega⟩
  rw [hfd g]
  have hq : getAt t ([] ++ p) = some (.list lc rs) := hg
  rcases htail with rfl | rfl
  · exact star_records t rl _ found' _ f lc rs hq hrs hf.keyTok split_star g false (by omega)
  · obtain ⟨g', rfl⟩ : ∃ g', g = g' + 1 := ⟨g - 1, by omega⟩
    rw [find_name_on_list g' t false rl _ found' f f .none [] lc rs hq hf.keyTok.split hf.ne hf.notUp]
    exact star_records t rl _ found' _ f lc rs hq hrs hf.keyTok split_star g' false (by omega)

theorem mergedToks_snoc_key (p : Pos) (f : Str) : mergedToks (p ++ [.key f]) = mergedToks p ++ [f] := by
  induction p using mergedToks.induct with
  | case1 => simp [mergedToks]
  | case2 k n rest ih => simp [mergedToks, ih]
  | case3 k rest hne ih =>
    cases rest with
    | nil => simp [mergedToks]
    | cons s r =>
      cases s with
      | key k2 =>
        simp only [List.cons_append] at ih ⊢
        rw [mergedToks, ih]
        · simp [mergedToks]
        · intro n rest h; cases h
      | idx n => exact absurd rfl (hne n r)
  | case4 n rest ih => simp [mergedToks, ih]

theorem plainPos_append_key (p : Pos) (f : Str) (hp : PlainPos p) (hf : PlainKey f) : PlainPos (p ++ [.key f]) := by
  induction p with
  | nil => exact ⟨hf, trivial⟩
  | cons s r ih =>
    cases s with
    | key k => exact ⟨hp.1, ih hp.2⟩
    | idx n => exact ih hp

theorem renderPos_append_key (p : Pos) (f : Str) : renderPos (p ++ [.key f]) = renderPos p ++ slash ++ f := by
  simp [renderPos, renderSeg, slash]

/-- **`P/f` for the record list at any position** (canonical path `P` = what `xpath()` prints) -/
theorem star_implicit_path (cls : Cls) (kvs : List (Str × Val)) (p : Pos) (f : Str) (lc : Cls) (rs : List Val) (d : Val)
    (hp : PlainPos p) (hne : p ≠ []) (hf : PlainKey f) (hget : getAt (.dict cls kvs) p = some (.list lc rs))
    (hrs : ∀ r ∈ rs, isDict r = true) (fuel : Nat) (hfuel : fuel ≥ 2 * p.length + rs.length + 5) :
    let xp := slash ++ renderPos p ++ slash ++ f
    let vals := somes (rs.map (fieldOf f))
    get fuel (.dict cls kvs) xp d = (.dict cls kvs, .ok (if vals.isEmpty then d else .list .n0 vals)) ∧
    getItem fuel (.dict cls kvs) xp = (.dict cls kvs, if vals.isEmpty then .error .IndexError else .ok (.list .n0 vals)) ∧
    first fuel (.dict cls kvs) xp d = (.dict cls kvs, .ok (firstOf vals d)) := by
  intro xp vals
  have hs := spells_merged p (.dict cls kvs) _ hp hget
  have hlen := mergedToks_length_le p
  have hxp : xp = slash ++ renderPos (p ++ [.key f]) := by simp [xp, renderPos_append_key, List.append_assoc]
  have htok : tokenize xp = mergedToks p ++ [f] := by
    rw [hxp, ← mergedToks_snoc_key]
    exact tokenize_render _ (plainPos_append_key p f hp hf)
  apply select_api cls kvs xp _ vals d fuel
  · simp [xp, slash, startsWith]
  · simp [xp, hasPathChar, slash]
  · exact htok
  · intro rl
    exact star_spelled (.dict cls kvs) rl f hs (mergedToks_ne_nil p hne) hrs hf fuel (by omega) [f] (Or.inr rfl)

end N0.XPath
