import N0Verif.Proofs.XPathStore
/-!
  Selecting steps of the xpath engine: the `[*]` fan-out (explicit and implicit) and the
  predicate steps `[k=v]`, `[k!=v]`, `[k~v]`, `k[text()=v]/..` over a list of dict records.

  Layers:
  * `starIdx_loop`    — the `for i, cur_node in enumerate(parent_node)` loop, for any per-element outcome;
  * `star_elem`, `cond_elem`, `text_elem` — what one element contributes;
  * token facts for the selecting steps (`split_cond`, tokenisation of the selecting paths and of the
    `found` string the `'..'` step re-resolves);
  * the `get`/`first` wrappers.
-/
namespace N0.XPath
open N0 N0.Py N0.Val

/-! ### the fan-out loop -/

/-- the value a fan-out returns for the list of found values (`return_lists` = `rl`) -/
def collect (rl : Bool) (vals : List Val) : Val :=
  if !rl && vals.length = 1 then vals.headD Val.none else .list .n0 vals

/-- the `some`s of a list of outcomes, in order -/
def somes : List (Option Val) → List Val
  | [] => []
  | some v :: os => v :: somes os
  | Option.none :: os => somes os

/-- **The `[*]` loop.**  If the lookup of element `i + j` (any fuel ≥ `F0`) leaves the tree unchanged and
is found exactly when `todo[j]` is `some v`, then with value `v`, the loop collects the `some`s in order. -/
theorem starIdx_loop (root : Val) (sp : Pos) (ps : Bool) (rest : List Str) (par : PRef) (rl : Bool) (found : Str)
    (all : List Str) (hall : all ≠ []) (F0 : Nat) :
    ∀ (todo : List (Option Val)) (i n : Nat) (acc : List Val) (fst : Option Res) (fuel : Nat),
      n = i + todo.length →
      (∀ j (hj : j < todo.length), ∀ fu ≥ F0, ∃ r,
          findD fu root sp ps false (bracket (natStr (i + j)) :: rest) par rl found = .ok (root, r)
          ∧ r.isFound = (todo[j]).isSome ∧ ∀ v, todo[j] = some v → r.value = v) →
      fuel ≥ F0 + todo.length + 1 →
      fst.isSome = !acc.isEmpty →
      ∃ r, starIdx fuel root sp ps n i rest par rl found acc fst all = .ok (root, r) ∧
        r.isFound = !(acc ++ somes todo).isEmpty ∧
        (r.isFound = true → r.value = collect rl (acc ++ somes todo)) := by
  intro todo
  induction todo with
  | nil =>
    intro i n acc fst fuel hn _ hf hfst
    obtain ⟨f, rfl⟩ : ∃ f, fuel = f + 1 := ⟨fuel - 1, by omega⟩
    have hge : i ≥ n := by simp at hn; omega
    rw [starIdx]
    simp only [hge, if_true, somes, List.append_nil]
    cases fst with
    | none =>
      have hacc : acc = [] := by simpa using hfst
      subst hacc
      refine ⟨_, rfl, ?_, ?_⟩
      · simp [Res.isFound, isEmpty_false_of_ne hall]
      · simp [Res.isFound, isEmpty_false_of_ne hall]
    | some f0 =>
      have hacc : acc.isEmpty = false := by simpa using hfst
      refine ⟨_, rfl, ?_, ?_⟩
      · simp [Res.isFound, hacc]
      · intro _; simp [collect]
  | cons o todo ih =>
    intro i n acc fst fuel hn hel hf hfst
    obtain ⟨f, rfl⟩ : ∃ f, fuel = f + 1 := ⟨fuel - 1, by omega⟩
    have hlt : ¬ i ≥ n := by simp at hn; omega
    obtain ⟨r0, hr0, hfound0, hval0⟩ := hel 0 (by simp) f (by simp at hf; omega)
    rw [starIdx]
    simp only [hlt, if_false]
    simp only [Nat.add_zero] at hr0
    rw [hr0]
    simp only [List.getElem_cons_zero] at hfound0 hval0
    have hel' : ∀ j (hj : j < todo.length), ∀ fu ≥ F0, ∃ r,
        findD fu root sp ps false (bracket (natStr (i + 1 + j)) :: rest) par rl found = .ok (root, r)
        ∧ r.isFound = (todo[j]).isSome ∧ ∀ v, todo[j] = some v → r.value = v := by
      intro j hj fu hfu
      have := hel (j + 1) (by simp; omega) fu hfu
      have hidx : i + (j + 1) = i + 1 + j := by omega
      simpa [hidx] using this
    cases o with
    | none =>
      have hnf : r0.isFound = false := by simpa using hfound0
      simp only [hnf, Bool.false_eq_true, if_false]
      obtain ⟨r, hr, h1, h2⟩ := ih (i + 1) n acc fst f (by simp at hn; omega) hel' (by simp at hf; omega) hfst
      exact ⟨r, hr, by simpa [somes] using h1, by simpa [somes] using h2⟩
    | some v =>
      have hnf : r0.isFound = true := by simpa using hfound0
      have hv : r0.value = v := hval0 v rfl
      simp only [hnf, if_true, hv]
      have hfst' : (match fst with | some f => some f | Option.none => some r0).isSome = !(acc ++ [v]).isEmpty := by
        cases fst <;> simp
      obtain ⟨r, hr, h1, h2⟩ := ih (i + 1) n (acc ++ [v]) _ f
        (by simp at hn; omega) hel' (by simp at hf; omega) hfst'
      exact ⟨r, hr, by simpa [somes] using h1, by simpa [somes] using h2⟩

/-! ### single steps of `findD` used by the selecting paths -/

theorem find_key_missing (fuel : Nat) (root : Val) (entry rl : Bool) (q : Pos) (found tok : Str) (rest : List Str)
    (cls : Cls) (kvs : List (Str × Val))
    (hq : getAt root q = some (.dict cls kvs)) (hk : KeyTok tok) (hl : lookup tok kvs = Option.none) :
    findD (fuel + 1) root [] false entry (tok :: rest) (.at q) rl found
      = .ok (root, { parent := .at q, nameIdx := Option.none, value := Val.none, found := found, notFound := some (tok :: rest) }) := by
  have hne : tok.isEmpty = false := isEmpty_false_of_ne hk.ne
  rw [findD]
  simp only [Bool.false_and, Bool.false_eq_true, if_false, valOf_at, hq, hk.split, hne, Bool.not_false,
    Idx.truthy, hk.notUp, hk.notStar, isList, isDict, Bool.not_true, hl, if_true]

/-- `name[e]` on a dict: descend to `name` and re-emit `[e]` (any bracket text that is not a condition) -/
theorem find_keybr_step (fuel : Nat) (root : Val) (entry rl : Bool) (q : Pos) (found tok k e : Str)
    (rest : List Str) (cls : Cls) (kvs : List (Str × Val)) (c : Val)
    (hq : getAt root q = some (.dict cls kvs)) (hs : splitNameIndex tok = .ok (k, .str e))
    (hkne : k ≠ []) (hup : k ≠ ['.', '.']) (hst : k ≠ ['*']) (hl : lookup k kvs = some c) :
    findD (fuel + 1) root [] false entry (tok :: rest) (.at q) rl found
      = findD fuel root [] false false (bracket e :: rest) (.at (q ++ [Seg.key k])) rl (found ++ slash ++ k) := by
  have hne : k.isEmpty = false := isEmpty_false_of_ne hkne
  rw [findD]
  simp only [Bool.false_and, Bool.false_eq_true, if_false, valOf_at, hq, hs, hne, Bool.not_false,
    Idx.truthy, hup, hst, isList, isDict, Bool.not_true, hl, childRef]
  simp

/-- `name[k op v]` on a dict: descend to `name` and re-emit the condition with a quoted value -/
theorem find_keycond_step (fuel : Nat) (root : Val) (entry rl : Bool) (q : Pos) (found tok nm k op : Str) (v : CondVal)
    (rest : List Str) (cls : Cls) (kvs : List (Str × Val)) (c : Val)
    (hq : getAt root q = some (.dict cls kvs)) (hs : splitNameIndex tok = .ok (nm, .cond k op v))
    (hkne : nm ≠ []) (hup : nm ≠ ['.', '.']) (hst : nm ≠ ['*']) (hl : lookup nm kvs = some c) :
    findD (fuel + 1) root [] false entry (tok :: rest) (.at q) rl found
      = findD fuel root [] false false (bracket (k ++ op ++ ['\''] ++ condValStr v ++ ['\'']) :: rest)
          (.at (q ++ [Seg.key nm])) rl (found ++ slash ++ nm) := by
  have hne : nm.isEmpty = false := isEmpty_false_of_ne hkne
  rw [findD]
  simp only [Bool.false_and, Bool.false_eq_true, if_false, valOf_at, hq, hs, hne, Bool.not_false,
    Idx.truthy, hup, hst, isList, isDict, Bool.not_true, hl, childRef]
  simp

theorem split_star : splitNameIndex (bracket ['*']) = .ok ([], .str ['*']) := by decide

/-- the `[*]` step on a list starts the loop -/
theorem find_star_step (fuel : Nat) (root : Val) (entry rl : Bool) (q : Pos) (found tok : Str) (rest : List Str)
    (lc : Cls) (xs : List Val) (hq : getAt root q = some (.list lc xs))
    (ht : splitNameIndex tok = .ok ([], .str ['*'])) :
    findD (fuel + 1) root [] false entry (tok :: rest) (.at q) rl found
      = starIdx fuel root [] false xs.length 0 rest (.at q) rl found [] Option.none (tok :: rest) := by
  have h1 : (['*'] : Str) ≠ sNew := by decide
  rw [findD]
  simp only [Bool.false_and, Bool.false_eq_true, if_false, valOf_at, hq, ht, List.isEmpty_nil,
    Idx.truthy, List.isEmpty_cons, Bool.not_false, Bool.and_false, Bool.not_true, h1, if_true]

/-- a name step applied to a list: `[*]` is supplied -/
theorem find_name_on_list (fuel : Nat) (root : Val) (entry rl : Bool) (q : Pos) (found tok nm : Str) (idx : Idx)
    (rest : List Str) (lc : Cls) (xs : List Val) (hq : getAt root q = some (.list lc xs))
    (ht : splitNameIndex tok = .ok (nm, idx)) (hne : nm ≠ []) (hup : nm ≠ ['.', '.']) :
    findD (fuel + 1) root [] false entry (tok :: rest) (.at q) rl found
      = findD fuel root [] false false (bracket ['*'] :: tok :: rest) (.at q) rl found := by
  have hne' : nm.isEmpty = false := isEmpty_false_of_ne hne
  rw [findD]
  simp only [Bool.false_and, Bool.false_eq_true, if_false, valOf_at, hq, ht, hne', Bool.not_false,
    hup, isList, if_true]

/-! ### what one record contributes to `[*]/f` -/

/-- the field `f` of a record (a non-dict has none) -/
def fieldOf (f : Str) : Val → Option Val
  | .dict _ kvs => lookup f kvs
  | _ => Option.none

theorem star_elem (root : Val) (rl : Bool) (q : Pos) (found f : Str) (lc : Cls) (rs : List Val) (j : Nat)
    (c : Cls) (kvs' : List (Str × Val))
    (hq : getAt root q = some (.list lc rs)) (hj : rs[j]? = some (.dict c kvs')) (hf : KeyTok f)
    (fu : Nat) (hfu : fu ≥ 2) :
    ∃ r, findD fu root [] false false [bracket (natStr j), f] (.at q) rl found = .ok (root, r)
      ∧ r.isFound = (lookup f kvs').isSome ∧ ∀ v, lookup f kvs' = some v → r.value = v := by
  obtain ⟨g, rfl⟩ : ∃ g, fu = g + 2 := ⟨fu - 2, by omega⟩
  have hlt : j < rs.length := by
    rcases Nat.lt_or_ge j rs.length with h | h
    · exact h
    · rw [List.getElem?_eq_none h] at hj; cases hj
  rw [find_idx_step (g + 1) root false rl q found _ (natStr j) (j : Int) [f] (by simp) lc rs j hq (natStr_idxTok j)
    (normIdx_nat hlt)]
  have hq' : getAt root (q ++ [.idx j]) = some (.dict c kvs') := by
    rw [getAt_snoc, hq]; simp [child, hj]
  cases hl : lookup f kvs' with
  | none =>
    rw [find_key_missing g root false rl _ _ f [] c kvs' hq' hf hl]
    exact ⟨_, rfl, by simp [Res.isFound], by intro v hv; cases hv⟩
  | some v =>
    rw [find_key_last g root false rl _ _ f c kvs' v hq' hf hl]
    exact ⟨_, rfl, by simp [Res.isFound], by intro v' hv'; cases hv'; rfl⟩

/-- **Fan-out over a list of dict records, tree level.**  From the list at `q`, the steps `[*]`, `f`
return the values of `f` of the records that have `f`, in order. -/
theorem star_records (root : Val) (rl : Bool) (q : Pos) (found tok f : Str) (lc : Cls) (rs : List Val)
    (hq : getAt root q = some (.list lc rs)) (hrs : ∀ r ∈ rs, isDict r = true) (hf : KeyTok f)
    (ht : splitNameIndex tok = .ok ([], .str ['*']))
    (fuel : Nat) (entry : Bool) (hfuel : fuel ≥ rs.length + 4) :
    ∃ r, findD fuel root [] false entry [tok, f] (.at q) rl found = .ok (root, r) ∧
      r.isFound = !(somes (rs.map (fieldOf f))).isEmpty ∧
      (r.isFound = true → r.value = collect rl (somes (rs.map (fieldOf f)))) := by
  obtain ⟨g, rfl⟩ : ∃ g, fuel = g + 1 := ⟨fuel - 1, by omega⟩
  rw [find_star_step g root entry rl q found tok [f] lc rs hq ht]
  have := starIdx_loop root [] false [f] (.at q) rl found [tok, f] (by simp) 2 (rs.map (fieldOf f)) 0 rs.length [] Option.none g
    (by simp) ?_ (by simp; omega) (by simp)
  · simpa using this
  · intro j hj fu hfu
    have hj' : j < rs.length := by simpa using hj
    have hmem : rs[j] ∈ rs := List.getElem_mem hj'
    have hd := hrs _ hmem
    cases hrj : rs[j] with
    | dict c kvs' =>
      have hget : rs[j]? = some (.dict c kvs') := by rw [List.getElem?_eq_getElem hj', hrj]
      obtain ⟨r, hr, h1, h2⟩ := star_elem root rl q found f lc rs j c kvs' hq hget hf fu hfu
      refine ⟨r, by simpa using hr, ?_, ?_⟩
      · simp [hrj, fieldOf, h1]
      · intro v hv; apply h2; simpa [hrj, fieldOf] using hv
    | _ => rw [hrj] at hd; simp [isDict] at hd

/-! ### tokenisation of the selecting paths -/

theorem fixBr_noRB (t : Str) (h : ∀ c ∈ t, c ≠ ']') : fixBr t = t := by
  have := fixBr_append_noRB t [] h
  simpa [fixBr] using this

/-- a text with a single `]` that is not followed by `[` is not changed by `replace("][","]/[")` -/
theorem fixBr_one_rb (s t : Str) (hs : ∀ c ∈ s, c ≠ ']') (ht : ∀ c ∈ t, c ≠ ']') (hh : t.head? ≠ some '[') :
    fixBr (s ++ ']' :: t) = s ++ ']' :: t := by
  rw [fixBr_append_noRB s _ hs]
  cases t with
  | nil => rw [fixBr_rb_nil]
  | cons c t' =>
    have hc : c ≠ '[' := by intro h; apply hh; simp [h]
    rw [fixBr_rb_other c t' hc, fixBr_noRB _ ht]

/-- `'/'.join(ps)` -/
def joinSlash : List Str → Str
  | [] => []
  | [a] => a
  | a :: b :: rest => a ++ '/' :: joinSlash (b :: rest)

theorem splitChar_joinSlash : ∀ (ps : List Str), ps ≠ [] → (∀ p ∈ ps, ∀ c ∈ p, c ≠ '/') →
    splitChar '/' (joinSlash ps) = ps
  | [], h, _ => absurd rfl h
  | [a], _, h => by simpa [joinSlash] using splitChar_no_delim '/' a (h a (by simp))
  | a :: b :: rest, _, h => by
    rw [joinSlash, splitChar_append '/' a _ (h a (by simp)),
      splitChar_joinSlash (b :: rest) (by simp) (fun p hp => h p (by simp [hp]))]

theorem clean_id : ∀ (ps : List Str), (∀ p ∈ ps, p ≠ [] ∧ stripWs p = p) → clean ps = ps
  | [], _ => rfl
  | a :: rest, h => by
    rw [clean_cons, clean_id rest (fun p hp => h p (by simp [hp]))]
    simp [isEmpty_false_of_ne (h a (by simp)).1, (h a (by simp)).2]

/-- a path made of well-formed pieces tokenises into its pieces -/
theorem tokenize_joinSlash (ps : List Str) (hne : ps ≠ []) (hfix : fixBr (joinSlash ps) = joinSlash ps)
    (hsl : ∀ p ∈ ps, ∀ c ∈ p, c ≠ '/') (hp : ∀ p ∈ ps, p ≠ [] ∧ stripWs p = p) :
    tokenize (joinSlash ps) = ps := by
  unfold tokenize
  rw [hfix, splitChar_joinSlash ps hne hsl]
  exact clean_id ps hp

/-- the pieces the `'..'` step resolves: `found` = `"//" ++ '/'.join(ps)`, last piece dropped, no strip -/
theorem up_joinSlash (ps : List Str) (hne : ps ≠ []) (hfix : fixBr (joinSlash ps) = joinSlash ps)
    (hsl : ∀ p ∈ ps, ∀ c ∈ p, c ≠ '/') (hp : ∀ p ∈ ps, p ≠ []) :
    ((splitChar '/' (fixBr (slash ++ slash ++ joinSlash ps))).filter (fun t => !t.isEmpty)).dropLast = ps.dropLast := by
  have h1 : fixBr (slash ++ slash ++ joinSlash ps) = '/' :: '/' :: joinSlash ps := by
    simp only [slash, List.cons_append, List.nil_append]
    rw [fixBr_cons_ne '/' _ (by decide), fixBr_cons_ne '/' _ (by decide), hfix]
  rw [h1]
  have h2 : splitChar '/' ('/' :: '/' :: joinSlash ps) = [] :: [] :: ps := by
    simp [splitChar, splitChar_joinSlash ps hne hsl]
  rw [h2]
  have h3 : ps.filter (fun t => !t.isEmpty) = ps := by
    apply List.filter_eq_self.mpr
    intro p hp'; simp [isEmpty_false_of_ne (hp p hp')]
  simp [List.filter, h3]

theorem stripWs_key_bracket {k : Str} (hk : PlainKey k) (e : Str) :
    stripWs (k ++ bracket e) = k ++ bracket e := by
  apply stripWs_eq_self
  · intro c hc
    cases k with
    | nil => exact absurd rfl hk.ne
    | cons x k =>
      simp at hc; subst hc
      exact (plainChar_ne (hk.chars _ (by simp))).2.2.2.2
  · intro c hc
    have : k ++ bracket e = (k ++ '[' :: e) ++ [']'] := by simp [bracket]
    rw [this, List.getLast?_append] at hc
    simp at hc; subst hc; decide

theorem PlainKey.head_ne_q {k : Str} (hk : PlainKey k) (s : Str) : startsWith (k ++ s) ['?'] = false := by
  cases k with
  | nil => exact absurd rfl hk.ne
  | cons x k =>
    have hx := hk.chars x (by simp)
    have : x ≠ '?' := by
      simp only [plainChar, Bool.not_eq_true', Bool.or_eq_false_iff, decide_eq_false_iff_not] at hx
      exact hx.1.1.1.1.1.2
    simp [startsWith, this, startsWith_nil]

/-! ### `get` / `first` on top of `_find` -/

theorem getCore_of_find (cls : Cls) (kvs : List (Str × Val)) (xp : Str) (toks : List Str) (d : Val) (raise rl : Bool)
    (fuel : Nat) (r : Res)
    (hq : startsWith xp ['?'] = false) (hpc : hasPathChar xp = true) (htok : tokenize xp = toks)
    (hr : findD fuel (.dict cls kvs) [] false true toks (.at []) rl slash = .ok (.dict cls kvs, r)) :
    getCore fuel (.dict cls kvs) xp d raise rl
      = (.dict cls kvs, if r.isFound then .ok r.value else if raise then .error .IndexError else .ok d) := by
  simp only [getCore, hq, Bool.false_eq_true, if_false, hpc, if_true, htok, hr]
  cases r.isFound <;> cases raise <;> simp

/-! ### fan-out over the records stored under a key of the root -/

theorem star_idxExpr : IdxExpr ['*'] where
  ne := by simp
  head := by intro c hc; simp at hc; subst hc; decide
  last := by intro c hc; simp at hc; subst hc; decide
  notContains := by decide
  noEq := by intro c hc; simp at hc; subst hc; exact ⟨by decide, by decide⟩

theorem getAt_root_key (cls : Cls) (kvs : List (Str × Val)) (name : Str) (c : Val) (hl : lookup name kvs = some c) :
    getAt (.dict cls kvs) ([] ++ [Seg.key name]) = some c := by
  simp [getAt, child, hl]

/-- `name[*]/f` from the root -/
theorem star_find_explicit (cls : Cls) (kvs : List (Str × Val)) (name f : Str) (lc : Cls) (rs : List Val) (rl : Bool)
    (hname : PlainKey name) (hf : PlainKey f) (hl : lookup name kvs = some (.list lc rs))
    (hrs : ∀ r ∈ rs, isDict r = true) (fuel : Nat) (hfuel : fuel ≥ rs.length + 5) :
    ∃ r, findD fuel (.dict cls kvs) [] false true [name ++ bracket ['*'], f] (.at []) rl slash = .ok (.dict cls kvs, r) ∧
      r.isFound = !(somes (rs.map (fieldOf f))).isEmpty ∧
      (r.isFound = true → r.value = collect rl (somes (rs.map (fieldOf f)))) := by
  obtain ⟨g, rfl⟩ : ∃ g, fuel = g + 1 := ⟨fuel - 1, by omega⟩
  rw [find_keybr_step g _ true rl [] slash _ name ['*'] [f] cls kvs _ rfl
    (split_bracket name ['*'] (Or.inr hname) star_idxExpr) hname.ne hname.notUp hname.keyTok.notStar hl]
  exact star_records _ rl _ _ _ f lc rs (getAt_root_key cls kvs name _ hl) hrs hf.keyTok split_star g false (by omega)

/-- `name/f` from the root (the `[*]` is supplied by the engine) -/
theorem star_find_implicit (cls : Cls) (kvs : List (Str × Val)) (name f : Str) (lc : Cls) (rs : List Val) (rl : Bool)
    (hname : PlainKey name) (hf : PlainKey f) (hl : lookup name kvs = some (.list lc rs))
    (hrs : ∀ r ∈ rs, isDict r = true) (fuel : Nat) (hfuel : fuel ≥ rs.length + 6) :
    ∃ r, findD fuel (.dict cls kvs) [] false true [name, f] (.at []) rl slash = .ok (.dict cls kvs, r) ∧
      r.isFound = !(somes (rs.map (fieldOf f))).isEmpty ∧
      (r.isFound = true → r.value = collect rl (somes (rs.map (fieldOf f)))) := by
  obtain ⟨g, rfl⟩ : ∃ g, fuel = g + 2 := ⟨fuel - 2, by omega⟩
  rw [find_key_step (g + 1) _ true rl [] slash name [f] cls kvs _ (by simp) rfl hname.keyTok hl]
  have hq := getAt_root_key cls kvs name _ hl
  rw [find_name_on_list g _ false rl _ _ f f .none [] lc rs hq hf.keyTok.split hf.ne hf.notUp]
  exact star_records _ rl _ _ _ f lc rs hq hrs hf.keyTok split_star g false (by omega)

theorem PlainKey.noSlash' {k : Str} (h : PlainKey k) : ∀ c ∈ k, c ≠ '/' := h.noSlash

theorem bracket_mem_noSlash (e : Str) (he : ∀ c ∈ e, c ≠ '/') : ∀ c ∈ bracket e, c ≠ '/' := by
  intro c hc
  simp only [bracket, List.mem_cons, List.mem_append, List.not_mem_nil, or_false] at hc
  rcases hc with (hc | hc) | hc
  · subst hc; decide
  · exact he c hc
  · subst hc; decide

/-- tokenisation of `name[e]/f` -/
theorem tokenize_keybr_field (name e f : Str) (hname : PlainKey name) (hf : PlainKey f)
    (he1 : ∀ c ∈ e, c ≠ ']') (he2 : ∀ c ∈ e, c ≠ '/') :
    tokenize (name ++ bracket e ++ slash ++ f) = [name ++ bracket e, f] := by
  have hform : name ++ bracket e ++ slash ++ f = joinSlash [name ++ bracket e, f] := by simp [joinSlash, slash]
  rw [hform]
  apply tokenize_joinSlash
  · simp
  · have h2 : joinSlash [name ++ bracket e, f] = (name ++ '[' :: e) ++ ']' :: ('/' :: f) := by simp [joinSlash, bracket]
    rw [h2]
    apply fixBr_one_rb
    · intro c hc
      simp only [List.mem_append, List.mem_cons] at hc
      rcases hc with hc | hc | hc
      · exact hname.noRB c hc
      · subst hc; decide
      · exact he1 c hc
    · intro c hc
      simp only [List.mem_cons] at hc
      rcases hc with hc | hc
      · subst hc; decide
      · exact hf.noRB c hc
    · simp
  · intro p hp c hc
    simp only [List.mem_cons, List.not_mem_nil, or_false] at hp
    rcases hp with rfl | rfl
    · simp only [List.mem_append] at hc
      rcases hc with hc | hc
      · exact hname.noSlash c hc
      · exact bracket_mem_noSlash e he2 c hc
    · exact hf.noSlash c hc
  · intro p hp
    simp only [List.mem_cons, List.not_mem_nil, or_false] at hp
    rcases hp with rfl | rfl
    · exact ⟨by simp [bracket], stripWs_key_bracket hname e⟩
    · exact ⟨hf.ne, hf.stripWs⟩

theorem tokenize_key_field (name f : Str) (hname : PlainKey name) (hf : PlainKey f) :
    tokenize (name ++ slash ++ f) = [name, f] := by
  have hform : name ++ slash ++ f = joinSlash [name, f] := by simp [joinSlash, slash]
  rw [hform]
  apply tokenize_joinSlash
  · simp
  · apply fixBr_noRB
    intro c hc
    simp only [joinSlash, List.mem_append, List.mem_cons] at hc
    rcases hc with hc | hc | hc
    · exact hname.noRB c hc
    · subst hc; decide
    · exact hf.noRB c hc
  · intro p hp c hc
    simp only [List.mem_cons, List.not_mem_nil, or_false] at hp
    rcases hp with rfl | rfl
    · exact hname.noSlash c hc
    · exact hf.noSlash c hc
  · intro p hp
    simp only [List.mem_cons, List.not_mem_nil, or_false] at hp
    rcases hp with rfl | rfl
    · exact ⟨hname.ne, hname.stripWs⟩
    · exact ⟨hf.ne, hf.stripWs⟩

/-- what `get` / item access return for a selecting lookup whose `_find` result is `r` -/
def selResult (vals : List Val) (dflt : PyM Val) : PyM Val := if vals.isEmpty then dflt else .ok (.list .n0 vals)

theorem hasPathChar_slash (a b : Str) : hasPathChar (a ++ slash ++ b) = true := by
  simp [hasPathChar, slash]

/-- `first`'s final step: a one-element list is replaced by its element -/
def unwrap1 : Val → Val
  | .list _ [x] => x
  | v => v

/-- what `first` returns for the selected values `vals` (default `d`) -/
def firstOf (vals : List Val) (d : Val) : Val :=
  unwrap1 (match vals with | [] => d | [v] => v | vs => .list .n0 vs)

/-- **API layer.**  If `_find` on the tokens of `xp` selects `vals` (for either value of `return_lists`),
then `get` returns the list (the default when empty), item access the list (IndexError when empty), `first`
unwraps a single match; the tree is unchanged. -/
theorem select_api (cls : Cls) (kvs : List (Str × Val)) (xp : Str) (toks : List Str) (vals : List Val) (d : Val)
    (fuel : Nat) (hq : startsWith xp ['?'] = false) (hpc : hasPathChar xp = true) (htok : tokenize xp = toks)
    (hfind : ∀ rl, ∃ r, findD fuel (.dict cls kvs) [] false true toks (.at []) rl slash = .ok (.dict cls kvs, r) ∧
      r.isFound = !vals.isEmpty ∧ (r.isFound = true → r.value = collect rl vals)) :
    get fuel (.dict cls kvs) xp d = (.dict cls kvs, .ok (if vals.isEmpty then d else .list .n0 vals)) ∧
    getItem fuel (.dict cls kvs) xp = (.dict cls kvs, if vals.isEmpty then .error .IndexError else .ok (.list .n0 vals)) ∧
    first fuel (.dict cls kvs) xp d = (.dict cls kvs, .ok (firstOf vals d)) := by
  obtain ⟨r1, hr1, hf1, hv1⟩ := hfind true
  obtain ⟨r0, hr0, hf0, hv0⟩ := hfind false
  refine ⟨?_, ?_, ?_⟩
  · rw [get, getCore_of_find cls kvs xp toks d false true fuel r1 hq hpc htok hr1]
    cases he : vals.isEmpty with
    | true => simp [hf1, he]
    | false =>
      have : r1.isFound = true := by simp [hf1, he]
      simp [this, hv1 this, collect]
  · rw [getItem, getCore_of_find cls kvs xp toks Val.none true true fuel r1 hq hpc htok hr1]
    cases he : vals.isEmpty with
    | true => simp [hf1, he]
    | false =>
      have : r1.isFound = true := by simp [hf1, he]
      simp [this, hv1 this, collect]
  · rw [first, getCore_of_find cls kvs xp toks d false false fuel r0 hq hpc htok hr0]
    cases vals with
    | nil =>
      have : r0.isFound = false := by simp [hf0]
      simp only [this, Bool.false_eq_true, if_false, firstOf]
      cases d with
      | list c xs =>
        cases xs with
        | nil => rfl
        | cons x xs => cases xs <;> rfl
      | _ => rfl
    | cons v vs =>
      have hfd : r0.isFound = true := by simp [hf0]
      have hv := hv0 hfd
      simp only [hfd, if_true, hv, firstOf]
      cases vs with
      | nil =>
        simp only [collect, Bool.not_false, List.length_singleton, decide_true, Bool.and_self, if_true, List.headD_cons]
        cases v with
        | list c xs =>
          cases xs with
          | nil => rfl
          | cons x xs => cases xs <;> rfl
        | _ => rfl
      | cons v2 vs => simp [collect, unwrap1]

/-- **`name[*]/f` and `name/f`** for the records `rs` stored under the key `name` of the root. -/
theorem star_api (cls : Cls) (kvs : List (Str × Val)) (name f : Str) (lc : Cls) (rs : List Val) (d : Val)
    (hname : PlainKey name) (hf : PlainKey f) (hl : lookup name kvs = some (.list lc rs))
    (hrs : ∀ r ∈ rs, isDict r = true) (fuel : Nat) (hfuel : fuel ≥ rs.length + 6) (xp : Str)
    (hxp : xp = name ++ bracket ['*'] ++ slash ++ f ∨ xp = name ++ slash ++ f) :
    let vals := somes (rs.map (fieldOf f))
    get fuel (.dict cls kvs) xp d = (.dict cls kvs, .ok (if vals.isEmpty then d else .list .n0 vals)) ∧
    getItem fuel (.dict cls kvs) xp = (.dict cls kvs, if vals.isEmpty then .error .IndexError else .ok (.list .n0 vals)) ∧
    first fuel (.dict cls kvs) xp d = (.dict cls kvs, .ok (firstOf vals d)) := by
  intro vals
  rcases hxp with rfl | rfl
  · apply select_api cls kvs _ [name ++ bracket ['*'], f] vals d fuel
    · simpa [List.append_assoc] using hname.head_ne_q (bracket ['*'] ++ slash ++ f)
    · exact hasPathChar_slash _ _
    · exact tokenize_keybr_field name ['*'] f hname hf (by decide) (by decide)
    · intro rl
      exact star_find_explicit cls kvs name f lc rs rl hname hf hl hrs fuel (by omega)
  · apply select_api cls kvs _ [name, f] vals d fuel
    · simpa [List.append_assoc] using hname.head_ne_q (slash ++ f)
    · exact hasPathChar_slash _ _
    · exact tokenize_key_field name f hname hf
    · intro rl
      exact star_find_implicit cls kvs name f lc rs rl hname hf hl hrs fuel hfuel

end N0.XPath
