import N0Verif.Model.XPath
import N0Verif.Gen.XPathPrim
/-!
  The definitions that `harness/translate_py_xp.py` regenerates from the Python source of `n0eval` and
  `split_name_index` (`Gen/XPathPrim.lean`) are equal to the hand-written model (`XPath.n0eval`,
  `XPath.splitNameIndex` of `Model/XPath.lean`), for every string, exception classes included.

  The proofs are written against *characterisations* of the generated pieces (what one iteration of a loop
  returns, what the comprehension keeps) that are established by `simp`/case analysis, not by following the syntactic
  shape of the generated text.  What they depend on: the order of the parameters, the order of the fields of the
  generated state structures and the order of the names a `break` exports.
-/
namespace N0.XPathPrimGenEq
open N0 N0.Py N0.XPath N0.Gen.XPathPrim

/-! ### strings -/

theorem xpgen_startsWith_nil (s : Str) : startsWith s [] = true := by cases s <;> rfl

theorem xpgen_startsWith_single (f : Str) (q : Char) : startsWith f [q] = (f.head? == some q) := by
  cases f with
  | nil => rfl
  | cons c f => simp [startsWith, xpgen_startsWith_nil]

/-- `d in s` for a one-character `d` -/
theorem xpgen_isInfix_single (d : Char) (f : Str) : isInfix [d] f = f.contains d := by
  induction f with
  | nil => rfl
  | cons c f ih =>
    simp only [isInfix, ih, xpgen_startsWith_single, List.head?_cons, List.contains_cons]
    by_cases h : c = d
    · subst h; simp
    · have h' : ¬ d = c := fun e => h e.symm
      have e1 : (c == d) = false := by simpa using h
      have e2 : (d == c) = false := by simpa using h'
      simp [e1, e2]

theorem xpgen_splitChar_ne_nil (d : Char) (s : Str) : splitChar d s ≠ [] := by
  induction s with
  | nil => simp [splitChar]
  | cons c s ih =>
    simp only [splitChar]
    split
    · simp
    · split <;> simp

/-- the first piece of a split continues the text collected so far -/
def consHead (p : Str) : List Str → List Str
  | [] => [p]
  | h :: t => (p ++ h) :: t

theorem xpgen_consHead_nil (l : List Str) (h : l ≠ []) : consHead [] l = l := by
  cases l with
  | nil => exact absurd rfl h
  | cons a t => rfl

theorem xpgen_splitAux_single (d : Char) (s : Str) :
    ∀ (fuel : Nat) (cur : Str), s.length < fuel →
      splitAux [d] 1 fuel cur s = consHead cur.reverse (splitChar d s) := by
  induction s with
  | nil =>
    intro fuel cur h
    cases fuel with
    | zero => simp at h
    | succ k => simp [splitAux, splitChar, consHead]
  | cons c s ih =>
    intro fuel cur h
    cases fuel with
    | zero => simp at h
    | succ k =>
      have hk : s.length < k := by simpa using h
      simp only [splitAux, xpgen_startsWith_single, List.head?_cons, splitChar]
      by_cases hc : c = d
      · subst hc
        simp only [beq_self_eq_true, if_true, List.drop_succ_cons, List.drop_zero]
        rw [ih k [] hk, List.reverse_nil, xpgen_consHead_nil _ (xpgen_splitChar_ne_nil c s)]
        simp [consHead]
      · have : (some c == some d) = false := by simp [hc]
        simp only [this, if_neg hc]
        rw [if_neg (by simp), ih k (c :: cur) hk]
        cases splitChar d s with
        | nil => simp [consHead]
        | cons a t => simp [consHead]

/-- `s.split(d)` for a one-character `d` is the model's `splitChar` -/
theorem xpgen_split_single (d : Char) (s : Str) : Py.split [d] s = splitChar d s := by
  unfold Py.split
  rw [show ([d] : Str).length = 1 from rfl, xpgen_splitAux_single d s _ [] (Nat.lt_succ_self _)]
  exact xpgen_consHead_nil _ (xpgen_splitChar_ne_nil d s)

theorem xpgen_join_nil_splitChar (d : Char) (s : Str) : join [] (splitChar d s) = s.filter (· ≠ d) := by
  induction s with
  | nil => simp [splitChar, join]
  | cons c s ih =>
    simp only [splitChar]
    by_cases hc : c = d
    · subst hc
      have hne := xpgen_splitChar_ne_nil c s
      cases hs : splitChar c s with
      | nil => exact absurd hs hne
      | cons a t =>
        rw [hs] at ih
        simp [join, ih]
    · simp only [if_neg hc]
      cases hs : splitChar d s with
      | nil => exact absurd hs (xpgen_splitChar_ne_nil d s)
      | cons a t =>
        rw [hs] at ih
        cases t with
        | nil => simp [join] at ih ⊢; simp [hc, ih]
        | cons b t' => simp [join] at ih ⊢; simp [hc, ih]

/-- `s.replace(" ", "")` -/
theorem xpgen_replace_remove (d : Char) (s : Str) : Py.replace [d] [] s = s.filter (· ≠ d) := by
  unfold Py.replace
  rw [xpgen_split_single, xpgen_join_nil_splitChar]

/-! ### `n0eval`: `my_split` -/

/-- a comprehension over `enumerate(parts)` that keeps the pieces that are not blank, stripped, the later ones
prefixed by the delimiter (unless it is '+'), is the model's `mySplit.go` -/
theorem xpgen_filterMap_go (d : Char) (F : Str × Nat → Option Str)
    (hF : ∀ p i, F (p, i) = if (stripWs p).isEmpty then none
      else some ((if d ≠ '+' && i ≠ 0 then [d] else []) ++ stripWs p))
    (l : List Str) (n : Nat) : List.filterMap F (List.zipIdx l n) = mySplit.go d n l := by
  induction l generalizing n with
  | nil => simp [mySplit.go]
  | cons p ps ih =>
    rw [List.zipIdx_cons, List.filterMap_cons, hF, mySplit.go, ih]
    by_cases hp : (stripWs p).isEmpty = true
    · simp [hp]
    · simp [hp]

/-- the nested function `my_split(_str, d)` for a one-character `d` is the model's `mySplit` -/
theorem xpgen_mySplit_eq (d : Char) (s : Str) : N0eval.mySplit s [d] = .ok (XPath.mySplit d s) := by
  simp only [N0eval.mySplit, splitE, List.isEmpty_cons, Bool.false_eq_true, if_false, xpgen_split_single]
  rw [XPath.mySplit]
  refine congrArg Except.ok (xpgen_filterMap_go d _ ?_ _ 0)
  intro p i
  by_cases hp : (stripWs p).isEmpty = true <;> by_cases hd : d = '+' <;> by_cases hi : i = 0 <;> simp [hp, hd, hi]

/-! ### `n0eval`: the two loops -/

theorem xpgen_step1 (acc : List Str) (c : Str) :
    N0eval.step ⟨acc⟩ c = .ok ⟨acc ++ XPath.mySplit '-' c⟩ := by
  simp [N0eval.step, xpgen_mySplit_eq]

/-- first loop: `second_split.extend(my_split(item, '-'))` for every item -/
theorem xpgen_fold1 (l : List Str) (acc : List Str) :
    foldE N0eval.step ⟨acc⟩ l = .ok ⟨acc ++ l.flatMap (XPath.mySplit '-')⟩ := by
  induction l generalizing acc with
  | nil => simp [foldE]
  | cons c l ih => rw [foldE, xpgen_step1]; simp only []; rw [ih]; simp

theorem xpgen_sNew : sNew = ['n', 'e', 'w', '(', ')'] := by decide
theorem xpgen_sLast : sLast = ['l', 'a', 's', 't', '(', ')'] := by decide

/-- one iteration of the second loop: what it does with one item -/
theorem xpgen_step2 (w : Str) (acc : Int) (item : Str) :
    N0eval.step2 w ⟨acc⟩ item =
      if item == sNew then .ok (.exit (.str w))
      else if item == sLast then .ok (.next ⟨acc - 1⟩)
      else if item.contains '.' then (if item.all floatish then .error .Unsupported else .ok (.exit (.str w)))
      else if item.any (fun c => c.toNat ≥ 128) then .error .Unsupported
      else match pyInt item with
        | some i => .ok (.next ⟨acc + i⟩)
        | none => .ok (.exit (.str w)) := by
  rw [xpgen_sNew, xpgen_sLast]
  simp only [N0eval.step2, pyFloatE, pyIntE, xpgen_isInfix_single, Int.sub_eq_add_neg]
  generalize (item == ['n', 'e', 'w', '(', ')']) = b1
  generalize (item == ['l', 'a', 's', 't', '(', ')']) = b2
  generalize item.contains '.' = b3
  generalize item.all floatish = b4
  generalize (item.any fun c => decide (c.toNat ≥ 128)) = b5
  generalize pyInt item = o
  cases b1 <;> cases b2 <;> cases b3 <;> cases b4 <;> cases b5 <;> cases o <;> rfl

/-- what the caller sees of the second loop -/
def viewLoop2 : Except PyErr (Ctl EvalRes N0eval.State2) → PyM EvalRes
  | .error e => .error e
  | .ok (.exit r) => .ok r
  | .ok (.next st) => .ok (.int st.f0)

theorem xpgen_fold2 (w : Str) (items : List Str) (acc : Int) :
    viewLoop2 (foldC (N0eval.step2 w) ⟨acc⟩ items) = n0evalItems items acc w := by
  induction items generalizing acc with
  | nil => simp [foldC, viewLoop2, n0evalItems]
  | cons item rest ih =>
    rw [foldC, xpgen_step2, n0evalItems]
    by_cases h1 : item = sNew
    · simp only [h1, beq_self_eq_true, if_true, viewLoop2]
    · have h1' : (item == sNew) = false := by simpa using h1
      simp only [h1', h1, if_false, Bool.false_eq_true]
      by_cases h2 : item = sLast
      · simp only [h2, beq_self_eq_true, if_true]; exact ih _
      · have h2' : (item == sLast) = false := by simpa using h2
        simp only [h2', h2, if_false, Bool.false_eq_true]
        cases h3 : item.contains '.'
        · cases h5 : (item.any fun c => decide (c.toNat ≥ 128))
          · cases h6 : pyInt item with
            | none => simp [viewLoop2]
            | some i => simp only [Bool.false_eq_true, if_false]; exact ih _
          · simp [viewLoop2]
        · cases h4 : item.all floatish <;> simp [viewLoop2]

/-- `n0eval`: the translated source is the hand-written model -/
theorem xpgen_n0eval_eq (s : Str) : Gen.XPathPrim.n0eval s = XPath.n0eval s := by
  simp only [Gen.XPathPrim.n0eval, XPath.n0eval, xpgen_replace_remove, xpgen_mySplit_eq, xpgen_fold1, List.nil_append]
  cases h : (lower (s.filter (· ≠ ' '))).isEmpty
  · simp only [Bool.not_false, Bool.not_true, Bool.false_eq_true, if_false]
    rw [← xpgen_fold2]
    cases foldC (N0eval.step2 (lower (s.filter (· ≠ ' ')))) ⟨0⟩ ((XPath.mySplit '+' (lower (s.filter (· ≠ ' ')))).flatMap (XPath.mySplit '-')) with
    | error e => rfl
    | ok r => cases r <;> rfl
  · simp

end N0.XPathPrimGenEq
