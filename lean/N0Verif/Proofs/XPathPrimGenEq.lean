import N0Verif.Model.XPath
import N0Verif.Gen.XPathPrim
/-!
  The definitions that `harness/translate_py_xp.py` regenerates from the Python source of `n0eval` and
  `split_name_index` (`Gen/XPathPrim.lean`) are equal to the hand-written model (`XPath.n0eval`,
  `XPath.splitNameIndex` of `Model/XPath.lean`), for every string, exception classes included.

  The proofs are written against *characterisations* of the generated pieces (what one iteration of a loop
  returns, what the comprehension keeps) that are established by `simp`/case analysis, not by following the syntactic
  shape of the generated text.  What they depend on: the order of the parameters, the order of the fields of the
  generated state structures and the order of the names a `break` exports.
-/
set_option linter.unusedSimpArgs false
namespace N0.XPathPrimGenEq
open N0 N0.Py N0.XPath N0.Gen.XPathPrim

/-! ### strings -/

theorem xpgen_startsWith_nil (s : Str) : startsWith s [] = true := by cases s <;> rfl

theorem xpgen_startsWith_single (f : Str) (q : Char) : startsWith f [q] = (f.head? == some q) := by
  cases f with
  | nil => rfl
  | cons c f => simp [startsWith, xpgen_startsWith_nil]

/-- `d in s` for a one-character `d` -/
theorem xpgen_isInfix_single (d : Char) (f : Str) : isInfix [d] f = f.contains d := by
  induction f with
  | nil => rfl
  | cons c f ih =>
    simp only [isInfix, ih, xpgen_startsWith_single, List.head?_cons, List.contains_cons]
    by_cases h : c = d
    · subst h; simp
    · have h' : ¬ d = c := fun e => h e.symm
      have e1 : (c == d) = false := by simpa using h
      have e2 : (d == c) = false := by simpa using h'
      simp [e1, e2]

theorem xpgen_splitChar_ne_nil (d : Char) (s : Str) : splitChar d s ≠ [] := by
  induction s with
  | nil => simp [splitChar]
  | cons c s ih =>
    simp only [splitChar]
    split
    · simp
    · split <;> simp

/-- the first piece of a split continues the text collected so far -/
def consHead (p : Str) : List Str → List Str
  | [] => [p]
  | h :: t => (p ++ h) :: t

theorem xpgen_consHead_nil (l : List Str) (h : l ≠ []) : consHead [] l = l := by
  cases l with
  | nil => exact absurd rfl h
  | cons a t => rfl

theorem xpgen_splitAux_single (d : Char) (s : Str) :
    ∀ (fuel : Nat) (cur : Str), s.length < fuel →
      splitAux [d] 1 fuel cur s = consHead cur.reverse (splitChar d s) := by
  induction s with
  | nil =>
    intro fuel cur h
    cases fuel with
    | zero => simp at h
    | succ k => simp [splitAux, splitChar, consHead]
  | cons c s ih =>
    intro fuel cur h
    cases fuel with
    | zero => simp at h
    | succ k =>
      have hk : s.length < k := by simpa using h
      simp only [splitAux, xpgen_startsWith_single, List.head?_cons, splitChar]
      by_cases hc : c = d
      · subst hc
        simp only [beq_self_eq_true, if_true, List.drop_succ_cons, List.drop_zero]
        rw [ih k [] hk, List.reverse_nil, xpgen_consHead_nil _ (xpgen_splitChar_ne_nil c s)]
        simp [consHead]
      · have : (some c == some d) = false := by simp [hc]
        simp only [this, if_neg hc]
        rw [if_neg (by simp), ih k (c :: cur) hk]
        cases splitChar d s with
        | nil => simp [consHead]
        | cons a t => simp [consHead]

/-- `s.split(d)` for a one-character `d` is the model's `splitChar` -/
theorem xpgen_split_single (d : Char) (s : Str) : Py.split [d] s = splitChar d s := by
  unfold Py.split
  rw [show ([d] : Str).length = 1 from rfl, xpgen_splitAux_single d s _ [] (Nat.lt_succ_self _)]
  exact xpgen_consHead_nil _ (xpgen_splitChar_ne_nil d s)

theorem xpgen_join_nil_splitChar (d : Char) (s : Str) : join [] (splitChar d s) = s.filter (· ≠ d) := by
  induction s with
  | nil => simp [splitChar, join]
  | cons c s ih =>
    simp only [splitChar]
    by_cases hc : c = d
    · subst hc
      have hne := xpgen_splitChar_ne_nil c s
      cases hs : splitChar c s with
      | nil => exact absurd hs hne
      | cons a t =>
        rw [hs] at ih
        simp [join, ih]
    · simp only [if_neg hc]
      cases hs : splitChar d s with
      | nil => exact absurd hs (xpgen_splitChar_ne_nil d s)
      | cons a t =>
        rw [hs] at ih
        cases t with
        | nil => simp [join] at ih ⊢; simp [hc, ih]
        | cons b t' => simp [join] at ih ⊢; simp [hc, ih]

/-- `s.replace(" ", "")` -/
theorem xpgen_replace_remove (d : Char) (s : Str) : Py.replace [d] [] s = s.filter (· ≠ d) := by
  unfold Py.replace
  rw [xpgen_split_single, xpgen_join_nil_splitChar]

/-! ### spellings of "is empty" (`not s`, `s == ""`, `len(s) == 0`, …) -/

theorem xpgen_beq_nil (l : Str) : (l == []) = l.isEmpty := by cases l <;> rfl
theorem xpgen_bne_nil (l : Str) : (l != []) = !l.isEmpty := by cases l <;> rfl
theorem xpgen_len_beq_zero {α : Type} (l : List α) : (Int.ofNat l.length == 0) = l.isEmpty := by cases l <;> rfl
theorem xpgen_len_bne_zero {α : Type} (l : List α) : (Int.ofNat l.length != 0) = !l.isEmpty := by cases l <;> rfl
theorem xpgen_len_pos {α : Type} (l : List α) : decide (Int.ofNat l.length > 0) = !l.isEmpty := by
  cases l with
  | nil => rfl
  | cons a t => simp only [List.length_cons, List.isEmpty_cons, Bool.not_false, decide_eq_true_eq, Int.ofNat_eq_natCast]; omega

/-! ### `n0eval`: `my_split` -/

/-- a comprehension over `enumerate(parts)` that keeps the pieces that are not blank, stripped, the later ones
prefixed by the delimiter (unless it is '+'), is the model's `mySplit.go` -/
theorem xpgen_filterMap_go (d : Char) (F : Str × Nat → Option Str)
    (hF : ∀ p i, F (p, i) = if (stripWs p).isEmpty then none
      else some ((if d ≠ '+' && i ≠ 0 then [d] else []) ++ stripWs p))
    (l : List Str) (n : Nat) : List.filterMap F (List.zipIdx l n) = mySplit.go d n l := by
  induction l generalizing n with
  | nil => simp [mySplit.go]
  | cons p ps ih =>
    rw [List.zipIdx_cons, List.filterMap_cons, hF, mySplit.go, ih]
    by_cases hp : (stripWs p).isEmpty = true
    · simp [hp]
    · simp [hp]

/-- the nested function `my_split(_str, d)` for a one-character `d` is the model's `mySplit` -/
theorem xpgen_mySplit_eq (d : Char) (s : Str) : N0eval.mySplit s [d] = .ok (XPath.mySplit d s) := by
  simp only [N0eval.mySplit, splitE, List.isEmpty_cons, Bool.false_eq_true, if_false, xpgen_split_single]
  rw [XPath.mySplit]
  refine congrArg Except.ok (xpgen_filterMap_go d _ ?_ _ 0)
  intro p i
  by_cases hp : (stripWs p).isEmpty = true <;> by_cases hd : d = '+' <;> by_cases hi : i = 0 <;> simp [hp, hd, hi]

/-! ### `n0eval`: the two loops -/

theorem xpgen_step1 (acc : List Str) (c : Str) :
    N0eval.step ⟨acc⟩ c = .ok ⟨acc ++ XPath.mySplit '-' c⟩ := by
  simp [N0eval.step, xpgen_mySplit_eq]

/-- first loop: `second_split.extend(my_split(item, '-'))` for every item -/
theorem xpgen_fold1 (l : List Str) (acc : List Str) :
    foldE N0eval.step ⟨acc⟩ l = .ok ⟨acc ++ l.flatMap (XPath.mySplit '-')⟩ := by
  induction l generalizing acc with
  | nil => simp [foldE]
  | cons c l ih => rw [foldE, xpgen_step1]; simp only []; rw [ih]; simp

theorem xpgen_sNew : sNew = ['n', 'e', 'w', '(', ')'] := by decide
theorem xpgen_sLast : sLast = ['l', 'a', 's', 't', '(', ')'] := by decide

/-- one iteration of the second loop: what it does with one item -/
theorem xpgen_step2 (w : Str) (acc : Int) (item : Str) :
    N0eval.step2 w ⟨acc⟩ item =
      if item == sNew then .ok (.exit (.str w))
      else if item == sLast then .ok (.next ⟨acc - 1⟩)
      else if item.contains '.' then (if item.all floatish then .error .Unsupported else .ok (.exit (.str w)))
      else if item.any (fun c => c.toNat ≥ 128) then .error .Unsupported
      else match pyInt item with
        | some i => .ok (.next ⟨acc + i⟩)
        | none => .ok (.exit (.str w)) := by
  rw [xpgen_sNew, xpgen_sLast]
  simp only [N0eval.step2, pyFloatE, pyIntE, xpgen_isInfix_single, Int.sub_eq_add_neg]
  generalize (item == ['n', 'e', 'w', '(', ')']) = b1
  generalize (item == ['l', 'a', 's', 't', '(', ')']) = b2
  generalize item.contains '.' = b3
  generalize item.all floatish = b4
  generalize (item.any fun c => decide (c.toNat ≥ 128)) = b5
  generalize pyInt item = o
  cases b1 <;> cases b2 <;> cases b3 <;> cases b4 <;> cases b5 <;> cases o <;> rfl

/-- what the caller sees of the second loop -/
def viewLoop2 : Except PyErr (Ctl EvalRes N0eval.State2) → PyM EvalRes
  | .error e => .error e
  | .ok (.exit r) => .ok r
  | .ok (.next st) => .ok (.int st.f0)

theorem xpgen_fold2 (w : Str) (items : List Str) (acc : Int) :
    viewLoop2 (foldC (N0eval.step2 w) ⟨acc⟩ items) = n0evalItems items acc w := by
  induction items generalizing acc with
  | nil => simp [foldC, viewLoop2, n0evalItems]
  | cons item rest ih =>
    rw [foldC, xpgen_step2, n0evalItems]
    by_cases h1 : item = sNew
    · simp only [h1, beq_self_eq_true, if_true, viewLoop2]
    · have h1' : (item == sNew) = false := by simpa using h1
      simp only [h1', h1, if_false, Bool.false_eq_true]
      by_cases h2 : item = sLast
      · simp only [h2, beq_self_eq_true, if_true]; exact ih _
      · have h2' : (item == sLast) = false := by simpa using h2
        simp only [h2', h2, if_false, Bool.false_eq_true]
        cases h3 : item.contains '.'
        · cases h5 : (item.any fun c => decide (c.toNat ≥ 128))
          · cases h6 : pyInt item with
            | none => simp [viewLoop2]
            | some i => simp only [Bool.false_eq_true, if_false]; exact ih _
          · simp [viewLoop2]
        · cases h4 : item.all floatish <;> simp [viewLoop2]

/-- `n0eval`: the translated source is the hand-written model -/
theorem xpgen_n0eval_eq (s : Str) : Gen.XPathPrim.n0eval s = XPath.n0eval s := by
  simp only [Gen.XPathPrim.n0eval, XPath.n0eval, xpgen_replace_remove, xpgen_mySplit_eq, xpgen_fold1, List.nil_append,
    xpgen_beq_nil, xpgen_bne_nil, xpgen_len_beq_zero, xpgen_len_bne_zero, xpgen_len_pos]
  cases h : (lower (s.filter (· ≠ ' '))).isEmpty
  · simp only [Bool.not_false, Bool.not_true, Bool.false_eq_true, if_false]
    rw [← xpgen_fold2]
    cases foldC (N0eval.step2 (lower (s.filter (· ≠ ' ')))) ⟨0⟩ ((XPath.mySplit '+' (lower (s.filter (· ≠ ' ')))).flatMap (XPath.mySplit '-')) with
    | error e => rfl
    | ok r => cases r <;> rfl
  · simp

/-! ### `split_name_index`: library primitives -/

theorem xpgen_sliceTo_neg_one {α : Type} (s : List α) : sliceTo s (-(1 : Int)) = s.dropLast := by
  simp [sliceTo, List.dropLast_eq_take]

/-- `s[n:-1]` -/
theorem xpgen_sliceFromTo_neg_one {α : Type} (s : List α) (n : Nat) :
    sliceFromTo s (n : Int) (-(1 : Int)) = (s.drop n).dropLast := by
  simp only [sliceFromTo, normBound, List.dropLast_eq_take, List.length_drop]
  have h1 : ¬ ((n : Int) < 0) := by omega
  have h2 : (-(1 : Int)) < 0 := by omega
  simp only [h1, h2, if_true, if_false, Int.toNat_natCast, Int.ofNat_eq_natCast]
  congr 1
  omega

/-- `a, b = s.split(sep, 1)` -/
theorem xpgen_unpack_split1L (sep s : Str) :
    unpack2E (split1L sep s) = match splitOnce sep s with
      | none => .error .ValueError
      | some p => .ok p := by
  unfold split1L
  cases splitOnce sep s with
  | none => rfl
  | some p => rfl

/-- `s.split(sep, 1)[1]` -/
theorem xpgen_idx1_split1L (sep s : Str) :
    idxE (split1L sep s) (1 : Int) = match splitOnce sep s with
      | none => .error .IndexError
      | some p => .ok p.2 := by
  unfold split1L
  cases splitOnce sep s with
  | none => rfl
  | some p => rfl

/-- a separator that occurs is found by `split(sep, 1)` -/
theorem xpgen_split1_of_isInfix (sep : Str) (hsep : sep ≠ []) (s : Str) :
    ∀ (fuel : Nat) (acc : Str), s.length < fuel → isInfix sep s = true → (split1 sep fuel acc s).isSome = true := by
  induction s with
  | nil =>
    intro fuel acc _ h
    cases sep with
    | nil => exact absurd rfl hsep
    | cons c t => simp [isInfix] at h
  | cons c s ih =>
    intro fuel acc hf h
    cases fuel with
    | zero => simp at hf
    | succ k =>
      have hk : s.length < k := by simpa using hf
      simp only [split1]
      cases hs : startsWith (c :: s) sep with
      | true => simp
      | false =>
        simp only [Bool.false_eq_true, if_false]
        simp only [isInfix, hs, Bool.false_or] at h
        exact ih k (c :: acc) hk h

theorem xpgen_splitOnce_of_isInfix (sep : Str) (hsep : sep ≠ []) (s : Str) (h : isInfix sep s = true) :
    ∃ p, splitOnce sep s = some p := by
  have := xpgen_split1_of_isInfix sep hsep s (s.length + 1) [] (Nat.lt_succ_self _) h
  exact Option.isSome_iff_exists.mp this

/-! ### `split_name_index`: the loop over the operator table -/

/-- `=` and `~` are reported as `==` and `~~` -/
def fixDelim (d : Str) : Str := if d = ['='] then ['=', '='] else if d = ['~'] then ['~', '~'] else d

/-- one iteration: the first delimiter of the table that occurs splits the text (exported by `break`: operator,
name, value) -/
theorem xpgen_stepS (idx d : Str) (hd : d ≠ []) :
    SplitNameIndex.step idx () d =
      if isInfix d idx then
        match splitOnce d idx with
        | none => .error .ValueError
        | some (k, v) => .ok (.exit (fixDelim d, stripWs k, stripWs v))
      else .ok (.next ()) := by
  have hde : d.isEmpty = false := by cases d with
    | nil => exact absurd rfl hd
    | cons a t => rfl
  simp only [SplitNameIndex.step, split1E, hde, Bool.false_eq_true, if_false, xpgen_unpack_split1L]
  cases isInfix d idx with
  | false => rfl
  | true =>
    simp only [if_true]
    cases splitOnce d idx with
    | none => rfl
    | some p =>
      obtain ⟨k, v⟩ := p
      simp only [fixDelim]
      by_cases h1 : d = ['=']
      · subst h1; simp
      · by_cases h2 : d = ['~']
        · subst h2; simp
        · simp [h1, h2]

theorem xpgen_foldS (idx : Str) (ds : List Str) (hne : ∀ d ∈ ds, d ≠ []) :
    foldC (SplitNameIndex.step idx) () ds =
      match firstDelim idx ds with
      | none => .ok (.next ())
      | some d =>
        match splitOnce d idx with
        | none => .error .ValueError
        | some (k, v) => .ok (.exit (fixDelim d, stripWs k, stripWs v)) := by
  induction ds with
  | nil => rfl
  | cons d ds ih =>
    rw [foldC, xpgen_stepS idx d (hne d (by simp)), firstDelim]
    cases h : isInfix d idx with
    | true =>
      simp only [if_true]
      cases splitOnce d idx with
      | none => rfl
      | some p => rfl
    | false =>
      simp only [Bool.false_eq_true, if_false]
      exact ih (fun d' hd' => hne d' (by simp [hd']))

theorem xpgen_firstDelim_isInfix (idx : Str) (ds : List Str) (d : Str) (h : firstDelim idx ds = some d) :
    isInfix d idx = true ∧ d ∈ ds := by
  induction ds with
  | nil => simp [firstDelim] at h
  | cons a ds ih =>
    simp only [firstDelim] at h
    cases ha : isInfix a idx with
    | true => simp only [ha, if_true, Option.some.injEq] at h; subst h; simp [ha]
    | false =>
      simp only [ha, Bool.false_eq_true, if_false] at h
      have := ih h
      exact ⟨this.1, by simp [this.2]⟩

theorem xpgen_condDelims_ne : ∀ d ∈ condDelims, d ≠ [] := by decide

/-- the loop over the operator table, seen through the model's `firstDelim` / `splitOnce` (the `else:` of the loop
raises `SyntaxError`; a delimiter that occurs always splits) -/
theorem xpgen_loopS (idx : Str) :
    foldC (SplitNameIndex.step idx) () condDelims =
      match firstDelim idx condDelims with
      | none => .ok (.next ())
      | some d =>
        match splitOnce d idx with
        | none => .error .SyntaxError
        | some (k, v) => .ok (.exit (fixDelim d, stripWs k, stripWs v)) := by
  rw [xpgen_foldS idx condDelims xpgen_condDelims_ne]
  cases h : firstDelim idx condDelims with
  | none => rfl
  | some d =>
    have hd := xpgen_firstDelim_isInfix idx condDelims d h
    obtain ⟨p, hp⟩ := xpgen_splitOnce_of_isInfix d (xpgen_condDelims_ne d hd.2) idx hd.1
    simp only [hp]

/-! ### `split_name_index` -/

/-- a step that contains '[' and ends with ']' has a '[' in front of the last character -/
theorem xpgen_bracket_split (tok : Str) (h1 : tok.contains '[' = true) (h2 : endsWith tok [']'] = true) :
    ∃ p, splitOnce ['['] tok.dropLast = some p := by
  apply xpgen_splitOnce_of_isInfix _ (by simp)
  rw [xpgen_isInfix_single]
  simp only [endsWith, List.reverse_cons, List.reverse_nil, List.nil_append, xpgen_startsWith_single] at h2
  cases hr : tok.reverse with
  | nil => simp [hr] at h2
  | cons c r =>
    have hc : c = ']' := by simpa [hr] using h2
    have ht : tok = r.reverse ++ [']'] := by
      have := congrArg List.reverse hr
      simpa [hc] using this
    subst ht
    simp only [List.dropLast_concat]
    simpa using h1

theorem xpgen_sTrue : sTrue = ['t', 'r', 'u', 'e', '(', ')'] := by decide
theorem xpgen_sFalse : sFalse = ['f', 'a', 'l', 's', 'e', '(', ')'] := by decide
theorem xpgen_sContains : sContains = ['c', 'o', 'n', 't', 'a', 'i', 'n', 's'] := by decide
theorem xpgen_sText : sText = ['t', 'e', 'x', 't'] := by decide
theorem xpgen_textTilde : "text()~~".toList = ['t', 'e', 'x', 't', '(', ')', '~', '~'] := by decide
theorem xpgen_condDelims : [['=', '='], ['!', '='], ['~', '~'], ['!', '~'], ['~'], ['=']] = condDelims := rfl

theorem xpgen_slice_8 {α : Type} (s : List α) : sliceFromTo s (8 : Int) (-(1 : Int)) = (s.drop 8).dropLast :=
  xpgen_sliceFromTo_neg_one s 8
theorem xpgen_slice_1 {α : Type} (s : List α) : sliceFromTo s (1 : Int) (-(1 : Int)) = (s.drop 1).dropLast :=
  xpgen_sliceFromTo_neg_one s 1

/-- the condition part (`name op value`, `true()`/`false()`, quotes) of the translated source, once the loop over the
operator table is seen through `xpgen_loopS`, is the model's `parseCond` -/
local macro "xpgen_cond_tac" : tactic => `(tactic| (
  rw [parseCond]
  cases hc : (List.contains _ '=' || List.contains _ '~')
  · simp [Except.map]
  · simp only [if_true]
    cases hd : firstDelim _ condDelims with
    | none => simp [Except.map]
    | some d =>
      simp only []
      cases hs : splitOnce d _ with
      | none => simp [Except.map]
      | some p =>
        obtain ⟨k, v⟩ := p
        simp only [fixDelim, xpgen_sTrue, xpgen_sFalse, unquoteE, xpgen_slice_1]
        by_cases ht : lower (stripWs v) = ['t', 'r', 'u', 'e', '(', ')']
        · simp [ht, Except.map]
        · by_cases hf : lower (stripWs v) = ['f', 'a', 'l', 's', 'e', '(', ')']
          · simp [hf, Except.map]
          · cases hq : (startsWith (stripWs v) ['"'] && endsWith (stripWs v) ['"'] ||
                startsWith (stripWs v) ['\''] && endsWith (stripWs v) ['\''])
            · simp [ht, hf, hq, Except.map]
            · cases hp : hasPercent ((stripWs v).drop 1).dropLast <;> simp [ht, hf, hq, hp, Except.map]))

theorem xpgen_split_eq (tok : Str) : Gen.XPathPrim.splitNameIndex tok = XPath.splitNameIndex tok := by
  simp only [Gen.XPathPrim.splitNameIndex, XPath.splitNameIndex, xpgen_isInfix_single, xpgen_sliceTo_neg_one,
    xpgen_unpack_split1L, xpgen_idx1_split1L, xpgen_condDelims, xpgen_loopS, xpgen_sContains, xpgen_sText,
    xpgen_textTilde, xpgen_slice_8, xpgen_beq_nil, xpgen_bne_nil, xpgen_len_beq_zero, xpgen_len_bne_zero, xpgen_len_pos]
  cases hA : (tok.contains '[' && endsWith tok [']'])
  · simp
  · simp only [if_true]
    have hA' := hA
    simp only [Bool.and_eq_true] at hA'
    obtain ⟨⟨name, idx⟩, hp⟩ := xpgen_bracket_split tok hA'.1 hA'.2
    simp only [hp]
    cases hE : (stripWs idx).isEmpty
    · simp only [Bool.not_false, if_true, Bool.false_eq_true, if_false]
      cases hC : (startsWith (lower (stripWs idx)) ['c', 'o', 'n', 't', 'a', 'i', 'n', 's'] && endsWith (stripWs idx) [')'])
      · simp only [Bool.false_eq_true, if_false]
        xpgen_cond_tac
      · simp only [if_true]
        cases h1 : splitOnce ['('] (stripWs ((stripWs idx).drop 8).dropLast) with
        | none => rfl
        | some p1 =>
          obtain ⟨pre, args⟩ := p1
          simp only []
          cases h2 : splitOnce [','] args with
          | none => rfl
          | some p2 =>
            obtain ⟨q1, q2⟩ := p2
            simp only []
            cases hT : startsWith (lower q1) ['t', 'e', 'x', 't']
            · simp only [Bool.false_eq_true, if_false]
              xpgen_cond_tac
            · simp only [if_true]
              xpgen_cond_tac
    · have he : stripWs idx = [] := by simpa using hE
      simp [he]

end N0.XPathPrimGenEq
