import N0Verif.Proofs.Compare
/-!
The default (keyed, unordered) comparison — `cfg = Cfg.default fl false` — reports no difference
iff the two trees are equal up to the order of the non-record items inside each list
(`eqv`), provided the key of the non-record list items — their JSON text with sorted keys (fixes C07-b, C07-c) —
identifies them exactly up to structural equality `deq` (`KeyFaithful`: a fact about `json.dumps`, taken as a
hypothesis; necessary: `dt_tight` in `CompareDefaultTight.lean`).
-/
namespace N0.Compare
open N0

/-! ### the specification -/

/-- a record = a dictionary item of a list -/
def isRec : Val → Bool
  | .dict _ _ => true
  | _ => false

/-- the same items up to structural equality: every item of either list occurs, up to `deq` (same
constructors, dictionaries compared key by key, lists item by item in order), equally often in both lists -/
def permD (xs ys : List Val) : Prop := ∀ z ∈ xs ++ ys, xs.countP (deq z) = ys.countP (deq z)

mutual
/-- equality up to the order of the non-record items of every list; non-record items are compared
with structural equality `deq` (as multisets), records are paired in order, dictionaries by key -/
def eqv : Val → Val → Prop
  | .list c xs, w =>
    match w with
    | .list c' ys => c = c' ∧ eqvRecs xs (ys.filter isRec) ∧
        permD (xs.filter (fun v => !isRec v)) (ys.filter (fun v => !isRec v))
    | _ => False
  | .dict c kvs, w =>
    match w with
    | .dict c' kvs' => c = c' ∧ eqvK kvs kvs' ∧ ∀ kv ∈ kvs', hasKey kv.1 kvs = true
    | _ => False
  | .none, w => Val.none = w
  | .bool b, w => Val.bool b = w
  | .int i, w => Val.int i = w
  | .flt r, w => Val.flt r = w
  | .str s, w => Val.str s = w
/-- the records of the left list, in order, are pairwise `eqv` to the given records -/
def eqvRecs : List Val → List Val → Prop
  | [], rs => rs = []
  | x :: xs, rs =>
    if isRec x then
      (match rs with
       | r :: rs' => eqv x r ∧ eqvRecs xs rs'
       | [] => False)
    else eqvRecs xs rs
/-- every entry of the left dictionary has an `eqv` partner under the same key -/
def eqvK : List (Str × Val) → List (Str × Val) → Prop
  | [], _ => True
  | (k, v) :: rest, o =>
    (match Val.lookup k o with
     | some w => eqv v w
     | none => False) ∧ eqvK rest o
end

mutual
/-- all non-record items of all lists of a tree, at any depth -/
def listItems : Val → List Val
  | .list _ xs => listItemsL xs
  | .dict _ kvs => listItemsK kvs
  | _ => []
def listItemsL : List Val → List Val
  | [] => []
  | x :: xs => (if isRec x then [] else [x]) ++ listItems x ++ listItemsL xs
def listItemsK : List (Str × Val) → List Val
  | [] => []
  | (_, v) :: rest => listItems v ++ listItemsK rest
end

/-- the key of the non-record list items — `json.dumps(item, sort_keys=True, default=repr)` — identifies them
exactly up to structural equality, and is never the empty string (the key of every record) -/
structure KeyFaithful (S : Val → Prop) : Prop where
  iff : ∀ x y, S x → S y → (jsonVal x = jsonVal y ↔ deq x y = true)
  ne : ∀ x, S x → jsonVal x ≠ []

/-- `KeyFaithful` on the non-record list items (at every depth) of the two trees -/
def KeyFaithfulOn (a b : Val) : Prop := KeyFaithful (fun z => z ∈ listItems a ++ listItems b)

/-! ### the definition in the form of the specification -/

theorem eqv_list (c c' : Cls) (xs ys : List Val) :
    eqv (.list c xs) (.list c' ys) ↔ (c = c' ∧ eqvRecs xs (ys.filter isRec) ∧
      permD (xs.filter (fun v => !isRec v)) (ys.filter (fun v => !isRec v))) := by
  simp [eqv]

theorem eqv_dict (c c' : Cls) (kvs kvs' : List (Str × Val)) :
    eqv (.dict c kvs) (.dict c' kvs') ↔ (c = c' ∧ eqvK kvs kvs' ∧ ∀ kv ∈ kvs', hasKey kv.1 kvs = true) := by
  simp [eqv]

/-- leaves: equal with equal type, `None` only equals `None` -/
theorem eqv_leaf (a b : Val) (h : isPyScalar a = true ∨ a = .none) : eqv a b ↔ a = b := by
  cases a <;> simp_all [isPyScalar, eqv]

/-- a container is never equivalent to a value of another kind -/
theorem eqv_kind (a b : Val) (h : tyOf a ≠ tyOf b) : ¬ eqv a b := by
  cases a <;> cases b <;> simp_all [eqv, tyOf]

/-! ### leaves -/

theorem eqv_scalar {x y : Val} (hs : isPyScalar x = true) : eqv x y ↔ x = y := by
  cases x <;> simp_all [isPyScalar, eqv]

theorem eqv_tyOf {x y : Val} (h : eqv x y) : tyOf x = tyOf y := by
  cases x <;> cases y <;> simp_all [eqv, tyOf]

def ActExactP (a : Act) (x y : Val) : Prop :=
  match a with
  | .emit r _ => (r.diffs = 0 ↔ eqv x y)
  | .descend => tyOf x = tyOf y ∧ isPyScalar x = false

theorem classify_exactP_aux (x y : Val) (fl : Flags) (eq0 : Res) (h0 : eq0.diffs = 0) (ne1 dt1 tu1 : Res)
    (h1 : ne1.diffs = 1) (h2 : dt1.diffs = 1) (h3 : tu1.diffs = 1) (s1 s2 s3 s4 : Bool) :
    ActExactP
      (if tyOf x = tyOf y then
        if isPyScalar x then
          if x ≠ y then .emit ne1 s1 else .emit eq0 s2
        else .descend
      else if fl.types then .emit dt1 s3 else .emit tu1 s4) x y := by
  by_cases ht : tyOf x = tyOf y
  · by_cases hs : isPyScalar x = true
    · by_cases hxy : x = y
      · subst hxy
        simp [hs, ActExactP, h0, (eqv_scalar hs).2 rfl]
      · have : ¬ eqv x y := fun h => hxy ((eqv_scalar hs).1 h)
        simp [ht, hs, hxy, ActExactP, h1, this]
    · simp [ht, hs, ActExactP]
  · have : ¬ eqv x y := fun h => ht (eqv_tyOf h)
    by_cases hf : fl.types = true <;> simp [ht, hf, ActExactP, h2, h3, this]

theorem classifyItem_exactP {cfg : Cfg} (h : NoOpts cfg) (p pne pdt : Path) (sa oa x y : Val) :
    ActExactP (classifyItem cfg p pne pdt sa oa x y) x y := by
  rw [classifyItem_noOpts h]
  by_cases he : cfg.fl.equal = true
  · simpa [he] using classify_exactP_aux x y cfg.fl { selfEqual := [sa], otherEqual := [oa] } rfl
      { diffs := 1, notEqual := [⟨pne, x, y, .lst, cfg.fl.delta⟩] } { diffs := 1, diffTypes := [⟨pdt, x, y⟩] }
      { diffs := 1, notEqual := [⟨pne, x, y, .tup, false⟩] } rfl rfl rfl false true false false
  · simpa [he] using classify_exactP_aux x y cfg.fl Res.empty rfl
      { diffs := 1, notEqual := [⟨pne, x, y, .lst, cfg.fl.delta⟩] } { diffs := 1, diffTypes := [⟨pdt, x, y⟩] }
      { diffs := 1, notEqual := [⟨pne, x, y, .tup, false⟩] } rfl rfl rfl false true false false

theorem classifyEntry_exactP {cfg : Cfg} (h : NoOpts cfg) (full : Path) (x y : Val) :
    ActExactP (classifyEntry cfg full x y) x y := by
  rw [classifyEntry_noOpts h]
  exact classify_exactP_aux x y cfg.fl Res.empty rfl
      { diffs := 1, notEqual := [⟨full, x, y, .lst, cfg.fl.delta⟩] } { diffs := 1, diffTypes := [⟨full, x, y⟩] }
      { diffs := 1, notEqual := [⟨full, x, y, .tup, false⟩] } rfl rfl rfl false true false false


/-! ### keys under default options -/

/-- the key of a list item when there is no composite key -/
def key0 : Val → Str
  | .dict _ _ => []
  | v => jsonVal v

theorem keyOf_noOpts {cfg : Cfg} (h : NoOpts cfg) (p : Path) (i : Nat) (v : Val) : keyOf cfg p i v = .ok (key0 v) := by
  cases v <;> simp [keyOf, key0, h.ck, PatArg.pats, transformAt_noOpts h, recordFields, fieldsKey]

theorem keysOf_noOpts {cfg : Cfg} (h : NoOpts cfg) (p : Path) : ∀ (i : Nat) (xs : List Val), keysOf cfg p i xs = .ok (xs.map key0)
  | _, [] => rfl
  | i, x :: xs => by simp [keysOf, keyOf_noOpts h, keysOf_noOpts h p (i + 1) xs]

theorem key0_rec {v : Val} (h : isRec v = true) : key0 v = [] := by
  cases v <;> simp_all [isRec, key0]

theorem key0_nonrec {v : Val} (h : isRec v = false) : key0 v = jsonVal v := by
  cases v <;> simp_all [isRec, key0]

/-- the values of a list of keyed entries -/
def vals (l : List KE) : List Val := l.map (fun e => e.2.2)

theorem mkEntries_vals0 : ∀ (ys : List Val) (i : Nat), vals (mkEntries i (ys.map key0) ys) = ys
  | [], _ => rfl
  | y :: ys, i => by
    have := mkEntries_vals0 ys (i + 1)
    simp only [vals] at this
    simp [mkEntries, vals, this]

theorem mkEntries_keys0 : ∀ (ys : List Val) (i : Nat),
    (mkEntries i (ys.map key0) ys).map (fun e => e.1) = ys.map key0
  | [], _ => rfl
  | y :: ys, i => by simp [mkEntries, mkEntries_keys0 ys (i + 1)]

theorem mkEntries_key0 : ∀ (ys : List Val) (i : Nat), ∀ e ∈ mkEntries i (ys.map key0) ys,
    e.1 = key0 e.2.2 ∧ e.2.2 ∈ ys
  | [], _, e, he => by simp [mkEntries] at he
  | y :: ys, i, e, he => by
    simp only [List.map_cons, mkEntries, List.mem_cons] at he
    cases he with
    | inl h => subst h; simp
    | inr h =>
      have := mkEntries_key0 ys (i + 1) e h
      exact ⟨this.1, List.mem_cons_of_mem _ this.2⟩

theorem kfind_none : ∀ (orr : List KE) (k : Str), findKey k orr = none → ∀ e ∈ orr, e.1 ≠ k
  | [], _, _, e, he => by cases he
  | (k', i, v) :: rest, k, h, e, he => by
    simp only [findKey] at h
    split at h
    · cases h
    · rename_i hk
      cases he with
      | head => exact fun h' => hk h'.symm
      | tail _ he' => exact kfind_none rest k h e he'

theorem kfind_some : ∀ (orr : List KE) (k : Str) (j : Nat) (y : Val), findKey k orr = some (j, y) →
    ∃ l1 l2, orr = l1 ++ (k, j, y) :: l2 ∧ (∀ e ∈ l1, e.1 ≠ k) ∧ eraseKey k orr = l1 ++ l2
  | [], _, _, _, h => by simp [findKey] at h
  | (k', i, v) :: rest, k, j, y, h => by
    simp only [findKey] at h
    split at h
    · rename_i hk
      cases h
      subst hk
      exact ⟨[], rest, rfl, by simp, by simp [eraseKey]⟩
    · rename_i hk
      obtain ⟨l1, l2, h1, h2, h3⟩ := kfind_some rest k j y h
      refine ⟨(k', i, v) :: l1, l2, by simp [h1], ?_, by simp [eraseKey, hk, h3]⟩
      intro e he
      cases he with
      | head => exact fun h' => hk h'.symm
      | tail _ he' => exact h2 e he'

theorem kerase_length (k : Str) : ∀ sr : List KE, sr.length ≤ (eraseKey k sr).length + 1
  | [] => by simp [eraseKey]
  | (k', i, v) :: rest => by
    simp only [eraseKey]
    split
    · simp
    · have := kerase_length k rest
      simp; omega

theorem kerase_keys {k : Str} {ks : List Str} : ∀ {sr : List KE}, sr.map (fun e => e.1) = k :: ks →
    (eraseKey k sr).map (fun e => e.1) = ks
  | [], h => by simp at h
  | (k', i, v) :: rest, h => by
    simp only [List.map_cons, List.cons.injEq] at h
    simp [eraseKey, h.1, h.2]

/-- every entry of `self` that is still in the remaining list at the end is reported -/
theorem keyedWalk_diffs_ge (cfg : Cfg) (p : Path) (sa oa : Val) : ∀ (xs : List Val) (ks : List Str)
    (sr orr : List KE) (i : Nat) (r : Res),
    keyedWalk cfg p sa oa i xs ks sr orr = .ok r → sr.length ≤ r.diffs + xs.length
  | [], _, sr, orr, i, r, h => by
    simp only [keyedWalk] at h
    cases h
    simp [keyedTail]
  | _ :: _, [], _, _, i, r, h => by simp [keyedWalk] at h
  | x :: xs, k :: ks, sr, orr, i, r, h => by
    simp only [keyedWalk] at h
    cases hf : findKey k orr with
    | none =>
      rw [hf] at h
      have := keyedWalk_diffs_ge cfg p sa oa xs ks sr orr (i + 1) r h
      simp; omega
    | some jy =>
      obtain ⟨j, y⟩ := jy
      rw [hf] at h
      simp only at h
      have hl := kerase_length k sr
      cases hcl : classifyItem cfg p (p ++ [if i = j then PSeg.idx i else PSeg.idx2 i j]) (p ++ [if i = j then PSeg.idx i else PSeg.idx2 i j]) sa oa x y with
      | emit r0 s =>
        rw [hcl] at h
        simp only at h
        cases hr : keyedWalk cfg p sa oa (i + 1) xs ks (eraseKey k sr) (eraseKey k orr) with
        | error e => rw [hr] at h; cases h
        | ok r' =>
          rw [hr] at h; cases h
          have := keyedWalk_diffs_ge cfg p sa oa xs ks _ _ (i + 1) r' hr
          simp; omega
      | descend =>
        rw [hcl] at h
        simp only at h
        cases hs : sub cfg .item (p ++ [if i = j then PSeg.idx i else PSeg.idx2 i j]) x y with
        | error e => rw [hs] at h; cases h
        | ok r1 =>
          rw [hs] at h
          simp only at h
          cases hr : keyedWalk cfg p sa oa (i + 1) xs ks (eraseKey k sr) (eraseKey k orr) with
          | error e => rw [hr] at h; cases h
          | ok r' =>
            rw [hr] at h; cases h
            have := keyedWalk_diffs_ge cfg p sa oa xs ks _ _ (i + 1) r' hr
            simp; omega

/-! ### hypotheses travel to sub-trees -/

theorem listItemsL_mem : ∀ (ys : List Val) (y : Val), y ∈ ys →
    (∀ z ∈ listItems y, z ∈ listItemsL ys) ∧ (isRec y = false → y ∈ listItemsL ys)
  | [], _, h => by cases h
  | x :: xs, y, h => by
    cases h with
    | head =>
      constructor
      · intro z hz; simp [listItemsL, hz]
      · intro hr; simp [listItemsL, hr]
    | tail _ h' =>
      have := listItemsL_mem xs y h'
      constructor
      · intro z hz; simp [listItemsL, this.1 z hz]
      · intro hr; simp [listItemsL, this.2 hr]

theorem listItemsK_lookup : ∀ (kvs : List (Str × Val)) (k : Str) (w : Val), Val.lookup k kvs = some w →
    ∀ z ∈ listItems w, z ∈ listItemsK kvs
  | [], _, _, h => by simp [Val.lookup] at h
  | (k', v) :: rest, k, w, h => by
    simp only [Val.lookup] at h
    intro z hz
    split at h
    · cases h; simp [listItemsK, hz]
    · simp [listItemsK, listItemsK_lookup rest k w h z hz]

theorem isN0L_mem : ∀ (ys : List Val) (y : Val), isN0L ys = true → y ∈ ys → isN0 y = true
  | [], _, _, h => by cases h
  | x :: xs, y, hn, h => by
    simp only [isN0L, Bool.and_eq_true] at hn
    cases h with
    | head => exact hn.1
    | tail _ h' => exact isN0L_mem xs y hn.2 h'

/-- what is known about a remaining item of the right list -/
def GoodV (S : Val → Prop) (y : Val) : Prop :=
  isN0 y = true ∧ (∀ z ∈ listItems y, S z) ∧ (isRec y = false → S y)

/-! ### the list specification, one step at a time -/

/-- the specification of one list level in terms of the keys: records pairwise in order, the keys of the
non-record items equal as multisets -/
def ListSpec (xs ys : List Val) : Prop :=
  eqvRecs xs (ys.filter isRec) ∧
    ((xs.filter (fun v => !isRec v)).map jsonVal).Perm ((ys.filter (fun v => !isRec v)).map jsonVal)

theorem filter_rec_keys (l : List KE) (hinv : ∀ e ∈ l, e.1 = key0 e.2.2) (hne : ∀ e ∈ l, e.1 ≠ []) :
    (vals l).filter isRec = [] := by
  rw [List.filter_eq_nil_iff]
  intro v hv
  simp only [vals, List.mem_map] at hv
  obtain ⟨e, he, rfl⟩ := hv
  intro hr
  exact hne e he ((hinv e he).trans (key0_rec hr))

theorem spec_nil (ys : List Val) : ListSpec [] ys ↔ ys = [] := by
  simp only [ListSpec, eqvRecs, List.filter_nil, List.map_nil, List.nil_perm, List.map_eq_nil_iff,
    List.filter_eq_nil_iff]
  constructor
  · intro ⟨h1, h2⟩
    cases ys with
    | nil => rfl
    | cons y ys =>
      have a := h1 y (by simp)
      have b := h2 y (by simp)
      simp at a b
      simp [a] at b
  · intro h; subst h; simp

theorem spec_rec_none {x : Val} {xs ys : List Val} (hr : isRec x = true) (hn : ys.filter isRec = []) :
    ¬ ListSpec (x :: xs) ys := by
  simp [ListSpec, eqvRecs, hr, hn]

theorem spec_rec_some {x y : Val} {xs : List Val} {l1 l2 : List KE} {k : Str} {j : Nat}
    (hr : isRec x = true) (hry : isRec y = true) (hn : (vals l1).filter isRec = []) :
    ListSpec (x :: xs) (vals (l1 ++ (k, j, y) :: l2)) ↔ (eqv x y ∧ ListSpec xs (vals (l1 ++ l2))) := by
  simp only [vals] at hn
  simp only [ListSpec, vals, List.map_append, List.map_cons, List.filter_append, List.filter_cons, hr, hry, hn,
    eqvRecs, if_true, List.nil_append, Bool.not_true, Bool.false_eq_true, if_false]
  exact and_assoc

theorem spec_nonrec_none {x : Val} {xs ys : List Val} (hr : isRec x = false)
    (hn : ∀ y ∈ ys, isRec y = false → jsonVal y ≠ jsonVal x) :
    ¬ ListSpec (x :: xs) ys := by
  intro ⟨_, hp⟩
  have hm : jsonVal x ∈ ((x :: xs).filter (fun v => !isRec v)).map jsonVal := by simp [hr]
  have := hp.subset hm
  simp only [List.mem_map, List.mem_filter] at this
  obtain ⟨y, ⟨hy, hry⟩, hk⟩ := this
  exact hn y hy (by simpa using hry) hk

theorem spec_nonrec_some {x y : Val} {xs : List Val} {l1 l2 : List KE} {k : Str} {j : Nat}
    (hr : isRec x = false) (hry : isRec y = false) (hk : jsonVal x = jsonVal y) :
    ListSpec (x :: xs) (vals (l1 ++ (k, j, y) :: l2)) ↔ ListSpec xs (vals (l1 ++ l2)) := by
  simp only [ListSpec, vals, List.map_append, List.map_cons, List.filter_append, List.filter_cons, hr, hry,
    eqvRecs, Bool.false_eq_true, if_false, Bool.not_false, if_true, hk]
  constructor
  · intro ⟨h1, hp⟩
    exact ⟨h1, (List.perm_cons (jsonVal y)).1 (hp.trans List.perm_middle)⟩
  · intro ⟨h1, hp⟩
    exact ⟨h1, ((List.perm_cons (jsonVal y)).2 hp).trans List.perm_middle.symm⟩

/-! ### keys against structural equality -/

theorem countP_deq_keys {S : Val → Prop} (hS : KeyFaithful S) {z : Val} (hz : S z) :
    ∀ l : List Val, (∀ w ∈ l, S w) → l.countP (deq z) = (l.map jsonVal).count (jsonVal z)
  | [], _ => rfl
  | w :: l, h => by
    have ih := countP_deq_keys hS hz l (fun v hv => h v (List.mem_cons_of_mem _ hv))
    have hw := hS.iff z w hz (h w List.mem_cons_self)
    simp only [List.countP_cons, List.map_cons, List.count_cons, ih]
    by_cases hd : deq z w = true
    · have := hw.2 hd
      simp [hd, this]
    · have hne : ¬ jsonVal z = jsonVal w := fun e => hd (hw.1 e)
      have hne' : ¬ jsonVal w = jsonVal z := fun e => hne e.symm
      simp [hd, hne']

/-- under `KeyFaithful`, "the same items up to `deq`" is "the same keys" -/
theorem permD_iff_keys {S : Val → Prop} (hS : KeyFaithful S) (A B : List Val) (hA : ∀ z ∈ A, S z) (hB : ∀ z ∈ B, S z) :
    permD A B ↔ (A.map jsonVal).Perm (B.map jsonVal) := by
  rw [List.perm_iff_count]
  constructor
  · intro h k
    by_cases hk : k ∈ (A ++ B).map jsonVal
    · simp only [List.mem_map] at hk
      obtain ⟨z, hz, rfl⟩ := hk
      have hSz : S z := by
        rcases List.mem_append.1 hz with h1 | h1
        · exact hA z h1
        · exact hB z h1
      rw [← countP_deq_keys hS hSz A hA, ← countP_deq_keys hS hSz B hB]
      exact h z hz
    · have h1 : k ∉ A.map jsonVal := fun hm => hk (by simp only [List.map_append, List.mem_append]; exact Or.inl hm)
      have h2 : k ∉ B.map jsonVal := fun hm => hk (by simp only [List.map_append, List.mem_append]; exact Or.inr hm)
      rw [List.count_eq_zero_of_not_mem h1, List.count_eq_zero_of_not_mem h2]
  · intro h z hz
    have hSz : S z := by
      rcases List.mem_append.1 hz with h1 | h1
      · exact hA z h1
      · exact hB z h1
    rw [countP_deq_keys hS hSz A hA, countP_deq_keys hS hSz B hB]
    exact h (jsonVal z)

theorem listItemsL_nonrec (xs : List Val) : ∀ z ∈ xs.filter (fun v => !isRec v), z ∈ listItemsL xs := by
  intro z hz
  simp only [List.mem_filter, Bool.not_eq_true'] at hz
  exact (listItemsL_mem xs z hz.1).2 hz.2

/-- the specification of a list level (`eqv`) in terms of the keys -/
theorem eqv_list_keys {S : Val → Prop} (hS : KeyFaithful S) (c c' : Cls) (xs ys : List Val)
    (hx : ∀ z ∈ listItemsL xs, S z) (hy : ∀ z ∈ listItemsL ys, S z) :
    eqv (.list c xs) (.list c' ys) ↔ (c = c' ∧ ListSpec xs ys) := by
  rw [eqv_list, ListSpec, permD_iff_keys hS _ _ (fun z hz => hx z (listItemsL_nonrec xs z hz))
    (fun z hz => hy z (listItemsL_nonrec ys z hz))]

/-! ### structural equality implies the specification -/

mutual
theorem deq_eqv {S : Val → Prop} (hS : KeyFaithful S) (x y : Val) (hx : ∀ z ∈ listItems x, S z)
    (hy : ∀ z ∈ listItems y, S z) (h : deq x y = true) : eqv x y :=
  match x, y, hx, hy, h with
  | .list c xs, .list c' ys, hx, hy, h => by
    simp only [deq, Bool.and_eq_true, beq_iff_eq] at h
    simp only [listItems] at hx hy
    obtain ⟨h1, h2⟩ := deqL_spec hS xs ys hx hy h.2
    rw [eqv_list_keys hS c c' xs ys hx hy]
    exact ⟨h.1, h1, by rw [h2]⟩
  | .dict c kvs, .dict c' kvs', hx, hy, h => by
    simp only [deq, Bool.and_eq_true, beq_iff_eq, List.all_eq_true] at h
    simp only [listItems] at hx hy
    rw [eqv_dict]
    exact ⟨h.1.1, deqK_spec hS kvs kvs' hx hy h.1.2, h.2⟩
  | .none, y, _, _, h => by cases y <;> simp_all [deq, eqv]
  | .bool _, y, _, _, h => by cases y <;> simp_all [deq, eqv]
  | .int _, y, _, _, h => by cases y <;> simp_all [deq, eqv]
  | .flt _, y, _, _, h => by cases y <;> simp_all [deq, eqv]
  | .str _, y, _, _, h => by cases y <;> simp_all [deq, eqv]
  | .list _ _, .none, _, _, h => by simp [deq] at h
  | .list _ _, .bool _, _, _, h => by simp [deq] at h
  | .list _ _, .int _, _, _, h => by simp [deq] at h
  | .list _ _, .flt _, _, _, h => by simp [deq] at h
  | .list _ _, .str _, _, _, h => by simp [deq] at h
  | .list _ _, .dict _ _, _, _, h => by simp [deq] at h
  | .dict _ _, .none, _, _, h => by simp [deq] at h
  | .dict _ _, .bool _, _, _, h => by simp [deq] at h
  | .dict _ _, .int _, _, _, h => by simp [deq] at h
  | .dict _ _, .flt _, _, _, h => by simp [deq] at h
  | .dict _ _, .str _, _, _, h => by simp [deq] at h
  | .dict _ _, .list _ _, _, _, h => by simp [deq] at h
termination_by structural x

theorem deqL_spec {S : Val → Prop} (hS : KeyFaithful S) (xs ys : List Val) (hx : ∀ z ∈ listItemsL xs, S z)
    (hy : ∀ z ∈ listItemsL ys, S z) (h : deqL xs ys = true) :
    eqvRecs xs (ys.filter isRec) ∧
      (xs.filter (fun v => !isRec v)).map jsonVal = (ys.filter (fun v => !isRec v)).map jsonVal :=
  match xs, ys, hx, hy, h with
  | [], [], _, _, _ => by simp [eqvRecs]
  | [], _ :: _, _, _, h => by simp [deqL] at h
  | _ :: _, [], _, _, h => by simp [deqL] at h
  | x :: xs, y :: ys, hx, hy, h => by
    simp only [deqL, Bool.and_eq_true] at h
    have hx1 : ∀ z ∈ listItems x, S z := fun z hz => hx z (by simp [listItemsL, hz])
    have hx2 : ∀ z ∈ listItemsL xs, S z := fun z hz => hx z (by simp [listItemsL, hz])
    have hy1 : ∀ z ∈ listItems y, S z := fun z hz => hy z (by simp [listItemsL, hz])
    have hy2 : ∀ z ∈ listItemsL ys, S z := fun z hz => hy z (by simp [listItemsL, hz])
    obtain ⟨ih1, ih2⟩ := deqL_spec hS xs ys hx2 hy2 h.2
    have hrr : isRec x = isRec y := by
      have := deq_tyOf h.1
      cases x <;> cases y <;> simp_all [tyOf, isRec]
    cases hr : isRec x with
    | true =>
      have hry : isRec y = true := by rw [← hrr]; exact hr
      have := deq_eqv hS x y hx1 hy1 h.1
      simp [eqvRecs, hr, hry, this, ih1, ih2]
    | false =>
      have hry : isRec y = false := by rw [← hrr]; exact hr
      have hSx : S x := hx x (by simp [listItemsL, hr])
      have hSy : S y := hy y (by simp [listItemsL, hry])
      have hk : jsonVal x = jsonVal y := (hS.iff x y hSx hSy).2 h.1
      simp [eqvRecs, hr, hry, ih1, ih2, hk]
termination_by structural xs

theorem deqK_spec {S : Val → Prop} (hS : KeyFaithful S) (kvs o : List (Str × Val)) (hx : ∀ z ∈ listItemsK kvs, S z)
    (hy : ∀ z ∈ listItemsK o, S z) (h : deqK kvs o = true) : eqvK kvs o :=
  match kvs, hx, h with
  | [], _, _ => by simp [eqvK]
  | (k, v) :: rest, hx, h => by
    simp only [deqK, Bool.and_eq_true] at h
    have hx1 : ∀ z ∈ listItems v, S z := fun z hz => hx z (by simp [listItemsK, hz])
    have hx2 : ∀ z ∈ listItemsK rest, S z := fun z hz => hx z (by simp [listItemsK, hz])
    have ih := deqK_spec hS rest o hx2 hy h.2
    cases hl : Val.lookup k o with
    | none => rw [hl] at h; simp at h
    | some w =>
      rw [hl] at h
      have := deq_eqv hS v w hx1 (fun z hz => hy z (listItemsK_lookup o k w hl z hz)) h.1
      simp [eqvK, hl, this, ih]
termination_by structural kvs
end

/-! ### dictionaries -/

/-- the common keys carry equivalent values (keys missing on the right are skipped) -/
def commonP : List (Str × Val) → List (Str × Val) → Prop
  | [], _ => True
  | (k, v) :: rest, o =>
    (match Val.lookup k o with
     | some w => eqv v w
     | none => True) ∧ commonP rest o

theorem eqvK_eq_common : ∀ (kvs o : List (Str × Val)),
    eqvK kvs o ↔ (commonP kvs o ∧ kvs.all (fun kv => hasKey kv.1 o) = true)
  | [], _ => by simp [eqvK, commonP]
  | (k, v) :: rest, o => by
    simp only [eqvK, commonP, List.all_cons, hasKey, eqvK_eq_common rest o, Bool.and_eq_true]
    cases hl : Val.lookup k o with
    | none => simp
    | some w =>
      simp only [Option.isSome_some, true_and]
      exact and_assoc.symm


/-! ### the keyed comparison is exact -/

mutual
theorem sub_keyed_exact (cfg : Cfg) (h : NoOpts cfg) (hd : cfg.direct = false) (S : Val → Prop) (hS : KeyFaithful S)
    (site : Site) (p : Path) (v w : Val) (hv : isN0 v = true) (hw : isN0 w = true)
    (hiv : ∀ z ∈ listItems v, S z) (hiw : ∀ z ∈ listItems w, S z)
    (ht : tyOf v = tyOf w) (hs : isPyScalar v = false) :
      ∃ r, sub cfg site p v w = .ok r ∧ (r.diffs = 0 ↔ eqv v w) :=
  match v, w, hv, hw, hiv, hiw, ht, hs with
  | .list c xs, w, hv, hw, hiv, hiw, ht, _ => by
    cases w with
    | list c' ys =>
      simp only [isN0, Bool.and_eq_true, beq_iff_eq] at hv hw
      obtain ⟨hc, hxs⟩ := hv
      obtain ⟨hc', hys⟩ := hw
      subst hc; subst hc'
      simp only [listItems] at hiv hiw
      have ho : ∀ e ∈ mkEntries 0 (ys.map key0) ys, e.1 = key0 e.2.2 ∧ GoodV S e.2.2 := by
        intro e he
        have hm := mkEntries_key0 ys 0 e he
        have hl := listItemsL_mem ys e.2.2 hm.2
        exact ⟨hm.1, isN0L_mem ys _ hys hm.2, fun z hz => hiw z (hl.1 z hz), fun hr => hiw _ (hl.2 hr)⟩
      obtain ⟨r, hr, hiff⟩ := keyedWalk_keyed_exact cfg h hd S hS p (.list .n0 xs) (.list .n0 ys) xs
        (mkEntries 0 (xs.map key0) xs) (mkEntries 0 (ys.map key0) ys) 0 hxs hiv ho
      refine ⟨r, ?_, ?_⟩
      · simp [sub, hd, excluded_noOpts h, keysOf_noOpts h, hr]
      · rw [hiff (mkEntries_keys0 xs 0), mkEntries_vals0, eqv_list_keys hS _ _ xs ys hiv hiw]
        simp
    | _ => simp [tyOf] at ht
  | .dict c kvs, w, hv, hw, hiv, hiw, ht, _ => by
    cases w with
    | dict c' kvs' =>
      simp only [isN0, Bool.and_eq_true, beq_iff_eq] at hv hw
      obtain ⟨hc, hxs⟩ := hv
      obtain ⟨hc', hys⟩ := hw
      subst hc; subst hc'
      simp only [listItems] at hiv hiw
      obtain ⟨r, hr, hiff⟩ := dictWalk_keyed_exact cfg h hd S hS p (.dict .n0 kvs) (.dict .n0 kvs') kvs kvs' kvs true
        hxs hys hiv hiw
      refine ⟨r, ?_, ?_⟩
      · simp [sub, hr]
      · rw [hiff, dictTail_diffs_noOpts h]
        simp only [eqv, true_and, eqvK_eq_common, List.all_eq_true]
        exact and_assoc.symm
    | _ => simp [tyOf] at ht
  | .none, w, _, _, _, _, ht, _ => by
    cases w <;> simp [tyOf] at ht
    exact ⟨Res.empty, by simp [sub], by simp [eqv]⟩
  | .bool _, _, _, _, _, _, _, hs => by simp [isPyScalar] at hs
  | .int _, _, _, _, _, _, _, hs => by simp [isPyScalar] at hs
  | .flt _, _, _, _, _, _, _, hs => by simp [isPyScalar] at hs
  | .str _, _, _, _, _, _, _, hs => by simp [isPyScalar] at hs
termination_by structural v

theorem dictWalk_keyed_exact (cfg : Cfg) (h : NoOpts cfg) (hd : cfg.direct = false) (S : Val → Prop) (hS : KeyFaithful S)
    (p : Path) (sa oa : Val) (skvs okvs : List (Str × Val))
    (kvs : List (Str × Val)) (still : Bool) (hk : isN0K kvs = true) (ho : isN0K okvs = true)
    (hik : ∀ z ∈ listItemsK kvs, S z) (hio : ∀ z ∈ listItemsK okvs, S z) :
      ∃ r, dictWalk cfg p sa oa skvs okvs still kvs = .ok r ∧
        (r.diffs = 0 ↔ (commonP kvs okvs ∧ (dictTail cfg p sa oa skvs okvs true).diffs = 0)) :=
  match kvs, still, hk, ho, hik, hio with
  | [], still, _, _, _, _ => by
    refine ⟨_, by rw [dictWalk], ?_⟩
    simp [commonP, dictTail]
  | (k, v) :: rest, still, hk, ho, hik, hio => by
    simp only [isN0K, Bool.and_eq_true] at hk
    have hik1 : ∀ z ∈ listItems v, S z := fun z hz => hik z (by simp [listItemsK, hz])
    have hik2 : ∀ z ∈ listItemsK rest, S z := fun z hz => hik z (by simp [listItemsK, hz])
    cases hl : Val.lookup k okvs with
    | none =>
      obtain ⟨r, hr, hiff⟩ := dictWalk_keyed_exact cfg h hd S hS p sa oa skvs okvs rest still hk.2 ho hik2 hio
      refine ⟨r, by simp [dictWalk, hl, hr], ?_⟩
      simpa [commonP, hl] using hiff
    | some w =>
      have hw := isN0K_lookup okvs k w ho hl
      have hiw : ∀ z ∈ listItems w, S z := fun z hz => hio z (listItemsK_lookup okvs k w hl z hz)
      have hce := classifyEntry_exactP h (p ++ [.key k]) v w
      cases hcl : classifyEntry cfg (p ++ [.key k]) v w with
      | emit r0 s =>
        rw [hcl] at hce
        obtain ⟨r, hr, hiff⟩ := dictWalk_keyed_exact cfg h hd S hS p sa oa skvs okvs rest (still && s) hk.2 ho hik2 hio
        refine ⟨r0 ++ r, by simp [dictWalk, hl, hcl, hr], ?_⟩
        simp only [ActExactP] at hce
        simp only [append_diffs, Nat.add_eq_zero_iff, hiff, commonP, hl, hce]
        exact and_assoc.symm
      | descend =>
        rw [hcl] at hce
        obtain ⟨r1, hr1, hiff1⟩ := sub_keyed_exact cfg h hd S hS .entry (p ++ [.key k]) v w hk.1 hw hik1 hiw hce.1 hce.2
        obtain ⟨r, hr, hiff⟩ := dictWalk_keyed_exact cfg h hd S hS p sa oa skvs okvs rest still hk.2 ho hik2 hio
        refine ⟨r1 ++ r, by simp [dictWalk, hl, hcl, hr1, hr], ?_⟩
        simp only [append_diffs, Nat.add_eq_zero_iff, hiff, hiff1, commonP, hl]
        exact and_assoc.symm
termination_by structural kvs

theorem keyedWalk_keyed_exact (cfg : Cfg) (h : NoOpts cfg) (hd : cfg.direct = false) (S : Val → Prop) (hS : KeyFaithful S)
    (p : Path) (sa oa : Val) (xs : List Val) (sr orr : List KE) (i : Nat)
    (hx : isN0L xs = true) (hix : ∀ z ∈ listItemsL xs, S z)
    (ho : ∀ e ∈ orr, e.1 = key0 e.2.2 ∧ GoodV S e.2.2) :
      ∃ r, keyedWalk cfg p sa oa i xs (xs.map key0) sr orr = .ok r ∧
        (sr.map (fun e => e.1) = xs.map key0 → (r.diffs = 0 ↔ ListSpec xs (vals orr))) :=
  match xs, sr, orr, i, hx, hix, ho with
  | [], sr, orr, i, _, _, _ => by
    refine ⟨keyedTail p sr orr, by simp [keyedWalk], ?_⟩
    intro hsr
    simp only [List.map_nil, List.map_eq_nil_iff] at hsr
    subst hsr
    rw [spec_nil]
    simp [keyedTail, vals]
  | x :: xs, sr, orr, i, hx, hix, ho => by
    simp only [isN0L, Bool.and_eq_true] at hx
    have hix1 : ∀ z ∈ listItems x, S z := fun z hz => hix z (by simp [listItemsL, hz])
    have hix2 : ∀ z ∈ listItemsL xs, S z := fun z hz => hix z (by simp [listItemsL, hz])
    have hxS : isRec x = false → S x := fun hr => hix x (by simp [listItemsL, hr])
    have hinv : ∀ l : List KE, (∀ e ∈ l, e ∈ orr) → ∀ e ∈ l, e.1 = key0 e.2.2 := fun l hl e he => (ho e (hl e he)).1
    cases hf : findKey (key0 x) orr with
    | none =>
      obtain ⟨r, hr, _⟩ := keyedWalk_keyed_exact cfg h hd S hS p sa oa xs sr orr (i + 1) hx.2 hix2 ho
      refine ⟨r, by simp [keyedWalk, hf, hr], ?_⟩
      intro hsr
      have hge := keyedWalk_diffs_ge cfg p sa oa xs _ sr orr (i + 1) r hr
      have hlen : sr.length = xs.length + 1 := by
        have := congrArg List.length hsr
        simpa using this
      have hne := kfind_none orr _ hf
      have hnot : ¬ ListSpec (x :: xs) (vals orr) := by
        cases hrec : isRec x with
        | true =>
          rw [key0_rec hrec] at hne
          exact spec_rec_none hrec (filter_rec_keys orr (fun e he => (ho e he).1) hne)
        | false =>
          apply spec_nonrec_none hrec
          intro y hm hry hk
          simp only [vals, List.mem_map] at hm
          obtain ⟨e, he, hex⟩ := hm
          exact hne e he (by rw [(ho e he).1, hex, key0_nonrec hry, key0_nonrec hrec, hk])
      constructor
      · intro h0; omega
      · intro hsp; exact absurd hsp hnot
    | some jy =>
      obtain ⟨j, y⟩ := jy
      obtain ⟨l1, l2, horr, hl1, her⟩ := kfind_some orr _ j y hf
      have hmem : (key0 x, j, y) ∈ orr := by rw [horr]; simp
      have hy : GoodV S y := (ho _ hmem).2
      have hky : key0 x = key0 y := (ho _ hmem).1
      have ho' : ∀ e ∈ eraseKey (key0 x) orr, e.1 = key0 e.2.2 ∧ GoodV S e.2.2 := by
        rw [her]
        intro e he
        apply ho
        rw [horr]
        simp only [List.mem_append, List.mem_cons] at he ⊢
        cases he with
        | inl h1 => exact Or.inl h1
        | inr h1 => exact Or.inr (Or.inr h1)
      obtain ⟨r', hr', hiff'⟩ := keyedWalk_keyed_exact cfg h hd S hS p sa oa xs (eraseKey (key0 x) sr)
        (eraseKey (key0 x) orr) (i + 1) hx.2 hix2 ho'
      have hpair : ∃ r1, keyedWalk cfg p sa oa i (x :: xs) ((x :: xs).map key0) sr orr = .ok (r1 ++ r') ∧
          (r1.diffs = 0 ↔ eqv x y) := by
        have hce := classifyItem_exactP h p (p ++ [if i = j then PSeg.idx i else PSeg.idx2 i j]) (p ++ [if i = j then PSeg.idx i else PSeg.idx2 i j]) sa oa x y
        cases hcl : classifyItem cfg p (p ++ [if i = j then PSeg.idx i else PSeg.idx2 i j]) (p ++ [if i = j then PSeg.idx i else PSeg.idx2 i j]) sa oa x y with
        | emit r0 s =>
          rw [hcl] at hce
          exact ⟨r0, by simp [keyedWalk, hf, hcl, hr'], hce⟩
        | descend =>
          rw [hcl] at hce
          obtain ⟨r1, hr1, hiff1⟩ := sub_keyed_exact cfg h hd S hS .item
            (p ++ [if i = j then PSeg.idx i else PSeg.idx2 i j]) x y hx.1 hy.1 hix1 hy.2.1 hce.1 hce.2
          exact ⟨r1, by simp [keyedWalk, hf, hcl, hr1, hr'], hiff1⟩
      obtain ⟨r1, hr1, hiff1⟩ := hpair
      refine ⟨r1 ++ r', hr1, ?_⟩
      intro hsr
      have hiff2 := hiff' (kerase_keys hsr)
      rw [her] at hiff2
      rw [append_diffs, Nat.add_eq_zero_iff, hiff1, hiff2, horr]
      cases hrec : isRec x with
      | true =>
        have hk0 : key0 y = [] := by rw [← hky, key0_rec hrec]
        have hry : isRec y = true := by
          cases hry : isRec y with
          | true => rfl
          | false =>
            rw [key0_nonrec hry] at hk0
            exact absurd hk0 (hS.ne y (hy.2.2 hry))
        rw [key0_rec hrec] at hl1
        have hn := filter_rec_keys l1 (hinv l1 (fun e he => by rw [horr]; simp [he])) hl1
        exact (spec_rec_some hrec hry hn).symm
      | false =>
        have hkx : key0 x = jsonVal x := key0_nonrec hrec
        have hry : isRec y = false := by
          cases hry : isRec y with
          | false => rfl
          | true =>
            rw [key0_rec hry, hkx] at hky
            exact absurd hky (hS.ne x (hxS hrec))
        have hk : jsonVal x = jsonVal y := by rw [← hkx, hky, key0_nonrec hry]
        have hdq : deq x y = true := (hS.iff x y (hxS hrec) (hy.2.2 hry)).1 hk
        have hxy : eqv x y := deq_eqv hS x y hix1 hy.2.1 hdq
        rw [spec_nonrec_some hrec hry hk]
        simp [hxy]
termination_by structural xs
end


/-! ### the entry point -/

/-- the default comparison says "equal" exactly for trees that are equal up to the order of the
non-record items of each list -/
theorem default_exact (fl : Flags) (a b : Val) (ha : isN0 a = true) (hb : isN0 b = true) (hr : RootPair a b)
    (hc : KeyFaithfulOn a b) :
    ∃ r, compareTop (Cfg.default fl false) a b = .ok r ∧ (r.diffs = 0 ↔ eqv a b) := by
  rw [compareTop_eq_sub _ a b hr]
  exact sub_keyed_exact _ (noOpts_default fl false) rfl _ hc .entry [] a b ha hb
    (fun z hz => List.mem_append_left _ hz) (fun z hz => List.mem_append_right _ hz)
    (rootPair_ty hr).1 (rootPair_ty hr).2

/-! ### trees with unique dictionary keys are equivalent to themselves -/

def noDupK : List (Str × Val) → Bool
  | [] => true
  | (k, _) :: rest => !hasKey k rest && noDupK rest

mutual
/-- no dictionary of the tree repeats a key (true of every Python `dict`) -/
def uniqKeys : Val → Bool
  | .list _ xs => uniqKeysL xs
  | .dict _ kvs => noDupK kvs && uniqKeysK kvs
  | _ => true
def uniqKeysL : List Val → Bool
  | [] => true
  | x :: xs => uniqKeys x && uniqKeysL xs
def uniqKeysK : List (Str × Val) → Bool
  | [] => true
  | (_, v) :: rest => uniqKeys v && uniqKeysK rest
end

theorem hasKey_mem : ∀ (kvs : List (Str × Val)) (k : Str) (v : Val), (k, v) ∈ kvs → hasKey k kvs = true
  | [], _, _, h => by cases h
  | (k', v') :: rest, k, v, h => by
    simp only [hasKey, Val.lookup]
    split
    · rfl
    · cases h with
      | head => rename_i hk; exact absurd rfl hk
      | tail _ h' => exact hasKey_mem rest k v h'

theorem noDupK_lookup : ∀ (kvs : List (Str × Val)) (k : Str) (v : Val), noDupK kvs = true → (k, v) ∈ kvs →
    Val.lookup k kvs = some v
  | [], _, _, _, h => by cases h
  | (k', v') :: rest, k, v, hn, h => by
    simp only [noDupK, Bool.and_eq_true, Bool.not_eq_true'] at hn
    simp only [Val.lookup]
    cases h with
    | head => simp
    | tail _ h' =>
      split
      · rename_i hk
        subst hk
        have := hasKey_mem rest k v h'
        rw [hn.1] at this
        cases this
      · exact noDupK_lookup rest k v hn.2 h'

mutual
theorem eqv_refl_uniq (v : Val) (hu : uniqKeys v = true) : eqv v v :=
  match v, hu with
  | .list c xs, hu => by
    simp only [uniqKeys] at hu
    simp only [eqv, true_and]
    exact ⟨eqvRecs_refl_uniq xs hu, fun _ _ => rfl⟩
  | .dict c kvs, hu => by
    simp only [uniqKeys, Bool.and_eq_true] at hu
    simp only [eqv, true_and]
    refine ⟨eqvK_refl_uniq kvs kvs hu.2 (fun kv hkv => noDupK_lookup kvs kv.1 kv.2 hu.1 hkv), ?_⟩
    intro kv hkv
    exact hasKey_mem kvs kv.1 kv.2 hkv
  | .none, _ => by simp [eqv]
  | .bool _, _ => by simp [eqv]
  | .int _, _ => by simp [eqv]
  | .flt _, _ => by simp [eqv]
  | .str _, _ => by simp [eqv]
termination_by structural v

theorem eqvRecs_refl_uniq (xs : List Val) (hu : uniqKeysL xs = true) : eqvRecs xs (xs.filter isRec) :=
  match xs, hu with
  | [], _ => by simp [eqvRecs]
  | x :: xs, hu => by
    simp only [uniqKeysL, Bool.and_eq_true] at hu
    have ih := eqvRecs_refl_uniq xs hu.2
    cases hr : isRec x with
    | true =>
      have hx := eqv_refl_uniq x hu.1
      simp [eqvRecs, hr, hx, ih]
    | false => simp [eqvRecs, hr, ih]
termination_by structural xs

theorem eqvK_refl_uniq (kvs o : List (Str × Val)) (hu : uniqKeysK kvs = true)
    (hl : ∀ kv ∈ kvs, Val.lookup kv.1 o = some kv.2) : eqvK kvs o :=
  match kvs, hu, hl with
  | [], _, _ => by simp [eqvK]
  | (k, v) :: rest, hu, hl => by
    simp only [uniqKeysK, Bool.and_eq_true] at hu
    have h1 := hl (k, v) (by simp)
    simp only at h1
    have hx := eqv_refl_uniq v hu.1
    have ih := eqvK_refl_uniq rest o hu.2 (fun kv hkv => hl kv (List.mem_cons_of_mem _ hkv))
    simp [eqvK, h1, hx, ih]
termination_by structural kvs
end

mutual
theorem uniq_items (v : Val) (hu : uniqKeys v = true) : ∀ z ∈ listItems v, uniqKeys z = true :=
  match v, hu with
  | .list c xs, hu => by
    simp only [uniqKeys] at hu
    simpa [listItems] using uniq_itemsL xs hu
  | .dict c kvs, hu => by
    simp only [uniqKeys, Bool.and_eq_true] at hu
    simpa [listItems] using uniq_itemsK kvs hu.2
  | .none, _ => by simp [listItems]
  | .bool _, _ => by simp [listItems]
  | .int _, _ => by simp [listItems]
  | .flt _, _ => by simp [listItems]
  | .str _, _ => by simp [listItems]
termination_by structural v

theorem uniq_itemsL (xs : List Val) (hu : uniqKeysL xs = true) : ∀ z ∈ listItemsL xs, uniqKeys z = true :=
  match xs, hu with
  | [], _ => by simp [listItemsL]
  | x :: xs, hu => by
    simp only [uniqKeysL, Bool.and_eq_true] at hu
    intro z hz
    simp only [listItemsL, List.mem_append] at hz
    cases hz with
    | inl hz =>
      cases hz with
      | inl hz =>
        split at hz
        · cases hz
        · simp only [List.mem_singleton] at hz; subst hz; exact hu.1
      | inr hz => exact uniq_items x hu.1 z hz
    | inr hz => exact uniq_itemsL xs hu.2 z hz
termination_by structural xs

theorem uniq_itemsK (kvs : List (Str × Val)) (hu : uniqKeysK kvs = true) : ∀ z ∈ listItemsK kvs, uniqKeys z = true :=
  match kvs, hu with
  | [], _ => by simp [listItemsK]
  | (k, v) :: rest, hu => by
    simp only [uniqKeysK, Bool.and_eq_true] at hu
    intro z hz
    simp only [listItemsK, List.mem_append] at hz
    cases hz with
    | inl hz => exact uniq_items v hu.1 z hz
    | inr hz => exact uniq_itemsK rest hu.2 z hz
termination_by structural kvs
end

/-- a tree (with unique dictionary keys) compared with itself reports nothing -/
theorem default_refl (fl : Flags) (a : Val) (ha : isN0 a = true) (hr : RootPair a a)
    (hua : uniqKeys a = true) (hc : KeyFaithfulOn a a) :
    ∃ r, compareTop (Cfg.default fl false) a a = .ok r ∧ r.diffs = 0 := by
  obtain ⟨r, h1, h2⟩ := default_exact fl a a ha ha hr hc
  exact ⟨r, h1, h2.2 (eqv_refl_uniq a hua)⟩


/-! ### the witnesses of the fixed findings, and why a hypothesis on the key remains in the model -/

/-- `{'a': [1, '1']}` -/
def cexA : Val := .dict .n0 [(['a'], .list .n0 [.int 1, .str ['1']])]
/-- `{'a': ['1', 1]}` -/
def cexB : Val := .dict .n0 [(['a'], .list .n0 [.str ['1'], .int 1])]

/-- fixed finding C07-b: `{'a': [1, '1']}` and `{'a': ['1', 1]}` are equal up to order; the keys `1` and `"1"`
differ, nothing is reported (before the fix: `str(1) == str('1')` paired `1` with `'1'`, two differences) -/
theorem collision_fixed :
    (compareTop (Cfg.default Flags.init false) cexA cexB).map Res.diffs = .ok 0 ∧
      isN0 cexA = true ∧ isN0 cexB = true ∧ RootPair cexA cexB ∧ uniqKeys cexA = true ∧ uniqKeys cexB = true := by
  refine ⟨by decide, by decide, by decide, trivial, by decide, by decide⟩

/-- `['', {}]` -/
def cexE1 : Val := .list .n0 [.str [], .dict .n0 []]
/-- `[{}, '']` -/
def cexE2 : Val := .list .n0 [.dict .n0 [], .str []]

/-- fixed: the empty string has the key `""`, not the key `''` of a record: `['', {}]` vs `[{}, '']` -/
theorem emptykey_fixed :
    (compareTop (Cfg.default Flags.init false) cexE1 cexE2).map Res.diffs = .ok 0 := by decide

/-- `{'a': [[{'x': 1, 'y': 2}]]}` -/
def cexO1 : Val := .dict .n0 [(['a'], .list .n0 [.list .n0 [.dict .n0 [(['x'], .int 1), (['y'], .int 2)]]])]
/-- `{'a': [[{'y': 2, 'x': 1}]]}` -/
def cexO2 : Val := .dict .n0 [(['a'], .list .n0 [.list .n0 [.dict .n0 [(['y'], .int 2), (['x'], .int 1)]]])]

/-- fixed finding C07-c: the key of a list nested in a list does not depend on the order of dictionary keys -/
theorem keyorder_fixed :
    (compareTop (Cfg.default Flags.init false) cexO1 cexO2).map Res.diffs = .ok 0 ∧
      jsonVal (.list .n0 [.dict .n0 [(['x'], .int 1), (['y'], .int 2)]])
        = jsonVal (.list .n0 [.dict .n0 [(['y'], .int 2), (['x'], .int 1)]]) ∧
      deq (.list .n0 [.dict .n0 [(['x'], .int 1), (['y'], .int 2)]])
        (.list .n0 [.dict .n0 [(['y'], .int 2), (['x'], .int 1)]]) = true := by decide

/-- `[1.0-with-the-lexeme-"1", 1]` — not a Python value: the `repr` of a float is never `1` -/
def cexF1 : Val := .list .n0 [.flt ['1'], .int 1]
def cexF2 : Val := .list .n0 [.int 1, .flt ['1']]

/-- why `KeyFaithful` remains a hypothesis in the model: floats are opaque lexemes, and a lexeme that is not the
`repr` of a float (`1`) collides with an `int` -/
theorem float_lexeme_cex :
    (compareTop (Cfg.default Flags.init false) cexF1 cexF2).map Res.diffs = .ok 2 ∧
      isN0 cexF1 = true ∧ isN0 cexF2 = true ∧ RootPair cexF1 cexF2 ∧ uniqKeys cexF1 = true ∧ uniqKeys cexF2 = true ∧
      jsonVal (.flt ['1']) = jsonVal (.int 1) := by
  refine ⟨by decide, by decide, by decide, trivial, by decide, by decide, by decide⟩

theorem float_lexeme_eqv : eqv cexF1 cexF2 := by
  simp only [cexF1, cexF2, eqv, eqvRecs, isRec, List.filter, true_and]
  refine ⟨by simp [eqvRecs, isRec], ?_⟩
  intro z _
  simp only [Bool.not_false, List.countP_cons, List.countP_nil]
  omega

end N0.Compare
