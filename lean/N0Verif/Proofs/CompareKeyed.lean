import N0Verif.Proofs.Compare
/-!
The default (keyed, unordered) comparison — `cfg = Cfg.default fl false` — reports no difference
iff the two trees are equal up to the order of the non-record items inside each list
(`eqv`), provided `str()` does not collide on the non-record list items (finding C07-b) and the
non-record list items are self-equivalent (true whenever dictionaries have unique keys).
-/
namespace N0.Compare
open N0

/-! ### the specification -/

/-- a record = a dictionary item of a list -/
def isRec : Val → Bool
  | .dict _ _ => true
  | _ => false

mutual
/-- equality up to the order of the non-record items of every list; non-record items are compared
with strict equality, records are paired in order, dictionaries by key -/
def eqv : Val → Val → Prop
  | .list c xs, w =>
    match w with
    | .list c' ys => c = c' ∧ eqvRecs xs (ys.filter isRec) ∧
        (xs.filter (fun v => !isRec v)).Perm (ys.filter (fun v => !isRec v))
    | _ => False
  | .dict c kvs, w =>
    match w with
    | .dict c' kvs' => c = c' ∧ eqvK kvs kvs' ∧ ∀ kv ∈ kvs', hasKey kv.1 kvs = true
    | _ => False
  | .none, w => Val.none = w
  | .bool b, w => Val.bool b = w
  | .int i, w => Val.int i = w
  | .flt r, w => Val.flt r = w
  | .str s, w => Val.str s = w
/-- the records of the left list, in order, are pairwise `eqv` to the given records -/
def eqvRecs : List Val → List Val → Prop
  | [], rs => rs = []
  | x :: xs, rs =>
    if isRec x then
      (match rs with
       | r :: rs' => eqv x r ∧ eqvRecs xs rs'
       | [] => False)
    else eqvRecs xs rs
/-- every entry of the left dictionary has an `eqv` partner under the same key -/
def eqvK : List (Str × Val) → List (Str × Val) → Prop
  | [], _ => True
  | (k, v) :: rest, o =>
    (match Val.lookup k o with
     | some w => eqv v w
     | none => False) ∧ eqvK rest o
end

mutual
/-- all non-record items of all lists of a tree, at any depth -/
def listItems : Val → List Val
  | .list _ xs => listItemsL xs
  | .dict _ kvs => listItemsK kvs
  | _ => []
def listItemsL : List Val → List Val
  | [] => []
  | x :: xs => (if isRec x then [] else [x]) ++ listItems x ++ listItemsL xs
def listItemsK : List (Str × Val) → List Val
  | [] => []
  | (_, v) :: rest => listItems v ++ listItemsK rest
end

/-- `str()` is injective on the non-record list items of both trees and never yields the empty
string (the key of every record) -/
def NoStrCollision (a b : Val) : Prop :=
  (∀ x ∈ listItems a ++ listItems b, ∀ y ∈ listItems a ++ listItems b, pyStr x = pyStr y → x = y) ∧
  (∀ x ∈ listItems a ++ listItems b, pyStr x ≠ [])

/-- every non-record list item is equivalent to itself (fails only for dictionaries with a repeated key) -/
def ItemsRefl (a b : Val) : Prop := ∀ x ∈ listItems a ++ listItems b, eqv x x

/-- the same statement for an abstract set of values -/
structure StrInj (S : Val → Prop) : Prop where
  inj : ∀ x y, S x → S y → pyStr x = pyStr y → x = y
  ne : ∀ x, S x → pyStr x ≠ []
  refl : ∀ x, S x → eqv x x

/-! ### leaves -/

theorem eqv_scalar {x y : Val} (hs : isPyScalar x = true) : eqv x y ↔ x = y := by
  cases x <;> simp_all [isPyScalar, eqv]

theorem eqv_tyOf {x y : Val} (h : eqv x y) : tyOf x = tyOf y := by
  cases x <;> cases y <;> simp_all [eqv, tyOf]

def ActExactP (a : Act) (x y : Val) : Prop :=
  match a with
  | .emit r _ => (r.diffs = 0 ↔ eqv x y)
  | .descend => tyOf x = tyOf y ∧ isPyScalar x = false

theorem classify_exactP_aux (x y : Val) (fl : Flags) (eq0 : Res) (h0 : eq0.diffs = 0) (ne1 dt1 tu1 : Res)
    (h1 : ne1.diffs = 1) (h2 : dt1.diffs = 1) (h3 : tu1.diffs = 1) (s1 s2 s3 s4 : Bool) :
    ActExactP
      (if tyOf x = tyOf y then
        if isPyScalar x then
          if x ≠ y then .emit ne1 s1 else .emit eq0 s2
        else .descend
      else if fl.types then .emit dt1 s3 else .emit tu1 s4) x y := by
  by_cases ht : tyOf x = tyOf y
  · by_cases hs : isPyScalar x = true
    · by_cases hxy : x = y
      · subst hxy
        simp [hs, ActExactP, h0, (eqv_scalar hs).2 rfl]
      · have : ¬ eqv x y := fun h => hxy ((eqv_scalar hs).1 h)
        simp [ht, hs, hxy, ActExactP, h1, this]
    · simp [ht, hs, ActExactP]
  · have : ¬ eqv x y := fun h => ht (eqv_tyOf h)
    by_cases hf : fl.types = true <;> simp [ht, hf, ActExactP, h2, h3, this]

theorem classifyItem_exactP {cfg : Cfg} (h : NoOpts cfg) (p pne pdt : Path) (sa oa x y : Val) :
    ActExactP (classifyItem cfg p pne pdt sa oa x y) x y := by
  rw [classifyItem_noOpts h]
  by_cases he : cfg.fl.equal = true
  · simpa [he] using classify_exactP_aux x y cfg.fl { selfEqual := [sa], otherEqual := [oa] } rfl
      { diffs := 1, notEqual := [⟨pne, x, y, .lst, cfg.fl.delta⟩] } { diffs := 1, diffTypes := [⟨pdt, x, y⟩] }
      { diffs := 1, notEqual := [⟨pne, x, y, .tup, false⟩] } rfl rfl rfl false true false false
  · simpa [he] using classify_exactP_aux x y cfg.fl Res.empty rfl
      { diffs := 1, notEqual := [⟨pne, x, y, .lst, cfg.fl.delta⟩] } { diffs := 1, diffTypes := [⟨pdt, x, y⟩] }
      { diffs := 1, notEqual := [⟨pne, x, y, .tup, false⟩] } rfl rfl rfl false true false false

theorem classifyEntry_exactP {cfg : Cfg} (h : NoOpts cfg) (full : Path) (x y : Val) :
    ActExactP (classifyEntry cfg full x y) x y := by
  rw [classifyEntry_noOpts h]
  exact classify_exactP_aux x y cfg.fl Res.empty rfl
      { diffs := 1, notEqual := [⟨full, x, y, .lst, cfg.fl.delta⟩] } { diffs := 1, diffTypes := [⟨full, x, y⟩] }
      { diffs := 1, notEqual := [⟨full, x, y, .tup, false⟩] } rfl rfl rfl false true false false


/-! ### keys under default options -/

/-- the key of a list item when there is no composite key -/
def key0 : Val → Str
  | .dict _ _ => []
  | v => pyStr v

theorem keyOf_noOpts {cfg : Cfg} (h : NoOpts cfg) (p : Path) (v : Val) : keyOf cfg p v = .ok (key0 v) := by
  cases v <;> simp [keyOf, key0, h.ck, PatArg.pats]

theorem keysOf_noOpts {cfg : Cfg} (h : NoOpts cfg) (p : Path) : ∀ xs : List Val, keysOf cfg p xs = .ok (xs.map key0)
  | [] => rfl
  | x :: xs => by simp [keysOf, keyOf_noOpts h, keysOf_noOpts h p xs]

theorem key0_rec {v : Val} (h : isRec v = true) : key0 v = [] := by
  cases v <;> simp_all [isRec, key0]

theorem key0_nonrec {v : Val} (h : isRec v = false) : key0 v = pyStr v := by
  cases v <;> simp_all [isRec, key0]

/-- the values of a list of keyed entries -/
def vals (l : List KE) : List Val := l.map (fun e => e.2.2)

theorem mkEntries_vals : ∀ (ys : List Val) (i : Nat), vals (mkEntries i (ys.map key0) ys) = ys
  | [], _ => rfl
  | y :: ys, i => by
    have := mkEntries_vals ys (i + 1)
    simp only [vals] at this
    simp [mkEntries, vals, this]

theorem mkEntries_keys : ∀ (ys : List Val) (i : Nat),
    (mkEntries i (ys.map key0) ys).map (fun e => e.1) = ys.map key0
  | [], _ => rfl
  | y :: ys, i => by simp [mkEntries, mkEntries_keys ys (i + 1)]

theorem mkEntries_key0 : ∀ (ys : List Val) (i : Nat), ∀ e ∈ mkEntries i (ys.map key0) ys,
    e.1 = key0 e.2.2 ∧ e.2.2 ∈ ys
  | [], _, e, he => by simp [mkEntries] at he
  | y :: ys, i, e, he => by
    simp only [List.map_cons, mkEntries, List.mem_cons] at he
    cases he with
    | inl h => subst h; simp
    | inr h =>
      have := mkEntries_key0 ys (i + 1) e h
      exact ⟨this.1, List.mem_cons_of_mem _ this.2⟩

theorem kfind_none : ∀ (orr : List KE) (k : Str), findKey k orr = none → ∀ e ∈ orr, e.1 ≠ k
  | [], _, _, e, he => by cases he
  | (k', i, v) :: rest, k, h, e, he => by
    simp only [findKey] at h
    split at h
    · cases h
    · rename_i hk
      cases he with
      | head => exact fun h' => hk h'.symm
      | tail _ he' => exact kfind_none rest k h e he'

theorem kfind_some : ∀ (orr : List KE) (k : Str) (j : Nat) (y : Val), findKey k orr = some (j, y) →
    ∃ l1 l2, orr = l1 ++ (k, j, y) :: l2 ∧ (∀ e ∈ l1, e.1 ≠ k) ∧ eraseKey k orr = l1 ++ l2
  | [], _, _, _, h => by simp [findKey] at h
  | (k', i, v) :: rest, k, j, y, h => by
    simp only [findKey] at h
    split at h
    · rename_i hk
      cases h
      subst hk
      exact ⟨[], rest, rfl, by simp, by simp [eraseKey]⟩
    · rename_i hk
      obtain ⟨l1, l2, h1, h2, h3⟩ := kfind_some rest k j y h
      refine ⟨(k', i, v) :: l1, l2, by simp [h1], ?_, by simp [eraseKey, hk, h3]⟩
      intro e he
      cases he with
      | head => exact fun h' => hk h'.symm
      | tail _ he' => exact h2 e he'

theorem kerase_length (k : Str) : ∀ sr : List KE, sr.length ≤ (eraseKey k sr).length + 1
  | [] => by simp [eraseKey]
  | (k', i, v) :: rest => by
    simp only [eraseKey]
    split
    · simp
    · have := kerase_length k rest
      simp; omega

theorem kerase_keys {k : Str} {ks : List Str} : ∀ {sr : List KE}, sr.map (fun e => e.1) = k :: ks →
    (eraseKey k sr).map (fun e => e.1) = ks
  | [], h => by simp at h
  | (k', i, v) :: rest, h => by
    simp only [List.map_cons, List.cons.injEq] at h
    simp [eraseKey, h.1, h.2]

/-- every entry of `self` that is still in the remaining list at the end is reported -/
theorem keyedWalk_diffs_ge (cfg : Cfg) (p : Path) (sa oa : Val) : ∀ (xs : List Val) (ks : List Str)
    (sr orr : List KE) (i : Nat) (r : Res),
    keyedWalk cfg p sa oa i xs ks sr orr = .ok r → sr.length ≤ r.diffs + xs.length
  | [], _, sr, orr, i, r, h => by
    simp only [keyedWalk] at h
    cases h
    simp [keyedTail]
  | _ :: _, [], _, _, i, r, h => by simp [keyedWalk] at h
  | x :: xs, k :: ks, sr, orr, i, r, h => by
    simp only [keyedWalk] at h
    cases hf : findKey k orr with
    | none =>
      rw [hf] at h
      have := keyedWalk_diffs_ge cfg p sa oa xs ks sr orr (i + 1) r h
      simp; omega
    | some jy =>
      obtain ⟨j, y⟩ := jy
      rw [hf] at h
      simp only at h
      have hl := kerase_length k sr
      cases hcl : classifyItem cfg p (p ++ [if i = j then PSeg.idx i else PSeg.idx2 i j]) (p ++ [.idx i]) sa oa x y with
      | emit r0 s =>
        rw [hcl] at h
        simp only at h
        cases hr : keyedWalk cfg p sa oa (i + 1) xs ks (eraseKey k sr) (eraseKey k orr) with
        | error e => rw [hr] at h; cases h
        | ok r' =>
          rw [hr] at h; cases h
          have := keyedWalk_diffs_ge cfg p sa oa xs ks _ _ (i + 1) r' hr
          simp; omega
      | descend =>
        rw [hcl] at h
        simp only at h
        cases hs : sub cfg .item (p ++ [if i = j then PSeg.idx i else PSeg.idx2 i j]) x y with
        | error e => rw [hs] at h; cases h
        | ok r1 =>
          rw [hs] at h
          simp only at h
          cases hr : keyedWalk cfg p sa oa (i + 1) xs ks (eraseKey k sr) (eraseKey k orr) with
          | error e => rw [hr] at h; cases h
          | ok r' =>
            rw [hr] at h; cases h
            have := keyedWalk_diffs_ge cfg p sa oa xs ks _ _ (i + 1) r' hr
            simp; omega

/-! ### hypotheses travel to sub-trees -/

theorem listItemsL_mem : ∀ (ys : List Val) (y : Val), y ∈ ys →
    (∀ z ∈ listItems y, z ∈ listItemsL ys) ∧ (isRec y = false → y ∈ listItemsL ys)
  | [], _, h => by cases h
  | x :: xs, y, h => by
    cases h with
    | head =>
      constructor
      · intro z hz; simp [listItemsL, hz]
      · intro hr; simp [listItemsL, hr]
    | tail _ h' =>
      have := listItemsL_mem xs y h'
      constructor
      · intro z hz; simp [listItemsL, this.1 z hz]
      · intro hr; simp [listItemsL, this.2 hr]

theorem listItemsK_lookup : ∀ (kvs : List (Str × Val)) (k : Str) (w : Val), Val.lookup k kvs = some w →
    ∀ z ∈ listItems w, z ∈ listItemsK kvs
  | [], _, _, h => by simp [Val.lookup] at h
  | (k', v) :: rest, k, w, h => by
    simp only [Val.lookup] at h
    intro z hz
    split at h
    · cases h; simp [listItemsK, hz]
    · simp [listItemsK, listItemsK_lookup rest k w h z hz]

theorem isN0L_mem : ∀ (ys : List Val) (y : Val), isN0L ys = true → y ∈ ys → isN0 y = true
  | [], _, _, h => by cases h
  | x :: xs, y, hn, h => by
    simp only [isN0L, Bool.and_eq_true] at hn
    cases h with
    | head => exact hn.1
    | tail _ h' => exact isN0L_mem xs y hn.2 h'

/-- what is known about a remaining item of the right list -/
def GoodV (S : Val → Prop) (y : Val) : Prop :=
  isN0 y = true ∧ (∀ z ∈ listItems y, S z) ∧ (isRec y = false → S y)

/-! ### the list specification, one step at a time -/

def ListSpec (xs ys : List Val) : Prop :=
  eqvRecs xs (ys.filter isRec) ∧ (xs.filter (fun v => !isRec v)).Perm (ys.filter (fun v => !isRec v))

theorem filter_rec_keys (l : List KE) (hinv : ∀ e ∈ l, e.1 = key0 e.2.2) (hne : ∀ e ∈ l, e.1 ≠ []) :
    (vals l).filter isRec = [] := by
  rw [List.filter_eq_nil_iff]
  intro v hv
  simp only [vals, List.mem_map] at hv
  obtain ⟨e, he, rfl⟩ := hv
  intro hr
  exact hne e he ((hinv e he).trans (key0_rec hr))

theorem spec_nil (ys : List Val) : ListSpec [] ys ↔ ys = [] := by
  simp only [ListSpec, eqvRecs, List.filter_nil, List.nil_perm, List.filter_eq_nil_iff]
  constructor
  · intro ⟨h1, h2⟩
    cases ys with
    | nil => rfl
    | cons y ys =>
      have a := h1 y (by simp)
      have b := h2 y (by simp)
      simp at a b
      simp [a] at b
  · intro h; subst h; simp

theorem spec_rec_none {x : Val} {xs ys : List Val} (hr : isRec x = true) (hn : ys.filter isRec = []) :
    ¬ ListSpec (x :: xs) ys := by
  simp [ListSpec, eqvRecs, hr, hn]

theorem spec_rec_some {x y : Val} {xs : List Val} {l1 l2 : List KE} {k : Str} {j : Nat}
    (hr : isRec x = true) (hry : isRec y = true) (hn : (vals l1).filter isRec = []) :
    ListSpec (x :: xs) (vals (l1 ++ (k, j, y) :: l2)) ↔ (eqv x y ∧ ListSpec xs (vals (l1 ++ l2))) := by
  simp only [vals] at hn
  simp only [ListSpec, vals, List.map_append, List.map_cons, List.filter_append, List.filter_cons, hr, hry, hn,
    eqvRecs, if_true, List.nil_append, Bool.not_true, Bool.false_eq_true, if_false]
  exact and_assoc

theorem spec_nonrec_none {x : Val} {xs ys : List Val} (hr : isRec x = false) (hn : x ∉ ys) :
    ¬ ListSpec (x :: xs) ys := by
  intro ⟨_, hp⟩
  have hm : x ∈ (x :: xs).filter (fun v => !isRec v) := by simp [hr]
  have := hp.subset hm
  simp only [List.mem_filter] at this
  exact hn this.1

theorem spec_nonrec_some {x : Val} {xs : List Val} {l1 l2 : List KE} {k : Str} {j : Nat}
    (hr : isRec x = false) :
    ListSpec (x :: xs) (vals (l1 ++ (k, j, x) :: l2)) ↔ ListSpec xs (vals (l1 ++ l2)) := by
  simp only [ListSpec, vals, List.map_append, List.map_cons, List.filter_append, List.filter_cons, hr,
    eqvRecs, Bool.false_eq_true, if_false, Bool.not_false, if_true]
  constructor
  · intro ⟨h1, hp⟩
    exact ⟨h1, (List.perm_cons x).1 (hp.trans List.perm_middle)⟩
  · intro ⟨h1, hp⟩
    exact ⟨h1, ((List.perm_cons x).2 hp).trans List.perm_middle.symm⟩

/-! ### dictionaries -/

/-- the common keys carry equivalent values (keys missing on the right are skipped) -/
def commonP : List (Str × Val) → List (Str × Val) → Prop
  | [], _ => True
  | (k, v) :: rest, o =>
    (match Val.lookup k o with
     | some w => eqv v w
     | none => True) ∧ commonP rest o

theorem eqvK_eq_common : ∀ (kvs o : List (Str × Val)),
    eqvK kvs o ↔ (commonP kvs o ∧ kvs.all (fun kv => hasKey kv.1 o) = true)
  | [], _ => by simp [eqvK, commonP]
  | (k, v) :: rest, o => by
    simp only [eqvK, commonP, List.all_cons, hasKey, eqvK_eq_common rest o, Bool.and_eq_true]
    cases hl : Val.lookup k o with
    | none => simp
    | some w =>
      simp only [Option.isSome_some, true_and]
      exact and_assoc.symm

end N0.Compare
