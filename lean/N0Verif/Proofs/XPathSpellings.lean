import N0Verif.Proofs.XPathListRoot
import N0Verif.Proofs.XPathDeleteRec
import N0Verif.Proofs.XPathFirst
/-!
  String-level spellings of a path: prefix none / `/` / `//`, an index step attached (`a[0]`,
  `[0][1]`) or written as a separate step (`a/[0]`, `[0]/[1]`), and per index the spellings
  `i`, `-k`, `last()`, `last()-k`, `i+j`.  `renderSp` renders a spelling, `tokenize` of the
  rendered text is `toksOf`, and those tokens `Spell` the position plain Python indexing reaches.
-/
namespace N0.XPath
open N0 N0.Py N0.Val

/-! ### index spellings -/

inductive IdxSp
  | lit (n : Nat)            -- `n`
  | neg (k : Nat)            -- `-k`
  | last                     -- `last()`
  | lastMinus (k : Nat)      -- `last()-k`
  | plus (a b : Nat)         -- `a+b`
  deriving Repr, DecidableEq

def IdxSp.text : IdxSp → Str
  | .lit n => natStr n
  | .neg k => '-' :: natStr k
  | .last => sLast
  | .lastMinus k => sLast ++ '-' :: natStr k
  | .plus a b => natStr a ++ '+' :: natStr b

/-- the Python integer the text denotes (`last()` is `-1`) -/
def IdxSp.val : IdxSp → Int
  | .lit n => n
  | .neg k => -(k : Int)
  | .last => -1
  | .lastMinus k => -1 - (k : Int)
  | .plus a b => (a : Int) + b

theorem IdxSp.eval (e : IdxSp) : n0eval e.text = .ok (.int e.val) := by
  cases e with
  | lit n => exact n0eval_nat n
  | neg k =>
    have := n0eval_neg (natStr_digits k)
    rwa [show natOfDigits (natStr k) = k from natOfDigits_natDigits _] at this
  | last => exact n0eval_last
  | lastMinus k =>
    have := n0eval_last_minus (natStr_digits k)
    rwa [show natOfDigits (natStr k) = k from natOfDigits_natDigits _] at this
  | plus a b =>
    have := n0eval_plus (natStr_digits a) (natStr_digits b)
    rwa [show natOfDigits (natStr a) = a from natOfDigits_natDigits _,
      show natOfDigits (natStr b) = b from natOfDigits_natDigits _] at this

theorem sLast_bare : ∀ ch ∈ sLast, bareChar ch = true := by rw [sLast_eq]; decide

theorem IdxSp.text_bare (e : IdxSp) : ∀ c ∈ e.text, bareChar c = true := by
  cases e with
  | lit n => exact natStr_bare n
  | neg k =>
    intro c hc
    simp only [IdxSp.text, List.mem_cons] at hc
    rcases hc with rfl | hc
    · decide
    · exact natStr_bare _ c hc
  | last => exact sLast_bare
  | lastMinus k =>
    intro c hc
    simp only [IdxSp.text, List.mem_append, List.mem_cons] at hc
    rcases hc with hc | rfl | hc
    · exact sLast_bare c hc
    · decide
    · exact natStr_bare _ c hc
  | plus a b =>
    intro c hc
    simp only [IdxSp.text, List.mem_append, List.mem_cons] at hc
    rcases hc with hc | rfl | hc
    · exact natStr_bare _ c hc
    · decide
    · exact natStr_bare _ c hc

theorem IdxSp.text_ne (e : IdxSp) : e.text ≠ [] := by
  cases e with
  | lit n => exact natDigits_ne_nil n
  | neg k => simp [IdxSp.text]
  | last => rw [IdxSp.text, sLast_eq]; simp
  | lastMinus k => simp [IdxSp.text]
  | plus a b => simp [IdxSp.text]

/-! ### what a bare character is not -/

structure BareProps (c : Char) : Prop where
  noRB : c ≠ ']'
  noSlash : c ≠ '/'
  noLB : c ≠ '['
  noEq : c ≠ '='
  noTilde : c ≠ '~'
  noStar : c ≠ '*'
  noN : c ≠ 'n'
  space : isPySpace c = false
  lowerC : toLowerAscii c ≠ 'c'

theorem bareChar_props {c : Char} (h : bareChar c = true) : BareProps c := by
  by_cases hd : isAsciiDigit c = true
  · have d := digit_ne hd
    have ne : ∀ x : Char, isAsciiDigit x = false → c ≠ x := by
      intro x hx heq; subst heq; rw [hd] at hx; cases hx
    exact ⟨d.2.2.2.2.2.2.1, d.2.2.2.2.2.2.2.1, d.2.2.2.2.2.1, d.2.2.2.2.2.2.2.2.1, d.2.2.2.2.2.2.2.2.2.1,
      d.2.2.2.2.2.2.2.2.2.2.1, ne 'n' (by decide), d.2.2.2.2.2.2.2.2.2.2.2.1,
      by rw [d.2.2.2.2.2.2.2.2.2.2.2.2.1]; exact ne 'c' (by decide)⟩
  · simp only [bareChar, hd, Bool.false_or, Bool.or_eq_true, decide_eq_true_eq] at h
    rcases h with ((((((h | h) | h) | h) | h) | h) | h) | h <;> subst h <;>
      exact ⟨by decide, by decide, by decide, by decide, by decide, by decide, by decide, by decide, by decide⟩

theorem bare_idxExpr {e : Str} (hne : e ≠ []) (h : ∀ c ∈ e, bareChar c = true) : IdxExpr e where
  ne := hne
  head := fun c hc => (bareChar_props (h c (List.mem_of_mem_head? hc))).space
  last := fun c hc => (bareChar_props (h c (List.mem_of_getLast? hc))).space
  notContains := by
    cases e with
    | nil => exact absurd rfl hne
    | cons c e =>
      have := (bareChar_props (h c (by simp))).lowerC
      rw [sContains_eq]
      simp [Py.lower, startsWith, this]
  noEq := fun c hc => ⟨(bareChar_props (h c hc)).noEq, (bareChar_props (h c hc)).noTilde⟩

theorem bare_ne_special {e : Str} (h : ∀ c ∈ e, bareChar c = true) : e ≠ sNew ∧ e ≠ ['*'] := by
  constructor
  · intro heq
    have hm : 'n' ∈ e := by rw [heq]; decide
    exact (bareChar_props (h _ hm)).noN rfl
  · intro heq
    have hm : '*' ∈ e := by rw [heq]; simp
    exact (bareChar_props (h _ hm)).noStar rfl

theorem IdxSp.idxTok (e : IdxSp) : IdxTok (bracket e.text) e.text e.val :=
  (bare_idxExpr e.text_ne e.text_bare).idxTok (bare_ne_special e.text_bare).1 (bare_ne_special e.text_bare).2 e.eval

theorem IdxSp.keyIdxTok (e : IdxSp) {k : Str} (hk : PlainKey k) : KeyIdxTok (k ++ bracket e.text) k e.text e.val :=
  keyIdxTok_of hk (bare_idxExpr e.text_ne e.text_bare) (bare_ne_special e.text_bare).1
    (bare_ne_special e.text_bare).2 e.eval

theorem IdxSp.noRB (e : IdxSp) : ∀ c ∈ e.text, c ≠ ']' := fun c hc => (bareChar_props (e.text_bare c hc)).noRB
theorem IdxSp.noSlash (e : IdxSp) : ∀ c ∈ e.text, c ≠ '/' := fun c hc => (bareChar_props (e.text_bare c hc)).noSlash

/-! ### path spellings -/

/-- one step: a key, or an index in one of its spellings; `sep` says that the index is written as
a step of its own (`/[i]`) instead of attached to what precedes it (`[i]`) -/
inductive StepSp
  | key (k : Str)
  | idx (e : IdxSp) (sep : Bool)
  deriving Repr

inductive Lead | rel | one | two
  deriving Repr, DecidableEq

def PlainSteps : List StepSp → Prop
  | [] => True
  | .key k :: rest => PlainKey k ∧ PlainSteps rest
  | .idx _ _ :: rest => PlainSteps rest

def renderStep : StepSp → Str
  | .key k => '/' :: k
  | .idx e false => bracket e.text
  | .idx e true => '/' :: bracket e.text

def renderSteps (steps : List StepSp) : Str := steps.flatMap renderStep

def dropSlash (s : Str) : Str := if s.head? = some '/' then s.drop 1 else s

def leadStr : Lead → Str
  | .rel => []
  | .one => ['/']
  | .two => ['/', '/']

/-- the text of a spelling: `a/b[0]`, `/a/b/[0]`, `//a/b[last()]`, `[0]/a`, … -/
def renderSp (lead : Lead) (steps : List StepSp) : Str := leadStr lead ++ dropSlash (renderSteps steps)

/-- the tokens `_find` works on: a key followed by an *attached* index is one token -/
def toksOf : List StepSp → List Str
  | [] => []
  | .key k :: .idx e false :: rest => (k ++ bracket e.text) :: toksOf rest
  | .key k :: rest => k :: toksOf rest
  | .idx e _ :: rest => bracket e.text :: toksOf rest

/-- Python `xs[i]` for an `int` -/
def pyIndex (xs : List Val) (i : Int) : Option Val := (normIdx i xs.length).bind (fun n => xs[n]?)

/-- plain Python indexing along the steps: `t['a']['b'][-1]…` -/
def stepsGet : Val → List StepSp → Option Val
  | v, [] => some v
  | .dict _ kvs, .key k :: rest => (lookup k kvs).bind (fun c => stepsGet c rest)
  | .list _ xs, .idx e _ :: rest => (pyIndex xs e.val).bind (fun c => stepsGet c rest)
  | _, _ => Option.none

/-! ### tokenisation of a rendered spelling -/

/-- the text after `replace("][", "]/[")`; the flag says that the previous step was an index -/
def renderG : Bool → List StepSp → Str
  | _, [] => []
  | _, .key k :: rest => '/' :: k ++ renderG false rest
  | b, .idx e sep :: rest => (if b || sep then ['/'] else []) ++ bracket e.text ++ renderG true rest

theorem renderSteps_cons (s : StepSp) (r : List StepSp) : renderSteps (s :: r) = renderStep s ++ renderSteps r := by
  simp [renderSteps]

theorem fixBr_steps (steps : List StepSp) (hp : PlainSteps steps) :
    fixBr (renderSteps steps) = renderG false steps ∧
    ∀ ds : Str, (∀ c ∈ ds, c ≠ ']') → fixBr (ds ++ ']' :: renderSteps steps) = ds ++ ']' :: renderG true steps := by
  induction steps with
  | nil =>
    refine ⟨rfl, fun ds hds => ?_⟩
    rw [fixBr_append_noRB ds _ hds]
    simp [renderSteps, renderG, fixBr_rb_nil]
  | cons s r ih =>
    cases s with
    | key k =>
      obtain ⟨hk, hr⟩ := hp
      obtain ⟨ihA, _⟩ := ih hr
      have hform : renderSteps (.key k :: r) = '/' :: (k ++ renderSteps r) := by
        simp [renderSteps_cons, renderStep]
      have hA : fixBr (renderSteps (.key k :: r)) = renderG false (.key k :: r) := by
        rw [hform, fixBr_cons_ne '/' _ (by decide), fixBr_append_noRB k _ hk.noRB, ihA]
        simp [renderG]
      refine ⟨hA, fun ds hds => ?_⟩
      rw [fixBr_append_noRB ds _ hds, hform, fixBr_rb_other '/' _ (by decide), ← hform, hA]
      simp [renderG]
    | idx e sep =>
      obtain ⟨_, ihB⟩ := ih hp
      have hB := ihB e.text e.noRB
      cases sep with
      | false =>
        have hform : renderSteps (.idx e false :: r) = '[' :: (e.text ++ ']' :: renderSteps r) := by
          simp [renderSteps_cons, renderStep, bracket]
        refine ⟨?_, fun ds hds => ?_⟩
        · rw [hform, fixBr_cons_ne '[' _ (by decide), hB]
          simp [renderG, bracket]
        · rw [fixBr_append_noRB ds _ hds, hform, fixBr_rb_lb, hB]
          simp [renderG, bracket]
      | true =>
        have hform : renderSteps (.idx e true :: r) = '/' :: '[' :: (e.text ++ ']' :: renderSteps r) := by
          simp [renderSteps_cons, renderStep, bracket]
        refine ⟨?_, fun ds hds => ?_⟩
        · rw [hform, fixBr_cons_ne '/' _ (by decide), fixBr_cons_ne '[' _ (by decide), hB]
          simp [renderG, bracket]
        · rw [fixBr_append_noRB ds _ hds, hform, fixBr_rb_other '/' _ (by decide),
            fixBr_cons_ne '/' _ (by decide), fixBr_cons_ne '[' _ (by decide), hB]
          simp [renderG, bracket]

/-- pieces of `cur ++ renderG b steps` when split at '/' -/
def piecesG : Str → Bool → List StepSp → List Str
  | cur, _, [] => [cur]
  | cur, _, .key k :: rest => cur :: piecesG k false rest
  | cur, b, .idx e sep :: rest =>
    if b || sep then cur :: piecesG (bracket e.text) true rest
    else piecesG (cur ++ bracket e.text) true rest

theorem bracketSp_noSlash (e : IdxSp) : ∀ c ∈ bracket e.text, c ≠ '/' := by
  intro c hc
  simp only [bracket, List.mem_cons, List.mem_append, List.not_mem_nil, or_false] at hc
  rcases hc with (hc | hc) | hc
  · subst hc; decide
  · exact e.noSlash c hc
  · subst hc; decide

theorem splitChar_piecesG (steps : List StepSp) (hp : PlainSteps steps) :
    ∀ (cur : Str) (b : Bool), (∀ c ∈ cur, c ≠ '/') → splitChar '/' (cur ++ renderG b steps) = piecesG cur b steps := by
  induction steps with
  | nil => intro cur b hc; simp [renderG, piecesG, splitChar_no_delim '/' cur hc]
  | cons s r ih =>
    intro cur b hc
    cases s with
    | key k =>
      obtain ⟨hk, hr⟩ := hp
      simp only [renderG, piecesG, List.cons_append]
      rw [splitChar_append '/' cur _ hc, ih hr k false hk.noSlash]
    | idx e sep =>
      by_cases hbs : (b || sep) = true
      · simp only [renderG, piecesG, hbs, if_true, List.cons_append, List.nil_append]
        rw [splitChar_append '/' cur _ hc, ih hp _ true (bracketSp_noSlash e)]
      · simp only [renderG, piecesG, hbs, Bool.false_eq_true, if_false, List.nil_append]
        rw [← List.append_assoc]
        exact ih hp _ true (by
          intro c hc'; simp only [List.mem_append] at hc'
          rcases hc' with h | h
          · exact hc c h
          · exact bracketSp_noSlash e c h)

theorem bracket_stripWs' (s : Str) : stripWs (bracket s) = bracket s := by
  apply stripWs_eq_self
  · intro c hc; simp [bracket] at hc; subst hc; decide
  · intro c hc
    have : bracket s = ('[' :: s) ++ [']'] := by simp [bracket]
    rw [this, List.getLast?_append] at hc
    simp at hc; subst hc; decide

theorem keyBracket_stripWs' {k : Str} (hk : PlainKey k) (s : Str) :
    stripWs (k ++ bracket s) = k ++ bracket s := by
  apply stripWs_eq_self
  · intro c hc
    cases k with
    | nil => exact absurd rfl hk.ne
    | cons x k =>
      simp at hc; subst hc
      exact (plainChar_ne (hk.chars _ (by simp))).2.2.2.2
  · intro c hc
    have : k ++ bracket s = (k ++ '[' :: s) ++ [']'] := by simp [bracket]
    rw [this, List.getLast?_append] at hc
    simp at hc; subst hc; decide

theorem toksOf_key_cons (k : Str) (rest : List StepSp) (h : ∀ e r, rest ≠ .idx e false :: r) :
    toksOf (.key k :: rest) = k :: toksOf rest := by
  rw [toksOf]
  intro e r heq
  exact h e r heq

theorem clean_piecesG (steps : List StepSp) (hp : PlainSteps steps) :
    (∀ k, PlainKey k → clean (piecesG k false steps) = toksOf (.key k :: steps)) ∧
    (∀ cur, cur ≠ [] → stripWs cur = cur → clean (piecesG cur true steps) = cur :: toksOf steps) := by
  induction steps with
  | nil =>
    constructor
    · intro k hk
      simp [piecesG, clean, toksOf, isEmpty_false_of_ne hk.ne, hk.stripWs]
    · intro cur hne hs
      simp [piecesG, clean, toksOf, isEmpty_false_of_ne hne, hs]
  | cons s r ih =>
    cases s with
    | key k' =>
      obtain ⟨hk', hr⟩ := hp
      obtain ⟨ih1, _⟩ := ih hr
      constructor
      · intro k hk
        simp only [piecesG, clean_cons, isEmpty_false_of_ne hk.ne, Bool.false_eq_true, if_false, hk.stripWs]
        rw [ih1 k' hk', toksOf_key_cons k _ (by intro e r' h; cases h)]
        rfl
      · intro cur hne hs
        simp only [piecesG, clean_cons, isEmpty_false_of_ne hne, Bool.false_eq_true, if_false, hs]
        rw [ih1 k' hk']
        rfl
    | idx e sep =>
      obtain ⟨_, ih2⟩ := ih hp
      constructor
      · intro k hk
        cases sep with
        | false =>
          simp only [piecesG, Bool.or_self, Bool.false_eq_true, if_false]
          rw [ih2 _ (by simp [bracket]) (keyBracket_stripWs' hk _)]
          simp [toksOf]
        | true =>
          simp only [piecesG, Bool.or_true, if_true, clean_cons, isEmpty_false_of_ne hk.ne,
            Bool.false_eq_true, if_false, hk.stripWs]
          rw [ih2 _ (bracket_ne_nil _) (bracket_stripWs' _),
            toksOf_key_cons k _ (by intro e' r' h; cases h)]
          simp [toksOf]
      · intro cur hne hs
        simp only [piecesG, Bool.true_or, if_true, clean_cons, isEmpty_false_of_ne hne, Bool.false_eq_true,
          if_false, hs]
        rw [ih2 _ (bracket_ne_nil _) (bracket_stripWs' _)]
        simp [toksOf]

/-- **Tokenisation of the step text** (starts with '/' or '['). -/
theorem tokenize_steps (steps : List StepSp) (hp : PlainSteps steps) :
    tokenize (renderSteps steps) = toksOf steps := by
  unfold tokenize
  rw [(fixBr_steps steps hp).1]
  have h0 := splitChar_piecesG steps hp [] false (by simp)
  simp only [List.nil_append] at h0
  change clean (splitChar '/' (renderG false steps)) = _
  rw [h0]
  cases steps with
  | nil => simp [piecesG, clean, toksOf]
  | cons s r =>
    cases s with
    | key k =>
      obtain ⟨hk, hr⟩ := hp
      simp only [piecesG, clean_cons, List.isEmpty_nil, if_true, List.nil_append]
      exact (clean_piecesG r hr).1 k hk
    | idx e sep =>
      cases sep with
      | false =>
        simp only [piecesG, Bool.or_self, Bool.false_eq_true, if_false, List.nil_append]
        rw [(clean_piecesG r hp).2 _ (bracket_ne_nil _) (bracket_stripWs' _)]
        simp [toksOf]
      | true =>
        simp only [piecesG, Bool.or_true, if_true, clean_cons, List.isEmpty_nil, List.nil_append]
        rw [(clean_piecesG r hp).2 _ (bracket_ne_nil _) (bracket_stripWs' _)]
        simp [toksOf]

theorem tokenize_slash (s : Str) : tokenize ('/' :: s) = tokenize s := by
  unfold tokenize
  rw [fixBr_cons_ne '/' _ (by decide)]
  have : splitChar '/' ('/' :: fixBr s) = [] :: splitChar '/' (fixBr s) := by simp [splitChar]
  rw [this]
  simp

theorem tokenize_dropSlash (s : Str) : tokenize (dropSlash s) = tokenize s := by
  unfold dropSlash
  split
  · rename_i h
    cases s with
    | nil => simp at h
    | cons c s =>
      simp only [List.head?_cons, Option.some.injEq] at h
      subst h
      simp [tokenize_slash]
  · rfl

/-- **Tokenisation of a spelling**: the prefix (none, `/`, `//`) does not matter -/
theorem tokenize_renderSp (lead : Lead) (steps : List StepSp) (hp : PlainSteps steps) :
    tokenize (renderSp lead steps) = toksOf steps := by
  unfold renderSp
  cases lead with
  | rel => simp only [leadStr, List.nil_append]; rw [tokenize_dropSlash, tokenize_steps steps hp]
  | one =>
    simp only [leadStr, List.cons_append, List.nil_append]
    rw [tokenize_slash, tokenize_dropSlash, tokenize_steps steps hp]
  | two =>
    simp only [leadStr, List.cons_append, List.nil_append]
    rw [tokenize_slash, tokenize_slash, tokenize_dropSlash, tokenize_steps steps hp]

/-! ### the tokens spell the position Python indexing reaches -/

theorem stepsGet_key_inv {v c : Val} {k : Str} {rest : List StepSp} (h : stepsGet v (.key k :: rest) = some c) :
    ∃ cls kvs x, v = .dict cls kvs ∧ lookup k kvs = some x ∧ stepsGet x rest = some c := by
  cases v with
  | dict cls kvs =>
    simp only [stepsGet] at h
    cases hl : lookup k kvs with
    | none => simp [hl] at h
    | some x => exact ⟨cls, kvs, x, rfl, hl, by simpa [hl] using h⟩
  | _ => simp [stepsGet] at h

theorem stepsGet_idx_inv {v c : Val} {e : IdxSp} {sep : Bool} {rest : List StepSp}
    (h : stepsGet v (.idx e sep :: rest) = some c) :
    ∃ cls xs n y, v = .list cls xs ∧ normIdx e.val xs.length = some n ∧ xs[n]? = some y ∧
      stepsGet y rest = some c := by
  cases v with
  | list cls xs =>
    simp only [stepsGet, pyIndex] at h
    cases hn : normIdx e.val xs.length with
    | none => simp [hn] at h
    | some n =>
      cases hx : xs[n]? with
      | none => simp [hn, hx] at h
      | some y => exact ⟨cls, xs, n, y, rfl, hn, hx, by simpa [hn, hx] using h⟩
  | _ => simp [stepsGet] at h

/-- the position the steps walk to (normalised indexes); `[]` when the walk fails -/
def posOf : Val → List StepSp → Pos
  | _, [] => []
  | .dict _ kvs, .key k :: rest =>
    match lookup k kvs with
    | some c => .key k :: posOf c rest
    | Option.none => []
  | .list _ xs, .idx e _ :: rest =>
    match normIdx e.val xs.length with
    | some n =>
      match xs[n]? with
      | some c => .idx n :: posOf c rest
      | Option.none => []
    | Option.none => []
  | _, _ => []

theorem posOf_key {cls : Cls} {kvs : List (Str × Val)} {k : Str} {x : Val} (rest : List StepSp)
    (hl : lookup k kvs = some x) : posOf (.dict cls kvs) (.key k :: rest) = .key k :: posOf x rest := by
  simp [posOf, hl]

theorem posOf_idx {cls : Cls} {xs : List Val} {e : IdxSp} {sep : Bool} {n : Nat} {y : Val} (rest : List StepSp)
    (hn : normIdx e.val xs.length = some n) (hx : xs[n]? = some y) :
    posOf (.list cls xs) (.idx e sep :: rest) = .idx n :: posOf y rest := by
  simp [posOf, hn, hx]

theorem spells_steps : ∀ (steps : List StepSp) (v c : Val), PlainSteps steps → stepsGet v steps = some c →
    Spells (toksOf steps) v (posOf v steps) c
  | [], v, c, _, h => by
    simp [stepsGet] at h; subst h; exact .nil v
  | [.key k], v, c, hp, h => by
    obtain ⟨cls, kvs, x, rfl, hl, hr⟩ := stepsGet_key_inv h
    simp [stepsGet] at hr; subst hr
    rw [posOf_key _ hl]
    exact .key hp.1.keyTok hl (.nil _)
  | .key k :: .key k2 :: rest, v, c, hp, h => by
    obtain ⟨cls, kvs, x, rfl, hl, hr⟩ := stepsGet_key_inv h
    have ih := spells_steps (.key k2 :: rest) x c hp.2 hr
    rw [toksOf_key_cons k _ (by intro e r h; cases h), posOf_key _ hl]
    exact .key hp.1.keyTok hl ih
  | .key k :: .idx e true :: rest, v, c, hp, h => by
    obtain ⟨cls, kvs, x, rfl, hl, hr⟩ := stepsGet_key_inv h
    have ih := spells_steps (.idx e true :: rest) x c hp.2 hr
    rw [toksOf_key_cons k _ (by intro e r h; cases h), posOf_key _ hl]
    exact .key hp.1.keyTok hl ih
  | .key k :: .idx e false :: rest, v, c, hp, h => by
    obtain ⟨cls, kvs, x, rfl, hl, hr⟩ := stepsGet_key_inv h
    obtain ⟨cls', xs, n, y, rfl, hn, hx, hr2⟩ := stepsGet_idx_inv hr
    have ih := spells_steps rest y c hp.2 hr2
    rw [posOf_key _ hl, posOf_idx _ hn hx]
    exact .keyIdx (e.keyIdxTok hp.1) hl hn hx ih
  | .idx e sep :: rest, v, c, hp, h => by
    obtain ⟨cls', xs, n, y, rfl, hn, hx, hr2⟩ := stepsGet_idx_inv h
    have ih := spells_steps rest y c hp hr2
    rw [posOf_idx _ hn hx]
    exact .idx e.idxTok hn hx ih

theorem toksOf_length_le (steps : List StepSp) : (toksOf steps).length ≤ steps.length := by
  induction steps using toksOf.induct with
  | case1 => simp [toksOf]
  | case2 k e rest ih => simp [toksOf]; omega
  | case3 k rest hne ih => rw [toksOf]; simp; omega; exact hne
  | case4 e sep rest ih => simp [toksOf]; omega

theorem toksOf_ne_nil (steps : List StepSp) (h : steps ≠ []) : toksOf steps ≠ [] := by
  cases steps with
  | nil => exact absurd rfl h
  | cons s r =>
    cases s with
    | key k =>
      cases r with
      | nil => simp [toksOf]
      | cons s2 r2 =>
        cases s2 with
        | key k2 => simp [toksOf]
        | idx e sep => cases sep <;> simp [toksOf]
    | idx e sep => simp [toksOf]

/-! ### `_get` on a rendered spelling -/

theorem plainChar_ne_q {c : Char} (h : plainChar c = true) : c ≠ '?' := by
  intro heq; subst heq; revert h; decide

theorem renderStep_head (s : StepSp) : ∃ ch rest, renderStep s = ch :: rest ∧ (ch = '/' ∨ ch = '[') := by
  cases s with
  | key k => exact ⟨'/', k, rfl, Or.inl rfl⟩
  | idx e sep =>
    cases sep with
    | false => exact ⟨'[', _, rfl, Or.inr rfl⟩
    | true => exact ⟨'/', _, rfl, Or.inl rfl⟩

theorem hasPathChar_of_mem {s : Str} {ch : Char} (hm : ch ∈ s) (h : ch = '/' ∨ ch = '[') : hasPathChar s = true := by
  unfold hasPathChar
  rcases h with rfl | rfl
  · simp [hm]
  · simp [hm]

/-- dict receiver: item access / `get` through any spelling returns what plain Python indexing returns -/
theorem getCore_spelling_dict (fuel : Nat) (cls : Cls) (kvs : List (Str × Val)) (lead : Lead)
    (steps : List StepSp) (c d : Val) (raise rl : Bool)
    (hp : PlainSteps steps) (hne : steps ≠ []) (hget : stepsGet (.dict cls kvs) steps = some c)
    (hf : fuel ≥ 2 * steps.length) :
    getCore fuel (.dict cls kvs) (renderSp lead steps) d raise rl = (.dict cls kvs, .ok c) := by
  have hs := spells_steps steps _ c hp hget
  have htok := tokenize_renderSp lead steps hp
  have hlen := toksOf_length_le steps
  -- the first step is a key
  cases steps with
  | nil => exact absurd rfl hne
  | cons s r =>
    cases s with
    | idx e sep => simp [stepsGet] at hget
    | key k =>
      obtain ⟨hk, hr⟩ := hp
      have hbody : dropSlash (renderSteps (.key k :: r)) = k ++ renderSteps r := by
        simp [renderSteps_cons, renderStep, dropSlash]
      obtain ⟨x, k', rfl⟩ : ∃ x k', k = x :: k' := by
        cases k with
        | nil => exact absurd rfl hk.ne
        | cons x k' => exact ⟨x, k', rfl⟩
      have hxq : x ≠ '?' := plainChar_ne_q (hk.chars x (by simp))
      have hq : startsWith (renderSp lead (.key (x :: k') :: r)) ['?'] = false := by
        unfold renderSp; rw [hbody]
        cases lead <;> simp [leadStr, startsWith, hxq]
      by_cases hpc : hasPathChar (renderSp lead (.key (x :: k') :: r)) = true
      · exact getCore_dict_path fuel cls kvs _ d raise rl _ c hq hpc (by rw [htok]; exact hs)
          (by rw [htok]; exact toksOf_ne_nil _ (by simp)) (by rw [htok]; omega)
      · -- only the relative one-key spelling has no '/' and no '['
        have hr0 : r = [] := by
          cases r with
          | nil => rfl
          | cons s2 r2 =>
            exfalso; apply hpc
            obtain ⟨ch, rs, hrs, hch⟩ := renderStep_head s2
            refine hasPathChar_of_mem (ch := ch) ?_ hch
            unfold renderSp; rw [hbody, renderSteps_cons, hrs]; simp
        subst hr0
        have hl : lead = .rel := by
          cases lead with
          | rel => rfl
          | one => exfalso; apply hpc; exact hasPathChar_of_mem (ch := '/') (by simp [renderSp, leadStr]) (Or.inl rfl)
          | two => exfalso; apply hpc; exact hasPathChar_of_mem (ch := '/') (by simp [renderSp, leadStr]) (Or.inl rfl)
        subst hl
        have htext : renderSp .rel [.key (x :: k')] = x :: k' := by
          unfold renderSp; rw [hbody]; simp [leadStr, renderSteps]
        rw [htext] at hpc hq
        obtain ⟨_, _, y, hv, hlk, hy⟩ := stepsGet_key_inv hget
        cases hv
        simp [stepsGet] at hy; subst hy
        have hpc' : hasPathChar (x :: k') = false := by simpa using hpc
        rw [htext]
        simp only [getCore, hq, Bool.false_eq_true, if_false, hpc', hlk]

/-- list receiver addressed with a leading index, any spelling -/
theorem getCore_spelling_list (fuel : Nat) (cls : Cls) (xs : List Val) (lead : Lead)
    (steps : List StepSp) (c d : Val) (raise rl : Bool)
    (hp : PlainSteps steps) (hne : steps ≠ []) (hget : stepsGet (.list cls xs) steps = some c)
    (hf : fuel ≥ 2 * steps.length) :
    getCore fuel (.list cls xs) (renderSp lead steps) d raise rl = (.list cls xs, .ok c) := by
  have hs := spells_steps steps _ c hp hget
  have htok := tokenize_renderSp lead steps hp
  have hlen := toksOf_length_le steps
  cases steps with
  | nil => exact absurd rfl hne
  | cons s r =>
    cases s with
    | key k => simp [stepsGet] at hget
    | idx e sep =>
      have hbody : dropSlash (renderSteps (.idx e sep :: r)) = '[' :: (e.text ++ ']' :: renderSteps r) := by
        cases sep <;> simp [renderSteps_cons, renderStep, dropSlash, bracket]
      have hq : startsWith (renderSp lead (.idx e sep :: r)) ['?'] = false := by
        unfold renderSp; rw [hbody]
        cases lead <;> simp [leadStr, startsWith]
      have hpc : hasPathChar (renderSp lead (.idx e sep :: r)) = true := by
        refine hasPathChar_of_mem (ch := '[') ?_ (Or.inr rfl)
        unfold renderSp; rw [hbody]; simp
      exact getCore_list_path fuel cls xs _ d raise rl _ c hq hpc (by rw [htok]; exact hs)
        (by rw [htok]; exact toksOf_ne_nil _ (by simp)) (by rw [htok]; omega)

/-! ### `first` -/

/-- `first` returns the FOUND value `_get` (with `return_lists=False`) returns unless that is a one-element list
(found: the same value for every default; `first` itself looks the path up with a private marker, fix C04-f) -/
theorem first_of_getCore {fuel : Nat} {t : Val} {xp : Str} {c : Val}
    (h : ∀ d, getCore fuel t xp d false false = (t, .ok c)) (hc : ∀ cl x, c ≠ .list cl [x]) (d : Val) :
    first fuel t xp d = (t, .ok c) := by
  rw [first_of_found h d]
  cases c with
  | list cl ys =>
    cases ys with
    | nil => rfl
    | cons y ys =>
      cases ys with
      | nil => exact absurd rfl (hc cl y)
      | cons _ _ => rfl
  | _ => rfl

/-- … and a one-element list is unwrapped -/
theorem first_of_getCore_single {fuel : Nat} {t : Val} {xp : Str} {x : Val} {cl : Cls}
    (h : ∀ d, getCore fuel t xp d false false = (t, .ok (.list cl [x]))) (d : Val) :
    first fuel t xp d = (t, .ok x) := by
  rw [first_of_found h d]; rfl

/-! ### `delete` on a rendered spelling -/

/-- no spelling of a path of plain names starts with '?' -/
theorem renderSp_noQ (lead : Lead) (steps : List StepSp) (hp : PlainSteps steps) (hne : steps ≠ []) :
    startsWith (renderSp lead steps) ['?'] = false := by
  cases steps with
  | nil => exact absurd rfl hne
  | cons s r =>
    cases s with
    | idx e sep =>
      have hbody : dropSlash (renderSteps (.idx e sep :: r)) = '[' :: (e.text ++ ']' :: renderSteps r) := by
        cases sep <;> simp [renderSteps_cons, renderStep, dropSlash, bracket]
      unfold renderSp; rw [hbody]
      cases lead <;> simp [leadStr, startsWith]
    | key k =>
      obtain ⟨hk, _⟩ := hp
      have hbody : dropSlash (renderSteps (.key k :: r)) = k ++ renderSteps r := by
        simp [renderSteps_cons, renderStep, dropSlash]
      obtain ⟨x, k', rfl⟩ : ∃ x k', k = x :: k' := by
        cases k with
        | nil => exact absurd rfl hk.ne
        | cons x k' => exact ⟨x, k', rfl⟩
      have hxq : x ≠ '?' := plainChar_ne_q (hk.chars x (by simp))
      unfold renderSp; rw [hbody]
      cases lead <;> simp [leadStr, startsWith, hxq]

theorem delete_spelling (fuel : Nat) (cls : Cls) (kvs : List (Str × Val)) (lead : Lead)
    (steps : List StepSp) (c t' : Val) (r : Bool)
    (hp : PlainSteps steps) (hne : steps ≠ []) (hget : stepsGet (.dict cls kvs) steps = some c)
    (hdel : delAt (.dict cls kvs) (posOf (.dict cls kvs) steps) = some t')
    (hf : fuel ≥ 2 * steps.length) :
    delete fuel (.dict cls kvs) (renderSp lead steps) r =
      ((if r then pruneUp t' (posOf (.dict cls kvs) steps).dropLast ((posOf (.dict cls kvs) steps).length - 1)
        else t'), .ok ()) := by
  have hs := spells_steps steps _ c hp hget
  have htok := tokenize_renderSp lead steps hp
  have hlen := toksOf_length_le steps
  have htne := toksOf_ne_nil steps hne
  unfold delete deleteTokens
  simp only [stripQ_noQ _ (renderSp_noQ lead steps hp hne), htok]
  cases r with
  | false => exact deleteLoop_spelled fuel _ _ _ c t' hs htne hdel (by omega)
  | true => exact deleteLoop_rec_spelled fuel _ _ _ c t' hs htne hdel (by omega)

/-! ### an out-of-range index is a miss -/

def OutOfRange (i : Int) (len : Nat) : Prop := i ≥ (len : Int) ∨ i < -(len : Int)

theorem outOfRange_of_normIdx_none {i : Int} {len : Nat} (h : normIdx i len = Option.none) : OutOfRange i len := by
  unfold normIdx at h
  unfold OutOfRange
  split at h
  · split at h
    · cases h
    · omega
  · split at h
    · cases h
    · omega

theorem find_idx_miss_sp (fuel : Nat) (root : Val) (sp : Pos) (entry rl : Bool) (q : Pos) (found tok e : Str)
    (i : Int) (rest : List Str) (cls : Cls) (xs : List Val)
    (hq : getAt root q = some (.list cls xs)) (hk : IdxTok tok e i) (ho : OutOfRange i xs.length) :
    findD (fuel + 1) root sp false entry (tok :: rest) (.at q) rl found
      = .ok (root, { parent := .at q, nameIdx := some (bracket (intStr i)), value := Val.none, found := found,
                     notFound := some (tok :: rest) }) := by
  have hne : e.isEmpty = false := isEmpty_false_of_ne hk.ne
  have ho' : (i ≥ (xs.length : Int) || i < -(xs.length : Int)) = true := by
    unfold OutOfRange at ho; simpa using ho
  rw [findD]
  simp only [Bool.false_and, Bool.false_eq_true, if_false, valOf_at, hq, hk.split, List.isEmpty_nil,
    Idx.truthy, hne, Bool.not_false, Bool.and_false, Bool.not_true, hk.notNew, hk.notStar, hk.eval]
  simp only [ho', if_true]

theorem findL_idx_miss (fuel : Nat) (root : Val) (sp : Pos) (rl : Bool) (q : Pos) (found tok e : Str)
    (i : Int) (rest : List Str) (cls : Cls) (xs : List Val)
    (hq : getAt root q = some (.list cls xs)) (hk : IdxTok tok e i) (ho : OutOfRange i xs.length) :
    findL (fuel + 1) root sp (tok :: rest) (.at q) rl found
      = .ok (root, { parent := .at q, nameIdx := some (bracket (intStr i)), value := Val.none, found := found,
                     notFound := some (tok :: rest) }) := by
  have ho' : (i ≥ (xs.length : Int) || i < -(xs.length : Int)) = true := by
    unfold OutOfRange at ho; simpa using ho
  rw [findL]
  simp only [valOf_at, hq, hk.split, List.isEmpty_nil, Bool.not_true, Bool.false_eq_true, if_false,
    hk.notStar, hk.eval]
  simp only [ho', if_true]

/-- the tokens walk along existing nodes and then hit an index that is out of range -/
inductive MissAt : List Str → Val → Prop
  | idx {tok e i rest cls xs} : IdxTok tok e i → OutOfRange i xs.length → MissAt (tok :: rest) (.list cls xs)
  | keyIdx {tok k e i rest cls kvs cls' xs} : KeyIdxTok tok k e i → lookup k kvs = some (.list cls' xs) →
      OutOfRange i xs.length → MissAt (tok :: rest) (.dict cls kvs)
  | stepKey {tok rest cls kvs c} : KeyTok tok → lookup tok kvs = some c → MissAt rest c →
      MissAt (tok :: rest) (.dict cls kvs)
  | stepIdx {tok e i rest cls xs n c} : IdxTok tok e i → normIdx i xs.length = some n → xs[n]? = some c →
      MissAt rest c → MissAt (tok :: rest) (.list cls xs)
  | stepKeyIdx {tok k e i rest cls kvs cls' xs n c} : KeyIdxTok tok k e i → lookup k kvs = some (.list cls' xs) →
      normIdx i xs.length = some n → xs[n]? = some c → MissAt rest c → MissAt (tok :: rest) (.dict cls kvs)

theorem MissAt.ne_nil {toks : List Str} {v : Val} (h : MissAt toks v) : toks ≠ [] := by
  cases h <;> simp

theorem isFound_notFound_cons (r : Res) (t : Str) (ts : List Str) (h : r.notFound = some (t :: ts)) :
    r.isFound = false := by
  simp [Res.isFound, h]

theorem find_miss_sp (root : Val) (rl : Bool) (sp : Pos) {toks : List Str} {v : Val} (h : MissAt toks v) :
    ∀ (fuel : Nat) (q : Pos) (found : Str) (entry : Bool), getAt root q = some v → fuel ≥ 2 * toks.length →
      ∃ r, findD fuel root sp false entry toks (.at q) rl found = .ok (root, r) ∧ r.isFound = false := by
  induction h with
  | @idx tok e i rest cls xs hk ho =>
    intro fuel q found entry hq hf
    obtain ⟨f, rfl⟩ : ∃ f, fuel = f + 1 := ⟨fuel - 1, by simp at hf; omega⟩
    rw [find_idx_miss_sp f root sp entry rl q found tok e i rest cls xs hq hk ho]
    exact ⟨_, rfl, isFound_notFound_cons _ _ _ rfl⟩
  | @keyIdx tok k e i rest cls kvs cls' xs hk hl ho =>
    intro fuel q found entry hq hf
    obtain ⟨f, rfl⟩ : ∃ f, fuel = f + 2 := ⟨fuel - 2, by simp at hf; omega⟩
    rw [find_keyidx_step_sp (f + 1) root sp entry rl q found tok k e i rest cls kvs _ hq hk hl]
    have hq1 : getAt root (q ++ [Seg.key k]) = some (.list cls' xs) := by
      rw [getAt_snoc, hq]; simp [child, hl]
    rw [find_idx_miss_sp f root sp false rl (q ++ [Seg.key k]) _ (bracket e) e i rest cls' xs hq1 hk.inner ho]
    exact ⟨_, rfl, isFound_notFound_cons _ _ _ rfl⟩
  | @stepKey tok rest cls kvs c hk hl hm ih =>
    intro fuel q found entry hq hf
    obtain ⟨f, rfl⟩ : ∃ f, fuel = f + 1 := ⟨fuel - 1, by simp at hf; omega⟩
    rw [find_key_step_sp f root sp entry rl q found tok rest cls kvs c hm.ne_nil hq hk hl]
    have hq' : getAt root (q ++ [.key tok]) = some c := by
      rw [getAt_snoc, hq]; simp [child, hl]
    exact ih f _ _ false hq' (by simp at hf ⊢; omega)
  | @stepIdx tok e i rest cls xs n c hk hn hx hm ih =>
    intro fuel q found entry hq hf
    obtain ⟨f, rfl⟩ : ∃ f, fuel = f + 1 := ⟨fuel - 1, by simp at hf; omega⟩
    rw [find_idx_step_sp f root sp entry rl q found tok e i rest hm.ne_nil cls xs n hq hk hn]
    have hq' : getAt root (q ++ [.idx n]) = some c := by
      rw [getAt_snoc, hq]; simp [child, hx]
    exact ih f _ _ false hq' (by simp at hf ⊢; omega)
  | @stepKeyIdx tok k e i rest cls kvs cls' xs n c hk hl hn hx hm ih =>
    intro fuel q found entry hq hf
    obtain ⟨f, rfl⟩ : ∃ f, fuel = f + 2 := ⟨fuel - 2, by simp at hf; omega⟩
    rw [find_keyidx_step_sp (f + 1) root sp entry rl q found tok k e i rest cls kvs _ hq hk hl]
    have hq1 : getAt root (q ++ [Seg.key k]) = some (.list cls' xs) := by
      rw [getAt_snoc, hq]; simp [child, hl]
    rw [find_idx_step_sp f root sp false rl (q ++ [Seg.key k]) _ (bracket e) e i rest hm.ne_nil cls' xs n hq1 hk.inner hn]
    have hq' : getAt root (q ++ [Seg.key k] ++ [Seg.idx n]) = some c := by
      rw [getAt_snoc, hq1]; simp [child, hx]
    exact ih f _ _ false hq' (by simp at hf ⊢; omega)

theorem findL_miss (root : Val) (rl : Bool) (sp : Pos) {toks : List Str} {v : Val} (h : MissAt toks v) :
    ∀ (fuel : Nat) (q : Pos) (found : Str), (∃ cls xs, v = .list cls xs) → getAt root q = some v →
      fuel ≥ 2 * toks.length →
      ∃ r, findL fuel root sp toks (.at q) rl found = .ok (root, r) ∧ r.isFound = false := by
  induction h with
  | @idx tok e i rest cls xs hk ho =>
    intro fuel q found _ hq hf
    obtain ⟨f, rfl⟩ : ∃ f, fuel = f + 1 := ⟨fuel - 1, by simp at hf; omega⟩
    rw [findL_idx_miss f root sp rl q found tok e i rest cls xs hq hk ho]
    exact ⟨_, rfl, isFound_notFound_cons _ _ _ rfl⟩
  | keyIdx _ _ _ => intro _ _ _ hl; obtain ⟨_, _, h⟩ := hl; cases h
  | stepKey _ _ _ _ => intro _ _ _ hl; obtain ⟨_, _, h⟩ := hl; cases h
  | stepKeyIdx _ _ _ _ _ _ => intro _ _ _ hl; obtain ⟨_, _, h⟩ := hl; cases h
  | @stepIdx tok e i rest cls xs n c hk hn hx hm ih =>
    intro fuel q found _ hq hf
    obtain ⟨f, rfl⟩ : ∃ f, fuel = f + 1 := ⟨fuel - 1, by simp at hf; omega⟩
    have hq' : getAt root (q ++ [.idx n]) = some c := by
      rw [getAt_snoc, hq]; simp [child, hx]
    have hf' : f ≥ 2 * rest.length := by simp at hf; omega
    cases c with
    | dict dc kvs =>
      rw [findL_idx_step_dict f root sp rl q found tok e i rest hm.ne_nil cls xs n dc kvs hq hk hn hx]
      exact find_miss_sp root rl sp hm f (q ++ [.idx n]) _ true hq' hf'
    | list lc ys =>
      rw [findL_idx_step_list f root sp rl q found tok e i rest hm.ne_nil cls xs n lc ys hq hk hn hx]
      exact ih f (q ++ [.idx n]) _ ⟨lc, ys, rfl⟩ hq' hf'
    | _ => cases hm

/-- the steps walk along existing nodes and then index a list out of range -/
def stepsMiss : Val → List StepSp → Bool
  | .dict _ kvs, .key k :: rest =>
    match lookup k kvs with
    | some c => stepsMiss c rest
    | Option.none => false
  | .list _ xs, .idx e _ :: rest =>
    match normIdx e.val xs.length with
    | Option.none => true
    | some n =>
      match xs[n]? with
      | some c => stepsMiss c rest
      | Option.none => false
  | _, _ => false

theorem stepsMiss_key_inv {v : Val} {k : Str} {rest : List StepSp} (h : stepsMiss v (.key k :: rest) = true) :
    ∃ cls kvs x, v = .dict cls kvs ∧ lookup k kvs = some x ∧ stepsMiss x rest = true := by
  cases v with
  | dict cls kvs =>
    simp only [stepsMiss] at h
    cases hl : lookup k kvs with
    | none => simp [hl] at h
    | some x => exact ⟨cls, kvs, x, rfl, hl, by simpa [hl] using h⟩
  | _ => simp [stepsMiss] at h

theorem stepsMiss_idx_inv {v : Val} {e : IdxSp} {sep : Bool} {rest : List StepSp}
    (h : stepsMiss v (.idx e sep :: rest) = true) :
    ∃ cls xs, v = .list cls xs ∧ (OutOfRange e.val xs.length ∨
      ∃ n y, normIdx e.val xs.length = some n ∧ xs[n]? = some y ∧ stepsMiss y rest = true) := by
  cases v with
  | list cls xs =>
    simp only [stepsMiss] at h
    refine ⟨cls, xs, rfl, ?_⟩
    cases hn : normIdx e.val xs.length with
    | none => exact Or.inl (outOfRange_of_normIdx_none hn)
    | some n =>
      cases hx : xs[n]? with
      | none => simp [hn, hx] at h
      | some y => exact Or.inr ⟨n, y, rfl, hx, by simpa [hn, hx] using h⟩
  | _ => simp [stepsMiss] at h

theorem stepsMiss_nil (v : Val) : stepsMiss v [] = false := by
  cases v <;> rfl

theorem missAt_steps : ∀ (steps : List StepSp) (v : Val), PlainSteps steps → stepsMiss v steps = true →
    MissAt (toksOf steps) v
  | [], v, _, h => by rw [stepsMiss_nil] at h; cases h
  | [.key k], v, hp, h => by
    obtain ⟨cls, kvs, x, rfl, hl, hr⟩ := stepsMiss_key_inv h
    rw [stepsMiss_nil] at hr; cases hr
  | .key k :: .key k2 :: rest, v, hp, h => by
    obtain ⟨cls, kvs, x, rfl, hl, hr⟩ := stepsMiss_key_inv h
    have ih := missAt_steps (.key k2 :: rest) x hp.2 hr
    rw [toksOf_key_cons k _ (by intro e r h; cases h)]
    exact .stepKey hp.1.keyTok hl ih
  | .key k :: .idx e true :: rest, v, hp, h => by
    obtain ⟨cls, kvs, x, rfl, hl, hr⟩ := stepsMiss_key_inv h
    have ih := missAt_steps (.idx e true :: rest) x hp.2 hr
    rw [toksOf_key_cons k _ (by intro e r h; cases h)]
    exact .stepKey hp.1.keyTok hl ih
  | .key k :: .idx e false :: rest, v, hp, h => by
    obtain ⟨cls, kvs, x, rfl, hl, hr⟩ := stepsMiss_key_inv h
    obtain ⟨cls', xs, rfl, ho | ⟨n, y, hn, hx, hr2⟩⟩ := stepsMiss_idx_inv hr
    · exact .keyIdx (e.keyIdxTok hp.1) hl ho
    · exact .stepKeyIdx (e.keyIdxTok hp.1) hl hn hx (missAt_steps rest y hp.2 hr2)
  | .idx e sep :: rest, v, hp, h => by
    obtain ⟨cls', xs, rfl, ho | ⟨n, y, hn, hx, hr2⟩⟩ := stepsMiss_idx_inv h
    · exact .idx e.idxTok ho
    · exact .stepIdx e.idxTok hn hx (missAt_steps rest y hp hr2)

/-- what `_get` does with a miss: item access raises IndexError, `get`/`first` give the default -/
def missResult (root dflt : Val) (raise : Bool) : Val × PyM Val :=
  if raise then (root, .error .IndexError) else (root, .ok dflt)

theorem getCore_miss_dict (fuel : Nat) (cls : Cls) (kvs : List (Str × Val)) (lead : Lead)
    (steps : List StepSp) (d : Val) (raise rl : Bool)
    (hp : PlainSteps steps) (hmiss : stepsMiss (.dict cls kvs) steps = true)
    (hf : fuel ≥ 2 * steps.length) :
    getCore fuel (.dict cls kvs) (renderSp lead steps) d raise rl = missResult (.dict cls kvs) d raise := by
  have hm := missAt_steps steps _ hp hmiss
  have htok := tokenize_renderSp lead steps hp
  have hlen := toksOf_length_le steps
  obtain ⟨r, hr, hnf⟩ := find_miss_sp (.dict cls kvs) rl [] hm fuel [] slash true rfl (by omega)
  -- the first step is a key and there is a second step
  cases steps with
  | nil => rw [stepsMiss_nil] at hmiss; cases hmiss
  | cons s r0 =>
    cases s with
    | idx e sep => simp [stepsMiss] at hmiss
    | key k =>
      obtain ⟨hk, _⟩ := hp
      obtain ⟨_, _, x0, hv, _, hr0⟩ := stepsMiss_key_inv hmiss
      cases r0 with
      | nil => rw [stepsMiss_nil] at hr0; cases hr0
      | cons s2 r2 =>
        have hbody : dropSlash (renderSteps (.key k :: s2 :: r2)) = k ++ renderSteps (s2 :: r2) := by
          simp [renderSteps_cons, renderStep, dropSlash]
        obtain ⟨x, k', rfl⟩ : ∃ x k', k = x :: k' := by
          cases k with
          | nil => exact absurd rfl hk.ne
          | cons x k' => exact ⟨x, k', rfl⟩
        have hxq : x ≠ '?' := plainChar_ne_q (hk.chars x (by simp))
        have hq : startsWith (renderSp lead (.key (x :: k') :: s2 :: r2)) ['?'] = false := by
          unfold renderSp; rw [hbody]
          cases lead <;> simp [leadStr, startsWith, hxq]
        have hpc : hasPathChar (renderSp lead (.key (x :: k') :: s2 :: r2)) = true := by
          obtain ⟨ch, rs, hrs, hch⟩ := renderStep_head s2
          refine hasPathChar_of_mem (ch := ch) ?_ hch
          unfold renderSp; rw [hbody, renderSteps_cons, hrs]; simp
        simp only [getCore, hq, Bool.false_eq_true, if_false, hpc, if_true, htok]
        rw [hr]
        simp only [hnf, Bool.false_eq_true, if_false, missResult]

theorem getCore_miss_list (fuel : Nat) (cls : Cls) (xs : List Val) (lead : Lead)
    (steps : List StepSp) (d : Val) (raise rl : Bool)
    (hp : PlainSteps steps) (hmiss : stepsMiss (.list cls xs) steps = true)
    (hf : fuel ≥ 2 * steps.length) :
    getCore fuel (.list cls xs) (renderSp lead steps) d raise rl = missResult (.list cls xs) d raise := by
  have hm := missAt_steps steps _ hp hmiss
  have htok := tokenize_renderSp lead steps hp
  have hlen := toksOf_length_le steps
  obtain ⟨r, hr, hnf⟩ := findL_miss (.list cls xs) rl [] hm fuel [] slash ⟨cls, xs, rfl⟩ rfl (by omega)
  cases steps with
  | nil => rw [stepsMiss_nil] at hmiss; cases hmiss
  | cons s r0 =>
    cases s with
    | key k => simp [stepsMiss] at hmiss
    | idx e sep =>
      have hbody : dropSlash (renderSteps (.idx e sep :: r0)) = '[' :: (e.text ++ ']' :: renderSteps r0) := by
        cases sep <;> simp [renderSteps_cons, renderStep, dropSlash, bracket]
      have hq : startsWith (renderSp lead (.idx e sep :: r0)) ['?'] = false := by
        unfold renderSp; rw [hbody]
        cases lead <;> simp [leadStr, startsWith]
      have hpc : hasPathChar (renderSp lead (.idx e sep :: r0)) = true := by
        refine hasPathChar_of_mem (ch := '[') ?_ (Or.inr rfl)
        unfold renderSp; rw [hbody]; simp
      have hxe : (renderSp lead (.idx e sep :: r0)).isEmpty = false := by
        unfold renderSp; rw [hbody]
        cases lead <;> simp [leadStr]
      simp only [getCore, hxe, Bool.false_eq_true, if_false, hq, hpc, if_true, htok]
      rw [hr]
      simp only [hnf, Bool.false_eq_true, if_false, missResult]

end N0.XPath
