import N0Verif.Proofs.CompareKeyed
/-!
The default comparison is exact under a LOCAL collision hypothesis (C07, sharpening `default_exact_uniq`).

`default_exact_uniq` asks `str()` to be injective on the union of all non-record list items of both trees
(`NoStrCollision`).  What the proof needs is much less, and one-sided:

* `DtLocalOK b` — in every list of the RIGHT tree, two items with the same key (`str()` of a non-record item,
  `''` for a record) are both records or identical.  This is exactly the class of finding C07-b (`[1, '1']`,
  `['', {}]`, `[None, 'None']`); collisions across two lists (`[1]` against `['1']`) are harmless;
* `DtNestedInj a b` — lists nested directly in lists are keyed by their `str()`, which must determine them
  (true of `repr` on genuine Python values; the floats of the model are opaque lexemes, `dt_nested_needed_cex`).

`dt_tight` / `dt_tight_rec`: the class is tight — every pair of distinct leaves with the same `str()`, and every
leaf with `str() == ''` next to a record, produces two lists that are equal up to order and reported different.
-/
namespace N0.Compare
open N0

set_option linter.unusedSimpArgs false
set_option linter.unusedVariables false

/-! ### the local hypothesis -/

/-- two items of the list with the same key are both records (paired in order) or identical -/
def DtListLocal (xs : List Val) : Prop :=
  ∀ x ∈ xs, ∀ y ∈ xs, key0 x = key0 y → (isRec x = true ∧ isRec y = true) ∨ x = y

mutual
/-- every list of the tree, at every depth, satisfies `DtListLocal` -/
def DtLocalOK : Val → Prop
  | .list _ xs => DtListLocal xs ∧ DtLocalOKL xs
  | .dict _ kvs => DtLocalOKK kvs
  | _ => True
def DtLocalOKL : List Val → Prop
  | [] => True
  | x :: xs => DtLocalOK x ∧ DtLocalOKL xs
def DtLocalOKK : List (Str × Val) → Prop
  | [] => True
  | (_, v) :: rest => DtLocalOK v ∧ DtLocalOKK rest
end

def isListV : Val → Bool
  | .list _ _ => true
  | _ => false

/-- `str()` determines the lists that are directly nested in lists (both trees) -/
def DtNestedInj (a b : Val) : Prop :=
  ∀ x ∈ listItems a ++ listItems b, ∀ y ∈ listItems a ++ listItems b,
    isListV x = true → isListV y = true → pyStr x = pyStr y → x = y

/-- what the induction carries about an abstract set `S` of non-record list items -/
structure DtItems (S : Val → Prop) : Prop where
  inj : ∀ x y, S x → S y → isListV x = true → isListV y = true → pyStr x = pyStr y → x = y
  refl : ∀ x, S x → eqv x x

theorem dt_localL_mem : ∀ (ys : List Val) (y : Val), DtLocalOKL ys → y ∈ ys → DtLocalOK y
  | [], _, _, h => by cases h
  | x :: xs, y, hl, h => by
    simp only [DtLocalOKL] at hl
    cases h with
    | head => exact hl.1
    | tail _ h' => exact dt_localL_mem xs y hl.2 h'

theorem dt_localK_lookup : ∀ (kvs : List (Str × Val)) (k : Str) (w : Val), DtLocalOKK kvs →
    Val.lookup k kvs = some w → DtLocalOK w
  | [], _, _, _, h => by simp [Val.lookup] at h
  | (k', v) :: rest, k, w, hl, h => by
    simp only [DtLocalOKK] at hl
    simp only [Val.lookup] at h
    split at h
    · cases h; exact hl.1
    · exact dt_localK_lookup rest k w hl.2 h

/-- what is known about a remaining entry of the right list `ys` -/
def DtGood (S : Val → Prop) (ys : List Val) (e : KE) : Prop :=
  e.1 = key0 e.2.2 ∧ GoodV S e.2.2 ∧ e.2.2 ∈ ys ∧ DtLocalOK e.2.2

theorem dt_not_eqv_of_ne {S : Val → Prop} (hS : DtItems S) {x y : Val} (hrx : isRec x = false)
    (hsx : S x) (hsy : isRec y = false → S y) (hk : key0 x = key0 y) (hne : x ≠ y) : ¬ eqv x y := by
  intro he
  have ht := eqv_tyOf he
  cases x with
  | dict c kvs => simp [isRec] at hrx
  | list c xs =>
    cases y with
    | list c' ys =>
      have hry : isRec (Val.list c' ys) = false := rfl
      exact hne (hS.inj _ _ hsx (hsy hry) rfl rfl (by simpa [key0] using hk))
    | _ => simp [tyOf] at ht
  | none => exact hne ((eqv_leaf _ _ (Or.inr rfl)).1 he)
  | bool b => exact hne ((eqv_leaf _ _ (Or.inl rfl)).1 he)
  | int i => exact hne ((eqv_leaf _ _ (Or.inl rfl)).1 he)
  | flt f => exact hne ((eqv_leaf _ _ (Or.inl rfl)).1 he)
  | str s => exact hne ((eqv_leaf _ _ (Or.inl rfl)).1 he)

theorem dt_rec_of_tyOf {x y : Val} (ht : tyOf x = tyOf y) (hx : isRec x = true) : isRec y = true := by
  cases x <;> cases y <;> simp_all [isRec, tyOf]

/-- the pairing step: `x` (left) has found `y`, the first remaining right entry with its key -/
theorem dt_hit_iff {S : Val → Prop} (hS : DtItems S) {ys : List Val} (hloc : DtListLocal ys)
    {x y : Val} {xs : List Val} {l1 l2 : List KE} {j : Nat}
    (hxS : isRec x = false → S x) (hyS : isRec y = false → S y) (hyys : y ∈ ys) (hky : key0 x = key0 y)
    (hl1 : ∀ e ∈ l1, e.1 ≠ key0 x)
    (hkey : ∀ e ∈ l1 ++ (key0 x, j, y) :: l2, e.1 = key0 e.2.2)
    (hin : ∀ e ∈ l1 ++ (key0 x, j, y) :: l2, e.2.2 ∈ ys) :
    (eqv x y ∧ ListSpec xs (vals (l1 ++ l2))) ↔ ListSpec (x :: xs) (vals (l1 ++ (key0 x, j, y) :: l2)) := by
  have hval_ys : ∀ z ∈ vals (l1 ++ (key0 x, j, y) :: l2), z ∈ ys := by
    intro z hz
    simp only [vals, List.mem_map] at hz
    obtain ⟨e, he, rfl⟩ := hz
    exact hin e he
  cases hrec : isRec x with
  | true =>
    have hk0 : key0 y = [] := by rw [← hky, key0_rec hrec]
    cases hry : isRec y with
    | true =>
      rw [key0_rec hrec] at hl1
      have hn := filter_rec_keys l1 (fun e he => hkey e (by simp [he])) hl1
      exact (spec_rec_some hrec hry hn).symm
    | false =>
      -- a non-record with the key of a record: no record can remain (it would collide with `y` in `ys`)
      have hne : ¬ eqv x y := by
        intro he
        have := dt_rec_of_tyOf (eqv_tyOf he) hrec
        rw [hry] at this; cases this
      have hnorec : (vals (l1 ++ (key0 x, j, y) :: l2)).filter isRec = [] := by
        rw [List.filter_eq_nil_iff]
        intro z hz hzr
        have hzys := hval_ys z hz
        have hkz : key0 z = key0 y := by rw [key0_rec hzr, hk0]
        rcases hloc z hzys y hyys hkz with ⟨_, hyr⟩ | hzy
        · rw [hry] at hyr; cases hyr
        · rw [hzy, hry] at hzr; cases hzr
      have hnot : ¬ ListSpec (x :: xs) (vals (l1 ++ (key0 x, j, y) :: l2)) := spec_rec_none hrec hnorec
      constructor
      · intro hh; exact absurd hh.1 hne
      · intro hh; exact absurd hh hnot
  | false =>
    by_cases hxy : x = y
    · subst hxy
      have hxx : eqv x x := hS.refl x (hxS hrec)
      rw [spec_nonrec_some hrec]
      simp [hxx]
    · -- `x` is not an item of `ys` any more (it would collide with `y`), and the pair differs
      have hne : ¬ eqv x y := dt_not_eqv_of_ne hS hrec (hxS hrec) hyS hky hxy
      have hnot : ¬ ListSpec (x :: xs) (vals (l1 ++ (key0 x, j, y) :: l2)) := by
        apply spec_nonrec_none hrec
        intro hm
        rcases hloc x (hval_ys x hm) y hyys hky with ⟨hxr, _⟩ | hh
        · rw [hrec] at hxr; cases hxr
        · exact hxy hh
      constructor
      · intro hh; exact absurd hh.1 hne
      · intro hh; exact absurd hh hnot

/-! ### the keyed comparison is exact -/

mutual
theorem dt_sub_exact (cfg : Cfg) (h : NoOpts cfg) (hd : cfg.direct = false) (S : Val → Prop) (hS : DtItems S)
    (site : Site) (p : Path) (v w : Val) (hv : isN0 v = true) (hw : isN0 w = true)
    (hiv : ∀ z ∈ listItems v, S z) (hiw : ∀ z ∈ listItems w, S z) (hlw : DtLocalOK w)
    (ht : tyOf v = tyOf w) (hs : isPyScalar v = false) :
      ∃ r, sub cfg site p v w = .ok r ∧ (r.diffs = 0 ↔ eqv v w) :=
  match v, w, hv, hw, hiv, hiw, hlw, ht, hs with
  | .list c xs, w, hv, hw, hiv, hiw, hlw, ht, _ => by
    cases w with
    | list c' ys =>
      simp only [isN0, Bool.and_eq_true, beq_iff_eq] at hv hw
      obtain ⟨hc, hxs⟩ := hv
      obtain ⟨hc', hys⟩ := hw
      subst hc; subst hc'
      simp only [listItems] at hiv hiw
      simp only [DtLocalOK] at hlw
      have ho : ∀ e ∈ mkEntries 0 (ys.map key0) ys, DtGood S ys e := by
        intro e he
        have hm := mkEntries_key0 ys 0 e he
        have hl := listItemsL_mem ys e.2.2 hm.2
        exact ⟨hm.1, ⟨isN0L_mem ys _ hys hm.2, fun z hz => hiw z (hl.1 z hz), fun hr => hiw _ (hl.2 hr)⟩, hm.2,
          dt_localL_mem ys _ hlw.2 hm.2⟩
      obtain ⟨r, hr, hiff⟩ := dt_keyedWalk_exact cfg h hd S hS p (.list .n0 xs) (.list .n0 ys) ys hlw.1 xs
        (mkEntries 0 (xs.map key0) xs) (mkEntries 0 (ys.map key0) ys) 0 hxs hiv ho
      refine ⟨r, ?_, ?_⟩
      · simp [sub, hd, excluded_noOpts h, keysOf_noOpts h, hr]
      · rw [hiff (mkEntries_keys0 xs 0), mkEntries_vals0]
        simp [eqv, ListSpec]
    | _ => simp [tyOf] at ht
  | .dict c kvs, w, hv, hw, hiv, hiw, hlw, ht, _ => by
    cases w with
    | dict c' kvs' =>
      simp only [isN0, Bool.and_eq_true, beq_iff_eq] at hv hw
      obtain ⟨hc, hxs⟩ := hv
      obtain ⟨hc', hys⟩ := hw
      subst hc; subst hc'
      simp only [listItems] at hiv hiw
      simp only [DtLocalOK] at hlw
      obtain ⟨r, hr, hiff⟩ := dt_dictWalk_exact cfg h hd S hS p (.dict .n0 kvs) (.dict .n0 kvs') kvs kvs' kvs true
        hxs hys hiv hiw hlw
      refine ⟨r, ?_, ?_⟩
      · simp [sub, hr]
      · rw [hiff, dictTail_diffs_noOpts h]
        simp only [eqv, true_and, eqvK_eq_common, List.all_eq_true]
        exact and_assoc.symm
    | _ => simp [tyOf] at ht
  | .none, w, _, _, _, _, _, ht, _ => by
    cases w <;> simp [tyOf] at ht
    exact ⟨Res.empty, by simp [sub], by simp [eqv]⟩
  | .bool _, _, _, _, _, _, _, _, hs => by simp [isPyScalar] at hs
  | .int _, _, _, _, _, _, _, _, hs => by simp [isPyScalar] at hs
  | .flt _, _, _, _, _, _, _, _, hs => by simp [isPyScalar] at hs
  | .str _, _, _, _, _, _, _, _, hs => by simp [isPyScalar] at hs
termination_by structural v

theorem dt_dictWalk_exact (cfg : Cfg) (h : NoOpts cfg) (hd : cfg.direct = false) (S : Val → Prop) (hS : DtItems S)
    (p : Path) (sa oa : Val) (skvs okvs : List (Str × Val))
    (kvs : List (Str × Val)) (still : Bool) (hk : isN0K kvs = true) (ho : isN0K okvs = true)
    (hik : ∀ z ∈ listItemsK kvs, S z) (hio : ∀ z ∈ listItemsK okvs, S z) (hlo : DtLocalOKK okvs) :
      ∃ r, dictWalk cfg p sa oa skvs okvs still kvs = .ok r ∧
        (r.diffs = 0 ↔ (commonP kvs okvs ∧ (dictTail cfg p sa oa skvs okvs true).diffs = 0)) :=
  match kvs, still, hk, ho, hik, hio with
  | [], still, _, _, _, _ => by
    refine ⟨_, by rw [dictWalk], ?_⟩
    simp [commonP, dictTail]
  | (k, v) :: rest, still, hk, ho, hik, hio => by
    simp only [isN0K, Bool.and_eq_true] at hk
    have hik1 : ∀ z ∈ listItems v, S z := fun z hz => hik z (by simp [listItemsK, hz])
    have hik2 : ∀ z ∈ listItemsK rest, S z := fun z hz => hik z (by simp [listItemsK, hz])
    cases hl : Val.lookup k okvs with
    | none =>
      obtain ⟨r, hr, hiff⟩ := dt_dictWalk_exact cfg h hd S hS p sa oa skvs okvs rest still hk.2 ho hik2 hio hlo
      refine ⟨r, by simp [dictWalk, hl, hr], ?_⟩
      simpa [commonP, hl] using hiff
    | some w =>
      have hw := isN0K_lookup okvs k w ho hl
      have hiw : ∀ z ∈ listItems w, S z := fun z hz => hio z (listItemsK_lookup okvs k w hl z hz)
      have hlw := dt_localK_lookup okvs k w hlo hl
      have hce := classifyEntry_exactP h (p ++ [.key k]) v w
      cases hcl : classifyEntry cfg (p ++ [.key k]) v w with
      | emit r0 s =>
        rw [hcl] at hce
        obtain ⟨r, hr, hiff⟩ := dt_dictWalk_exact cfg h hd S hS p sa oa skvs okvs rest (still && s) hk.2 ho hik2 hio hlo
        refine ⟨r0 ++ r, by simp [dictWalk, hl, hcl, hr], ?_⟩
        simp only [ActExactP] at hce
        simp only [append_diffs, Nat.add_eq_zero_iff, hiff, commonP, hl, hce]
        exact and_assoc.symm
      | descend =>
        rw [hcl] at hce
        obtain ⟨r1, hr1, hiff1⟩ := dt_sub_exact cfg h hd S hS .entry (p ++ [.key k]) v w hk.1 hw hik1 hiw hlw hce.1 hce.2
        obtain ⟨r, hr, hiff⟩ := dt_dictWalk_exact cfg h hd S hS p sa oa skvs okvs rest still hk.2 ho hik2 hio hlo
        refine ⟨r1 ++ r, by simp [dictWalk, hl, hcl, hr1, hr], ?_⟩
        simp only [append_diffs, Nat.add_eq_zero_iff, hiff, hiff1, commonP, hl]
        exact and_assoc.symm
termination_by structural kvs

theorem dt_keyedWalk_exact (cfg : Cfg) (h : NoOpts cfg) (hd : cfg.direct = false) (S : Val → Prop) (hS : DtItems S)
    (p : Path) (sa oa : Val) (ys : List Val) (hloc : DtListLocal ys) (xs : List Val) (sr orr : List KE) (i : Nat)
    (hx : isN0L xs = true) (hix : ∀ z ∈ listItemsL xs, S z)
    (ho : ∀ e ∈ orr, DtGood S ys e) :
      ∃ r, keyedWalk cfg p sa oa i xs (xs.map key0) sr orr = .ok r ∧
        (sr.map (fun e => e.1) = xs.map key0 → (r.diffs = 0 ↔ ListSpec xs (vals orr))) :=
  match xs, sr, orr, i, hx, hix, ho with
  | [], sr, orr, i, _, _, _ => by
    refine ⟨keyedTail p sr orr, by simp [keyedWalk], ?_⟩
    intro hsr
    simp only [List.map_nil, List.map_eq_nil_iff] at hsr
    subst hsr
    rw [spec_nil]
    simp [keyedTail, vals]
  | x :: xs, sr, orr, i, hx, hix, ho => by
    simp only [isN0L, Bool.and_eq_true] at hx
    have hix1 : ∀ z ∈ listItems x, S z := fun z hz => hix z (by simp [listItemsL, hz])
    have hix2 : ∀ z ∈ listItemsL xs, S z := fun z hz => hix z (by simp [listItemsL, hz])
    have hxS : isRec x = false → S x := fun hr => hix x (by simp [listItemsL, hr])
    have hinv : ∀ l : List KE, (∀ e ∈ l, e ∈ orr) → ∀ e ∈ l, e.1 = key0 e.2.2 := fun l hl e he => (ho e (hl e he)).1
    cases hf : findKey (key0 x) orr with
    | none =>
      obtain ⟨r, hr, _⟩ := dt_keyedWalk_exact cfg h hd S hS p sa oa ys hloc xs sr orr (i + 1) hx.2 hix2 ho
      refine ⟨r, by simp [keyedWalk, hf, hr], ?_⟩
      intro hsr
      have hge := keyedWalk_diffs_ge cfg p sa oa xs _ sr orr (i + 1) r hr
      have hlen : sr.length = xs.length + 1 := by
        have := congrArg List.length hsr
        simpa using this
      have hne := kfind_none orr _ hf
      have hnot : ¬ ListSpec (x :: xs) (vals orr) := by
        cases hrec : isRec x with
        | true =>
          rw [key0_rec hrec] at hne
          exact spec_rec_none hrec (filter_rec_keys orr (fun e he => (ho e he).1) hne)
        | false =>
          apply spec_nonrec_none hrec
          intro hm
          simp only [vals, List.mem_map] at hm
          obtain ⟨e, he, hex⟩ := hm
          exact hne e he (by rw [(ho e he).1, hex])
      constructor
      · intro h0; omega
      · intro hsp; exact absurd hsp hnot
    | some jy =>
      obtain ⟨j, y⟩ := jy
      obtain ⟨l1, l2, horr, hl1, her⟩ := kfind_some orr _ j y hf
      have hmem : (key0 x, j, y) ∈ orr := by rw [horr]; simp
      have hgy := ho _ hmem
      have hy : GoodV S y := hgy.2.1
      have hky : key0 x = key0 y := hgy.1
      have hyys : y ∈ ys := hgy.2.2.1
      have ho' : ∀ e ∈ eraseKey (key0 x) orr, DtGood S ys e := by
        rw [her]
        intro e he
        apply ho
        rw [horr]
        simp only [List.mem_append, List.mem_cons] at he ⊢
        cases he with
        | inl h1 => exact Or.inl h1
        | inr h1 => exact Or.inr (Or.inr h1)
      obtain ⟨r', hr', hiff'⟩ := dt_keyedWalk_exact cfg h hd S hS p sa oa ys hloc xs (eraseKey (key0 x) sr)
        (eraseKey (key0 x) orr) (i + 1) hx.2 hix2 ho'
      have hpair : ∃ r1, keyedWalk cfg p sa oa i (x :: xs) ((x :: xs).map key0) sr orr = .ok (r1 ++ r') ∧
          (r1.diffs = 0 ↔ eqv x y) := by
        have hce := classifyItem_exactP h p (p ++ [if i = j then PSeg.idx i else PSeg.idx2 i j]) (p ++ [if i = j then PSeg.idx i else PSeg.idx2 i j]) sa oa x y
        cases hcl : classifyItem cfg p (p ++ [if i = j then PSeg.idx i else PSeg.idx2 i j]) (p ++ [if i = j then PSeg.idx i else PSeg.idx2 i j]) sa oa x y with
        | emit r0 s =>
          rw [hcl] at hce
          exact ⟨r0, by simp [keyedWalk, hf, hcl, hr'], hce⟩
        | descend =>
          rw [hcl] at hce
          obtain ⟨r1, hr1, hiff1⟩ := dt_sub_exact cfg h hd S hS .item
            (p ++ [if i = j then PSeg.idx i else PSeg.idx2 i j]) x y hx.1 hy.1 hix1 hy.2.1 hgy.2.2.2 hce.1 hce.2
          exact ⟨r1, by simp [keyedWalk, hf, hcl, hr1, hr'], hiff1⟩
      obtain ⟨r1, hr1, hiff1⟩ := hpair
      refine ⟨r1 ++ r', hr1, ?_⟩
      intro hsr
      have hiff2 := hiff' (kerase_keys hsr)
      rw [her] at hiff2
      rw [append_diffs, Nat.add_eq_zero_iff, hiff1, hiff2, horr]
      exact dt_hit_iff hS hloc hxS hy.2.2 hyys hky hl1
        (by rw [← horr]; exact fun e he => (ho e he).1) (by rw [← horr]; exact fun e he => (ho e he).2.2.1)
termination_by structural xs
end

/-! ### the entry point -/

/-- **the default comparison is exact under the local hypothesis on the right operand** -/
theorem dt_default_exact_right (fl : Flags) (a b : Val) (ha : isN0 a = true) (hb : isN0 b = true) (hr : RootPair a b)
    (hua : uniqKeys a = true) (hub : uniqKeys b = true) (hlb : DtLocalOK b) (hn : DtNestedInj a b) :
    ∃ r, compareTop (Cfg.default fl false) a b = .ok r ∧ (r.diffs = 0 ↔ eqv a b) := by
  rw [compareTop_eq_sub _ a b hr]
  have hS : DtItems (fun z => z ∈ listItems a ++ listItems b) :=
    ⟨fun x y hx hy => hn x hx y hy, itemsRefl_of_uniq a b hua hub⟩
  exact dt_sub_exact _ (noOpts_default fl false) rfl _ hS .entry [] a b ha hb
    (fun z hz => List.mem_append_left _ hz) (fun z hz => List.mem_append_right _ hz) hlb
    (rootPair_ty hr).1 (rootPair_ty hr).2

/-- the symmetric form: no list of either tree holds two non-identical items with the same key -/
theorem dt_default_exact (fl : Flags) (a b : Val) (ha : isN0 a = true) (hb : isN0 b = true) (hr : RootPair a b)
    (hua : uniqKeys a = true) (hub : uniqKeys b = true) (hla : DtLocalOK a) (hlb : DtLocalOK b)
    (hn : DtNestedInj a b) :
    ∃ r, compareTop (Cfg.default fl false) a b = .ok r ∧ (r.diffs = 0 ↔ eqv a b) :=
  dt_default_exact_right fl a b ha hb hr hua hub hlb hn

/-! ### the new hypotheses are weaker than `NoStrCollision` -/

mutual
theorem dt_local_of_items (S : Val → Prop) (hinj : ∀ x y, S x → S y → pyStr x = pyStr y → x = y)
    (hne : ∀ x, S x → pyStr x ≠ []) (v : Val) (hi : ∀ z ∈ listItems v, S z) : DtLocalOK v :=
  match v, hi with
  | .list c xs, hi => by
    simp only [listItems] at hi
    simp only [DtLocalOK]
    refine ⟨?_, dt_localL_of_items S hinj hne xs hi⟩
    intro x hx y hy hk
    cases hrx : isRec x with
    | true =>
      cases hry : isRec y with
      | true => exact Or.inl ⟨rfl, rfl⟩
      | false =>
        have hsy := hi y ((listItemsL_mem xs y hy).2 hry)
        rw [key0_rec hrx, key0_nonrec hry] at hk
        exact absurd hk.symm (hne y hsy)
    | false =>
      have hsx := hi x ((listItemsL_mem xs x hx).2 hrx)
      cases hry : isRec y with
      | true =>
        rw [key0_nonrec hrx, key0_rec hry] at hk
        exact absurd hk (hne x hsx)
      | false =>
        have hsy := hi y ((listItemsL_mem xs y hy).2 hry)
        rw [key0_nonrec hrx, key0_nonrec hry] at hk
        exact Or.inr (hinj x y hsx hsy hk)
  | .dict c kvs, hi => by
    simp only [listItems] at hi
    simp only [DtLocalOK]
    exact dt_localK_of_items S hinj hne kvs hi
  | .none, _ => by simp [DtLocalOK]
  | .bool _, _ => by simp [DtLocalOK]
  | .int _, _ => by simp [DtLocalOK]
  | .flt _, _ => by simp [DtLocalOK]
  | .str _, _ => by simp [DtLocalOK]
termination_by structural v

theorem dt_localL_of_items (S : Val → Prop) (hinj : ∀ x y, S x → S y → pyStr x = pyStr y → x = y)
    (hne : ∀ x, S x → pyStr x ≠ []) (xs : List Val) (hi : ∀ z ∈ listItemsL xs, S z) : DtLocalOKL xs :=
  match xs, hi with
  | [], _ => by simp [DtLocalOKL]
  | x :: xs, hi => by
    simp only [DtLocalOKL]
    exact ⟨dt_local_of_items S hinj hne x (fun z hz => hi z (by simp [listItemsL, hz])),
      dt_localL_of_items S hinj hne xs (fun z hz => hi z (by simp [listItemsL, hz]))⟩
termination_by structural xs

theorem dt_localK_of_items (S : Val → Prop) (hinj : ∀ x y, S x → S y → pyStr x = pyStr y → x = y)
    (hne : ∀ x, S x → pyStr x ≠ []) (kvs : List (Str × Val)) (hi : ∀ z ∈ listItemsK kvs, S z) : DtLocalOKK kvs :=
  match kvs, hi with
  | [], _ => by simp [DtLocalOKK]
  | (k, v) :: rest, hi => by
    simp only [DtLocalOKK]
    exact ⟨dt_local_of_items S hinj hne v (fun z hz => hi z (by simp [listItemsK, hz])),
      dt_localK_of_items S hinj hne rest (fun z hz => hi z (by simp [listItemsK, hz]))⟩
termination_by structural kvs
end

/-- `NoStrCollision` implies the new hypotheses, so `dt_default_exact` contains `default_exact_uniq` -/
theorem dt_of_noStrCollision (a b : Val) (hc : NoStrCollision a b) :
    DtLocalOK a ∧ DtLocalOK b ∧ DtNestedInj a b := by
  refine ⟨?_, ?_, ?_⟩
  · exact dt_local_of_items (fun z => z ∈ listItems a ++ listItems b) (fun x y hx hy => hc.1 x hx y hy) hc.2 a
      (fun z hz => List.mem_append_left _ hz)
  · exact dt_local_of_items (fun z => z ∈ listItems a ++ listItems b) (fun x y hx hy => hc.1 x hx y hy) hc.2 b
      (fun z hz => List.mem_append_right _ hz)
  · intro x hx y hy _ _ hs
    exact hc.1 x hx y hy hs

/-- strictly weaker: `{'a': [1, {'k': None}]}` against `{'a': ['1', {'k': None}]}` — a collision ACROSS the two
lists; `NoStrCollision` fails, the local hypotheses hold (and the theorem gives the right verdict: one line) -/
def dtExA : Val := .dict .n0 [(['a'], .list .n0 [.int 1, .dict .n0 [(['k'], .none)]])]
def dtExB : Val := .dict .n0 [(['a'], .list .n0 [.str ['1'], .dict .n0 [(['k'], .none)]])]

theorem dtEx_not_noStrCollision : ¬ NoStrCollision dtExA dtExB := by
  intro h
  have := h.1 (.int 1) (by simp [dtExA, dtExB, listItems, listItemsK, listItemsL, isRec])
    (.str ['1']) (by simp [dtExA, dtExB, listItems, listItemsK, listItemsL, isRec]) (by decide)
  cases this

theorem dtEx_local : DtLocalOK dtExA ∧ DtLocalOK dtExB ∧ DtNestedInj dtExA dtExB := by
  refine ⟨?_, ?_, ?_⟩
  · simp only [dtExA, DtLocalOK, DtLocalOKK, DtLocalOKL, DtListLocal, and_true]
    decide
  · simp only [dtExB, DtLocalOK, DtLocalOKK, DtLocalOKL, DtListLocal, and_true]
    decide
  · unfold DtNestedInj
    decide

/-! ### the class is tight -/

/-- a leaf: a scalar or `None` -/
def DtLeaf (x : Val) : Prop := isPyScalar x = true ∨ x = .none

theorem dt_leaf_nonrec {x : Val} (h : DtLeaf x) : isRec x = false := by
  rcases h with h | h
  · cases x <;> simp_all [isPyScalar, isRec]
  · subst h; rfl

theorem dt_classify_leaf_ne {cfg : Cfg} (h : NoOpts cfg) (p pne pdt : Path) (sa oa : Val) {x y : Val}
    (hx : DtLeaf x) (hy : DtLeaf y) (hne : x ≠ y) :
    ∃ r s, classifyItem cfg p pne pdt sa oa x y = .emit r s ∧ r.diffs = 1 := by
  rw [classifyItem_noOpts h]
  by_cases ht : tyOf x = tyOf y
  · by_cases hs : isPyScalar x = true
    · simp only [ht, hs, if_true, ne_eq, hne, not_false_eq_true]
      exact ⟨_, _, rfl, rfl⟩
    · exfalso
      rcases hx with hx | hx
      · exact hs hx
      · subst hx
        rcases hy with hy | hy
        · cases y <;> simp_all [tyOf, isPyScalar]
        · exact hne hy.symm
  · by_cases hf : cfg.fl.types = true
    · simp only [ht, hf, if_true, if_false]; exact ⟨_, _, rfl, rfl⟩
    · simp only [ht, hf, if_false]; exact ⟨_, _, rfl, rfl⟩

theorem dt_classify_ty_ne {cfg : Cfg} (h : NoOpts cfg) (p pne pdt : Path) (sa oa : Val) {x y : Val}
    (ht : tyOf x ≠ tyOf y) :
    ∃ r s, classifyItem cfg p pne pdt sa oa x y = .emit r s ∧ r.diffs = 1 := by
  rw [classifyItem_noOpts h]
  by_cases hf : cfg.fl.types = true
  · simp only [ht, hf, if_true, if_false]; exact ⟨_, _, rfl, rfl⟩
  · simp only [ht, hf, if_false]; exact ⟨_, _, rfl, rfl⟩

/-- the default comparison of two two-item lists whose four keys coincide and whose crossed pairs are both
reported: two lines -/
theorem dt_two_by_two (fl : Flags) (x y : Val) (hk : key0 x = key0 y)
    (h1 : ∀ p pne pdt sa oa, ∃ r s, classifyItem (Cfg.default fl false) p pne pdt sa oa x y = .emit r s ∧ r.diffs = 1)
    (h2 : ∀ p pne pdt sa oa, ∃ r s, classifyItem (Cfg.default fl false) p pne pdt sa oa y x = .emit r s ∧ r.diffs = 1) :
    ∃ r, compareTop (Cfg.default fl false) (.list .n0 [x, y]) (.list .n0 [y, x]) = .ok r ∧ r.diffs = 2 := by
  have h := noOpts_default fl false
  obtain ⟨ra, sa, hca, hda⟩ := h1 [] ([] ++ [PSeg.idx 0]) ([] ++ [PSeg.idx 0]) (.list .n0 [x, y]) (.list .n0 [y, x])
  obtain ⟨rb, sb, hcb, hdb⟩ := h2 [] ([] ++ [PSeg.idx 1]) ([] ++ [PSeg.idx 1]) (.list .n0 [x, y]) (.list .n0 [y, x])
  refine ⟨ra ++ (rb ++ keyedTail [] [] []), ?_, ?_⟩
  · have hd : (Cfg.default fl false).direct = false := rfl
    simp only [compareTop, sub, hd, excluded_noOpts h, keysOf_noOpts h, List.map_cons, List.map_nil, mkEntries,
      Bool.false_eq_true, false_and, and_false, if_false]
    simp only [keyedWalk, findKey, eraseKey, hk, if_true, hca, hcb, Nat.zero_add]
  · simp only [append_diffs, hda, hdb, keyedTail, List.length_nil]

/-- **tightness (1).** Any two distinct leaves with the same `str()`: `[x, y]` and `[y, x]` are equal up to
order, yet the default comparison reports two differences. -/
theorem dt_tight (fl : Flags) (x y : Val) (hx : DtLeaf x) (hy : DtLeaf y) (hne : x ≠ y) (hs : pyStr x = pyStr y) :
    (∃ r, compareTop (Cfg.default fl false) (.list .n0 [x, y]) (.list .n0 [y, x]) = .ok r ∧ r.diffs = 2) ∧
      eqv (.list .n0 [x, y]) (.list .n0 [y, x]) := by
  have hrx := dt_leaf_nonrec hx
  have hry := dt_leaf_nonrec hy
  have h := noOpts_default fl false
  constructor
  · apply dt_two_by_two fl x y (by rw [key0_nonrec hrx, key0_nonrec hry, hs])
    · intro p pne pdt sa oa; exact dt_classify_leaf_ne h p pne pdt sa oa hx hy hne
    · intro p pne pdt sa oa; exact dt_classify_leaf_ne h p pne pdt sa oa hy hx (fun e => hne e.symm)
  · simp only [eqv, List.filter, hrx, hry, eqvRecs, Bool.not_false, true_and, if_false, Bool.false_eq_true]
    exact List.Perm.swap _ _ _

/-- **tightness (2).** A leaf whose `str()` is empty next to a record: `[x, R]` and `[R, x]`. -/
theorem dt_tight_rec (fl : Flags) (x : Val) (c : Cls) (kvs : List (Str × Val)) (hx : DtLeaf x) (hs : pyStr x = [])
    (hR : eqv (.dict c kvs) (.dict c kvs)) :
    (∃ r, compareTop (Cfg.default fl false) (.list .n0 [x, .dict c kvs]) (.list .n0 [.dict c kvs, x]) = .ok r ∧
        r.diffs = 2) ∧
      eqv (.list .n0 [x, .dict c kvs]) (.list .n0 [.dict c kvs, x]) := by
  have hrx := dt_leaf_nonrec hx
  have h := noOpts_default fl false
  have hty : tyOf x ≠ tyOf (.dict c kvs) := by
    rcases hx with hx | hx
    · cases x <;> simp_all [isPyScalar, tyOf]
    · subst hx; simp [tyOf]
  constructor
  · apply dt_two_by_two fl x (.dict c kvs) (by rw [key0_nonrec hrx, hs]; rfl)
    · intro p pne pdt sa oa; exact dt_classify_ty_ne h p pne pdt sa oa hty
    · intro p pne pdt sa oa; exact dt_classify_ty_ne h p pne pdt sa oa (fun e => hty e.symm)
  · have hrd : isRec (Val.dict c kvs) = true := rfl
    rw [eqv_list]
    simp only [List.filter, hrx, hrd, eqvRecs, Bool.not_false, Bool.not_true, true_and, if_false, if_true,
      Bool.false_eq_true, hR, and_self]
    exact List.Perm.refl _

/-- the nested-list hypothesis cannot simply be dropped IN THE MODEL (floats are opaque lexemes, so a lexeme
such as `1, 1` makes `repr` ambiguous): the two inner lists `[{'a': [1, 1*, 1]}]` (`1, 1` then `1` / `1` then `1, 1`)
have the same `str()`, are not identical, are `eqv` to each other and free of local collisions; the comparison
reports nothing, but the outer lists are not equal up to order under strict equality of their non-record items -/
def dtNestA : Val := .list .n0 [.list .n0 [.dict .n0 [(['a'], .list .n0 [.flt ['1', ',', ' ', '1'], .flt ['1']])]]]
def dtNestB : Val := .list .n0 [.list .n0 [.dict .n0 [(['a'], .list .n0 [.flt ['1'], .flt ['1', ',', ' ', '1']])]]]

theorem dt_nested_needed_cex :
    (compareTop (Cfg.default Flags.init false) dtNestA dtNestB).map Res.diffs = .ok 0 ∧ ¬ eqv dtNestA dtNestB ∧
      DtLocalOK dtNestA ∧ DtLocalOK dtNestB ∧ isN0 dtNestA = true ∧ isN0 dtNestB = true ∧
      uniqKeys dtNestA = true ∧ uniqKeys dtNestB = true ∧ ¬ DtNestedInj dtNestA dtNestB := by
  refine ⟨by decide, ?_, ?_, ?_, by decide, by decide, by decide, by decide, ?_⟩
  · intro h
    simp only [dtNestA, dtNestB, eqv, List.filter, isRec, Bool.not_false, true_and] at h
    have := List.perm_singleton.1 h.2
    revert this
    decide
  · simp only [dtNestA, DtLocalOK, DtLocalOKK, DtLocalOKL, DtListLocal, and_true]
    decide
  · simp only [dtNestB, DtLocalOK, DtLocalOKK, DtLocalOKL, DtListLocal, and_true]
    decide
  · intro h
    have := h (.list .n0 [.dict .n0 [(['a'], .list .n0 [.flt ['1', ',', ' ', '1'], .flt ['1']])]])
      (by simp [dtNestA, dtNestB, listItems, listItemsK, listItemsL, isRec])
      (.list .n0 [.dict .n0 [(['a'], .list .n0 [.flt ['1'], .flt ['1', ',', ' ', '1']])]])
      (by simp [dtNestA, dtNestB, listItems, listItemsK, listItemsL, isRec]) rfl rfl (by decide)
    revert this
    decide

end N0.Compare
