import N0Verif.Proofs.CompareKeyed
/-!
The hypothesis `KeyFaithful` of the default-comparison theorem (`CompareKeyed.lean`), seen from both sides.

* **It cannot be dropped in the model** (`dt_tight`): for ANY two distinct leaves with the same key the lists
  `[x, y]` and `[y, x]` are equal up to order and two differences are reported.  With the key
  `json.dumps(item, sort_keys=True, default=repr)` (fixes C07-b, C07-c) two distinct leaves of genuine Python values
  never have the same key; in the model they can, because floats are opaque lexemes (`.flt "1"` against `.int 1`).
* **Not proved here**: `KeyFaithful` itself.  It is a statement about `json.dumps(…, sort_keys=True)` — injective up to
  the order of dictionary keys: `null`, `true`/`false`, decimal digits, a float lexeme, a quoted string with its
  escapes, `[…]`, `{…}` with sorted members — which needs a well-formedness predicate on float lexemes and the
  unambiguity of the JSON grammar; the default-comparison theorem takes it as its one hypothesis and the examples
  discharge it by `decide` on concrete trees.
-/
namespace N0.Compare
open N0

set_option linter.unusedSimpArgs false
set_option linter.unusedVariables false

/-! ### the class is tight -/

/-- a leaf: a scalar or `None` -/
def DtLeaf (x : Val) : Prop := isPyScalar x = true ∨ x = .none

theorem dt_leaf_nonrec {x : Val} (h : DtLeaf x) : isRec x = false := by
  rcases h with h | h
  · cases x <;> simp_all [isPyScalar, isRec]
  · subst h; rfl

theorem dt_classify_leaf_ne {cfg : Cfg} (h : NoOpts cfg) (p pne pdt : Path) (sa oa : Val) {x y : Val}
    (hx : DtLeaf x) (hy : DtLeaf y) (hne : x ≠ y) :
    ∃ r s, classifyItem cfg p pne pdt sa oa x y = .emit r s ∧ r.diffs = 1 := by
  rw [classifyItem_noOpts h]
  by_cases ht : tyOf x = tyOf y
  · by_cases hs : isPyScalar x = true
    · simp only [ht, hs, if_true, ne_eq, hne, not_false_eq_true]
      exact ⟨_, _, rfl, rfl⟩
    · exfalso
      rcases hx with hx | hx
      · exact hs hx
      · subst hx
        rcases hy with hy | hy
        · cases y <;> simp_all [tyOf, isPyScalar]
        · exact hne hy.symm
  · by_cases hf : cfg.fl.types = true
    · simp only [ht, hf, if_true, if_false]; exact ⟨_, _, rfl, rfl⟩
    · simp only [ht, hf, if_false]; exact ⟨_, _, rfl, rfl⟩

theorem dt_classify_ty_ne {cfg : Cfg} (h : NoOpts cfg) (p pne pdt : Path) (sa oa : Val) {x y : Val}
    (ht : tyOf x ≠ tyOf y) :
    ∃ r s, classifyItem cfg p pne pdt sa oa x y = .emit r s ∧ r.diffs = 1 := by
  rw [classifyItem_noOpts h]
  by_cases hf : cfg.fl.types = true
  · simp only [ht, hf, if_true, if_false]; exact ⟨_, _, rfl, rfl⟩
  · simp only [ht, hf, if_false]; exact ⟨_, _, rfl, rfl⟩

/-- the default comparison of two two-item lists whose four keys coincide and whose crossed pairs are both
reported: two lines -/
theorem dt_two_by_two (fl : Flags) (x y : Val) (hk : key0 x = key0 y)
    (h1 : ∀ p pne pdt sa oa, ∃ r s, classifyItem (Cfg.default fl false) p pne pdt sa oa x y = .emit r s ∧ r.diffs = 1)
    (h2 : ∀ p pne pdt sa oa, ∃ r s, classifyItem (Cfg.default fl false) p pne pdt sa oa y x = .emit r s ∧ r.diffs = 1) :
    ∃ r, compareTop (Cfg.default fl false) (.list .n0 [x, y]) (.list .n0 [y, x]) = .ok r ∧ r.diffs = 2 := by
  have h := noOpts_default fl false
  obtain ⟨ra, sa, hca, hda⟩ := h1 [] ([] ++ [PSeg.idx 0]) ([] ++ [PSeg.idx 0]) (.list .n0 [x, y]) (.list .n0 [y, x])
  obtain ⟨rb, sb, hcb, hdb⟩ := h2 [] ([] ++ [PSeg.idx 1]) ([] ++ [PSeg.idx 1]) (.list .n0 [x, y]) (.list .n0 [y, x])
  refine ⟨ra ++ (rb ++ keyedTail [] [] []), ?_, ?_⟩
  · have hd : (Cfg.default fl false).direct = false := rfl
    simp only [compareTop, sub, hd, excluded_noOpts h, keysOf_noOpts h, List.map_cons, List.map_nil, mkEntries,
      Bool.false_eq_true, false_and, and_false, if_false]
    simp only [keyedWalk, findKey, eraseKey, hk, if_true, hca, hcb, Nat.zero_add]
  · simp only [append_diffs, hda, hdb, keyedTail, List.length_nil]

/-- **tightness.** Any two distinct leaves with the same key: `[x, y]` and `[y, x]` are equal up to
order, yet the default comparison reports two differences. -/
theorem dt_tight (fl : Flags) (x y : Val) (hx : DtLeaf x) (hy : DtLeaf y) (hne : x ≠ y) (hs : jsonVal x = jsonVal y) :
    (∃ r, compareTop (Cfg.default fl false) (.list .n0 [x, y]) (.list .n0 [y, x]) = .ok r ∧ r.diffs = 2) ∧
      eqv (.list .n0 [x, y]) (.list .n0 [y, x]) := by
  have hrx := dt_leaf_nonrec hx
  have hry := dt_leaf_nonrec hy
  have h := noOpts_default fl false
  constructor
  · apply dt_two_by_two fl x y (by rw [key0_nonrec hrx, key0_nonrec hry, hs])
    · intro p pne pdt sa oa; exact dt_classify_leaf_ne h p pne pdt sa oa hx hy hne
    · intro p pne pdt sa oa; exact dt_classify_leaf_ne h p pne pdt sa oa hy hx (fun e => hne e.symm)
  · simp only [eqv, List.filter, hrx, hry, eqvRecs, Bool.not_false, true_and, if_false, Bool.false_eq_true]
    intro z _
    simp only [List.countP_cons, List.countP_nil]
    omega

end N0.Compare
