import N0Verif.Model.Names
/-!
# Soundness of the executable name-resolution checkers (C20)

Proved once, for every table: a `true` answer of a checker implies the declarative statement.
The instance theorems (`Props/C20.lean`) evaluate the checkers on the generated table.
-/
namespace N0.Names

/-! ## `definesB` / `resolvesB` -/

theorem definesB_sound (tbl : Table) :
    ∀ (fuel m n : Nat), definesB tbl fuel m n = true → Defines tbl m n
  | 0, _, _, h => by simp [definesB] at h
  | fuel + 1, m, n, h => by
    unfold definesB at h
    split at h
    · simp at h
    · rename_i mi hm
      rw [Bool.or_eq_true] at h
      rcases h with h | h
      · exact .bound hm (List.contains_iff_mem.mp h)
      · rw [List.any_eq_true] at h
        obtain ⟨m', hm', h⟩ := h
        split at h
        · simp at h
        · rename_i mi' hm''
          rw [Bool.and_eq_true] at h
          exact .star hm hm' hm'' h.1 (definesB_sound tbl fuel m' n h.2)

/-- more fuel never loses an answer -/
theorem definesB_mono (tbl : Table) :
    ∀ (fuel m n : Nat), definesB tbl fuel m n = true → definesB tbl (fuel + 1) m n = true
  | 0, _, _, h => by simp [definesB] at h
  | fuel + 1, m, n, h => by
    unfold definesB at h ⊢
    split at h
    · simp at h
    · rename_i mi hm
      rw [Bool.or_eq_true] at h ⊢
      rcases h with h | h
      · exact .inl h
      · right
        rw [List.any_eq_true] at h ⊢
        obtain ⟨m', hm', h⟩ := h
        refine ⟨m', hm', ?_⟩
        split at h
        · simp at h
        · rw [Bool.and_eq_true] at h ⊢
          exact ⟨h.1, definesB_mono tbl fuel m' n h.2⟩

theorem definesB_mono_le (tbl : Table) {fuel fuel' m n : Nat} (hle : fuel ≤ fuel')
    (h : definesB tbl fuel m n = true) : definesB tbl fuel' m n = true := by
  induction hle with
  | refl => exact h
  | step _ ih => exact definesB_mono tbl _ m n ih

/-- the checker is complete given enough fuel: every derivation of `Defines` is found -/
theorem definesB_complete (tbl : Table) {m n : Nat} (h : Defines tbl m n) :
    ∃ fuel, definesB tbl fuel m n = true := by
  induction h with
  | bound hm hn =>
    refine ⟨1, ?_⟩
    unfold definesB
    rw [hm]
    simp [hn]
  | @star m m' n mi mi' hm hs hm' hex _ ih =>
    obtain ⟨fuel, ih⟩ := ih
    refine ⟨fuel + 1, ?_⟩
    unfold definesB
    rw [hm]
    simp only [Bool.or_eq_true]
    right
    rw [List.any_eq_true]
    refine ⟨m', hs, ?_⟩
    rw [hm']
    simp [hex, ih]

theorem resolvesB_sound (tbl : Table) {m n : Nat} (h : resolvesB tbl m n = true) :
    Resolves tbl m n := by
  unfold resolvesB at h
  rw [Bool.or_eq_true] at h
  rcases h with h | h
  · exact .inl (definesB_sound tbl _ m n h)
  · exact .inr (List.contains_iff_mem.mp h)

/-! ## references, imports, export lists -/

/-- every global reference of every function of every module resolves -/
theorem checkRefs_sound (tbl : Table) (h : checkRefs tbl = true) :
    ∀ (m : Nat) (mi : Mod), tbl.mod? m = some mi →
    ∀ (f n : Nat), (f, n) ∈ mi.refs → Resolves tbl m n := by
  intro m mi hm f n hr
  unfold checkRefs at h
  rw [List.all_eq_true] at h
  have hmem : (mi, m) ∈ tbl.mods.zipIdx := by
    rw [List.mem_zipIdx_iff_getElem?]; exact hm
  have h1 := h (mi, m) hmem
  rw [List.all_eq_true] at h1
  exact resolvesB_sound tbl (h1 (f, n) hr)

theorem checkRefsExcept_sound (tbl : Table) (known : List (Nat × Nat × Nat))
    (h : checkRefsExcept tbl known = true) :
    ∀ (m : Nat) (mi : Mod), tbl.mod? m = some mi →
    ∀ (f n : Nat), (f, n) ∈ mi.refs → (m, f, n) ∉ known → Resolves tbl m n := by
  intro m mi hm f n hr hk
  unfold checkRefsExcept at h
  rw [List.all_eq_true] at h
  have hmem : (mi, m) ∈ tbl.mods.zipIdx := by
    rw [List.mem_zipIdx_iff_getElem?]; exact hm
  have h1 := h (mi, m) hmem
  rw [List.all_eq_true] at h1
  have h2 := h1 (f, n) hr
  rw [Bool.or_eq_true] at h2
  rcases h2 with h2 | h2
  · exact resolvesB_sound tbl h2
  · exact absurd (List.contains_iff_mem.mp h2) hk

theorem checkRefsExcept_nil (tbl : Table) : checkRefsExcept tbl [] = checkRefs tbl := by
  unfold checkRefsExcept checkRefs
  simp

/-- every `from .t import n` of every module finds `n` among the attributes of `t` -/
theorem checkImports_sound (tbl : Table) (h : checkImports tbl = true) :
    ∀ (mi : Mod), mi ∈ tbl.mods →
    ∀ (f t n : Nat), (f, t, n) ∈ mi.imports → Defines tbl t n := by
  intro mi hm f t n hr
  unfold checkImports at h
  rw [List.all_eq_true] at h
  have h1 := h mi hm
  rw [List.all_eq_true] at h1
  exact definesB_sound tbl _ t n (h1 (f, t, n) hr)

/-- every name of every `__all__` exists in its module, and the package exposes it -/
theorem checkAll_sound (tbl : Table) (h : checkAll tbl = true) :
    ∀ (m : Nat) (mi : Mod) (l : List Nat), tbl.mod? m = some mi → mi.all = some l →
    ∀ n ∈ l, Defines tbl m n ∧ Defines tbl tbl.pkg n := by
  intro m mi l hm hl n hn
  unfold checkAll at h
  rw [List.all_eq_true] at h
  have hmem : (mi, m) ∈ tbl.mods.zipIdx := by
    rw [List.mem_zipIdx_iff_getElem?]; exact hm
  have h1 := h (mi, m) hmem
  simp only [hl] at h1
  rw [List.all_eq_true] at h1
  have h2 := h1 n hn
  rw [Bool.and_eq_true] at h2
  exact ⟨definesB_sound tbl _ m n h2.1, definesB_sound tbl _ tbl.pkg n h2.2⟩

/-! ## attributes -/

theorem hasAttrB_sound (tbl : Table) :
    ∀ (fuel m c a : Nat), hasAttrB tbl fuel m c a = true → HasAttr tbl m c a
  | 0, _, _, _, h => by simp [hasAttrB] at h
  | fuel + 1, m, c, a, h => by
    unfold hasAttrB at h
    split at h
    · simp at h
    · rename_i ci hc
      rw [Bool.or_eq_true] at h
      rcases h with h | h
      · exact .own hc (List.contains_iff_mem.mp h)
      · rw [List.any_eq_true] at h
        obtain ⟨b, hb, h⟩ := h
        cases b with
        | lib m' c' => exact .inherit hc hb (hasAttrB_sound tbl fuel m' c' a h)
        | ext e =>
          simp only at h
          split at h
          · rename_i l he
            exact .ext hc hb he (List.contains_iff_mem.mp h)
          · simp at h
        | unknown => exact .unknown hc hb

/-- a closed list that contains a class contains all its library ancestors -/
theorem closed_contains_ancestors (tbl : Table) (l : List (Nat × Nat)) (hcl : closedB tbl l = true)
    {m c m' c' : Nat} (ha : Ancestor tbl m c m' c') (hin : (m, c) ∈ l) : (m', c') ∈ l := by
  induction ha with
  | self _ => exact hin
  | @step m c m1 c1 m2 c2 ci hc hb _ ih =>
    apply ih
    unfold closedB at hcl
    rw [List.all_eq_true] at hcl
    have h1 := hcl (m, c) hin
    simp only [hc] at h1
    rw [List.all_eq_true] at h1
    have h2 := h1 (Base.lib m1 c1) hb
    simp only at h2
    exact List.contains_iff_mem.mp h2

/-- for every exported class `(m, c)`: every `self.a` load in a method defined in the class or in
any of its library ancestors finds `a` on an instance of `(m, c)` -/
theorem checkAttrs_sound (tbl : Table) (h : checkAttrs tbl = true) :
    ∀ (m c : Nat), (m, c) ∈ tbl.concrete →
    ∀ (m' c' : Nat) (ci' : Cls), Ancestor tbl m c m' c' → tbl.cls? m' c' = some ci' →
    ∀ (f a : Nat), (f, a) ∈ ci'.loads → HasAttr tbl m c a := by
  intro m c hmc m' c' ci' hanc hc' f a hl
  unfold checkAttrs at h
  rw [List.all_eq_true] at h
  have h1 := h (m, c) hmc
  simp only [Bool.and_eq_true] at h1
  obtain ⟨⟨hself, hclosed⟩, hall⟩ := h1
  have hin : (m', c') ∈ ancestors tbl tbl.classFuel m c :=
    closed_contains_ancestors tbl _ hclosed hanc (List.contains_iff_mem.mp hself)
  rw [List.all_eq_true] at hall
  have h2 := hall (m', c') hin
  unfold loadsOkB at h2
  simp only [hc'] at h2
  rw [List.all_eq_true] at h2
  exact hasAttrB_sound tbl _ m c a (h2 (f, a) hl)

/-! ## the offender lists agree with the checks -/

theorem badRefs_nil_iff (tbl : Table) : badRefs tbl = [] ↔ checkRefs tbl = true := by
  unfold badRefs checkRefs
  simp [List.flatMap_eq_nil_iff, List.filter_eq_nil_iff, List.all_eq_true]

theorem badImports_nil_iff (tbl : Table) : badImports tbl = [] ↔ checkImports tbl = true := by
  unfold badImports checkImports
  simp only [List.flatMap_eq_nil_iff, List.map_eq_nil_iff, List.filter_eq_nil_iff, List.all_eq_true,
    Bool.not_eq_true', Bool.not_eq_false]
  constructor
  · intro h mi hmi
    obtain ⟨i, hi⟩ := List.getElem?_of_mem hmi
    exact h (mi, i) (List.mem_zipIdx_iff_getElem?.mpr hi)
  · intro h p hp
    exact h p.1 (List.mem_of_getElem? (List.mem_zipIdx_iff_getElem?.mp (by cases p; exact hp)))

theorem badAll_nil_iff (tbl : Table) : badAll tbl = [] ↔ checkAll tbl = true := by
  unfold badAll checkAll
  simp only [List.flatMap_eq_nil_iff, List.all_eq_true]
  constructor
  · intro h p hp
    have := h p hp
    split at this
    · rfl
    · rename_i l hl
      simp only [List.append_eq_nil_iff, List.map_eq_nil_iff, List.filter_eq_nil_iff,
        Bool.not_eq_true', Bool.not_eq_false] at this
      rw [List.all_eq_true]
      intro n hn
      rw [Bool.and_eq_true]
      exact ⟨this.1 n hn, this.2 n hn⟩
  · intro h p hp
    have := h p hp
    split
    · rfl
    · rename_i l hl
      simp only [hl] at this
      rw [List.all_eq_true] at this
      simp only [List.append_eq_nil_iff, List.map_eq_nil_iff, List.filter_eq_nil_iff,
        Bool.not_eq_true', Bool.not_eq_false]
      exact ⟨fun n hn => (Bool.and_eq_true _ _ ▸ this n hn).1, fun n hn => (Bool.and_eq_true _ _ ▸ this n hn).2⟩

end N0.Names
