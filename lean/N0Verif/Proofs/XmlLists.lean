import N0Verif.Proofs.Xml
/-!
Helper lemmas for C12, repeated elements: a non-empty list value is written as one element per
item (fix C12-b), `xmltodict`'s `push_data` collects them back into a list (a single one stays the
element itself), and the induction over XML-shaped trees **with** lists (`entry_out`, `repeat_out`,
`entries_out`, `toXml_reads`).  Also the boundary of the writer towards attributes (`@` keys).
-/
set_option linter.unusedSimpArgs false
set_option linter.unusedVariables false
namespace N0.Xml
open N0 N0.Py

/-! ### unfolding the entry loop -/

theorem xmlEntries_cons_single (cfg : Cfg) (inc : Nat) (k : Str) (v : Val) (rest : List (Str × Val)) (indent : Nat)
    (ne : Bool) (h : isListVal v = false) :
    xmlEntries cfg inc ((k, v) :: rest) indent ne =
      (xmlEntry cfg inc k v indent >>= fun body =>
        xmlEntries cfg inc rest indent (ne || !(entryPrefix cfg k indent ne ++ body).isEmpty) >>= fun r =>
          .ok (entryPrefix cfg k indent ne ++ body ++ r)) := by
  cases v <;> first | (simp [isListVal] at h; done) | rfl

theorem xmlEntries_cons_list (cfg : Cfg) (inc : Nat) (k : Str) (c : Cls) (xs : List Val) (rest : List (Str × Val))
    (indent : Nat) (ne : Bool) (h : xs ≠ []) :
    xmlEntries cfg inc ((k, .list c xs) :: rest) indent ne =
      (xmlRepeat cfg inc k xs indent ne >>= fun p =>
        xmlEntries cfg inc rest indent p.2 >>= fun r => .ok (p.1 ++ r)) := by
  have hx : xs.isEmpty = false := by cases xs <;> simp_all
  simp only [xmlEntries, hx]
  rfl

theorem xmlRepeat_cons (cfg : Cfg) (inc : Nat) (k : Str) (x : Val) (xs : List Val) (indent : Nat) (ne : Bool) :
    xmlRepeat cfg inc k (x :: xs) indent ne =
      (xmlEntry cfg inc k x indent >>= fun body =>
        xmlRepeat cfg inc k xs indent (ne || !(entryPrefix cfg k indent ne ++ body).isEmpty) >>= fun r =>
          .ok (entryPrefix cfg k indent ne ++ body ++ r.1, r.2)) := by
  rfl

/-! ### `push_data` on a repeated key -/

theorem valOf_not_list (e : Elem) (c : Cls) (ys : List Val) : valOf e ≠ .list c ys := by
  cases e with
  | mk n d ks =>
    intro h
    simp only [valOf] at h
    split at h
    · split at h <;> cases h
    · cases h

theorem pushData_second (k : Str) (v' v : Val) (acc : List (Str × Val)) (hfresh : ∀ q ∈ acc, q.1 ≠ k)
    (hv' : ∀ c xs, v' ≠ .list c xs) :
    pushData k v (acc ++ [(k, v')]) = acc ++ [(k, .list .plain [v', v])] := by
  induction acc with
  | nil =>
    cases v' <;> first | (exact absurd rfl (hv' _ _)) | simp [pushData]
  | cons q acc ih =>
    obtain ⟨k', w⟩ := q
    have hq : k' ≠ k := hfresh (k', w) (by simp)
    simp only [List.cons_append, pushData, hq, if_false]
    rw [ih (fun q hq' => hfresh q (by simp [hq']))]

theorem pushData_more (k : Str) (ys : List Val) (v : Val) (acc : List (Str × Val)) (hfresh : ∀ q ∈ acc, q.1 ≠ k) :
    pushData k v (acc ++ [(k, .list .plain ys)]) = acc ++ [(k, .list .plain (ys ++ [v]))] := by
  induction acc with
  | nil => simp [pushData]
  | cons q acc ih =>
    obtain ⟨k', w⟩ := q
    have hq : k' ≠ k := hfresh (k', w) (by simp)
    simp only [List.cons_append, pushData, hq, if_false]
    rw [ih (fun q hq' => hfresh q (by simp [hq']))]

theorem kidsOf_nil (acc : List (Str × Val)) : kidsOf [] acc = acc := by simp [kidsOf]

theorem kidsOf_append (a b : List Elem) (acc : List (Str × Val)) : kidsOf (a ++ b) acc = kidsOf b (kidsOf a acc) := by
  induction a generalizing acc with
  | nil => simp [kidsOf_nil]
  | cons e a ih =>
    cases e with
    | mk n d ks => simp only [List.cons_append, kidsOf_cons, ih]

/-- the elements read for the items `xs` of a repeated element `k`: all named `k`, each with the
normalised item as its value -/
def ItemElems (cfg : Cfg) (k : Str) : List Val → List Elem → Prop
  | [], [] => True
  | x :: xs, e :: es => (∃ d ks, e = Elem.mk k d ks ∧ valOf (Elem.mk k d ks) = normalise cfg x) ∧ ItemElems cfg k xs es
  | _, _ => False

theorem kidsOf_items_more (cfg : Cfg) (k : Str) : ∀ (xs : List Val) (es : List Elem), ItemElems cfg k xs es →
    ∀ (ys : List Val) (acc : List (Str × Val)), (∀ q ∈ acc, q.1 ≠ k) →
      kidsOf es (acc ++ [(k, .list .plain ys)]) = acc ++ [(k, .list .plain (ys ++ normList cfg xs))]
  | [], [], _, ys, acc, _ => by simp [kidsOf_nil, normList]
  | [], _ :: _, h, _, _, _ => by simp [ItemElems] at h
  | _ :: _, [], h, _, _, _ => by simp [ItemElems] at h
  | x :: xs, e :: es, h, ys, acc, hf => by
    obtain ⟨⟨d, ks, rfl, hval⟩, hrest⟩ := h
    rw [kidsOf_cons, hval, pushData_more k ys _ acc hf, kidsOf_items_more cfg k xs es hrest _ acc hf]
    simp [normList]

/-- **the xmltodict convention for repeated elements**: the elements written for a non-empty list
load back as the item itself (one item) or as the plain list of the items (two or more) -/
theorem kidsOf_items (cfg : Cfg) (k : Str) (c : Cls) (xs : List Val) (es : List Elem) (hne : xs ≠ [])
    (h : ItemElems cfg k xs es) (acc : List (Str × Val)) (hf : ∀ q ∈ acc, q.1 ≠ k) :
    kidsOf es acc = acc ++ [(k, normalise cfg (.list c xs))] := by
  cases xs with
  | nil => exact absurd rfl hne
  | cons x1 xs1 =>
    cases es with
    | nil => simp [ItemElems] at h
    | cons e1 es1 =>
      obtain ⟨⟨d1, ks1, rfl, hval1⟩, h1⟩ := h
      rw [kidsOf_cons, hval1, pushData_fresh k _ acc hf]
      cases xs1 with
      | nil =>
        cases es1 with
        | nil => simp [kidsOf_nil, normalise, normList]
        | cons _ _ => simp [ItemElems] at h1
      | cons x2 xs2 =>
        cases es1 with
        | nil => simp [ItemElems] at h1
        | cons e2 es2 =>
          obtain ⟨⟨d2, ks2, rfl, hval2⟩, h2⟩ := h1
          have hnl : ∀ c ys, normalise cfg x1 ≠ .list c ys := by
            intro c ys; rw [← hval1]; exact valOf_not_list _ c ys
          rw [kidsOf_cons, hval2, pushData_second k _ _ acc hf hnl,
            kidsOf_items_more cfg k xs2 es2 h2 _ acc hf]
          simp [normalise, normList]

/-! ### what the writer emits for the items of a repeated element -/

/-- the text written for the entries `(k, x)`, `x ∈ xs`: blanks, then elements named `k`
separated by blanks, one per item -/
def RepeatOut (cfg : Cfg) (k : Str) (xs : List Val) (ne : Bool) (out : Str) : Prop :=
  ∃ pre core w es, out = pre ++ core ∧ (∀ c ∈ pre, c = ' ' ∨ (ne = true ∧ c = '\n')) ∧
    (xs = [] → out = []) ∧ (xs ≠ [] → ∃ tl, core = '<' :: tl) ∧ Blank w ∧ ReadsIn core w es ∧ ItemElems cfg k xs es

theorem RepeatOut.nil (cfg : Cfg) (k : Str) (ne : Bool) : RepeatOut cfg k [] ne [] :=
  ⟨[], [], [], [], rfl, by intro c hc; simp at hc, fun _ => rfl, fun h => absurd rfl h, blank_nil, ReadsIn.nil, trivial⟩

theorem RepeatOut.cons {cfg : Cfg} {k : Str} {x : Val} {xs : List Val} {indent : Nat} {ne : Bool}
    {body r : Str} (hb : EntryOut cfg k x indent body) (hr : RepeatOut cfg k xs true r) :
    RepeatOut cfg k (x :: xs) ne (entryPrefix cfg k indent ne ++ body ++ r) := by
  obtain ⟨bpre, tl, d, ks, hbody, hbpre, hre, hval⟩ := hb
  obtain ⟨pre2, core2, w2, es2, hout2, hpre2, _, _, hw2, hread2, hitems2⟩ := hr
  have hpre2B : Blank pre2 := by
    intro c hc
    rcases hpre2 c hc with h | h
    · exact Or.inl h
    · exact Or.inr h.2
  refine ⟨entryPrefix cfg k indent ne ++ bpre, ('<' :: k ++ tl ++ ['>']) ++ (pre2 ++ core2), pre2 ++ w2,
    Elem.mk k d ks :: es2, ?_, ?_, ?_, ?_, hpre2B.append hw2, ?_, ?_⟩
  · rw [hbody, hout2]; simp [List.append_assoc]
  · intro c hc
    rcases List.mem_append.1 hc with h | h
    · exact entryPrefix_chars cfg k indent ne c h
    · rcases hbpre with h0 | h0
      · rw [h0] at h; simp at h
      · rw [h0] at h; exact Or.inl (List.mem_replicate.1 h).2
  · intro h; simp at h
  · intro _; exact ⟨k ++ tl ++ ['>'] ++ (pre2 ++ core2), by simp [List.append_assoc]⟩
  · have h1 := ReadsIn.append hre.readsIn (ReadsIn.append (ReadsIn.blank hpre2B) hread2)
    simpa using h1
  · exact ⟨⟨d, ks, rfl, hval⟩, hitems2⟩

/-- a repeated element among the entries of a dict -/
theorem EntriesOut.consList {cfg : Cfg} {k : Str} {c : Cls} {xs : List Val} {rest : List (Str × Val)} {ne : Bool}
    {s r : Str} (hs : RepeatOut cfg k xs ne s) (hr : EntriesOut cfg rest true r) (hne : xs ≠ [])
    (hfresh : ∀ p ∈ rest, p.1 ≠ k) :
    EntriesOut cfg ((k, .list c xs) :: rest) ne (s ++ r) := by
  obtain ⟨pre1, core1, w1, es, hout1, hpre1, _, hcons1, hw1, hread1, hitems⟩ := hs
  obtain ⟨pre2, core2, w2, ks2, hout2, hpre2, _, _, hw2, hread2, hkids2⟩ := hr
  have hpre2B : Blank pre2 := by
    intro c hc
    rcases hpre2 c hc with h | h
    · exact Or.inl h
    · exact Or.inr h.2
  obtain ⟨tl1, hcore1⟩ := hcons1 hne
  refine ⟨pre1, core1 ++ (pre2 ++ core2), w1 ++ (pre2 ++ w2), es ++ ks2, ?_, hpre1, ?_, ?_,
    hw1.append (hpre2B.append hw2), ?_, ?_⟩
  · rw [hout1, hout2]; simp [List.append_assoc]
  · intro h; simp at h
  · intro _; exact ⟨tl1 ++ (pre2 ++ core2), by rw [hcore1]; simp⟩
  · exact ReadsIn.append hread1 (ReadsIn.append (ReadsIn.blank hpre2B) hread2)
  · intro acc hacc
    rw [kidsOf_append, kidsOf_items cfg k c xs es hne hitems acc (fun q hq => hacc (k, .list c xs) (by simp) q hq)]
    rw [hkids2 (acc ++ [(k, normalise cfg (.list c xs))])]
    · simp [normKvs, List.append_assoc]
    · intro p hp q hq
      rcases List.mem_append.1 hq with h | h
      · exact hacc p (by simp [hp]) q h
      · have : q = (k, normalise cfg (.list c xs)) := by simpa using h
        rw [this]
        exact fun h' => hfresh p hp h'.symm

/-! ### the induction over XML-shaped trees, repeated elements included -/

theorem isAttrKey_name {k : Str} (hk : isName k = true) : isAttrKey k = false := by
  obtain ⟨c, cs, rfl, hc, _⟩ := isName_cons hk
  have : c ≠ '@' := by intro h'; subst h'; revert hc; decide
  simp [isAttrKey, startsWith, this]

/-- one entry that is not a list, followed by the remaining entries -/
theorem entries_single {cfg : Cfg} {inc : Nat} {lists : Bool} {k : Str} {v : Val} {rest : List (Str × Val)}
    {indent : Nat} {ne : Bool} (hl : isListVal v = false) (hn : keysNodup ((k, v) :: rest) = true)
    (hs : shapedKvs lists ((k, v) :: rest) = true)
    (he : isName k = true → shapedVal lists v = true →
      ∃ body, xmlEntry cfg inc k v indent = .ok body ∧ EntryOut cfg k v indent body)
    (hr : keysNodup rest = true → shapedKvs lists rest = true →
      ∃ out, xmlEntries cfg inc rest indent true = .ok out ∧ EntriesOut cfg rest true out) :
    ∃ out, xmlEntries cfg inc ((k, v) :: rest) indent ne = .ok out ∧ EntriesOut cfg ((k, v) :: rest) ne out := by
  have hs' : (isName k = true ∧ shapedVal lists v = true) ∧ shapedKvs lists rest = true := by
    simpa [shapedKvs] using hs
  obtain ⟨hfresh, hn'⟩ := keysNodup_cons hn
  obtain ⟨body, hbody, hbo⟩ := he hs'.1.1 hs'.1.2
  obtain ⟨r, hr', hro⟩ := hr hn' hs'.2
  refine ⟨entryPrefix cfg k indent ne ++ body ++ r, ?_, EntriesOut.cons hbo hro hfresh⟩
  have hne : (entryPrefix cfg k indent ne ++ body).isEmpty = false := by
    obtain ⟨bpre, tl, d, ks, hb, _⟩ := hbo
    rw [hb]
    cases h1 : entryPrefix cfg k indent ne <;> cases bpre <;> simp
  rw [xmlEntries_cons_single cfg inc k v rest indent ne hl, hbody]
  simp [hne, hr', bind, Except.bind]

mutual
/-- the writer on one entry `(k, v)`, `v` XML-shaped element content other than a list -/
theorem entry_out (cfg : Cfg) (hcfg : cfgOk cfg = true) (inc : Nat) (lists : Bool) :
    ∀ (v : Val) (k : Str) (indent : Nat), isName k = true → shapedVal lists v = true → isListVal v = false →
      ∃ body, xmlEntry cfg inc k v indent = .ok body ∧ EntryOut cfg k v indent body
  | .none, k, indent, hk, _, _ => ⟨emptyTag k [], by simp [xmlEntry], EntryOut.emptyElem hk (by simp [normalise])⟩
  | .int i, k, indent, hk, _, _ =>
      ⟨openTag k [] ++ intRepr i ++ closeTag k, by simp [xmlEntry, isAttrKey_name hk],
        EntryOut.num hk (numLex_intRepr i) (by simp [normalise])⟩
  | .flt r, k, indent, hk, hv, _ =>
      ⟨openTag k [] ++ r ++ closeTag k, by simp [xmlEntry, isAttrKey_name hk],
        EntryOut.num hk (numLex_float (by simpa [shapedVal] using hv)) (by simp [normalise])⟩
  | .bool b, k, indent, hk, _, _ => by
      cases b with
      | true => exact ⟨openTag k [] ++ ['T', 'r', 'u', 'e'] ++ closeTag k, by simp [xmlEntry, isAttrKey_name hk], EntryOut.num hk numLex_true (by simp [normalise])⟩
      | false => exact ⟨openTag k [] ++ ['F', 'a', 'l', 's', 'e'] ++ closeTag k, by simp [xmlEntry, isAttrKey_name hk], EntryOut.num hk numLex_false (by simp [normalise])⟩
  | .str s, k, indent, hk, hv, _ =>
      ⟨strElem cfg inc k indent s, by simp [xmlEntry, isAttrKey_name hk],
        EntryOut.str (inc := inc) hcfg hk (by simpa [shapedVal] using hv)⟩
  | .dict c kvs, k, indent, hk, hv, _ => by
      have hv' : keysNodup kvs = true ∧ shapedKvs lists kvs = true := by simpa [shapedVal] using hv
      obtain ⟨sub, hsub, hout⟩ := entries_out cfg hcfg inc lists kvs (indent + inc) false hv'.1 hv'.2
      refine ⟨dictElem cfg k indent sub [], ?_, EntryOut.dict hk hout⟩
      simp [xmlEntry, hsub, attribs_names hv'.2, bind, Except.bind]
  | .list c xs, k, indent, hk, hv, hl => by simp [isListVal] at hl
/-- the writer on the items of a repeated element -/
theorem repeat_out (cfg : Cfg) (hcfg : cfgOk cfg = true) (inc : Nat) (lists : Bool) :
    ∀ (xs : List Val) (k : Str) (indent : Nat) (ne : Bool), isName k = true → shapedItems lists xs = true →
      ∃ p, xmlRepeat cfg inc k xs indent ne = .ok p ∧ RepeatOut cfg k xs ne p.1 ∧ (xs ≠ [] → p.2 = true)
  | [], k, indent, ne, _, _ => ⟨([], ne), by simp [xmlRepeat], RepeatOut.nil cfg k ne, fun h => absurd rfl h⟩
  | x :: xs, k, indent, ne, hk, hs => by
      have hs' : (isListVal x = false ∧ shapedVal lists x = true) ∧ shapedItems lists xs = true := by
        simpa [shapedItems] using hs
      obtain ⟨body, hbody, hbo⟩ := entry_out cfg hcfg inc lists x k indent hk hs'.1.2 hs'.1.1
      obtain ⟨p, hp, hpo, hpf⟩ := repeat_out cfg hcfg inc lists xs k indent true hk hs'.2
      have hne : (entryPrefix cfg k indent ne ++ body).isEmpty = false := by
        obtain ⟨bpre, tl, d, ks, hb, _⟩ := hbo
        rw [hb]
        cases h1 : entryPrefix cfg k indent ne <;> cases bpre <;> simp
      refine ⟨(entryPrefix cfg k indent ne ++ body ++ p.1, p.2), ?_, RepeatOut.cons hbo hpo, ?_⟩
      · rw [xmlRepeat_cons, hbody]
        simp [hne, hp, bind, Except.bind]
      · intro _
        -- the flag: `result` is non-empty after the first piece
        cases xs with
        | nil =>
          simp only [xmlRepeat] at hp
          injection hp with hp
          rw [← hp]
        | cons y ys => exact hpf (by simp)
/-- the writer on the entries of an XML-shaped dict -/
theorem entries_out (cfg : Cfg) (hcfg : cfgOk cfg = true) (inc : Nat) (lists : Bool) :
    ∀ (kvs : List (Str × Val)) (indent : Nat) (ne : Bool), keysNodup kvs = true → shapedKvs lists kvs = true →
      ∃ out, xmlEntries cfg inc kvs indent ne = .ok out ∧ EntriesOut cfg kvs ne out
  | [], indent, ne, _, _ => ⟨[], by simp [xmlEntries], EntriesOut.nil cfg ne⟩
  | (k, .list c xs) :: rest, indent, ne, hn, hs => by
      have hs' : (isName k = true ∧ shapedVal lists (.list c xs) = true) ∧ shapedKvs lists rest = true := by
        simpa [shapedKvs] using hs
      have hl : (lists = true ∧ xs ≠ []) ∧ shapedItems lists xs = true := by
        have := hs'.1.2
        simpa [shapedVal] using this
      obtain ⟨hfresh, hn'⟩ := keysNodup_cons hn
      obtain ⟨p, hp, hpo, hflag⟩ := repeat_out cfg hcfg inc lists xs k indent ne hs'.1.1 hl.2
      obtain ⟨r, hr, hro⟩ := entries_out cfg hcfg inc lists rest indent true hn' hs'.2
      refine ⟨p.1 ++ r, ?_, EntriesOut.consList hpo hro hl.1.2 hfresh⟩
      rw [xmlEntries_cons_list cfg inc k c xs rest indent ne hl.1.2, hp]
      simp [hflag hl.1.2, hr, bind, Except.bind]
  | (k, .none) :: rest, indent, ne, hn, hs =>
      entries_single rfl hn hs (fun hk hv => entry_out cfg hcfg inc lists .none k indent hk hv rfl)
        (fun hn' hs' => entries_out cfg hcfg inc lists rest indent true hn' hs')
  | (k, .bool b) :: rest, indent, ne, hn, hs =>
      entries_single rfl hn hs (fun hk hv => entry_out cfg hcfg inc lists (.bool b) k indent hk hv rfl)
        (fun hn' hs' => entries_out cfg hcfg inc lists rest indent true hn' hs')
  | (k, .int i) :: rest, indent, ne, hn, hs =>
      entries_single rfl hn hs (fun hk hv => entry_out cfg hcfg inc lists (.int i) k indent hk hv rfl)
        (fun hn' hs' => entries_out cfg hcfg inc lists rest indent true hn' hs')
  | (k, .flt f) :: rest, indent, ne, hn, hs =>
      entries_single rfl hn hs (fun hk hv => entry_out cfg hcfg inc lists (.flt f) k indent hk hv rfl)
        (fun hn' hs' => entries_out cfg hcfg inc lists rest indent true hn' hs')
  | (k, .str s) :: rest, indent, ne, hn, hs =>
      entries_single rfl hn hs (fun hk hv => entry_out cfg hcfg inc lists (.str s) k indent hk hv rfl)
        (fun hn' hs' => entries_out cfg hcfg inc lists rest indent true hn' hs')
  | (k, .dict c kvs) :: rest, indent, ne, hn, hs =>
      entries_single rfl hn hs (fun hk hv => entry_out cfg hcfg inc lists (.dict c kvs) k indent hk hv rfl)
        (fun hn' hs' => entries_out cfg hcfg inc lists rest indent true hn' hs')
end

/-- the main lemma behind C12: an XML-shaped tree (with repeated elements when `lists = true`) is
written as a document that the reader accepts and `xmltodict`'s conventions turn into the normalised
tree; the text is already stripped -/
theorem toXml_reads (cfg : Cfg) (hcfg : cfgOk cfg = true) (o : Opts) (ho : isGoodOpts o = true) (lists : Bool) (t : Val)
    (ht : xmlShaped lists t = true) :
    ∃ s e, toXml cfg o t = .ok s ∧ xmlRead s = .ok e ∧ xmltodictOf e = normRoot cfg t ∧ stripWs s = s ∧ ∃ tl, s = '<' :: tl := by
  -- the root
  obtain ⟨c, k, v, rfl, hk, hv, hl⟩ : ∃ c k v, t = Val.dict c [(k, v)] ∧ isName k = true ∧ shapedVal lists v = true ∧
      isListVal v = false := by
    unfold xmlShaped at ht
    split at ht
    · rename_i c k v
      simp only [Bool.and_eq_true, Bool.not_eq_true'] at ht
      exact ⟨c, k, v, rfl, ht.1.1, ht.1.2, ht.2⟩
    · simp at ht
  obtain ⟨body, hbody, bpre, tl, d, ks, hb, hbpre, hre, hval⟩ := entry_out cfg hcfg o.indent lists v k 0 hk hv hl
  have hb' : body = '<' :: k ++ tl ++ ['>'] := by
    rcases hbpre with h | h
    · rw [hb, h]; rfl
    · rw [hb, h]; rfl
  have hpre : entryPrefix cfg k 0 false = [] := by
    unfold entryPrefix; split <;> simp [spaces]
  have hxml : xmlVal cfg o.indent (Val.dict c [(k, v)]) 0 = .ok body := by
    simp only [xmlVal]
    rw [xmlEntries_cons_single cfg o.indent k v [] 0 false hl, hbody]
    simp [xmlEntries, hpre, bind, Except.bind]
  obtain ⟨k0, kcs, hkeq, hk0, _⟩ := isName_cons hk
  have hk0q : k0 ≠ '?' := by intro h; subst h; revert hk0; decide
  have hx : xmltodictOf (Elem.mk k d ks) = normRoot cfg (Val.dict c [(k, v)]) := by
    simp [xmltodictOf, normRoot, normKvs, hval]
  have hlt : isPySpace '<' = false := by decide
  have hgt : isPySpace '>' = false := by decide
  -- the declaration
  have hdecl : declStr o = [] ∨ ∃ q e0 es, (q = '"' ∨ q = '\'') ∧ isEncStart e0 = true ∧ (∀ c ∈ es, isEncChar c = true) ∧
      declStr o = declHead ++ [q] ++ ['1', '.', '0'] ++ [q] ++ declEnc ++ [q] ++ (e0 :: es) ++ [q] ++ ['?', '>', '\n'] := by
    simp only [isGoodOpts, Bool.and_eq_true, Bool.or_eq_true, decide_eq_true_eq] at ho
    obtain ⟨hq, henc⟩ := ho
    unfold declStr
    cases henc' : o.encoding with
    | none => exact Or.inl rfl
    | some enc =>
      cases enc with
      | nil => exact Or.inl rfl
      | cons e0 es =>
        rw [henc'] at henc
        simp only [Bool.and_eq_true, List.all_eq_true] at henc
        right
        rcases hq with hq | hq
        · exact ⟨'"', e0, es, Or.inl rfl, henc.1, henc.2, by simp [hq, List.append_assoc]⟩
        · exact ⟨'\'', e0, es, Or.inr rfl, henc.1, henc.2, by simp [hq, List.append_assoc]⟩
  rcases hdecl with hd | ⟨q, e0, es, hq, he0, hes, hd⟩
  · refine ⟨body, Elem.mk k d ks, ?_, ?_, hx, ?_, ?_⟩
    · simp [toXml, hxml, hd, bind, Except.bind]
    · rw [hb']
      exact xmlRead_of_elem _ _ k0 (kcs ++ tl ++ ['>']) (by rw [hkeq]; simp) hk0q hre
    · rw [hb']
      exact stripWs_id_of_ends '<' '>' (k ++ tl) hlt hgt
    · exact ⟨k ++ tl ++ ['>'], by rw [hb']; simp⟩
  · refine ⟨declStr o ++ body, Elem.mk k d ks, ?_, ?_, hx, ?_, ?_⟩
    · simp [toXml, hxml, bind, Except.bind]
    · rw [hd, hb']
      exact xmlRead_decl_elem q e0 es _ _ hq he0 hes hre
    · rw [hd, hb']
      have := stripWs_id_of_ends '<' '>'
        (['?', 'x', 'm', 'l', ' ', 'v', 'e', 'r', 's', 'i', 'o', 'n', '='] ++ [q] ++ ['1', '.', '0'] ++ [q] ++ declEnc ++ [q] ++ (e0 :: es) ++ [q] ++ ['?', '>', '\n'] ++ ('<' :: k ++ tl)) hlt hgt
      simpa [declHead, List.append_assoc] using this
    · exact ⟨['?', 'x', 'm', 'l', ' ', 'v', 'e', 'r', 's', 'i', 'o', 'n', '='] ++ [q] ++ ['1', '.', '0'] ++ [q] ++ declEnc ++ [q] ++ (e0 :: es) ++ [q] ++ ['?', '>', '\n'] ++ body,
        by rw [hd]; simp [declHead, List.append_assoc]⟩


/-! ### the boundary towards attributes: `@` keys -/

/-- text or a number -/
def isScalarVal : Val → Bool
  | .str _ | .int _ | .flt _ | .bool _ => true
  | _ => false

/-- the `NotImplementedError` branch: an `@` key holding text or a number -/
theorem xmlEntry_attr (cfg : Cfg) (inc : Nat) (k : Str) (v : Val) (indent : Nat) (hv : isScalarVal v = true) :
    xmlEntry cfg inc ('@' :: k) v indent = .error .NotImplementedError := by
  cases v <;> simp [isScalarVal] at hv <;> simp [xmlEntry, isAttrKey, startsWith]

/-- the entry loop reaches the `@` entry after any XML-shaped entries and raises there -/
theorem entries_attr_raises (cfg : Cfg) (hcfg : cfgOk cfg = true) (inc : Nat) (lists : Bool) (k : Str) (v : Val)
    (rest : List (Str × Val)) (hv : isScalarVal v = true) :
    ∀ (pre : List (Str × Val)) (indent : Nat) (ne : Bool), keysNodup pre = true → shapedKvs lists pre = true →
      xmlEntries cfg inc (pre ++ ('@' :: k, v) :: rest) indent ne = .error .NotImplementedError := by
  have hvl : isListVal v = false := by cases v <;> simp [isScalarVal] at hv <;> rfl
  intro pre
  induction pre with
  | nil =>
    intro indent ne _ _
    rw [List.nil_append, xmlEntries_cons_single cfg inc _ v rest indent ne hvl, xmlEntry_attr cfg inc k v indent hv]
    rfl
  | cons p pre ih =>
    obtain ⟨k0, v0⟩ := p
    intro indent ne hn hs
    have hs' : (isName k0 = true ∧ shapedVal lists v0 = true) ∧ shapedKvs lists pre = true := by
      simpa [shapedKvs] using hs
    obtain ⟨_, hn'⟩ := keysNodup_cons hn
    cases hl : isListVal v0 with
    | false =>
      obtain ⟨body, hbody, _⟩ := entry_out cfg hcfg inc lists v0 k0 indent hs'.1.1 hs'.1.2 hl
      rw [List.cons_append, xmlEntries_cons_single cfg inc k0 v0 _ indent ne hl, hbody]
      simp [ih indent _ hn' hs'.2, bind, Except.bind]
    | true =>
      cases v0 <;> simp [isListVal] at hl
      rename_i c xs
      have hx : (lists = true ∧ xs ≠ []) ∧ shapedItems lists xs = true := by
        have := hs'.1.2
        simpa [shapedVal] using this
      obtain ⟨q, hq, _, _⟩ := repeat_out cfg hcfg inc lists xs k0 indent ne hs'.1.1 hx.2
      rw [List.cons_append, xmlEntries_cons_list cfg inc k0 c xs _ indent ne hx.1.2, hq]
      simp [ih indent _ hn' hs'.2, bind, Except.bind]

/-- a record with an `@` key holding text or a number, after any XML-shaped entries: `to_xml` raises
`NotImplementedError` (attributes cannot be exported) -/
theorem toXml_attr_not_implemented (cfg : Cfg) (hcfg : cfgOk cfg = true) (o : Opts) (lists : Bool) (c c' : Cls)
    (r k : Str) (pre rest : List (Str × Val)) (v : Val) (hn : keysNodup pre = true) (hs : shapedKvs lists pre = true)
    (hv : isScalarVal v = true) :
    toXml cfg o (.dict c [(r, .dict c' (pre ++ ('@' :: k, v) :: rest))]) = .error .NotImplementedError := by
  simp only [toXml, xmlVal]
  rw [xmlEntries_cons_single cfg o.indent r _ [] 0 false rfl]
  have h := entries_attr_raises cfg hcfg o.indent lists k v rest hv pre o.indent false hn hs
  simp [xmlEntry, h, bind, Except.bind]

end N0.Xml
