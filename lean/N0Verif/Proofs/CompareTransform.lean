import N0Verif.Proofs.Compare
import N0Verif.Proofs.CompareCount
/-!
`transform` for the direct entry point: two leaves count as equal iff their transformed values are equal, while
the reports show the original values.  Formally: the run with `transform` on the original trees and the run
without `transform` on the trees whose leaves have been mapped produce results of the same shape (or the same
error).
-/
namespace N0.Compare
open N0

def isLeaf : Val → Bool | .list .. => false | .dict .. => false | _ => true

/-- every transform function is the identity on containers, maps scalars to scalars and None to a scalar or None -/
def LeafTransform (cfg : Cfg) : Prop := ∀ t ∈ cfg.tr,
  (∀ c xs, t.f (.list c xs) = .list c xs) ∧ (∀ c kvs, t.f (.dict c kvs) = .dict c kvs) ∧
  (∀ v, isPyScalar v = true → isPyScalar (t.f v) = true) ∧ (isPyScalar (t.f .none) = true ∨ t.f .none = .none)

mutual
/-- apply the first matching function to every leaf sitting at a dictionary entry whose path matches and to every
leaf element of a list whose own path matches -/
def mapT (cfg : Cfg) (p : Path) : Val → Val
  | .dict c kvs => .dict c (mapTK cfg p kvs)
  | .list c xs => .list c (mapTL cfg p (transformAt cfg p) 0 xs)
  | v => v            -- a bare leaf is transformed by its parent
def mapTK (cfg : Cfg) (p : Path) : List (Str × Val) → List (Str × Val)
  | [] => []
  | (k, v) :: rest => (k, if isLeaf v then transformAt cfg (p ++ [.key k]) v else mapT cfg (p ++ [.key k]) v) :: mapTK cfg p rest
def mapTL (cfg : Cfg) (p : Path) (f : Val → Val) : Nat → List Val → List Val
  | _, [] => []
  | i, x :: xs => (if isLeaf x then f x else mapT cfg (p ++ [.idx i]) x) :: mapTL cfg p f (i + 1) xs
end

/-- the shape of a result: number of lines, and for each list the paths of its entries (values are the originals in
one run and the mapped ones in the other) -/
def Res.shape (r : Res) := (r.diffs, r.notEqual.map (fun e => (e.path, e.kind)), r.selfUnique.map (·.path), r.otherUnique.map (·.path), r.diffTypes.map (·.path))

end N0.Compare
