import N0Verif.Proofs.Compare
import N0Verif.Proofs.CompareCount
/-!
`transform` for the direct entry point: two leaves count as equal iff their transformed values are equal, while
the reports show the original values.  Formally: the run with `transform` on the original trees and the run
without `transform` on the trees whose leaves have been mapped produce results of the same shape (or the same
error).
-/
namespace N0.Compare
open N0

def isLeaf : Val → Bool | .list .. => false | .dict .. => false | _ => true

/-- every transform function is the identity on containers, maps scalars to scalars and None to a scalar or None -/
def LeafTransform (cfg : Cfg) : Prop := ∀ t ∈ cfg.tr,
  (∀ c xs, t.f (.list c xs) = .list c xs) ∧ (∀ c kvs, t.f (.dict c kvs) = .dict c kvs) ∧
  (∀ v, isPyScalar v = true → isPyScalar (t.f v) = true) ∧ (isPyScalar (t.f .none) = true ∨ t.f .none = .none)

mutual
/-- apply the first matching function to every leaf sitting at a dictionary entry whose path matches and to every
leaf element of a list whose own path matches -/
def mapT (cfg : Cfg) (p : Path) : Val → Val
  | .dict c kvs => .dict c (mapTK cfg p kvs)
  | .list c xs => .list c (mapTL cfg p (transformAt cfg p) 0 xs)
  | v => v            -- a bare leaf is transformed by its parent
def mapTK (cfg : Cfg) (p : Path) : List (Str × Val) → List (Str × Val)
  | [] => []
  | (k, v) :: rest => (k, if isLeaf v then transformAt cfg (p ++ [.key k]) v else mapT cfg (p ++ [.key k]) v) :: mapTK cfg p rest
def mapTL (cfg : Cfg) (p : Path) (f : Val → Val) : Nat → List Val → List Val
  | _, [] => []
  | i, x :: xs => (if isLeaf x then f x else mapT cfg (p ++ [.idx i]) x) :: mapTL cfg p f (i + 1) xs
end

/-- the shape of a result: number of lines, and for each list the paths of its entries (values are the originals in
one run and the mapped ones in the other) -/
def Res.shape (r : Res) := (r.diffs, r.notEqual.map (fun e => (e.path, e.kind)), r.selfUnique.map (·.path), r.otherUnique.map (·.path), r.diffTypes.map (·.path))

/-! ### the mapped child of a container -/

/-- what `mapTK` / `mapTL` put in place of a child `v` located at `q`, `f` being the function of the place -/
abbrev mapTChild (cfg : Cfg) (q : Path) (f : Val → Val) (v : Val) : Val :=
  if isLeaf v then f v else mapT cfg q v

theorem mapTK_cons (cfg : Cfg) (p : Path) (k : Str) (v : Val) (rest : List (Str × Val)) :
    mapTK cfg p ((k, v) :: rest) =
      (k, mapTChild cfg (p ++ [.key k]) (transformAt cfg (p ++ [.key k])) v) :: mapTK cfg p rest := by
  simp [mapTK]

theorem mapTL_cons (cfg : Cfg) (p : Path) (f : Val → Val) (i : Nat) (x : Val) (xs : List Val) :
    mapTL cfg p f i (x :: xs) = mapTChild cfg (p ++ [.idx i]) f x :: mapTL cfg p f (i + 1) xs := by
  simp [mapTL]

/-- the properties of one transform function -/
structure TrLeafFn (f : Val → Val) : Prop where
  list : ∀ c xs, f (.list c xs) = .list c xs
  dict : ∀ c kvs, f (.dict c kvs) = .dict c kvs
  scalar : ∀ v, isPyScalar v = true → isPyScalar (f v) = true
  none : isPyScalar (f .none) = true ∨ f .none = .none

theorem tr_leafFn_id : TrLeafFn id := ⟨fun _ _ => rfl, fun _ _ => rfl, fun _ h => h, .inr rfl⟩

theorem tr_leafFn_transformAt {cfg : Cfg} (hl : LeafTransform cfg) (p : Path) : TrLeafFn (transformAt cfg p) := by
  unfold transformAt transformAtStr
  split
  · exact tr_leafFn_id
  · split
    · rename_i i t ht
      obtain ⟨h1, h2, h3, h4⟩ := hl t (List.mem_of_getElem? ht)
      exact ⟨h1, h2, h3, h4⟩
    · exact tr_leafFn_id

theorem mapT_tyOf (cfg : Cfg) (p : Path) (v : Val) : tyOf (mapT cfg p v) = tyOf v := by
  cases v <;> simp [mapT, tyOf]

theorem mapT_child_tyOf {f : Val → Val} (hf : TrLeafFn f) (cfg : Cfg) (q : Path) (v : Val) :
    tyOf (mapTChild cfg q f v) = tyOf (f v) := by
  cases v <;> simp [mapTChild, isLeaf, hf.list, hf.dict, mapT_tyOf]

theorem mapT_child_scalar {f : Val → Val} (hf : TrLeafFn f) (cfg : Cfg) (q : Path) (v : Val)
    (h : isPyScalar (f v) = true) : mapTChild cfg q f v = f v := by
  cases v <;> simp_all [mapTChild, isLeaf, hf.list, hf.dict, isPyScalar]

theorem mapT_child_nonscalar {f : Val → Val} (hf : TrLeafFn f) (cfg : Cfg) (q : Path) (v : Val)
    (h : isPyScalar (f v) = false) : mapTChild cfg q f v = mapT cfg q v := by
  cases v with
  | none =>
    rcases hf.none with h' | h'
    · rw [h'] at h; cases h
    · simp [mapTChild, isLeaf, h', mapT]
  | bool b => rw [hf.scalar _ rfl] at h; cases h
  | int i => rw [hf.scalar _ rfl] at h; cases h
  | flt r => rw [hf.scalar _ rfl] at h; cases h
  | str s => rw [hf.scalar _ rfl] at h; cases h
  | list c xs => simp [mapTChild, isLeaf]
  | dict c kvs => simp [mapTChild, isLeaf]

/-! ### the options without `transform` -/

def noTransf (cfg : Cfg) : Cfg := { cfg with tr := [] }

@[simp] theorem noTransf_direct (cfg : Cfg) : (noTransf cfg).direct = cfg.direct := rfl
@[simp] theorem noTransf_fl (cfg : Cfg) : (noTransf cfg).fl = cfg.fl := rfl
@[simp] theorem excluded_noTransf (cfg : Cfg) (p : Path) : excluded (noTransf cfg) p = excluded cfg p := rfl
@[simp] theorem onlyOk_noTransf (cfg : Cfg) (p : Path) : onlyOk (noTransf cfg) p = onlyOk cfg p := rfl
@[simp] theorem transformAt_noTransf (cfg : Cfg) (p : Path) : transformAt (noTransf cfg) p = id := rfl

/-! ### shapes -/

theorem tr_shape_append {a a' b b' : Res} (ha : a'.shape = a.shape) (hb : b'.shape = b.shape) :
    (a' ++ b').shape = (a ++ b).shape := by
  simp only [Res.shape, Prod.mk.injEq] at ha hb ⊢
  obtain ⟨a1, a2, a3, a4, a5⟩ := ha
  obtain ⟨b1, b2, b3, b4, b5⟩ := hb
  simp [*]

/-- two runs agree: same error, or results of the same shape -/
def TrERel : Except PyErr Res → Except PyErr Res → Prop
  | .ok r, .ok r' => r'.shape = r.shape
  | .error e, .error e' => e' = e
  | _, _ => False

@[simp] theorem tr_erel_ok_ok (r r' : Res) : TrERel (.ok r) (.ok r') ↔ r'.shape = r.shape := Iff.rfl
@[simp] theorem tr_erel_err_err (e e' : PyErr) : TrERel (.error e) (.error e') ↔ e' = e := Iff.rfl
@[simp] theorem tr_erel_ok_err (r : Res) (e : PyErr) : TrERel (.ok r) (.error e) ↔ False := Iff.rfl
@[simp] theorem tr_erel_err_ok (r : Res) (e : PyErr) : TrERel (.error e) (.ok r) ↔ False := Iff.rfl

theorem tr_erel_cons {r0 r0' : Res} (h0 : r0'.shape = r0.shape) (B B' : Except PyErr Res) : TrERel B B' →
    TrERel (match B with | .error e => .error e | .ok r' => .ok (r0 ++ r'))
      (match B' with | .error e => .error e | .ok r' => .ok (r0' ++ r')) := by
  intro hB
  cases B <;> cases B'
  · exact hB
  · exact hB.elim
  · exact hB.elim
  · exact tr_shape_append h0 hB

theorem tr_erel_bind (A A' B B' : Except PyErr Res) : TrERel A A' → TrERel B B' →
    TrERel (match A with
          | .error e => .error e
          | .ok r => match B with | .error e => .error e | .ok r' => .ok (r ++ r'))
      (match A' with
          | .error e => .error e
          | .ok r => match B' with | .error e => .error e | .ok r' => .ok (r ++ r')) := by
  intro hA hB
  cases A <;> cases A'
  · exact hA
  · exact hA.elim
  · exact hA.elim
  · exact tr_erel_cons hA B B' hB

/-- the decisions of the two runs agree -/
def TrActShape : Act → Act → Prop
  | .emit r _, .emit r' _ => r'.shape = r.shape
  | .descend, .descend => True
  | _, _ => False

theorem tr_classifyItem_shape (cfg : Cfg) (p pne pdt : Path) (sa oa sa' oa' x y x' y' : Val)
    (h1 : tyOf x' = tyOf (transformAt cfg p x)) (h2 : tyOf y' = tyOf (transformAt cfg p y))
    (h3 : isPyScalar (transformAt cfg p x) = true → x' = transformAt cfg p x)
    (h4 : isPyScalar (transformAt cfg p y) = true → y' = transformAt cfg p y) :
    TrActShape (classifyItem cfg p pne pdt sa oa x y) (classifyItem (noTransf cfg) p pne pdt sa' oa' x' y') := by
  unfold classifyItem
  simp only [transformAt_noTransf, id, noTransf_fl]
  generalize transformAt cfg p x = sv at h1 h3
  generalize transformAt cfg p y = ov at h2 h4
  by_cases ht : tyOf sv = tyOf ov
  · have ht' : tyOf x' = tyOf y' := by rw [h1, h2, ht]
    by_cases hs : isPyScalar sv = true
    · have hs' : isPyScalar ov = true := by rw [← tyOf_scalar_eq ht]; exact hs
      obtain rfl := h3 hs
      obtain rfl := h4 hs'
      by_cases he : x' = y'
      · subst he
        by_cases hq : cfg.fl.equal = true <;> simp [TrActShape, Res.shape, Res.empty, hs, hq]
      · simp [TrActShape, Res.shape, ht, hs, he]
    · have hs1 : isPyScalar x' = false := by rw [tyOf_scalar_eq h1]; simpa using hs
      simp [TrActShape, ht, ht', hs, hs1]
  · have ht' : ¬ tyOf x' = tyOf y' := by rw [h1, h2]; exact ht
    by_cases hq : cfg.fl.types = true <;> simp [TrActShape, Res.shape, ht, ht', hq]

theorem tr_classifyEntry_shape (cfg : Cfg) (full : Path) (x y x' y' : Val)
    (h1 : tyOf x' = tyOf (transformAt cfg full x)) (h2 : tyOf y' = tyOf (transformAt cfg full y))
    (h3 : isPyScalar (transformAt cfg full x) = true → x' = transformAt cfg full x)
    (h4 : isPyScalar (transformAt cfg full y) = true → y' = transformAt cfg full y) :
    TrActShape (classifyEntry cfg full x y) (classifyEntry (noTransf cfg) full x' y') := by
  by_cases hx : excluded cfg full = true
  · simp [classifyEntry, hx, TrActShape]
  · simp only [classifyEntry, excluded_noTransf, hx, Bool.false_eq_true, if_false, transformAt_noTransf, id, noTransf_fl, onlyOk_noTransf]
    generalize transformAt cfg full x = sv at h1 h3
    generalize transformAt cfg full y = ov at h2 h4
    by_cases ht : tyOf sv = tyOf ov
    · have ht' : tyOf x' = tyOf y' := by rw [h1, h2, ht]
      by_cases hs : isPyScalar sv = true
      · have hs' : isPyScalar ov = true := by rw [← tyOf_scalar_eq ht]; exact hs
        obtain rfl := h3 hs
        obtain rfl := h4 hs'
        by_cases he : x' = y'
        · subst he
          simp [TrActShape, Res.shape, Res.empty, hs]
        · by_cases ho : onlyOk cfg full = true <;> simp [TrActShape, Res.shape, Res.empty, ht, hs, he, ho]
      · have hs1 : isPyScalar x' = false := by rw [tyOf_scalar_eq h1]; simpa using hs
        simp [TrActShape, ht, ht', hs, hs1]
    · have ht' : ¬ tyOf x' = tyOf y' := by rw [h1, h2]; exact ht
      by_cases hq : cfg.fl.types = true <;> by_cases ho : onlyOk cfg full = true <;>
        simp [TrActShape, Res.shape, Res.empty, ht, ht', hq, ho]

/-! ### dictionaries -/

theorem mapTK_lookup (cfg : Cfg) (p : Path) (k : Str) : ∀ (l : List (Str × Val)),
    Val.lookup k (mapTK cfg p l) =
      (Val.lookup k l).map (mapTChild cfg (p ++ [.key k]) (transformAt cfg (p ++ [.key k])))
  | [] => by simp [mapTK, Val.lookup]
  | (k', v) :: rest => by
    rw [mapTK_cons]
    simp only [Val.lookup]
    by_cases hk : k = k'
    · subst hk; simp
    · simp [hk, mapTK_lookup cfg p k rest]

theorem mapTK_hasKey (cfg : Cfg) (p : Path) (k : Str) (l : List (Str × Val)) :
    hasKey k (mapTK cfg p l) = hasKey k l := by
  simp [hasKey, mapTK_lookup]

theorem mapTK_leftover_paths (cfg : Cfg) (p : Path) (g : Str → Bool) : ∀ (l : List (Str × Val)),
    (((mapTK cfg p l).filter (fun kv => g kv.1)).filterMap (leftover (noTransf cfg) p)).map (·.path) =
      ((l.filter (fun kv => g kv.1)).filterMap (leftover cfg p)).map (·.path)
  | [] => by simp [mapTK]
  | (k, v) :: rest => by
    rw [mapTK_cons]
    simp only [List.filter_cons]
    cases hg : g k
    · simpa using mapTK_leftover_paths cfg p g rest
    · have ih := mapTK_leftover_paths cfg p g rest
      by_cases hc : (!excluded cfg (p ++ [.key k]) && onlyOk cfg (p ++ [.key k])) = true
      · have e1 : leftover (noTransf cfg) p (k, mapTChild cfg (p ++ [.key k]) (transformAt cfg (p ++ [.key k])) v) =
            some ⟨p ++ [.key k], mapTChild cfg (p ++ [.key k]) (transformAt cfg (p ++ [.key k])) v⟩ := by
          unfold leftover; exact if_pos hc
        have e2 : leftover cfg p (k, v) = some ⟨p ++ [.key k], v⟩ := by
          unfold leftover; exact if_pos hc
        simp only [if_true, List.filterMap_cons, e1, e2, List.map_cons, ih]
      · have e1 : leftover (noTransf cfg) p (k, mapTChild cfg (p ++ [.key k]) (transformAt cfg (p ++ [.key k])) v) = none := by
          unfold leftover; exact if_neg hc
        have e2 : leftover cfg p (k, v) = none := by
          unfold leftover; exact if_neg hc
        simp only [if_true, List.filterMap_cons, e1, e2, ih]

theorem mapTK_dictTail_shape (cfg : Cfg) (p : Path) (sa oa sa' oa' : Val) (skvs okvs : List (Str × Val)) (s s' : Bool) :
    (dictTail (noTransf cfg) p sa' oa' (mapTK cfg p skvs) (mapTK cfg p okvs) s').shape =
      (dictTail cfg p sa oa skvs okvs s).shape := by
  have e1 := mapTK_leftover_paths cfg p (fun k => !hasKey k okvs) skvs
  have e2 := mapTK_leftover_paths cfg p (fun k => !hasKey k skvs) okvs
  have l1 := congrArg List.length e1
  have l2 := congrArg List.length e2
  simp only [List.length_map] at l1 l2
  simp only [Res.shape, dictTail, mapTK_hasKey, List.map_nil, Prod.mk.injEq, and_true, true_and]
  exact ⟨by rw [l1, l2], e1, e2⟩

/-! ### lists -/

theorem mapTL_length (cfg : Cfg) (p : Path) (f : Val → Val) : ∀ (xs : List Val) (i : Nat),
    (mapTL cfg p f i xs).length = xs.length
  | [], _ => by simp [mapTL]
  | x :: xs, i => by simp [mapTL, mapTL_length cfg p f xs (i + 1)]

theorem tr_otherTail_paths_len (p : Path) : ∀ (l l' : List Val) (i : Nat), l.length = l'.length →
    (otherTail p i l').map (·.path) = (otherTail p i l).map (·.path)
  | [], [], _, _ => rfl
  | [], _ :: _, _, h => by simp at h
  | _ :: _, [], _, h => by simp at h
  | _ :: l, _ :: l', i, h => by
    simp only [otherTail, List.map_cons]
    rw [tr_otherTail_paths_len p l l' (i + 1) (by simpa using h)]

theorem tr_classifyItem_descend {cfg : Cfg} {p pne pdt : Path} {sa oa x y : Val}
    (h : classifyItem cfg p pne pdt sa oa x y = .descend) :
    tyOf (transformAt cfg p x) = tyOf (transformAt cfg p y) ∧ isPyScalar (transformAt cfg p x) = false := by
  unfold classifyItem at h
  simp only at h
  split at h
  · rename_i ht
    split at h
    · split at h
      · cases h
      · split at h <;> cases h
    · rename_i hs
      exact ⟨ht, by simpa using hs⟩
  · split at h <;> cases h

theorem tr_classifyEntry_descend {cfg : Cfg} {full : Path} {x y : Val}
    (h : classifyEntry cfg full x y = .descend) :
    tyOf (transformAt cfg full x) = tyOf (transformAt cfg full y) ∧ isPyScalar (transformAt cfg full x) = false := by
  unfold classifyEntry at h
  split at h
  · cases h
  · simp only at h
    split at h
    · rename_i ht
      split at h
      · split at h <;> cases h
      · rename_i hs
        exact ⟨ht, by simpa using hs⟩
    · split at h
      · split at h <;> cases h
      · cases h

/-! ### the two runs agree (direct entry point) -/

mutual
theorem sub_tr (cfg : Cfg) (hd : cfg.direct = true) (hl : LeafTransform cfg) (site : Site) (p : Path) (v w : Val) :
    TrERel (sub cfg site p v w) (sub (noTransf cfg) site p (mapT cfg p v) (mapT cfg p w)) :=
  match v, w with
  | .list c xs, w => by
    cases w with
    | list c' ys =>
      have ih := directWalk_tr cfg hd hl p (.list .n0 xs) (.list .n0 ys)
        (.list .n0 (mapTL cfg p (transformAt cfg p) 0 xs)) (.list .n0 (mapTL cfg p (transformAt cfg p) 0 ys)) 0 xs ys
      cases site <;> cases c <;> cases c' <;> by_cases h3 : excluded cfg p = true <;>
        simp [sub, mapT, hd, h3, Res.shape] <;> exact ih
    | _ => simp [sub, mapT]
  | .dict c kvs, w => by
    cases w with
    | dict c' kvs' =>
      have ih := dictWalk_tr cfg hd hl p (.dict .n0 kvs) (.dict .n0 kvs')
        (.dict .n0 (mapTK cfg p kvs)) (.dict .n0 (mapTK cfg p kvs')) kvs kvs' true true kvs
      cases site <;> cases c' <;> simp [sub, mapT, hd] <;> exact ih
    | _ => simp [sub, mapT]
  | .none, w => by cases w <;> simp [sub, mapT, Res.shape]
  | .bool _, w => by cases w <;> simp [sub, mapT]
  | .int _, w => by cases w <;> simp [sub, mapT]
  | .flt _, w => by cases w <;> simp [sub, mapT]
  | .str _, w => by cases w <;> simp [sub, mapT]
termination_by structural v

theorem dictWalk_tr (cfg : Cfg) (hd : cfg.direct = true) (hl : LeafTransform cfg) (p : Path)
    (sa oa sa' oa' : Val) (skvs okvs : List (Str × Val)) (still still' : Bool) (kvs : List (Str × Val)) :
    TrERel (dictWalk cfg p sa oa skvs okvs still kvs)
      (dictWalk (noTransf cfg) p sa' oa' (mapTK cfg p skvs) (mapTK cfg p okvs) still' (mapTK cfg p kvs)) :=
  match kvs, still, still' with
  | [], still, still' => by
    simp only [dictWalk, mapTK]
    exact mapTK_dictTail_shape cfg p sa oa sa' oa' skvs okvs still still'
  | (k, v) :: rest, still, still' => by
    rw [mapTK_cons]
    simp only [dictWalk, mapTK_lookup]
    cases hlk : Val.lookup k okvs with
    | none =>
      simp only [Option.map_none]
      exact dictWalk_tr cfg hd hl p sa oa sa' oa' skvs okvs still still' rest
    | some w =>
      simp only [Option.map_some]
      have hf := tr_leafFn_transformAt hl (p ++ [.key k])
      have hact := tr_classifyEntry_shape cfg (p ++ [.key k]) v w
        (mapTChild cfg (p ++ [.key k]) (transformAt cfg (p ++ [.key k])) v)
        (mapTChild cfg (p ++ [.key k]) (transformAt cfg (p ++ [.key k])) w)
        (mapT_child_tyOf hf cfg _ v) (mapT_child_tyOf hf cfg _ w) (mapT_child_scalar hf cfg _ v) (mapT_child_scalar hf cfg _ w)
      cases hc : classifyEntry cfg (p ++ [.key k]) v w with
      | emit r0 s0 =>
        cases hc' : classifyEntry (noTransf cfg) (p ++ [.key k])
            (mapTChild cfg (p ++ [.key k]) (transformAt cfg (p ++ [.key k])) v)
            (mapTChild cfg (p ++ [.key k]) (transformAt cfg (p ++ [.key k])) w) with
        | emit r0' s0' =>
          rw [hc, hc'] at hact
          simp only
          exact tr_erel_cons hact _ _ (dictWalk_tr cfg hd hl p sa oa sa' oa' skvs okvs (still && s0) (still' && s0') rest)
        | descend => rw [hc, hc'] at hact; exact hact.elim
      | descend =>
        cases hc' : classifyEntry (noTransf cfg) (p ++ [.key k])
            (mapTChild cfg (p ++ [.key k]) (transformAt cfg (p ++ [.key k])) v)
            (mapTChild cfg (p ++ [.key k]) (transformAt cfg (p ++ [.key k])) w) with
        | emit r0' s0' => rw [hc, hc'] at hact; exact hact.elim
        | descend =>
          obtain ⟨ht, hns⟩ := tr_classifyEntry_descend hc
          have hns' : isPyScalar (transformAt cfg (p ++ [.key k]) w) = false := by
            rw [← tyOf_scalar_eq ht]; exact hns
          simp only
          rw [mapT_child_nonscalar hf cfg _ v hns, mapT_child_nonscalar hf cfg _ w hns']
          exact tr_erel_bind _ _ _ _ (sub_tr cfg hd hl .entry (p ++ [.key k]) v w)
            (dictWalk_tr cfg hd hl p sa oa sa' oa' skvs okvs still still' rest)
termination_by structural kvs

theorem directWalk_tr (cfg : Cfg) (hd : cfg.direct = true) (hl : LeafTransform cfg) (p : Path)
    (sa oa sa' oa' : Val) (i : Nat) (xs ys : List Val) :
    TrERel (directWalk cfg p sa oa i xs ys)
      (directWalk (noTransf cfg) p sa' oa' i (mapTL cfg p (transformAt cfg p) i xs) (mapTL cfg p (transformAt cfg p) i ys)) :=
  match xs, ys, i with
  | [], ys, i => by
    simp only [directWalk, mapTL]
    have e := tr_otherTail_paths_len p ys (mapTL cfg p (transformAt cfg p) i ys) i (mapTL_length cfg p _ ys i).symm
    have l := congrArg List.length e
    simp only [List.length_map] at l
    show Res.shape _ = Res.shape _
    simp only [Res.shape, List.map_nil, e, l]
  | x :: xs, [], i => by
    rw [mapTL_cons]
    simp only [directWalk, mapTL]
    refine tr_erel_cons ?_ _ _ (directWalk_tr cfg hd hl p sa oa sa' oa' (i + 1) xs [])
    simp [Res.shape]
  | x :: xs, y :: ys, i => by
    rw [mapTL_cons, mapTL_cons]
    simp only [directWalk]
    have hf := tr_leafFn_transformAt hl p
    have hact := tr_classifyItem_shape cfg p (p ++ [.idx i]) (p ++ [.idx i]) sa oa sa' oa' x y
      (mapTChild cfg (p ++ [.idx i]) (transformAt cfg p) x)
      (mapTChild cfg (p ++ [.idx i]) (transformAt cfg p) y)
      (mapT_child_tyOf hf cfg _ x) (mapT_child_tyOf hf cfg _ y) (mapT_child_scalar hf cfg _ x) (mapT_child_scalar hf cfg _ y)
    cases hc : classifyItem cfg p (p ++ [.idx i]) (p ++ [.idx i]) sa oa x y with
    | emit r0 s0 =>
      cases hc' : classifyItem (noTransf cfg) p (p ++ [.idx i]) (p ++ [.idx i]) sa' oa'
          (mapTChild cfg (p ++ [.idx i]) (transformAt cfg p) x)
          (mapTChild cfg (p ++ [.idx i]) (transformAt cfg p) y) with
      | emit r0' s0' =>
        rw [hc, hc'] at hact
        simp only
        exact tr_erel_cons hact _ _ (directWalk_tr cfg hd hl p sa oa sa' oa' (i + 1) xs ys)
      | descend => rw [hc, hc'] at hact; exact hact.elim
    | descend =>
      cases hc' : classifyItem (noTransf cfg) p (p ++ [.idx i]) (p ++ [.idx i]) sa' oa'
          (mapTChild cfg (p ++ [.idx i]) (transformAt cfg p) x)
          (mapTChild cfg (p ++ [.idx i]) (transformAt cfg p) y) with
      | emit r0' s0' => rw [hc, hc'] at hact; exact hact.elim
      | descend =>
        obtain ⟨ht, hns⟩ := tr_classifyItem_descend hc
        have hns' : isPyScalar (transformAt cfg p y) = false := by
          rw [← tyOf_scalar_eq ht]; exact hns
        simp only
        rw [mapT_child_nonscalar hf cfg _ x hns, mapT_child_nonscalar hf cfg _ y hns']
        exact tr_erel_bind _ _ _ _ (sub_tr cfg hd hl .item (p ++ [.idx i]) x y)
          (directWalk_tr cfg hd hl p sa oa sa' oa' (i + 1) xs ys)
termination_by structural xs
end

/-- the run with `transform` and the run without `transform` on the mapped trees end in the same error or in
results of the same shape -/
theorem compareTop_tr (cfg : Cfg) (hd : cfg.direct = true) (hl : LeafTransform cfg) (a b : Val) :
    TrERel (compareTop cfg a b) (compareTop (noTransf cfg) (mapT cfg [] a) (mapT cfg [] b)) := by
  cases a with
  | dict c kvs =>
    cases c with
    | plain => cases b <;> simp [compareTop, mapT]
    | n0 =>
      cases b with
      | dict c' kvs' =>
        cases c' with
        | plain => simp [compareTop, mapT]
        | n0 =>
          simp only [compareTop, mapT]
          exact dictWalk_tr cfg hd hl [] _ _ _ _ kvs kvs' true true kvs
      | _ => simp [compareTop, mapT]
  | list c xs =>
    cases c with
    | plain => cases b <;> simp [compareTop, mapT]
    | n0 =>
      cases b with
      | list c' ys =>
        cases c' with
        | plain => simp [compareTop, mapT]
        | n0 =>
          have h := sub_tr cfg hd hl .entry [] (.list .n0 xs) (.list .n0 ys)
          simp only [mapT] at h
          simp only [compareTop, mapT]
          exact h
      | _ => simp [compareTop, mapT]
  | _ => cases b <;> simp [compareTop, mapT]

/-- with `transform`, two leaves count as equal iff their transformed values are equal, while the reports show the
original values: the result has the shape of the result of the plain run on the mapped trees -/
theorem transform_direct (cfg : Cfg) (hd : cfg.direct = true) (hl : LeafTransform cfg) (a b : Val) (r : Res)
    (h : compareTop cfg a b = .ok r) :
    ∃ r', compareTop { cfg with tr := [] } (mapT cfg [] a) (mapT cfg [] b) = .ok r' ∧ r'.shape = r.shape := by
  have hrel := compareTop_tr cfg hd hl a b
  rw [h] at hrel
  change ∃ r', compareTop (noTransf cfg) (mapT cfg [] a) (mapT cfg [] b) = .ok r' ∧ r'.shape = r.shape
  cases hc : compareTop (noTransf cfg) (mapT cfg [] a) (mapT cfg [] b) with
  | error e => rw [hc] at hrel; exact hrel.elim
  | ok r' => rw [hc] at hrel; exact ⟨r', rfl, hrel⟩

/-- the converse direction -/
theorem transform_direct_conv (cfg : Cfg) (hd : cfg.direct = true) (hl : LeafTransform cfg) (a b : Val) (r' : Res)
    (h : compareTop { cfg with tr := [] } (mapT cfg [] a) (mapT cfg [] b) = .ok r') :
    ∃ r, compareTop cfg a b = .ok r ∧ r'.shape = r.shape := by
  have hrel := compareTop_tr cfg hd hl a b
  change compareTop (noTransf cfg) (mapT cfg [] a) (mapT cfg [] b) = .ok r' at h
  rw [h] at hrel
  cases hc : compareTop cfg a b with
  | error e => rw [hc] at hrel; exact hrel.elim
  | ok r => rw [hc] at hrel; exact ⟨r, rfl, hrel⟩

/-- both runs raise the same exception -/
theorem transform_direct_error (cfg : Cfg) (hd : cfg.direct = true) (hl : LeafTransform cfg) (a b : Val) (e : PyErr) :
    compareTop cfg a b = .error e ↔
      compareTop { cfg with tr := [] } (mapT cfg [] a) (mapT cfg [] b) = .error e := by
  have hrel := compareTop_tr cfg hd hl a b
  change _ ↔ compareTop (noTransf cfg) (mapT cfg [] a) (mapT cfg [] b) = .error e
  cases hc : compareTop cfg a b <;> cases hc' : compareTop (noTransf cfg) (mapT cfg [] a) (mapT cfg [] b) <;>
    rw [hc, hc'] at hrel
  · simp only [tr_erel_err_err] at hrel; subst hrel; simp
  · exact hrel.elim
  · exact hrel.elim
  · simp

/-- the verdict of the run with `transform` is the verdict of the plain run on the mapped trees -/
theorem transform_direct_verdict (cfg : Cfg) (hd : cfg.direct = true) (hl : LeafTransform cfg) (a b : Val) :
    verdict (compareTop cfg a b) = verdict (compareTop { cfg with tr := [] } (mapT cfg [] a) (mapT cfg [] b)) := by
  have hrel := compareTop_tr cfg hd hl a b
  change _ = verdict (compareTop (noTransf cfg) (mapT cfg [] a) (mapT cfg [] b))
  cases hc : compareTop cfg a b <;> cases hc' : compareTop (noTransf cfg) (mapT cfg [] a) (mapT cfg [] b) <;>
    rw [hc, hc'] at hrel
  · rfl
  · exact hrel.elim
  · exact hrel.elim
  · simp only [tr_erel_ok_ok, Res.shape, Prod.mk.injEq] at hrel
    simp [verdict, hrel.1]

/-! ### keyed mode: non-record list items are keyed by the JSON text of the *transformed* value (fix C10-a) -/

def lowerFn : Val → Val
  | .str s => .str (Py.lower s)
  | v => v

def trCexCfg : Cfg := { Cfg.default Flags.init false with tr := [⟨['/', '/', 'a'], lowerFn⟩] }
def trCexA : Val := .dict .n0 [(['a'], .list .n0 [.str ['A']])]
def trCexB : Val := .dict .n0 [(['a'], .list .n0 [.str ['a']])]

theorem trCexCfg_leaf : LeafTransform trCexCfg := by
  intro t ht
  simp only [trCexCfg, Cfg.default, List.mem_singleton] at ht
  subst ht
  refine ⟨fun _ _ => rfl, fun _ _ => rfl, ?_, .inr rfl⟩
  intro v hv
  cases v <;> simp_all [lowerFn, isPyScalar]

/-- in keyed mode (`n0list.compare`) the items `'A'` and `'a'` meet (both have the key `"a"`) and nothing is
reported, as on the mapped trees (before fix C10-a: two unique entries) -/
theorem transform_keyed_example :
    (match compareTop trCexCfg trCexA trCexB with | .ok r => r.diffs | .error _ => 1) = 0 ∧
      mapT trCexCfg [] trCexA = mapT trCexCfg [] trCexB ∧
      (match compareTop { trCexCfg with tr := [] } (mapT trCexCfg [] trCexA) (mapT trCexCfg [] trCexB) with
        | .ok r => r.diffs | .error _ => 1) = 0 := by
  decide

/-- `transform=(('//a[0]', lower),)` -/
def trNestCfg : Cfg := { Cfg.default Flags.init false with tr := [⟨['/', '/', 'a', '[', '0', ']'], lowerFn⟩] }
def trNestA : Val := .dict .n0 [(['a'], .list .n0 [.list .n0 [.str ['A']]])]
def trNestB : Val := .dict .n0 [(['a'], .list .n0 [.list .n0 [.str ['a']]])]

/-- what stays outside the keyed statement: a list nested in a list whose leaves are transformed by a pattern
naming the index.  The outer items `['A']` and `['a']` are keyed by their own JSON text (the transform registered
for `/a[0]` is not the one of the list `/a`), so they do not meet, while the mapped trees are equal. -/
theorem transform_keyed_nested_cex :
    (match compareTop trNestCfg trNestA trNestB with | .ok r => r.diffs | .error _ => 0) = 2 ∧
      mapT trNestCfg [] trNestA = mapT trNestCfg [] trNestB ∧
      (match compareTop { trNestCfg with tr := [] } (mapT trNestCfg [] trNestA) (mapT trNestCfg [] trNestB) with
        | .ok r => r.diffs | .error _ => 1) = 0 := by
  decide

theorem trNestCfg_leaf : LeafTransform trNestCfg := by
  intro t ht
  simp only [trNestCfg, Cfg.default, List.mem_singleton] at ht
  subst ht
  refine ⟨fun _ _ => rfl, fun _ _ => rfl, ?_, .inr rfl⟩
  intro v hv
  cases v <;> simp_all [lowerFn, isPyScalar]

/-- the same pair through the direct entry point: no difference is reported -/
theorem transform_direct_example :
    (match compareTop { trCexCfg with direct := true } trCexA trCexB with | .ok r => r.diffs | .error _ => 1) = 0 := by
  decide

end N0.Compare
