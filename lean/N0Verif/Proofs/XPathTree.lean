import N0Verif.Model.XPathApi
/-!
  Tree layer of the xpath engine proofs: a token list that *spells* a position resolves
  through `findD` to exactly that node.  Token-level facts (what `split_name_index` and
  `n0eval` return for a concrete token) are hypotheses here; they are discharged for the
  rendered spellings in `Proofs/XPathTok.lean`.
-/
namespace N0.XPath
open N0 N0.Py N0.Val

theorem getAt_append (t : Val) (p q : Pos) :
    getAt t (p ++ q) = (getAt t p).bind (fun c => getAt c q) := by
  induction p generalizing t with
  | nil => simp [getAt]
  | cons s p ih =>
    simp only [List.cons_append, getAt]
    cases h : child t s with
    | none => simp
    | some c => simp [ih]

theorem getAt_snoc (t : Val) (p : Pos) (s : Seg) :
    getAt t (p ++ [s]) = (getAt t p).bind (fun c => child c s) := by
  rw [getAt_append]
  cases getAt t p with
  | none => rfl
  | some c => simp [getAt]

/-- token `tok` is a plain key step -/
structure KeyTok (tok : Str) : Prop where
  split : splitNameIndex tok = .ok (tok, .none)
  ne : tok ≠ []
  notUp : tok ≠ ['.', '.']
  notStar : tok ≠ ['*']

/-- token `tok` is a pure index step denoting the integer `i` -/
structure IdxTok (tok : Str) (e : Str) (i : Int) : Prop where
  split : splitNameIndex tok = .ok ([], .str e)
  ne : e ≠ []
  notNew : e ≠ sNew
  notStar : e ≠ ['*']
  eval : n0eval e = .ok (.int i)

/-- token `tok` is `key[index]` -/
structure KeyIdxTok (tok : Str) (k : Str) (e : Str) (i : Int) : Prop where
  split : splitNameIndex tok = .ok (k, .str e)
  kne : k ≠ []
  notUp : k ≠ ['.', '.']
  notStar : k ≠ ['*']
  inner : IdxTok (bracket e) e i

/-- `Spells toks v p c`: starting at node `v`, the tokens walk along position `p` to node `c` -/
inductive Spells : List Str → Val → Pos → Val → Prop
  | nil (v : Val) : Spells [] v [] v
  | key {tok rest cls kvs c p d} :
      KeyTok tok → lookup tok kvs = some c → Spells rest c p d →
      Spells (tok :: rest) (.dict cls kvs) (.key tok :: p) d
  | idx {tok e i rest cls xs n c p d} :
      IdxTok tok e i → normIdx i xs.length = some n → xs[n]? = some c → Spells rest c p d →
      Spells (tok :: rest) (.list cls xs) (.idx n :: p) d
  | keyIdx {tok k e i rest cls kvs cls' xs n c p d} :
      KeyIdxTok tok k e i → lookup k kvs = some (.list cls' xs) →
      normIdx i xs.length = some n → xs[n]? = some c → Spells rest c p d →
      Spells (tok :: rest) (.dict cls kvs) (.key k :: .idx n :: p) d

theorem Spells.getAt {toks v p c} (h : Spells toks v p c) : Val.getAt v p = some c := by
  induction h with
  | nil v => rfl
  | key _ hl _ ih => simp [Val.getAt, child, hl, ih]
  | idx _ _ hx _ ih => simp [Val.getAt, child, hx, ih]
  | keyIdx _ hl _ hx _ ih => simp [Val.getAt, child, hl, hx, ih]

theorem normIdx_lt {i : Int} {len n : Nat} (h : normIdx i len = some n) : n < len := by
  unfold normIdx at h
  split at h
  · split at h
    · simp at h; omega
    · simp at h
  · split at h
    · simp at h; omega
    · simp at h

theorem normIdx_range {i : Int} {len n : Nat} (h : normIdx i len = some n) :
    ¬ (i ≥ (len : Int) ∨ i < -(len : Int)) := by
  unfold normIdx at h
  split at h
  · split at h
    · simp at h; omega
    · simp at h
  · split at h
    · simp at h; omega
    · simp at h

/-- the `node_name_index` the engine reports for the last segment of a path -/
inductive NameFor : Val → Seg → Str → Prop
  | key {cls kvs k} : NameFor (.dict cls kvs) (.key k) k
  | idx {cls xs n i} : normIdx i xs.length = some n → NameFor (.list cls xs) (.idx n) (bracket (intStr i))

/-- what `_find` returns when it has found the node at `q ++ p` -/
def FoundAt (root : Val) (q p : Pos) (c : Val) (r : Res) : Prop :=
  r.value = c ∧ r.notFound = Option.none ∧
  ∃ pp s pv ni, p = pp ++ [s] ∧ r.parent = .at (q ++ pp) ∧ getAt root (q ++ pp) = some pv ∧
    r.nameIdx = some ni ∧ NameFor pv s ni

theorem valOf_at (root : Val) (q : Pos) : valOf root (.at q) = getAt root q := rfl

theorem isEmpty_false_of_ne {α} {l : List α} (h : l ≠ []) : l.isEmpty = false := by
  cases l <;> simp_all

theorem find_key_last (fuel : Nat) (root : Val) (entry rl : Bool) (q : Pos) (found tok : Str)
    (cls : Cls) (kvs : List (Str × Val)) (c : Val)
    (hq : getAt root q = some (.dict cls kvs)) (hk : KeyTok tok) (hl : lookup tok kvs = some c) :
    findD (fuel + 1) root [] false entry [tok] (.at q) rl found
      = .ok (root, { parent := .at q, nameIdx := some tok, value := c, found := found ++ slash ++ tok, notFound := Option.none }) := by
  have hne : tok.isEmpty = false := isEmpty_false_of_ne hk.ne
  rw [findD]
  simp only [Bool.false_and, Bool.false_eq_true, if_false, valOf_at, hq, hk.split, hne, Bool.not_false,
    Idx.truthy, hk.notUp, hk.notStar, isList, isDict, Bool.not_true, hl,
    List.isEmpty_nil, Bool.and_self, decide_true, ite_true]

theorem find_key_step (fuel : Nat) (root : Val) (entry rl : Bool) (q : Pos) (found tok : Str) (rest : List Str)
    (cls : Cls) (kvs : List (Str × Val)) (c : Val) (hrest : rest ≠ [])
    (hq : getAt root q = some (.dict cls kvs)) (hk : KeyTok tok) (hl : lookup tok kvs = some c) :
    findD (fuel + 1) root [] false entry (tok :: rest) (.at q) rl found
      = findD fuel root [] false false rest (.at (q ++ [.key tok])) rl (found ++ slash ++ tok) := by
  have hne : tok.isEmpty = false := isEmpty_false_of_ne hk.ne
  have hr : rest.isEmpty = false := isEmpty_false_of_ne hrest
  rw [findD]
  simp only [Bool.false_and, Bool.false_eq_true, if_false, valOf_at, hq, hk.split, hne, Bool.not_false,
    Idx.truthy, hk.notUp, hk.notStar, isList, isDict, Bool.not_true, hl, hr, childRef, if_true]

theorem find_keyidx_step (fuel : Nat) (root : Val) (entry rl : Bool) (q : Pos) (found tok k e : Str) (i : Int)
    (rest : List Str) (cls : Cls) (kvs : List (Str × Val)) (c : Val)
    (hq : getAt root q = some (.dict cls kvs)) (hk : KeyIdxTok tok k e i) (hl : lookup k kvs = some c) :
    findD (fuel + 1) root [] false entry (tok :: rest) (.at q) rl found
      = findD fuel root [] false false (bracket e :: rest) (.at (q ++ [Seg.key k])) rl (found ++ slash ++ k) := by
  have hne : k.isEmpty = false := isEmpty_false_of_ne hk.kne
  rw [findD]
  simp only [Bool.false_and, Bool.false_eq_true, if_false, valOf_at, hq, hk.split, hne, Bool.not_false,
    Idx.truthy, hk.notUp, hk.notStar, isList, isDict, Bool.not_true, hl, childRef]
  simp

theorem find_idx_last (fuel : Nat) (root : Val) (entry rl : Bool) (q : Pos) (found tok e : Str) (i : Int)
    (cls : Cls) (xs : List Val) (n : Nat) (c : Val)
    (hq : getAt root q = some (.list cls xs)) (hk : IdxTok tok e i)
    (hn : normIdx i xs.length = some n) (hx : xs[n]? = some c) :
    findD (fuel + 1) root [] false entry [tok] (.at q) rl found
      = .ok (root, { parent := .at q, nameIdx := some (bracket (intStr i)), value := c, found := found, notFound := Option.none }) := by
  have hne : e.isEmpty = false := isEmpty_false_of_ne hk.ne
  have hrange := normIdx_range hn
  rw [findD]
  simp only [Bool.false_and, Bool.false_eq_true, if_false, valOf_at, hq, hk.split, List.isEmpty_nil,
    Idx.truthy, hne, Bool.not_false, Bool.and_false, Bool.not_true, hk.notNew, hk.notStar, hk.eval]
  simp only [not_or] at hrange
  simp [hrange.1, hrange.2, hn, hx]

theorem find_idx_step (fuel : Nat) (root : Val) (entry rl : Bool) (q : Pos) (found tok e : Str) (i : Int)
    (rest : List Str) (hrest : rest ≠ [])
    (cls : Cls) (xs : List Val) (n : Nat)
    (hq : getAt root q = some (.list cls xs)) (hk : IdxTok tok e i)
    (hn : normIdx i xs.length = some n) :
    findD (fuel + 1) root [] false entry (tok :: rest) (.at q) rl found
      = findD fuel root [] false false rest (.at (q ++ [.idx n])) rl (found ++ bracket (intStr i)) := by
  have hne : e.isEmpty = false := isEmpty_false_of_ne hk.ne
  have hr : rest.isEmpty = false := isEmpty_false_of_ne hrest
  have hrange := normIdx_range hn
  rw [findD]
  simp only [Bool.false_and, Bool.false_eq_true, if_false, valOf_at, hq, hk.split, List.isEmpty_nil,
    Idx.truthy, hne, Bool.not_false, Bool.and_false, Bool.not_true, hk.notNew, hk.notStar, hk.eval]
  simp only [not_or] at hrange
  simp [hrange.1, hrange.2, hn, hr, childRef]

theorem Spells.nil_inv {v p c} (h : Spells [] v p c) : p = [] ∧ c = v := by
  cases h; exact ⟨rfl, rfl⟩

/-- **Tree layer.**  A token list that spells position `p` below the node at `q` makes `_find`
return exactly the node at `q ++ p`, with the parent reference at the parent position. -/
theorem find_spells (root : Val) (rl : Bool) {toks : List Str} {v : Val} {p : Pos} {c : Val}
    (h : Spells toks v p c) : toks ≠ [] → ∀ (fuel : Nat) (q : Pos) (found : Str) (entry : Bool),
      getAt root q = some v → fuel ≥ 2 * toks.length →
      ∃ r, findD fuel root [] false entry toks (.at q) rl found = .ok (root, r) ∧ FoundAt root q p c r := by
  induction h with
  | nil v => intro h; exact absurd rfl h
  | @key tok rest cls kvs c p d hk hl hs ih =>
    intro _ fuel q found entry hq hf
    obtain ⟨f, rfl⟩ : ∃ f, fuel = f + 1 := ⟨fuel - 1, by simp at hf; omega⟩
    by_cases hrest : rest = []
    · subst hrest
      obtain ⟨rfl, rfl⟩ := hs.nil_inv
      rw [find_key_last f root entry rl q found tok cls kvs _ hq hk hl]
      refine ⟨_, rfl, rfl, rfl, [], .key tok, .dict cls kvs, tok, by simp, by simp, by simpa using hq, rfl, .key⟩
    · rw [find_key_step f root entry rl q found tok rest cls kvs c hrest hq hk hl]
      have hq' : getAt root (q ++ [.key tok]) = some c := by
        rw [getAt_snoc, hq]; simp [child, hl]
      obtain ⟨r, hr, hv, hnf, pp, s, pv, ni, hp, hpar, hpv, hni, hname⟩ :=
        ih hrest f (q ++ [.key tok]) (found ++ slash ++ tok) false hq' (by simp at hf ⊢; omega)
      refine ⟨r, hr, hv, hnf, .key tok :: pp, s, pv, ni, by simp [hp], by simpa using hpar, by simpa using hpv, hni, hname⟩
  | @idx tok e i rest cls xs n c p d hk hn hx hs ih =>
    intro _ fuel q found entry hq hf
    obtain ⟨f, rfl⟩ : ∃ f, fuel = f + 1 := ⟨fuel - 1, by simp at hf; omega⟩
    by_cases hrest : rest = []
    · subst hrest
      obtain ⟨rfl, rfl⟩ := hs.nil_inv
      rw [find_idx_last f root entry rl q found tok e i cls xs n _ hq hk hn hx]
      refine ⟨_, rfl, rfl, rfl, [], .idx n, .list cls xs, _, by simp, by simp, by simpa using hq, rfl, .idx hn⟩
    · rw [find_idx_step f root entry rl q found tok e i rest hrest cls xs n hq hk hn]
      have hq' : getAt root (q ++ [.idx n]) = some c := by
        rw [getAt_snoc, hq]; simp [child, hx]
      obtain ⟨r, hr, hv, hnf, pp, s, pv, ni, hp, hpar, hpv, hni, hname⟩ :=
        ih hrest f (q ++ [.idx n]) _ false hq' (by simp at hf ⊢; omega)
      refine ⟨r, hr, hv, hnf, .idx n :: pp, s, pv, ni, by simp [hp], by simpa using hpar, by simpa using hpv, hni, hname⟩
  | @keyIdx tok k e i rest cls kvs cls' xs n c p d hk hl hn hx hs ih =>
    intro _ fuel q found entry hq hf
    obtain ⟨f, rfl⟩ : ∃ f, fuel = f + 2 := ⟨fuel - 2, by simp at hf; omega⟩
    rw [find_keyidx_step (f + 1) root entry rl q found tok k e i rest cls kvs _ hq hk hl]
    have hq1 : getAt root (q ++ [Seg.key k]) = some (.list cls' xs) := by
      rw [getAt_snoc, hq]; simp [child, hl]
    by_cases hrest : rest = []
    · subst hrest
      obtain ⟨rfl, rfl⟩ := hs.nil_inv
      rw [find_idx_last f root false rl (q ++ [Seg.key k]) _ (bracket e) e i cls' xs n _ hq1 hk.inner hn hx]
      refine ⟨_, rfl, rfl, rfl, [.key k], .idx n, .list cls' xs, _, by simp, by simp, by simpa using hq1, rfl, .idx hn⟩
    · rw [find_idx_step f root false rl (q ++ [Seg.key k]) _ (bracket e) e i rest hrest cls' xs n hq1 hk.inner hn]
      have hq' : getAt root (q ++ [Seg.key k] ++ [Seg.idx n]) = some c := by
        rw [getAt_snoc, hq1]; simp [child, hx]
      obtain ⟨r, hr, hv, hnf, pp, s, pv, ni, hp, hpar, hpv, hni, hname⟩ :=
        ih hrest f (q ++ [Seg.key k] ++ [Seg.idx n]) _ false hq' (by simp at hf ⊢; omega)
      refine ⟨r, hr, hv, hnf, .key k :: .idx n :: pp, s, pv, ni, by simp [hp], by simpa using hpar, by simpa using hpv, hni, hname⟩

end N0.XPath
