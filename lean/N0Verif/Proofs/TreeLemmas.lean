import N0Verif.Model.Tree
/-! Reference semantics of positions: `getAt`, `setAt`, `delAt` and the frame lemmas. -/
namespace N0.Val
open N0

theorem lookup_kvSet_same (k : Str) (v : Val) (kvs : List (Str × Val)) :
    lookup k (kvSet k v kvs) = some v := by
  induction kvs with
  | nil => simp [kvSet, lookup]
  | cons kv kvs ih =>
    obtain ⟨k', x⟩ := kv
    by_cases h : k = k'
    · subst h; simp [kvSet, lookup]
    · simp [kvSet, lookup, h, ih]

theorem lookup_kvSet_other (k k2 : Str) (v : Val) (kvs : List (Str × Val)) (h : k2 ≠ k) :
    lookup k2 (kvSet k v kvs) = lookup k2 kvs := by
  induction kvs with
  | nil => simp [kvSet, lookup, h]
  | cons kv kvs ih =>
    obtain ⟨k', x⟩ := kv
    by_cases hk : k = k'
    · subst hk; simp [kvSet, lookup, h]
    · by_cases hk2 : k2 = k'
      · subst hk2; simp [kvSet, lookup, hk]
      · simp [kvSet, lookup, hk, hk2, ih]

theorem child_setChild_same {t t' : Val} {s : Seg} {v : Val} (h : setChild t s v = some t') :
    child t' s = some v := by
  cases t <;> cases s <;> simp [setChild] at h
  · rename_i c xs i
    obtain ⟨hlt, rfl⟩ := h
    simp [child, hlt]
  · subst h; simp [child, lookup_kvSet_same]

theorem child_setChild_other {t t' : Val} {s s2 : Seg} {v : Val} (h : setChild t s v = some t') (hne : s2 ≠ s) :
    child t' s2 = child t s2 := by
  cases t <;> cases s <;> simp [setChild] at h
  · rename_i c xs i
    obtain ⟨hlt, rfl⟩ := h
    cases s2 with
    | key k => simp [child]
    | idx j =>
      have : i ≠ j := fun heq => hne (by rw [heq])
      simp [child, List.getElem?_set, this]
  · subst h
    rename_i c kvs k
    cases s2 with
    | idx j => simp [child]
    | key k2 =>
      have : k2 ≠ k := fun heq => hne (by rw [heq])
      simp [child, lookup_kvSet_other _ _ _ _ this]

theorem setAt_cons_cons (t : Val) (s s2 : Seg) (rest : Pos) (v : Val) :
    setAt t (s :: s2 :: rest) v = (child t s).bind (fun c => (setAt c (s2 :: rest) v).bind (fun c' => setChild t s c')) := by
  rw [setAt]
  · cases child t s <;> simp [bind, Option.bind]
  · intro h; cases h

/-- what `setAt` does, one level at a time -/
theorem setAt_cons (t : Val) (s : Seg) (rest : Pos) (v : Val) (c : Val) (hc : child t s = some c)
    (hex : rest ≠ [] ∨ True) :
    setAt t (s :: rest) v = (setAt c rest v).bind (fun c' => setChild t s c') := by
  cases rest with
  | nil => simp [setAt]
  | cons s2 r => rw [setAt_cons_cons, hc]; rfl

theorem getAt_setAt_same : ∀ (p : Pos) (t t' v : Val), setAt t p v = some t' → (∀ s, p = [s] → True) →
    getAt t' p = some v
  | [], t, t', v, h, _ => by simp [setAt] at h; subst h; rfl
  | [s], t, t', v, h, _ => by
      simp only [setAt] at h
      simp [getAt, child_setChild_same h]
  | s :: s2 :: rest, t, t', v, h, _ => by
      rw [setAt_cons_cons] at h
      cases hc : child t s with
      | none => simp [hc] at h
      | some c =>
        simp only [hc, Option.bind] at h
        cases hs : setAt c (s2 :: rest) v with
        | none => simp [hs] at h
        | some c' =>
          simp only [hs] at h
          have ih := getAt_setAt_same (s2 :: rest) c c' v hs (fun _ _ => trivial)
          simp only [getAt, child_setChild_same h, Option.bind]
          exact ih

/-- two positions *diverge* when neither is a prefix of the other -/
def Diverge : Pos → Pos → Prop
  | s :: p, s' :: q => s ≠ s' ∨ (s = s' ∧ Diverge p q)
  | _, _ => False

/-- frame: a position that diverges from the written one keeps its value -/
theorem getAt_setAt_diverge : ∀ (p q : Pos) (t t' v : Val), setAt t p v = some t' → Diverge p q →
    getAt t' q = getAt t q
  | [], _, _, _, _, _, hd => by simp [Diverge] at hd
  | _ :: _, [], _, _, _, _, hd => by simp [Diverge] at hd
  | [s], s' :: q, t, t', v, h, hd => by
      simp only [setAt] at h
      simp only [Diverge] at hd
      rcases hd with hne | ⟨_, hd⟩
      · simp [getAt, child_setChild_other h (Ne.symm hne)]
      · cases q <;> simp [Diverge] at hd
  | s :: s2 :: rest, s' :: q, t, t', v, h, hd => by
      rw [setAt_cons_cons] at h
      cases hc : child t s with
      | none => simp [hc] at h
      | some c =>
        simp only [hc, Option.bind] at h
        cases hs : setAt c (s2 :: rest) v with
        | none => simp [hs] at h
        | some c' =>
          simp only [hs] at h
          simp only [Diverge] at hd
          rcases hd with hne | ⟨heq, hd⟩
          · simp [getAt, child_setChild_other h (Ne.symm hne)]
          · subst heq
            have ih := getAt_setAt_diverge (s2 :: rest) q c c' v hs hd
            simp [getAt, child_setChild_same h, hc, ih]

/-- `setAt` below an existing parent, written at the parent -/
theorem setAt_snoc : ∀ (p : Pos) (t : Val) (s : Seg) (v pv pv' : Val), getAt t p = some pv →
    setChild pv s v = some pv' → setAt t (p ++ [s]) v = setAt t p pv'
  | [], t, s, v, pv, pv', hg, hs => by
      simp [getAt] at hg; subst hg
      simp [setAt, hs]
  | s0 :: p, t, s, v, pv, pv', hg, hs => by
      simp only [getAt] at hg
      cases hc : child t s0 with
      | none => simp [hc] at hg
      | some c =>
        simp only [hc, Option.bind] at hg
        have ih := setAt_snoc p c s v pv pv' hg hs
        rw [List.cons_append, setAt_cons t s0 (p ++ [s]) v c hc (Or.inr trivial),
          setAt_cons t s0 p pv' c hc (Or.inr trivial), ih]

theorem setChild_isSome_of_child {t c : Val} {s : Seg} (h : child t s = some c) (v : Val) :
    ∃ t', setChild t s v = some t' := by
  cases t <;> cases s <;> simp [child] at h
  · rename_i c' xs i
    have hlt : i < xs.length := by
      rcases Nat.lt_or_ge i xs.length with hlt | hge
      · exact hlt
      · rw [List.getElem?_eq_none hge] at h; cases h
    exact ⟨.list c' (xs.set i v), by simp [setChild, hlt]⟩
  · rename_i c' kvs k
    exact ⟨.dict c' (kvSet k v kvs), by simp [setChild]⟩

/-- replacing an existing node always succeeds -/
theorem setAt_isSome : ∀ (p : Pos) (t c v : Val), getAt t p = some c → ∃ t', setAt t p v = some t'
  | [], t, c, v, _ => ⟨v, rfl⟩
  | s :: p, t, c, v, hg => by
      simp only [getAt] at hg
      cases hc : child t s with
      | none => simp [hc] at hg
      | some x =>
        simp only [hc, Option.bind] at hg
        obtain ⟨x', hx'⟩ := setAt_isSome p x c v hg
        obtain ⟨t', ht'⟩ := setChild_isSome_of_child hc x'
        exact ⟨t', by rw [setAt_cons t s p v x hc (Or.inr trivial), hx']; exact ht'⟩

end N0.Val
