import N0Verif.Proofs.Esc
/-! C17: the character-level reference `refAux` (real cuts are counted) against the walk `specG` over
the pieces of `str.split(d, maxsplit)` — equal outside the class of the (fixed) finding C17-j -/
namespace N0.Esc
open N0 N0.Py

theorem escRef_specG_consHead (e : Char) (d : Str) (tr : Bool) (cur : Str) (c : Char) (L : List Str) (hL : L ≠ []) :
    specG e d tr cur (consHead c L) = specG e d tr (cur ++ [c]) L := by
  cases L with
  | nil => exact absurd rfl hL
  | cons p rest =>
    rw [consHead, specG_glue, specG_glue e d tr (cur ++ [c])]
    simp

theorem escRef_canSplit_false {lim : Option Nat} (h : canSplit lim = false) : lim = some 0 := by
  cases lim with
  | none => simp [canSplit] at h
  | some k => simp [canSplit] at h; rw [h]

/-- without a limit the class is empty -/
theorem escWithin_none (e : Char) (d : Str) : ∀ (s : Str) (skip : Nat) (cur : Str),
    escWithin e d Option.none skip cur s = false := by
  intro s
  induction s with
  | nil => intro skip cur; cases skip <;> rfl
  | cons c s ih =>
    intro skip cur
    cases skip with
    | succ k => rw [escWithin]; exact ih _ _
    | zero =>
      rw [escWithin]
      split
      · simp only [canSplit, Bool.not_true, Bool.false_eq_true, if_false, Option.isSome_none, Bool.false_or, decLim]
        split <;> exact ih _ _
      · exact ih _ _

/-- **Outside the class of C17-j the character-level reference is the walk over the pieces of the
limited split** (any delimiter, any limit, any state of the scan). -/
theorem refAux_eq_specG (e : Char) (d : Str) (tr : Bool) : ∀ (s : Str) (lim : Option Nat) (skip : Nat) (cur : Str),
    escWithin e d lim skip cur s = false →
    refAux e d tr lim skip cur s = specG e d tr cur (splitAux d lim skip s) := by
  intro s
  induction s with
  | nil =>
    intro lim skip cur _
    cases skip <;> simp [refAux, splitAux, specG]
  | cons c s ih =>
    intro lim skip cur h
    cases skip with
    | succ k =>
      rw [escWithin] at h
      rw [refAux, splitAux]
      exact ih _ _ _ h
    | zero =>
      rw [escWithin] at h
      rw [refAux, splitAux]
      by_cases hsw : startsWith (c :: s) d = true
      · simp only [hsw, if_true] at h ⊢
        cases hcs : canSplit lim with
        | false =>
          have hl := escRef_canSplit_false hcs
          subst hl
          simp [splitAux_lim_zero, consHead, specG]
        | true =>
          simp only [hcs, Bool.not_true, Bool.false_eq_true, if_false, Bool.true_and, if_true] at h ⊢
          obtain ⟨q, rest, hL⟩ : ∃ q rest, splitAux d (decLim lim) (d.length - 1) s = q :: rest := by
            cases hx : splitAux d (decLim lim) (d.length - 1) s with
            | nil => exact absurd hx (splitAux_ne_nil _ _ _ _)
            | cons q rest => exact ⟨q, rest, rfl⟩
          by_cases hodd : run e cur % 2 = 1
          · simp only [hodd, if_true, Bool.or_eq_false_iff] at h ⊢
            have hnone : lim = Option.none := by
              cases lim with
              | none => rfl
              | some k => simp at h
            subst hnone
            simp only [decLim] at hL ⊢
            rw [ih _ _ _ h.2, hL]
            simp [specG, hodd]
          · simp only [hodd, if_false] at h ⊢
            rw [ih _ _ _ h, hL]
            simp [specG, hodd]
      · have hsw' : startsWith (c :: s) d = false := by simpa using hsw
        simp only [hsw', Bool.and_false, Bool.false_eq_true, if_false] at h ⊢
        rw [ih _ _ _ h, escRef_specG_consHead _ _ _ _ _ _ (splitAux_ne_nil _ _ _ _)]

/-- text without the escape character is outside the class (nothing in it is escaped) -/
theorem escWithin_no_escape (e : Char) (d : Str) : ∀ (s : Str) (lim : Option Nat) (sk : Nat) (cur : Str),
    e ∉ cur → e ∉ s → escWithin e d lim sk cur s = false := by
  intro s
  induction s with
  | nil => intro lim sk cur _ _; cases sk <;> rfl
  | cons c s ih =>
    intro lim sk cur hc hs
    have hs' : e ∉ s := fun h => hs (List.mem_cons_of_mem _ h)
    have hce : e ≠ c := fun h => hs (by simp [h])
    cases sk with
    | succ k => rw [escWithin]; exact ih _ _ _ hc hs'
    | zero =>
      rw [escWithin]
      have hr : run e cur = 0 := run_eq_zero _ _ (fun hl => hc (List.mem_of_getLast? hl))
      split
      · split
        · rfl
        · rw [if_neg (by rw [hr]; decide)]; exact ih _ _ _ (by simp) hs'
      · exact ih _ _ _ (by simp [hc, hce]) hs'

end N0.Esc
