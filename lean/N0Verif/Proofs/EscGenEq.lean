import N0Verif.Model.Esc
import N0Verif.Gen.EscPy
/-!
  The definitions that `harness/translate_py_esc.py` regenerates from the Python source of `split_with_escape`
  (`Gen/EscPy.lean`) are equal to the hand-written model (`Model/Esc.lean`): the `for` loop over the translated body is
  `Esc.forScan`, the translated `else` block is `Esc.finalTrim`, the translated `while True:` is `Esc.whileLoop` and the
  translated function is `Esc.splitWithEscapeD`, for every fuel and every input.
-/
namespace N0.EscGenEq
open N0 N0.Py N0.Esc N0.Gen.EscPy

theorem sliceTo_neg_mul (s : Str) (k : Nat) (hk : k ≠ 0) :
    sliceTo s ((-(k : Int)) * (2 : Int)) = s.take (s.length - k * 2) := by
  have h : (-(k : Int)) * 2 < 0 := by omega
  have h2 : (-((-(k : Int)) * 2)).toNat = k * 2 := by omega
  simp only [sliceTo, h, if_true, h2]

theorem sliceTo_neg_div (s : Str) (n : Nat) (hk : n / 2 ≠ 0) :
    sliceTo s (-((n : Int) / 2) * 2) = s.take (s.length - n / 2 * 2) := by
  have h : ((n : Int) / 2) = ((n / 2 : Nat) : Int) := by omega
  rw [h]; exact sliceTo_neg_mul s (n / 2) hk

theorem sliceTo_neg_one (s : Str) : sliceTo s (-(1 : Int)) = s.dropLast := by
  simp [sliceTo, List.dropLast_eq_take]

theorem endsWithCh_iff (s : Str) (e : Char) : endsWithCh s e = true ↔ s.getLast? = some e := by
  simp [endsWithCh]

theorem run_eq (e : Char) (s : Str) : (List.takeWhile (fun ch => ch == e) (List.reverse s)).length = run e s := rfl

theorem pySplitE_one (x d : Str) (hd : d ≠ []) : pySplitE x d (1 : Int) = .ok (splitAux d (some 1) 0 x) := by
  simp [pySplitE, hd]

/-- how the hand model's result of the `for` is seen by the translated code (`start_from_item` is loop-carried there) -/
def viewFor (start : Nat) : ForRes → Ctl State
  | .broke items s' => .brk ⟨items, s'⟩
  | .exhausted items => .cont ⟨items, start⟩

theorem forEnum_eq (s d : Str) (m : Nat) (e : Char) (tr : Bool) (hd : d ≠ []) (start : Nat) :
    ∀ (snap : List Str) (i : Nat) (items : List Str), (snap.length = 0 ∨ start + i + snap.length ≤ items.length) →
      forEnum (forBody s d m e tr) snap i ⟨items, start⟩ = (forScan ⟨e, d, tr, m⟩ start snap i items).map (viewFor start) := by
  intro snap
  induction snap with
  | nil => intro i items _; simp [forEnum, forScan, Except.map, viewFor]
  | cons item snap ih =>
    intro i items hlen
    have hlt : start + i < items.length := by simp at hlen; omega
    have ih' : ∀ items' : List Str, items'.length = items.length →
        forEnum (forBody s d m e tr) snap (i + 1) ⟨items', start⟩
          = (forScan ⟨e, d, tr, m⟩ start snap (i + 1) items').map (viewFor start) :=
      fun items' h => ih (i + 1) items' (Or.inr (by simp at hlen; omega))
    rw [forEnum, forScan]
    by_cases h1 : item.getLast? = some e
    · have h1' : endsWithCh item e = true := (endsWithCh_iff _ _).2 h1
      by_cases hodd : run e item % 2 = 1
      · have hodd' : (run e item % 2 != 0) = true := by simp [hodd]
        by_cases hm : m = 0 <;> by_cases hdbl : run e item / 2 = 0 <;> cases tr <;>
          simp [forBody, h1', h1, run_eq, hodd, hm, hdbl, resplit, getLastE, popE, setIdxE, hlt, pySplitE_one, hd, sliceTo_neg_one,
            sliceTo_neg_div, Except.map, viewFor] <;>
          (try grind)
        -- the remaining case (trimmed, re-split, glued): by hand
        generalize items.set (start + i) _ = L
        cases hgl : L.getLast? with
        | none => simp
        | some last =>
          simp only []
          generalize L.dropLast ++ splitAux d (some 1) 0 last = L2
          cases hnx : L2[start + i + 1]? with
          | none => simp
          | some nxt =>
            have hl : start + i < (L2.eraseIdx (start + i + 1)).length := by
              have := (List.getElem?_eq_some_iff.1 hnx).1
              rw [List.length_eraseIdx]; split <;> omega
            simp [hl]
      · have hodd' : (run e item % 2 != 0) = false := by simp; omega
        by_cases hdbl : run e item / 2 = 0 <;> cases tr <;>
          simp [forBody, h1', h1, run_eq, hodd, hodd', hdbl, ih', setIdxE, hlt, sliceTo_neg_div]
    · have h1' : endsWithCh item e = false := by simpa [endsWithCh] using h1
      simp [forBody, h1', h1, ih']

/-- the translated `else` block of the `for` is `Esc.finalTrim` (it always ends with the `break` that leaves the `while`) -/
theorem forElse_eq (s d : Str) (m : Nat) (e : Char) (tr : Bool) (items : List Str) (start : Nat) :
    forElse s d m e tr ⟨items, start⟩ = (finalTrim ⟨e, d, tr, m⟩ items).map (fun l => Ctl.brk ⟨l, start⟩) := by
  cases tr
  · simp [forElse, finalTrim, Except.map]
  · cases h : items.getLast? with
    | none => simp [forElse, finalTrim, getLastE, h, Except.map]
    | some last =>
      have hne : items.isEmpty = false := by
        cases items with
        | nil => simp at h
        | cons a t => rfl
      by_cases h1 : last.getLast? = some e
      · have h1' : endsWithCh last e = true := (endsWithCh_iff _ _).2 h1
        by_cases hdbl : run e last / 2 = 0 <;>
          simp [forElse, finalTrim, getLastE, setLastE, h, h1, h1', run_eq, hdbl, hne, sliceTo_neg_div, Except.map]
      · have h1' : endsWithCh last e = false := by simpa [endsWithCh] using h1
        simp [forElse, finalTrim, getLastE, h, h1, h1', Except.map]

/-- the translated `while True:` is `Esc.whileLoop`, for every fuel -/
theorem whileTrue_eq (s d : Str) (m : Nat) (e : Char) (tr : Bool) (hd : d ≠ []) :
    ∀ (fuel : Nat) (items : List Str) (start : Nat),
      (whileTrue (round s d m e tr) fuel ⟨items, start⟩).map (·.f0) = whileLoop ⟨e, d, tr, m⟩ fuel items start := by
  intro fuel
  induction fuel with
  | zero => intro items start; simp [whileTrue, whileLoop, Except.map]
  | succ k ih =>
    intro items start
    rw [whileTrue, whileLoop]
    rw [round]
    simp only [sliceFromToLast]
    rw [forEnum_eq s d m e tr hd start _ 0 items (by simp; omega)]
    cases forScan ⟨e, d, tr, m⟩ start (items.dropLast.drop start) 0 items with
    | error err => simp [Except.map]
    | ok r =>
      cases r with
      | broke items' start' => simpa [Except.map, viewFor] using ih items' start'
      | exhausted items' =>
        simp only [Except.map, viewFor, forElse_eq]
        cases finalTrim ⟨e, d, tr, m⟩ items' <;> simp

/-- the translated function is `Esc.splitWithEscapeD`, for every fuel and every input of the specialisation -/
theorem splitWithEscape_eq (s d : Str) (m : Nat) (esc : Option Char) (tr : Bool) (fuel : Nat) :
    Gen.EscPy.splitWithEscape s d m esc tr fuel = splitWithEscapeD fuel s d m esc tr := by
  by_cases hd : d = []
  · simp [Gen.EscPy.splitWithEscape, splitWithEscapeD, pySplitE, hd]
  · have hs : pySplitE s d (if (m != 0) = true then (m : Int) else -(1 : Int)) = .ok (splitMax d m s) := by
      by_cases hm : m = 0
      · simp [pySplitE, hd, hm, splitMax, limOf]
      · have : ¬ ((m : Int) < 0) := by omega
        simp [pySplitE, hd, hm, splitMax, limOf, this]
    simp only [Gen.EscPy.splitWithEscape, splitWithEscapeD, hs, hd, if_false]
    cases esc with
    | none => rfl
    | some e =>
      have h := whileTrue_eq s d m e tr hd fuel (splitMax d m s) 0
      simp only [← h]
      cases whileTrue (round s d m e tr) fuel ⟨splitMax d m s, 0⟩ <;> simp [Except.map]
end N0.EscGenEq
