import N0Verif.Proofs.Json
/-!
  Lemmas for C11, stage 3: the **pair layout** (`pairs_in_one_line` with indent > 0).

  * `pyEq` — equality of decoded values as Python sees it (dict order ignored); spec notion used by
    the statements of `Props/C11.lean` (like `wf`, `depth`, `Ren` of `Proofs/Json.lean`).
  * `pairOrder o t` — the tree whose records (items of the lists that `is_list_with_pairs`
    accepts) list their entries in *column order* (first appearance in the list); this is the
    tree the pair layout really prints.
  * Part 1: what `pairCols xs = some cols` says about `xs` and `cols`.
  * Part 2: one padded record `{ "k": v  , "w": x }` is a rendering of the column-ordered record;
    the loop `pairBody` is a rendering accumulator.
  * Part 3: for **every** option record `pretty` produces a rendering of
    `dropEmptyIf o (pairOrder o t)` (`jpretty_ren`), hence `jsonDecode_toJson`.
  * Part 4: `pairOrder` keeps `wf`, and `pyEq` relates the column-ordered tree with the tree.
  * Part 5: the constructor side — the reader with `object_pairs_hook=n0dict` is the reader followed
    by `tagN0` (`hook_agree`), `n0dict(text)` / `n0list(text)` (`n0dictOfText_json`, `n0listOfText_json`),
    exported texts are bracketed and need no `strip()` (`n0dictOfText_toJson`, `n0listOfText_toJson`).
-/
namespace N0.Json
open N0 N0.Py

/-! ### equality of decoded values as Python sees it (dict order ignored) -/
mutual
def pyEq : Val → Val → Bool
  | .none, .none => true
  | .bool a, .bool b => a == b
  | .int a, .int b => a == b
  | .flt a, .flt b => a == b
  | .str a, .str b => a == b
  | .list _ xs, .list _ ys => pyEqL xs ys
  | .dict _ a, .dict _ b => a.length == b.length && pyEqK a b
  | _, _ => false
def pyEqL : List Val → List Val → Bool
  | [], [] => true
  | x :: xs, y :: ys => pyEq x y && pyEqL xs ys
  | _, _ => false
def pyEqK : List (Str × Val) → List (Str × Val) → Bool
  | [], _ => true
  | (k, v) :: rest, b =>
    (match Val.lookup k b with
      | some v' => pyEq v v'
      | Option.none => false) && pyEqK rest b
end

/-! ### the column-ordered tree -/

/-- the entries of a record in column order (what `for key in keys_and_max_len_of_value` prints) -/
def colOrder : List (Str × Nat) → List (Str × Val) → List (Str × Val)
  | [], _ => []
  | (k, _) :: cols, kvs =>
    match Val.lookup k kvs with
    | some v => (k, v) :: colOrder cols kvs
    | Option.none => colOrder cols kvs

def orderRec (cols : List (Str × Nat)) : Val → Val
  | .dict c kvs => .dict c (colOrder cols kvs)
  | v => v

mutual
/-- every list that the pair layout accepts (under the option record `o`) gets its records
re-listed in column order; nothing else changes -/
def pairOrder (o : Opts) : Val → Val
  | .list c xs =>
    match (if o.pairsOn then pairCols xs else Option.none) with
    | some (c0 :: cols) => .list c (xs.map (orderRec (c0 :: cols)))
    | _ => .list c (pairOrderL o xs)
  | .dict c kvs => .dict c (pairOrderK o kvs)
  | v => v
def pairOrderL (o : Opts) : List Val → List Val
  | [] => []
  | x :: xs => pairOrder o x :: pairOrderL o xs
def pairOrderK (o : Opts) : List (Str × Val) → List (Str × Val)
  | [] => []
  | (k, v) :: kvs => (k, pairOrder o v) :: pairOrderK o kvs
end

/-! ### Part 1: `is_list_with_pairs` -/

def colKeys (cols : List (Str × Nat)) : List Str := cols.map (·.1)

theorem colHas_iff (cols : List (Str × Nat)) (k : Str) : colHas cols k = true ↔ k ∈ colKeys cols := by
  unfold colHas colKeys
  simp only [List.any_eq_true, beq_iff_eq, List.mem_map]

theorem colKeys_colUpdate (cols : List (Str × Nat)) (k : Str) (w : Nat) (h : k ∈ colKeys cols) :
    colKeys (colUpdate cols k w) = colKeys cols := by
  induction cols with
  | nil => simp [colKeys] at h
  | cons p cols ih =>
    obtain ⟨k', w'⟩ := p
    simp only [colUpdate]
    split
    · simp [colKeys]
    · rename_i hne
      simp only [colKeys, List.map_cons, List.mem_cons] at h ⊢
      rcases h with h | h
      · exact absurd h hne
      · have := ih (by simpa [colKeys] using h)
        simp only [colKeys] at this
        rw [this]

/-- a value the pair layout accepts: `str | int | float | bool` -/
def isPairScalar (v : Val) : Bool := (presWidth v).isSome

/-- the keys of the column list after the inner loop -/
def recKeysInto (cols : List Str) : List (Str × Val) → List Str
  | [] => cols
  | (k, _) :: rest => recKeysInto (if k ∈ cols then cols else cols ++ [k]) rest

theorem pairColsRec_keys : ∀ (kvs : List (Str × Val)) (cols cols' : List (Str × Nat)),
    pairColsRec cols kvs = some cols' →
    colKeys cols' = recKeysInto (colKeys cols) kvs ∧ (∀ p ∈ kvs, isPairScalar p.2 = true)
  | [], cols, cols', h => by
    simp only [pairColsRec, Option.some.injEq] at h
    subst h
    exact ⟨rfl, by simp⟩
  | (k, v) :: rest, cols, cols', h => by
    simp only [pairColsRec] at h
    have hk : k ∈ colKeys (if colHas cols k = true then cols else cols ++ [(k, 0)]) := by
      split
      · rename_i hc; exact (colHas_iff _ _).1 hc
      · simp [colKeys]
    have hkeys : colKeys (if colHas cols k = true then cols else cols ++ [(k, 0)])
        = (if k ∈ colKeys cols then colKeys cols else colKeys cols ++ [k]) := by
      by_cases hc : colHas cols k = true
      · simp [hc, (colHas_iff _ _).1 hc]
      · have : k ∉ colKeys cols := fun hm => hc ((colHas_iff _ _).2 hm)
        simp only [hc, this, if_false]
        simp [colKeys]
    generalize (if colHas cols k = true then cols else cols ++ [(k, 0)]) = cols1 at h hk hkeys
    by_cases hlen : cols1.length > 2
    · simp [hlen] at h
    · simp only [hlen, if_false] at h
      cases hw : presWidth v with
      | none => rw [hw] at h; cases h
      | some w =>
        rw [hw] at h
        simp only [] at h
        obtain ⟨h1, h2⟩ := pairColsRec_keys rest _ cols' h
        rw [colKeys_colUpdate _ _ _ hk, hkeys] at h1
        refine ⟨?_, ?_⟩
        · rw [h1]
          simp only [recKeysInto]
        · intro p hp
          rcases List.mem_cons.1 hp with hp | hp
          · subst hp; simp [isPairScalar, hw]
          · exact h2 p hp

theorem recKeysInto_sub : ∀ (kvs : List (Str × Val)) (cols : List Str) (k : Str),
    k ∈ cols → k ∈ recKeysInto cols kvs
  | [], _, _, h => h
  | (k', _) :: rest, cols, k, h => by
    simp only [recKeysInto]
    apply recKeysInto_sub rest
    split
    · exact h
    · exact List.mem_append_left _ h

theorem recKeysInto_has : ∀ (kvs : List (Str × Val)) (cols : List Str) (p : Str × Val),
    p ∈ kvs → p.1 ∈ recKeysInto cols kvs
  | (k', v') :: rest, cols, p, h => by
    simp only [recKeysInto]
    rcases List.mem_cons.1 h with h | h
    · subst h
      apply recKeysInto_sub rest
      split
      · assumption
      · simp
    · exact recKeysInto_has rest _ p h

theorem recKeysInto_nodup : ∀ (kvs : List (Str × Val)) (cols : List Str),
    cols.Nodup → (recKeysInto cols kvs).Nodup
  | [], _, h => h
  | (k', _) :: rest, cols, h => by
    simp only [recKeysInto]
    apply recKeysInto_nodup rest
    split
    · exact h
    · rename_i hn
      rw [List.nodup_append]
      refine ⟨h, by simp, ?_⟩
      intro a ha b hb
      simp only [List.mem_singleton] at hb
      subst hb
      intro e; subst e; exact hn ha

/-- a record the pair layout accepts, with all its keys among the columns -/
def RecOk (cols : List (Str × Nat)) (x : Val) : Prop :=
  ∃ c kvs, x = .dict c kvs ∧ ∀ p ∈ kvs, isPairScalar p.2 = true ∧ p.1 ∈ colKeys cols

theorem RecOk_mono {cols cols' : List (Str × Nat)} (h : ∀ k ∈ colKeys cols, k ∈ colKeys cols') {x : Val}
    (hx : RecOk cols x) : RecOk cols' x := by
  obtain ⟨c, kvs, rfl, hk⟩ := hx
  exact ⟨c, kvs, rfl, fun p hp => ⟨(hk p hp).1, h _ (hk p hp).2⟩⟩

theorem pairColsFrom_inv : ∀ (xs : List Val) (cols cols' : List (Str × Nat)),
    pairColsFrom cols xs = some cols' →
    (∀ x ∈ xs, RecOk cols' x) ∧ (∀ k ∈ colKeys cols, k ∈ colKeys cols') ∧
    ((colKeys cols).Nodup → (colKeys cols').Nodup)
  | [], cols, cols', h => by
    simp only [pairColsFrom, Option.some.injEq] at h
    subst h
    exact ⟨by simp, fun _ h => h, fun h => h⟩
  | .dict c kvs :: rest, cols, cols', h => by
    simp only [pairColsFrom] at h
    split at h
    · cases h
    · cases hr : pairColsRec cols kvs with
      | none => rw [hr] at h; cases h
      | some cols1 =>
        rw [hr] at h
        simp only [] at h
        obtain ⟨hk1, hs1⟩ := pairColsRec_keys kvs cols cols1 hr
        obtain ⟨ha, hb, hc⟩ := pairColsFrom_inv rest cols1 cols' h
        refine ⟨?_, ?_, ?_⟩
        · intro x hx
          rcases List.mem_cons.1 hx with hx | hx
          · subst hx
            refine ⟨c, kvs, rfl, fun p hp => ⟨hs1 p hp, hb _ ?_⟩⟩
            rw [hk1]
            exact recKeysInto_has kvs _ p hp
          · exact ha x hx
        · intro k hk
          apply hb
          rw [hk1]
          exact recKeysInto_sub kvs _ k hk
        · intro hn
          apply hc
          rw [hk1]
          exact recKeysInto_nodup kvs _ hn
  | .none :: _, _, _, h => by simp [pairColsFrom] at h
  | .bool _ :: _, _, _, h => by simp [pairColsFrom] at h
  | .int _ :: _, _, _, h => by simp [pairColsFrom] at h
  | .flt _ :: _, _, _, h => by simp [pairColsFrom] at h
  | .str _ :: _, _, _, h => by simp [pairColsFrom] at h
  | .list _ _ :: _, _, _, h => by simp [pairColsFrom] at h

theorem pairCols_inv {xs : List Val} {cols : List (Str × Nat)} (h : pairCols xs = some cols) :
    (∀ x ∈ xs, RecOk cols x) ∧ (colKeys cols).Nodup := by
  obtain ⟨ha, _, hc⟩ := pairColsFrom_inv xs [] cols h
  exact ⟨ha, hc (by simp [colKeys])⟩

/-! ### Part 2: one record, the loop over the records -/

theorem isPySpace_of_isWs {c : Char} (h : isWs c = true) : isPySpace c = true := by
  simp only [isWs, Bool.or_eq_true, decide_eq_true_eq] at h
  rcases h with ((h | h) | h) | h <;> subst h <;> decide

theorem hasInk_ws {w : Str} (hw : Ws w) : hasInk w = false := by
  unfold hasInk
  rw [Bool.eq_false_iff]
  intro h
  obtain ⟨c, hc, hn⟩ := List.any_eq_true.1 h
  simp [isPySpace_of_isWs (hw c hc)] at hn

theorem hasInk_append (a b : Str) : hasInk (a ++ b) = (hasInk a || hasInk b) := by
  simp [hasInk]

theorem AccK_ws {done : List (Str × Val)} {acc w : Str} (h : AccK done acc) (hne : done ≠ []) (hw : Ws w) :
    AccK done (acc ++ w) := by
  cases done with
  | nil => exact absurd rfl hne
  | cons p rest =>
    obtain ⟨k, v⟩ := p
    simp only [AccK] at h ⊢
    obtain ⟨w1, w2, r, t, h1, h2, hr, ht, rfl⟩ := h
    exact ⟨w1, w2, r, t ++ w, h1, h2, hr, RenTailK_ws rest t w ht hw, by simp⟩

theorem AccK_hasInk {done : List (Str × Val)} {acc : Str} (h : AccK done acc) :
    hasInk acc = !done.isEmpty := by
  cases done with
  | nil => simp only [AccK] at h; subst h; rfl
  | cons p rest =>
    obtain ⟨k, v⟩ := p
    simp only [AccK] at h
    obtain ⟨w1, w2, r, t, _, _, _, _, rfl⟩ := h
    simp [hasInk, quoted, isPySpace]

/-- the text of the record so far: leading blanks, then the printed entries -/
def RecAcc (done : List (Str × Val)) (sub : Str) : Prop :=
  ∃ w0 body, Ws w0 ∧ AccK done body ∧ sub = w0 ++ body

theorem RecAcc_hasInk {done : List (Str × Val)} {sub : Str} (h : RecAcc done sub) :
    hasInk sub = !done.isEmpty := by
  obtain ⟨w0, body, hw, hb, rfl⟩ := h
  rw [hasInk_append, hasInk_ws hw, AccK_hasInk hb]
  simp

theorem RecAcc_ws {done : List (Str × Val)} {sub w : Str} (h : RecAcc done sub) (hw : Ws w) :
    RecAcc done (sub ++ w) := by
  obtain ⟨w0, body, hw0, hb, rfl⟩ := h
  cases done with
  | nil =>
    simp only [AccK] at hb; subst hb
    exact ⟨w0 ++ w, [], Ws_append hw0 hw, by simp [AccK], by simp⟩
  | cons p rest =>
    exact ⟨w0, body ++ w, hw0, AccK_ws hb (by simp) hw, by simp⟩

theorem RecAcc_push {done : List (Str × Val)} {sub : Str} (h : RecAcc done sub) (k : Str) {v : Val} {r pad : Str}
    (hr : Ren v r) (hp : Ws pad) :
    RecAcc (done ++ [(k, v)])
      ((if hasInk sub then sub ++ [','] else if !sub.isEmpty then sub ++ [' '] else sub)
        ++ [' '] ++ quoted k ++ [':', ' '] ++ (r ++ pad)) := by
  have hink := RecAcc_hasInk h
  obtain ⟨w0, body, hw0, hb, rfl⟩ := h
  have hsp : Ws [' '] := Ws_cons (by decide) Ws_nil
  cases done with
  | nil =>
    simp only [AccK] at hb; subst hb
    simp only [List.isEmpty_nil, Bool.not_true, List.append_nil] at hink
    simp only [List.append_nil, hink, Bool.false_eq_true, if_false]
    refine ⟨(if !w0.isEmpty then w0 ++ [' '] else w0) ++ [' '],
      quoted k ++ ([] ++ ':' :: ([' '] ++ (r ++ pad))), ?_, ?_, by simp⟩
    · apply Ws_append _ hsp
      split
      · exact Ws_append hw0 hsp
      · exact hw0
    · simp only [AccK]
      exact ⟨[], [' '], r, pad, Ws_nil, hsp, hr, by simpa [RenTailK] using hp, rfl⟩
  | cons p rest =>
    simp only [List.isEmpty_cons, Bool.not_false] at hink
    simp only [hink, if_true]
    have hne : body.isEmpty = false := by
      obtain ⟨k0, v0⟩ := p
      simp only [AccK] at hb
      obtain ⟨w1, w2, r0, t0, _, _, _, _, rfl⟩ := hb
      simp [quoted]
    have h1 := AccK_step (k := k) hb hr hsp hsp
    simp only [hne, Bool.not_false, if_true] at h1
    have h2 := AccK_ws h1 (by simp) hp
    exact ⟨w0, _, hw0, h2, by simp⟩

theorem lookup_mem : ∀ (kvs : List (Str × Val)) (k : Str) (v : Val),
    Val.lookup k kvs = some v → (k, v) ∈ kvs
  | [], _, _, h => by simp [Val.lookup] at h
  | (k', v') :: rest, k, v, h => by
    simp only [Val.lookup] at h
    split at h
    · rename_i e; subst e; simp only [Option.some.injEq] at h; subst h; simp
    · exact List.mem_cons_of_mem _ (lookup_mem rest k v h)

/-- the padded record text is a rendering accumulator of the column-ordered entries -/
theorem pairRecord_acc (kvs : List (Str × Val))
    (hsc : ∀ p ∈ kvs, Ren p.2 (scalarText p.2)) :
    ∀ (cols : List (Str × Nat)) (done : List (Str × Val)) (sub : Str), RecAcc done sub →
      RecAcc (done ++ colOrder cols kvs) (pairRecord kvs cols sub)
  | [], done, sub, h => by simpa [colOrder, pairRecord] using h
  | (k, w) :: cols, done, sub, h => by
    simp only [colOrder, pairRecord]
    cases hl : Val.lookup k kvs with
    | none =>
      simp only []
      apply pairRecord_acc kvs hsc cols done
      have hw : Ws ((if !sub.isEmpty then [' '] else []) ++ List.replicate (1 + 1 + k.length + 1 + 2 + w) ' ') := by
        apply Ws_append _ (Ws_replicate _)
        split
        · exact Ws_cons (by decide) Ws_nil
        · exact Ws_nil
      have := RecAcc_ws h hw
      by_cases he : sub.isEmpty = true <;> simpa [he] using this
    | some v =>
      simp only []
      have hr := hsc _ (lookup_mem kvs k v hl)
      have := RecAcc_push h k (r := scalarText v) (pad := List.replicate (w - (scalarText v).length) ' ')
        hr (Ws_replicate _)
      have := pairRecord_acc kvs hsc cols _ _ this
      simpa [ljust, pairValText] using this

theorem Ren_of_RecAcc {done : List (Str × Val)} {sub w : Str} (c : Cls) (h : RecAcc done sub) (hw : Ws w) :
    Ren (.dict c done) ('{' :: ((sub ++ w) ++ ['}'])) := by
  obtain ⟨w0, body, hw0, hb, rfl⟩ := h
  simp only [Ren]
  refine ⟨(w0 ++ body) ++ w, ?_, rfl⟩
  cases done with
  | nil =>
    simp only [AccK] at hb; subst hb
    simp only [RenK]
    exact Ws_append (Ws_append hw0 Ws_nil) hw
  | cons p rest =>
    obtain ⟨k, v⟩ := p
    simp only [AccK] at hb
    obtain ⟨w1, w2, r, t, h1, h2, hr, ht, rfl⟩ := hb
    simp only [RenK]
    exact ⟨w0, w1, w2, r, t ++ w, hw0, h1, h2, hr, RenTailK_ws rest t w ht hw, by simp⟩

/-- **one record of the pair layout** is a JSON text of the column-ordered record -/
theorem pairRecord_ren (c : Cls) (cols : List (Str × Nat)) (kvs : List (Str × Val))
    (hsc : ∀ p ∈ kvs, Ren p.2 (scalarText p.2)) :
    Ren (.dict c (colOrder cols kvs)) (['{'] ++ pairRecord kvs cols [] ++ [' ', '}']) := by
  have h0 : RecAcc [] [] := ⟨[], [], Ws_nil, by simp [AccK], rfl⟩
  have h := pairRecord_acc kvs hsc cols [] [] h0
  have := Ren_of_RecAcc c h (w := [' ']) (Ws_cons (by decide) Ws_nil)
  simpa using this

/-! records: only scalars inside, so `prune`/`dropEmptyIf` leave them alone -/

theorem scalar_prune {v : Val} (h : isPairScalar v = true) : prune v = v ∧ isEmptyContainer v = false := by
  cases v <;> simp [isPairScalar, presWidth, prune, isEmptyContainer] at h ⊢

theorem scalar_erase {v : Val} (h : isPairScalar v = true) : erase v = v := by
  cases v <;> simp [isPairScalar, presWidth, erase] at h ⊢

theorem scalar_ren {v : Val} (h : isPairScalar v = true) (hw : wf v = true) : Ren v (scalarText v) := by
  cases v <;> simp [isPairScalar, presWidth, Ren, scalarText, wf] at h hw ⊢
  exact hw

theorem pruneKvs_scalars : ∀ (kvs : List (Str × Val)), (∀ p ∈ kvs, isPairScalar p.2 = true) →
    pruneKvs kvs = kvs
  | [], _ => rfl
  | (k, v) :: rest, h => by
    have hv := scalar_prune (h (k, v) (by simp))
    simp only [pruneKvs, hv.1, hv.2, Bool.false_eq_true, if_false]
    rw [pruneKvs_scalars rest (fun p hp => h p (by simp [hp]))]

theorem colOrder_nil_kvs : ∀ (cols : List (Str × Nat)), colOrder cols [] = []
  | [] => rfl
  | (k, w) :: cols => by simp [colOrder, Val.lookup, colOrder_nil_kvs cols]

theorem colOrder_mem : ∀ (cols : List (Str × Nat)) (kvs : List (Str × Val)) (p : Str × Val),
    p ∈ colOrder cols kvs → p ∈ kvs
  | [], _, _, h => by simp [colOrder] at h
  | (k, w) :: cols, kvs, p, h => by
    simp only [colOrder] at h
    cases hl : Val.lookup k kvs with
    | none => rw [hl] at h; exact colOrder_mem cols kvs p h
    | some v =>
      rw [hl] at h
      rcases List.mem_cons.1 h with h | h
      · subst h; exact lookup_mem kvs k v hl
      · exact colOrder_mem cols kvs p h

theorem colOrder_ne_nil : ∀ (cols : List (Str × Nat)) (kvs : List (Str × Val)) (k : Str) (v : Val),
    k ∈ colKeys cols → Val.lookup k kvs = some v → colOrder cols kvs ≠ []
  | [], _, _, _, h, _ => by simp [colKeys] at h
  | (k', w) :: cols, kvs, k, v, h, hl => by
    simp only [colOrder]
    cases hl' : Val.lookup k' kvs with
    | some v' => simp
    | none =>
      simp only []
      simp only [colKeys, List.map_cons, List.mem_cons] at h
      rcases h with h | h
      · subst h; rw [hl] at hl'; cases hl'
      · exact colOrder_ne_nil cols kvs k v h hl

theorem colOrder_isEmpty {cols : List (Str × Nat)} {kvs : List (Str × Val)}
    (h : ∀ p ∈ kvs, p.1 ∈ colKeys cols) : (colOrder cols kvs).isEmpty = kvs.isEmpty := by
  cases kvs with
  | nil => simp [colOrder_nil_kvs]
  | cons p rest =>
    obtain ⟨k, v⟩ := p
    have := colOrder_ne_nil cols ((k, v) :: rest) k v (h (k, v) (by simp)) (by simp [Val.lookup])
    cases hc : colOrder cols ((k, v) :: rest) with
    | nil => exact absurd hc this
    | cons a b => rfl

/-- a record and its column-ordered copy are dropped together, and neither is changed by
`skip_empty_arrays` when it stays -/
theorem rec_facts {cols : List (Str × Nat)} {c : Cls} {kvs : List (Str × Val)}
    (h : ∀ p ∈ kvs, isPairScalar p.2 = true ∧ p.1 ∈ colKeys cols) (o : Opts) :
    isEmptyContainer (prune (.dict c (colOrder cols kvs))) = kvs.isEmpty ∧
    isEmptyContainer (prune (.dict c kvs)) = kvs.isEmpty ∧
    dropEmptyIf o (.dict c (colOrder cols kvs)) = .dict c (colOrder cols kvs) ∧
    dropEmptyIf o (.dict c kvs) = .dict c kvs := by
  have h1 : pruneKvs kvs = kvs := pruneKvs_scalars kvs (fun p hp => (h p hp).1)
  have h2 : pruneKvs (colOrder cols kvs) = colOrder cols kvs :=
    pruneKvs_scalars _ (fun p hp => (h p (colOrder_mem cols kvs p hp)).1)
  have h3 := colOrder_isEmpty (cols := cols) (kvs := kvs) (fun p hp => (h p hp).2)
  refine ⟨?_, ?_, ?_, ?_⟩
  · simp only [prune, h2]
    cases hc : colOrder cols kvs <;> simp [hc, isEmptyContainer] at h3 ⊢ <;> exact h3
  · simp only [prune, h1]
    cases kvs <;> simp [isEmptyContainer]
  · unfold dropEmptyIf; split <;> simp [prune, h2]
  · unfold dropEmptyIf; split <;> simp [prune, h1]

theorem wfK_mem : ∀ (kvs : List (Str × Val)), wfK kvs = true → ∀ p ∈ kvs, wf p.2 = true
  | [], _, _, hp => by cases hp
  | (k, v) :: rest, h, p, hp => by
    simp only [wfK, Bool.and_eq_true] at h
    rcases List.mem_cons.1 hp with hp | hp
    · subst hp; exact h.1
    · exact wfK_mem rest h.2 p hp

theorem wfL_mem : ∀ (xs : List Val), wfL xs = true → ∀ x ∈ xs, wf x = true
  | [], _, _, hp => by cases hp
  | y :: rest, h, x, hp => by
    simp only [wfL, Bool.and_eq_true] at h
    rcases List.mem_cons.1 hp with hp | hp
    · subst hp; exact h.1
    · exact wfL_mem rest h.2 x hp

/-- **the loop of the pair layout** is a rendering accumulator of the column-ordered records
(minus the empty ones under `skip_empty_arrays`) -/
theorem pairBody_acc (o : Opts) (lvl : Nat) (cols : List (Str × Nat)) :
    ∀ (xs : List Val), (∀ x ∈ xs, RecOk cols x) → (∀ x ∈ xs, wf x = true) →
    ∀ (acc : Str) (done : List Val), AccL done acc →
      AccL (done ++ dropL o (xs.map (orderRec cols))) (pairBody o lvl cols xs acc)
  | [], _, _, acc, done, ha => by
    have : dropL o [] = [] := by unfold dropL; split <;> simp [pruneList]
    simpa [pairBody, this] using ha
  | x :: xs, hok, hwf, acc, done, ha => by
    obtain ⟨c, kvs, rfl, hk⟩ := hok x (by simp)
    have hok' : ∀ y ∈ xs, RecOk cols y := fun y hy => hok y (by simp [hy])
    have hwf' : ∀ y ∈ xs, wf y = true := fun y hy => hwf y (by simp [hy])
    obtain ⟨f1, _, f3, _⟩ := rec_facts (c := c) hk o
    simp only [List.map_cons, orderRec, pairBody, recordKvs]
    by_cases hskip : (o.skipEmpty && kvs.isEmpty) = true
    · simp only [hskip, if_true]
      simp only [Bool.and_eq_true] at hskip
      rw [dropL_cons_drop _ hskip.1 (by rw [f1]; exact hskip.2)]
      exact pairBody_acc o lvl cols xs hok' hwf' acc done ha
    · simp only [hskip, Bool.false_eq_true, if_false]
      have hkeep : ¬ (o.skipEmpty = true ∧ isEmptyContainer (prune (.dict c (colOrder cols kvs))) = true) := by
        rw [f1]; simpa using hskip
      rw [dropL_cons_keep _ hkeep, f3]
      have hwx : wf (.dict c kvs) = true := hwf _ (by simp)
      simp only [wf, Bool.and_eq_true] at hwx
      have hr := pairRecord_ren c cols kvs
        (fun p hp => scalar_ren (hk p hp).1 (wfK_mem kvs hwx.1 p hp))
      have ha' := AccL_step ha hr (Ws_nlAt o (lvl + 1))
      have := pairBody_acc o lvl cols xs hok' hwf' _ _ ha'
      simpa using this

/-! ### Part 3: for every option record `pretty` is a rendering of the column-ordered tree -/

/-- which layout a list gets -/
def pairSel (o : Opts) (xs : List Val) : Option (List (Str × Nat)) :=
  if o.pairsOn then pairCols xs else Option.none

theorem pretty_list_pair {o : Opts} {xs : List Val} {c0 : Str × Nat} {cols : List (Str × Nat)}
    (h : pairSel o xs = some (c0 :: cols)) (lvl : Nat) (c : Cls) :
    pretty o lvl (.list c xs) = closeUp o lvl '[' ']' (pairBody o lvl (c0 :: cols) xs []) := by
  unfold pairSel at h
  simp only [pretty, h]

theorem pretty_list_general {o : Opts} {xs : List Val}
    (h : pairSel o xs = Option.none ∨ pairSel o xs = some []) (lvl : Nat) (c : Cls) :
    pretty o lvl (.list c xs) = closeUp o lvl '[' ']' (prettyItems o lvl xs []) := by
  unfold pairSel at h
  rcases h with h | h <;> simp only [pretty, h]

theorem pairOrder_list_pair {o : Opts} {xs : List Val} {c0 : Str × Nat} {cols : List (Str × Nat)}
    (h : pairSel o xs = some (c0 :: cols)) (c : Cls) :
    pairOrder o (.list c xs) = .list c (xs.map (orderRec (c0 :: cols))) := by
  unfold pairSel at h
  simp only [pairOrder, h]

theorem pairOrder_list_general {o : Opts} {xs : List Val}
    (h : pairSel o xs = Option.none ∨ pairSel o xs = some []) (c : Cls) :
    pairOrder o (.list c xs) = .list c (pairOrderL o xs) := by
  unfold pairSel at h
  rcases h with h | h <;> simp only [pairOrder, h]

theorem pairSel_cases (o : Opts) (xs : List Val) :
    (pairSel o xs = Option.none ∨ pairSel o xs = some []) ∨
    (∃ c0 cols, pairSel o xs = some (c0 :: cols) ∧ pairCols xs = some (c0 :: cols)) := by
  unfold pairSel
  split
  · cases h : pairCols xs with
    | none => exact Or.inl (Or.inl rfl)
    | some cols =>
      cases cols with
      | nil => exact Or.inl (Or.inr rfl)
      | cons c0 cols => exact Or.inr ⟨c0, cols, rfl, rfl⟩
  · exact Or.inl (Or.inl rfl)

mutual
/-- `pretty` returns nothing when `skip_empty_arrays` drops the item, else a JSON text of the
column-ordered tree — whatever the options, pair layout included -/
theorem jpretty_ren (o : Opts) : ∀ (t : Val), wf t = true → ∀ (lvl : Nat),
    Out o (pairOrder o t) (pretty o lvl t)
  | .none, _, lvl => by
    simp only [pretty, pairOrder]
    exact Out_scalar o _ (by simp [prune, isEmptyContainer]) (by unfold dropEmptyIf; split <;> simp [prune, Ren])
  | .bool b, _, lvl => by
    simp only [pretty, pairOrder]
    exact Out_scalar o _ (by simp [prune, isEmptyContainer]) (by unfold dropEmptyIf; split <;> simp [prune, Ren])
  | .int i, _, lvl => by
    simp only [pretty, pairOrder]
    exact Out_scalar o _ (by simp [prune, isEmptyContainer]) (by unfold dropEmptyIf; split <;> simp [prune, Ren])
  | .str x, _, lvl => by
    simp only [pretty, pairOrder]
    exact Out_scalar o _ (by simp [prune, isEmptyContainer]) (by unfold dropEmptyIf; split <;> simp [prune, Ren])
  | .flt r, hw, lvl => by
    simp only [pretty, pairOrder]
    simp only [wf] at hw
    exact Out_scalar o _ (by simp [prune, isEmptyContainer])
      (by unfold dropEmptyIf; split <;> simp [prune, Ren, scalarText, hw])
  | .list c xs, hw, lvl => by
    simp only [wf] at hw
    rcases pairSel_cases o xs with hg | ⟨c0, cols, hsel, hcols⟩
    · rw [pretty_list_general hg, pairOrder_list_general hg]
      apply Out_of_AccL
      have := jitems_ren o xs hw lvl [] [] (by simp [AccL])
      simpa using this
    · rw [pretty_list_pair hsel, pairOrder_list_pair hsel]
      apply Out_of_AccL
      have hinv := pairCols_inv hcols
      have := pairBody_acc o lvl (c0 :: cols) xs hinv.1 (wfL_mem xs hw) [] [] (by simp [AccL])
      simpa using this
  | .dict c kvs, hw, lvl => by
    simp only [pretty, pairOrder]
    apply Out_of_AccK
    simp only [wf, Bool.and_eq_true] at hw
    have := jkvs_ren o kvs hw.1 lvl (condense kvs) [] [] (by simp [AccK])
    simpa using this
theorem jitems_ren (o : Opts) : ∀ (xs : List Val), wfL xs = true →
    ∀ (lvl : Nat) (acc : Str) (done : List Val),
    AccL done acc → AccL (done ++ dropL o (pairOrderL o xs)) (prettyItems o lvl xs acc)
  | [], _, lvl, acc, done, ha => by
    have : dropL o [] = [] := by unfold dropL; split <;> simp [pruneList]
    simpa [prettyItems, pairOrderL, this] using ha
  | x :: xs, hw, lvl, acc, done, ha => by
    simp only [wfL, Bool.and_eq_true] at hw
    have hx := jpretty_ren o x hw.1 (lvl + 1)
    simp only [prettyItems, guard_json, ↓reduceIte, pairOrderL]
    rcases hx with ⟨hs, he, hnil⟩ | ⟨hne, hr⟩
    · rw [hnil, dropL_cons_drop _ hs he]
      simp only [hs, List.isEmpty_nil, Bool.and_self, ↓reduceIte]
      exact jitems_ren o xs hw.2 lvl acc done ha
    · have hsub : (pretty o (lvl + 1) x).isEmpty = false := by
        have := Ren_ne_nil hr
        cases h : pretty o (lvl + 1) x <;> simp_all
      rw [dropL_cons_keep _ hne]
      simp only [hsub, Bool.and_false, Bool.false_eq_true, ↓reduceIte]
      have ha' := AccL_step ha hr (Ws_nlAt o (lvl + 1))
      have := jitems_ren o xs hw.2 lvl _ _ ha'
      simpa [joinItem_eq] using this
theorem jkvs_ren (o : Opts) : ∀ (kvs : List (Str × Val)), wfK kvs = true →
    ∀ (lvl : Nat) (cond : Bool) (acc : Str) (done : List (Str × Val)),
    AccK done acc → AccK (done ++ dropK o (pairOrderK o kvs)) (prettyKvs o lvl cond kvs acc)
  | [], _, lvl, cond, acc, done, ha => by
    have : dropK o [] = [] := by unfold dropK; split <;> simp [pruneKvs]
    simpa [prettyKvs, pairOrderK, this] using ha
  | (k, v) :: kvs, hw, lvl, cond, acc, done, ha => by
    simp only [wfK, Bool.and_eq_true] at hw
    have hx := jpretty_ren o v hw.1 (lvl + 1)
    simp only [prettyKvs, guard_json, ↓reduceIte, pairOrderK]
    rcases hx with ⟨hs, he, hnil⟩ | ⟨hne, hr⟩
    · rw [hnil, dropK_cons_drop _ hs he]
      simp only [hs, List.isEmpty_nil, Bool.and_self, ↓reduceIte]
      exact jkvs_ren o kvs hw.2 lvl cond acc done ha
    · have hsub : (pretty o (lvl + 1) v).isEmpty = false := by
        have := Ren_ne_nil hr
        cases h : pretty o (lvl + 1) v <;> simp_all
      rw [dropK_cons_keep _ hne]
      simp only [hsub, Bool.and_false, Bool.false_eq_true, ↓reduceIte]
      have hw' : Ws (if cond then sp o else nlAt o (lvl + 1)) := by
        split
        · exact Ws_sp o
        · exact Ws_nlAt o (lvl + 1)
      have ha' := AccK_step (k := k) ha hr hw' (Ws_sp o)
      have := jkvs_ren o kvs hw.2 lvl cond _ _ ha'
      simpa [joinItem_eq] using this
end

/-! ### Part 4: the column-ordered tree is well-formed and `pyEq` to the tree -/

theorem nodupKeys_iff : ∀ (kvs : List (Str × Val)), nodupKeys kvs = true ↔ (keysOf kvs).Nodup
  | [] => by simp [nodupKeys, keysOf]
  | (k, v) :: rest => by
    have ih := nodupKeys_iff rest
    simp only [nodupKeys, Bool.and_eq_true, Bool.not_eq_true', List.contains_eq_mem,
      decide_eq_false_iff_not, ih]
    simp [keysOf, List.nodup_cons]

theorem lookup_isSome_iff : ∀ (kvs : List (Str × Val)) (k : Str),
    (Val.lookup k kvs).isSome = true ↔ k ∈ keysOf kvs
  | [], k => by simp [Val.lookup, keysOf]
  | (k', v) :: rest, k => by
    have ih := lookup_isSome_iff rest k
    simp only [Val.lookup, keysOf, List.map_cons, List.mem_cons] at ih ⊢
    split
    · rename_i e; simp [e]
    · rename_i e; simp [e, ih]

theorem keysOf_colOrder : ∀ (cols : List (Str × Nat)) (kvs : List (Str × Val)),
    keysOf (colOrder cols kvs) = (colKeys cols).filter (fun k => (Val.lookup k kvs).isSome)
  | [], _ => rfl
  | (k, w) :: cols, kvs => by
    have ih := keysOf_colOrder cols kvs
    simp only [colOrder, colKeys, List.map_cons, List.filter_cons] at ih ⊢
    cases hl : Val.lookup k kvs with
    | none => simpa using ih
    | some v => simp only [keysOf, List.map_cons] at ih ⊢; simp [ih]

theorem nodupKeys_colOrder {cols : List (Str × Nat)} (kvs : List (Str × Val)) (h : (colKeys cols).Nodup) :
    nodupKeys (colOrder cols kvs) = true := by
  rw [nodupKeys_iff, keysOf_colOrder]
  exact List.Nodup.sublist List.filter_sublist h

theorem length_colOrder {cols : List (Str × Nat)} {kvs : List (Str × Val)} (hc : (colKeys cols).Nodup)
    (hn : nodupKeys kvs = true) (hk : ∀ p ∈ kvs, p.1 ∈ colKeys cols) :
    (colOrder cols kvs).length = kvs.length := by
  have h1 : (keysOf (colOrder cols kvs)).Nodup := (nodupKeys_iff _).1 (nodupKeys_colOrder kvs hc)
  have h2 : (keysOf kvs).Nodup := (nodupKeys_iff _).1 hn
  have hp := (List.perm_ext_iff_of_nodup h1 h2).2 (by
    intro k
    rw [keysOf_colOrder, List.mem_filter, lookup_isSome_iff]
    constructor
    · exact fun h => h.2
    · intro h
      refine ⟨?_, h⟩
      simp only [keysOf, List.mem_map] at h
      obtain ⟨p, hp, rfl⟩ := h
      exact hk p hp)
  have := hp.length_eq
  simpa [keysOf] using this

theorem wfK_of_mem : ∀ (kvs : List (Str × Val)), (∀ p ∈ kvs, wf p.2 = true) → wfK kvs = true
  | [], _ => rfl
  | (k, v) :: rest, h => by
    simp only [wfK, Bool.and_eq_true]
    exact ⟨h (k, v) (by simp), wfK_of_mem rest (fun p hp => h p (by simp [hp]))⟩

theorem wf_orderRec {cols : List (Str × Nat)} (hc : (colKeys cols).Nodup) {x : Val} (hw : wf x = true) :
    wf (orderRec cols x) = true := by
  cases x with
  | dict c kvs =>
    simp only [wf, Bool.and_eq_true] at hw
    simp only [orderRec, wf, Bool.and_eq_true]
    exact ⟨wfK_of_mem _ (fun p hp => wfK_mem kvs hw.1 p (colOrder_mem cols kvs p hp)), nodupKeys_colOrder kvs hc⟩
  | _ => exact hw

theorem wfL_map_orderRec {cols : List (Str × Nat)} (hc : (colKeys cols).Nodup) :
    ∀ (xs : List Val), wfL xs = true → wfL (xs.map (orderRec cols)) = true
  | [], _ => rfl
  | x :: xs, h => by
    simp only [wfL, Bool.and_eq_true] at h
    simp only [List.map_cons, wfL, Bool.and_eq_true]
    exact ⟨wf_orderRec hc h.1, wfL_map_orderRec hc xs h.2⟩

theorem keysOf_pairOrderK (o : Opts) : ∀ (kvs : List (Str × Val)), keysOf (pairOrderK o kvs) = keysOf kvs
  | [] => rfl
  | (k, v) :: kvs => by
    have := keysOf_pairOrderK o kvs
    simp only [keysOf] at this
    simp [pairOrderK, keysOf, this]

mutual
theorem wf_pairOrder (o : Opts) : ∀ (t : Val), wf t = true → wf (pairOrder o t) = true
  | .none, h => h
  | .bool _, h => h
  | .int _, h => h
  | .flt _, h => h
  | .str _, h => h
  | .list c xs, h => by
    simp only [wf] at h
    rcases pairSel_cases o xs with hg | ⟨c0, cols, hsel, hcols⟩
    · rw [pairOrder_list_general hg]
      simp only [wf]
      exact wfL_pairOrder o xs h
    · rw [pairOrder_list_pair hsel]
      simp only [wf]
      exact wfL_map_orderRec (pairCols_inv hcols).2 xs h
  | .dict c kvs, h => by
    simp only [wf, Bool.and_eq_true] at h
    simp only [pairOrder, wf, Bool.and_eq_true]
    refine ⟨wfK_pairOrder o kvs h.1, ?_⟩
    rw [nodupKeys_congr _ _ (keysOf_pairOrderK o kvs)]
    exact h.2
theorem wfL_pairOrder (o : Opts) : ∀ (xs : List Val), wfL xs = true → wfL (pairOrderL o xs) = true
  | [], _ => rfl
  | x :: xs, h => by
    simp only [wfL, Bool.and_eq_true] at h
    simp only [pairOrderL, wfL, Bool.and_eq_true]
    exact ⟨wf_pairOrder o x h.1, wfL_pairOrder o xs h.2⟩
theorem wfK_pairOrder (o : Opts) : ∀ (kvs : List (Str × Val)), wfK kvs = true → wfK (pairOrderK o kvs) = true
  | [], _ => rfl
  | (k, v) :: kvs, h => by
    simp only [wfK, Bool.and_eq_true] at h
    simp only [pairOrderK, wfK, Bool.and_eq_true]
    exact ⟨wf_pairOrder o v h.1, wfK_pairOrder o kvs h.2⟩
end

theorem pairOrder_list_shape (o : Opts) (c : Cls) (xs : List Val) :
    ∃ ys, pairOrder o (.list c xs) = .list c ys := by
  rcases pairSel_cases o xs with hg | ⟨c0, cols, hsel, _⟩
  · exact ⟨_, pairOrder_list_general hg c⟩
  · exact ⟨_, pairOrder_list_pair hsel c⟩

/-- **the reader on the exported text, every layout**: `json.loads(x.to_json(…))` is the
column-ordered tree with class tags forgotten and (under `skip_empty_arrays`) empty containers
dropped -/
theorem jsonDecode_toJson (o : Opts) (t : Val) (hw : wf t = true) :
    jsonDecode (toJson o t) = some (erase (dropEmptyIf o (pairOrder o t))) := by
  have hout := jpretty_ren o t hw 0
  unfold toJson
  rcases hout with ⟨hs, he, hnil⟩ | ⟨_, hr⟩
  · simp only [hnil, List.isEmpty_nil, if_true]
    unfold dropEmptyIf
    simp only [hs, if_true]
    cases t with
    | list c xs =>
      obtain ⟨ys, hys⟩ := pairOrder_list_shape o c xs
      rw [hys] at he ⊢
      simp only [prune, isEmptyContainer] at he ⊢
      cases hpx : pruneList ys with
      | nil => simp [isDict, erase, eraseList]; decide
      | cons a b => rw [hpx] at he; simp at he
    | dict c kvs =>
      simp only [pairOrder, prune, isEmptyContainer] at he ⊢
      cases hpx : pruneKvs (pairOrderK o kvs) with
      | nil => simp [isDict, erase, eraseKvs]; decide
      | cons a b => rw [hpx] at he; simp at he
    | none => simp [pairOrder, prune, isEmptyContainer] at he
    | bool b => simp [pairOrder, prune, isEmptyContainer] at he
    | int i => simp [pairOrder, prune, isEmptyContainer] at he
    | flt r => simp [pairOrder, prune, isEmptyContainer] at he
    | str x => simp [pairOrder, prune, isEmptyContainer] at he
  · have hne : (pretty o 0 t).isEmpty = false := by
      have := Ren_ne_nil hr
      cases h : pretty o 0 t <;> simp_all
    simp only [hne, Bool.false_eq_true, if_false]
    rw [jsonDecode_ren hr, dec_erase _ (wf_dropEmptyIf o _ (wf_pairOrder o t hw))]

/-! `pyEq` between the column-ordered tree and the tree -/

theorem isEmptyContainer_list (c : Cls) (ys : List Val) : isEmptyContainer (.list c ys) = ys.isEmpty := by
  cases ys <;> rfl

theorem isEmptyContainer_dict (c : Cls) (ys : List (Str × Val)) : isEmptyContainer (.dict c ys) = ys.isEmpty := by
  cases ys <;> rfl

theorem recs_empty {cols : List (Str × Nat)} : ∀ (xs : List Val), (∀ x ∈ xs, RecOk cols x) →
    (pruneList (xs.map (orderRec cols))).isEmpty = (pruneList xs).isEmpty
  | [], _ => rfl
  | x :: xs, hok => by
    obtain ⟨c, kvs, rfl, hk⟩ := hok x (by simp)
    obtain ⟨f1, f2, _, _⟩ := rec_facts (c := c) hk {}
    have ih := recs_empty xs (fun y hy => hok y (by simp [hy]))
    simp only [List.map_cons, orderRec, pruneList, f1, f2]
    cases kvs.isEmpty <;> simp [ih]

mutual
theorem pairOrder_empty (o : Opts) : ∀ (t : Val),
    isEmptyContainer (prune (pairOrder o t)) = isEmptyContainer (prune t)
  | .none => rfl
  | .bool _ => rfl
  | .int _ => rfl
  | .flt _ => rfl
  | .str _ => rfl
  | .list c xs => by
    rcases pairSel_cases o xs with hg | ⟨c0, cols, hsel, hcols⟩
    · rw [pairOrder_list_general hg]
      simp only [prune, isEmptyContainer_list]
      exact pairOrderL_empty o xs
    · rw [pairOrder_list_pair hsel]
      simp only [prune, isEmptyContainer_list]
      exact recs_empty xs (pairCols_inv hcols).1
  | .dict c kvs => by
    simp only [pairOrder, prune, isEmptyContainer_dict]
    exact pairOrderK_empty o kvs
theorem pairOrderL_empty (o : Opts) : ∀ (xs : List Val),
    (pruneList (pairOrderL o xs)).isEmpty = (pruneList xs).isEmpty
  | [] => rfl
  | x :: xs => by
    simp only [pairOrderL, pruneList, pairOrder_empty o x]
    cases isEmptyContainer (prune x) <;> simp [pairOrderL_empty o xs]
theorem pairOrderK_empty (o : Opts) : ∀ (kvs : List (Str × Val)),
    (pruneKvs (pairOrderK o kvs)).isEmpty = (pruneKvs kvs).isEmpty
  | [] => rfl
  | (k, v) :: kvs => by
    simp only [pairOrderK, pruneKvs, pairOrder_empty o v]
    cases isEmptyContainer (prune v) <;> simp [pairOrderK_empty o kvs]
end

theorem dropEmptyIf_list (o : Opts) (c : Cls) (xs : List Val) :
    dropEmptyIf o (.list c xs) = .list c (dropL o xs) := by
  unfold dropEmptyIf dropL; split <;> simp [prune]

theorem dropEmptyIf_dict (o : Opts) (c : Cls) (kvs : List (Str × Val)) :
    dropEmptyIf o (.dict c kvs) = .dict c (dropK o kvs) := by
  unfold dropEmptyIf dropK; split <;> simp [prune]

theorem scalar_pyEq_refl {v : Val} (h : isPairScalar v = true) : pyEq v v = true := by
  cases v <;> simp [isPairScalar, presWidth, pyEq] at h ⊢

theorem eraseKvs_scalars : ∀ (kvs : List (Str × Val)), (∀ p ∈ kvs, isPairScalar p.2 = true) →
    eraseKvs kvs = kvs
  | [], _ => rfl
  | (k, v) :: rest, h => by
    simp only [eraseKvs, scalar_erase (h (k, v) (by simp)),
      eraseKvs_scalars rest (fun p hp => h p (by simp [hp]))]

theorem pyEqK_colOrder (kvs : List (Str × Val)) (h : ∀ p ∈ kvs, isPairScalar p.2 = true) :
    ∀ (cols : List (Str × Nat)), pyEqK (colOrder cols kvs) kvs = true
  | [] => by simp [colOrder, pyEqK]
  | (k, w) :: cols => by
    simp only [colOrder]
    cases hl : Val.lookup k kvs with
    | none => exact pyEqK_colOrder kvs h cols
    | some v =>
      simp only [pyEqK, hl, Bool.and_eq_true]
      exact ⟨scalar_pyEq_refl (h _ (lookup_mem kvs k v hl)), pyEqK_colOrder kvs h cols⟩

/-- a record equals its column-ordered copy, as Python compares dicts -/
theorem rec_pyEq {cols : List (Str × Nat)} (hc : (colKeys cols).Nodup) {c : Cls} {kvs : List (Str × Val)}
    (hk : ∀ p ∈ kvs, isPairScalar p.2 = true ∧ p.1 ∈ colKeys cols) (hn : nodupKeys kvs = true) :
    pyEq (erase (.dict c (colOrder cols kvs))) (erase (.dict c kvs)) = true := by
  have h1 : eraseKvs kvs = kvs := eraseKvs_scalars kvs (fun p hp => (hk p hp).1)
  have h2 : eraseKvs (colOrder cols kvs) = colOrder cols kvs :=
    eraseKvs_scalars _ (fun p hp => (hk p (colOrder_mem cols kvs p hp)).1)
  simp only [erase, h1, h2, pyEq, Bool.and_eq_true, beq_iff_eq]
  exact ⟨length_colOrder hc hn (fun p hp => (hk p hp).2), pyEqK_colOrder kvs (fun p hp => (hk p hp).1) cols⟩

theorem recs_pyEq (o : Opts) {cols : List (Str × Nat)} (hc : (colKeys cols).Nodup) :
    ∀ (xs : List Val), (∀ x ∈ xs, RecOk cols x) → wfL xs = true →
    pyEqL (eraseList (dropL o (xs.map (orderRec cols)))) (eraseList (dropL o xs)) = true
  | [], _, _ => by
    have : dropL o [] = [] := by unfold dropL; split <;> simp [pruneList]
    simp [this, eraseList, pyEqL]
  | x :: xs, hok, hw => by
    obtain ⟨c, kvs, rfl, hk⟩ := hok x (by simp)
    obtain ⟨f1, f2, f3, f4⟩ := rec_facts (c := c) hk o
    simp only [wfL, wf, Bool.and_eq_true] at hw
    have ih := recs_pyEq o hc xs (fun y hy => hok y (by simp [hy])) hw.2
    simp only [List.map_cons, orderRec]
    by_cases hskip : o.skipEmpty = true ∧ kvs.isEmpty = true
    · rw [dropL_cons_drop _ hskip.1 (by rw [f1]; exact hskip.2),
        dropL_cons_drop _ hskip.1 (by rw [f2]; exact hskip.2)]
      exact ih
    · rw [dropL_cons_keep _ (by rw [f1]; exact hskip), dropL_cons_keep _ (by rw [f2]; exact hskip), f3, f4]
      simp only [eraseList, pyEqL, Bool.and_eq_true]
      exact ⟨rec_pyEq hc hk hw.1.2, ih⟩

theorem length_eraseKvs : ∀ (kvs : List (Str × Val)), (eraseKvs kvs).length = kvs.length
  | [] => rfl
  | (k, v) :: rest => by simp [eraseKvs, length_eraseKvs rest]

theorem length_dropK_pairOrderK (o : Opts) : ∀ (kvs : List (Str × Val)),
    (dropK o (pairOrderK o kvs)).length = (dropK o kvs).length
  | [] => rfl
  | (k, v) :: kvs => by
    have ih := length_dropK_pairOrderK o kvs
    simp only [pairOrderK]
    by_cases hd : o.skipEmpty = true ∧ isEmptyContainer (prune v) = true
    · rw [dropK_cons_drop _ hd.1 (by rw [pairOrder_empty]; exact hd.2), dropK_cons_drop _ hd.1 hd.2]
      exact ih
    · rw [dropK_cons_keep _ (by rw [pairOrder_empty]; exact hd), dropK_cons_keep _ hd]
      simp [ih]

theorem keysOf_dropK_sub (o : Opts) : ∀ (kvs : List (Str × Val)) (k : Str),
    k ∈ keysOf (dropK o kvs) → k ∈ keysOf kvs := by
  intro kvs k h
  unfold dropK at h
  split at h
  · exact keysOf_pruneKvs_sub kvs k h
  · exact h

/-- reading a surviving entry back from the exported dict -/
theorem lookup_dropK (o : Opts) : ∀ (kvs : List (Str × Val)), nodupKeys kvs = true →
    ∀ (k : Str) (v : Val), (k, v) ∈ kvs → ¬ (o.skipEmpty = true ∧ isEmptyContainer (prune v) = true) →
    Val.lookup k (eraseKvs (dropK o kvs)) = some (erase (dropEmptyIf o v))
  | [], _, _, _, hm, _ => by cases hm
  | (k0, v0) :: rest, hn, k, v, hm, hkeep => by
    simp only [nodupKeys, Bool.and_eq_true, Bool.not_eq_true', List.contains_eq_mem,
      decide_eq_false_iff_not] at hn
    rcases List.mem_cons.1 hm with hm' | hm'
    · cases hm'
      rw [dropK_cons_keep _ hkeep]
      simp [eraseKvs, Val.lookup]
    · have hne : k ≠ k0 := by
        intro e
        apply hn.1
        simp only [keysOf, List.mem_map]
        exact ⟨(k, v), hm', e⟩
      have ih := lookup_dropK o rest hn.2 k v hm' hkeep
      by_cases hd : o.skipEmpty = true ∧ isEmptyContainer (prune v0) = true
      · rw [dropK_cons_drop _ hd.1 hd.2]; exact ih
      · rw [dropK_cons_keep _ hd]
        simp only [eraseKvs, Val.lookup, hne, if_false]
        exact ih

mutual
/-- the column-ordered tree equals the tree as Python compares values, also after
`skip_empty_arrays` has dropped the empty containers of both -/
theorem pairOrder_pyEq (o : Opts) : ∀ (t : Val), wf t = true →
    pyEq (erase (dropEmptyIf o (pairOrder o t))) (erase (dropEmptyIf o t)) = true
  | .none, _ => by unfold dropEmptyIf; split <;> simp [pairOrder, prune, erase, pyEq]
  | .bool _, _ => by unfold dropEmptyIf; split <;> simp [pairOrder, prune, erase, pyEq]
  | .int _, _ => by unfold dropEmptyIf; split <;> simp [pairOrder, prune, erase, pyEq]
  | .flt _, _ => by unfold dropEmptyIf; split <;> simp [pairOrder, prune, erase, pyEq]
  | .str _, _ => by unfold dropEmptyIf; split <;> simp [pairOrder, prune, erase, pyEq]
  | .list c xs, h => by
    simp only [wf] at h
    rcases pairSel_cases o xs with hg | ⟨c0, cols, hsel, hcols⟩
    · rw [pairOrder_list_general hg, dropEmptyIf_list, dropEmptyIf_list]
      simp only [erase, pyEq]
      exact pairOrderL_pyEq o xs h
    · rw [pairOrder_list_pair hsel, dropEmptyIf_list, dropEmptyIf_list]
      simp only [erase, pyEq]
      exact recs_pyEq o (pairCols_inv hcols).2 xs (pairCols_inv hcols).1 h
  | .dict c kvs, h => by
    simp only [wf, Bool.and_eq_true] at h
    simp only [pairOrder]
    rw [dropEmptyIf_dict, dropEmptyIf_dict]
    simp only [erase, pyEq, Bool.and_eq_true, beq_iff_eq]
    refine ⟨by rw [length_eraseKvs, length_eraseKvs, length_dropK_pairOrderK], ?_⟩
    exact pairOrderK_pyEq o kvs h.1 _ (fun k v hm hkeep => lookup_dropK o kvs h.2 k v hm hkeep)
theorem pairOrderL_pyEq (o : Opts) : ∀ (xs : List Val), wfL xs = true →
    pyEqL (eraseList (dropL o (pairOrderL o xs))) (eraseList (dropL o xs)) = true
  | [], _ => by
    have : dropL o [] = [] := by unfold dropL; split <;> simp [pruneList]
    simp [pairOrderL, this, eraseList, pyEqL]
  | x :: xs, h => by
    simp only [wfL, Bool.and_eq_true] at h
    simp only [pairOrderL]
    by_cases hd : o.skipEmpty = true ∧ isEmptyContainer (prune x) = true
    · rw [dropL_cons_drop _ hd.1 (by rw [pairOrder_empty]; exact hd.2), dropL_cons_drop _ hd.1 hd.2]
      exact pairOrderL_pyEq o xs h.2
    · rw [dropL_cons_keep _ (by rw [pairOrder_empty]; exact hd), dropL_cons_keep _ hd]
      simp only [eraseList, pyEqL, Bool.and_eq_true]
      exact ⟨pairOrder_pyEq o x h.1, pairOrderL_pyEq o xs h.2⟩
theorem pairOrderK_pyEq (o : Opts) : ∀ (kvs : List (Str × Val)), wfK kvs = true →
    ∀ (B : List (Str × Val)),
    (∀ k v, (k, v) ∈ kvs → ¬ (o.skipEmpty = true ∧ isEmptyContainer (prune v) = true) →
      Val.lookup k B = some (erase (dropEmptyIf o v))) →
    pyEqK (eraseKvs (dropK o (pairOrderK o kvs))) B = true
  | [], _, B, _ => by
    have : dropK o [] = [] := by unfold dropK; split <;> simp [pruneKvs]
    simp [pairOrderK, this, eraseKvs, pyEqK]
  | (k, v) :: kvs, h, B, hB => by
    simp only [wfK, Bool.and_eq_true] at h
    simp only [pairOrderK]
    have ih := pairOrderK_pyEq o kvs h.2 B (fun k' v' hm hk => hB k' v' (by simp [hm]) hk)
    by_cases hd : o.skipEmpty = true ∧ isEmptyContainer (prune v) = true
    · rw [dropK_cons_drop _ hd.1 (by rw [pairOrder_empty]; exact hd.2)]
      exact ih
    · rw [dropK_cons_keep _ (by rw [pairOrder_empty]; exact hd)]
      simp only [eraseKvs, pyEqK, hB k v (by simp) hd, Bool.and_eq_true]
      exact ⟨pairOrder_pyEq o v h.1, ih⟩
end

mutual
theorem pairOrder_off_aux (o : Opts) (key : ∀ xs, pairSel o xs = Option.none) : ∀ (t : Val), pairOrder o t = t
  | .none => rfl
  | .bool _ => rfl
  | .int _ => rfl
  | .flt _ => rfl
  | .str _ => rfl
  | .list c xs => by rw [pairOrder_list_general (Or.inl (key xs)), pairOrderL_off o key xs]
  | .dict c kvs => by simp only [pairOrder, pairOrderK_off o key kvs]
theorem pairOrderL_off (o : Opts) (key : ∀ xs, pairSel o xs = Option.none) : ∀ (xs : List Val), pairOrderL o xs = xs
  | [] => rfl
  | x :: xs => by simp only [pairOrderL, pairOrder_off_aux o key x, pairOrderL_off o key xs]
theorem pairOrderK_off (o : Opts) (key : ∀ xs, pairSel o xs = Option.none) :
    ∀ (kvs : List (Str × Val)), pairOrderK o kvs = kvs
  | [] => rfl
  | (k, v) :: kvs => by simp only [pairOrderK, pairOrder_off_aux o key v, pairOrderK_off o key kvs]
end

/-- without the pair layout nothing is re-listed -/
theorem pairOrder_off {o : Opts} (hp : o.pairsOn = false) (t : Val) : pairOrder o t = t :=
  pairOrder_off_aux o (by intro xs; simp [pairSel, hp]) t

/-! ### Part 5: the constructor side — the reader with `object_pairs_hook=n0dict` -/

mutual
/-- class tags of what `json.loads(text, object_pairs_hook=n0dict)` builds: every object is an
n0dict, arrays stay plain lists -/
def tagN0 : Val → Val
  | .list c xs => .list c (tagL xs)
  | .dict _ kvs => .dict .n0 (tagK kvs)
  | v => v
def tagL : List Val → List Val
  | [] => []
  | x :: xs => tagN0 x :: tagL xs
def tagK : List (Str × Val) → List (Str × Val)
  | [] => []
  | (k, v) :: kvs => (k, tagN0 v) :: tagK kvs
end

/-- the constructed object itself is an n0dict / n0list -/
def tagTop : Val → Val
  | .list _ xs => .list .n0 (tagL xs)
  | v => tagN0 v

def mapT (r : PyM (Val × Str)) : PyM (Val × Str) :=
  match r with
  | .ok (v, r) => .ok (tagN0 v, r)
  | .error e => .error e

theorem tagL_append : ∀ (a : List Val) (v : Val), tagL (a ++ [v]) = tagL a ++ [tagN0 v]
  | [], v => rfl
  | x :: a, v => by simp [tagL, tagL_append a v]

theorem tagK_dictInsert : ∀ (acc : List (Str × Val)) (k : Str) (v : Val),
    tagK (dictInsert acc k v) = dictInsert (tagK acc) k (tagN0 v)
  | [], k, v => rfl
  | (k', v') :: acc, k, v => by
    simp only [dictInsert, tagK]
    split
    · rfl
    · simp only [tagK, tagK_dictInsert acc k v]

theorem dictOfPairs_snoc (ps : List (Str × Val)) (k : Str) (v : Val) :
    dictOfPairs (ps ++ [(k, v)]) = dictInsert (dictOfPairs ps) k v := by
  simp [dictOfPairs, List.foldl_append]

theorem pvH_other (f : Nat) (s : Str) (h1 : ∀ r, s ≠ '{' :: r) (h2 : ∀ r, s ≠ '[' :: r) :
    parseValueH (f + 1) s = parseValue (f + 1) s := by
  unfold parseValueH
  split
  · exact absurd rfl (h1 _)
  · exact absurd rfl (h2 _)
  · rfl

theorem pv_scalar (f : Nat) (s : Str) (h1 : ∀ r, s ≠ '{' :: r) (h2 : ∀ r, s ≠ '[' :: r) :
    mapT (parseValue (f + 1) s) = parseValue (f + 1) s := by
  unfold parseValue
  split
  · simp only [bind, Except.bind]
    split <;> rfl
  · exact absurd rfl (h1 _)
  · exact absurd rfl (h2 _)
  · rfl
  · rfl
  · rfl
  · rfl
  · rfl
  · rfl
  · unfold parseNumber
    split
    · rfl
    · split <;> rfl

theorem hook_agree : ∀ (f : Nat),
    (∀ s, parseValueH f s = mapT (parseValue f s)) ∧
    (∀ s acc, parseItemsH f s (tagL acc) = mapT (parseItems f s acc)) ∧
    (∀ s ps acc, dictOfPairs ps = tagK acc → parseMembersH f s ps = mapT (parseMembers f s acc))
  | 0 => ⟨fun _ => rfl, fun _ _ => rfl, fun _ _ _ _ => rfl⟩
  | f + 1 => by
    obtain ⟨ihV, ihI, ihM⟩ := hook_agree f
    refine ⟨?_, ?_, ?_⟩
    · intro s
      by_cases h1 : ∃ r, s = '{' :: r
      · obtain ⟨r, rfl⟩ := h1
        simp only [parseValueH, parseValue]
        split
        · rfl
        · exact ihM _ [] [] rfl
      · by_cases h2 : ∃ r, s = '[' :: r
        · obtain ⟨r, rfl⟩ := h2
          simp only [parseValueH, parseValue]
          split
          · rfl
          · exact ihI _ []
        · have h1' : ∀ r, s ≠ '{' :: r := fun r e => h1 ⟨r, e⟩
          have h2' : ∀ r, s ≠ '[' :: r := fun r e => h2 ⟨r, e⟩
          rw [pvH_other f s h1' h2', pv_scalar f s h1' h2']
    · intro s acc
      simp only [parseItemsH, parseItems, ihV s, bind, Except.bind]
      cases parseValue f s with
      | error e => rfl
      | ok p =>
        obtain ⟨v, r⟩ := p
        simp only [mapT]
        split
        · simp only [pure, Except.pure, tagN0, tagL_append]
        · rw [← tagL_append]; exact ihI _ _
        · rfl
    · intro s ps acc hps
      simp only [parseMembersH, parseMembers]
      have hsn : ∀ (k : Str) (v : Val), dictOfPairs (ps ++ [(k, tagN0 v)]) = tagK (dictInsert acc k v) := by
        intro k v
        rw [dictOfPairs_snoc, hps, tagK_dictInsert]
      split
      · simp only [bind, Except.bind]
        split
        · rfl
        · split
          · rw [ihV]
            cases parseValue f _ with
            | error e => rfl
            | ok p =>
              obtain ⟨v, r3⟩ := p
              simp only [mapT]
              split
              · simp only [pure, Except.pure, tagN0, n0hook, hsn]
              · exact ihM _ _ _ (hsn _ _)
              · rfl
          · rfl
      · rfl

/-- `json.loads(text, object_pairs_hook=n0dict)` is `json.loads(text)` with every object an n0dict:
same accepted texts, same error, same values and key order -/
theorem jsonLoadsHookE_eq (s : Str) : jsonLoadsHookE s = (jsonDecodeE s).map tagN0 := by
  unfold jsonLoadsHookE jsonDecodeE
  rw [(hook_agree _).1]
  simp only [bind, Except.bind]
  cases parseValue (2 * s.length + 2) (skipWs s) with
  | error e => rfl
  | ok p =>
    obtain ⟨v, r⟩ := p
    simp only [mapT]
    split <;> rfl

theorem members_items_shape : ∀ (f : Nat),
    (∀ s acc v r, parseMembers f s acc = .ok (v, r) → ∃ kvs, v = .dict .plain kvs) ∧
    (∀ s acc v r, parseItems f s acc = .ok (v, r) → ∃ xs, v = .list .plain xs)
  | 0 => ⟨fun _ _ _ _ h => by simp [parseMembers] at h, fun _ _ _ _ h => by simp [parseItems] at h⟩
  | f + 1 => by
    obtain ⟨ihM, ihI⟩ := members_items_shape f
    refine ⟨?_, ?_⟩
    · intro s acc v r h
      simp only [parseMembers] at h
      split at h
      · simp only [bind, Except.bind] at h
        split at h
        · cases h
        · split at h
          · split at h
            · cases h
            · split at h
              · simp only [pure, Except.pure, Except.ok.injEq, Prod.mk.injEq] at h
                exact ⟨_, h.1.symm⟩
              · exact ihM _ _ _ _ h
              · cases h
          · cases h
      · cases h
    · intro s acc v r h
      simp only [parseItems, bind, Except.bind] at h
      split at h
      · cases h
      · split at h
        · simp only [pure, Except.pure, Except.ok.injEq, Prod.mk.injEq] at h
          exact ⟨_, h.1.symm⟩
        · exact ihI _ _ _ _ h
        · cases h

theorem parseValue_brace_shape {f : Nat} {r r' : Str} {v : Val}
    (h : parseValue (f + 1) ('{' :: r) = .ok (v, r')) : ∃ kvs, v = .dict .plain kvs := by
  simp only [parseValue] at h
  split at h
  · simp only [pure, Except.pure, Except.ok.injEq, Prod.mk.injEq] at h
    exact ⟨[], h.1.symm⟩
  · exact (members_items_shape f).1 _ _ _ _ h

theorem parseValue_bracket_shape {f : Nat} {r r' : Str} {v : Val}
    (h : parseValue (f + 1) ('[' :: r) = .ok (v, r')) : ∃ xs, v = .list .plain xs := by
  simp only [parseValue] at h
  split at h
  · simp only [pure, Except.pure, Except.ok.injEq, Prod.mk.injEq] at h
    exact ⟨[], h.1.symm⟩
  · exact (members_items_shape f).2 _ _ _ _ h

theorem jsonDecodeE_ok {s : Str} {v : Val} (h : jsonDecodeE s = .ok v) :
    ∃ r, parseValue (2 * s.length + 1 + 1) (skipWs s) = .ok (v, r) := by
  unfold jsonDecodeE at h
  simp only [bind, Except.bind] at h
  cases hp : parseValue (2 * s.length + 2) (skipWs s) with
  | error e => rw [hp] at h; cases h
  | ok p =>
    obtain ⟨v', r⟩ := p
    rw [hp] at h
    simp only [] at h
    split at h
    · simp only [pure, Except.pure, Except.ok.injEq] at h
      subst h
      exact ⟨r, rfl⟩
    · cases h

theorem jsonDecodeE_brace {r : Str} {v : Val} (h : jsonDecodeE ('{' :: r) = .ok v) :
    ∃ kvs, v = .dict .plain kvs := by
  obtain ⟨r', hp⟩ := jsonDecodeE_ok h
  rw [skipWs_cons_of_not (by decide) r] at hp
  exact parseValue_brace_shape hp

theorem jsonDecodeE_bracket {r : Str} {v : Val} (h : jsonDecodeE ('[' :: r) = .ok v) :
    ∃ xs, v = .list .plain xs := by
  obtain ⟨r', hp⟩ := jsonDecodeE_ok h
  rw [skipWs_cons_of_not (by decide) r] at hp
  exact parseValue_bracket_shape hp

/-- **`n0dict(text)`** on a text whose first non-blank character is `{`: `json.loads` of the
stripped text (same acceptance, same error class), every object an n0dict, arrays plain lists -/
theorem n0dictOfText_json {s r : Str} (hne : s ≠ []) (hs : stripWs s = '{' :: r) :
    n0dictOfText s = (jsonDecodeE ('{' :: r)).map tagN0 := by
  unfold n0dictOfText
  have : s.isEmpty = false := by cases s <;> simp at hne ⊢
  simp only [this, Bool.false_eq_true, if_false, hs]
  rw [jsonLoadsHookE_eq]
  cases hd : jsonDecodeE ('{' :: r) with
  | error e => rfl
  | ok v =>
    obtain ⟨kvs, rfl⟩ := jsonDecodeE_brace hd
    rfl

/-- **`n0list(text)`** on a text whose first non-blank character is `[` -/
theorem n0listOfText_json {s r : Str} (hne : s ≠ []) (hs : stripWs s = '[' :: r) :
    n0listOfText s = (jsonDecodeE ('[' :: r)).map tagTop := by
  unfold n0listOfText
  have : s.isEmpty = false := by cases s <;> simp at hne ⊢
  simp only [this, Bool.false_eq_true, if_false, hs]
  rw [jsonLoadsHookE_eq]
  cases hd : jsonDecodeE ('[' :: r) with
  | error e => rfl
  | ok v =>
    obtain ⟨xs, rfl⟩ := jsonDecodeE_bracket hd
    rfl

/-- the remaining branches of the two constructors -/
theorem ctor_dispatch (s : Str) :
    (s = [] → n0dictOfText s = .ok (.dict .n0 []) ∧ n0listOfText s = .ok (.list .n0 [])) ∧
    (s ≠ [] → (∀ r, stripWs s ≠ '{' :: r) → (∀ r, stripWs s ≠ '<' :: r) → n0dictOfText s = .error .TypeError) ∧
    (s ≠ [] → (∀ r, stripWs s ≠ '[' :: r) → n0listOfText s = .error .TypeError) := by
  refine ⟨?_, ?_, ?_⟩
  · rintro rfl; exact ⟨rfl, rfl⟩
  · intro hne h1 h2
    unfold n0dictOfText
    have : s.isEmpty = false := by cases s <;> simp at hne ⊢
    simp only [this, Bool.false_eq_true, if_false]
  · intro hne h1
    unfold n0listOfText
    have : s.isEmpty = false := by cases s <;> simp at hne ⊢
    simp only [this, Bool.false_eq_true, if_false]

/-! exported texts are what the constructors expect: bracketed, nothing to strip -/

theorem stripWs_bracketed {l r : Char} (hl : isPySpace l = false) (hr : isPySpace r = false) (body : Str) :
    stripWs (l :: (body ++ [r])) = l :: (body ++ [r]) := by
  unfold stripWs
  have h1 : (l :: (body ++ [r])).dropWhile isPySpace = l :: (body ++ [r]) := by
    simp [List.dropWhile, hl]
  rw [h1]
  have h2 : (l :: (body ++ [r])).reverse = r :: (body.reverse ++ [l]) := by simp
  rw [h2]
  have h3 : (r :: (body.reverse ++ [l])).dropWhile isPySpace = r :: (body.reverse ++ [l]) := by
    simp [List.dropWhile, hr]
  rw [h3]
  simp

theorem Out_bracketed {o : Opts} {t : Val} {s : Str} (h : Out o t s) (hne : s ≠ []) :
    (isDict t = true → ∃ body, s = '{' :: (body ++ ['}'])) ∧
    (isDict t = false → (∃ c xs, t = .list c xs) → ∃ body, s = '[' :: (body ++ [']'])) := by
  rcases h with ⟨_, _, hnil⟩ | ⟨_, hr⟩
  · exact absurd hnil hne
  · refine ⟨?_, ?_⟩
    · intro hd
      cases t <;> simp [isDict] at hd
      rw [dropEmptyIf_dict] at hr
      simp only [Ren] at hr
      obtain ⟨body, _, rfl⟩ := hr
      exact ⟨body, rfl⟩
    · intro _ hl
      obtain ⟨c, xs, rfl⟩ := hl
      rw [dropEmptyIf_list] at hr
      simp only [Ren] at hr
      obtain ⟨body, _, rfl⟩ := hr
      exact ⟨body, rfl⟩

theorem isDict_pairOrder (o : Opts) (t : Val) : isDict (pairOrder o t) = isDict t := by
  cases t with
  | list c xs => obtain ⟨ys, h⟩ := pairOrder_list_shape o c xs; rw [h]; rfl
  | _ => rfl

/-- the text exported for a dict is `{…}` -/
theorem toJson_dict_shape (o : Opts) (c : Cls) (kvs : List (Str × Val)) (hw : wf (.dict c kvs) = true) :
    ∃ body, toJson o (.dict c kvs) = '{' :: (body ++ ['}']) := by
  have hout := jpretty_ren o (.dict c kvs) hw 0
  unfold toJson
  by_cases he : (pretty o 0 (.dict c kvs)).isEmpty = true
  · simp only [he, if_true, isDict]
    exact ⟨[], rfl⟩
  · simp only [he, Bool.false_eq_true, if_false]
    have hne : pretty o 0 (.dict c kvs) ≠ [] := by
      intro h; rw [h] at he; simp at he
    exact (Out_bracketed hout hne).1 (by simp [pairOrder, isDict])

/-- the text exported for a list is `[…]` -/
theorem toJson_list_shape (o : Opts) (c : Cls) (xs : List Val) (hw : wf (.list c xs) = true) :
    ∃ body, toJson o (.list c xs) = '[' :: (body ++ [']']) := by
  have hout := jpretty_ren o (.list c xs) hw 0
  unfold toJson
  by_cases he : (pretty o 0 (.list c xs)).isEmpty = true
  · simp only [he, if_true, isDict]
    exact ⟨[], rfl⟩
  · simp only [he, Bool.false_eq_true, if_false]
    have hne : pretty o 0 (.list c xs) ≠ [] := by
      intro h; rw [h] at he; simp at he
    obtain ⟨ys, hys⟩ := pairOrder_list_shape o c xs
    exact (Out_bracketed hout hne).2 (by rw [hys]; rfl) ⟨c, ys, hys⟩

theorem jsonDecodeE_of_jsonDecode {s : Str} {v : Val} (h : jsonDecode s = some v) : jsonDecodeE s = .ok v := by
  unfold jsonDecode at h
  split at h
  · simp only [Option.some.injEq] at h; subst h; assumption
  · cases h

/-- **export, then construct** (dict): `n0dict(x.to_json(…))` is the column-ordered tree, minus
empty containers under `skip_empty_arrays`, every dict an n0dict and every inner list a plain list -/
theorem n0dictOfText_toJson (o : Opts) (c : Cls) (kvs : List (Str × Val)) (hw : wf (.dict c kvs) = true) :
    n0dictOfText (toJson o (.dict c kvs))
      = .ok (tagN0 (erase (dropEmptyIf o (pairOrder o (.dict c kvs))))) := by
  obtain ⟨body, hb⟩ := toJson_dict_shape o c kvs hw
  have hdec := jsonDecodeE_of_jsonDecode (jsonDecode_toJson o _ hw)
  rw [hb] at hdec ⊢
  rw [n0dictOfText_json (r := body ++ ['}']) (by simp) (stripWs_bracketed (by decide) (by decide) body), hdec]
  rfl

/-- **export, then construct** (list): `n0list(x.to_json(…))` -/
theorem n0listOfText_toJson (o : Opts) (c : Cls) (xs : List Val) (hw : wf (.list c xs) = true) :
    n0listOfText (toJson o (.list c xs))
      = .ok (tagTop (erase (dropEmptyIf o (pairOrder o (.list c xs))))) := by
  obtain ⟨body, hb⟩ := toJson_list_shape o c xs hw
  have hdec := jsonDecodeE_of_jsonDecode (jsonDecode_toJson o _ hw)
  rw [hb] at hdec ⊢
  rw [n0listOfText_json (r := body ++ [']']) (by simp) (stripWs_bracketed (by decide) (by decide) body), hdec]
  rfl

/-! ### a family of arbitrarily deep trees (non-vacuity of the unbounded statements) -/

/-- `n` dicts around `v` -/
def nest : Nat → Val → Val
  | 0, v => v
  | n + 1, v => .dict .n0 [(['a'], nest n v)]

theorem wf_nest (v : Val) (h : wf v = true) : ∀ n, wf (nest n v) = true
  | 0 => h
  | n + 1 => by simp [nest, wf, wfK, nodupKeys, keysOf, wf_nest v h n]

theorem depth_nest (v : Val) : ∀ n, depth (nest n v) = n + depth v
  | 0 => by simp [nest]
  | n + 1 => by simp only [nest, depth, depthK, depth_nest v n]; omega

/-- nothing in `nest` is a list: the pair layout re-lists nothing -/
theorem pairOrder_nest (o : Opts) : ∀ n, pairOrder o (nest n (.int 1)) = nest n (.int 1)
  | 0 => rfl
  | n + 1 => by simp only [nest, pairOrder, pairOrderK, pairOrder_nest o n]

end N0.Json
