import N0Verif.Proofs.Json
/-!
  Lemmas for C11, stage 3: the **pair layout** (`pairs_in_one_line` with indent > 0).

  * `pyEq` — equality of decoded values as Python sees it (dict order ignored); spec notion used by
    the statements of `Props/C11.lean` (like `wf`, `depth`, `Ren` of `Proofs/Json.lean`).
  * `pairOrder o t` — the tree whose records (items of the lists that `is_list_with_pairs`
    accepts) list their entries in *column order* (first appearance in the list); this is the
    tree the pair layout really prints.
  * Part 1: what `pairCols xs = some cols` says about `xs` and `cols`.
  * Part 2: one padded record `{ "k": v  , "w": x }` is a rendering of the column-ordered record;
    the loop `pairBody` is a rendering accumulator.
  * Part 3: for **every** option record `pretty` produces a rendering of
    `dropEmptyIf o (pairOrder o t)` (`jpretty_ren`), hence `jsonDecode_toJson`.
  * Part 4: `pairOrder` keeps `wf`, and `pyEq` relates the column-ordered tree with the tree.
-/
namespace N0.Json
open N0 N0.Py

/-! ### equality of decoded values as Python sees it (dict order ignored) -/
mutual
def pyEq : Val → Val → Bool
  | .none, .none => true
  | .bool a, .bool b => a == b
  | .int a, .int b => a == b
  | .flt a, .flt b => a == b
  | .str a, .str b => a == b
  | .list _ xs, .list _ ys => pyEqL xs ys
  | .dict _ a, .dict _ b => a.length == b.length && pyEqK a b
  | _, _ => false
def pyEqL : List Val → List Val → Bool
  | [], [] => true
  | x :: xs, y :: ys => pyEq x y && pyEqL xs ys
  | _, _ => false
def pyEqK : List (Str × Val) → List (Str × Val) → Bool
  | [], _ => true
  | (k, v) :: rest, b =>
    (match Val.lookup k b with
      | some v' => pyEq v v'
      | Option.none => false) && pyEqK rest b
end

/-! ### the column-ordered tree -/

/-- the entries of a record in column order (what `for key in keys_and_max_len_of_value` prints) -/
def colOrder : List (Str × Nat) → List (Str × Val) → List (Str × Val)
  | [], _ => []
  | (k, _) :: cols, kvs =>
    match Val.lookup k kvs with
    | some v => (k, v) :: colOrder cols kvs
    | Option.none => colOrder cols kvs

def orderRec (cols : List (Str × Nat)) : Val → Val
  | .dict c kvs => .dict c (colOrder cols kvs)
  | v => v

mutual
/-- every list that the pair layout accepts (under the option record `o`) gets its records
re-listed in column order; nothing else changes -/
def pairOrder (o : Opts) : Val → Val
  | .list c xs =>
    match (if o.pairsOn then pairCols xs else Option.none) with
    | some (c0 :: cols) => .list c (xs.map (orderRec (c0 :: cols)))
    | _ => .list c (pairOrderL o xs)
  | .dict c kvs => .dict c (pairOrderK o kvs)
  | v => v
def pairOrderL (o : Opts) : List Val → List Val
  | [] => []
  | x :: xs => pairOrder o x :: pairOrderL o xs
def pairOrderK (o : Opts) : List (Str × Val) → List (Str × Val)
  | [] => []
  | (k, v) :: kvs => (k, pairOrder o v) :: pairOrderK o kvs
end

/-! ### Part 1: `is_list_with_pairs` -/

def colKeys (cols : List (Str × Nat)) : List Str := cols.map (·.1)

theorem colHas_iff (cols : List (Str × Nat)) (k : Str) : colHas cols k = true ↔ k ∈ colKeys cols := by
  unfold colHas colKeys
  simp only [List.any_eq_true, beq_iff_eq, List.mem_map]

theorem colKeys_colUpdate (cols : List (Str × Nat)) (k : Str) (w : Nat) (h : k ∈ colKeys cols) :
    colKeys (colUpdate cols k w) = colKeys cols := by
  induction cols with
  | nil => simp [colKeys] at h
  | cons p cols ih =>
    obtain ⟨k', w'⟩ := p
    simp only [colUpdate]
    split
    · simp [colKeys]
    · rename_i hne
      simp only [colKeys, List.map_cons, List.mem_cons] at h ⊢
      rcases h with h | h
      · exact absurd h hne
      · have := ih (by simpa [colKeys] using h)
        simp only [colKeys] at this
        rw [this]

/-- a value the pair layout accepts: `str | int | float | bool` -/
def isPairScalar (v : Val) : Bool := (presWidth v).isSome

/-- the keys of the column list after the inner loop -/
def recKeysInto (cols : List Str) : List (Str × Val) → List Str
  | [] => cols
  | (k, _) :: rest => recKeysInto (if k ∈ cols then cols else cols ++ [k]) rest

theorem pairColsRec_keys : ∀ (kvs : List (Str × Val)) (cols cols' : List (Str × Nat)),
    pairColsRec cols kvs = some cols' →
    colKeys cols' = recKeysInto (colKeys cols) kvs ∧ (∀ p ∈ kvs, isPairScalar p.2 = true)
  | [], cols, cols', h => by
    simp only [pairColsRec, Option.some.injEq] at h
    subst h
    exact ⟨rfl, by simp⟩
  | (k, v) :: rest, cols, cols', h => by
    simp only [pairColsRec] at h
    have hk : k ∈ colKeys (if colHas cols k = true then cols else cols ++ [(k, 0)]) := by
      split
      · rename_i hc; exact (colHas_iff _ _).1 hc
      · simp [colKeys]
    have hkeys : colKeys (if colHas cols k = true then cols else cols ++ [(k, 0)])
        = (if k ∈ colKeys cols then colKeys cols else colKeys cols ++ [k]) := by
      by_cases hc : colHas cols k = true
      · simp [hc, (colHas_iff _ _).1 hc]
      · have : k ∉ colKeys cols := fun hm => hc ((colHas_iff _ _).2 hm)
        simp only [hc, this, if_false]
        simp [colKeys]
    generalize (if colHas cols k = true then cols else cols ++ [(k, 0)]) = cols1 at h hk hkeys
    by_cases hlen : cols1.length > 2
    · simp [hlen] at h
    · simp only [hlen, if_false] at h
      cases hw : presWidth v with
      | none => rw [hw] at h; cases h
      | some w =>
        rw [hw] at h
        simp only [] at h
        obtain ⟨h1, h2⟩ := pairColsRec_keys rest _ cols' h
        rw [colKeys_colUpdate _ _ _ hk, hkeys] at h1
        refine ⟨?_, ?_⟩
        · rw [h1]
          simp only [recKeysInto]
        · intro p hp
          rcases List.mem_cons.1 hp with hp | hp
          · subst hp; simp [isPairScalar, hw]
          · exact h2 p hp

theorem recKeysInto_sub : ∀ (kvs : List (Str × Val)) (cols : List Str) (k : Str),
    k ∈ cols → k ∈ recKeysInto cols kvs
  | [], _, _, h => h
  | (k', _) :: rest, cols, k, h => by
    simp only [recKeysInto]
    apply recKeysInto_sub rest
    split
    · exact h
    · exact List.mem_append_left _ h

theorem recKeysInto_has : ∀ (kvs : List (Str × Val)) (cols : List Str) (p : Str × Val),
    p ∈ kvs → p.1 ∈ recKeysInto cols kvs
  | (k', v') :: rest, cols, p, h => by
    simp only [recKeysInto]
    rcases List.mem_cons.1 h with h | h
    · subst h
      apply recKeysInto_sub rest
      split
      · assumption
      · simp
    · exact recKeysInto_has rest _ p h

theorem recKeysInto_nodup : ∀ (kvs : List (Str × Val)) (cols : List Str),
    cols.Nodup → (recKeysInto cols kvs).Nodup
  | [], _, h => h
  | (k', _) :: rest, cols, h => by
    simp only [recKeysInto]
    apply recKeysInto_nodup rest
    split
    · exact h
    · rename_i hn
      rw [List.nodup_append]
      refine ⟨h, by simp, ?_⟩
      intro a ha b hb
      simp only [List.mem_singleton] at hb
      subst hb
      intro e; subst e; exact hn ha

/-- a record the pair layout accepts, with all its keys among the columns -/
def RecOk (cols : List (Str × Nat)) (x : Val) : Prop :=
  ∃ c kvs, x = .dict c kvs ∧ ∀ p ∈ kvs, isPairScalar p.2 = true ∧ p.1 ∈ colKeys cols

theorem RecOk_mono {cols cols' : List (Str × Nat)} (h : ∀ k ∈ colKeys cols, k ∈ colKeys cols') {x : Val}
    (hx : RecOk cols x) : RecOk cols' x := by
  obtain ⟨c, kvs, rfl, hk⟩ := hx
  exact ⟨c, kvs, rfl, fun p hp => ⟨(hk p hp).1, h _ (hk p hp).2⟩⟩

theorem pairColsFrom_inv : ∀ (xs : List Val) (cols cols' : List (Str × Nat)),
    pairColsFrom cols xs = some cols' →
    (∀ x ∈ xs, RecOk cols' x) ∧ (∀ k ∈ colKeys cols, k ∈ colKeys cols') ∧
    ((colKeys cols).Nodup → (colKeys cols').Nodup)
  | [], cols, cols', h => by
    simp only [pairColsFrom, Option.some.injEq] at h
    subst h
    exact ⟨by simp, fun _ h => h, fun h => h⟩
  | .dict c kvs :: rest, cols, cols', h => by
    simp only [pairColsFrom] at h
    split at h
    · cases h
    · cases hr : pairColsRec cols kvs with
      | none => rw [hr] at h; cases h
      | some cols1 =>
        rw [hr] at h
        simp only [] at h
        obtain ⟨hk1, hs1⟩ := pairColsRec_keys kvs cols cols1 hr
        obtain ⟨ha, hb, hc⟩ := pairColsFrom_inv rest cols1 cols' h
        refine ⟨?_, ?_, ?_⟩
        · intro x hx
          rcases List.mem_cons.1 hx with hx | hx
          · subst hx
            refine ⟨c, kvs, rfl, fun p hp => ⟨hs1 p hp, hb _ ?_⟩⟩
            rw [hk1]
            exact recKeysInto_has kvs _ p hp
          · exact ha x hx
        · intro k hk
          apply hb
          rw [hk1]
          exact recKeysInto_sub kvs _ k hk
        · intro hn
          apply hc
          rw [hk1]
          exact recKeysInto_nodup kvs _ hn
  | .none :: _, _, _, h => by simp [pairColsFrom] at h
  | .bool _ :: _, _, _, h => by simp [pairColsFrom] at h
  | .int _ :: _, _, _, h => by simp [pairColsFrom] at h
  | .flt _ :: _, _, _, h => by simp [pairColsFrom] at h
  | .str _ :: _, _, _, h => by simp [pairColsFrom] at h
  | .list _ _ :: _, _, _, h => by simp [pairColsFrom] at h

theorem pairCols_inv {xs : List Val} {cols : List (Str × Nat)} (h : pairCols xs = some cols) :
    (∀ x ∈ xs, RecOk cols x) ∧ (colKeys cols).Nodup := by
  obtain ⟨ha, _, hc⟩ := pairColsFrom_inv xs [] cols h
  exact ⟨ha, hc (by simp [colKeys])⟩

/-! ### Part 2: one record, the loop over the records -/

theorem isPySpace_of_isWs {c : Char} (h : isWs c = true) : isPySpace c = true := by
  simp only [isWs, Bool.or_eq_true, decide_eq_true_eq] at h
  rcases h with ((h | h) | h) | h <;> subst h <;> decide

theorem hasInk_ws {w : Str} (hw : Ws w) : hasInk w = false := by
  unfold hasInk
  rw [Bool.eq_false_iff]
  intro h
  obtain ⟨c, hc, hn⟩ := List.any_eq_true.1 h
  simp [isPySpace_of_isWs (hw c hc)] at hn

theorem hasInk_append (a b : Str) : hasInk (a ++ b) = (hasInk a || hasInk b) := by
  simp [hasInk]

theorem AccK_ws {done : List (Str × Val)} {acc w : Str} (h : AccK done acc) (hne : done ≠ []) (hw : Ws w) :
    AccK done (acc ++ w) := by
  cases done with
  | nil => exact absurd rfl hne
  | cons p rest =>
    obtain ⟨k, v⟩ := p
    simp only [AccK] at h ⊢
    obtain ⟨w1, w2, r, t, h1, h2, hr, ht, rfl⟩ := h
    exact ⟨w1, w2, r, t ++ w, h1, h2, hr, RenTailK_ws rest t w ht hw, by simp⟩

theorem AccK_hasInk {done : List (Str × Val)} {acc : Str} (h : AccK done acc) :
    hasInk acc = !done.isEmpty := by
  cases done with
  | nil => simp only [AccK] at h; subst h; rfl
  | cons p rest =>
    obtain ⟨k, v⟩ := p
    simp only [AccK] at h
    obtain ⟨w1, w2, r, t, _, _, _, _, rfl⟩ := h
    simp [hasInk, quoted, isPySpace]

/-- the text of the record so far: leading blanks, then the printed entries -/
def RecAcc (done : List (Str × Val)) (sub : Str) : Prop :=
  ∃ w0 body, Ws w0 ∧ AccK done body ∧ sub = w0 ++ body

theorem RecAcc_hasInk {done : List (Str × Val)} {sub : Str} (h : RecAcc done sub) :
    hasInk sub = !done.isEmpty := by
  obtain ⟨w0, body, hw, hb, rfl⟩ := h
  rw [hasInk_append, hasInk_ws hw, AccK_hasInk hb]
  simp

theorem RecAcc_ws {done : List (Str × Val)} {sub w : Str} (h : RecAcc done sub) (hw : Ws w) :
    RecAcc done (sub ++ w) := by
  obtain ⟨w0, body, hw0, hb, rfl⟩ := h
  cases done with
  | nil =>
    simp only [AccK] at hb; subst hb
    exact ⟨w0 ++ w, [], Ws_append hw0 hw, by simp [AccK], by simp⟩
  | cons p rest =>
    exact ⟨w0, body ++ w, hw0, AccK_ws hb (by simp) hw, by simp⟩

theorem RecAcc_push {done : List (Str × Val)} {sub : Str} (h : RecAcc done sub) (k : Str) {v : Val} {r pad : Str}
    (hr : Ren v r) (hp : Ws pad) :
    RecAcc (done ++ [(k, v)])
      ((if hasInk sub then sub ++ [','] else if !sub.isEmpty then sub ++ [' '] else sub)
        ++ [' '] ++ quoted k ++ [':', ' '] ++ (r ++ pad)) := by
  have hink := RecAcc_hasInk h
  obtain ⟨w0, body, hw0, hb, rfl⟩ := h
  have hsp : Ws [' '] := Ws_cons (by decide) Ws_nil
  cases done with
  | nil =>
    simp only [AccK] at hb; subst hb
    simp only [List.isEmpty_nil, Bool.not_true, List.append_nil] at hink
    simp only [List.append_nil, hink, Bool.false_eq_true, if_false]
    refine ⟨(if !w0.isEmpty then w0 ++ [' '] else w0) ++ [' '],
      quoted k ++ ([] ++ ':' :: ([' '] ++ (r ++ pad))), ?_, ?_, by simp⟩
    · apply Ws_append _ hsp
      split
      · exact Ws_append hw0 hsp
      · exact hw0
    · simp only [AccK]
      exact ⟨[], [' '], r, pad, Ws_nil, hsp, hr, by simpa [RenTailK] using hp, rfl⟩
  | cons p rest =>
    simp only [List.isEmpty_cons, Bool.not_false] at hink
    simp only [hink, if_true]
    have hne : body.isEmpty = false := by
      obtain ⟨k0, v0⟩ := p
      simp only [AccK] at hb
      obtain ⟨w1, w2, r0, t0, _, _, _, _, rfl⟩ := hb
      simp [quoted]
    have h1 := AccK_step (k := k) hb hr hsp hsp
    simp only [hne, Bool.not_false, if_true] at h1
    have h2 := AccK_ws h1 (by simp) hp
    exact ⟨w0, _, hw0, h2, by simp⟩

theorem lookup_mem : ∀ (kvs : List (Str × Val)) (k : Str) (v : Val),
    Val.lookup k kvs = some v → (k, v) ∈ kvs
  | [], _, _, h => by simp [Val.lookup] at h
  | (k', v') :: rest, k, v, h => by
    simp only [Val.lookup] at h
    split at h
    · rename_i e; subst e; simp only [Option.some.injEq] at h; subst h; simp
    · exact List.mem_cons_of_mem _ (lookup_mem rest k v h)

/-- the padded record text is a rendering accumulator of the column-ordered entries -/
theorem pairRecord_acc (kvs : List (Str × Val))
    (hsc : ∀ p ∈ kvs, Ren p.2 (scalarText p.2)) :
    ∀ (cols : List (Str × Nat)) (done : List (Str × Val)) (sub : Str), RecAcc done sub →
      RecAcc (done ++ colOrder cols kvs) (pairRecord kvs cols sub)
  | [], done, sub, h => by simpa [colOrder, pairRecord] using h
  | (k, w) :: cols, done, sub, h => by
    simp only [colOrder, pairRecord]
    cases hl : Val.lookup k kvs with
    | none =>
      simp only []
      apply pairRecord_acc kvs hsc cols done
      have hw : Ws ((if !sub.isEmpty then [' '] else []) ++ List.replicate (1 + 1 + k.length + 1 + 2 + w) ' ') := by
        apply Ws_append _ (Ws_replicate _)
        split
        · exact Ws_cons (by decide) Ws_nil
        · exact Ws_nil
      have := RecAcc_ws h hw
      by_cases he : sub.isEmpty = true <;> simpa [he] using this
    | some v =>
      simp only []
      have hr := hsc _ (lookup_mem kvs k v hl)
      have := RecAcc_push h k (r := scalarText v) (pad := List.replicate (w - (scalarText v).length) ' ')
        hr (Ws_replicate _)
      have := pairRecord_acc kvs hsc cols _ _ this
      simpa [ljust, pairValText] using this

theorem Ren_of_RecAcc {done : List (Str × Val)} {sub w : Str} (c : Cls) (h : RecAcc done sub) (hw : Ws w) :
    Ren (.dict c done) ('{' :: ((sub ++ w) ++ ['}'])) := by
  obtain ⟨w0, body, hw0, hb, rfl⟩ := h
  simp only [Ren]
  refine ⟨(w0 ++ body) ++ w, ?_, rfl⟩
  cases done with
  | nil =>
    simp only [AccK] at hb; subst hb
    simp only [RenK]
    exact Ws_append (Ws_append hw0 Ws_nil) hw
  | cons p rest =>
    obtain ⟨k, v⟩ := p
    simp only [AccK] at hb
    obtain ⟨w1, w2, r, t, h1, h2, hr, ht, rfl⟩ := hb
    simp only [RenK]
    exact ⟨w0, w1, w2, r, t ++ w, hw0, h1, h2, hr, RenTailK_ws rest t w ht hw, by simp⟩

/-- **one record of the pair layout** is a JSON text of the column-ordered record -/
theorem pairRecord_ren (c : Cls) (cols : List (Str × Nat)) (kvs : List (Str × Val))
    (hsc : ∀ p ∈ kvs, Ren p.2 (scalarText p.2)) :
    Ren (.dict c (colOrder cols kvs)) (['{'] ++ pairRecord kvs cols [] ++ [' ', '}']) := by
  have h0 : RecAcc [] [] := ⟨[], [], Ws_nil, by simp [AccK], rfl⟩
  have h := pairRecord_acc kvs hsc cols [] [] h0
  have := Ren_of_RecAcc c h (w := [' ']) (Ws_cons (by decide) Ws_nil)
  simpa using this

end N0.Json
