import N0Verif.Proofs.XPathHidden
/-!
  Writes through further hidden-list spellings (fix C03-e), for the single value `old` at ANY plain position `P`
  (the value of a key or an element of a list):

  * `hidden_place_found_gen`: what `__setitem__` makes of item `[0]` / `[-1]` of the hidden list around `old`;
  * `setItem_hidden_toks`: the core — whatever text tokenises to `…P… , [e]` with `e` denoting `0` / `-1`
    stores `v` at `P` (`setAt`);
  * `setItem_hidden_own_step` (`…P…/[e]`: the index written as a step of its own) and
    `setItem_hidden_elem` (`…q0…[i][e]`: the single value is element `i` of a list);
  * `hidden_find_step`, `hidden_mid_find`, `setItem_hidden_middle`: a hidden index in the MIDDLE of a path
    (`name[e]/…p2…` where `name` holds a dict) to an existing node.
-/
namespace N0.XPath
open N0 N0.Py N0.Val

/-- a bracketed index alone is one token -/
theorem tokenize_bracket (e : Str) (he : CleanIdx e) : tokenize (bracket e) = [bracket e] := by
  have hform : bracket e = ('[' :: e) ++ [']'] := by simp [bracket]
  have hnoRB : ∀ c ∈ '[' :: e, c ≠ ']' := by
    intro c hc
    simp only [List.mem_cons] at hc
    rcases hc with hc | hc
    · subst hc; decide
    · exact (he c hc).1
  have hns : ∀ x ∈ ('[' :: e) ++ [']'], x ≠ '/' := by
    intro x hx
    simp only [List.mem_cons, List.mem_append, List.not_mem_nil, or_false] at hx
    rcases hx with (hx | hx) | hx
    · subst hx; decide
    · exact (he x hx).2
    · subst hx; decide
  unfold tokenize
  rw [hform, fixBr_append_noRB _ _ hnoRB, fixBr_rb_nil, splitChar_no_delim '/' _ hns, ← hform]
  simp [isEmpty_false_of_ne (bracket_ne_nil e), bracket_stripWs']

/-- item `[0]` / `[-1]` of the hidden list around the single value at the plain position `P`: the place is the place
the plain path of `P` finds -/
theorem hidden_place_found_gen (fuel : Nat) (root : Val) (P : Pos) (old : Val) (ni : Option Str) (val : Val)
    (hp : PlainPos P) (hne : P ≠ []) (hP : getAt root P = some old) (hf : fuel ≥ 2 * P.length + 1) :
    ∃ r1, FoundAt root [] P old r1 ∧
      hiddenPlace fuel root ({ parent := .wrap (.at P), nameIdx := ni, value := val, found := slash ++ renderPos P,
                               notFound := Option.none } : Res)
        = .ok ({ parent := r1.parent, nameIdx := r1.nameIdx, value := val, found := slash ++ renderPos P,
                 notFound := Option.none } : Res) := by
  have hs := spells_merged P root old hp hP
  have hlen := mergedToks_length_le P
  obtain ⟨r1, hr1, hfound⟩ := find_spells root true hs (mergedToks_ne_nil P hne) fuel [] slash true rfl (by omega)
  have htok : tokenize (slash ++ renderPos P) = mergedToks P := tokenize_render P hp
  obtain ⟨f, rfl⟩ : ∃ f, fuel = f + 1 := ⟨fuel - 1, by omega⟩
  refine ⟨r1, hfound, ?_⟩
  obtain ⟨_, _, pp, _, _, _, _, hpar, _⟩ := hfound
  simp only [hiddenPlace, isWrap, List.isEmpty_nil, Bool.true_or, Bool.and_self, if_true, htok, hr1,
    realPlace_at (f + 1) root f r1 _ hpar]

/-- **core**: a text whose tokens are those of the plain path of `P` followed by the index token `[e]`, `e` denoting
`0` or `-1`, where `P` holds a single value: `__setitem__` replaces the value at `P` -/
theorem setItem_hidden_toks (cls : Cls) (kvs : List (Str × Val)) (P : Pos) (old : Val) (e : IdxSp) (v t' : Val)
    (xp : Str) (fuel : Nat)
    (hp : PlainPos P) (hne : P ≠ []) (hP : getAt (.dict cls kvs) P = some old) (hs : isList old = false)
    (he : e.val = 0 ∨ e.val = -1) (hset : setAt (.dict cls kvs) P v = some t')
    (hq : startsWith xp ['?'] = false) (hpc : hasPathChar xp = true)
    (htok : tokenize xp = mergedToks P ++ [bracket e.text]) (hf : fuel ≥ 2 * P.length + 1) :
    setItem fuel (.dict cls kvs) xp v = (t', .ok ()) := by
  have hlen := mergedToks_length_le P
  obtain ⟨f', en, h1, _, hwalk⟩ := find_walk (.dict cls kvs) true (spellsF_merged P _ _ hp hP)
    [bracket e.text] (by simp) fuel [] slash true rfl (by omega)
  obtain ⟨f, rfl⟩ : ∃ f, f' = f + 1 := ⟨f' - 1, by omega⟩
  rw [List.nil_append, hidden_find_last f _ en true _ _ _ _ _ old hP hs e.idxTok he] at hwalk
  obtain ⟨r1, hfound, hhid⟩ := hidden_place_found_gen fuel (.dict cls kvs) P old (some (bracket (intStr e.val))) old
    hp hne hP hf
  have hst := storeAt_found (.dict cls kvs) P old r1 v t' hfound hp hset
  unfold setItem
  simp only [hq, Bool.false_and, Bool.false_eq_true, if_false, hpc, if_true, htok, hwalk, hhid, List.isEmpty_nil,
    Bool.not_true, hst]

/-- **`…P…/[0]`, `…P…/[-1]`, `…P…/[last()]`: the index written as a step of its own** on the single value at `P` (the
value of a key or an element of a list) replaces that value -/
theorem setItem_hidden_own_step (cls : Cls) (kvs : List (Str × Val)) (P : Pos) (old : Val) (e : IdxSp) (v t' : Val)
    (fuel : Nat)
    (hp : PlainPos P) (hne : P ≠ []) (hP : getAt (.dict cls kvs) P = some old) (hs : isList old = false)
    (he : e.val = 0 ∨ e.val = -1) (hset : setAt (.dict cls kvs) P v = some t') (hf : fuel ≥ 2 * P.length + 1) :
    setItem fuel (.dict cls kvs) (slash ++ renderPos P ++ slash ++ bracket e.text) v = (t', .ok ()) := by
  apply setItem_hidden_toks cls kvs P old e v t' _ fuel hp hne hP hs he hset _ _ _ hf
  · simp [slash, startsWith, List.append_assoc]
  · simp [hasPathChar, slash]
  · have : slash ++ renderPos P ++ slash ++ bracket e.text = ('/' :: renderPos P) ++ '/' :: bracket e.text := by
      simp [slash]
    rw [this, tokenize_append_slash, tokenize_render P hp, tokenize_bracket _ (hidden_cleanIdx e)]

/-- **`…q0…[i][0]`, `…[i][-1]`, `…[i][last()]` on a single value that is element `i` of a list** replaces that
element -/
theorem setItem_hidden_elem (cls : Cls) (kvs : List (Str × Val)) (q0 : Pos) (i : Nat) (old : Val) (e : IdxSp) (v t' : Val)
    (fuel : Nat)
    (hp : PlainPos (q0 ++ [Seg.idx i])) (hP : getAt (.dict cls kvs) (q0 ++ [Seg.idx i]) = some old)
    (hs : isList old = false) (he : e.val = 0 ∨ e.val = -1)
    (hset : setAt (.dict cls kvs) (q0 ++ [Seg.idx i]) v = some t') (hf : fuel ≥ 2 * (q0.length + 1) + 1) :
    setItem fuel (.dict cls kvs) (slash ++ renderPos (q0 ++ [Seg.idx i]) ++ bracket e.text) v = (t', .ok ()) := by
  apply setItem_hidden_toks cls kvs (q0 ++ [Seg.idx i]) old e v t' _ fuel hp (by simp) hP hs he hset _ _ _
    (by simpa using hf)
  · simp [slash, startsWith]
  · simp [hasPathChar, slash]
  · rw [renderPos_snoc_idx, tokenize_append_bracket _ e.text (hidden_cleanIdx e), ← renderPos_snoc_idx,
      show slash ++ renderPos (q0 ++ [Seg.idx i]) = '/' :: renderPos (q0 ++ [Seg.idx i]) from rfl,
      tokenize_render _ hp]

/-! ### a hidden index in the middle of a path -/

/-- `[i]` with `i = 0` or `i = -1` on a single value, followed by further steps: the search goes on AT the value
(item 0 of the hidden list is the value itself), `found` extended by `[i]` -/
theorem hidden_find_step (fuel : Nat) (root : Val) (entry rl : Bool) (P : Pos) (found tok e : Str) (i : Int) (old : Val)
    (rest : List Str) (hrest : rest ≠ [])
    (hP : getAt root P = some old) (hl : isList old = false) (hk : IdxTok tok e i) (hi : i = 0 ∨ i = -1) :
    findD (fuel + 1) root [] false entry (tok :: rest) (.at P) rl found
      = findD fuel root [] false false rest (.at P) rl (found ++ bracket (intStr i)) := by
  have hne : e.isEmpty = false := isEmpty_false_of_ne hk.ne
  have hr' : rest.isEmpty = false := isEmpty_false_of_ne hrest
  have hn := hidden_normIdx_one hi
  have hr : ¬ (i ≥ 1 ∨ i < -1) := by omega
  rw [findD]
  simp only [Bool.false_and, Bool.false_eq_true, if_false, valOf_at, hP, hk.split, List.isEmpty_nil,
    Idx.truthy, hne, Bool.not_false, Bool.and_false, Bool.not_true, hk.notNew, hk.notStar, hk.eval]
  simp only [not_or] at hr
  cases old <;> first | (simp [isList] at hl; done) | simp [hr.1, hr.2, hn, hr', childRef]

theorem FoundAt.shift {root : Val} {P p2 : Pos} {c : Val} {r : Res} (h : FoundAt root P p2 c r) :
    FoundAt root [] (P ++ p2) c r := by
  obtain ⟨hv, hnf, pp, s, pv, ni, rfl, hpar, hpv, hni, hname⟩ := h
  exact ⟨hv, hnf, P ++ pp, s, pv, ni, by simp, by simpa using hpar, by simpa using hpv, hni, hname⟩

/-- `[e]` (`e` denoting `0` / `-1`) on the single value `old` at `P`, then the plain path `p2` below `old`: the node
at `P ++ p2` is found, with its real parent -/
theorem hidden_mid_find (f : Nat) (root : Val) (en : Bool) (P p2 : Pos) (old c : Val) (e : IdxSp) (found : Str)
    (hP : getAt root P = some old) (hs : isList old = false) (he : e.val = 0 ∨ e.val = -1)
    (hp2 : PlainPos p2) (hne : p2 ≠ []) (hc : getAt old p2 = some c) (hf : f ≥ 2 * p2.length) :
    ∃ r, findD (f + 1) root [] false en (bracket e.text :: mergedToks p2) (.at P) true found = .ok (root, r) ∧
      FoundAt root [] (P ++ p2) c r := by
  have hlen := mergedToks_length_le p2
  rw [hidden_find_step f root en true P found _ _ _ old _ (mergedToks_ne_nil p2 hne) hP hs e.idxTok he]
  obtain ⟨r, hr, hfound⟩ := find_spells root true (spells_merged p2 old c hp2 hc) (mergedToks_ne_nil p2 hne) f P
    (found ++ bracket (intStr e.val)) false hP (by omega)
  exact ⟨r, hr, hfound.shift⟩

/-- a text followed by the rendering of a plain position that starts with a name -/
theorem tokenize_then_pos (T : Str) (k : Str) (rest : Pos) (hp : PlainPos (Seg.key k :: rest)) :
    tokenize (T ++ renderPos (Seg.key k :: rest)) = tokenize T ++ mergedToks (Seg.key k :: rest) := by
  have h1 : renderPos (Seg.key k :: rest) = '/' :: (k ++ renderPos rest) := by simp [renderPos, renderSeg]
  have h2 := tokenize_render (Seg.key k :: rest) hp
  change tokenize ('/' :: renderPos (Seg.key k :: rest)) = _ at h2
  rw [tokenize_slash, h1,
    tokenize_slash] at h2
  rw [h1, tokenize_append_slash, h2]

/-- **`…q…/name[e]/…p2…` with `e` denoting `0` / `-1`, `name` holding a value that is not a list (a dict), `p2` the
plain path of an existing node below it**: the hidden index in the middle changes nothing — the node at
`q ++ [name] ++ p2` is replaced -/
theorem setItem_hidden_middle (cls : Cls) (kvs : List (Str × Val)) (q : Pos) (kcls : Cls) (nkvs : List (Str × Val))
    (name : Str) (old : Val) (e : IdxSp) (k2 : Str) (p2 : Pos) (c v t' : Val) (fuel : Nat)
    (hp : PlainPos q) (hget : getAt (.dict cls kvs) q = some (.dict kcls nkvs)) (hn : PlainKey name)
    (hl : lookup name nkvs = some old) (hs : isList old = false) (he : e.val = 0 ∨ e.val = -1)
    (hp2 : PlainPos (Seg.key k2 :: p2)) (hc : getAt old (Seg.key k2 :: p2) = some c)
    (hset : setAt (.dict cls kvs) (q ++ [.key name] ++ Seg.key k2 :: p2) v = some t')
    (hf : fuel ≥ 2 * q.length + 2 * p2.length + 4) :
    setItem fuel (.dict cls kvs)
      (slash ++ renderPos q ++ slash ++ (name ++ bracket e.text) ++ renderPos (Seg.key k2 :: p2)) v = (t', .ok ()) := by
  have hP : getAt (.dict cls kvs) (q ++ [Seg.key name]) = some old := by
    rw [getAt_snoc, hget]; simp [child, hl]
  obtain ⟨f, en, hfl, hwalk⟩ := hidden_walk cls kvs q kcls nkvs name old e (mergedToks (Seg.key k2 :: p2)) fuel hp hget hn hl
    (by omega)
  obtain ⟨r, hr, hfound⟩ := hidden_mid_find f (.dict cls kvs) en (q ++ [Seg.key name]) (Seg.key k2 :: p2) old c e
    (slash ++ renderPos (q ++ [Seg.key name])) hP hs he hp2 (by simp) hc (by simp; omega)
  rw [hr] at hwalk
  have hpp : PlainPos (q ++ [Seg.key name] ++ Seg.key k2 :: p2) := (hp.append (show PlainPos [Seg.key name] from ⟨hn, trivial⟩)).append hp2
  have hst := storeAt_found (.dict cls kvs) _ c r v t' hfound hpp hset
  have hnf : r.notFound = Option.none := hfound.2.1
  have hhid : hiddenPlace fuel (.dict cls kvs) r = .ok r := by
    obtain ⟨_, _, pp, _, _, _, _, hpar, _⟩ := hfound
    exact hiddenPlace_at _ _ _ _ hpar
  have htok : tokenize (slash ++ renderPos q ++ slash ++ (name ++ bracket e.text) ++ renderPos (Seg.key k2 :: p2))
      = mergedToks q ++ (name ++ bracket e.text) :: mergedToks (Seg.key k2 :: p2) := by
    rw [tokenize_then_pos _ k2 p2 hp2]
    have := tokenize_elem_path q hp hn (hidden_cleanIdx e) [] (by simp)
    have h0 : renderPos (([] : List Str).map Seg.key) = [] := rfl
    rw [h0, List.append_nil] at this
    rw [this]; simp
  unfold setItem
  simp only [show startsWith (slash ++ renderPos q ++ slash ++ (name ++ bracket e.text) ++ renderPos (Seg.key k2 :: p2)) ['?']
      = false by simp [slash, startsWith, List.append_assoc],
    Bool.false_and, Bool.false_eq_true, if_false,
    show hasPathChar (slash ++ renderPos q ++ slash ++ (name ++ bracket e.text) ++ renderPos (Seg.key k2 :: p2)) = true by
      simp [hasPathChar, slash],
    if_true, htok, hwalk, hhid, hnf, List.isEmpty_nil, Bool.not_true, hst]

/-- **core of the middle case, any plain `P`**: tokens of `P`, the index token `[e]` (`0` / `-1`) on the single value at
`P`, then the tokens of the plain path `k2/p2` of an existing node below it -/
theorem setItem_hidden_middle_toks (cls : Cls) (kvs : List (Str × Val)) (P : Pos) (old : Val) (e : IdxSp) (k2 : Str)
    (p2 : Pos) (c v t' : Val) (xp : Str) (fuel : Nat)
    (hp : PlainPos P) (hP : getAt (.dict cls kvs) P = some old) (hs : isList old = false)
    (he : e.val = 0 ∨ e.val = -1) (hp2 : PlainPos (Seg.key k2 :: p2)) (hc : getAt old (Seg.key k2 :: p2) = some c)
    (hset : setAt (.dict cls kvs) (P ++ Seg.key k2 :: p2) v = some t')
    (hq : startsWith xp ['?'] = false) (hpc : hasPathChar xp = true)
    (htok : tokenize xp = mergedToks P ++ bracket e.text :: mergedToks (Seg.key k2 :: p2))
    (hf : fuel ≥ 2 * P.length + 2 * p2.length + 4) :
    setItem fuel (.dict cls kvs) xp v = (t', .ok ()) := by
  have hlen := mergedToks_length_le P
  obtain ⟨f', en, h1, _, hwalk⟩ := find_walk (.dict cls kvs) true (spellsF_merged P _ _ hp hP)
    (bracket e.text :: mergedToks (Seg.key k2 :: p2)) (by simp) fuel [] slash true rfl (by omega)
  obtain ⟨f, rfl⟩ : ∃ f, f' = f + 1 := ⟨f' - 1, by omega⟩
  rw [List.nil_append] at hwalk
  obtain ⟨r, hr, hfound⟩ := hidden_mid_find f (.dict cls kvs) en P (Seg.key k2 :: p2) old c e
    (slash ++ renderPos P) hP hs he hp2 (by simp) hc (by simp; omega)
  rw [hr] at hwalk
  have hst := storeAt_found (.dict cls kvs) _ c r v t' hfound (hp.append hp2) hset
  have hnf : r.notFound = Option.none := hfound.2.1
  have hhid : hiddenPlace fuel (.dict cls kvs) r = .ok r := by
    obtain ⟨_, _, pp, _, _, _, _, hpar, _⟩ := hfound
    exact hiddenPlace_at _ _ _ _ hpar
  unfold setItem
  simp only [hq, Bool.false_and, Bool.false_eq_true, if_false, hpc, if_true, htok, hwalk, hhid, hnf, List.isEmpty_nil,
    Bool.not_true, hst]

/-- **`…P…/[e]/k2/…p2…`: the hidden index as a step of its own in the middle of the path** (`o/[0]/p/q`; `P` may end in
a list element: `h[1]/[0]/p`) -/
theorem setItem_hidden_middle_own (cls : Cls) (kvs : List (Str × Val)) (P : Pos) (old : Val) (e : IdxSp) (k2 : Str)
    (p2 : Pos) (c v t' : Val) (fuel : Nat)
    (hp : PlainPos P) (hP : getAt (.dict cls kvs) P = some old) (hs : isList old = false)
    (he : e.val = 0 ∨ e.val = -1) (hp2 : PlainPos (Seg.key k2 :: p2)) (hc : getAt old (Seg.key k2 :: p2) = some c)
    (hset : setAt (.dict cls kvs) (P ++ Seg.key k2 :: p2) v = some t')
    (hf : fuel ≥ 2 * P.length + 2 * p2.length + 4) :
    setItem fuel (.dict cls kvs) (slash ++ renderPos P ++ slash ++ bracket e.text ++ renderPos (Seg.key k2 :: p2)) v
      = (t', .ok ()) := by
  apply setItem_hidden_middle_toks cls kvs P old e k2 p2 c v t' _ fuel hp hP hs he hp2 hc hset _ _ _ hf
  · simp [slash, startsWith, List.append_assoc]
  · simp [hasPathChar, slash]
  · rw [tokenize_then_pos _ k2 p2 hp2]
    have : slash ++ renderPos P ++ slash ++ bracket e.text = ('/' :: renderPos P) ++ '/' :: bracket e.text := by
      simp [slash]
    rw [this, tokenize_append_slash, tokenize_render P hp, tokenize_bracket _ (hidden_cleanIdx e)]
    simp

/-- **`…q0…[i][e]/k2/…p2…`: a hidden index on a list element in the middle of the path** (`h[1][0]/p`) -/
theorem setItem_hidden_middle_elem (cls : Cls) (kvs : List (Str × Val)) (q0 : Pos) (i : Nat) (old : Val) (e : IdxSp)
    (k2 : Str) (p2 : Pos) (c v t' : Val) (fuel : Nat)
    (hp : PlainPos (q0 ++ [Seg.idx i])) (hP : getAt (.dict cls kvs) (q0 ++ [Seg.idx i]) = some old)
    (hs : isList old = false) (he : e.val = 0 ∨ e.val = -1) (hp2 : PlainPos (Seg.key k2 :: p2))
    (hc : getAt old (Seg.key k2 :: p2) = some c)
    (hset : setAt (.dict cls kvs) (q0 ++ [Seg.idx i] ++ Seg.key k2 :: p2) v = some t')
    (hf : fuel ≥ 2 * (q0.length + 1) + 2 * p2.length + 4) :
    setItem fuel (.dict cls kvs)
      (slash ++ renderPos (q0 ++ [Seg.idx i]) ++ bracket e.text ++ renderPos (Seg.key k2 :: p2)) v = (t', .ok ()) := by
  apply setItem_hidden_middle_toks cls kvs (q0 ++ [Seg.idx i]) old e k2 p2 c v t' _ fuel hp hP hs he hp2 hc hset _ _ _
    (by simpa using hf)
  · simp [slash, startsWith]
  · simp [hasPathChar, slash]
  · rw [tokenize_then_pos _ k2 p2 hp2, renderPos_snoc_idx, tokenize_append_bracket _ e.text (hidden_cleanIdx e),
      ← renderPos_snoc_idx,
      show slash ++ renderPos (q0 ++ [Seg.idx i]) = '/' :: renderPos (q0 ++ [Seg.idx i]) from rfl,
      tokenize_render _ hp]
    simp

end N0.XPath
