import N0Verif.Model.CsvFile
import N0Verif.Props.C13
/-!
  Helper lemmas for C14: the file layer on files written by the `csv.writer` model, the record
  loop on lines that carry rows, the dict lemmas.  They rest on C13's `parse_rowStr`.
-/
namespace N0.CsvFile
open N0 N0.Py N0.Csv N0.C13

/-! ### line endings, characters of a written file -/

def LF : Str := ['\n']
def CRLF : Str := ['\r', '\n']

/-- the two line endings of the property -/
def Eol (e : Str) : Prop := e = LF ∨ e = CRLF

theorem Eol.isEol {e : Str} (h : Eol e) : IsEol e := by
  rcases h with h | h <;> subst h <;> intro c hc <;> simp [LF, CRLF] at hc
  · exact Or.inr hc
  · exact hc

theorem Eol.ne_nil {e : Str} (h : Eol e) : e ≠ [] := by
  rcases h with h | h <;> subst h <;> simp [LF, CRLF]

/-- the line without its terminator, as `csv.writer` writes it -/
def bodyOf (d : Char) (term : Str) (row : List Str) : Str :=
  join [d] (row.map (encWith (writerNeedsQuote d term (row.length == 1))))

theorem writerLine_eq (d : Char) (term : Str) (row : List Str) :
    writerLine d term row = bodyOf d term row ++ term := rfl

theorem bodyOf_nil (d : Char) (term : Str) : bodyOf d term [] = [] := rfl

theorem bodyOf_cons (d : Char) (term : Str) (f : Str) (fs : List Str) :
    bodyOf d term (f :: fs)
      = rowStr d (writerNeedsQuote d term ((f :: fs).length == 1)) f fs := by
  unfold bodyOf
  exact join_eq_rowStr d _ f fs

theorem bodyOf_mem (d : Char) (term : Str) (row : List Str) (c : Char)
    (h : c ∈ bodyOf d term row) : c = d ∨ c = '"' ∨ ∃ g ∈ row, c ∈ g := by
  cases row with
  | nil => simp [bodyOf_nil] at h
  | cons f fs =>
    rw [bodyOf_cons] at h
    exact rowStr_mem d _ f fs c h

theorem bodyOf_noBreak (d : Char) (hd : GoodDelim d) (term : Str) (row : List Str)
    (hf : ∀ g ∈ row, NoBreak g) : NoBreak (bodyOf d term row) := by
  constructor
  · intro h
    rcases bodyOf_mem d term row _ h with h | h | ⟨g, hg, hc⟩
    · exact hd.2.1 h.symm
    · exact absurd h (by decide)
    · exact (hf g hg).1 hc
  · intro h
    rcases bodyOf_mem d term row _ h with h | h | ⟨g, hg, hc⟩
    · exact hd.2.2 h.symm
    · exact absurd h (by decide)
    · exact (hf g hg).2 hc

theorem encWith_ne_nil_of (q : Str → Bool) (f : Str) (h : f = [] → q f = true) :
    encWith q f ≠ [] := by
  unfold encWith
  by_cases hq : q f = true
  · simp [hq, quoted]
  · simp only [hq]
    intro hf
    simp at hf
    exact hq (h hf)

/-- a non-empty row never produces an empty line (a single empty field is written as `""`) -/
theorem bodyOf_ne_nil (d : Char) (term : Str) (row : List Str) (hr : row ≠ []) :
    bodyOf d term row ≠ [] := by
  cases row with
  | nil => exact absurd rfl hr
  | cons f fs =>
    rw [bodyOf_cons]
    cases fs with
    | nil =>
      simp only [rowStr]
      apply encWith_ne_nil_of
      intro hf
      subst hf
      simp [writerNeedsQuote]
    | cons g gs =>
      simp only [rowStr]
      intro h
      have : d ∈ (encWith (writerNeedsQuote d term ((f :: g :: gs).length == 1)) f
          ++ d :: rowStr d (writerNeedsQuote d term ((f :: g :: gs).length == 1)) g gs) := by simp
      rw [h] at this
      simp at this

theorem any_congr_mem {α} (l : List α) (p q : α → Bool) (h : ∀ x ∈ l, p x = q x) :
    l.any p = l.any q := by
  induction l with
  | nil => rfl
  | cons x xs ih =>
    simp only [List.any_cons]
    rw [h x (by simp), ih (fun y hy => h y (by simp [hy]))]

theorem eol_contains_false (t : Str) (ht : IsEol t) (c : Char) (h1 : c ≠ '\r') (h2 : c ≠ '\n') :
    t.contains c = false := by
  cases hc : t.contains c with
  | false => rfl
  | true =>
    have : c ∈ t := by simpa using hc
    rcases ht c this with h | h
    · exact absurd h h1
    · exact absurd h h2

/-- the quoting decision does not depend on the line terminator when the field has no line break -/
theorem writerNeedsQuote_term (d : Char) (t t' : Str) (ht : IsEol t) (ht' : IsEol t') (single : Bool)
    (f : Str) (hf : NoBreak f) :
    writerNeedsQuote d t single f = writerNeedsQuote d t' single f := by
  unfold writerNeedsQuote
  congr 1
  apply any_congr_mem
  intro c hc
  have h1 : c ≠ '\r' := fun h => hf.1 (h ▸ hc)
  have h2 : c ≠ '\n' := fun h => hf.2 (h ▸ hc)
  rw [eol_contains_false t ht c h1 h2, eol_contains_false t' ht' c h1 h2]

theorem bodyOf_term (d : Char) (t t' : Str) (ht : IsEol t) (ht' : IsEol t') (row : List Str)
    (hf : ∀ g ∈ row, NoBreak g) : bodyOf d t row = bodyOf d t' row := by
  unfold bodyOf
  congr 1
  apply List.map_congr_left
  intro f hfm
  unfold encWith
  rw [writerNeedsQuote_term d t t' ht ht' _ f (hf f hfm)]

/-! ### the file layer on written files -/

theorem textLinesAux_body_lf (body rest : Str) (hb : NoBreak body) :
    textLinesAux false (body ++ '\n' :: rest) = (body ++ ['\n']) :: textLinesAux false rest := by
  induction body with
  | nil => simp [textLinesAux]
  | cons c body ih =>
    have h1 : c ≠ '\r' := fun h => hb.1 (by simp [h])
    have h2 : c ≠ '\n' := fun h => hb.2 (by simp [h])
    have hb' : NoBreak body := ⟨fun h => hb.1 (by simp [h]), fun h => hb.2 (by simp [h])⟩
    simp only [List.cons_append, textLinesAux, h1, h2, if_false]
    rw [ih hb']

theorem textLinesAux_body_crlf (body rest : Str) (hb : NoBreak body) :
    textLinesAux false (body ++ '\r' :: '\n' :: rest) = (body ++ ['\n']) :: textLinesAux false rest := by
  induction body with
  | nil => simp [textLinesAux]
  | cons c body ih =>
    have h1 : c ≠ '\r' := fun h => hb.1 (by simp [h])
    have h2 : c ≠ '\n' := fun h => hb.2 (by simp [h])
    have hb' : NoBreak body := ⟨fun h => hb.1 (by simp [h]), fun h => hb.2 (by simp [h])⟩
    simp only [List.cons_append, textLinesAux, h1, h2, if_false]
    rw [ih hb']

theorem textLines_body_eol (body rest e : Str) (he : Eol e) (hb : NoBreak body) :
    textLines (body ++ e ++ rest) = (body ++ ['\n']) :: textLines rest := by
  unfold textLines
  rcases he with h | h <;> subst h
  · simpa [LF] using textLinesAux_body_lf body rest hb
  · simpa [CRLF] using textLinesAux_body_crlf body rest hb

theorem binLines_body (body rest : Str) (hb : '\n' ∉ body) :
    binLines (body ++ '\n' :: rest) = (body ++ ['\n']) :: binLines rest := by
  induction body with
  | nil => simp [binLines]
  | cons c body ih =>
    have h2 : c ≠ '\n' := fun h => hb (by simp [h])
    have hb' : '\n' ∉ body := fun h => hb (by simp [h])
    simp only [List.cons_append, binLines, h2, if_false]
    rw [ih hb']

theorem binLines_body_eol (body rest e : Str) (he : Eol e) (hb : NoBreak body) :
    binLines (body ++ e ++ rest) = (body ++ e) :: binLines rest := by
  rcases he with h | h <;> subst h
  · simpa [LF] using binLines_body body rest hb.2
  · have := binLines_body (body ++ ['\r']) rest (by
      intro h
      simp at h
      exact hb.2 h)
    simpa [CRLF] using this

/-- rows whose cells have no line break -/
def NoBreakRows (rows : List (List Str)) : Prop := ∀ r ∈ rows, ∀ f ∈ r, NoBreak f

theorem NoBreakRows.tail {r : List Str} {rows : List (List Str)} (h : NoBreakRows (r :: rows)) :
    NoBreakRows rows := fun r' hr' => h r' (by simp [hr'])

theorem NoBreakRows.head {r : List Str} {rows : List (List Str)} (h : NoBreakRows (r :: rows)) :
    ∀ f ∈ r, NoBreak f := h r (by simp)

/-- text of a file: every row written by `csv.writer` -/
def written (d : Char) (eol : Str) (rows : List (List Str)) : Str :=
  rows.flatMap (writerLine d eol)

theorem textLines_written (d : Char) (hd : GoodDelim d) (eol : Str) (he : Eol eol)
    (rows : List (List Str)) (hc : NoBreakRows rows) :
    textLines (written d eol rows) = rows.map (fun r => bodyOf d LF r ++ ['\n']) := by
  induction rows with
  | nil => rfl
  | cons r rows ih =>
    have hr := hc.head
    simp only [written, List.flatMap_cons, List.map_cons, writerLine_eq]
    rw [textLines_body_eol _ _ _ he (bodyOf_noBreak d hd eol r hr)]
    rw [bodyOf_term d eol LF he.isEol (Eol.isEol (Or.inl rfl)) r hr]
    congr 1
    exact ih hc.tail

theorem binLines_written (d : Char) (hd : GoodDelim d) (eol : Str) (he : Eol eol)
    (rows : List (List Str)) (hc : NoBreakRows rows) :
    binLines (written d eol rows) = rows.map (fun r => bodyOf d LF r ++ eol) := by
  induction rows with
  | nil => rfl
  | cons r rows ih =>
    have hr := hc.head
    simp only [written, List.flatMap_cons, List.map_cons, writerLine_eq]
    rw [binLines_body_eol _ _ _ he (bodyOf_noBreak d hd eol r hr)]
    rw [bodyOf_term d eol LF he.isEol (Eol.isEol (Or.inl rfl)) r hr]
    congr 1
    exact ih hc.tail

theorem written_mem (d : Char) (eol : Str) (rows : List (List Str)) (c : Char)
    (h : c ∈ written d eol rows) :
    c = d ∨ c = '"' ∨ c ∈ eol ∨ ∃ r ∈ rows, ∃ g ∈ r, c ∈ g := by
  unfold written at h
  rw [List.mem_flatMap] at h
  obtain ⟨r, hr, hc⟩ := h
  rw [writerLine_eq, List.mem_append] at hc
  rcases hc with hc | hc
  · rcases bodyOf_mem d eol r c hc with h | h | ⟨g, hg, hcg⟩
    · exact Or.inl h
    · exact Or.inr (Or.inl h)
    · exact Or.inr (Or.inr (Or.inr ⟨r, hr, g, hg, hcg⟩))
  · exact Or.inr (Or.inr (Or.inl hc))

theorem decodeSig_bom (s : Str) : decodeSig (bomChar :: s) = s := by
  simp [decodeSig]

theorem decodeSig_of_not_mem (s : Str) (h : bomChar ∉ s) : decodeSig s = s := by
  cases s with
  | nil => rfl
  | cons c r =>
    have : c ≠ bomChar := fun hc => h (by simp [hc])
    simp [decodeSig, this]

/-- no U+FEFF inside the cells -/
def NoBomRows (rows : List (List Str)) : Prop := ∀ r ∈ rows, ∀ f ∈ r, bomChar ∉ f

theorem bom_not_mem_written (d : Char) (hdb : d ≠ bomChar) (eol : Str) (he : Eol eol)
    (rows : List (List Str)) (hb : NoBomRows rows) : bomChar ∉ written d eol rows := by
  intro h
  rcases written_mem d eol rows _ h with h | h | h | ⟨r, hr, g, hg, hc⟩
  · exact hdb h.symm
  · exact absurd h (by decide)
  · rcases he.isEol _ h with h | h <;> exact absurd h (by decide)
  · exact hb r hr g hg hc

/-- the content of the file: optional BOM, then the written rows -/
def withBom (bom : Bool) (s : Str) : Str := if bom then bomChar :: s else s

theorem physLines_text (d : Char) (hd : GoodDelim d) (hdb : d ≠ bomChar) (eol : Str) (he : Eol eol)
    (bom : Bool) (rows : List (List Str)) (hc : NoBreakRows rows) (hb : NoBomRows rows) :
    physLines false (withBom bom (written d eol rows))
      = rows.map (fun r => bodyOf d LF r ++ ['\n']) := by
  unfold physLines withBom
  simp only [Bool.false_eq_true, if_false]
  cases bom with
  | true =>
    simp only [if_true, decodeSig_bom]
    exact textLines_written d hd eol he rows hc
  | false =>
    simp only [Bool.false_eq_true, if_false]
    rw [decodeSig_of_not_mem _ (bom_not_mem_written d hdb eol he rows hb)]
    exact textLines_written d hd eol he rows hc

theorem physLines_bin (d : Char) (hd : GoodDelim d) (eol : Str) (he : Eol eol)
    (rows : List (List Str)) (hc : NoBreakRows rows) :
    physLines true (written d eol rows) = rows.map (fun r => bodyOf d LF r ++ eol) := by
  unfold physLines
  simp only [if_true]
  exact binLines_written d hd eol he rows hc

/-! ### dict lemmas -/

def keys (r : Record) : List Key := r.map Prod.fst

theorem dictSet_fresh (k : Key) (v : Option Str) (r : Record) (h : k ∉ keys r) :
    dictSet k v r = r ++ [(k, v)] := by
  induction r with
  | nil => rfl
  | cons kv r ih =>
    obtain ⟨k', v'⟩ := kv
    have hne : k' ≠ k := fun e => h (by simp [keys, e])
    have hr : k ∉ keys r := fun e => h (by simp [keys] at e ⊢; exact Or.inr e)
    simp [dictSet, hne, ih hr]

theorem foldl_dictSet_nodup (acc ps : Record)
    (hnd : (keys ps).Nodup) (hdis : ∀ k ∈ keys ps, k ∉ keys acc) :
    ps.foldl (fun d kv => dictSet kv.1 kv.2 d) acc = acc ++ ps := by
  induction ps generalizing acc with
  | nil => simp
  | cons kv ps ih =>
    obtain ⟨k, v⟩ := kv
    simp only [keys, List.map_cons, List.nodup_cons] at hnd
    simp only [List.foldl_cons]
    rw [dictSet_fresh k v acc (hdis k (by simp [keys]))]
    rw [ih (acc ++ [(k, v)]) hnd.2]
    · simp
    · intro k' hk'
      simp only [keys, List.map_append, List.map_cons, List.map_nil, List.mem_append,
        List.mem_singleton, not_or]
      constructor
      · exact hdis k' (by simp [keys] at hk' ⊢; exact Or.inr hk')
      · intro e
        subst e
        exact hnd.1 hk'

/-- building a dict from pairs with distinct keys keeps the pairs -/
theorem dictOf_nodup (ps : Record) (h : (keys ps).Nodup) : dictOf ps = ps := by
  unfold dictOf
  rw [foldl_dictSet_nodup [] ps h (by simp [keys])]
  simp

theorem keys_zipPad (names : List Key) (cells : List Str) : keys (zipPad names cells) = names := by
  induction names generalizing cells with
  | nil => simp [zipPad, keys]
  | cons k ks ih =>
    cases cells with
    | nil =>
      have := ih []
      simp only [keys] at this ⊢
      simp [zipPad, this]
    | cons c cs =>
      have := ih cs
      simp only [keys] at this ⊢
      simp [zipPad, this]

theorem dictOf_zipPad (names : List Key) (cells : List Str) (h : names.Nodup) :
    dictOf (zipPad names cells) = zipPad names cells :=
  dictOf_nodup _ (by rw [keys_zipPad]; exact h)

theorem project_nodup (cn : List Key) (d : Record) (h : cn.Nodup) :
    project cn d = cn.map (fun k => (k, dictGet k d)) := by
  unfold project
  apply dictOf_nodup
  simp only [keys, List.map_map]
  have : (Prod.fst ∘ fun k => (k, dictGet k d)) = id := by funext k; rfl
  rw [this, List.map_id]
  exact h

theorem nodup_map_name (l : List Str) (h : l.Nodup) : (l.map Key.name).Nodup := by
  induction l with
  | nil => simp
  | cons x xs ih =>
    rw [List.nodup_cons] at h
    simp only [List.map_cons, List.nodup_cons]
    refine ⟨?_, ih h.2⟩
    intro hm
    rw [List.mem_map] at hm
    obtain ⟨y, hy, e⟩ := hm
    cases e
    exact h.1 hy

theorem nodup_positions (n : Nat) : (positions n).Nodup := by
  unfold positions
  have h := @List.nodup_range n
  generalize List.range n = l at h
  induction l with
  | nil => simp
  | cons x xs ih =>
    rw [List.nodup_cons] at h
    simp only [List.map_cons, List.nodup_cons]
    refine ⟨?_, ih h.2⟩
    intro hm
    rw [List.mem_map] at hm
    obtain ⟨y, hy, e⟩ := hm
    cases e
    exact h.1 hy

theorem hasDup_eq_false (l : List Str) : hasDup l = false ↔ l.Nodup := by
  induction l with
  | nil => simp [hasDup]
  | cons x xs ih =>
    simp only [hasDup, Bool.or_eq_false_iff, List.nodup_cons, ih]
    constructor
    · rintro ⟨h1, h2⟩
      exact ⟨by simpa using h1, h2⟩
    · rintro ⟨h1, h2⟩
      exact ⟨by simpa using h1, h2⟩

theorem map_name_injective (a b : List Str) (h : a.map Key.name = b.map Key.name) : a = b := by
  induction a generalizing b with
  | nil => cases b <;> simp_all
  | cons x xs ih =>
    cases b with
    | nil => simp at h
    | cons y ys =>
      simp only [List.map_cons, List.cons.injEq, Key.name.injEq] at h
      rw [h.1, ih ys h.2]

/-! ### lines that carry rows -/

/-- `Lines o ls rows`: the physical lines `ls` carry exactly the rows `rows`, in order, with
blank lines anywhere in between (blank = empty after `process_line(line.rstrip(CRLF))`) -/
inductive Lines (o : Opts) : List Str → List (List Str) → Prop
  | nil : Lines o [] []
  | blank (l : Str) (ls : List Str) (rows : List (List Str)) :
      l ≠ [] → procLine o l = [] → Lines o ls rows → Lines o (l :: ls) rows
  | row (l : Str) (ls : List Str) (r : List Str) (rows : List (List Str)) :
      l ≠ [] → procLine o l ≠ [] → parseLine o (procLine o l) = .ok r →
      Lines o ls rows → Lines o (l :: ls) (r :: rows)

/-- the record of one data line -/
def recOf (o : Opts) (names cn : List Key) (cells : List Str) : Record :=
  let d := dictOf (zipPad names cells)
  if !o.returnUnknown && cn != names then project cn d else d

/-- the records of a result, without the optional original lines -/
def records (r : PyM (List Item)) : PyM (List Record) :=
  match r with
  | .ok items => .ok (items.map Item.row)
  | .error e => .error e

theorem readRows_lines (o : Opts) (hse : o.skipEmpty = true) (names cn : List Key)
    (ls : List Str) (rows : List (List Str)) (h : Lines o ls rows) :
    records (readRows o names cn ls) = .ok (rows.map (recOf o names cn)) := by
  induction h with
  | nil => rfl
  | blank l ls rows hl hb _ ih =>
    have hl' : l.isEmpty = false := by cases l <;> simp_all
    simp only [readRows, hl', hb, hse, Bool.false_eq_true, if_false, List.isEmpty_nil, Bool.and_self,
      if_true]
    exact ih
  | row l ls r rows hl hb hp _ ih =>
    have hl' : l.isEmpty = false := by cases l <;> simp_all
    have hb' : (procLine o l).isEmpty = false := by
      cases hx : procLine o l with
      | nil => exact absurd hx hb
      | cons _ _ => rfl
    simp only [readRows, hl', hb', hp, Bool.false_eq_true, if_false, Bool.and_false]
    cases hrr : readRows o names cn ls with
    | error e => rw [hrr] at ih; simp [records] at ih
    | ok tl =>
      rw [hrr] at ih
      simp only [records, Except.ok.injEq] at ih
      simp [records, bind, Except.bind, pure, Except.pure, recOf, ih]

theorem skipBlank_lines (o : Opts) (ls : List Str) (h : List Str) (rows : List (List Str))
    (hl : Lines o ls (h :: rows)) :
    ∃ first rest, skipBlank o ls = some (first, procLine o first, rest)
      ∧ parseLine o (procLine o first) = .ok h ∧ Lines o rest rows
      ∧ Lines o (first :: rest) (h :: rows) := by
  generalize hr : h :: rows = all at hl
  induction hl with
  | nil => cases hr
  | blank l ls rows' hl hb _ ih =>
    obtain ⟨first, rest, h1, h2, h3, h4⟩ := ih hr
    have hl' : l.isEmpty = false := by cases l <;> simp_all
    exact ⟨first, rest, by simp [skipBlank, hl', hb, h1], h2, h3, h4⟩
  | row l ls r rows' hl hb hp hrest _ =>
    cases hr
    have hl' : l.isEmpty = false := by cases l <;> simp_all
    have hb' : (procLine o l).isEmpty = false := by
      cases hx : procLine o l with
      | nil => exact absurd hx hb
      | cons _ _ => rfl
    exact ⟨l, ls, by simp [skipBlank, hl', hb'], hp, hrest, Lines.row l ls _ _ hl hb hp hrest⟩

theorem skipBlank_none (o : Opts) (ls : List Str) (hl : Lines o ls []) : skipBlank o ls = none := by
  generalize hr : ([] : List (List Str)) = all at hl
  induction hl with
  | nil => rfl
  | blank l ls rows' hl hb _ ih =>
    have hl' : l.isEmpty = false := by cases l <;> simp_all
    simp [skipBlank, hl', hb, ih hr]
  | row l ls r rows' hl hb hp hrest _ => cases hr

/-- the names used when the first line is data -/
def dataNames (n : Norm) (cells : List Str) : List Key :=
  match n.cn with
  | some c => c.map Key.name
  | none => positions cells.length

/-- the column selection when the first line is the header -/
def headerCn (n : Norm) (cells : List Str) : List Key :=
  match n.cn with
  | some c => c.map Key.name
  | none => cells.map Key.name

/-- **master lemma of the line layer**: what `load_csv` returns on lines that carry the rows
`h :: rows`, in terms of the header decision on `h` -/
theorem loadLines_spec (o : Opts) (hse : o.skipEmpty = true) (n : Norm) (hn : normalise o = .ok n)
    (ls : List Str) (h : List Str) (rows : List (List Str)) (hl : Lines o ls (h :: rows)) :
    records (loadLines o ls) =
      match headerDecision n o h with
      | .error e => .error e
      | .ok none => .ok []
      | .ok (some false) => .ok ((h :: rows).map (recOf o (dataNames n h) (dataNames n h)))
      | .ok (some true) =>
        if n.mand && hasDup h then .error .KeyError
        else .ok (rows.map (recOf o (h.map Key.name) (headerCn n h))) := by
  obtain ⟨first, rest, h1, h2, h3, h4⟩ := skipBlank_lines o ls h rows hl
  unfold loadLines
  simp only [hn, bind, Except.bind, h1, h2]
  cases hd : headerDecision n o h with
  | error e => simp [records]
  | ok dec =>
    cases dec with
    | none => simp [records, pure, Except.pure]
    | some b =>
      cases b with
      | false =>
        simp only []
        exact readRows_lines o hse _ _ _ _ h4
      | true =>
        simp only []
        by_cases hk : (n.mand && hasDup h) = true
        · simp [hk, records, throw, throwThe, MonadExceptOf.throw]
        · simp only [hk, Bool.false_eq_true, if_false]
          exact readRows_lines o hse _ _ _ _ h3

theorem loadLines_empty (o : Opts) (n : Norm) (hn : normalise o = .ok n)
    (ls : List Str) (hl : Lines o ls []) : loadLines o ls = .error .EOFError := by
  unfold loadLines
  simp [hn, bind, Except.bind, skipBlank_none o ls hl, throw, throwThe, MonadExceptOf.throw]

/-! ### written files carry their rows -/

/-- options under which a line is read exactly as written: the table's delimiter, blank lines
skipped (the default), no stripping -/
structure Plain (o : Opts) (d : Char) : Prop where
  delim : o.delim = d
  skip : o.skipEmpty = true
  sl : o.stripLine = false
  sf : o.stripField = false

/-- the data rows of a table: `csv.writer` writes an empty row as a blank line -/
def dataRows (rows : List (List Str)) : List (List Str) := rows.filter (fun r => !r.isEmpty)

theorem rstrip_crlf_append (body t : Str) (hb : NoBreak body) (ht : IsEol t) :
    rstrip crlf (body ++ t) = body := by
  apply rstrip_append
  · intro c hc
    rcases ht c hc with h | h <;> simp [crlf, h]
  · intro c hc
    have hmem : c ∈ body := List.mem_of_getLast? hc
    have h1 : c ≠ '\r' := fun h => hb.1 (h ▸ hmem)
    have h2 : c ≠ '\n' := fun h => hb.2 (h ▸ hmem)
    simp [crlf, h1, h2]

theorem procLine_plain (o : Opts) (d : Char) (hp : Plain o d) (body t : Str) (hb : NoBreak body)
    (ht : IsEol t) : procLine o (body ++ t) = body := by
  unfold procLine
  simp only [hp.sl, Bool.false_eq_true, if_false]
  exact rstrip_crlf_append body t hb ht

theorem parseLine_body (o : Opts) (d : Char) (hd : GoodDelim d) (hp : Plain o d) (t : Str)
    (f : Str) (fs : List Str) (hf : ∀ g ∈ f :: fs, NoBreak g) :
    parseLine o (bodyOf d t (f :: fs)) = .ok (f :: fs) := by
  unfold parseLine
  rw [hp.delim, bodyOf_cons]
  have := parse_rowStr d hd _ (writer_adequate d t ((f :: fs).length == 1)) f fs hf [] (by intro c hc; simp at hc)
  rw [List.append_nil] at this
  rw [this]
  simp [hp.sf, bind, Except.bind, pure, Except.pure]

theorem lines_written (o : Opts) (d : Char) (hd : GoodDelim d) (hp : Plain o d)
    (t : Str) (ht : IsEol t) (htn : t ≠ []) (rows : List (List Str)) (hc : NoBreakRows rows) :
    Lines o (rows.map (fun r => bodyOf d LF r ++ t)) (dataRows rows) := by
  induction rows with
  | nil => exact Lines.nil
  | cons r rows ih =>
    have hr := hc.head
    have ih' := ih hc.tail
    have hnb := bodyOf_noBreak d hd LF r hr
    have hne : bodyOf d LF r ++ t ≠ [] := by simp [htn]
    have hpl := procLine_plain o d hp _ t hnb ht
    cases r with
    | nil =>
      simp only [List.map_cons, dataRows, List.filter_cons, List.isEmpty_nil, Bool.not_true,
        Bool.false_eq_true, if_false]
      refine Lines.blank _ _ _ hne ?_ ih'
      rw [hpl]; rfl
    | cons f fs =>
      simp only [List.map_cons, dataRows, List.filter_cons, List.isEmpty_cons, Bool.not_false,
        if_true]
      refine Lines.row _ _ _ _ hne ?_ ?_ ih'
      · rw [hpl]; exact bodyOf_ne_nil d LF _ (by simp)
      · rw [hpl]; exact parseLine_body o d hd hp LF f fs hr

/-- the decision table applied to a table (`h` = first data row of the file, `rows` = the rest) -/
def outcome (o : Opts) (n : Norm) (h : List Str) (rows : List (List Str)) : PyM (List Record) :=
  match headerDecision n o h with
  | .error e => .error e
  | .ok none => .ok []
  | .ok (some false) => .ok ((h :: rows).map (recOf o (dataNames n h) (dataNames n h)))
  | .ok (some true) =>
    if n.mand && hasDup h then .error .KeyError
    else .ok (rows.map (recOf o (h.map Key.name) (headerCn n h)))

theorem loadLines_outcome (o : Opts) (hse : o.skipEmpty = true) (n : Norm) (hn : normalise o = .ok n)
    (ls : List Str) (h : List Str) (rows : List (List Str)) (hl : Lines o ls (h :: rows)) :
    records (loadLines o ls) = outcome o n h rows :=
  loadLines_spec o hse n hn ls h rows hl

/-- text mode, any line ending, with or without BOM -/
theorem loadCsv_text_written (o : Opts) (hb : o.binary = false) (d : Char) (hd : GoodDelim d)
    (hdb : d ≠ bomChar) (hp : Plain o d) (eol : Str) (he : Eol eol) (bom : Bool)
    (all : List (List Str)) (hc : NoBreakRows all) (hbm : NoBomRows all)
    (n : Norm) (hn : normalise o = .ok n) (h : List Str) (rows : List (List Str))
    (hall : dataRows all = h :: rows) :
    records (loadCsv o (withBom bom (written d eol all))) = outcome o n h rows := by
  unfold loadCsv
  rw [hb, physLines_text d hd hdb eol he bom all hc hbm]
  apply loadLines_outcome o hp.skip n hn
  rw [← hall]
  exact lines_written o d hd hp ['\n'] (Eol.isEol (Or.inl rfl)) (by simp) all hc

/-- binary mode (no BOM) -/
theorem loadCsv_bin_written (o : Opts) (hb : o.binary = true) (d : Char) (hd : GoodDelim d)
    (hp : Plain o d) (eol : Str) (he : Eol eol)
    (all : List (List Str)) (hc : NoBreakRows all)
    (n : Norm) (hn : normalise o = .ok n) (h : List Str) (rows : List (List Str))
    (hall : dataRows all = h :: rows) :
    records (loadCsv o (written d eol all)) = outcome o n h rows := by
  unfold loadCsv
  rw [hb, physLines_bin d hd eol he all hc]
  apply loadLines_outcome o hp.skip n hn
  rw [← hall]
  exact lines_written o d hd hp eol he.isEol he.ne_nil all hc

theorem loadCsv_text_empty (o : Opts) (hb : o.binary = false) (d : Char) (hd : GoodDelim d)
    (hdb : d ≠ bomChar) (hp : Plain o d) (eol : Str) (he : Eol eol) (bom : Bool)
    (all : List (List Str)) (hc : NoBreakRows all) (hbm : NoBomRows all)
    (n : Norm) (hn : normalise o = .ok n) (hall : dataRows all = []) :
    loadCsv o (withBom bom (written d eol all)) = .error .EOFError := by
  unfold loadCsv
  rw [hb, physLines_text d hd hdb eol he bom all hc hbm]
  apply loadLines_empty o n hn
  rw [← hall]
  exact lines_written o d hd hp ['\n'] (Eol.isEol (Or.inl rfl)) (by simp) all hc

/-! ### records in closed form -/

/-- the cell of `row` in the column called `c` of the header `hdr`; `none` when the row is too
short (or there is no such column) -/
def cellAt : List Str → List Str → Str → Option Str
  | [], _, _ => none
  | _ :: _, [], _ => none
  | h :: hs, x :: xs, c => if h = c then some x else cellAt hs xs c

theorem dictGet_zipPad (h : List Str) (r : List Str) (c : Str) :
    dictGet (Key.name c) (zipPad (h.map Key.name) r) = cellAt h r c := by
  induction h generalizing r with
  | nil => simp [zipPad, dictGet, cellAt]
  | cons x xs ih =>
    cases r with
    | nil =>
      simp only [List.map_cons, zipPad, dictGet, cellAt, Key.name.injEq]
      have := ih []
      split
      · rfl
      · rw [this]; cases xs <;> simp [cellAt]
    | cons y ys =>
      simp only [List.map_cons, zipPad, dictGet, cellAt, Key.name.injEq]
      rw [ih ys]

theorem zipPad_eq_cellAt (h : List Str) (hn : h.Nodup) (r : List Str) :
    zipPad (h.map Key.name) r = h.map (fun c => (Key.name c, cellAt h r c)) := by
  induction h generalizing r with
  | nil => simp [zipPad]
  | cons x xs ih =>
    rw [List.nodup_cons] at hn
    have hne : ∀ c ∈ xs, x ≠ c := fun c hc e => hn.1 (e ▸ hc)
    cases r with
    | nil =>
      simp only [List.map_cons, zipPad, cellAt]
      rw [ih hn.2 []]
      congr 1
      apply List.map_congr_left
      intro c hc
      cases xs <;> simp [cellAt]
    | cons y ys =>
      simp only [List.map_cons, zipPad, cellAt, if_true]
      rw [ih hn.2 ys]
      congr 1
      apply List.map_congr_left
      intro c hc
      simp [hne c hc]

theorem recOf_same (o : Opts) (names : List Key) (hn : names.Nodup) (cells : List Str) :
    recOf o names names cells = zipPad names cells := by
  unfold recOf
  simp [dictOf_zipPad names cells hn]

/-- selection of the columns `sel` (in that order) out of the header `h` -/
theorem recOf_select (o : Opts) (hru : o.returnUnknown = false) (h sel : List Str)
    (hh : h.Nodup) (hs : sel.Nodup) (cells : List Str) :
    recOf o (h.map Key.name) (sel.map Key.name) cells
      = sel.map (fun c => (Key.name c, cellAt h cells c)) := by
  by_cases e : sel = h
  · subst e
    rw [recOf_same o _ (nodup_map_name sel hs), zipPad_eq_cellAt sel hs]
  · have hne : (sel.map Key.name != h.map Key.name) = true := by
      simp only [bne_iff_ne, ne_eq]
      intro hm
      exact e (map_name_injective _ _ hm)
    unfold recOf
    simp only [hru, Bool.not_false, Bool.true_and, hne, if_true]
    rw [dictOf_zipPad _ _ (nodup_map_name h hh), project_nodup _ _ (nodup_map_name sel hs)]
    rw [List.map_map]
    apply List.map_congr_left
    intro c _
    simp [dictGet_zipPad]

theorem dataRows_cons_ne (r : List Str) (rows : List (List Str)) (h : r ≠ []) :
    dataRows (r :: rows) = r :: dataRows rows := by
  cases r with
  | nil => exact absurd rfl h
  | cons _ _ => simp [dataRows]

theorem saveCsv_header (d : Char) (eol : Str) (hdr : List Str) (rows : List (List Str))
    (h : hdr ≠ []) : saveCsv d eol (some hdr) rows = written d eol (hdr :: rows) := by
  cases hdr with
  | nil => exact absurd rfl h
  | cons _ _ => simp [saveCsv, written]

theorem saveCsv_none (d : Char) (eol : Str) (rows : List (List Str)) :
    saveCsv d eol none rows = written d eol rows := by
  simp [saveCsv, written]

/-! ### the documented option modes (they are part of the statements of `Props/C14.lean`) -/

/-- the documented ways of taking the header **from the file** (`column_names` not given) -/
inductive FromFile (o : Opts) (hdr : List Str) : Prop
  /-- `header_is_mandatory=True` -/
  | mandatory : o.containsHeader = .none → o.mandatory = .bool true → FromFile o hdr
  /-- legacy `contains_header=True`, `header_is_mandatory` left at `None` (fix C14-a) or `True` -/
  | legacy : o.containsHeader = .bool true → (o.mandatory = .none ∨ o.mandatory = .bool true) →
      FromFile o hdr
  /-- `contains_header="<first column name>"` -/
  | first (s : Str) : o.containsHeader = .str s → s ≠ [] → hdr.head? = some s →
      o.mandatory ≠ .other → FromFile o hdr
  /-- `contains_header=[mandatory names]`, all of them in the header -/
  | names (l : List Str) : o.containsHeader = .list l → l ≠ [] → l.Nodup → (∀ m ∈ l, m ∈ hdr) →
      o.mandatory ≠ .other → FromFile o hdr

theorem fromFile_norm (o : Opts) (hdr : List Str) (hcn : o.columnNames = .none)
    (hm : FromFile o hdr) :
    ∃ n, normalise o = .ok n ∧ n.cn = none ∧ headerDecision n o hdr = .ok (some true) := by
  cases hm with
  | mandatory h1 h2 =>
    refine ⟨{ mand := true, cn := none, ch := .none }, ?_, rfl, ?_⟩
    · simp [normalise, hcn, h1, h2, bind, Except.bind, pure, Except.pure, mandDefault, cnAsCh]
    · simp [headerDecision, pure, Except.pure]
  | legacy h1 h2 =>
    refine ⟨{ mand := true, cn := none, ch := .none }, ?_, rfl, ?_⟩
    · rcases h2 with h2 | h2 <;>
        simp [normalise, hcn, h1, h2, bind, Except.bind, pure, Except.pure, cnAsCh]
    · simp [headerDecision, pure, Except.pure]
  | first s h1 h2 h3 h4 =>
    refine ⟨{ mand := mandDefault o.mandatory, cn := none, ch := .str s }, ?_, rfl, ?_⟩
    · cases s with
      | nil => exact absurd rfl h2
      | cons c cs =>
        simp [normalise, hcn, h1, h4, bind, Except.bind, pure, Except.pure]
    · cases hdr with
      | nil => simp at h3
      | cons x xs =>
        simp at h3
        subst h3
        cases x with
        | nil => exact absurd rfl h2
        | cons _ _ => simp [headerDecision, pure, Except.pure]
  | names l h1 h2 h3 h5 h4 =>
    refine ⟨{ mand := mandDefault o.mandatory, cn := none, ch := .list l }, ?_, rfl, ?_⟩
    · cases l with
      | nil => exact absurd rfl h2
      | cons c cs =>
        have hd : hasDup (c :: cs) = false := (hasDup_eq_false _).2 h3
        simp [normalise, hcn, h1, h4, hd, bind, Except.bind, pure, Except.pure]
    · cases l with
      | nil => exact absurd rfl h2
      | cons c cs =>
        have : (c :: cs).any (fun m => !hdr.contains m) = false := by
          rw [List.any_eq_false]
          intro m hm
          simp [h5 m hm]
        simp only [headerDecision, List.isEmpty_cons, Bool.false_eq_true, if_false, this]
        rfl


/-- header given by the caller **and** present in the file: `column_names = sel` (unique names, all
in the file's header), optionally with a consistent `contains_header` -/
inductive Given (o : Opts) (sel hdr : List Str) : Prop
  /-- `column_names=sel` alone, or with legacy `contains_header=True`/`header_is_mandatory=True` -/
  | plain : o.columnNames = .list sel →
      (o.containsHeader = .none ∨ o.containsHeader = .bool (mandDefault o.mandatory)
        ∨ (o.containsHeader = .bool true ∧ o.mandatory = .none)) →
      o.mandatory ≠ .other → Given o sel hdr

theorem given_norm (o : Opts) (sel hdr : List Str) (hs : sel ≠ []) (hnd : sel.Nodup)
    (hsub : ∀ m ∈ sel, m ∈ hdr) (hm : Given o sel hdr) :
    ∃ n, normalise o = .ok n ∧ n.cn = some sel ∧ headerDecision n o hdr = .ok (some true) := by
  cases hm with
  | plain h1 h2 h3 =>
    cases sel with
    | nil => exact absurd rfl hs
    | cons c cs =>
      have hd : hasDup (c :: cs) = false := (hasDup_eq_false _).2 hnd
      have hany : (c :: cs).any (fun m => !hdr.contains m) = false := by
        rw [List.any_eq_false]
        intro m hm
        simp [hsub m hm]
      have hdec : ∀ b, headerDecision { mand := b, cn := some (c :: cs), ch := .list (c :: cs) } o hdr
          = .ok (some true) := by
        intro b
        simp only [headerDecision, List.isEmpty_cons, Bool.false_eq_true, if_false, hany]
        rfl
      rcases h2 with h2 | h2 | ⟨h2, h4⟩
      · refine ⟨{ mand := mandDefault o.mandatory, cn := some (c :: cs), ch := .list (c :: cs) }, ?_, rfl, hdec _⟩
        simp [normalise, h1, h2, h3, hd, bind, Except.bind, pure, Except.pure, cnAsCh]
      · refine ⟨{ mand := mandDefault o.mandatory, cn := some (c :: cs), ch := .list (c :: cs) }, ?_, rfl, hdec _⟩
        cases hmm : o.mandatory with
        | other => exact absurd hmm h3
        | none => simp [normalise, h1, h2, hmm, hd, bind, Except.bind, pure, Except.pure, cnAsCh, mandDefault]
        | bool b => simp [normalise, h1, h2, hmm, hd, bind, Except.bind, pure, Except.pure, cnAsCh, mandDefault]
      · refine ⟨{ mand := true, cn := some (c :: cs), ch := .list (c :: cs) }, ?_, rfl, hdec _⟩
        simp [normalise, h1, h2, h4, hd, bind, Except.bind, pure, Except.pure, cnAsCh]

/-- no header is announced: nothing given, or legacy `contains_header=False`, or
`header_is_mandatory=False` -/
def NoHeaderOpts (o : Opts) : Prop :=
  o.columnNames = .none ∧ (o.containsHeader = .none ∨ o.containsHeader = .bool false)
    ∧ (o.mandatory = .none ∨ o.mandatory = .bool false)

theorem noHeader_norm (o : Opts) (h : NoHeaderOpts o) (first : List Str) :
    ∃ n, normalise o = .ok n ∧ n.cn = none ∧ headerDecision n o first = .ok (some false) := by
  obtain ⟨h1, h2, h3⟩ := h
  refine ⟨{ mand := false, cn := none, ch := .none }, ?_, rfl, ?_⟩
  · rcases h2 with h2 | h2 <;> rcases h3 with h3 | h3 <;>
      simp [normalise, h1, h2, h3, bind, Except.bind, pure, Except.pure, cnAsCh, mandDefault]
  · simp [headerDecision, pure, Except.pure]

/-- names given by the caller (`column_names = names`, unique), with `mand` as the value of
`header_is_mandatory` (`none` = left at its default) and nothing else about the header -/
def NamesOnly (o : Opts) (names : List Str) (mand : MandArg) : Prop :=
  o.columnNames = .list names ∧ o.containsHeader = .none ∧ o.mandatory = mand

theorem namesOnly_norm (o : Opts) (names : List Str) (mand : MandArg) (hm : mand ≠ .other)
    (hs : names ≠ []) (hnd : names.Nodup) (h : NamesOnly o names mand) :
    normalise o = .ok { mand := mandDefault mand, cn := some names, ch := .list names } := by
  obtain ⟨h1, h2, h3⟩ := h
  cases names with
  | nil => exact absurd rfl hs
  | cons c cs =>
    have hd : hasDup (c :: cs) = false := (hasDup_eq_false _).2 hnd
    subst h3
    simp [normalise, h1, h2, hm, hd, bind, Except.bind, pure, Except.pure, cnAsCh]

/-- the first line lacks one of the expected names -/
theorem headerDecision_missing (o : Opts) (b : Bool) (names first : List Str) (hs : names ≠ [])
    (hmiss : ∃ m ∈ names, m ∉ first) :
    headerDecision { mand := b, cn := some names, ch := .list names } o first
      = if b then (if o.raiseExc then .error .ReferenceError else .ok none) else .ok (some false) := by
  have hany : names.any (fun m => !first.contains m) = true := by
    rw [List.any_eq_true]
    obtain ⟨m, hm, hnm⟩ := hmiss
    exact ⟨m, hm, by simp [hnm]⟩
  cases names with
  | nil => exact absurd rfl hs
  | cons c cs =>
    simp only [headerDecision, List.isEmpty_cons, Bool.false_eq_true, if_false, hany, if_true]
    cases b <;> cases o.raiseExc <;> rfl

/-! ### the outcome in closed form -/

theorem outcome_header (o : Opts) (n : Norm) (h : List Str) (rows : List (List Str))
    (hdec : headerDecision n o h = .ok (some true)) (hnd : h.Nodup) (hcn : n.cn = none) :
    outcome o n h rows = .ok (rows.map (zipPad (h.map Key.name))) := by
  unfold outcome
  simp only [hdec, (hasDup_eq_false h).2 hnd, Bool.and_false, Bool.false_eq_true, if_false]
  congr 1
  apply List.map_congr_left
  intro r _
  have : headerCn n h = h.map Key.name := by simp [headerCn, hcn]
  rw [this, recOf_same o _ (nodup_map_name h hnd)]

theorem outcome_select (o : Opts) (hru : o.returnUnknown = false) (n : Norm) (h sel : List Str)
    (rows : List (List Str)) (hdec : headerDecision n o h = .ok (some true)) (hnd : h.Nodup)
    (hcn : n.cn = some sel) (hs : sel.Nodup) :
    outcome o n h rows
      = .ok (rows.map (fun r => sel.map (fun c => (Key.name c, cellAt h r c)))) := by
  unfold outcome
  simp only [hdec, (hasDup_eq_false h).2 hnd, Bool.and_false, Bool.false_eq_true, if_false]
  congr 1
  apply List.map_congr_left
  intro r _
  have : headerCn n h = sel.map Key.name := by simp [headerCn, hcn]
  rw [this, recOf_select o hru h sel hnd hs]

theorem outcome_data (o : Opts) (n : Norm) (h : List Str) (rows : List (List Str))
    (hdec : headerDecision n o h = .ok (some false)) (hnd : (dataNames n h).Nodup) :
    outcome o n h rows = .ok ((h :: rows).map (zipPad (dataNames n h))) := by
  unfold outcome
  simp only [hdec]
  congr 1
  apply List.map_congr_left
  intro r _
  rw [recOf_same o _ hnd]

/-- `normalise` reads only the three header arguments -/
theorem normalise_binary (o : Opts) (b : Bool) : normalise { o with binary := b } = normalise o := rfl

theorem headerDecision_binary (n : Norm) (o : Opts) (b : Bool) (h : List Str) :
    headerDecision n { o with binary := b } h = headerDecision n o h := rfl

theorem loadLines_norm_error (o : Opts) (e : PyErr) (h : normalise o = .error e) (ls : List Str) :
    loadLines o ls = .error e := by
  unfold loadLines
  simp [h, bind, Except.bind]

theorem zipPad_length (names : List Key) (row : List Str) :
    (zipPad names row).length = names.length := by
  induction names generalizing row with
  | nil => simp [zipPad]
  | cons k ks ih => cases row <;> simp [zipPad, ih]

theorem zipPad_getElem? (names : List Key) (row : List Str) (i : Nat) :
    (zipPad names row)[i]? = names[i]?.map (fun k => (k, row[i]?)) := by
  induction names generalizing row i with
  | nil => simp [zipPad]
  | cons k ks ih =>
    cases row with
    | nil =>
      cases i with
      | zero => simp [zipPad]
      | succ i => simp [zipPad, ih]
    | cons c cs =>
      cases i with
      | zero => simp [zipPad]
      | succ i => simp [zipPad, ih]

end N0.CsvFile
