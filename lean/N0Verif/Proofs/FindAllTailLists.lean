import N0Verif.Proofs.FindAllTail
import N0Verif.Proofs.FindAllList
/-!
  The descendant wildcard with a two-step tail, `'//*/name/sub'`, when an entry called `name` may hold a
  **list**: below a list `sub` fans out over the elements in document order (lists of lists
  recursively), keys `…/name[i]/sub` (`…/name[i][j]/sub`).  The hypothesis `NnlV` of
  `Proofs/FindAllTail.lean` is dropped; `ContOkV` (every list contains only dictionaries / lists — the
  quantifier of the property) is what makes the fan-out total.
-/
namespace N0.FindAll
open N0 N0.Py N0.Val N0.XPath

mutual
/-- what the step `sub` finds in / below a node (positions relative to the node): the entry `sub` of a
dictionary, the fan-out over the elements of a list, nothing below a final element -/
def subV (sub : Str) : Val → List (Pos × Val)
  | .dict _ kvs =>
    (match lookup sub kvs with
      | some x => [([Seg.key sub], x)]
      | Option.none => [])
  | .list _ xs => subL sub 0 xs
  | _ => []
def subL (sub : Str) : Nat → List Val → List (Pos × Val)
  | _, [] => []
  | i, x :: xs => (subV sub x).map (fun pv => (Seg.idx i :: pv.1, pv.2)) ++ subL sub (i + 1) xs
end

/-- what `sub` finds below one node `pv` called `name` (lists fan out) -/
def tl1L (sub : Str) (pv : Pos × Val) : List (Pos × Val) :=
  (subV sub pv.2).map (fun y => (pv.1 ++ y.1, y.2))

/-- the nodes `'//*/name/sub'` must find, from the nodes called `name` (document order), lists included -/
def tailOfL (sub : Str) (l : List (Pos × Val)) : List (Pos × Val) := l.flatMap (tl1L sub)

theorem tailOfL_append (sub : Str) (a b : List (Pos × Val)) :
    tailOfL sub (a ++ b) = tailOfL sub a ++ tailOfL sub b := by simp [tailOfL]

theorem tailOfL_map_cons (sub : Str) (s : Seg) (l : List (Pos × Val)) :
    tailOfL sub (l.map (fun pv => (s :: pv.1, pv.2))) = (tailOfL sub l).map (fun pv => (s :: pv.1, pv.2)) := by
  induction l with
  | nil => rfl
  | cons a r ih =>
    have h1 : tl1L sub (s :: a.1, a.2) = (tl1L sub a).map (fun pv => (s :: pv.1, pv.2)) := by
      simp [tl1L, List.map_map, Function.comp_def]
    simp only [tailOfL, List.map_cons, List.flatMap_cons, List.map_append] at ih ⊢
    rw [h1, ih]

/-- on a node called `name` that is not a list the fan-out is the old `tl1` -/
theorem tl1L_eq_tl1 (sub : Str) (pv : Pos × Val) (h : ∀ c xs, pv.2 ≠ .list c xs) : tl1L sub pv = tl1 sub pv := by
  obtain ⟨p, w⟩ := pv
  cases w <;> simp only [tl1L, tl1, subV, List.map_nil]
  next c xs => exact absurd rfl (h c xs)
  next c kvs => cases lookup sub kvs <;> simp

/-- `upd` with an optional result whose keys are new -/
theorem fatl_upd_getD (acc : Found) (f : Option Found) (h : ((acc ++ f.getD []).map Prod.fst).Nodup) :
    upd acc f = acc ++ f.getD [] := by
  cases f with
  | none => simp [upd]
  | some l => exact fad_upd_append l acc h

section sub
variable (re : Bool) (sub : Str)

/-- the step `sub` on a container at the rooted plain position `q ≠ []` -/
def SubPV (v : Val) : Prop :=
  isContainer v = true → ContOkV v → ∃ N, ∀ fuel ≥ N, ∀ (q : Pos) (ps : PS),
    Rooted q → q ≠ [] → PlainPos q →
    ((fadMapR q (subV sub v)).map Prod.fst).Nodup →
    ∃ f, (fa re fuel v [sub] (flPath [] q) ps).res = .ok f ∧ f.getD [] = fadMapR q (subV sub v)

def SubPL (xs : List Val) : Prop :=
  ContOkL xs → ∃ N, ∀ fuel ≥ N, ∀ (q : Pos) (ps : PS) (node : Val) (i : Nat) (cur : FL) (acc : Found),
    Rooted q → q ≠ [] → PlainPos q → cur.dropLast = (flPath [] q).dropLast →
    ((acc ++ fadMapR q (subL sub i xs)).map Prod.fst).Nodup →
    (starLoop (fun x cur1 => fa re fuel x [sub] cur1 (push ps cur1 node)) re
      ((flPath [] q).getLast?.getD []) i xs cur acc).1 = .ok (some (acc ++ fadMapR q (subL sub i xs)))

theorem fatl_sub_dict (hs : PlainKey sub) (c : Cls) (kvs : List (Str × Val)) : SubPV re sub (.dict c kvs) := by
  intro _ _
  refine ⟨2, fun fuel hf q ps hr hq hp _ => ?_⟩
  obtain ⟨f, rfl⟩ : ∃ f, fuel = f + 2 := ⟨fuel - 2, by omega⟩
  rw [fad_self_check re hs f c kvs (flPath [] q) ps]
  refine ⟨_, rfl, ?_⟩
  have hkey : keyOf (flPath [] q ++ [sub]) = slash ++ renderPos (q ++ [Seg.key sub]) := by
    rw [← fad_flPath_snoc_key]
    exact fad_keyOf_rooted (fad_rooted_snoc hr _ (fun h => absurd h hq)) (by simp)
      (fad_plainPos_append hp ⟨hs, trivial⟩)
  simp only [subV]
  cases lookup sub kvs with
  | none => rfl
  | some x => simp [fadMapR, hkey]

theorem fatl_sub_list (hs : PlainKey sub) (c : Cls) (xs : List Val) (hl : SubPL re sub xs) :
    SubPV re sub (.list c xs) := by
  intro _ hco
  simp only [ContOkV] at hco
  obtain ⟨N, hN⟩ := hl hco
  refine ⟨N + 2, fun fuel hf q ps hr hq hp hnd => ?_⟩
  obtain ⟨f, rfl⟩ : ∃ f, fuel = f + 2 := ⟨fuel - 2, by omega⟩
  have hfl := fad_flPath_rooted_ne hr hq
  have hb : classify ['[', '*', ']'] = .star := by decide
  have he : (flPath [] q).isEmpty = false := by
    cases hh : flPath [] q with
    | nil => exact absurd hh hfl
    | cons _ _ => rfl
  have hres : (fa re (f + 2) (.list c xs) [sub] (flPath [] q) ps).res =
      (starLoop (fun x cur1 => fa re f x [sub] cur1 (push ps cur1 (.list c xs))) re
        ((flPath [] q).getLast?.getD []) 0 xs (flPath [] q) []).1 := by
    simp only [fa, step, classify_plain hs, stepName, hb, stepStar, he, Bool.false_eq_true, if_false]
  rw [hres]
  simp only [subV] at hnd ⊢
  have := hN f (by omega) q ps (.list c xs) 0 (flPath [] q) [] hr hq hp rfl (by simpa using hnd)
  exact ⟨_, this, by simp⟩

theorem fatl_sub_lcons (x : Val) (xs : List Val) (hv : SubPV re sub x) (hl : SubPL re sub xs) :
    SubPL re sub (x :: xs) := by
  intro hco
  simp only [ContOkL] at hco
  obtain ⟨hcx, hcv, hcl⟩ := hco
  obtain ⟨N1, hN1⟩ := hv hcx hcv
  obtain ⟨N2, hN2⟩ := hl hcl
  refine ⟨max N1 N2, fun fuel hf q ps node i cur acc hr hq hp hcur hnd => ?_⟩
  have hf1 : fuel ≥ N1 := by omega
  have hf2 : fuel ≥ N2 := by omega
  simp only [subL, fadMapR_append] at hnd ⊢
  rw [← fadMapR_snoc] at hnd ⊢
  obtain ⟨hd1, hd2, hd3⟩ := fad_nodup_split hnd
  have hfl := fad_flPath_rooted_ne hr hq
  have hcur1 : setLast cur ((flPath [] q).getLast?.getD [] ++ bracket (natRepr i)) = flPath [] (q ++ [Seg.idx i]) := by
    rw [fad_flPath_snoc_idx]
    have he : (flPath [] q).isEmpty = false := by
      cases hh : flPath [] q with
      | nil => exact absurd hh hfl
      | cons _ _ => rfl
    simp only [bump, he, Bool.false_eq_true, if_false, setLast, hcur]
  obtain ⟨fr, hcall, hfr⟩ := hN1 fuel hf1 (q ++ [Seg.idx i]) (push ps (flPath [] (q ++ [Seg.idx i])) node)
    (fad_rooted_snoc hr _ (fun h => absurd h hq)) (by simp)
    (fad_plainPos_append hp (by trivial)) hd1
  simp only [starLoop, hcx, if_true, hcur1, hcall]
  rw [fatl_upd_getD _ _ (by rw [hfr]; exact hd2), hfr]
  have hdl : (fa re fuel x [sub] (flPath [] (q ++ [Seg.idx i])) (push ps (flPath [] (q ++ [Seg.idx i])) node)).fl.dropLast
      = (flPath [] q).dropLast := by
    rw [fa_dl, ← hcur1, setLast_dropLast, hcur]
  rw [hN2 fuel hf2 q ps node (i + 1) _ _ hr hq hp hdl hd3, List.append_assoc]

theorem fatl_sub_all (hs : PlainKey sub) : (∀ v, SubPV re sub v) ∧ (∀ xs, SubPL re sub xs) := by
  have h := fad_val_ind (PV := SubPV re sub) (PK := fun _ => True) (PL := SubPL re sub)
    (fun c kvs _ => fatl_sub_dict re sub hs c kvs)
    (fun c xs h => fatl_sub_list re sub hs c xs h)
    (fun v hv hc => by rw [hv] at hc; cases hc) trivial (fun _ _ _ _ _ => trivial) ?_
    (fun x xs h1 h2 => fatl_sub_lcons re sub x xs h1 h2)
  · exact ⟨h.1, h.2.2⟩
  · intro _
    exact ⟨0, fun fuel _ q ps node i cur acc _ _ _ _ _ => by simp [starLoop, subL, fadMapR]⟩

end sub

/-- `_findall(node, [name, sub], …)` on a dictionary at `q`: the `*` step's check of the node itself, when
the entry `name` may be a list -/
theorem fatl_self_check (re : Bool) {name sub : Str} (hn : PlainKey name) (hs : PlainKey sub) (c : Cls)
    (kvs : List (Str × Val)) (hco : ContOkK kvs) :
    ∃ N, ∀ fuel ≥ N, ∀ (q : Pos) (ps : PS), Rooted q → PlainPos q →
      ((fadMapR q (tailOfL sub (match lookup name kvs with
          | some c => [([Seg.key name], c)]
          | Option.none => []))).map Prod.fst).Nodup →
      ∃ self, fa re fuel (.dict c kvs) [name, sub] (flPath [] q) ps = ⟨.ok self, flPath [] q, ps⟩ ∧
        upd [] self = fadMapR q (tailOfL sub (match lookup name kvs with
          | some c => [([Seg.key name], c)]
          | Option.none => [])) := by
  have hke : name.isEmpty = false := by
    cases name with
    | nil => exact absurd rfl hn.ne
    | cons _ _ => rfl
  have hks : name ≠ ['*'] := hn.keyTok.notStar
  cases hl : lookup name kvs with
  | none =>
    refine ⟨1, fun fuel hf q ps _ _ _ => ?_⟩
    obtain ⟨f, rfl⟩ : ∃ f, fuel = f + 1 := ⟨fuel - 1, by omega⟩
    refine ⟨Option.none, ?_, rfl⟩
    rw [fa, step]
    simp only [classify_plain hn, stepName, hke, Bool.false_eq_true, if_false, hks, hl]
  | some c' =>
    by_cases hc : isContainer c' = true
    · obtain ⟨N, hN⟩ := (fatl_sub_all re sub hs).1 c' hc (fad_contOk_lookup hco hl)
      refine ⟨N + 1, fun fuel hf q ps hr hp hnd => ?_⟩
      obtain ⟨f, rfl⟩ : ∃ f, fuel = f + 1 := ⟨fuel - 1, by omega⟩
      have e : fadMapR q (tailOfL sub [([Seg.key name], c')]) = fadMapR (q ++ [Seg.key name]) (subV sub c') := by
        simp [tailOfL, tl1L, fadMapR, List.map_map, Function.comp_def]
      simp only at hnd ⊢
      rw [e] at hnd ⊢
      obtain ⟨fr, hcall, hfr⟩ := hN f (by omega) (q ++ [Seg.key name]) (push ps (flPath [] q) (.dict c kvs))
        (fad_rooted_snoc hr _ (fun _ => ⟨name, rfl⟩)) (by simp) (fad_plainPos_append hp ⟨hn, trivial⟩) hnd
      rw [fad_flPath_snoc_key] at hcall
      refine ⟨fr, ?_, ?_⟩
      · rw [fa, step]
        simp only [classify_plain hn, stepName, hke, Bool.false_eq_true, if_false, hks, hl, hcall]
      · rw [fatl_upd_getD [] fr (by rw [hfr]; simpa using hnd), hfr]; simp
    · have hc' : isContainer c' = false := by simpa using hc
      refine ⟨2, fun fuel hf q ps _ _ _ => ?_⟩
      obtain ⟨f, rfl⟩ : ∃ f, fuel = f + 2 := ⟨fuel - 2, by omega⟩
      refine ⟨Option.none, ?_, ?_⟩
      · rw [fa, step]
        simp only [classify_plain hn, stepName, hke, Bool.false_eq_true, if_false, hks, hl]
        cases c' <;> simp [isContainer] at hc' <;> simp [fa, step, classify_plain hs, stepName]
      · cases c' <;> simp [isContainer] at hc' <;> simp [upd, tailOfL, tl1L, subV, fadMapR]

section tail
variable (re : Bool) (name sub : Str)

def FatlPV (v : Val) : Prop :=
  isContainer v = true → KeysOkV v → ContOkV v → ∃ N, ∀ fuel ≥ N, ∀ (q : Pos) (ps : PS),
    Rooted q → PlainPos q → ((∃ c xs, v = .list c xs) → q ≠ []) →
    ((fadMapR q (tailOfL sub (descV name v))).map Prod.fst).Nodup →
    (fa re fuel v (fatT name sub) (flPath [] q) ps).res = .ok (some (fadMapR q (tailOfL sub (descV name v))))

def FatlPK (kvs : List (Str × Val)) : Prop :=
  KeysOkK kvs → ContOkK kvs → ∃ N, ∀ fuel ≥ N, ∀ (q : Pos) (ps : PS) (acc : Found),
    Rooted q → PlainPos q →
    ((acc ++ fadMapR q (tailOfL sub (descK name kvs))).map Prod.fst).Nodup →
    keysLoop (fun k c => fa re fuel c (fatT name sub) (flPath [] q ++ [k]) ps) kvs acc =
      .ok (some (acc ++ fadMapR q (tailOfL sub (descK name kvs))))

def FatlPL (xs : List Val) : Prop :=
  KeysOkL xs → ContOkL xs → ∃ N, ∀ fuel ≥ N, ∀ (q : Pos) (ps : PS) (node : Val) (i : Nat) (cur : FL) (acc : Found),
    Rooted q → q ≠ [] → PlainPos q → cur.dropLast = (flPath [] q).dropLast →
    ((acc ++ fadMapR q (tailOfL sub (descL name i xs))).map Prod.fst).Nodup →
    (starLoop (fun x cur1 => fa re fuel x (fatT name sub) cur1 (push ps cur1 node)) re
      ((flPath [] q).getLast?.getD []) i xs cur acc).1 = .ok (some (acc ++ fadMapR q (tailOfL sub (descL name i xs))))

theorem fatl_desc_dict (hn : PlainKey name) (hs : PlainKey sub) (c : Cls) (kvs : List (Str × Val))
    (hk : FatlPK re name sub kvs) : FatlPV re name sub (.dict c kvs) := by
  intro _ hko hco
  simp only [KeysOkV, ContOkV] at hko hco
  obtain ⟨N, hN⟩ := hk hko hco
  obtain ⟨M, hM⟩ := fatl_self_check re hn hs c kvs hco
  refine ⟨max N M + 1, fun fuel hf q ps hr hp _ hnd => ?_⟩
  obtain ⟨f, rfl⟩ : ∃ f, fuel = f + 1 := ⟨fuel - 1, by omega⟩
  simp only [descV, tailOfL_append, fadMapR_append] at hnd ⊢
  have hd1 := (List.nodup_append.1 (by simpa only [List.map_append] using hnd)).1
  obtain ⟨self, h1, hacc⟩ := hM f (by omega) q ps hr hp hd1
  have h2 := fad_star_dict re f c kvs [name, sub] (flPath [] q) ps _ h1
  show (fa re (f + 1) (.dict c kvs) (['*'] :: [name, sub]) (flPath [] q) ps).res = _
  rw [h2]
  simp only
  rw [hacc]
  exact hN f (by omega) q _ _ hr hp hnd

theorem fatl_desc_list (c : Cls) (xs : List Val) (hl : FatlPL re name sub xs) : FatlPV re name sub (.list c xs) := by
  intro _ hko hco
  simp only [KeysOkV, ContOkV] at hko hco
  obtain ⟨N, hN⟩ := hl hko hco
  refine ⟨N + 2, fun fuel hf q ps hr hp hq hnd => ?_⟩
  obtain ⟨f, rfl⟩ : ∃ f, fuel = f + 2 := ⟨fuel - 2, by omega⟩
  have hq' : q ≠ [] := hq ⟨c, xs, rfl⟩
  show (fa re (f + 2) (.list c xs) (['*'] :: [name, sub]) (flPath [] q) ps).res = _
  rw [fad_star_list re f c xs [name, sub] (flPath [] q) ps (fad_flPath_rooted_ne hr hq')]
  simp only [descV] at hnd ⊢
  have := hN f (by omega) q ps (.list c xs) 0 (flPath [] q) [] hr hq' hp rfl (by simpa using hnd)
  simpa [fatT] using this

theorem fatl_desc_kcons (k : Str) (c : Val) (kvs : List (Str × Val)) (hv : FatlPV re name sub c)
    (hk : FatlPK re name sub kvs) : FatlPK re name sub ((k, c) :: kvs) := by
  intro hko hco
  simp only [KeysOkK, ContOkK] at hko hco
  obtain ⟨hpk, _, hkc, hkk⟩ := hko
  obtain ⟨N2, hN2⟩ := hk hkk hco.2
  by_cases hc : isContainer c = true
  · obtain ⟨N1, hN1⟩ := hv hc hkc hco.1
    refine ⟨max N1 N2, fun fuel hf q ps acc hr hp hnd => ?_⟩
    have hf1 : fuel ≥ N1 := by omega
    have hf2 : fuel ≥ N2 := by omega
    simp only [descK, tailOfL_append, tailOfL_map_cons, fadMapR_append] at hnd ⊢
    rw [← fadMapR_snoc] at hnd ⊢
    obtain ⟨hd1, hd2, hd3⟩ := fad_nodup_split hnd
    have hcall := hN1 fuel hf1 (q ++ [Seg.key k]) ps (fad_rooted_snoc hr _ (fun _ => ⟨k, rfl⟩))
      (fad_plainPos_append hp ⟨hpk, trivial⟩) (fun _ => by simp) hd1
    rw [fad_flPath_snoc_key] at hcall
    simp only [keysLoop, hc, if_true, hcall]
    rw [fad_upd_append _ _ hd2, hN2 fuel hf2 q ps _ hr hp hd3, List.append_assoc]
  · have hc' : isContainer c = false := by simpa using hc
    refine ⟨N2, fun fuel hf q ps acc hr hp hnd => ?_⟩
    simp only [descK, fad_descV_scalar name c hc', List.map_nil, List.nil_append] at hnd ⊢
    simp only [keysLoop, hc', Bool.false_eq_true, if_false]
    exact hN2 fuel hf q ps acc hr hp hnd

theorem fatl_desc_lcons (x : Val) (xs : List Val) (hv : FatlPV re name sub x) (hl : FatlPL re name sub xs) :
    FatlPL re name sub (x :: xs) := by
  intro hko hco
  simp only [KeysOkL, ContOkL] at hko hco
  obtain ⟨hcx, hcv, hcl⟩ := hco
  obtain ⟨N1, hN1⟩ := hv hcx hko.1 hcv
  obtain ⟨N2, hN2⟩ := hl hko.2 hcl
  refine ⟨max N1 N2, fun fuel hf q ps node i cur acc hr hq hp hcur hnd => ?_⟩
  have hf1 : fuel ≥ N1 := by omega
  have hf2 : fuel ≥ N2 := by omega
  simp only [descL, tailOfL_append, tailOfL_map_cons, fadMapR_append] at hnd ⊢
  rw [← fadMapR_snoc] at hnd ⊢
  obtain ⟨hd1, hd2, hd3⟩ := fad_nodup_split hnd
  have hfl := fad_flPath_rooted_ne hr hq
  have hcur1 : setLast cur ((flPath [] q).getLast?.getD [] ++ bracket (natRepr i)) = flPath [] (q ++ [Seg.idx i]) := by
    rw [fad_flPath_snoc_idx]
    have he : (flPath [] q).isEmpty = false := by
      cases hh : flPath [] q with
      | nil => exact absurd hh hfl
      | cons _ _ => rfl
    simp only [bump, he, Bool.false_eq_true, if_false, setLast, hcur]
  have hcall := hN1 fuel hf1 (q ++ [Seg.idx i]) (push ps (flPath [] (q ++ [Seg.idx i])) node)
    (fad_rooted_snoc hr _ (fun h => absurd h hq))
    (fad_plainPos_append hp (by trivial)) (fun _ => by simp) hd1
  simp only [starLoop, hcx, if_true, hcur1, hcall]
  rw [fad_upd_append _ _ hd2]
  have hdl : (fa re fuel x (fatT name sub) (flPath [] (q ++ [Seg.idx i])) (push ps (flPath [] (q ++ [Seg.idx i])) node)).fl.dropLast
      = (flPath [] q).dropLast := by
    rw [fa_dl, ← hcur1, setLast_dropLast, hcur]
  rw [hN2 fuel hf2 q ps node (i + 1) _ _ hr hq hp hdl hd3, List.append_assoc]

theorem fatl_desc_all (hn : PlainKey name) (hs : PlainKey sub) :
    (∀ v, FatlPV re name sub v) ∧ (∀ kvs, FatlPK re name sub kvs) ∧ (∀ xs, FatlPL re name sub xs) := by
  refine fad_val_ind (fun c kvs h => fatl_desc_dict re name sub hn hs c kvs h)
    (fun c xs h => fatl_desc_list re name sub c xs h)
    (fun v hv hc => by rw [hv] at hc; cases hc) ?_ (fun k c kvs h1 h2 => fatl_desc_kcons re name sub k c kvs h1 h2) ?_
    (fun x xs h1 h2 => fatl_desc_lcons re name sub x xs h1 h2)
  · intro _ _
    exact ⟨0, fun fuel _ q ps acc _ _ _ => by simp [keysLoop, descK, fadMapR, tailOfL]⟩
  · intro _ _
    exact ⟨0, fun fuel _ q ps node i cur acc _ _ _ _ _ => by simp [starLoop, descL, fadMapR, tailOfL]⟩

end tail


/-! ## distinct keys -/

/-- relative positions of `subV`: indexes, then the key `sub` -/
def SubShape (sub : Str) (p : Pos) : Prop := ∃ is : List Nat, p = is.map Seg.idx ++ [Seg.key sub]

theorem fatl_sub_shape (sub : Str) :
    (∀ v, ∀ y ∈ subV sub v, SubShape sub y.1) ∧ (∀ xs, ∀ i, ∀ y ∈ subL sub i xs, SubShape sub y.1) := by
  have h := fad_val_ind (PV := fun v => ∀ y ∈ subV sub v, SubShape sub y.1) (PK := fun _ => True)
    (PL := fun xs => ∀ i, ∀ y ∈ subL sub i xs, SubShape sub y.1)
    (fun c kvs _ y hy => by
      simp only [subV] at hy
      cases hl : lookup sub kvs with
      | none => rw [hl] at hy; cases hy
      | some x =>
        rw [hl] at hy
        simp only [List.mem_singleton] at hy
        subst hy
        exact ⟨[], rfl⟩)
    (fun c xs h y hy => h 0 y (by simpa [subV] using hy))
    (fun v hv y hy => by cases v <;> simp [isContainer] at hv <;> simp [subV] at hy)
    trivial (fun _ _ _ _ _ => trivial)
    (fun i y hy => by simp [subL] at hy)
    (fun x xs h1 h2 i y hy => by
      simp only [subL, List.mem_append, List.mem_map] at hy
      rcases hy with ⟨z, hz, rfl⟩ | hy
      · obtain ⟨is, his⟩ := h1 z hz
        exact ⟨i :: is, by simp [his]⟩
      · exact h2 (i + 1) y hy)
  exact ⟨h.1, h.2.2⟩

theorem fatl_sub_distinct (sub : Str) :
    (∀ v, FadDistinct (subV sub v)) ∧
    (∀ xs, ∀ i, FadDistinct (subL sub i xs) ∧ ∀ y ∈ subL sub i xs, ∃ j r, i ≤ j ∧ y.1 = Seg.idx j :: r) := by
  have h := fad_val_ind (PV := fun v => FadDistinct (subV sub v)) (PK := fun _ => True)
    (PL := fun xs => ∀ i, FadDistinct (subL sub i xs) ∧ ∀ y ∈ subL sub i xs, ∃ j r, i ≤ j ∧ y.1 = Seg.idx j :: r)
    (fun c kvs _ => by
      simp only [subV]
      cases lookup sub kvs <;> simp)
    (fun c xs h => by simpa [subV] using (h 0).1)
    (fun v hv => by cases v <;> simp [isContainer] at hv <;> simp [subV])
    trivial (fun _ _ _ _ _ => trivial)
    (fun i => by simp [subL])
    (fun x xs h1 h2 i => by
      obtain ⟨hd, hh⟩ := h2 (i + 1)
      refine ⟨?_, ?_⟩
      · simp only [subL]
        refine List.pairwise_append.2 ⟨?_, hd, ?_⟩
        · refine List.pairwise_map.2 (h1.imp ?_)
          intro a b hab e
          exact hab (List.cons.inj e).2
        · intro a ha b hb e
          obtain ⟨z, _, rfl⟩ := List.mem_map.1 ha
          obtain ⟨j, r, hj, hr⟩ := hh b hb
          rw [hr] at e
          simp only [List.cons.injEq, Seg.idx.injEq] at e
          omega
      · intro y hy
        simp only [subL, List.mem_append, List.mem_map] at hy
        rcases hy with ⟨z, _, rfl⟩ | hy
        · exact ⟨i, z.1, Nat.le_refl _, rfl⟩
        · obtain ⟨j, r, hj, hr⟩ := hh y hy
          exact ⟨j, r, by omega, hr⟩)
  exact ⟨h.1, h.2.2⟩

/-- a position `a ++ [name] ++ indexes ++ [sub]` determines `a` (read from the end) -/
theorem fatl_cut (n : Str) : ∀ (l1 l2 : List Nat) (a b : Pos),
    l1.map Seg.idx ++ Seg.key n :: a = l2.map Seg.idx ++ Seg.key n :: b → a = b
  | [], [], _, _, h => by simpa using h
  | [], _ :: _, _, _, h => by simp at h
  | _ :: _, [], _, _, h => by simp at h
  | _ :: l1, _ :: l2, a, b, h => by
    simp only [List.map_cons, List.cons_append, List.cons.injEq] at h
    exact fatl_cut n l1 l2 a b h.2

theorem fatl_tail_distinct (name sub : Str) (l : List (Pos × Val)) (hd : FadDistinct l)
    (hl : ∀ b ∈ l, ∃ q, b.1 = q ++ [Seg.key name]) : FadDistinct (tailOfL sub l) := by
  induction l with
  | nil => exact List.Pairwise.nil
  | cons a r ih =>
    obtain ⟨ha, hr⟩ := List.pairwise_cons.1 hd
    have hone : FadDistinct (tl1L sub a) := by
      refine List.pairwise_map.2 (((fatl_sub_distinct sub).1 a.2).imp ?_)
      intro x y hxy e
      exact hxy (List.append_cancel_left e)
    show FadDistinct (tl1L sub a ++ tailOfL sub r)
    refine List.pairwise_append.2 ⟨hone, ih hr (fun b hb => hl b (List.mem_cons_of_mem _ hb)), ?_⟩
    intro x hx y hy e
    obtain ⟨b, hb, hyb⟩ := List.mem_flatMap.1 hy
    obtain ⟨x', hx', rfl⟩ := List.mem_map.1 hx
    obtain ⟨y', hy', rfl⟩ := List.mem_map.1 hyb
    obtain ⟨is1, h1⟩ := (fatl_sub_shape sub).1 _ x' hx'
    obtain ⟨is2, h2⟩ := (fatl_sub_shape sub).1 _ y' hy'
    obtain ⟨qa, hqa⟩ := hl a List.mem_cons_self
    obtain ⟨qb, hqb⟩ := hl b (List.mem_cons_of_mem _ hb)
    simp only at e
    rw [h1, h2, hqa, hqb] at e
    have e' := congrArg List.reverse e
    simp only [List.reverse_append, List.reverse_cons, List.reverse_nil, List.nil_append,
      List.cons_append, List.cons.injEq, true_and, ← List.map_reverse] at e'
    have := fatl_cut name _ _ _ _ e'
    exact ha b hb (by rw [hqa, hqb, List.reverse_inj.1 this])

theorem fatl_tail_plain {sub : Str} (hs : PlainKey sub) (l : List (Pos × Val)) (hp : ∀ pv ∈ l, PlainPos pv.1) :
    ∀ pv ∈ tailOfL sub l, PlainPos pv.1 := by
  intro pv hpv
  obtain ⟨b, hb, hm⟩ := List.mem_flatMap.1 hpv
  obtain ⟨y, hy, rfl⟩ := List.mem_map.1 hm
  obtain ⟨is, his⟩ := (fatl_sub_shape sub).1 _ y hy
  refine fad_plainPos_append (hp b hb) ?_
  rw [his]
  clear his
  induction is with
  | nil => exact ⟨hs, trivial⟩
  | cons i r ih => exact ih

/-- **`'//*/name/sub'` on a dict root, lists under `name` included**: exactly `tailOfL sub (descV name root)`
under canonical xpaths, document order -/
theorem fatl_descendant (re : Bool) {name sub : Str} (hn : PlainKey name) (hs : PlainKey sub) (c : Cls)
    (kvs : List (Str × Val)) (hko : KeysOkV (.dict c kvs)) (hco : ContOkV (.dict c kvs)) :
    ∃ N, ∀ fuel ≥ N, (fa re fuel (.dict c kvs) (fatT name sub) [] []).res =
      .ok (some ((tailOfL sub (descV name (.dict c kvs))).map (fun pv => (slash ++ renderPos pv.1, pv.2)))) := by
  obtain ⟨N, hN⟩ := (fatl_desc_all re name sub hn hs).1 (.dict c kvs) rfl hko hco
  refine ⟨N, fun fuel hf => ?_⟩
  have := hN fuel hf [] [] trivial trivial (fun h => by obtain ⟨_, _, h⟩ := h; cases h)
    (fad_keys_nodup _ (fatl_tail_distinct name sub _ ((fad_desc_distinct name).1 _ hko).1
        (fun b hb => (((fad_desc_mem name).1 _ hko b.1 b.2).1 hb).1))
      (fatl_tail_plain hs _ (fad_desc_plain hko)))
  simpa [fadMapR, flPath] using this

/-- without lists under `name` the fan-out reference is the old one -/
theorem fatl_tailOfL_eq (sub : Str) (l : List (Pos × Val)) (h : ∀ b ∈ l, ∀ c xs, b.2 ≠ .list c xs) :
    tailOfL sub l = tailOf sub l := by
  induction l with
  | nil => rfl
  | cons a r ih =>
    show tl1L sub a ++ tailOfL sub r = tl1 sub a ++ tailOf sub r
    rw [tl1L_eq_tl1 sub a (h a List.mem_cons_self), ih (fun b hb => h b (List.mem_cons_of_mem _ hb))]


/-! ## list roots -/

section subr
variable (re : Bool) (sub : Str)

/-- the step `sub` on a container at the rooted plain position `q ≠ []` -/
def SubRV (v : Val) : Prop :=
  isContainer v = true → ContOkV v → ∃ N, ∀ fuel ≥ N, ∀ (q : Pos) (ps : PS),
    FalRooted q → q ≠ [] → PlainPos q →
    ((falMapR q (subV sub v)).map Prod.fst).Nodup →
    ∃ f, (fa re fuel v [sub] (flPath [] q) ps).res = .ok f ∧ f.getD [] = falMapR q (subV sub v)

def SubRL (xs : List Val) : Prop :=
  ContOkL xs → ∃ N, ∀ fuel ≥ N, ∀ (q : Pos) (ps : PS) (node : Val) (i : Nat) (cur : FL) (acc : Found),
    FalRooted q → q ≠ [] → PlainPos q → cur.dropLast = (flPath [] q).dropLast →
    ((acc ++ falMapR q (subL sub i xs)).map Prod.fst).Nodup →
    (starLoop (fun x cur1 => fa re fuel x [sub] cur1 (push ps cur1 node)) re
      ((flPath [] q).getLast?.getD []) i xs cur acc).1 = .ok (some (acc ++ falMapR q (subL sub i xs)))

theorem fatr_sub_dict (hs : PlainKey sub) (c : Cls) (kvs : List (Str × Val)) : SubRV re sub (.dict c kvs) := by
  intro _ _
  refine ⟨2, fun fuel hf q ps hr hq hp _ => ?_⟩
  obtain ⟨f, rfl⟩ : ∃ f, fuel = f + 2 := ⟨fuel - 2, by omega⟩
  rw [fad_self_check re hs f c kvs (flPath [] q) ps]
  refine ⟨_, rfl, ?_⟩
  have hkey : keyOf (flPath [] q ++ [sub]) = '/' :: '/' :: renderPos (q ++ [Seg.key sub]) := by
    rw [← fad_flPath_snoc_key]
    exact fal_keyOf_rooted (fal_rooted_snoc hr _ (fun h => absurd h hq)) (by simp)
      (fad_plainPos_append hp ⟨hs, trivial⟩)
  simp only [subV]
  cases lookup sub kvs with
  | none => rfl
  | some x => simp [falMapR, hkey]

theorem fatr_sub_list (hs : PlainKey sub) (c : Cls) (xs : List Val) (hl : SubRL re sub xs) :
    SubRV re sub (.list c xs) := by
  intro _ hco
  simp only [ContOkV] at hco
  obtain ⟨N, hN⟩ := hl hco
  refine ⟨N + 2, fun fuel hf q ps hr hq hp hnd => ?_⟩
  obtain ⟨f, rfl⟩ : ∃ f, fuel = f + 2 := ⟨fuel - 2, by omega⟩
  have hfl := fal_flPath_ne hr hq
  have hb : classify ['[', '*', ']'] = .star := by decide
  have he : (flPath [] q).isEmpty = false := by
    cases hh : flPath [] q with
    | nil => exact absurd hh hfl
    | cons _ _ => rfl
  have hres : (fa re (f + 2) (.list c xs) [sub] (flPath [] q) ps).res =
      (starLoop (fun x cur1 => fa re f x [sub] cur1 (push ps cur1 (.list c xs))) re
        ((flPath [] q).getLast?.getD []) 0 xs (flPath [] q) []).1 := by
    simp only [fa, step, classify_plain hs, stepName, hb, stepStar, he, Bool.false_eq_true, if_false]
  rw [hres]
  simp only [subV] at hnd ⊢
  have := hN f (by omega) q ps (.list c xs) 0 (flPath [] q) [] hr hq hp rfl (by simpa using hnd)
  exact ⟨_, this, by simp⟩

theorem fatr_sub_lcons (x : Val) (xs : List Val) (hv : SubRV re sub x) (hl : SubRL re sub xs) :
    SubRL re sub (x :: xs) := by
  intro hco
  simp only [ContOkL] at hco
  obtain ⟨hcx, hcv, hcl⟩ := hco
  obtain ⟨N1, hN1⟩ := hv hcx hcv
  obtain ⟨N2, hN2⟩ := hl hcl
  refine ⟨max N1 N2, fun fuel hf q ps node i cur acc hr hq hp hcur hnd => ?_⟩
  have hf1 : fuel ≥ N1 := by omega
  have hf2 : fuel ≥ N2 := by omega
  simp only [subL, falMapR_append] at hnd ⊢
  rw [← falMapR_snoc] at hnd ⊢
  obtain ⟨hd1, hd2, hd3⟩ := fad_nodup_split hnd
  have hfl := fal_flPath_ne hr hq
  have hcur1 : setLast cur ((flPath [] q).getLast?.getD [] ++ bracket (natRepr i)) = flPath [] (q ++ [Seg.idx i]) := by
    rw [fad_flPath_snoc_idx]
    have he : (flPath [] q).isEmpty = false := by
      cases hh : flPath [] q with
      | nil => exact absurd hh hfl
      | cons _ _ => rfl
    simp only [bump, he, Bool.false_eq_true, if_false, setLast, hcur]
  obtain ⟨fr, hcall, hfr⟩ := hN1 fuel hf1 (q ++ [Seg.idx i]) (push ps (flPath [] (q ++ [Seg.idx i])) node)
    (fal_rooted_snoc hr _ (fun _ => ⟨i, rfl⟩)) (by simp)
    (fad_plainPos_append hp (by trivial)) hd1
  simp only [starLoop, hcx, if_true, hcur1, hcall]
  rw [fatl_upd_getD _ _ (by rw [hfr]; exact hd2), hfr]
  have hdl : (fa re fuel x [sub] (flPath [] (q ++ [Seg.idx i])) (push ps (flPath [] (q ++ [Seg.idx i])) node)).fl.dropLast
      = (flPath [] q).dropLast := by
    rw [fa_dl, ← hcur1, setLast_dropLast, hcur]
  rw [hN2 fuel hf2 q ps node (i + 1) _ _ hr hq hp hdl hd3, List.append_assoc]

theorem fatr_sub_all (hs : PlainKey sub) : (∀ v, SubRV re sub v) ∧ (∀ xs, SubRL re sub xs) := by
  have h := fad_val_ind (PV := SubRV re sub) (PK := fun _ => True) (PL := SubRL re sub)
    (fun c kvs _ => fatr_sub_dict re sub hs c kvs)
    (fun c xs h => fatr_sub_list re sub hs c xs h)
    (fun v hv hc => by rw [hv] at hc; cases hc) trivial (fun _ _ _ _ _ => trivial) ?_
    (fun x xs h1 h2 => fatr_sub_lcons re sub x xs h1 h2)
  · exact ⟨h.1, h.2.2⟩
  · intro _
    exact ⟨0, fun fuel _ q ps node i cur acc _ _ _ _ _ => by simp [starLoop, subL, falMapR]⟩

end subr

/-- `_findall(node, [name, sub], …)` on a dictionary at `q`: the `*` step's check of the node itself, when
the entry `name` may be a list -/
theorem fatr_self_check (re : Bool) {name sub : Str} (hn : PlainKey name) (hs : PlainKey sub) (c : Cls)
    (kvs : List (Str × Val)) (hco : ContOkK kvs) :
    ∃ N, ∀ fuel ≥ N, ∀ (q : Pos) (ps : PS), FalRooted q → q ≠ [] → PlainPos q →
      ((falMapR q (tailOfL sub (match lookup name kvs with
          | some c => [([Seg.key name], c)]
          | Option.none => []))).map Prod.fst).Nodup →
      ∃ self, fa re fuel (.dict c kvs) [name, sub] (flPath [] q) ps = ⟨.ok self, flPath [] q, ps⟩ ∧
        upd [] self = falMapR q (tailOfL sub (match lookup name kvs with
          | some c => [([Seg.key name], c)]
          | Option.none => [])) := by
  have hke : name.isEmpty = false := by
    cases name with
    | nil => exact absurd rfl hn.ne
    | cons _ _ => rfl
  have hks : name ≠ ['*'] := hn.keyTok.notStar
  cases hl : lookup name kvs with
  | none =>
    refine ⟨1, fun fuel hf q ps _ _ _ _ => ?_⟩
    obtain ⟨f, rfl⟩ : ∃ f, fuel = f + 1 := ⟨fuel - 1, by omega⟩
    refine ⟨Option.none, ?_, rfl⟩
    rw [fa, step]
    simp only [classify_plain hn, stepName, hke, Bool.false_eq_true, if_false, hks, hl]
  | some c' =>
    by_cases hc : isContainer c' = true
    · obtain ⟨N, hN⟩ := (fatr_sub_all re sub hs).1 c' hc (fad_contOk_lookup hco hl)
      refine ⟨N + 1, fun fuel hf q ps hr hq hp hnd => ?_⟩
      obtain ⟨f, rfl⟩ : ∃ f, fuel = f + 1 := ⟨fuel - 1, by omega⟩
      have e : falMapR q (tailOfL sub [([Seg.key name], c')]) = falMapR (q ++ [Seg.key name]) (subV sub c') := by
        simp [tailOfL, tl1L, falMapR, List.map_map, Function.comp_def]
      simp only at hnd ⊢
      rw [e] at hnd ⊢
      obtain ⟨fr, hcall, hfr⟩ := hN f (by omega) (q ++ [Seg.key name]) (push ps (flPath [] q) (.dict c kvs))
        (fal_rooted_snoc hr _ (fun h => absurd h hq)) (by simp) (fad_plainPos_append hp ⟨hn, trivial⟩) hnd
      rw [fad_flPath_snoc_key] at hcall
      refine ⟨fr, ?_, ?_⟩
      · rw [fa, step]
        simp only [classify_plain hn, stepName, hke, Bool.false_eq_true, if_false, hks, hl, hcall]
      · rw [fatl_upd_getD [] fr (by rw [hfr]; simpa using hnd), hfr]; simp
    · have hc' : isContainer c' = false := by simpa using hc
      refine ⟨2, fun fuel hf q ps _ _ _ _ => ?_⟩
      obtain ⟨f, rfl⟩ : ∃ f, fuel = f + 2 := ⟨fuel - 2, by omega⟩
      refine ⟨Option.none, ?_, ?_⟩
      · rw [fa, step]
        simp only [classify_plain hn, stepName, hke, Bool.false_eq_true, if_false, hks, hl]
        cases c' <;> simp [isContainer] at hc' <;> simp [fa, step, classify_plain hs, stepName]
      · cases c' <;> simp [isContainer] at hc' <;> simp [upd, tailOfL, tl1L, subV, falMapR]

section tailr
variable (re : Bool) (name sub : Str)

def FatrPV (v : Val) : Prop :=
  isContainer v = true → KeysOkV v → ContOkV v → ∃ N, ∀ fuel ≥ N, ∀ (q : Pos) (ps : PS),
    FalRooted q → q ≠ [] → PlainPos q →
    ((falMapR q (tailOfL sub (descV name v))).map Prod.fst).Nodup →
    (fa re fuel v (fatT name sub) (flPath [] q) ps).res = .ok (some (falMapR q (tailOfL sub (descV name v))))

def FatrPK (kvs : List (Str × Val)) : Prop :=
  KeysOkK kvs → ContOkK kvs → ∃ N, ∀ fuel ≥ N, ∀ (q : Pos) (ps : PS) (acc : Found),
    FalRooted q → q ≠ [] → PlainPos q →
    ((acc ++ falMapR q (tailOfL sub (descK name kvs))).map Prod.fst).Nodup →
    keysLoop (fun k c => fa re fuel c (fatT name sub) (flPath [] q ++ [k]) ps) kvs acc =
      .ok (some (acc ++ falMapR q (tailOfL sub (descK name kvs))))

def FatrPL (xs : List Val) : Prop :=
  KeysOkL xs → ContOkL xs → ∃ N, ∀ fuel ≥ N, ∀ (q : Pos) (ps : PS) (node : Val) (i : Nat) (cur : FL) (acc : Found),
    FalRooted q → PlainPos q → cur.dropLast = (flPath [] q).dropLast →
    ((acc ++ falMapR q (tailOfL sub (descL name i xs))).map Prod.fst).Nodup →
    (starLoop (fun x cur1 => fa re fuel x (fatT name sub) cur1 (push ps cur1 node)) re
      ((flPath [] q).getLast?.getD []) i xs cur acc).1 = .ok (some (acc ++ falMapR q (tailOfL sub (descL name i xs))))

theorem fatr_desc_dict (hn : PlainKey name) (hs : PlainKey sub) (c : Cls) (kvs : List (Str × Val))
    (hk : FatrPK re name sub kvs) : FatrPV re name sub (.dict c kvs) := by
  intro _ hko hco
  simp only [KeysOkV, ContOkV] at hko hco
  obtain ⟨N, hN⟩ := hk hko hco
  obtain ⟨M, hM⟩ := fatr_self_check re hn hs c kvs hco
  refine ⟨max N M + 1, fun fuel hf q ps hr hq hp hnd => ?_⟩
  obtain ⟨f, rfl⟩ : ∃ f, fuel = f + 1 := ⟨fuel - 1, by omega⟩
  simp only [descV, tailOfL_append, falMapR_append] at hnd ⊢
  have hd1 := (List.nodup_append.1 (by simpa only [List.map_append] using hnd)).1
  obtain ⟨self, h1, hacc⟩ := hM f (by omega) q ps hr hq hp hd1
  have h2 := fad_star_dict re f c kvs [name, sub] (flPath [] q) ps _ h1
  show (fa re (f + 1) (.dict c kvs) (['*'] :: [name, sub]) (flPath [] q) ps).res = _
  rw [h2]
  simp only
  rw [hacc]
  exact hN f (by omega) q _ _ hr hq hp hnd

theorem fatr_desc_list (c : Cls) (xs : List Val) (hl : FatrPL re name sub xs) : FatrPV re name sub (.list c xs) := by
  intro _ hko hco
  simp only [KeysOkV, ContOkV] at hko hco
  obtain ⟨N, hN⟩ := hl hko hco
  refine ⟨N + 2, fun fuel hf q ps hr hq hp hnd => ?_⟩
  obtain ⟨f, rfl⟩ : ∃ f, fuel = f + 2 := ⟨fuel - 2, by omega⟩
  show (fa re (f + 2) (.list c xs) (['*'] :: [name, sub]) (flPath [] q) ps).res = _
  rw [fad_star_list re f c xs [name, sub] (flPath [] q) ps (fal_flPath_ne hr hq)]
  simp only [descV] at hnd ⊢
  have := hN f (by omega) q ps (.list c xs) 0 (flPath [] q) [] hr hp rfl (by simpa using hnd)
  simpa [fatT] using this

theorem fatr_desc_kcons (k : Str) (c : Val) (kvs : List (Str × Val)) (hv : FatrPV re name sub c)
    (hk : FatrPK re name sub kvs) : FatrPK re name sub ((k, c) :: kvs) := by
  intro hko hco
  simp only [KeysOkK, ContOkK] at hko hco
  obtain ⟨hpk, _, hkc, hkk⟩ := hko
  obtain ⟨N2, hN2⟩ := hk hkk hco.2
  by_cases hc : isContainer c = true
  · obtain ⟨N1, hN1⟩ := hv hc hkc hco.1
    refine ⟨max N1 N2, fun fuel hf q ps acc hr hq hp hnd => ?_⟩
    have hf1 : fuel ≥ N1 := by omega
    have hf2 : fuel ≥ N2 := by omega
    simp only [descK, tailOfL_append, tailOfL_map_cons, falMapR_append] at hnd ⊢
    rw [← falMapR_snoc] at hnd ⊢
    obtain ⟨hd1, hd2, hd3⟩ := fad_nodup_split hnd
    have hcall := hN1 fuel hf1 (q ++ [Seg.key k]) ps (fal_rooted_snoc hr _ (fun h => absurd h hq)) (by simp)
      (fad_plainPos_append hp ⟨hpk, trivial⟩) hd1
    rw [fad_flPath_snoc_key] at hcall
    simp only [keysLoop, hc, if_true, hcall]
    rw [fad_upd_append _ _ hd2, hN2 fuel hf2 q ps _ hr hq hp hd3, List.append_assoc]
  · have hc' : isContainer c = false := by simpa using hc
    refine ⟨N2, fun fuel hf q ps acc hr hq hp hnd => ?_⟩
    simp only [descK, fad_descV_scalar name c hc', List.map_nil, List.nil_append] at hnd ⊢
    simp only [keysLoop, hc', Bool.false_eq_true, if_false]
    exact hN2 fuel hf q ps acc hr hq hp hnd

theorem fatr_desc_lcons (x : Val) (xs : List Val) (hv : FatrPV re name sub x) (hl : FatrPL re name sub xs) :
    FatrPL re name sub (x :: xs) := by
  intro hko hco
  simp only [KeysOkL, ContOkL] at hko hco
  obtain ⟨hcx, hcv, hcl⟩ := hco
  obtain ⟨N1, hN1⟩ := hv hcx hko.1 hcv
  obtain ⟨N2, hN2⟩ := hl hko.2 hcl
  refine ⟨max N1 N2, fun fuel hf q ps node i cur acc hr hp hcur hnd => ?_⟩
  have hf1 : fuel ≥ N1 := by omega
  have hf2 : fuel ≥ N2 := by omega
  simp only [descL, tailOfL_append, tailOfL_map_cons, falMapR_append] at hnd ⊢
  rw [← falMapR_snoc] at hnd ⊢
  obtain ⟨hd1, hd2, hd3⟩ := fad_nodup_split hnd
  have hcur1 : setLast cur ((flPath [] q).getLast?.getD [] ++ bracket (natRepr i)) = flPath [] (q ++ [Seg.idx i]) := by
    rw [fad_flPath_snoc_idx, fal_bump_eq]
    simp only [setLast, hcur]
  have hcall := hN1 fuel hf1 (q ++ [Seg.idx i]) (push ps (flPath [] (q ++ [Seg.idx i])) node)
    (fal_rooted_snoc hr _ (fun _ => ⟨i, rfl⟩)) (by simp)
    (fad_plainPos_append hp (by trivial)) hd1
  simp only [starLoop, hcx, if_true, hcur1, hcall]
  rw [fad_upd_append _ _ hd2]
  have hdl : (fa re fuel x (fatT name sub) (flPath [] (q ++ [Seg.idx i])) (push ps (flPath [] (q ++ [Seg.idx i])) node)).fl.dropLast
      = (flPath [] q).dropLast := by
    rw [fa_dl, ← hcur1, setLast_dropLast, hcur]
  rw [hN2 fuel hf2 q ps node (i + 1) _ _ hr hp hdl hd3, List.append_assoc]

theorem fatr_desc_all (hn : PlainKey name) (hs : PlainKey sub) :
    (∀ v, FatrPV re name sub v) ∧ (∀ kvs, FatrPK re name sub kvs) ∧ (∀ xs, FatrPL re name sub xs) := by
  refine fad_val_ind (fun c kvs h => fatr_desc_dict re name sub hn hs c kvs h)
    (fun c xs h => fatr_desc_list re name sub c xs h)
    (fun v hv hc => by rw [hv] at hc; cases hc) ?_ (fun k c kvs h1 h2 => fatr_desc_kcons re name sub k c kvs h1 h2) ?_
    (fun x xs h1 h2 => fatr_desc_lcons re name sub x xs h1 h2)
  · intro _ _
    exact ⟨0, fun fuel _ q ps acc _ _ _ _ => by simp [keysLoop, descK, falMapR, tailOfL]⟩
  · intro _ _
    exact ⟨0, fun fuel _ q ps node i cur acc _ _ _ _ => by simp [starLoop, descL, falMapR, tailOfL]⟩

end tailr

/-- **`'//*/name/sub'` on a list root, lists under `name` included**: exactly `tailOfL sub (descV name root)`,
keys `"//" ++` rendered position, document order -/
theorem fatl_descendant_list (re : Bool) {name sub : Str} (hn : PlainKey name) (hs : PlainKey sub) (c : Cls)
    (xs : List Val) (hko : KeysOkV (.list c xs)) (hco : ContOkV (.list c xs)) :
    ∃ N, ∀ fuel ≥ N, (fa re fuel (.list c xs) (fatT name sub) [] []).res =
      .ok (some ((tailOfL sub (descV name (.list c xs))).map (fun pv => ('/' :: '/' :: renderPos pv.1, pv.2)))) := by
  have hko' : KeysOkL xs := by simpa only [KeysOkV] using hko
  have hco' : ContOkL xs := by simpa only [ContOkV] using hco
  obtain ⟨N, hN⟩ := (fatr_desc_all re name sub hn hs).2.2 xs hko' hco'
  refine ⟨N + 2, fun fuel hf => ?_⟩
  obtain ⟨f, rfl⟩ : ∃ f, fuel = f + 2 := ⟨fuel - 2, by omega⟩
  have hnd := fal_keys_nodup _ (fatl_tail_distinct name sub _ ((fad_desc_distinct name).1 _ hko).1
        (fun b hb => (((fad_desc_mem name).1 _ hko b.1 b.2).1 hb).1))
      (fatl_tail_plain hs _ (fad_desc_plain hko))
  simp only [descV] at hnd ⊢
  have := hN f (by omega) [] [] (.list c xs) 0 [[]] [] trivial trivial rfl (by simpa using hnd)
  show (fa re (f + 2) (.list c xs) (['*'] :: [name, sub]) [] []).res = _
  rw [fal_star_root]
  simpa [fatT, falMapR, flPath] using this


/-! ## the reference in terms of positions (`getAt`) -/

theorem fatl_sub_mem (sub : Str) :
    (∀ v p w, (p, w) ∈ subV sub v ↔ SubShape sub p ∧ getAt v p = some w) ∧
    (∀ xs i p w, (p, w) ∈ subL sub i xs ↔
      ∃ j x r, xs[j]? = some x ∧ p = Seg.idx (i + j) :: r ∧ SubShape sub r ∧ getAt x r = some w) := by
  have h := fad_val_ind (PV := fun v => ∀ p w, (p, w) ∈ subV sub v ↔ SubShape sub p ∧ getAt v p = some w)
    (PK := fun _ => True)
    (PL := fun xs => ∀ i p w, (p, w) ∈ subL sub i xs ↔
      ∃ j x r, xs[j]? = some x ∧ p = Seg.idx (i + j) :: r ∧ SubShape sub r ∧ getAt x r = some w)
    ?_ ?_ ?_ trivial (fun _ _ _ _ _ => trivial) ?_ ?_
  · exact ⟨h.1, h.2.2⟩
  · intro c kvs _ p w
    simp only [subV]
    constructor
    · intro h
      cases hl : lookup sub kvs with
      | none => rw [hl] at h; cases h
      | some x =>
        rw [hl] at h
        simp only [List.mem_singleton, Prod.mk.injEq] at h
        obtain ⟨rfl, rfl⟩ := h
        exact ⟨⟨[], rfl⟩, by simp [Val.getAt, child, hl]⟩
    · rintro ⟨⟨is, rfl⟩, hg⟩
      cases is with
      | nil =>
        simp only [List.map_nil, List.nil_append, Val.getAt, child] at hg
        cases hl : lookup sub kvs with
        | none => rw [hl] at hg; cases hg
        | some x =>
          rw [hl] at hg
          simp only [Option.bind_some, Option.some.injEq] at hg
          subst hg
          simp
      | cons i is => simp [Val.getAt, child] at hg
  · intro c xs ih p w
    simp only [subV, ih 0]
    constructor
    · rintro ⟨j, x, r, hx, rfl, ⟨is, rfl⟩, hg⟩
      refine ⟨⟨j :: is, by simp⟩, ?_⟩
      simp only [Val.getAt, child, Nat.zero_add, hx, Option.bind_some]
      exact hg
    · rintro ⟨⟨is, rfl⟩, hg⟩
      cases is with
      | nil => simp [Val.getAt, child] at hg
      | cons n is =>
        simp only [List.map_cons, List.cons_append, Val.getAt, child] at hg
        cases hl : xs[n]? with
        | none => rw [hl] at hg; cases hg
        | some x =>
          rw [hl] at hg
          exact ⟨n, x, _, hl, by simp, ⟨is, rfl⟩, hg⟩
  · intro v hv p w
    constructor
    · intro h; cases v <;> simp [isContainer] at hv <;> simp [subV] at h
    · rintro ⟨⟨is, rfl⟩, hg⟩
      cases is <;> cases v <;> simp [isContainer] at hv <;> simp [Val.getAt, child] at hg
  · intro i p w
    simp [subL]
  · intro x xs ihv ihl i p w
    simp only [subL, List.mem_append, List.mem_map, ihl]
    constructor
    · rintro (⟨⟨r, w'⟩, hm, heq⟩ | ⟨j, x', r, hx, rfl, hq, hg⟩)
      · simp only [Prod.mk.injEq] at heq
        obtain ⟨rfl, rfl⟩ := heq
        obtain ⟨hq, hg⟩ := (ihv r w').1 hm
        exact ⟨0, x, r, by simp, rfl, hq, hg⟩
      · exact ⟨j + 1, x', r, by simpa using hx, by simp; omega, hq, hg⟩
    · rintro ⟨j, x', r, hx, rfl, hq, hg⟩
      cases j with
      | zero =>
        left
        simp only [List.getElem?_cons_zero, Option.some.injEq] at hx
        subst hx
        exact ⟨(r, w), (ihv r w).2 ⟨hq, hg⟩, rfl⟩
      | succ j =>
        right
        simp only [List.getElem?_cons_succ] at hx
        exact ⟨j, x', r, hx, by simp; omega, hq, hg⟩

/-- `tailOfL sub (descV name t)` lists `(p, v)` iff `p` is `… name`, any number of indexes, `sub` and `v` is the
node there -/
theorem fatl_tail_mem_getAt (name sub : Str) (t : Val) (hk : KeysOkV t) (p : Pos) (v : Val) :
    (p, v) ∈ tailOfL sub (descV name t) ↔
      ∃ (q : Pos) (is : List Nat), p = q ++ [Seg.key name] ++ is.map Seg.idx ++ [Seg.key sub] ∧ getAt t p = some v := by
  constructor
  · intro h
    obtain ⟨b, hb, hm⟩ := List.mem_flatMap.1 h
    obtain ⟨y, hy, heq⟩ := List.mem_map.1 hm
    simp only [Prod.mk.injEq] at heq
    obtain ⟨rfl, rfl⟩ := heq
    obtain ⟨⟨q, hq⟩, hg⟩ := ((fad_desc_mem name).1 t hk b.1 b.2).1 hb
    obtain ⟨⟨is, his⟩, hg2⟩ := ((fatl_sub_mem sub).1 b.2 y.1 y.2).1 hy
    refine ⟨q, is, by rw [hq, his]; simp, ?_⟩
    rw [getAt_append, hg]
    exact hg2
  · rintro ⟨q, is, rfl, hg⟩
    have e : q ++ [Seg.key name] ++ is.map Seg.idx ++ [Seg.key sub] =
        (q ++ [Seg.key name]) ++ (is.map Seg.idx ++ [Seg.key sub]) := by simp
    rw [e, getAt_append] at hg
    cases hw : getAt t (q ++ [Seg.key name]) with
    | none => rw [hw] at hg; cases hg
    | some w =>
      rw [hw] at hg
      rw [e]
      refine List.mem_flatMap.2 ⟨(q ++ [Seg.key name], w), ((fad_desc_mem name).1 t hk _ _).2 ⟨⟨q, rfl⟩, hw⟩, ?_⟩
      exact List.mem_map.2 ⟨(is.map Seg.idx ++ [Seg.key sub], v),
        ((fatl_sub_mem sub).1 w _ v).2 ⟨⟨is, rfl⟩, hg⟩, rfl⟩

end N0.FindAll
