import N0Verif.Model.Esc
import N0Verif.Gen.EscPy
/-!
  The second piece that `harness/translate_py_esc.py` (with `translate_py_esc2.py`) regenerates from the Python source:
  the loop of `serialize_dict` that protects reserved characters (`Gen.EscPy.escBody` / `Gen.EscPy.escapeLoop`).
  It is equal to the hand-written `Esc.escapeValue (Esc.dangerous d eq) s`, for every text, delimiter and equal tag;
  the f-string formats `{code:02x}` / `{code:04x}` / `{code:08x}` (`fmtHex`) are `Esc.hex2` / `hex4` / `hex8` in their ranges.
-/
namespace N0.EscGenEq2
open N0 N0.Py N0.Esc N0.Gen.EscPy

theorem hexCh_eq (n : Nat) : hexCh n = hexDigit n := rfl

theorem fmtHex_two (n : Nat) (h : n < 0x100) : fmtHex 2 n = hex2 n := by
  have h1 : n / 16 % 16 = n / 16 := by omega
  simp [fmtHex, fmtHexFix, hex2, hexCh_eq, h, h1]

theorem fmtHex_four (n : Nat) (h : n < 0x10000) : fmtHex 4 n = hex4 n := by
  simp [fmtHex, fmtHexFix, hex4, hexCh_eq, h, Nat.div_div_eq_div_mul]

theorem fmtHex_eight (n : Nat) (h : n < 0x100000000) : fmtHex 8 n = hex8 n := by
  unfold fmtHex
  rw [if_pos (show n < 16 ^ 8 by omega)]
  have e : fmtHexFix 8 n = [hexCh (n / 16 / 16 / 16 / 16 / 16 / 16 / 16 % 16), hexCh (n / 16 / 16 / 16 / 16 / 16 / 16 % 16),
      hexCh (n / 16 / 16 / 16 / 16 / 16 % 16), hexCh (n / 16 / 16 / 16 / 16 % 16), hexCh (n / 16 / 16 / 16 % 16),
      hexCh (n / 16 / 16 % 16), hexCh (n / 16 % 16), hexCh (n % 16)] := rfl
  have h2 : n / 16 / 16 = n / 256 := by omega
  have h3 : n / 256 / 16 = n / 4096 := by omega
  have h4 : n / 4096 / 16 = n / 65536 := by omega
  have h5 : n / 65536 / 16 = n / 1048576 := by omega
  have h6 : n / 1048576 / 16 = n / 16777216 := by omega
  have h7 : n / 16777216 / 16 = n / 268435456 := by omega
  rw [e, h2, h3, h4, h5, h6, h7]
  rfl

theorem char_lt (c : Char) : c.toNat < 0x100000000 := by
  have := c.val.toNat_lt
  show c.val.toNat < 4294967296
  omega

/-- the translated body of the `for` appends `Esc.escChar` of the character -/
theorem escBody_eq (s d eq dang buf : Str) (c : Char) : escBody s d eq dang buf c = buf ++ escChar dang c := by
  unfold escBody escChar escNote
  by_cases hc : c ∈ dang
  · by_cases h1 : c.toNat < 0x100
    · simp [hc, h1, fmtHex_two]
    · by_cases h2 : c.toNat < 0x10000
      · simp [hc, h1, h2, fmtHex_four]
      · simp [hc, h1, h2, fmtHex_eight, char_lt]
  · simp [hc]

theorem foldl_escBody (s d eq dang : Str) : ∀ (xs buf : Str),
    List.foldl (escBody s d eq dang) buf xs = buf ++ escapeValue dang xs := by
  intro xs
  induction xs with
  | nil => intro buf; simp [escapeValue]
  | cons c cs ih =>
    intro buf
    rw [List.foldl_cons, ih, escBody_eq]
    simp [escapeValue, List.flatMap_cons]

/-- the translated escaping loop is `Esc.escapeValue` over `Esc.dangerous`, for every input -/
theorem escapeLoop_eq (s d eq : Str) : escapeLoop s d eq = escapeValue (dangerous d eq) s := by
  simp [escapeLoop, foldl_escBody, dangerous]

end N0.EscGenEq2
