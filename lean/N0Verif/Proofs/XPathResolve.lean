import N0Verif.Proofs.XPathRender
/-! End-to-end: a canonical path resolves through `getItem/get/first` to the node it names. -/
namespace N0.XPath
open N0 N0.Py N0.Val

theorem sContains_eq : sContains = ['c', 'o', 'n', 't', 'a', 'i', 'n', 's'] := by decide

theorem Digits.idxExpr {ds : Str} (hd : Digits ds) : IdxExpr ds where
  ne := hd.ne
  head := fun c hc => (digit_ne (hd.all c (List.mem_of_mem_head? hc))).2.2.2.2.2.2.2.2.2.2.2.1
  last := fun c hc => (digit_ne (hd.all c (List.mem_of_getLast? hc))).2.2.2.2.2.2.2.2.2.2.2.1
  notContains := by
    rw [hd.lower]
    cases ds with
    | nil => exact absurd rfl hd.ne
    | cons c ds =>
      have : c ≠ 'c' := by
        intro heq
        have := hd.all c (by simp)
        rw [heq] at this; exact absurd this (by decide)
      rw [sContains_eq]
      simp [startsWith, this]
  noEq := fun c hc =>
    let d := digit_ne (hd.all c hc)
    ⟨d.2.2.2.2.2.2.2.2.1, d.2.2.2.2.2.2.2.2.2.1⟩

theorem natStr_digits (n : Nat) : Digits (natStr n) := digits_natDigits n

theorem natStr_idxExpr (n : Nat) : IdxExpr (natStr n) := (natStr_digits n).idxExpr

theorem natStr_ne_special (n : Nat) : natStr n ≠ sNew ∧ natStr n ≠ ['*'] := by
  have hd := natStr_digits n
  refine ⟨hd.ne_new.1, ?_⟩
  intro heq
  have := hd.all '*' (by rw [heq]; simp)
  exact absurd this (by decide)

theorem normIdx_nat {n len : Nat} (h : n < len) : normIdx (n : Int) len = some n := by
  unfold normIdx
  simp [h]

theorem natStr_idxTok (n : Nat) : IdxTok (bracket (natStr n)) (natStr n) (n : Int) :=
  (natStr_idxExpr n).idxTok (natStr_ne_special n).1 (natStr_ne_special n).2 (n0eval_nat n)

theorem getAt_cons_some {v c : Val} {s : Seg} {rest : Pos} (h : getAt v (s :: rest) = some c) :
    ∃ x, child v s = some x ∧ getAt x rest = some c := by
  simp only [getAt] at h
  cases hc : child v s with
  | none => simp [hc] at h
  | some x => exact ⟨x, rfl, by simpa [hc] using h⟩

theorem child_key_some {v x : Val} {k : Str} (h : child v (.key k) = some x) :
    ∃ cls kvs, v = .dict cls kvs ∧ lookup k kvs = some x := by
  cases v with
  | dict cls kvs => exact ⟨cls, kvs, rfl, by simpa [child] using h⟩
  | _ => simp [child] at h

theorem child_idx_some {v x : Val} {n : Nat} (h : child v (.idx n) = some x) :
    ∃ cls xs, v = .list cls xs ∧ xs[n]? = some x ∧ n < xs.length := by
  cases v with
  | list cls xs =>
    simp only [child] at h
    have hlt : n < xs.length := by
      rcases Nat.lt_or_ge n xs.length with hlt | hge
      · exact hlt
      · rw [List.getElem?_eq_none hge] at h; cases h
    exact ⟨cls, xs, rfl, h, hlt⟩
  | _ => simp [child] at h

/-- the merged tokens of a valid plain position spell it -/
theorem spells_merged : ∀ (p : Pos) (v c : Val), PlainPos p → getAt v p = some c → Spells (mergedToks p) v p c
  | [], v, c, _, h => by
    simp [getAt] at h; subst h; exact .nil v
  | [.key k], v, c, hp, h => by
    obtain ⟨x, hc, hr⟩ := getAt_cons_some h
    obtain ⟨cls, kvs, rfl, hl⟩ := child_key_some hc
    simp [getAt] at hr; subst hr
    exact .key hp.1.keyTok hl (.nil _)
  | .key k :: .key k2 :: rest, v, c, hp, h => by
    obtain ⟨x, hc, hr⟩ := getAt_cons_some h
    obtain ⟨cls, kvs, rfl, hl⟩ := child_key_some hc
    have ih := spells_merged (.key k2 :: rest) x c hp.2 hr
    exact .key hp.1.keyTok hl ih
  | .key k :: .idx n :: rest, v, c, hp, h => by
    obtain ⟨x, hc, hr⟩ := getAt_cons_some h
    obtain ⟨cls, kvs, rfl, hl⟩ := child_key_some hc
    obtain ⟨y, hc2, hr2⟩ := getAt_cons_some hr
    obtain ⟨cls', xs, rfl, hx, hlt⟩ := child_idx_some hc2
    have ih := spells_merged rest y c hp.2 hr2
    exact .keyIdx (keyIdxTok_of hp.1 (natStr_idxExpr n) (natStr_ne_special n).1 (natStr_ne_special n).2 (n0eval_nat n))
      hl (normIdx_nat hlt) hx ih
  | .idx n :: rest, v, c, hp, h => by
    obtain ⟨y, hc2, hr2⟩ := getAt_cons_some h
    obtain ⟨cls', xs, rfl, hx, hlt⟩ := child_idx_some hc2
    have ih := spells_merged rest y c hp hr2
    exact .idx (natStr_idxTok n) (normIdx_nat hlt) hx ih

theorem mergedToks_length_le (p : Pos) : (mergedToks p).length ≤ p.length := by
  induction p using mergedToks.induct with
  | case1 => simp [mergedToks]
  | case2 k n rest ih => simp [mergedToks]; omega
  | case3 k rest hne ih => rw [mergedToks]; simp; omega; exact hne
  | case4 n rest ih => simp [mergedToks]; omega

theorem mergedToks_ne_nil (p : Pos) (h : p ≠ []) : mergedToks p ≠ [] := by
  cases p with
  | nil => exact absurd rfl h
  | cons s r =>
    cases s with
    | key k =>
      cases r with
      | nil => simp [mergedToks]
      | cons s2 r2 => cases s2 <;> simp [mergedToks]
    | idx n => simp [mergedToks]

end N0.XPath
