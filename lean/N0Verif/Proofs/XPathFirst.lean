import N0Verif.Model.XPathApi
import N0Verif.Proofs.XPathPure
/-!
  `first` since fix C04-f: the lookup runs with a private marker as default (`getCoreS`), the caller's default is
  handed back as it is when the marker returns, only a found value is unwrapped.

  * `first_getCoreS_spec`: `getCore … d` is `getCoreS` with the marker replaced by `d` — for every root, path, flag;
    so `getCoreS` is the same transcription of `_get` as `getCore`.
  * the bridge the other proof files use: `first_of_found`, `first_of_miss`, `first_of_ite` (a lookup described for
    every default), `first_fst`, `first_error_iff`, `first_ok_of_getCore`;
  * `first_getCoreS_raise`: the marker comes back exactly on the branches on which `_get` raises when
    `raise_exception` is set (plus `''` on a list root, which `_get` answers with the default even then).
-/
namespace N0.XPath
open N0 N0.Py N0.Val

/-- the marker replaced by the caller's default -/
def orDflt (d : Val) : PyM (Option Val) → PyM Val
  | .ok o => .ok (o.getD d)
  | .error e => .error e

/-- **`getCore` is `getCoreS` with the marker replaced by the default** -/
theorem first_getCoreS_spec (fuel : Nat) (root : Val) (xp : Str) (d : Val) (raise rl : Bool) :
    getCore fuel root xp d raise rl =
      ((getCoreS fuel root xp raise rl).1, orDflt d (getCoreS fuel root xp raise rl).2) := by
  cases root with
  | dict c kvs =>
    simp only [getCore, getCoreS]
    by_cases hq : startsWith xp ['?'] = true
    · simp only [hq, if_true]
      by_cases hp : hasPathChar (xp.drop 1) = true
      · simp only [hp, if_true]
        cases findD fuel (.dict c kvs) [] false true (tokenize (xp.drop 1)) (.at []) rl slash with
        | error e => by_cases hc : caught e = true <;> simp [hc, orDflt]
        | ok pr =>
          obtain ⟨root', r⟩ := pr
          by_cases hf : r.isFound = true <;> simp [hf, orDflt]
      · simp only [hp, Bool.false_eq_true, if_false]
        cases lookup (xp.drop 1) kvs <;> simp [orDflt]
    · simp only [hq, Bool.false_eq_true, if_false]
      by_cases hp : hasPathChar xp = true
      · simp only [hp, if_true]
        cases findD fuel (.dict c kvs) [] false true (tokenize xp) (.at []) rl slash with
        | error e => by_cases hc : caught e = true <;> cases raise <;> simp [hc, orDflt]
        | ok pr =>
          obtain ⟨root', r⟩ := pr
          by_cases hf : r.isFound = true <;> cases raise <;> simp [hf, orDflt]
      · simp only [hp, Bool.false_eq_true, if_false]
        cases lookup xp kvs <;> cases raise <;> simp [orDflt]
  | list c xs =>
    simp only [getCore, getCoreS]
    by_cases he : xp.isEmpty = true
    · simp [he, orDflt]
    · simp only [he, Bool.false_eq_true, if_false]
      by_cases hq : startsWith xp ['?'] = true
      · simp only [hq, if_true]
        by_cases hp : hasPathChar (xp.drop 1) = true
        · simp only [hp, if_true]
          cases findL fuel (.list c xs) [] (tokenize (xp.drop 1)) (.at []) rl slash with
          | error e => by_cases hc : caught e = true <;> simp [hc, orDflt]
          | ok pr =>
            obtain ⟨root', r⟩ := pr
            by_cases hf : r.isFound = true <;> simp [hf, orDflt]
        · simp only [hp, Bool.false_eq_true, if_false]
          cases n0eval (xp.drop 1) with
          | error e => simp [orDflt]
          | ok iv =>
            cases iv with
            | int i => cases hn : normIdx i xs.length <;> simp [hn, orDflt]
            | str s => simp [orDflt]
      · simp only [hq, Bool.false_eq_true, if_false]
        by_cases hp : hasPathChar xp = true
        · simp only [hp, if_true]
          cases findL fuel (.list c xs) [] (tokenize xp) (.at []) rl slash with
          | error e => by_cases hc : caught e = true <;> cases raise <;> simp [hc, orDflt]
          | ok pr =>
            obtain ⟨root', r⟩ := pr
            by_cases hf : r.isFound = true <;> cases raise <;> simp [hf, orDflt]
        · simp only [hp, Bool.false_eq_true, if_false]
          cases n0eval xp with
          | error e => simp [orDflt]
          | ok iv =>
            cases iv with
            | int i => cases hn : normIdx i xs.length <;> cases raise <;> simp [hn, orDflt]
            | str s => cases raise <;> simp [orDflt]
  | none => simp [getCore, getCoreS, orDflt]
  | bool _ => simp [getCore, getCoreS, orDflt]
  | int _ => simp [getCore, getCoreS, orDflt]
  | flt _ => simp [getCore, getCoreS, orDflt]
  | str _ => simp [getCore, getCoreS, orDflt]

/-- `first` in terms of the marker lookup (the definition, as an equation) -/
theorem first_def (fuel : Nat) (root : Val) (xp : Str) (d : Val) :
    first fuel root xp d =
      (match getCoreS fuel root xp false false with
       | (t', .error e) => (t', .error e)
       | (t', .ok Option.none) => (t', .ok d)
       | (t', .ok (some v)) => (t', .ok (unwrap1 v))) := rfl

/-- the tree `first` returns is the tree the lookup returns -/
theorem first_fst (fuel : Nat) (root : Val) (xp : Str) (d : Val) :
    (first fuel root xp d).1 = (getCore fuel root xp d false false).1 := by
  rw [first_getCoreS_spec, first_def]
  rcases getCoreS fuel root xp false false with ⟨t', (e | (_ | v))⟩ <;> rfl

/-- `first` raises exactly what the lookup raises -/
theorem first_error_iff (fuel : Nat) (root : Val) (xp : Str) (d : Val) (e : PyErr) :
    (first fuel root xp d).2 = .error e ↔ (getCore fuel root xp d false false).2 = .error e := by
  rw [first_getCoreS_spec, first_def]
  rcases getCoreS fuel root xp false false with ⟨t', (e' | (_ | v))⟩ <;> simp [orDflt]

/-- `first` returns normally whenever the lookup does -/
theorem first_ok_of_getCore (fuel : Nat) (root : Val) (xp : Str) (d v : Val)
    (h : (getCore fuel root xp d false false).2 = .ok v) : ∃ w, (first fuel root xp d).2 = .ok w := by
  rw [first_getCoreS_spec] at h
  rw [first_def]
  generalize getCoreS fuel root xp false false = g at h ⊢
  rcases g with ⟨t', (e' | (_ | v'))⟩
  · simp [orDflt] at h
  · exact ⟨d, rfl⟩
  · exact ⟨unwrap1 v', rfl⟩

/-- the lookup returns the same value `v` for every default: it is a found value, `first` unwraps it -/
theorem first_of_found {fuel : Nat} {root t' : Val} {xp : Str} {v : Val}
    (h : ∀ d, getCore fuel root xp d false false = (t', .ok v)) (d : Val) :
    first fuel root xp d = (t', .ok (unwrap1 v)) := by
  have h1 := h Val.none
  have h2 := h (Val.bool true)
  rw [first_getCoreS_spec] at h1 h2
  rw [first_def]
  generalize getCoreS fuel root xp false false = g at h1 h2 ⊢
  rcases g with ⟨s, (e' | (_ | v'))⟩
  · simp [orDflt] at h1
  · simp only [orDflt, Option.getD_none, Prod.mk.injEq, Except.ok.injEq] at h1 h2
    have := h1.2.trans h2.2.symm
    cases this
  · simp only [orDflt, Option.getD_some, Prod.mk.injEq, Except.ok.injEq] at h1
    obtain ⟨rfl, rfl⟩ := h1
    rfl

/-- the lookup returns the default, whatever it is: the marker came back, `first` returns the default as it is -/
theorem first_of_miss {fuel : Nat} {root t' : Val} {xp : Str}
    (h : ∀ d, getCore fuel root xp d false false = (t', .ok d)) (d : Val) :
    first fuel root xp d = (t', .ok d) := by
  have h1 := h Val.none
  have h2 := h (Val.bool true)
  rw [first_getCoreS_spec] at h1 h2
  rw [first_def]
  generalize getCoreS fuel root xp false false = g at h1 h2 ⊢
  rcases g with ⟨s, (e' | (_ | v'))⟩
  · simp [orDflt] at h1
  · simp only [orDflt, Option.getD_none, Prod.mk.injEq] at h1
    obtain ⟨rfl, _⟩ := h1
    rfl
  · simp only [orDflt, Option.getD_some, Prod.mk.injEq, Except.ok.injEq] at h1 h2
    have := h1.2.symm.trans h2.2
    cases this

/-- the usual shape of the `_get` lemmas: found → the value, else the default -/
theorem first_of_ite {fuel : Nat} {root t' : Val} {xp : Str} {b : Bool} {v : Val}
    (h : ∀ d, getCore fuel root xp d false false = (t', if b then .ok v else .ok d)) (d : Val) :
    first fuel root xp d = (t', .ok (if b then unwrap1 v else d)) := by
  cases b with
  | true => simpa using first_of_found (v := v) (by simpa using h) d
  | false => simpa using first_of_miss (by simpa using h) d

/-- an error of the lookup is the error of `first` -/
theorem first_of_error {fuel : Nat} {root t' : Val} {xp : Str} {d : Val} {e : PyErr}
    (h : getCore fuel root xp d false false = (t', .error e)) : first fuel root xp d = (t', .error e) := by
  have h1 := first_fst fuel root xp d
  have h2 := (first_error_iff fuel root xp d e).2 (by rw [h])
  rw [h] at h1
  exact Prod.ext h1 h2

/-- which exceptions of the raising lookup are a miss for the non-raising one: the funnelled classes, and the
`KeyError` of a plain missing key -/
def missErr (xp : Str) (e : PyErr) : Bool := caught e || (e = .KeyError && !hasPathChar xp)

/-- **the marker comes back exactly where `_get` raises with `raise_exception` set** (no `?` prefix): the
non-raising marker lookup is the raising one with the miss classes replaced by the marker -/
theorem first_getCoreS_raise (fuel : Nat) (root : Val) (xp : Str) (rl : Bool) (hq : startsWith xp ['?'] = false) :
    getCoreS fuel root xp false rl =
      (match getCoreS fuel root xp true rl with
       | (t', .ok o) => (t', .ok o)
       | (t', .error e) => if missErr xp e then (t', .ok Option.none) else (t', .error e)) := by
  cases root with
  | dict c kvs =>
    simp only [getCoreS, hq, Bool.false_eq_true, if_false]
    by_cases hp : hasPathChar xp = true
    · simp only [hp, if_true]
      cases findD fuel (.dict c kvs) [] false true (tokenize xp) (.at []) rl slash with
      | error e => by_cases hc : caught e = true <;> simp [hc, missErr, hp]
      | ok pr =>
        obtain ⟨root', r⟩ := pr
        by_cases hf : r.isFound = true <;> simp [hf, missErr, caught]
    · simp only [hp, Bool.false_eq_true, if_false]
      cases lookup xp kvs <;> simp [missErr, hp]
  | list c xs =>
    simp only [getCoreS]
    by_cases he : xp.isEmpty = true
    · simp [he]
    · simp only [he, Bool.false_eq_true, if_false, hq]
      by_cases hp : hasPathChar xp = true
      · simp only [hp, if_true]
        cases findL fuel (.list c xs) [] (tokenize xp) (.at []) rl slash with
        | error e => by_cases hc : caught e = true <;> simp [hc, missErr, hp]
        | ok pr =>
          obtain ⟨root', r⟩ := pr
          by_cases hf : r.isFound = true <;> simp [hf, missErr, caught]
      · simp only [hp, Bool.false_eq_true, if_false]
        cases hn0 : n0eval xp with
        | error e =>
          have := n0eval_err hn0
          subst this
          simp [missErr, caught]
        | ok iv =>
          cases iv with
          | int i => cases hn : normIdx i xs.length <;> simp [hn, missErr, caught]
          | str s => simp [missErr, caught]
  | none => simp [getCoreS, missErr, caught]
  | bool _ => simp [getCoreS, missErr, caught]
  | int _ => simp [getCoreS, missErr, caught]
  | flt _ => simp [getCoreS, missErr, caught]
  | str _ => simp [getCoreS, missErr, caught]

/-- with `raise_exception` set the marker itself is handed out only for `''` on a list root -/
theorem first_getCoreS_raise_none (fuel : Nat) (root : Val) (xp : Str) (rl : Bool) (hq : startsWith xp ['?'] = false)
    (hne : xp ≠ []) (t' : Val) : getCoreS fuel root xp true rl ≠ (t', .ok Option.none) := by
  have he : xp.isEmpty = false := by cases xp <;> simp_all
  cases root with
  | dict c kvs =>
    simp only [getCoreS, hq, Bool.false_eq_true, if_false]
    by_cases hp : hasPathChar xp = true
    · simp only [hp, if_true]
      cases findD fuel (.dict c kvs) [] false true (tokenize xp) (.at []) rl slash with
      | error e => by_cases hc : caught e = true <;> simp [hc]
      | ok pr =>
        obtain ⟨root', r⟩ := pr
        by_cases hf : r.isFound = true <;> simp [hf]
    · simp only [hp, Bool.false_eq_true, if_false]
      cases lookup xp kvs <;> simp
  | list c xs =>
    simp only [getCoreS, he, Bool.false_eq_true, if_false, hq]
    by_cases hp : hasPathChar xp = true
    · simp only [hp, if_true]
      cases findL fuel (.list c xs) [] (tokenize xp) (.at []) rl slash with
      | error e => by_cases hc : caught e = true <;> simp [hc]
      | ok pr =>
        obtain ⟨root', r⟩ := pr
        by_cases hf : r.isFound = true <;> simp [hf]
    · simp only [hp, Bool.false_eq_true, if_false]
      cases n0eval xp with
      | error e => simp
      | ok iv =>
        cases iv with
        | int i => cases hn : normIdx i xs.length <;> simp [hn]
        | str s => simp
  | none => simp [getCoreS]
  | bool _ => simp [getCoreS]
  | int _ => simp [getCoreS]
  | flt _ => simp [getCoreS]
  | str _ => simp [getCoreS]

/-- **a miss gives the default as it is**: when the raising form of the lookup `first` performs
(`return_lists=False`) raises a miss class, `first` returns the caller's default, whatever value it is -/
theorem first_miss_identity (fuel : Nat) (root : Val) (xp : Str) (d d0 : Val) (e : PyErr)
    (hq : startsWith xp ['?'] = false)
    (hmiss : (getCore fuel root xp d0 true false).2 = .error e) (he : missErr xp e = true) :
    first fuel root xp d = ((getCore fuel root xp d0 true false).1, .ok d) := by
  rw [first_getCoreS_spec] at hmiss ⊢
  rw [first_def, first_getCoreS_raise fuel root xp false hq]
  generalize getCoreS fuel root xp true false = g at hmiss ⊢
  rcases g with ⟨t', (e' | o)⟩
  · simp only [orDflt, Except.error.injEq] at hmiss
    subst hmiss
    simp [he]
  · simp [orDflt] at hmiss

/-- **a hit is unwrapped, the default plays no part**: when the raising form of the lookup returns `v`, `first`
returns `unwrap1 v` for every default -/
theorem first_hit (fuel : Nat) (root : Val) (xp : Str) (d d0 v : Val)
    (hq : startsWith xp ['?'] = false) (hne : xp ≠ [])
    (hhit : (getCore fuel root xp d0 true false).2 = .ok v) :
    first fuel root xp d = ((getCore fuel root xp d0 true false).1, .ok (unwrap1 v)) := by
  have hnone := first_getCoreS_raise_none fuel root xp false hq hne
  rw [first_getCoreS_spec] at hhit ⊢
  rw [first_def, first_getCoreS_raise fuel root xp false hq]
  generalize getCoreS fuel root xp true false = g at hhit hnone ⊢
  rcases g with ⟨t', (e' | (_ | w))⟩
  · simp [orDflt] at hhit
  · exact absurd rfl (hnone t')
  · simp only [orDflt, Option.getD_some, Except.ok.injEq] at hhit
    subst hhit
    rfl

end N0.XPath
